(** Model of src/frontend/ast.rs and source_range.rs: the syntax tree with source ranges. *)
From Coq Require Import List ZArith NArith Bool.
From RRSS Require Import Base.Outcome Base.Chars Base.F64 Exec.Ops.
Import ListNotations.
Open Scope N_scope.

(** * Source locations and ranges (source_range.rs) *)

Record loc := mkLoc { line : N; col : N }.
Record range := mkRange { rstart : loc; rend : loc }.

Definition loc_compare (a b : loc) : comparison :=
  match line a ?= line b with Eq => col a ?= col b | c => c end.
Definition loc_ltb (a b : loc) : bool := match loc_compare a b with Lt => true | _ => false end.

(** derived [Ord] on [SourceRange]: start, then end *)
Definition range_compare (a b : range) : comparison :=
  match loc_compare (rstart a) (rstart b) with Eq => loc_compare (rend a) (rend b) | c => c end.

(** [SourceRange::new]: normalised *)
Definition range_new (s e : loc) : range := if loc_ltb e s then mkRange e s else mkRange s e.

(** [SourceRange::concat]: start of the smaller, end of the larger (by [Ord]) *)
Definition range_concat (a b : range) : range :=
  match range_compare a b with
  | Gt => mkRange (rstart b) (rend a)
  | _ => mkRange (rstart a) (rend b)
  end.

Definition range_to (r : range) (l : loc) : range := range_concat r (range_new l l).
Definition loc_to (a b : loc) : range := range_new a b.

(** * Expressions *)

Inductive literal :=
  | LMysterious
  | LBool (b : bool)
  | LNull
  | LNumber (f : f64)
  | LString (s : str).

Inductive varname :=
  | Simple (s : str)
  | Common (prefix word : str)
  | Proper (words : list str).

Inductive ident := IVar (v : varname) | IPronoun.

Inductive primary :=
  | PLit (l : literal) (r : range)
  | PIdent (i : ident) (r : range)
  | PSubscript (arr sub : primary)
  | PCall (name : varname) (r : range) (args : list expr)
  | PPop (arr : primary)
with expr :=
  | EPrimary (p : primary)
  | EBinary (op : binop) (lhs : expr) (rhs_first : expr) (rhs_rest : list expr)
  | EUnary (op : unop) (e : expr).

Inductive lhs :=
  | LIdent (i : ident) (r : range)
  | LSubscript (arr sub : primary).

Inductive pelem := PEWord (s : str) | PESuffix (s : str) | PEDot.

Inductive pn_rhs := PNExpr (e : expr) | PNLit (elems : list pelem).
Inductive push_rhs := PushList (first : expr) (rest : list expr) | PushLit (elems : list pelem).
Inductive mutop := MCut | MJoin | MCast.
Inductive rounddir := RUp | RDown | RNearest.

Inductive stmt :=
  | SAssign (dest : lhs) (first : expr) (rest : list expr) (op : option binop)
  | SPoeticNum (dest : lhs) (rhs : pn_rhs)
  | SPoeticStr (dest : lhs) (s : str)
  | SIf (c : expr) (then_ : block) (else_ : option block)
  | SWhile (c : expr) (b : block)
  | SUntil (c : expr) (b : block)
  | SInc (dest : ident) (r : range) (amount : Z)
  | SDec (dest : ident) (r : range) (amount : Z)
  | SInput (dest : option lhs) (l : loc)       (* [l] is meaningful only when [dest = None] *)
  | SOutput (e : expr)
  | SMutation (op : mutop) (operand : primary) (dest : option lhs) (param : option expr)
  | SRounding (dir : rounddir) (operand : expr)
  | SContinue (r : range)
  | SBreak (r : range)
  | SPush (arr : primary) (value : option push_rhs)
  | SPop (arr : primary) (dest : option lhs)
  | SReturn (e : expr)
  | SFunction (name : varname) (r : range) (params : list (varname * range)) (body : block)
  | SCall (name : varname) (r : range) (args : list expr)
with block :=
  | BEmpty (l : loc)
  | BNonEmpty (ss : list stmt).

Definition program := list block.

Definition block_new (l : loc) (ss : list stmt) : block :=
  match ss with [] => BEmpty l | _ => BNonEmpty ss end.
Definition block_is_empty (b : block) : bool := match b with BEmpty _ => true | _ => false end.

(** * Ranges of nodes ([impl Range]) *)

Definition last_opt {A} (l : list A) : option A :=
  match rev l with x :: _ => Some x | [] => None end.

Fixpoint primary_range (p : primary) : range :=
  match p with
  | PLit _ r => r
  | PIdent _ r => r
  | PSubscript a s => range_concat (primary_range a) (primary_range s)
  | PCall _ r args =>
      (fix lastr (l : list expr) (acc : option range) : range :=
         match l with
         | [] => match acc with Some x => range_concat r x | None => r end
         | e :: t => lastr t (Some (expr_range e))
         end) args None
  | PPop a => primary_range a
  end
with expr_range (e : expr) : range :=
  match e with
  | EPrimary p => primary_range p
  | EBinary _ l f rest =>
      range_concat (expr_range l)
        ((fix lastr (l : list expr) (acc : option range) : range :=
            match l with
            | [] => match acc with Some x => range_concat (expr_range f) x | None => expr_range f end
            | e :: t => lastr t (Some (expr_range e))
            end) rest None)
  | EUnary _ x => expr_range x
  end.

Definition exprlist_range (first : expr) (rest : list expr) : range :=
  match last_opt rest with
  | Some l => range_concat (expr_range first) (expr_range l)
  | None => expr_range first
  end.

Definition lhs_range (l : lhs) : range :=
  match l with
  | LIdent _ r => r
  | LSubscript a s => range_concat (primary_range a) (primary_range s)
  end.

Definition range_line (r : range) : N := line (rstart r).

(** * Lines of statements ([impl Line]) *)

Fixpoint stmt_line (s : stmt) : res unit N :=
  match s with
  | SAssign _ f rest _ => Ok (range_line (exprlist_range f rest))
  | SPoeticNum d _ => Ok (range_line (lhs_range d))
  | SPoeticStr d _ => Ok (range_line (lhs_range d))
  | SIf c _ _ => Ok (range_line (expr_range c))
  | SWhile c _ => Ok (range_line (expr_range c))
  | SUntil c _ => Ok (range_line (expr_range c))
  | SInc _ r _ => Ok (range_line r)
  | SDec _ r _ => Ok (range_line r)
  | SInput (Some d) _ => Ok (range_line (lhs_range d))
  | SInput None l => Ok (line l)
  | SOutput e => Ok (range_line (expr_range e))
  | SMutation _ o _ _ => Ok (range_line (primary_range o))
  | SRounding _ o => Ok (range_line (expr_range o))
  | SContinue r => Ok (range_line r)
  | SBreak r => Ok (range_line r)
  | SPush a _ => Ok (range_line (primary_range a))
  | SPop a _ => Ok (range_line (primary_range a))
  | SReturn e => Ok (range_line (expr_range e))
  | SFunction _ r _ _ => Ok (range_line r)
  | SCall _ r args => Ok (range_line (primary_range (PCall (Simple []) r args)))
  end.

Definition block_line (b : block) : res unit N :=
  match b with
  | BEmpty l => Ok (line l)
  | BNonEmpty (s :: _) => stmt_line s
  | BNonEmpty [] => Panic (SiteUnwrap 10)
  end.

(** * Equality of names (derived PartialEq: spelling-sensitive) *)

Fixpoint strs_eqb (a b : list str) : bool :=
  match a, b with
  | [], [] => true
  | x :: a', y :: b' => str_eqb x y && strs_eqb a' b'
  | _, _ => false
  end.

Definition varname_eqb (a b : varname) : bool :=
  match a, b with
  | Simple x, Simple y => str_eqb x y
  | Common p w, Common p' w' => str_eqb p p' && str_eqb w w'
  | Proper x, Proper y => strs_eqb x y
  | _, _ => false
  end.
