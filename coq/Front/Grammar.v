(** The expression grammar of Rockstar as a declarative relation between token sequences and
    syntax trees (a specification, not code): the precedence ladder
    logical(5) < comparison(4) < term(3) < factor(2) < unary(1) < primary, left-associative
    chains, list operands, `is`-comparisons, subscripts, calls with their argument separators.
    Source positions are not constrained: the relation describes trees up to ranges. *)
From Coq Require Import List ZArith NArith Bool.
From RRSS Require Import Base.Outcome Base.Chars Base.F64 Exec.Ops Front.Ast Front.Token Front.Lexer Front.Parser.
Import ListNotations.

(** the operator tokens of each binary level *)
Definition ops_at (L : nat) : list ttype :=
  match L with
  | 2%nat => factor_ops
  | 3%nat => term_ops
  | 4%nat => cmp_ops
  | 5%nat => logical_ops
  | _ => []
  end.

(** a variable name and the tokens that spell it *)
Inductive g_var : list token -> varname -> Prop :=
  | gv_common tp tw :
      tid tp = TCommonVariablePrefix -> is_word (tspell tw) = true ->
      g_var [tp; tw] (Common (tspell tp) (tspell tw))
  | gv_simple t : tid t = TWord -> g_var [t] (Simple (tspell t))
  | gv_proper ts :
      (2 <= length ts)%nat -> Forall (fun t => tid t = TWord /\ is_capitalized_word t = Ok true) ts ->
      g_var ts (Proper (map tspell ts)).

(** the words that may follow `is` / `'s` / `'re` and the operator they select *)
Inductive g_fancy_op : list token -> binop -> Prop :=
  | gf_eq : g_fancy_op [] OpEq
  | gf_not t : tid t = TNot -> g_fancy_op [t] OpNotEq
  | gf_than t1 t2 op :
      is_one_of [TBigger; TSmaller] t1 = true -> get_binary_operator (tid t1) = Some op -> tid t2 = TThan ->
      g_fancy_op [t1; t2] op
  | gf_as t1 t2 t3 op :
      tid t1 = TAs -> is_one_of [TBig; TSmall] t2 = true -> get_binary_operator (tid t2) = Some op -> tid t3 = TAs ->
      g_fancy_op [t1; t2; t3] op.

(** a list separator: a comma optionally followed by `and` *)
Inductive g_comma : list token -> Prop :=
  | gc_comma c : tid c = TComma -> g_comma [c]
  | gc_comma_and c a : tid c = TComma -> tid a = TAnd -> g_comma [c; a].

(** an argument separator: & , 'n' and — a comma optionally followed by `and` *)
Inductive g_argsep : list token -> Prop :=
  | ga_sep t : is_one_of param_seps t = true -> g_argsep [t]
  | ga_comma_and c a : tid c = TComma -> tid a = TAnd -> g_argsep [c; a].

Inductive g_nsp : list token -> primary -> Prop :=            (* primary without subscript *)
  | gn_pronoun t r : tid t = TPronoun -> g_nsp [t] (PIdent IPronoun r)
  | gn_var tn n r : g_var tn n -> g_nsp tn (PIdent (IVar n) r)
  | gn_call tn n r t targs args :
      g_var tn n -> tid t = TTaking -> g_args targs args -> g_nsp (tn ++ [t] ++ targs) (PCall n r args)
  | gn_lit t l : literal_of_token (tid t) = Some l -> g_nsp [t] (PLit l (trange t))
  | gn_roll t tp p : tid t = TRoll -> g_primary tp p -> g_nsp (t :: tp) (PPop p)

with g_primary : list token -> primary -> Prop :=             (* subscripts nest to the left *)
  | gp_nsp ts p : g_nsp ts p -> g_primary ts p
  | gp_at ta a t tx x : g_primary ta a -> tid t = TAt -> g_nsp tx x -> g_primary (ta ++ [t] ++ tx) (PSubscript a x)

(** [g L ts e]: [ts] spells [e] as an expression of binding level at most [L] *)
with g : nat -> list token -> expr -> Prop :=
  | g_prim ts p : g_primary ts p -> g 1 ts (EPrimary p)
  | g_unary t op tx x :
      is_one_of [TMinus; TNot] t = true -> get_unary_operator (tid t) = Some op -> g 1 tx x ->
      g 1 (t :: tx) (EUnary op x)
  | g_up L ts e : (1 <= L)%nat -> g L ts e -> g (S L) ts e
  (* a chain of one level: the left operand may be a chain of the same level (left associativity),
     the right operands bind tighter; further operands of a list are separated by commas *)
  | g_bin L tl l t op tf f trest rest :
      g (S L) tl l -> is_one_of (ops_at (S L)) t = true -> get_binary_operator (tid t) = Some op ->
      g L tf f -> g_list L trest rest ->
      g (S L) (tl ++ [t] ++ tf ++ trest) (EBinary op l f rest)
  (* `is` comparisons: the right operand is a term, there is no list *)
  | g_is tl l t tops op tr r :
      g 4 tl l -> is_one_of is_ops t = true -> g_fancy_op tops op -> g 3 tr r ->
      g 4 (tl ++ [t] ++ tops ++ tr) (EBinary op l r [])

with g_list : nat -> list token -> list expr -> Prop :=
  | gl_nil L : g_list L [] []
  | gl_snoc L ts l tc te e : g_list L ts l -> g_comma tc -> g L te e -> g_list L (ts ++ tc ++ te) (l ++ [e])

with g_args : list token -> list expr -> Prop :=
  | gargs_one te e : g 1 te e -> g_args te [e]
  | gargs_snoc ts l tsep te e : g_args ts l -> g_argsep tsep -> g 1 te e -> g_args (ts ++ tsep ++ te) (l ++ [e]).

(** * Statements and blocks *)

Definition lhs_primary (l : lhs) : primary :=
  match l with LIdent i r => PIdent i r | LSubscript a s => PSubscript a s end.
Definition g_lhs (ts : list token) (l : lhs) : Prop := g_primary ts (lhs_primary l).

Inductive g_ident : list token -> ident -> Prop :=
  | gi_var ts n : g_var ts n -> g_ident ts (IVar n)
  | gi_pronoun t : tid t = TPronoun -> g_ident [t] IPronoun.

(** end of a statement: an optional , or . and a line break (absent only at the end of the input,
    or after the if/else that ends a function body) *)
Inductive g_eol : list token -> Prop :=
  | ge_none : g_eol []
  | ge_sep s : is_one_of [TComma; TDot] s = true -> g_eol [s]
  | ge_nl n : tid n = TNewline -> g_eol [n]
  | ge_sep_nl s n : is_one_of [TComma; TDot] s = true -> tid n = TNewline -> g_eol [s; n].

(** the words of a poetic number literal, left to right *)
Inductive g_poetic : list token -> list pelem -> Prop :=
  | gq_nil : g_poetic [] []
  | gq_comma ts el t : g_poetic ts el -> tid t = TComma -> g_poetic (ts ++ [t]) el
  | gq_dot ts el t : g_poetic ts el -> tid t = TDot -> g_poetic (ts ++ [t]) (el ++ [PEDot])
  | gq_suffix ts el t :
      g_poetic ts el -> (tid t = TApostropheS \/ tid t = TApostropheRE) -> g_poetic (ts ++ [t]) (el ++ [PESuffix (tspell t)])
  | gq_hyphen ts el t nt :
      g_poetic ts el -> is_minus_hyphen t = true -> is_word (tspell nt) = true ->
      g_poetic (ts ++ [t; nt]) (el ++ [PESuffix (lit "-" ++ tspell nt)])
  | gq_word ts el t :
      g_poetic ts el -> is_poetic_number_literal_token t = true -> g_poetic (ts ++ [t]) (el ++ [PEWord (tspell t)]).

(** parameters of a function definition: names separated like arguments *)
Inductive g_params : list token -> list (varname * range) -> Prop :=
  | gpar_one tn n r : g_var tn n -> g_params tn [(n, r)]
  | gpar_snoc ts l tsep tn n r : g_params ts l -> g_argsep tsep -> g_var tn n -> g_params (ts ++ tsep ++ tn) (l ++ [(n, r)]).

(** optional pieces *)
Definition g_opt_tok (m : token -> bool) (ts : list token) : Prop := ts = [] \/ exists t, ts = [t] /\ m t = true.

Inductive g_stmt : list token -> stmt -> Prop :=
  | gs_put t te e ti tl d :
      tid t = TPut -> g 5 te e -> tid ti = TInto -> g_lhs tl d ->
      g_stmt ([t] ++ te ++ [ti] ++ tl) (SAssign d e [] None)
  | gs_let t tl d tb top op tf f trest rest :
      tid t = TLet -> g_lhs tl d -> tid tb = TBe ->
      (top = [] /\ op = None \/
       exists o x, top = [x] /\ op = Some o /\ is_one_of [TPlus; TWith; TMinus; TMultiply; TDivide] x = true /\
                   get_binary_operator (tid x) = Some o) ->
      g 5 tf f -> g_list 5 trest rest ->
      g_stmt ([t] ++ tl ++ [tb] ++ top ++ tf ++ trest) (SAssign d f rest op)
  | gs_poetic_expr tl d t te e :
      g_lhs tl d -> is_one_of [TIs; TApostropheS; TApostropheRE] t = true -> g 5 te e ->
      g_stmt (tl ++ [t] ++ te) (SPoeticNum d (PNExpr e))
  | gs_poetic_lit tl d t tp el :
      g_lhs tl d -> is_one_of [TIs; TApostropheS; TApostropheRE] t = true -> g_poetic tp el -> el <> [] ->
      g_stmt (tl ++ [t] ++ tp) (SPoeticNum d (PNLit el))
  | gs_poetic_str tl d t tany txt :
      g_lhs tl d -> is_one_of [TSays; TSay] t = true -> Forall (fun x => tid x <> TNewline) tany ->
      g_stmt (tl ++ [t] ++ tany) (SPoeticStr d txt)
  | gs_call tn n r t targs args :
      g_var tn n -> tid t = TTaking -> g_args targs args -> g_stmt (tn ++ [t] ++ targs) (SCall n r args)
  | gs_function tn n r t tparams params teol tbody body :
      g_var tn n -> tid t = TTakes -> g_params tparams params -> g_eol teol -> g_block tbody body ->
      g_stmt (tn ++ [t] ++ tparams ++ teol ++ tbody) (SFunction n r params body)
  | gs_if t tc c teol tthen th telse el :
      tid t = TIf -> g 5 tc c -> g_eol teol -> g_block tthen th ->
      (telse = [] /\ el = None \/
       exists x tnl tb b, telse = [x] ++ tnl ++ tb /\ tid x = TElse /\ g_opt_tok (is_id TNewline) tnl /\
                          g_block tb b /\ el = Some b) ->
      g_stmt ([t] ++ tc ++ teol ++ tthen ++ telse) (SIf c th el)
  | gs_while t tc c teol tb b :
      tid t = TWhile -> g 5 tc c -> g_eol teol -> g_block tb b -> g_stmt ([t] ++ tc ++ teol ++ tb) (SWhile c b)
  | gs_until t tc c teol tb b :
      tid t = TUntil -> g 5 tc c -> g_eol teol -> g_block tb b -> g_stmt ([t] ++ tc ++ teol ++ tb) (SUntil c b)
  | gs_build t ti i r tu more :
      tid t = TBuild -> g_ident ti i -> tid tu = TUp ->
      Forall (fun x => tid x = TComma \/ tid x = TUp) more ->
      g_stmt ([t] ++ ti ++ [tu] ++ more) (SInc i r (1 + Z.of_nat (length (filter (is_id TUp) more))))
  | gs_knock t ti i r tu more :
      tid t = TKnock -> g_ident ti i -> tid tu = TDown ->
      Forall (fun x => tid x = TComma \/ tid x = TDown) more ->
      g_stmt ([t] ++ ti ++ [tu] ++ more) (SDec i r (1 + Z.of_nat (length (filter (is_id TDown) more))))
  | gs_say t te e : is_one_of [TSay; TSayAlias] t = true -> g 5 te e -> g_stmt ([t] ++ te) (SOutput e)
  | gs_listen t l : tid t = TListen -> g_stmt [t] (SInput None l)
  | gs_listen_to t tt tl d l : tid t = TListen -> tid tt = TTo -> g_lhs tl d -> g_stmt ([t; tt] ++ tl) (SInput (Some d) l)
  | gs_mutation t op tp p tinto dest twith param :
      is_one_of [TCut; TJoin; TCast] t = true -> get_mutation_operator (tid t) = Some op -> g_primary tp p ->
      (tinto = [] /\ dest = None \/ exists x tl d, tinto = [x] ++ tl /\ tid x = TInto /\ g_lhs tl d /\ dest = Some d) ->
      (twith = [] /\ param = None \/ exists x te e, twith = [x] ++ te /\ tid x = TWith /\ g 5 te e /\ param = Some e) ->
      g_stmt ([t] ++ tp ++ tinto ++ twith) (SMutation op p dest param)
  | gs_round_before t td d te e :
      tid t = TTurn -> is_one_of [TUp; TDown; TRound] td = true -> get_rounding_direction (tid td) = Some d -> g 5 te e ->
      g_stmt ([t; td] ++ te) (SRounding d e)
  | gs_round_after t te e td d :
      tid t = TTurn -> g 5 te e -> is_one_of [TUp; TDown; TRound] td = true -> get_rounding_direction (tid td) = Some d ->
      g_stmt ([t] ++ te ++ [td]) (SRounding d e)
  | gs_break t r : tid t = TBreak -> g_stmt [t] (SBreak r)
  | gs_break_it_down t ti td r : tid t = TBreak -> tid td = TDown -> g_stmt [t; ti; td] (SBreak r)
  | gs_continue t r : tid t = TContinue -> g_stmt [t] (SContinue r)
  | gs_take_it_to_the_top t t2 t3 t4 t5 r :
      tid t = TTake -> tid t3 = TTo -> tid t5 = TTop -> g_stmt [t; t2; t3; t4; t5] (SContinue r)
  | gs_rock t tp p : tid t = TRock -> g_primary tp p -> g_stmt ([t] ++ tp) (SPush p None)
  | gs_rock_with t tp p tw tf f trest rest :
      tid t = TRock -> g_primary tp p -> tid tw = TWith -> g 5 tf f -> g_list 5 trest rest ->
      g_stmt ([t] ++ tp ++ [tw] ++ tf ++ trest) (SPush p (Some (PushList f rest)))
  | gs_rock_like t tp p tl tq el :
      tid t = TRock -> g_primary tp p -> tid tl = TLike -> g_poetic tq el -> el <> [] ->
      g_stmt ([t] ++ tp ++ [tl] ++ tq) (SPush p (Some (PushLit el)))
  | gs_roll t tp p tinto dest :
      tid t = TRoll -> g_primary tp p ->
      (tinto = [] /\ dest = None \/ exists x tl d, tinto = [x] ++ tl /\ tid x = TInto /\ g_lhs tl d /\ dest = Some d) ->
      g_stmt ([t] ++ tp ++ tinto) (SPop p dest)
  | gs_return t tb1 te e tb2 :
      tid t = TReturn -> g_opt_tok (is_id TBack) tb1 -> g 5 te e -> g_opt_tok (is_id TBack) tb2 ->
      g_stmt ([t] ++ tb1 ++ te ++ tb2) (SReturn e)

(** a block: a blank line (an empty block), or statements each followed by its end of line *)
with g_block : list token -> block -> Prop :=
  | gb_blank n l : tid n = TNewline -> g_block [n] (BEmpty l)
  | gb_stmts ts ss l : g_stmts ts ss -> g_block ts (block_new l ss)

with g_stmts : list token -> list stmt -> Prop :=
  | gss_nil : g_stmts [] []
  | gss_snoc ts ss tst st teol : g_stmts ts ss -> g_stmt tst st -> g_eol teol -> g_stmts (ts ++ tst ++ teol) (ss ++ [st]).

(** a program: blocks one after the other (empty blocks are dropped from the tree) *)
Inductive g_program : list token -> program -> Prop :=
  | gprog_nil : g_program [] []
  | gprog_snoc ts p tb b :
      g_program ts p -> g_block tb b -> g_program (ts ++ tb) (if block_is_empty b then p else p ++ [b]).
