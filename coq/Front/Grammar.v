(** The expression grammar of Rockstar as a declarative relation between token sequences and
    syntax trees (a specification, not code): the precedence ladder
    logical(5) < comparison(4) < term(3) < factor(2) < unary(1) < primary, left-associative
    chains, list operands, `is`-comparisons, subscripts, calls with their argument separators.
    Source positions are not constrained: the relation describes trees up to ranges. *)
From Coq Require Import List ZArith NArith Bool.
From RRSS Require Import Base.Outcome Base.Chars Base.F64 Exec.Ops Front.Ast Front.Token Front.Lexer Front.Parser.
Import ListNotations.

(** the operator tokens of each binary level *)
Definition ops_at (L : nat) : list ttype :=
  match L with
  | 2%nat => factor_ops
  | 3%nat => term_ops
  | 4%nat => cmp_ops
  | 5%nat => logical_ops
  | _ => []
  end.

(** a variable name and the tokens that spell it *)
Inductive g_var : list token -> varname -> Prop :=
  | gv_common tp tw :
      tid tp = TCommonVariablePrefix -> is_word (tspell tw) = true ->
      g_var [tp; tw] (Common (tspell tp) (tspell tw))
  | gv_simple t : tid t = TWord -> g_var [t] (Simple (tspell t))
  | gv_proper ts :
      (2 <= length ts)%nat -> Forall (fun t => tid t = TWord /\ is_capitalized_word t = Ok true) ts ->
      g_var ts (Proper (map tspell ts)).

(** the words that may follow `is` / `'s` / `'re` and the operator they select *)
Inductive g_fancy_op : list token -> binop -> Prop :=
  | gf_eq : g_fancy_op [] OpEq
  | gf_not t : tid t = TNot -> g_fancy_op [t] OpNotEq
  | gf_than t1 t2 op :
      is_one_of [TBigger; TSmaller] t1 = true -> get_binary_operator (tid t1) = Some op -> tid t2 = TThan ->
      g_fancy_op [t1; t2] op
  | gf_as t1 t2 t3 op :
      tid t1 = TAs -> is_one_of [TBig; TSmall] t2 = true -> get_binary_operator (tid t2) = Some op -> tid t3 = TAs ->
      g_fancy_op [t1; t2; t3] op.

(** a list separator: a comma optionally followed by `and` *)
Inductive g_comma : list token -> Prop :=
  | gc_comma c : tid c = TComma -> g_comma [c]
  | gc_comma_and c a : tid c = TComma -> tid a = TAnd -> g_comma [c; a].

(** an argument separator: & , 'n' and — a comma optionally followed by `and` *)
Inductive g_argsep : list token -> Prop :=
  | ga_sep t : is_one_of param_seps t = true -> g_argsep [t]
  | ga_comma_and c a : tid c = TComma -> tid a = TAnd -> g_argsep [c; a].

Inductive g_nsp : list token -> primary -> Prop :=            (* primary without subscript *)
  | gn_pronoun t : tid t = TPronoun -> g_nsp [t] (PIdent IPronoun (trange t))
  | gn_var tn n r : g_var tn n -> g_nsp tn (PIdent (IVar n) r)
  | gn_call tn n r t targs args :
      g_var tn n -> tid t = TTaking -> g_args targs args -> g_nsp (tn ++ [t] ++ targs) (PCall n r args)
  | gn_lit t l : literal_of_token (tid t) = Some l -> g_nsp [t] (PLit l (trange t))
  | gn_roll t tp p : tid t = TRoll -> g_primary tp p -> g_nsp (t :: tp) (PPop p)

with g_primary : list token -> primary -> Prop :=             (* subscripts nest to the left *)
  | gp_nsp ts p : g_nsp ts p -> g_primary ts p
  | gp_at ta a t tx x : g_primary ta a -> tid t = TAt -> g_nsp tx x -> g_primary (ta ++ [t] ++ tx) (PSubscript a x)

(** [g L ts e]: [ts] spells [e] as an expression of binding level at most [L] *)
with g : nat -> list token -> expr -> Prop :=
  | g_prim ts p : g_primary ts p -> g 1 ts (EPrimary p)
  | g_unary t op tx x :
      is_one_of [TMinus; TNot] t = true -> get_unary_operator (tid t) = Some op -> g 1 tx x ->
      g 1 (t :: tx) (EUnary op x)
  | g_up L ts e : (1 <= L)%nat -> g L ts e -> g (S L) ts e
  (* a chain of one level: the left operand may be a chain of the same level (left associativity),
     the right operands bind tighter; further operands of a list are separated by commas *)
  | g_bin L tl l t op tf f trest rest :
      g (S L) tl l -> is_one_of (ops_at (S L)) t = true -> get_binary_operator (tid t) = Some op ->
      g L tf f -> g_list L trest rest ->
      g (S L) (tl ++ [t] ++ tf ++ trest) (EBinary op l f rest)
  (* `is` comparisons: the right operand is a term, there is no list *)
  | g_is tl l t tops op tr r :
      g 4 tl l -> is_one_of is_ops t = true -> g_fancy_op tops op -> g 3 tr r ->
      g 4 (tl ++ [t] ++ tops ++ tr) (EBinary op l r [])

with g_list : nat -> list token -> list expr -> Prop :=
  | gl_nil L : g_list L [] []
  | gl_snoc L ts l tc te e : g_list L ts l -> g_comma tc -> g L te e -> g_list L (ts ++ tc ++ te) (l ++ [e])

with g_args : list token -> list expr -> Prop :=
  | gargs_one te e : g 1 te e -> g_args te [e]
  | gargs_snoc ts l tsep te e : g_args ts l -> g_argsep tsep -> g 1 te e -> g_args (ts ++ tsep ++ te) (l ++ [e]).
