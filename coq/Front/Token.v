(** Tokens (src/frontend/lexer.rs: TokenType, Token) and the keyword table. *)
From Coq Require Import List ZArith NArith Bool.
From RRSS Require Import Base.Outcome Base.Chars Base.F64 Front.Ast.
Import ListNotations.
Open Scope N_scope.

Inductive ttype :=
  | TWord | TStringLiteral (s : str) | TNumber (f : f64)
  | TMysterious | TNull | TTrue | TFalse | TEmpty
  | TCommonVariablePrefix | TPronoun | TAt | TLike
  | TPlus | TMinus | TMultiply | TDivide
  | TIs | TIsnt | TSays | TPut | TInto | TLet | TBe | TWith | TNot
  | TApostropheS | TApostropheRE
  | TAnd | TOr | TNor | TAs | TBig | TBigger | TSmall | TSmaller | TThan
  | TGreater | TGreaterEq | TLess | TLessEq
  | TIf | TElse | TWhile | TUntil | TContinue | TBreak | TTake | TTop
  | TSay | TSayAlias | TListen | TTo
  | TBuild | TKnock | TUp | TDown
  | TCut | TJoin | TCast | TTurn | TRound
  | TRock | TRoll
  | TTakes | TTaking | TReturn | TBack | TAmpersand | TApostropheNApostrophe
  | TComma | TDot | TNewline
  | TComment (s : str)
  | TError (msg : str).

(** numeric code of a token type without payload, for equality *)
Definition ttype_code (t : ttype) : N :=
  match t with
  | TWord => 0 | TStringLiteral _ => 1 | TNumber _ => 2 | TMysterious => 3 | TNull => 4 | TTrue => 5
  | TFalse => 6 | TEmpty => 7 | TCommonVariablePrefix => 8 | TPronoun => 9 | TAt => 10 | TLike => 11
  | TPlus => 12 | TMinus => 13 | TMultiply => 14 | TDivide => 15 | TIs => 16 | TIsnt => 17 | TSays => 18
  | TPut => 19 | TInto => 20 | TLet => 21 | TBe => 22 | TWith => 23 | TNot => 24 | TApostropheS => 25
  | TApostropheRE => 26 | TAnd => 27 | TOr => 28 | TNor => 29 | TAs => 30 | TBig => 31 | TBigger => 32
  | TSmall => 33 | TSmaller => 34 | TThan => 35 | TGreater => 36 | TGreaterEq => 37 | TLess => 38
  | TLessEq => 39 | TIf => 40 | TElse => 41 | TWhile => 42 | TUntil => 43 | TContinue => 44 | TBreak => 45
  | TTake => 46 | TTop => 47 | TSay => 48 | TSayAlias => 49 | TListen => 50 | TTo => 51 | TBuild => 52
  | TKnock => 53 | TUp => 54 | TDown => 55 | TCut => 56 | TJoin => 57 | TCast => 58 | TTurn => 59
  | TRound => 60 | TRock => 61 | TRoll => 62 | TTakes => 63 | TTaking => 64 | TReturn => 65 | TBack => 66
  | TAmpersand => 67 | TApostropheNApostrophe => 68 | TComma => 69 | TDot => 70 | TNewline => 71
  | TComment _ => 72 | TError _ => 73
  end.

(** derived PartialEq on TokenType (payloads compared; f64 by ==) *)
Definition ttype_eqb (a b : ttype) : bool :=
  match a, b with
  | TStringLiteral x, TStringLiteral y => str_eqb x y
  | TNumber x, TNumber y => feqb x y
  | TComment x, TComment y => str_eqb x y
  | TError x, TError y => str_eqb x y
  | _, _ => ttype_code a =? ttype_code b
  end.

Definition ttype_in (t : ttype) (l : list ttype) : bool := existsb (ttype_eqb t) l.

Record token := mkToken {
  tid : ttype;
  tspell : str;
  tstart : N;          (* byte offset of the spelling in the source *)
  trange : range
}.

Definition tend (t : token) : N := tstart t + byte_len (tspell t).

(** * The keyword table ([KEYWORDS]) *)

Definition kw (t : ttype) (names : list String.string) : list (str * ttype) :=
  map (fun n => (lit n, t)) names.

Local Open Scope string_scope.
Definition keywords : list (str * ttype) := List.concat [
  kw TMysterious ["mysterious"];
  kw TNull ["null"; "nothing"; "nowhere"; "nobody"; "gone"];
  kw TTrue ["true"; "right"; "yes"; "ok"];
  kw TFalse ["false"; "wrong"; "no"; "lies"];
  kw TEmpty ["empty"; "silent"; "silence"];
  kw TPronoun ["it"; "he"; "she"; "him"; "her"; "they"; "them"; "ze"; "hir"; "zie"; "zir"; "xe"; "xem"; "ve"; "ver"];
  kw TPlus ["plus"];
  kw TMinus ["minus"; "without"];
  kw TMultiply ["times"; "of"];
  kw TDivide ["over"; "between"];
  kw TInto ["in"; "into"];
  kw TIs ["is"; "are"; "was"; "were"];
  kw TIsnt ["isnt"; "isn't"; "aint"; "ain't"; "arent"; "aren't"; "wasnt"; "wasn't"; "werent"; "weren't"];
  kw TSays ["says"; "said"];
  kw TBigger ["higher"; "greater"; "bigger"; "stronger"];
  kw TSmaller ["lower"; "less"; "smaller"; "weaker"];
  kw TBig ["high"; "great"; "big"; "strong"];
  kw TSmall ["low"; "little"; "small"; "weak"];
  kw TSayAlias ["shout"; "whisper"; "scream"];
  kw TCut ["cut"; "split"; "shatter"];
  kw TJoin ["join"; "unite"];
  kw TCast ["cast"; "burn"];
  kw TRound ["round"; "around"];
  kw TTakes ["takes"; "wants"];
  kw TReturn ["return"; "give"; "send"];
  kw TWith ["with"]; kw TPut ["put"]; kw TLet ["let"]; kw TBe ["be"]; kw TAnd ["and"];
  kw TOr ["or"]; kw TNor ["nor"]; kw TNot ["not"]; kw TAs ["as"]; kw TThan ["than"];
  kw TIf ["if"]; kw TElse ["else"]; kw TWhile ["while"]; kw TUntil ["until"];
  kw TBuild ["build"]; kw TKnock ["knock"]; kw TUp ["up"]; kw TDown ["down"]; kw TSay ["say"];
  kw TListen ["listen"]; kw TTo ["to"]; kw TTurn ["turn"]; kw TContinue ["continue"];
  kw TBreak ["break"]; kw TTake ["take"]; kw TTop ["top"]; kw TRock ["rock"]; kw TRoll ["roll"];
  kw TAt ["at"]; kw TLike ["like"]; kw TTaking ["taking"]; kw TBack ["back"];
  kw TCommonVariablePrefix ["a"; "an"; "the"; "my"; "your"; "our"] ].
Local Close Scope string_scope.

Fixpoint assoc_str {A} (k : str) (l : list (str * A)) : option A :=
  match l with
  | [] => None
  | (k', v) :: t => if str_eqb k k' then Some v else assoc_str k t
  end.

(** [match_keyword]: look the lower-cased word up *)
Definition match_keyword (word : str) : option ttype := assoc_str (str_to_lowercase word) keywords.

(** Debug name of a token type, lower-cased ([impl Display for TokenType]) *)
Definition ttype_name (t : ttype) : str :=
  match t with
  | TWord => lit "word" | TStringLiteral _ => lit "stringliteral" | TNumber _ => lit "number"
  | TMysterious => lit "mysterious" | TNull => lit "null" | TTrue => lit "true" | TFalse => lit "false"
  | TEmpty => lit "empty" | TCommonVariablePrefix => lit "commonvariableprefix" | TPronoun => lit "pronoun"
  | TAt => lit "at" | TLike => lit "like" | TPlus => lit "plus" | TMinus => lit "minus"
  | TMultiply => lit "multiply" | TDivide => lit "divide" | TIs => lit "is" | TIsnt => lit "isnt"
  | TSays => lit "says" | TPut => lit "put" | TInto => lit "into" | TLet => lit "let" | TBe => lit "be"
  | TWith => lit "with" | TNot => lit "not" | TApostropheS => lit "'s" | TApostropheRE => lit "'re"
  | TAnd => lit "and" | TOr => lit "or" | TNor => lit "nor" | TAs => lit "as" | TBig => lit "big"
  | TBigger => lit "bigger" | TSmall => lit "small" | TSmaller => lit "smaller" | TThan => lit "than"
  | TGreater => lit "greater" | TGreaterEq => lit "greatereq" | TLess => lit "less" | TLessEq => lit "lesseq"
  | TIf => lit "if" | TElse => lit "else" | TWhile => lit "while" | TUntil => lit "until"
  | TContinue => lit "continue" | TBreak => lit "break" | TTake => lit "take" | TTop => lit "top"
  | TSay => lit "say" | TSayAlias => lit "sayalias" | TListen => lit "listen" | TTo => lit "to"
  | TBuild => lit "build" | TKnock => lit "knock" | TUp => lit "up" | TDown => lit "down"
  | TCut => lit "cut" | TJoin => lit "join" | TCast => lit "cast" | TTurn => lit "turn" | TRound => lit "round"
  | TRock => lit "rock" | TRoll => lit "roll" | TTakes => lit "takes" | TTaking => lit "taking"
  | TReturn => lit "return" | TBack => lit "back" | TAmpersand => lit "ampersand"
  | TApostropheNApostrophe => lit "'n'" | TComma => lit "comma" | TDot => lit "dot" | TNewline => lit "newline"
  | TComment _ => lit "comment" | TError _ => lit "error"
  end.
