(** Model of src/frontend/lexer.rs (struct Lexer, after the F1/F3 repairs).
    Positions are byte offsets.  Every slice the Rust code takes is a [take_bytes] here, which fails
    (→ Panic in debug / UB in release) when the requested length does not end on a character
    boundary inside the text; every loop is on fuel. *)
From Coq Require Import List ZArith NArith Bool.
From RRSS Require Import Base.Outcome Base.Chars Base.F64 Base.F64Text Front.Ast Front.Token.
Import ListNotations.
Open Scope N_scope.

Definition lres := res unit.

(** the first [n] bytes of [s], if [n] ends on a character boundary within [s] *)
Fixpoint take_bytes (n : N) (s : str) : option str :=
  if n =? 0 then Some [] else
  match s with
  | [] => None
  | c :: t =>
      let k := utf8_len c in
      if n <? k then None else
      match take_bytes (n - k) t with
      | Some r => Some (c :: r)
      | None => None
      end
  end.

(** [substr]: unchecked in release, checked in debug *)
Definition substr (p : profile) (site : nat) (n : N) (s : str) : lres str :=
  match take_bytes n s with
  | Some r => Ok r
  | None => match p with Debug => Panic (SiteSlice site) | Release => UB (SiteUnchecked site) end
  end.

Definition is_ignorable_whitespace (c : char) : bool := is_whitespace c && negb (c =? 10).
Definition is_ignorable_punctuation (c : char) : bool :=
  is_ascii_punctuation c && negb (c =? 95) && negb (c =? 39).
Definition is_word_end (c : char) : bool := is_whitespace c || is_ignorable_punctuation c.

(** [is_word] *)
Definition is_word (text : str) : bool :=
  match text with [] => false | _ => forallb (fun c => negb (is_word_end c)) text end.

(** byte length of the longest prefix none of whose characters satisfies [stop] *)
Fixpoint prefix_len (stop : char -> bool) (s : str) : N :=
  match s with
  | [] => 0
  | c :: t => if stop c then 0 else utf8_len c + prefix_len stop t
  end.

Record lexer := mkLexer {
  rest : str;               (* text from [idx] on *)
  idx : N;
  staged : option token;
  cur_line : N;
  line_start : N
}.

Definition lexer_init (src : str) : lexer := mkLexer src 0 None 1 0.

Record lex_result := mkLR {
  lr_token : token;
  lr_end : N;
  lr_newlines : N;
  lr_new_line_start : option N
}.

Definition u32_limit : N := 4294967296.

(** [make_loc_from]: panics when the offset does not fit u32 or lies before the line start *)
Definition make_loc_from (ln lstart offset : N) : lres loc :=
  if (offset <? u32_limit) && (lstart <=? offset) then Ok (mkLoc ln (offset - lstart))
  else Panic (SiteUnwrap 40).

Definition make_range_from (ln lstart s e : N) : lres range :=
  let* a := make_loc_from ln lstart s in
  let* b := make_loc_from ln lstart e in
  Ok (loc_to a b).

Section Lex.
Variable prof : profile.

(** [make_token_from(start, len, id)]; [s0] is the text at [start] *)
Definition make_token_from (lx : lexer) (s0 : str) (start len_ : N) (id : ttype) : lres token :=
  let* text := substr prof 41 len_ s0 in
  let* r := make_range_from (cur_line lx) (line_start lx) start (start + len_) in
  Ok (mkToken id text start r).

Definition simple_result (t : token) (e : N) : lex_result := mkLR t e 0 None.

(** [scan_for_text] at the text [s] starting at byte [start] *)
Definition scan_for_text (lx : lexer) (s : str) (start : N) (text : str) (id : ttype) : lres (option lex_result) :=
  if starts_with text s then
    let* t := make_token_from lx s start (byte_len text) id in
    Ok (Some (simple_result t (start + byte_len text)))
  else Ok None.

(** [scan_apostrophe_suffix]; the range is computed with the given line bookkeeping (F3 repair) *)
Definition scan_apostrophe_suffix (ln lstart : N) (s : str) (start : N) : lres (option lex_result) :=
  let mk (text : str) (id : ttype) : lres (option lex_result) :=
    let n := byte_len text in
    let* sp := substr prof 42 n s in
    let* r := make_range_from ln lstart start (start + n) in
    Ok (Some (simple_result (mkToken id sp start r) (start + n))) in
  if starts_with (lit "'s") s then mk (lit "'s") TApostropheS
  else if starts_with (lit "'re") s then mk (lit "'re") TApostropheRE
  else Ok None.

Definition max_opt (a b : option N) : option N :=
  match a, b with
  | Some x, Some y => Some (N.max x y)
  | Some x, None => Some x
  | None, y => y
  end.

(** [maybe_followed_by_apostrophe_suffix]: returns the result and the token to stage.
    [after] is the text at [lr_end r]. *)
Definition maybe_suffix (lx : lexer) (r : lex_result) (after : str) : lres (lex_result * option token) :=
  let ln := cur_line lx + lr_newlines r in
  let lstart := match lr_new_line_start r with Some x => x | None => line_start lx end in
  let* sfx := scan_apostrophe_suffix ln lstart after (lr_end r) in
  match sfx with
  | Some s =>
      Ok (mkLR (lr_token r) (N.max (lr_end r) (lr_end s)) (lr_newlines r + lr_newlines s)
               (max_opt (lr_new_line_start r) (lr_new_line_start s)),
          Some (lr_token s))
  | None => Ok (r, None)
  end.

(** text after the first [n] bytes ([n] on a boundary; otherwise the tail past it) *)
Fixpoint drop_bytes (n : N) (s : str) : str :=
  if n =? 0 then s else
  match s with
  | [] => []
  | c :: t => let k := utf8_len c in if n <? k then t else drop_bytes (n - k) t
  end.

(** [scan_number(start)]: [s0 = c :: after] is the text at [start] *)
Definition scan_number (lx : lexer) (s0 : str) (start : N) : lres (option (lex_result * option token)) :=
  match s0 with
  | [] => Ok None
  | c :: after =>
      let stop ch := negb (is_ascii_alphanumeric ch || (ch =? 46)) in
      let n := utf8_len c + prefix_len stop after in
      let* text := substr prof 43 n s0 in
      match f64_parse text with
      | Some v =>
          let* r := make_range_from (cur_line lx) (line_start lx) start (start + n) in
          let* x := maybe_suffix lx (simple_result (mkToken (TNumber v) text start r) (start + n)) (drop_bytes n s0) in
          Ok (Some x)
      | None => Ok None
      end
  end.

(** [find_next_word_end] relative to [start]: the first character is never examined *)
Definition word_end_len (s0 : str) : N :=
  match s0 with
  | [] => 0
  | c :: after => utf8_len c + prefix_len is_word_end after
  end.

Definition make_error_token (lx : lexer) (s0 : str) (start : N) (msg : str) : lres lex_result :=
  let n := word_end_len s0 in
  let* t := make_token_from lx s0 start n (TError msg) in
  Ok (simple_result t (start + n)).

Definition scan_keyword (lx : lexer) (s0 : str) (start : N) : lres (option lex_result) :=
  let n := word_end_len s0 in
  let* text := substr prof 44 n s0 in
  match match_keyword text with
  | Some id =>
      let* r := make_range_from (cur_line lx) (line_start lx) start (start + n) in
      Ok (Some (simple_result (mkToken id text start r) (start + n)))
  | None => Ok None
  end.

Fixpoint trim_end_apostrophes_rev (r : str) : str :=
  match r with
  | 39 :: t => trim_end_apostrophes_rev t
  | _ => r
  end.
Definition trim_end_apostrophes (s : str) : str := rev (trim_end_apostrophes_rev (rev s)).

Definition first_some {A} (l : list (option A)) : option A :=
  fold_right (fun x acc => match x with Some _ => x | None => acc end) None l.

(** [tokenize_word] *)
Definition tokenize_word (lx : lexer) (s0 : str) (start : N) (word : str) (e : N)
  : lres (lex_result * option token) :=
  let s_suffix := first_some [strip_suffix (lit "'s") word; strip_suffix (lit "'S") word] in
  let re_suffix := first_some [strip_suffix (lit "'re") word; strip_suffix (lit "'RE") word;
                               strip_suffix (lit "'Re") word; strip_suffix (lit "'rE") word] in
  let '(stripped, staged_type) :=
    match s_suffix with
    | Some st => (st, Some (TApostropheS, 2))
    | None =>
        match re_suffix with
        | Some st => (st, Some (TApostropheRE, 3))
        | None => (trim_end_apostrophes word, None)
        end
    end in
  let* stg :=
    match staged_type with
    | Some (id, n) =>
        let* t := make_token_from lx (drop_bytes (e - n - start) s0) (e - n) n id in Ok (Some t)
    | None => Ok None
    end in
  let* _ := debug_assert prof 45 (negb (match stripped with [] => true | _ => false end)) in
  let id := match match_keyword stripped with Some k => k | None => TWord end in
  let* t := make_token_from lx s0 start (byte_len stripped) id in
  Ok (simple_result t e, stg).

Definition scan_word (lx : lexer) (s0 : str) (start : N) : lres (lex_result * option token) :=
  let n := word_end_len s0 in
  let* text := substr prof 46 n s0 in
  if forallb (fun c => is_alphabetic c || (c =? 39)) text then
    tokenize_word lx s0 start text (start + n)
  else
    let* t := make_token_from lx s0 start ((start + n) - start)
                (TError (lit "Identifier may not contain non-alphabetic characters")) in
    Ok (simple_result t (start + n), None).

(** scanning for the closing delimiter: (bytes up to and including it, newlines, last line start) *)
Fixpoint scan_close (close : char) (s : str) (pos : N) (nl : N) (nls : option N)
  : option N * N * option N :=
  match s with
  | [] => (None, nl, nls)
  | c :: t =>
      let '(nl', nls') := if c =? 10 then (nl + 1, Some (pos + 1)) else (nl, nls) in
      if c =? close then (Some pos, nl', nls') else scan_close close t (pos + utf8_len c) nl' nls'
  end.

(** [scan_delimited]; [s0 = open_char :: after] *)
Definition scan_delimited (lx : lexer) (s0 : str) (open : N) (close : char)
           (factory : str -> ttype) (err : str) : lres (lex_result * option token) :=
  match s0 with
  | [] => Panic (SiteAssert 47)
  | _ :: after =>
      let* start_loc := make_loc_from (cur_line lx) (line_start lx) open in
      let '(found, newlines, nls) := scan_close close after (open + 1) 0 None in
      let* (ty, text, e) :=
        match found with
        | Some cl =>
            let* inner := substr prof 48 (cl - (open + 1)) after in
            let* text := substr prof 49 (cl + 1 - open) s0 in
            Ok (factory inner, text, cl + 1)
        | None => Ok (TError err, s0, open + byte_len s0)
        end in
      let ln := cur_line lx + newlines in
      let lstart := match nls with Some x => x | None => line_start lx end in
      let* end_loc := make_loc_from ln lstart e in
      let t := mkToken ty text open (loc_to start_loc end_loc) in
      maybe_suffix lx (mkLR t e newlines nls) (drop_bytes (e - open) s0)
  end.

Definition char_token (lx : lexer) (s0 : str) (start : N) (id : ttype) : lres lex_result :=
  let* t := make_token_from lx s0 start 1 id in
  match id with
  | TNewline => Ok (mkLR t (start + 1) 1 (Some (start + 1)))
  | _ => Ok (simple_result t (start + 1))
  end.

Definition two_char_token (lx : lexer) (s0 : str) (start : N) (id : ttype) : lres lex_result :=
  let* t := make_token_from lx s0 start 2 id in Ok (simple_result t (start + 2)).

(** [find_word_start]: returns the text at the found character and its offset *)
Fixpoint skip_ws (s : str) (i : N) : str * N :=
  match s with
  | [] => ([], i)
  | c :: t => if is_ignorable_whitespace c then skip_ws t (i + utf8_len c) else (s, i)
  end.

Definition find_word_start (s : str) (i : N) : str * N :=
  if starts_with (lit "'n'") s then (s, i) else skip_ws s i.

(** [advance_to]: step characters until the index equals [target] (or the text is exhausted) *)
Fixpoint advance_to (s : str) (i target : N) : str * N :=
  if i =? target then (s, i) else
  match s with
  | [] => ([], i)
  | c :: t => advance_to t (i + utf8_len c) target
  end.

(** is [target] reachable from [i] on character boundaries within [s]? ([is_char_boundary]) *)
Fixpoint boundary_from (s : str) (i target : N) : bool :=
  if i =? target then true else
  match s with
  | [] => false
  | c :: t => if target <? i + utf8_len c then false else boundary_from t (i + utf8_len c) target
  end.

Inductive step_result :=
  | Produced (r : lex_result) (stg : option token)
  | Skip                                            (* ignorable punctuation / stray apostrophe *)
  | AtEnd.

(** one pass of [match_loop]'s body on the text [s0] found at [start] *)
Definition match_one (lx : lexer) (s0 : str) (start : N) : lres step_result :=
  match s0 with
  | [] => Ok AtEnd
  | c :: after =>
      let plain (r : lres lex_result) : lres step_result := let* x := r in Ok (Produced x None) in
      let pair (r : lres (lex_result * option token)) : lres step_result :=
        let* x := r in Ok (Produced (fst x) (snd x)) in
      if c =? 10 then plain (char_token lx s0 start TNewline)
      else if c =? 46 then
        let* n := scan_number lx s0 start in
        match n with
        | Some x => Ok (Produced (fst x) (snd x))
        | None => plain (char_token lx s0 start TDot)
        end
      else if c =? 44 then plain (char_token lx s0 start TComma)
      else if c =? 38 then plain (char_token lx s0 start TAmpersand)
      else if c =? 43 then plain (char_token lx s0 start TPlus)
      else if c =? 45 then plain (char_token lx s0 start TMinus)
      else if c =? 42 then plain (char_token lx s0 start TMultiply)
      else if c =? 47 then plain (char_token lx s0 start TDivide)
      else if c =? 34 then pair (scan_delimited lx s0 start 34 TStringLiteral (lit "Unterminated string literal"))
      else if c =? 40 then pair (scan_delimited lx s0 start 41 TComment (lit "Unterminated comment"))
      else if c =? 95 then
        plain (make_error_token lx s0 start (lit "'_' is not a valid character because it can't be sung"))
      else if c =? 60 then
        match after with
        | 61 :: _ => plain (two_char_token lx s0 start TLessEq)
        | _ => plain (char_token lx s0 start TLess)
        end
      else if c =? 62 then
        match after with
        | 61 :: _ => plain (two_char_token lx s0 start TGreaterEq)
        | _ => plain (char_token lx s0 start TGreater)
        end
      else
        let* nn := scan_for_text lx s0 start (lit "'n'") TApostropheNApostrophe in
        match nn with
        | Some r => Ok (Produced r None)
        | None =>
            if is_ignorable_punctuation c || (c =? 39) then Ok Skip
            else if is_numeric c then
              let* n := scan_number lx s0 start in
              match n with
              | Some x => Ok (Produced (fst x) (snd x))
              | None => plain (make_error_token lx s0 start (lit "Invalid token"))
              end
            else if is_alphabetic c then
              let* k := scan_keyword lx s0 start in
              match k with
              | Some r => Ok (Produced r None)
              | None => pair (scan_word lx s0 start)
              end
            else plain (make_error_token lx s0 start (lit "Invalid token"))
        end
  end.

(** [match_loop] *)
Fixpoint match_loop (fuel : nat) (lx : lexer) : lres (option (token * lexer)) :=
  match fuel with
  | O => OutOfFuel
  | S f =>
      let '(s0, start) := find_word_start (rest lx) (idx lx) in
      match s0 with
      | [] => Ok None
      | c :: after =>
          let* st := match_one lx s0 start in
          match st with
          | AtEnd => Ok None
          | Skip => match_loop f (mkLexer after (start + utf8_len c) (staged lx) (cur_line lx) (line_start lx))
          | Produced r stg =>
              let i1 := start + utf8_len c in
              let* _ := debug_assert prof 50 (boundary_from after i1 (lr_end r)) in
              let '(s2, i2) := advance_to after i1 (lr_end r) in
              Ok (Some (lr_token r,
                        mkLexer s2 i2 stg (cur_line lx + lr_newlines r)
                                (match lr_new_line_start r with Some x => x | None => line_start lx end)))
          end
      end
  end.

(** [Iterator::next] for [Lexer] *)
Definition lexer_next (fuel : nat) (lx : lexer) : lres (option (token * lexer)) :=
  match staged lx with
  | Some t => Ok (Some (t, mkLexer (rest lx) (idx lx) None (cur_line lx) (line_start lx)))
  | None => match_loop fuel lx
  end.

(** [current_idx] / [current_loc] of a lexer, given the length of the buffer *)
Definition current_idx (buflen : N) (lx : lexer) : N :=
  match staged lx with
  | Some t => tstart t
  | None => match rest lx with [] => buflen | _ => idx lx end
  end.

(** a token together with the lexer's observable state right after it was produced *)
Record ptoken := mkPT {
  pt_tok : token;
  pt_line : N;          (* [current_line()] after the token *)
  pt_loc : loc          (* [current_loc()] after the token *)
}.

Definition post_state (buflen : N) (lx : lexer) : N * loc :=
  (cur_line lx, mkLoc (cur_line lx) (current_idx buflen lx - line_start lx)).

(** all tokens, each with the lexer state after it *)
Fixpoint lex_all (fuel : nat) (buflen : N) (lx : lexer) : lres (list ptoken) :=
  match fuel with
  | O => OutOfFuel
  | S f =>
      let* n := lexer_next (S (length (rest lx))) lx in
      match n with
      | None => Ok []
      | Some (t, lx') =>
          let '(ln, lc) := post_state buflen lx' in
          let* ts := lex_all f buflen lx' in
          Ok (mkPT t ln lc :: ts)
      end
  end.

Definition lex (src : str) : lres (list ptoken) :=
  lex_all (2 * length src + 2) (byte_len src) (lexer_init src).

End Lex.
