(** Poetic number literals: [PoeticNumberLiteralIterator] and [compute_value] (src/frontend/ast.rs).
    [compute_value] is written once over an abstract number structure and instantiated at f64
    (executed, compared with Rust) and at Q (reasoned about: C11). *)
From Coq Require Import List ZArith NArith Bool QArith.
From RRSS Require Import Base.Outcome Base.Chars Base.F64 Front.Ast.
Import ListNotations.

Inductive pitem := PIDot | PIWord (s : str) | PISuffixed (s : str) (suffixes : list str).

(** greedy run of suffix elements *)
Fixpoint take_suffixes (l : list pelem) : list str * list pelem :=
  match l with
  | PESuffix s :: t => let '(ss, r) := take_suffixes t in (s :: ss, r)
  | _ => ([], l)
  end.

(** the iterator, as the list of items it yields; fuel = length of the list (each step consumes) *)
Fixpoint pitems (fuel : nat) (l : list pelem) : list pitem :=
  match fuel with
  | O => []
  | S f =>
      match l with
      | [] => []
      | PEDot :: t => PIDot :: pitems f t
      | PEWord s :: t =>
          match take_suffixes t with
          | ([], _) => PIWord s :: pitems f t
          | (ss, r) => PISuffixed s ss :: pitems f r
          end
      | PESuffix s :: t => PIWord s :: pitems f t   (* orphan suffix: a word of its own *)
      end
  end.

Definition poetic_items (l : list pelem) : list pitem := pitems (length l) l.

Definition word_len (s : str) : N := N.of_nat (length (filter (fun c => negb (c =? 39)%N) s)).

Definition item_len (i : pitem) : N :=
  match i with
  | PIDot => 0%N
  | PIWord s => word_len s
  | PISuffixed s ss => fold_left (fun a x => (a + word_len x)%N) ss (word_len s)
  end.

Definition is_dot (i : pitem) : bool := match i with PIDot => true | _ => false end.

Fixpoint position_or_end (l : list pitem) : Z :=
  match l with
  | [] => 0%Z
  | i :: t => if is_dot i then 0%Z else (1 + position_or_end t)%Z
  end.

(** digits (word lengths mod 10) of the non-dot items, in order *)
Definition poetic_digits (l : list pelem) : list N :=
  map (fun i => (item_len i mod 10)%N) (filter (fun i => negb (is_dot i)) (poetic_items l)).

(** number of digits before the first dot *)
Definition poetic_int_digits (l : list pelem) : Z := position_or_end (poetic_items l).

Section Compute.
  Context {T : Type} (of_digit : N -> T) (mul add : T -> T -> T) (pow10 : Z -> T) (zero : T).

  Fixpoint sum_terms (ds : list N) (expo : Z) (acc : T) : T :=
    match ds with
    | [] => acc
    | d :: t => sum_terms t (expo - 1)%Z (add acc (mul (of_digit d) (pow10 expo)))
    end.

  Definition compute_value_gen (l : list pelem) : T :=
    sum_terms (poetic_digits l) (poetic_int_digits l - 1)%Z zero.
End Compute.

(** the f64 instance: [powi(10, n)], [f64::sum] (which starts from -0.0) *)
Definition compute_value (l : list pelem) : f64 :=
  compute_value_gen f_of_N fmul fadd (fun n => fpowi (f_of_Z 10) n) fnegzero l.
