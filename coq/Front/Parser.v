(** Model of src/frontend/parser.rs (after the F2/F14 repairs): recursive descent over the
    comment-free token list, each token carrying the lexer state after it.  One mutual
    fixpoint on fuel; the Rust higher-order helpers are combinators taking the already
    fuel-applied sub-parser. *)
From Coq Require Import List ZArith NArith Bool.
From RRSS Require Import Base.Outcome Base.Chars Base.F64 Exec.Ops Front.Ast Front.Token Front.Lexer.
Import ListNotations.
Open Scope N_scope.

Inductive perr_code :=
  | PGeneric (s : str)
  | PMissingIDAfterCommonPrefix (s : str)
  | PMutationOperandMustBeIdentifier (p : primary)
  | PExpectedPrimaryExpression
  | PExpectedIdentifier
  | PExpectedText (s : str)
  | PExpectedToken (t : ttype)
  | PExpectedOneOfTokens (ts : list ttype)
  | PExpectedPoeticNumberLiteral
  | PExpectedSpaceAfterSays (t : token)
  | PUnexpectedToken
  | PUnexpectedEndOfTokens
  | PPoeticLiteralEndingWithHyphen
  | PPoeticLiteralStartingWithHyphen.

Inductive perr_loc := PLTok (t : token) | PLLine (n : N).

Record parse_error := mkPE { pe_code : perr_code; pe_loc : perr_loc }.

Record pstate := mkPS {
  toks : list ptoken;      (* remaining tokens, comments removed *)
  pline : N;               (* lexer.current_line() *)
  ploc : loc;              (* lexer.current_loc() *)
  plist : bool             (* parsing_list *)
}.

Definition pres := res parse_error.
Definition P (A : Type) := pstate -> pres (A * pstate).

Definition current (s : pstate) : option token :=
  match toks s with [] => None | pt :: _ => Some (pt_tok pt) end.

(** [lexer.next()] *)
Definition advance (s : pstate) : option (token * pstate) :=
  match toks s with
  | [] => None
  | pt :: t => Some (pt_tok pt, mkPS t (pt_line pt) (pt_loc pt) (plist s))
  end.

Definition new_error (s : pstate) (c : perr_code) : parse_error :=
  mkPE c (match current s with Some t => PLTok t | None => PLLine (pline s) end).

Definition fail {A} (s : pstate) (c : perr_code) : pres A := Err (new_error s c).

Definition match_and_consume (m : token -> bool) (s : pstate) : option (token * pstate) :=
  match current s with
  | Some t => if m t then advance s else None
  | None => None
  end.

Definition is_id (id : ttype) (t : token) : bool := ttype_eqb id (tid t).
Definition is_one_of (ids : list ttype) (t : token) : bool := ttype_in (tid t) ids.
Definition current_matches (m : token -> bool) (s : pstate) : bool :=
  match current s with Some t => m t | None => false end.

(** optional consumption *)
Definition skip_opt (m : token -> bool) (s : pstate) : pstate :=
  match match_and_consume m s with Some (_, s') => s' | None => s end.

Section Parser.
Variable prof : profile.

(** [consume]: step past a token we know matches *)
Definition consume (m : token -> bool) (s : pstate) : pres (token * pstate) :=
  match advance s with
  | Some (t, s') => let* _ := debug_assert prof 60 (m t) in Ok (t, s')
  | None =>
      match prof with
      | Debug => Panic (SiteDebugAssert 60)
      | Release => Panic (SiteUnwrap 60)
      end
  end.

Definition expect_token (id : ttype) (s : pstate) : pres (token * pstate) :=
  match match_and_consume (is_id id) s with
  | Some r => Ok r
  | None => fail s (PExpectedToken id)
  end.

(** [is_ispelled]: the argument must be all lower case (assert!) *)
Definition is_ispelled (text : str) (t : token) : pres bool :=
  if forallb is_lowercase text then Ok (str_eqb (str_to_lowercase (tspell t)) text)
  else Panic (SiteAssert 61).

Definition expect_token_ispelled (text : str) (s : pstate) : pres (token * pstate) :=
  match current s with
  | Some t =>
      let* b := is_ispelled text t in
      if b then match advance s with Some r => Ok r | None => fail s (PExpectedText text) end
      else fail s (PExpectedText text)
  | None => fail s (PExpectedText text)
  end.

Definition expect_token_or_end (id : ttype) (s : pstate) : pres (option token * pstate) :=
  match current s with
  | Some t =>
      if ttype_eqb (tid t) id then
        match advance s with Some (t', s') => Ok (Some t', s') | None => Ok (None, s) end
      else fail s (PExpectedToken id)
  | None => Ok (None, s)
  end.

Definition expect_any (ids : list ttype) (s : pstate) : pres (token * pstate) :=
  match match_and_consume (is_one_of ids) s with
  | Some r => Ok r
  | None => fail s (PExpectedOneOfTokens ids)
  end.

Definition expect_eol (s : pstate) : pres (unit * pstate) :=
  let s1 := skip_opt (is_one_of [TComma; TDot]) s in
  let* (_, s2) := expect_token_or_end TNewline s1 in
  Ok (tt, s2).

(** * Operator tables *)

Definition get_unary_operator (t : ttype) : option unop :=
  match t with TMinus => Some UMinus | TNot => Some UNot | _ => None end.

Definition get_binary_operator (t : ttype) : option binop :=
  match t with
  | TPlus | TWith => Some OpPlus
  | TMinus => Some OpMinus
  | TMultiply => Some OpMultiply
  | TDivide => Some OpDivide
  | TAnd => Some OpAnd
  | TOr => Some OpOr
  | TNor => Some OpNor
  | TGreater | TBigger => Some OpGreater
  | TGreaterEq | TBig => Some OpGreaterEq
  | TLess | TSmaller => Some OpLess
  | TLessEq | TSmall => Some OpLessEq
  | TIsnt => Some OpNotEq
  | _ => None
  end.

Definition get_mutation_operator (t : ttype) : option mutop :=
  match t with TCut => Some MCut | TJoin => Some MJoin | TCast => Some MCast | _ => None end.

Definition get_rounding_direction (t : ttype) : option rounddir :=
  match t with TUp => Some RUp | TDown => Some RDown | TRound => Some RNearest | _ => None end.

Definition is_literal_word (t : ttype) : bool :=
  match t with
  | TMysterious | TNull | TNumber _ | TStringLiteral _ | TEmpty | TTrue | TFalse => true
  | _ => false
  end.

Definition unwrap_op {A} (site : nat) (o : option A) : pres A :=
  match o with Some x => Ok x | None => Panic (SiteUnwrap site) end.

(** * Identifiers and literals (no recursion) *)

Definition parse_pronoun (s : pstate) : option (ident * range * pstate) :=
  match match_and_consume (is_id TPronoun) s with
  | Some (t, s') => Some (IPronoun, trange t, s')
  | None => None
  end.

Definition literal_of_token (t : ttype) : option literal :=
  match t with
  | TMysterious => Some LMysterious
  | TNull => Some LNull
  | TNumber n => Some (LNumber n)
  | TStringLiteral x => Some (LString x)
  | TEmpty => Some (LString [])
  | TTrue => Some (LBool true)
  | TFalse => Some (LBool false)
  | _ => None
  end.

Definition parse_literal_expression (s : pstate) : option (literal * range * pstate) :=
  match current s with
  | Some t =>
      match literal_of_token (tid t) with
      | Some l => match advance s with Some (_, s') => Some (l, trange t, s') | None => None end
      | None => None
      end
  | None => None
  end.

Definition parse_common_identifier (s : pstate) : pres (option (varname * range) * pstate) :=
  match match_and_consume (is_id TCommonVariablePrefix) s with
  | Some (p, s1) =>
      match match_and_consume (fun t => is_word (tspell t)) s1 with
      | Some (w, s2) => Ok (Some (Common (tspell p) (tspell w), range_concat (trange p) (trange w)), s2)
      | None => fail s1 (PMissingIDAfterCommonPrefix (tspell p))
      end
  | None => Ok (None, s)
  end.

Definition parse_simple_identifier (s : pstate) : option (varname * range * pstate) :=
  match match_and_consume (is_id TWord) s with
  | Some (t, s') => Some (Simple (tspell t), trange t, s')
  | None => None
  end.

Definition is_capitalized_word (t : token) : pres bool :=
  match tid t with
  | TWord =>
      match tspell t with
      | c :: _ => Ok (is_uppercase c)
      | [] => Panic (SiteUnwrap 62)
      end
  | _ => Ok false
  end.

(** [match_and_consume_while] for capitalised words: names, accumulated range, state *)
Fixpoint capitalized_words (fuel : nat) (s : pstate) (names : list str) (acc : option range)
  : pres (list str * option range * pstate) :=
  match fuel with
  | O => OutOfFuel
  | S f =>
      match current s with
      | Some t =>
          let* b := is_capitalized_word t in
          if b then
            match advance s with
            | Some (_, s') =>
                let r := match acc with Some a => range_concat a (trange t) | None => trange t end in
                capitalized_words f s' (names ++ [tspell t]) (Some r)
            | None => Ok (names, acc, s)
            end
          else Ok (names, acc, s)
      | None => Ok (names, acc, s)
      end
  end.

Definition parse_capitalized_identifier (s : pstate) : pres (option (varname * range) * pstate) :=
  let* (names, acc, s') := capitalized_words (S (length (toks s))) s [] None in
  match names with
  | [] => Ok (None, s')
  | [n] =>
      match acc with
      | Some r => Ok (Some (Simple n, r), s')
      | None => match prof with Debug => Panic (SiteDebugAssert 63) | Release => UB (SiteUnchecked 63) end
      end
  | _ =>
      match acc with
      | Some r => Ok (Some (Proper names, r), s')
      | None => match prof with Debug => Panic (SiteDebugAssert 63) | Release => UB (SiteUnchecked 63) end
      end
  end.

Definition parse_variable_name (s : pstate) : pres (option (varname * range) * pstate) :=
  let* (c, s1) := parse_common_identifier s in
  match c with
  | Some x => Ok (Some x, s1)
  | None =>
      let* (k, s2) := parse_capitalized_identifier s1 in
      match k with
      | Some x => Ok (Some x, s2)
      | None =>
          match parse_simple_identifier s2 with
          | Some (n, r, s3) => Ok (Some (n, r), s3)
          | None => Ok (None, s2)
          end
      end
  end.

Definition parse_identifier (s : pstate) : pres (option (ident * range) * pstate) :=
  let* (v, s1) := parse_variable_name s in
  match v with
  | Some (n, r) => Ok (Some (IVar n, r), s1)
  | None =>
      match parse_pronoun s1 with
      | Some (i, r, s2) => Ok (Some (i, r), s2)
      | None => Ok (None, s1)
      end
  end.

Definition expect_identifier (s : pstate) : pres (ident * range * pstate) :=
  let* (i, s1) := parse_identifier s in
  match i with
  | Some (x, r) => Ok (x, r, s1)
  | None => fail s1 PExpectedIdentifier
  end.

Definition expect_variable_name (s : pstate) : pres (varname * range * pstate) :=
  let* (v, s1) := parse_variable_name s in
  match v with
  | Some (n, r) => Ok (n, r, s1)
  | None => fail s1 PExpectedIdentifier
  end.

Definition as_variable_name (s : pstate) (i : ident) (r : range) : pres (varname * range) :=
  match i with
  | IVar v => Ok (v, r)
  | IPronoun => fail s PExpectedIdentifier
  end.

Definition lhs_of_primary (p : primary) : pres lhs :=
  match p with
  | PIdent i r => Ok (LIdent i r)
  | PSubscript a x => Ok (LSubscript a x)
  | _ => Panic (SiteAssert 64)
  end.

(** * Poetic number literals (loops over tokens; no expression recursion) *)

Definition is_minus_hyphen (t : token) : bool :=
  match tid t with TMinus => str_eqb (tspell t) (lit "-") | _ => false end.

Definition is_poetic_number_literal_token (t : token) : bool :=
  match tid t with
  | TDot | TComma | TApostropheS | TApostropheRE => true
  | _ => if is_minus_hyphen t then true else is_word (tspell t)
  end.

Fixpoint poetic_elems (fuel : nat) (s : pstate) (acc : list pelem) : pres (list pelem * pstate) :=
  match fuel with
  | O => OutOfFuel
  | S f =>
      match match_and_consume is_poetic_number_literal_token s with
      | None => Ok (acc, s)
      | Some (t, s1) =>
          match tid t with
          | TComma => poetic_elems f s1 acc
          | TDot => poetic_elems f s1 (acc ++ [PEDot])
          | TApostropheS | TApostropheRE => poetic_elems f s1 (acc ++ [PESuffix (tspell t)])
          | _ =>
              if is_minus_hyphen t then
                match advance s1 with
                | None => fail s1 PPoeticLiteralEndingWithHyphen
                | Some (nt, s2) =>
                    if is_word (tspell nt) then poetic_elems f s2 (acc ++ [PESuffix (lit "-" ++ tspell nt)])
                    else Err (mkPE PUnexpectedToken (PLTok nt))
                end
              else poetic_elems f s1 (acc ++ [PEWord (tspell t)])
          end
      end
  end.

Definition parse_poetic_number_literal (s : pstate) : pres (list pelem * pstate) :=
  if current_matches is_minus_hyphen s then fail s PPoeticLiteralStartingWithHyphen else
  let* (elems, s1) := poetic_elems (S (length (toks s))) s [] in
  match elems with
  | [] => fail s1 PExpectedPoeticNumberLiteral
  | _ => Ok (elems, s1)
  end.

Definition is_current_negative_number (s : pstate) : pres bool :=
  match toks s with
  | [] => match prof with Debug => Panic (SiteDebugAssert 65) | Release => UB (SiteUnchecked 65) end
  | pt :: rest_ =>
      Ok (is_minus_hyphen (pt_tok pt) &&
          match rest_ with
          | pt2 :: _ => match tid (pt_tok pt2) with TNumber _ => true | _ => false end
          | [] => false
          end)
  end.

(** * Poetic strings: raw text between token offsets *)

Fixpoint drop_until_newline (s : pstate) (fuel : nat) : pstate :=
  match fuel with
  | O => s
  | S f =>
      match current s with
      | Some t =>
          match tid t with
          | TNewline => s
          | _ => match advance s with Some (_, s') => drop_until_newline s' f | None => s end
          end
      | None => s
      end
  end.

(** [buf.get(a..b)] *)
Definition slice_bytes (buf : str) (a b : N) : option str :=
  if b <? a then None else take_bytes (b - a) (drop_bytes a buf).
Definition boundary_ok (buf : str) (a : N) : bool :=
  match take_bytes a buf with Some _ => true | None => false end.

Definition parse_poetic_string_rhs (buf : str) (says : token) (s : pstate) : pres (str * pstate) :=
  let s1 := drop_until_newline s (length (toks s)) in
  let text_opt :=
    match current s1 with
    | Some e => if boundary_ok buf (tstart says) && boundary_ok buf (tstart e)
                then slice_bytes buf (tstart says) (tstart e) else None
    | None => if boundary_ok buf (tstart says) then Some (drop_bytes (tstart says) buf) else None
    end in
  match text_opt with
  | None => Panic (SiteUnwrap 66)
  | Some text =>
      match strip_prefix (tspell says) text with
      | None => Panic (SiteUnwrap 67)
      | Some after =>
          match strip_prefix (lit " ") after with
          | Some r => Ok (r, s1)
          | None => fail s1 (PExpectedSpaceAfterSays says)
          end
      end
  end.

(** * Combinators (the Rust higher-order helpers) *)

Section Combinators.
  Variable next : P expr.

  (** the tail of [parse_expression_list]: [, [and] next]* *)
  Fixpoint list_tail (fuel : nat) (s : pstate) (acc : list expr) : pres (list expr * pstate) :=
    match fuel with
    | O => OutOfFuel
    | S f =>
        match match_and_consume (is_id TComma) s with
        | None => Ok (acc, s)
        | Some (_, s1) =>
            let s2 := skip_opt (is_id TAnd) s1 in
            let* (e, s3) := next s2 in
            list_tail f s3 (acc ++ [e])
        end
    end.

  (** [parse_expression_list(next)] with the flag saved and restored *)
  Definition parse_expression_list (fuel : nat) (s : pstate) : pres (expr * list expr * pstate) :=
    let* (first, s1) := next s in
    let outer := plist s1 in
    if outer then Ok (first, [], mkPS (toks s1) (pline s1) (ploc s1) outer)
    else
      let s2 := mkPS (toks s1) (pline s1) (ploc s1) true in
      let* (rest_, s3) := list_tail fuel s2 [] in
      Ok (first, rest_, mkPS (toks s3) (pline s3) (ploc s3) outer).

  (** [parse_binary_expression_loop(operators, next, expr)] *)
  Fixpoint binary_loop (ops : list ttype) (fuel : nat) (e : expr) (s : pstate) : pres (expr * pstate) :=
    match fuel with
    | O => OutOfFuel
    | S f =>
        match match_and_consume (is_one_of ops) s with
        | None => Ok (e, s)
        | Some (t, s1) =>
            let* op := unwrap_op 68 (get_binary_operator (tid t)) in
            let* (first, rest_, s2) := parse_expression_list f s1 in
            binary_loop ops f (EBinary op e first rest_) s2
        end
    end.

  Definition parse_binary_expression (ops : list ttype) (fuel : nat) (s : pstate) : pres (expr * pstate) :=
    let* (e, s1) := next s in
    binary_loop ops fuel e s1.
End Combinators.

(** [parse_parameter_list(p, require_comma = false)] *)
Section ParamList.
  Context {R : Type}.
  Variable p : P R.
  Definition param_seps : list ttype := [TAmpersand; TComma; TApostropheNApostrophe; TAnd].
  Fixpoint param_tail (fuel : nat) (s : pstate) (acc : list R) : pres (list R * pstate) :=
    match fuel with
    | O => OutOfFuel
    | S f =>
        match match_and_consume (is_one_of param_seps) s with
        | None => Ok (acc, s)
        | Some (sep, s1) =>
            let s2 := match tid sep with TComma => skip_opt (is_id TAnd) s1 | _ => s1 end in
            let* (x, s3) := p s2 in
            param_tail f s3 (acc ++ [x])
        end
    end.
  Definition parse_parameter_list (fuel : nat) (s : pstate) : pres (list R * pstate) :=
    let* (x, s1) := p s in
    param_tail fuel s1 [x].
End ParamList.

Definition logical_ops := [TAnd; TOr; TNor].
Definition is_ops := [TIs; TApostropheS; TApostropheRE].
Definition cmp_ops := [TLess; TLessEq; TGreater; TGreaterEq; TIsnt].
Definition term_ops := [TPlus; TWith; TMinus].
Definition factor_ops := [TMultiply; TDivide].

(** the operator part of [parse_fancy_comparison_expression] *)
Definition fancy_operator (s : pstate) : pres (binop * pstate) :=
  match match_and_consume (is_id TAs) s with
  | Some (_, s1) =>
      let* (t, s2) := expect_any [TBig; TSmall] s1 in
      let* op := unwrap_op 69 (get_binary_operator (tid t)) in
      let* (_, s3) := expect_token TAs s2 in
      Ok (op, s3)
  | None =>
      match match_and_consume (is_one_of [TBigger; TSmaller]) s with
      | Some (t, s1) =>
          let* op := unwrap_op 70 (get_binary_operator (tid t)) in
          let* (_, s2) := expect_token TThan s1 in
          Ok (op, s2)
      | None =>
          match match_and_consume (is_id TNot) s with
          | Some (_, s1) => Ok (OpNotEq, s1)
          | None => Ok (OpEq, s)
          end
      end
  end.

(** * The expression grammar: one mutual fixpoint on fuel *)

Fixpoint parse_expression (fuel : nat) (s : pstate) {struct fuel} : pres (expr * pstate) :=
  match fuel with
  | O => OutOfFuel
  | S f => parse_binary_expression (parse_comparison f) logical_ops f s
  end

with parse_comparison (fuel : nat) (s : pstate) {struct fuel} : pres (expr * pstate) :=
  match fuel with
  | O => OutOfFuel
  | S f =>
      let* (e, s1) := parse_term f s in
      match match_and_consume (is_one_of is_ops) s1 with
      | Some (_, s2) =>
          let* (e2, s3) := parse_fancy f e s2 in
          fancy_loop f e2 s3
      | None => binary_loop (parse_term f) cmp_ops f e s1
      end
  end

(** [parse_fancy_comparison_expression(lhs)] *)
with parse_fancy (fuel : nat) (l : expr) (s : pstate) {struct fuel} : pres (expr * pstate) :=
  match fuel with
  | O => OutOfFuel
  | S f =>
      let* (op, s1) := fancy_operator s in
      let* (r, s2) := parse_term f s1 in
      Ok (EBinary op l r [], s2)
  end

with fancy_loop (fuel : nat) (e : expr) (s : pstate) {struct fuel} : pres (expr * pstate) :=
  match fuel with
  | O => OutOfFuel
  | S f =>
      match match_and_consume (is_one_of is_ops) s with
      | Some (_, s1) =>
          let* (e2, s2) := parse_fancy f e s1 in
          fancy_loop f e2 s2
      | None => Ok (e, s)
      end
  end

with parse_term (fuel : nat) (s : pstate) {struct fuel} : pres (expr * pstate) :=
  match fuel with
  | O => OutOfFuel
  | S f => parse_binary_expression (parse_factor f) term_ops f s
  end

with parse_factor (fuel : nat) (s : pstate) {struct fuel} : pres (expr * pstate) :=
  match fuel with
  | O => OutOfFuel
  | S f => parse_binary_expression (parse_unary f) factor_ops f s
  end

with parse_unary (fuel : nat) (s : pstate) {struct fuel} : pres (expr * pstate) :=
  match fuel with
  | O => OutOfFuel
  | S f =>
      match match_and_consume (is_one_of [TMinus; TNot]) s with
      | Some (t, s1) =>
          let* op := unwrap_op 71 (get_unary_operator (tid t)) in
          let* (e, s2) := parse_unary f s1 in
          Ok (EUnary op e, s2)
      | None =>
          let* (p, s1) := parse_primary f s in
          Ok (EPrimary p, s1)
      end
  end

with parse_primary (fuel : nat) (s : pstate) {struct fuel} : pres (primary * pstate) :=
  match fuel with
  | O => OutOfFuel
  | S f =>
      let* (p, s1) := parse_non_subscript_primary f s in
      subscript_after f p s1
  end

with parse_non_subscript_primary (fuel : nat) (s : pstate) {struct fuel} : pres (primary * pstate) :=
  match fuel with
  | O => OutOfFuel
  | S f =>
      let* (io, s1) := parse_identifier_or_call f s in
      match io with
      | Some p => Ok (p, s1)
      | None =>
          match parse_literal_expression s1 with
          | Some (l, r, s2) => Ok (PLit l r, s2)
          | None =>
              match match_and_consume (is_id TRoll) s1 with
              | Some (_, s2) =>
                  let* (p, s3) := parse_primary f s2 in
                  Ok (PPop p, s3)
              | None => fail s1 PExpectedPrimaryExpression
              end
          end
      end
  end

(** [parse_array_subscript_after] *)
with subscript_after (fuel : nat) (e : primary) (s : pstate) {struct fuel} : pres (primary * pstate) :=
  match fuel with
  | O => OutOfFuel
  | S f =>
      match match_and_consume (is_id TAt) s with
      | Some (_, s1) =>
          let* (sub, s2) := parse_non_subscript_primary f s1 in
          subscript_after f (PSubscript e sub) s2
      | None => Ok (e, s)
      end
  end

with parse_identifier_or_call (fuel : nat) (s : pstate) {struct fuel} : pres (option primary * pstate) :=
  match fuel with
  | O => OutOfFuel
  | S f =>
      match parse_pronoun s with
      | Some (i, r, s1) => Ok (Some (PIdent i r), s1)
      | None =>
          let* (v, s1) := parse_variable_name s in
          match v with
          | Some (n, r) =>
              if current_matches (is_id TTaking) s1 then
                let* (args, s2) := parse_function_call_args f s1 in
                Ok (Some (PCall n r args), s2)
              else Ok (Some (PIdent (IVar n) r), s1)
          | None => Ok (None, s1)
          end
      end
  end

(** [parse_function_call] after the name: consume [taking], then the argument list *)
with parse_function_call_args (fuel : nat) (s : pstate) {struct fuel} : pres (list expr * pstate) :=
  match fuel with
  | O => OutOfFuel
  | S f =>
      let* (_, s1) := consume (is_id TTaking) s in
      parse_parameter_list (parse_unary f) f s1
  end.

Definition parse_toplevel_expression_list (fuel : nat) (s : pstate) : pres (expr * list expr * pstate) :=
  parse_expression_list (parse_expression fuel) fuel s.

Definition parse_assignment_lhs_with (fuel : nat) (i : ident) (r : range) (s : pstate) : pres (lhs * pstate) :=
  let* (p, s1) := subscript_after fuel (PIdent i r) s in
  let* l := lhs_of_primary p in
  Ok (l, s1).

Definition parse_assignment_lhs (fuel : nat) (s : pstate) : pres (lhs * pstate) :=
  let* (i, r, s1) := expect_identifier s in
  parse_assignment_lhs_with fuel i r s1.

(** * Simple statements (no block recursion) *)

Definition parse_put_assignment (fuel : nat) (s : pstate) : pres (stmt * pstate) :=
  let* (_, s1) := consume (is_id TPut) s in
  let* (v, s2) := parse_expression fuel s1 in
  let* (_, s3) := expect_token TInto s2 in
  let* (d, s4) := parse_assignment_lhs fuel s3 in
  Ok (SAssign d v [] None, s4).

Definition parse_let_assignment (fuel : nat) (s : pstate) : pres (stmt * pstate) :=
  let* (_, s1) := consume (is_id TLet) s in
  let* (d, s2) := parse_assignment_lhs fuel s1 in
  let* (_, s3) := expect_token TBe s2 in
  let* (op, s4) :=
    match match_and_consume (is_one_of [TPlus; TWith; TMinus; TMultiply; TDivide]) s3 with
    | Some (t, s') => let* o := unwrap_op 72 (get_binary_operator (tid t)) in Ok (Some o, s')
    | None => Ok (None, s3)
    end in
  let* (first, rest_, s5) := parse_toplevel_expression_list fuel s4 in
  Ok (SAssign d first rest_ op, s5).

Definition parse_poetic_number_rhs (fuel : nat) (s : pstate) : pres (pn_rhs * pstate) :=
  match current s with
  | None => fail s PUnexpectedEndOfTokens
  | Some t =>
      let* neg := if is_literal_word (tid t) then Ok true else is_current_negative_number s in
      if neg then
        let* (e, s1) := parse_expression fuel s in Ok (PNExpr e, s1)
      else
        let* (el, s1) := parse_poetic_number_literal s in Ok (PNLit el, s1)
  end.

Definition parse_poetic_assignment (buf : str) (fuel : nat) (i : ident) (r : range) (s : pstate)
  : pres (stmt * pstate) :=
  let* (d, s1) := parse_assignment_lhs_with fuel i r s in
  let* (t, s2) := expect_any [TIs; TApostropheS; TApostropheRE; TSays; TSay] s1 in
  match tid t with
  | TSays | TSay =>
      let* (txt, s3) := parse_poetic_string_rhs buf t s2 in
      Ok (SPoeticStr d txt, s3)
  | _ =>
      let* (rhs, s3) := parse_poetic_number_rhs fuel s2 in
      Ok (SPoeticNum d rhs, s3)
  end.

Fixpoint count_suffix (fuel : nat) (suffix : ttype) (s : pstate) (c : Z) : Z * pstate :=
  match fuel with
  | O => (c, s)
  | S f =>
      match match_and_consume (is_id suffix) s with
      | Some (_, s1) => count_suffix f suffix (skip_opt (is_id TComma) s1) (c + 1)%Z
      | None => (c, s)
      end
  end.

Definition parse_build_knock (begin suffix : ttype) (s : pstate) : pres (ident * range * Z * pstate) :=
  let* (_, s1) := consume (is_id begin) s in
  let* (i, r, s2) := expect_identifier s1 in
  let* (_, s3) := expect_token suffix s2 in
  let s4 := skip_opt (is_id TComma) s3 in
  let '(extra, s5) := count_suffix (length (toks s4)) suffix s4 0%Z in
  Ok (i, r, (1 + extra)%Z, s5).

Definition parse_say (fuel : nat) (s : pstate) : pres (stmt * pstate) :=
  let* (_, s1) := consume (is_one_of [TSay; TSayAlias]) s in
  let* (e, s2) := parse_expression fuel s1 in
  Ok (SOutput e, s2).

Definition parse_listen (fuel : nat) (s : pstate) : pres (stmt * pstate) :=
  let* (_, s1) := consume (is_id TListen) s in
  match match_and_consume (is_id TTo) s1 with
  | Some (_, s2) =>
      let* (d, s3) := parse_assignment_lhs fuel s2 in
      Ok (SInput (Some d) (mkLoc 0 0), s3)
  | None => Ok (SInput None (ploc s1), s1)
  end.

Definition opt_lhs_after (fuel : nat) (id : ttype) (s : pstate) : pres (option lhs * pstate) :=
  match match_and_consume (is_id id) s with
  | Some (_, s1) => let* (d, s2) := parse_assignment_lhs fuel s1 in Ok (Some d, s2)
  | None => Ok (None, s)
  end.

Definition parse_mutation (fuel : nat) (s : pstate) : pres (stmt * pstate) :=
  let* (t, s1) := consume (is_one_of [TCut; TJoin; TCast]) s in
  let* op := unwrap_op 73 (get_mutation_operator (tid t)) in
  let* (operand, s2) := parse_primary fuel s1 in
  let* (dest, s3) := opt_lhs_after fuel TInto s2 in
  let* _ :=
    match dest, operand with
    | Some _, _ => Ok tt
    | None, PIdent _ _ => Ok tt
    | None, _ => fail s3 (PMutationOperandMustBeIdentifier operand)
    end in
  let* (param, s4) :=
    match match_and_consume (is_id TWith) s3 with
    | Some (_, s') => let* (e, s'') := parse_expression fuel s' in Ok (Some e, s'')
    | None => Ok (None, s3)
    end in
  Ok (SMutation op operand dest param, s4).

Definition parse_rounding_direction (s : pstate) : option rounddir * pstate :=
  match match_and_consume (is_one_of [TUp; TDown; TRound]) s with
  | Some (t, s1) => (get_rounding_direction (tid t), s1)
  | None => (None, s)
  end.

Definition parse_rounding (fuel : nat) (s : pstate) : pres (stmt * pstate) :=
  let* (_, s1) := consume (is_id TTurn) s in
  let '(d1, s2) := parse_rounding_direction s1 in
  let* (operand, s3) := parse_expression fuel s2 in
  match d1 with
  | Some d => Ok (SRounding d operand, s3)
  | None =>
      let '(d2, s4) := parse_rounding_direction s3 in
      match d2 with
      | Some d => Ok (SRounding d operand, s4)
      | None => fail s4 (PExpectedOneOfTokens [TUp; TDown; TRound])
      end
  end.

Definition parse_break (s : pstate) : pres (stmt * pstate) :=
  let* (b, s1) := consume (is_id TBreak) s in
  match current s1 with
  | Some t =>
      let* it := is_ispelled (lit "it") t in
      if it then
        match advance s1 with
        | Some (_, s2) =>
            let* (d, s3) := expect_token TDown s2 in
            Ok (SBreak (range_concat (trange b) (trange d)), s3)
        | None => Ok (SBreak (trange b), s1)
        end
      else Ok (SBreak (trange b), s1)
  | None => Ok (SBreak (trange b), s1)
  end.

Definition parse_simple_continue (s : pstate) : pres (stmt * pstate) :=
  let* (c, s1) := consume (is_id TContinue) s in Ok (SContinue (trange c), s1).

Definition parse_take_it_to_the_top (s : pstate) : pres (stmt * pstate) :=
  let* (t0, s1) := consume (is_id TTake) s in
  let* (_, s2) := expect_token_ispelled (lit "it") s1 in
  let* (_, s3) := expect_token TTo s2 in
  let* (_, s4) := expect_token_ispelled (lit "the") s3 in
  let* (t1, s5) := expect_token TTop s4 in
  Ok (SContinue (range_concat (trange t0) (trange t1)), s5).

Definition parse_array_push (fuel : nat) (s : pstate) : pres (stmt * pstate) :=
  let* (_, s1) := consume (is_id TRock) s in
  let* (arr, s2) := parse_primary fuel s1 in
  match match_and_consume (is_one_of [TWith; TLike]) s2 with
  | Some (t, s3) =>
      match tid t with
      | TWith =>
          let* (first, rest_, s4) := parse_toplevel_expression_list fuel s3 in
          Ok (SPush arr (Some (PushList first rest_)), s4)
      | TLike =>
          let* (el, s4) := parse_poetic_number_literal s3 in
          Ok (SPush arr (Some (PushLit el)), s4)
      | _ => UB (SiteUnchecked 74)
      end
  | None => Ok (SPush arr None, s2)
  end.

Definition parse_array_pop (fuel : nat) (s : pstate) : pres (stmt * pstate) :=
  let* (_, s1) := consume (is_id TRoll) s in
  let* (arr, s2) := parse_primary fuel s1 in
  let* (dest, s3) := opt_lhs_after fuel TInto s2 in
  Ok (SPop arr dest, s3).

Definition parse_return (fuel : nat) (s : pstate) : pres (stmt * pstate) :=
  let* (rt, s1) := consume (is_id TReturn) s in
  let* give := is_ispelled (lit "give") rt in
  let s2 := if give then skip_opt (is_id TBack) s1 else s1 in
  let* (e, s3) := parse_expression fuel s2 in
  Ok (SReturn e, skip_opt (is_id TBack) s3).

Definition is_function_terminator (st : stmt) : bool :=
  match st with SIf _ _ (Some _) => true | _ => false end.

(** * Statements and blocks: mutual fixpoint on fuel *)

Section Blocks.
Variable buf : str.

Fixpoint parse_statement (fuel : nat) (s : pstate) {struct fuel} : pres (option stmt * pstate) :=
  match fuel with
  | O => OutOfFuel
  | S f =>
      let some (r : pres (stmt * pstate)) : pres (option stmt * pstate) :=
        let* (x, s') := r in Ok (Some x, s') in
      match current s with
      | None => Ok (None, s)
      | Some t =>
          match tid t with
          | TPut => some (parse_put_assignment f s)
          | TLet => some (parse_let_assignment f s)
          | TWord | TCommonVariablePrefix | TPronoun => some (parse_statement_starting_with_word f s)
          | TIf => some (parse_if f s)
          | TWhile | TUntil => some (parse_loop f s)
          | TElse => Ok (None, s)
          | TNewline => Ok (None, s)
          | TBuild =>
              let* (i, r, k, s1) := parse_build_knock TBuild TUp s in Ok (Some (SInc i r k), s1)
          | TKnock =>
              let* (i, r, k, s1) := parse_build_knock TKnock TDown s in Ok (Some (SDec i r k), s1)
          | TSay | TSayAlias => some (parse_say f s)
          | TListen => some (parse_listen f s)
          | TCut | TJoin | TCast => some (parse_mutation f s)
          | TTurn => some (parse_rounding f s)
          | TBreak => some (parse_break s)
          | TContinue => some (parse_simple_continue s)
          | TTake => some (parse_take_it_to_the_top s)
          | TRock => some (parse_array_push f s)
          | TRoll => some (parse_array_pop f s)
          | TReturn => some (parse_return f s)
          | _ => fail s PUnexpectedToken
          end
      end
  end

with parse_statement_starting_with_word (fuel : nat) (s : pstate) {struct fuel} : pres (stmt * pstate) :=
  match fuel with
  | O => OutOfFuel
  | S f =>
      let* (i, r, s1) := expect_identifier s in
      match current s1 with
      | Some t =>
          match tid t with
          | TTakes =>
              let* (n, nr) := as_variable_name s1 i r in
              parse_function f n nr s1
          | TTaking =>
              let* (n, nr) := as_variable_name s1 i r in
              let* (args, s2) := parse_function_call_args f s1 in
              Ok (SCall n nr args, s2)
          | _ => parse_poetic_assignment buf f i r s1
          end
      | None => parse_poetic_assignment buf f i r s1
      end
  end

with parse_function (fuel : nat) (n : varname) (nr : range) (s : pstate) {struct fuel} : pres (stmt * pstate) :=
  match fuel with
  | O => OutOfFuel
  | S f =>
      let* (_, s1) := consume (is_id TTakes) s in
      let* (params, s2) :=
        parse_parameter_list (fun st => let* (v, r, st') := expect_variable_name st in Ok ((v, r), st')) f s1 in
      let* (_, s3) := expect_eol s2 in
      let* (body, s4) := parse_function_block f s3 in
      Ok (SFunction n nr params body, s4)
  end

with parse_if (fuel : nat) (s : pstate) {struct fuel} : pres (stmt * pstate) :=
  match fuel with
  | O => OutOfFuel
  | S f =>
      let* (_, s1) := consume (is_id TIf) s in
      let* (c, s2) := parse_expression f s1 in
      let* (_, s3) := expect_eol s2 in
      let* (th, s4) := parse_block f s3 in
      match match_and_consume (is_id TElse) s4 with
      | Some (_, s5) =>
          let* (_, s6) := expect_token_or_end TNewline s5 in
          let* (el, s7) := parse_block f s6 in
          Ok (SIf c th (Some el), s7)
      | None => Ok (SIf c th None, s4)
      end
  end

with parse_loop (fuel : nat) (s : pstate) {struct fuel} : pres (stmt * pstate) :=
  match fuel with
  | O => OutOfFuel
  | S f =>
      let* (t, s1) := consume (is_one_of [TWhile; TUntil]) s in
      let* (c, s2) := parse_expression f s1 in
      let* (_, s3) := expect_eol s2 in
      let* (b, s4) := parse_block f s3 in
      match tid t with
      | TWhile => Ok (SWhile c b, s4)
      | _ => Ok (SUntil c b, s4)
      end
  end

with parse_block (fuel : nat) (s : pstate) {struct fuel} : pres (block * pstate) :=
  match fuel with
  | O => OutOfFuel
  | S f =>
      let l := ploc s in
      match match_and_consume (is_id TNewline) s with
      | Some (_, s1) => Ok (block_new l [], s1)
      | None =>
          let* (ss, s1) := block_statements f false s [] in
          Ok (block_new l ss, s1)
      end
  end

with parse_function_block (fuel : nat) (s : pstate) {struct fuel} : pres (block * pstate) :=
  match fuel with
  | O => OutOfFuel
  | S f =>
      let l := ploc s in
      match match_and_consume (is_id TNewline) s with
      | Some (_, s1) => Ok (block_new l [], s1)
      | None =>
          let* (ss, s1) := block_statements f true s [] in
          Ok (block_new l ss, s1)
      end
  end

(** the statement loop of [parse_block] / [parse_function_block] *)
with block_statements (fuel : nat) (in_function : bool) (s : pstate) (acc : list stmt) {struct fuel}
  : pres (list stmt * pstate) :=
  match fuel with
  | O => OutOfFuel
  | S f =>
      let* (so, s1) := parse_statement f s in
      match so with
      | None => Ok (acc, s1)
      | Some st =>
          if in_function && is_function_terminator st then Ok (acc ++ [st], s1)
          else
            let* (_, s2) := expect_eol s1 in
            block_statements f in_function s2 (acc ++ [st])
      end
  end.

(** [Parser::parse] *)
Fixpoint parse_blocks (fuel : nat) (s : pstate) (acc : list block) : pres program :=
  match fuel with
  | O => OutOfFuel
  | S f =>
      match current s with
      | None => Ok acc
      | Some _ =>
          let* (b, s1) := parse_block fuel s in
          let acc' := if block_is_empty b then acc else acc ++ [b] in
          if current_matches (is_id TElse) s1 then fail s1 PUnexpectedToken
          else parse_blocks f s1 acc'
      end
  end.

End Blocks.
End Parser.

Definition is_comment (t : token) : bool := match tid t with TComment _ => true | _ => false end.

(** drop comments; a comment's post-state is never observed (the parser only looks at the
    underlying lexer right after a real token) *)
Definition drop_comments (l : list ptoken) : list ptoken :=
  filter (fun pt => negb (is_comment (pt_tok pt))) l.

Definition parse_fuel (ntoks : nat) : nat := 40 * ntoks + 40.

Inductive parse_result :=
  | ParseOk (p : program)
  | ParseErr (e : parse_error)
  | ParseCrash (s : site) (ub : bool)
  | ParseOutOfFuel.

Definition parse (prof : profile) (src : str) : parse_result :=
  match lex prof src with
  | Ok pts =>
      let ts := drop_comments pts in
      match parse_blocks prof src (parse_fuel (length ts)) (mkPS ts 1 (mkLoc 1 0) false) [] with
      | Ok p => ParseOk p
      | Err e => ParseErr e
      | Panic s => ParseCrash s false
      | UB s => ParseCrash s true
      | OutOfFuel => ParseOutOfFuel
      | OverBudget => ParseOutOfFuel
      end
  | Err _ => ParseCrash (SiteAssert 0) false
  | Panic s => ParseCrash s false
  | UB s => ParseCrash s true
  | OutOfFuel => ParseOutOfFuel
  | OverBudget => ParseOutOfFuel
  end.
