(** [impl Display for ParseError] (src/frontend/parser/display.rs), with its panic sites. *)
From Coq Require Import List NArith ZArith.
From RRSS Require Import Base.Outcome Base.Chars Base.F64 Base.F64Text Front.Ast Front.Token Front.Parser.
Import ListNotations.

Definition N_text (n : N) : str := f64_display (f_of_N n).

Definition bq (s : str) : str := lit "`" ++ s ++ lit "`".

(** [write_list]: asserts non-emptiness *)
Definition write_list (items : list str) : res unit str :=
  match items with
  | [] => Panic (SiteAssert 80)
  | [a] => Ok (bq a)
  | [a; b] => Ok (bq a ++ lit " or " ++ bq b)
  | _ =>
      let n := length items in
      let firsts := firstn (n - 1) items in
      let last_ := match skipn (n - 1) items with x :: _ => x | [] => [] end in
      Ok (flat_map (fun x => bq x ++ lit ", ") firsts ++ lit "or " ++ bq last_)
  end.

Definition expected_id_description (p : primary) : res unit str :=
  match p with
  | PLit _ _ => Ok (lit "literal")
  | PSubscript _ _ => Ok (lit "array subscript expression")
  | PCall _ _ _ => Ok (lit "function call")
  | PPop _ => Ok (lit "array pop expression")
  | PIdent _ _ => Panic (SiteAssert 81)
  end.

Definition perr_line (e : parse_error) : N :=
  match pe_loc e with
  | PLTok t => line (rstart (trange t))
  | PLLine n => n
  end.

Definition parse_error_display (e : parse_error) : res unit str :=
  let tok := match pe_loc e with PLTok t => Some t | PLLine _ => None end in
  let found := match tok with Some t => lit ", found " ++ bq (tspell t) | None => [] end in
  let head := lit "Parse error (line " ++ N_text (perr_line e) ++ lit "): " in
  let* body :=
    match pe_code e with
    | PGeneric s => Ok (s ++ match tok with Some t => lit " at " ++ bq (tspell t) | None => [] end)
    | PMissingIDAfterCommonPrefix p => Ok (lit "Missing identifier after " ++ bq p ++ found)
    | PMutationOperandMustBeIdentifier p =>
        let* d := expected_id_description p in
        Ok (lit "Mutation operand with no `into` destination must be identifier; found " ++ d)
    | PExpectedPrimaryExpression => Ok (lit "Expected primary expression" ++ found)
    | PExpectedIdentifier => Ok (lit "Expected identifier" ++ found)
    | PExpectedText t => Ok (lit "Expected " ++ bq t ++ found)
    | PExpectedToken t => Ok (lit "Expected " ++ bq (ttype_name t) ++ found)
    | PExpectedOneOfTokens ts =>
        let* l := write_list (map ttype_name ts) in
        Ok (lit "Expected " ++ l ++ found)
    | PExpectedPoeticNumberLiteral => Ok (lit "Expected poetic number literal" ++ found)
    | PExpectedSpaceAfterSays says => Ok (lit "Expected space after " ++ bq (tspell says) ++ found)
    | PUnexpectedToken =>
        match tok with
        | Some t => Ok (lit "Unexpected token " ++ bq (tspell t))
        | None => Panic (SiteUnwrap 82)
        end
    | PUnexpectedEndOfTokens => Ok (lit "Unexpected end of tokens")
    | PPoeticLiteralEndingWithHyphen => Ok (lit "Poetic literal ending with hyphen")
    | PPoeticLiteralStartingWithHyphen => Ok (lit "Poetic literal starting with hyphen")
    end in
  Ok (head ++ body).

Definition perr_code_name (c : perr_code) : str :=
  match c with
  | PGeneric _ => lit "Generic"
  | PMissingIDAfterCommonPrefix _ => lit "MissingIDAfterCommonPrefix"
  | PMutationOperandMustBeIdentifier _ => lit "MutationOperandMustBeIdentifier"
  | PExpectedPrimaryExpression => lit "ExpectedPrimaryExpression"
  | PExpectedIdentifier => lit "ExpectedIdentifier"
  | PExpectedText _ => lit "ExpectedText"
  | PExpectedToken _ => lit "ExpectedToken"
  | PExpectedOneOfTokens _ => lit "ExpectedOneOfTokens"
  | PExpectedPoeticNumberLiteral => lit "ExpectedPoeticNumberLiteral"
  | PExpectedSpaceAfterSays _ => lit "ExpectedSpaceAfterSays"
  | PUnexpectedToken => lit "UnexpectedToken"
  | PUnexpectedEndOfTokens => lit "UnexpectedEndOfTokens"
  | PPoeticLiteralEndingWithHyphen => lit "PoeticLiteralEndingWithHyphen"
  | PPoeticLiteralStartingWithHyphen => lit "PoeticLiteralStartingWithHyphen"
  end.
