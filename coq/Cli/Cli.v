(** Model of src/cli: routing of the library's results to stdout / stderr / exit status.
    The library results are inputs (text produced by the models of the parser, interpreter and
    linter); clap's accept/reject decision and file reading are inputs too. *)
From Coq Require Import List NArith.
From RRSS Require Import Base.Chars Base.F64 Base.F64Text Lint.Lint.
Import ListNotations.

Inductive lib_result :=
  | LibParseError (msg : str)                (* ParseError::to_string() *)
  | LibRuntimeError (msg : str)              (* after the program wrote its output *)
  | LibOk.

Record cli_out := mkOut { c_stdout : str; c_stderr : str; c_exit : N }.

Definition nl : str := [10%N].

(** `rrss exec FILE`: [program_out] is what the interpreter wrote before finishing/failing *)
Definition cli_exec (program_out : str) (r : lib_result) : cli_out :=
  match r with
  | LibOk => mkOut program_out [] 0
  | LibParseError m => mkOut program_out (lit "Parse error: " ++ m ++ nl) 0
  | LibRuntimeError m => mkOut program_out (lit "Runtime error: " ++ m ++ nl) 0
  end.

Definition N_str (n : N) : str := f64_display (f_of_N n).

Definition cli_diag (d : diag) : str :=
  lit "Lint issue: " ++ lit "(line " ++ N_str (d_line d) ++ lit ") " ++ d_issue d ++
  flat_map (fun s => [10%N; 9%N] ++ s) (d_suggestions d) ++ nl.

(** `rrss lint FILE` *)
Definition cli_lint (r : lib_result) (ds : list diag) : cli_out :=
  match r with
  | LibParseError m => mkOut [] (lit "Parse error: " ++ m ++ nl) 0
  | _ =>
      match ds with
      | [] => mkOut (lit "No lint issues found :)") [] 0
      | _ => mkOut (flat_map cli_diag ds) [] 0
      end
  end.

(** `rrss parse FILE`: [tree_text] is the library's `{:#?}` rendering *)
Definition cli_parse (r : lib_result) (tree_text : str) : cli_out :=
  match r with
  | LibParseError m => mkOut [] (lit "Parse error: " ++ m ++ nl) 0
  | _ => mkOut (tree_text ++ nl) [] 0
  end.

(** a missing file or a usage error reported by clap: message on stderr, status 1 *)
Definition cli_failure (msg : str) : cli_out := mkOut [] (msg ++ nl) 1.
