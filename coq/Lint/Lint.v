(** Model of src/linter: the BoringAssignment pass, the MissedPronoun pass (an
    ExprVisitorRunner over a stateful visitor), ListBuilder, postprocess and Diag rendering. *)
From Coq Require Import List ZArith NArith Bool Floats.SpecFloat.
From RRSS Require Import Base.Outcome Base.Chars Base.F64 Base.F64Text Exec.Ops Exec.Val Front.Ast Front.Poetic.
From RRSS Require Import Exec.Env Exec.Interp Exec.RtErrorText Analysis.Visit Analysis.Fold.
Import ListNotations.
Open Scope N_scope.

Record diag := mkDiag { d_issue : str; d_suggestions : list str; d_line : N }.

(** * Rendering of names (render.rs) *)
Definition render_ident (i : ident) : str :=
  match i with IVar v => render_varname v | IPronoun => lit "<pronoun>" end.
Definition render_lhs (l : lhs) : str :=
  match l with LIdent i _ => render_ident i | LSubscript _ _ => lit "<expression>" end.
Definition render_primary (p : primary) : str :=
  match p with
  | PIdent i _ => render_ident i
  | PLit _ _ => lit "<literal>"
  | _ => lit "<expression>"
  end.

(** * PoeticNumberLiteralTemplate *)
Definition has_poetic_spelling (v : f64) : bool :=
  match v with
  | S754_zero s => negb s
  | S754_finite s _ _ => negb s
  | _ => false
  end.

Fixpoint stars (n : nat) : str := match n with O => [] | S k => 42 :: stars k end.

(** from_value + as_text: each digit a word of that many stars (0 -> 10), '.' a period *)
Fixpoint template_text (chars : str) (first : bool) : res unit str :=
  match chars with
  | [] => Ok []
  | c :: t =>
      if c =? 46 then let* r := template_text t false in Ok (46 :: r)
      else if c <? 48 then Panic (SiteOverflow 90)          (* c as usize - '0' as usize underflows *)
      else
        let d := c - 48 in
        let n := if d =? 0 then 10 else d in
        if 100000 <? n then OverBudget else
        let* r := template_text t false in
        Ok ((if first then [] else [32]) ++ stars (N.to_nat n) ++ r)
  end.

Definition issue_text (var value : str) : str :=
  lit "Assignment of literal value `" ++ value ++ lit "` into `" ++ var ++ lit "` isn't very rock'n'roll".
Definition suggestion_text (payload : str) : str :=
  lit "Consider using a poetic literal such as: `" ++ payload ++ lit "`".

Definition numeric_diag (prefix_ : str) (sep : str) (var : str) (v : f64) (ln : N) : res unit (list diag) :=
  let* sugg :=
    if has_poetic_spelling v then
      let* t := template_text (f64_display v) true in
      Ok [suggestion_text (prefix_ ++ var ++ sep ++ t)]
    else Ok [] in
  Ok [mkDiag (issue_text var (f64_display v)) sugg ln].

Definition string_diag (var : str) (s : str) (ln : N) : list diag :=
  let sugg := if existsb (fun c => c =? 10) s then [] else [suggestion_text (var ++ lit " says " ++ s)] in
  [mkDiag (issue_text var (quoted s)) sugg ln].

(** * BoringAssignmentPass (VisitProgram with the default recursion into blocks) *)
Fixpoint boring_stmt (st : stmt) : res unit (list diag) :=
  match st with
  | SAssign d f rest op =>
      match op with
      | Some _ => Ok []
      | None =>
          let ln := range_line (exprlist_range f rest) in
          match fold_num_list f rest with
          | Ok x => numeric_diag [] (lit " is ") (render_lhs d) x ln
          | Err FWrongType =>
              match fold_str_list f rest with
              | Ok s => Ok (string_diag (render_lhs d) s ln)
              | _ => Ok []
              end
          | _ => Ok []
          end
      end
  | SPoeticNum d (PNExpr e) =>
      let ln := range_line (expr_range e) in
      match fold_num e with
      | Ok x => numeric_diag [] (lit " is ") (render_lhs d) x ln
      | Err FWrongType =>
          match fold_str e with
          | Ok s => Ok (string_diag (render_lhs d) s ln)
          | _ => Ok []
          end
      | _ => Ok []
      end
  | SPush a (Some (PushList f rest)) =>
      match fold_num_list f rest with
      | Ok x => numeric_diag (lit "Rock ") (lit " like ") (render_primary a) x (range_line (primary_range a))
      | _ => Ok []
      end
  | SIf _ t e =>
      let* a := boring_block t in
      let* b := match e with Some x => boring_block x | None => Ok [] end in
      Ok (a ++ b)
  | SWhile _ b => boring_block b
  | SUntil _ b => boring_block b
  | SFunction _ _ _ b => boring_block b
  | _ => Ok []
  end
with boring_block (b : block) : res unit (list diag) :=
  match b with
  | BEmpty _ => Ok []
  | BNonEmpty ss =>
      (fix go (l : list stmt) : res unit (list diag) :=
         match l with
         | [] => Ok []
         | x :: t => let* a := boring_stmt x in let* r := go t in Ok (a ++ r)
         end) ss
  end.

Fixpoint boring_program (p : program) : res unit (list diag) :=
  match p with
  | [] => Ok []
  | b :: t => let* a := boring_block b in let* r := boring_program t in Ok (a ++ r)
  end.

(** * MissedPronounPass: state = (last, in_function_call); driven by the variable mentions
    in the runner's traversal order.  A callee name updates [last] but never matches. *)
Inductive mention := MVar (n : varname) (r : range) | MCallee (n : varname) (r : range).

Fixpoint mentions_primary (p : primary) : list mention :=
  match p with
  | PLit _ _ => []
  | PIdent (IVar n) r => [MVar n r]
  | PIdent IPronoun _ => []
  | PSubscript a s => mentions_primary a ++ mentions_primary s
  | PCall n r args =>
      MCallee n r ::
      (fix go (l : list expr) : list mention :=
         match l with [] => [] | x :: t => mentions_expr x ++ go t end) args
  | PPop a => mentions_primary a
  end
with mentions_expr (e : expr) : list mention :=
  match e with
  | EPrimary p => mentions_primary p
  | EBinary _ l f rest =>
      mentions_expr l ++ mentions_expr f ++
      (fix go (l : list expr) : list mention :=
         match l with [] => [] | x :: t => mentions_expr x ++ go t end) rest
  | EUnary _ x => mentions_expr x
  end.

Definition mentions_exprs (l : list expr) : list mention := flat_map mentions_expr l.
Definition mentions_ident (i : ident) (r : range) : list mention :=
  match i with IVar n => [MVar n r] | IPronoun => [] end.
Definition mentions_lhs (l : lhs) : list mention :=
  match l with
  | LIdent i r => mentions_ident i r
  | LSubscript a s => mentions_primary a ++ mentions_primary s
  end.
Definition mentions_opt {A} (f : A -> list mention) (o : option A) : list mention :=
  match o with Some x => f x | None => [] end.

Fixpoint mentions_stmt (s : stmt) : list mention :=
  match s with
  | SAssign d f rest _ => mentions_lhs d ++ mentions_exprs (f :: rest)
  | SPoeticNum d (PNExpr e) => mentions_lhs d ++ mentions_expr e
  | SPoeticNum d (PNLit _) => mentions_lhs d
  | SPoeticStr d _ => mentions_lhs d
  | SIf c t e => mentions_expr c ++ mentions_block t ++ mentions_opt mentions_block e
  | SWhile c b => mentions_expr c ++ mentions_block b
  | SUntil c b => mentions_expr c ++ mentions_block b
  | SInc i r _ => mentions_ident i r
  | SDec i r _ => mentions_ident i r
  | SInput d _ => mentions_opt mentions_lhs d
  | SOutput e => mentions_expr e
  | SMutation _ operand d p => mentions_primary operand ++ mentions_opt mentions_lhs d ++ mentions_opt mentions_expr p
  | SRounding _ e => mentions_expr e
  | SContinue _ => []
  | SBreak _ => []
  | SPush a None => mentions_primary a
  | SPush a (Some (PushList f rest)) => mentions_primary a ++ mentions_exprs (f :: rest)
  | SPush a (Some (PushLit _)) => mentions_primary a
  | SPop a d => mentions_primary a ++ mentions_opt mentions_lhs d
  | SReturn e => mentions_expr e
  | SFunction n r ps b => MVar n r :: map (fun p => MVar (fst p) (snd p)) ps ++ mentions_block b
  | SCall n r args => MCallee n r :: mentions_exprs args
  end
with mentions_block (b : block) : list mention :=
  match b with
  | BEmpty _ => []
  | BNonEmpty ss =>
      (fix go (l : list stmt) : list mention :=
         match l with [] => [] | x :: t => mentions_stmt x ++ go t end) ss
  end.

Definition mentions_program (p : program) : list mention := flat_map mentions_block p.

Definition missed_diag (n : varname) (r : range) : diag :=
  mkDiag (lit "Using identifier `" ++ render_varname n ++ lit "` more than once in a row sounds kinda bad")
         [lit "Consider using a pronoun such as `it`"] (range_line r).

Fixpoint missed_run (ms : list mention) (last : option varname) : list diag :=
  match ms with
  | [] => []
  | MVar n r :: t =>
      match last with
      | Some l => if varname_eqb l n then missed_diag n r :: missed_run t last
                  else missed_run t (Some n)
      | None => missed_run t (Some n)
      end
  | MCallee n _ :: t => missed_run t (Some n)
  end.

Definition missed_program (p : program) : list diag := missed_run (mentions_program p) None.

(** * postprocess: stable sort by line (insertion sort keeps the order of equal keys) *)
Fixpoint insert_diag (d : diag) (l : list diag) : list diag :=
  match l with
  | [] => [d]
  | x :: t => if d_line d <=? d_line x then d :: l else x :: insert_diag d t
  end.
Definition sort_diags (l : list diag) : list diag := fold_right insert_diag [] l.

(** Linter::run with the standard passes (BoringAssignment, then MissedPronoun) *)
Definition lint (p : program) : res unit (list diag) :=
  let* a := boring_program p in
  Ok (sort_diags (a ++ missed_program p)).

(** Display for Diag / LinterResult *)
Definition diag_display (d : diag) : str :=
  lit "Linter issue: " ++ d_issue d ++ flat_map (fun s => lit (String.String "010"%char (String.String "009"%char String.EmptyString)) ++ s) (d_suggestions d).
