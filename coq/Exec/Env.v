(** Model of src/exec/sym_table.rs and src/exec/environment.rs. *)
From Coq Require Import List ZArith NArith Bool.
From RRSS Require Import Base.Outcome Base.Chars Base.F64 Exec.Val Exec.Ops Front.Ast.
Import ListNotations.
Open Scope N_scope.

(** * Case-folded keys ([ToLowercase]) *)

Definition all_lowercase (s : str) : bool := forallb is_lowercase s.

Definition lower_name (n : varname) : varname :=
  match n with
  | Simple s => if all_lowercase s then n else Simple (str_to_lowercase s)
  | Common p w =>
      if all_lowercase p && all_lowercase w then n
      else Common (str_to_lowercase p) (str_to_lowercase w)
  | Proper ws =>
      if forallb all_lowercase ws then n else Proper (map str_to_lowercase ws)
  end.

(** * Symbol tables *)

Inductive entry :=
  | EVar (v : val)
  | EFunc (params : list (varname * range)) (body : block).

(** three maps in Rust (simple / common / proper); one association list here: the constructor
    of the key keeps the three name kinds apart *)
Definition symtab := list (varname * entry).

Inductive sym_error :=
  | NameNotFound (n : varname)
  | ExpectedVarFoundFunc (n : varname)
  | ExpectedFuncFoundVar (n : varname)
  | DuplicateSymbol (n : varname)
  | DuplicateFunctionArgName (n : varname).

Inductive env_error :=
  | SymTableError (e : sym_error)
  | MissingPronounReferent
  | IOError (msg : str).

Fixpoint tab_get (k : varname) (t : symtab) : option entry :=
  match t with
  | [] => None
  | (k', e) :: r => if varname_eqb k k' then Some e else tab_get k r
  end.

Fixpoint tab_set (k : varname) (e : entry) (t : symtab) : symtab :=
  match t with
  | [] => [(k, e)]
  | (k', e') :: r => if varname_eqb k k' then (k', e) :: r else (k', e') :: tab_set k e r
  end.

(** [SymTable::lookup_var] *)
Definition tab_lookup_var (n : varname) (t : symtab) : res sym_error val :=
  match tab_get (lower_name n) t with
  | None => Err (NameNotFound n)
  | Some (EVar v) => Ok v
  | Some (EFunc _ _) => Err (ExpectedVarFoundFunc n)
  end.

Definition tab_lookup_func (n : varname) (t : symtab) : res sym_error (list (varname * range) * block) :=
  match tab_get (lower_name n) t with
  | None => Err (NameNotFound n)
  | Some (EFunc ps b) => Ok (ps, b)
  | Some (EVar _) => Err (ExpectedFuncFoundVar n)
  end.

(** [Lookup::emplace] *)
Definition tab_emplace (n : varname) (e : entry) (t : symtab) : res sym_error symtab :=
  let k := lower_name n in
  match tab_get k t with
  | Some _ => Err (DuplicateSymbol n)
  | None => Ok (t ++ [(k, e)])
  end.

(** [SymTable::for_function_call] *)
Fixpoint tab_for_call (args : list (varname * val)) (t : symtab) : res sym_error symtab :=
  match args with
  | [] => Ok t
  | (n, v) :: r =>
      match tab_emplace n (EVar v) t with
      | Ok t' => tab_for_call r t'
      | Err _ => Err (DuplicateFunctionArgName n)
      | Panic s => Panic s | UB s => UB s | OutOfFuel => OutOfFuel | OverBudget => OverBudget
      end
  end.

(** * Channels *)

(** UTF-8 encoding, for byte-accurate output budgets *)
Definition utf8_encode_char (c : char) : list N :=
  if c <? 128 then [c]
  else if c <? 2048 then [192 + c / 64; 128 + c mod 64]
  else if c <? 65536 then [224 + c / 4096; 128 + (c / 64) mod 64; 128 + c mod 64]
  else [240 + c / 262144; 128 + (c / 4096) mod 64; 128 + (c / 64) mod 64; 128 + c mod 64].
Definition utf8_encode (s : str) : list N := flat_map utf8_encode_char s.

(** The reader delivers the bytes before [in_fault] and fails on any read at or beyond it;
    the writer accepts [out_budget] more bytes and then fails. [None] = never fails. *)
Record channels := mkChan {
  in_rest : str;              (* input text not yet consumed *)
  in_pos : N;                 (* byte offset of [in_rest] in the input *)
  in_fault : option N;
  out_bytes : list N;         (* bytes accepted by the writer so far, in order *)
  out_budget : option N
}.

Definition read_fault_msg : str := lit "injected read fault".
Definition write_fault_msg : str := lit "injected write fault".

(** split at the first '\n': (line, rest after the newline, found?); [rev_append acc []] is [rev acc]
    ([rev_alt]) in linear time, which matters for input lines of 10^5 characters *)
Fixpoint take_line (s : str) (acc : str) : str * str * bool :=
  match s with
  | [] => (rev_append acc [], [], false)
  | c :: t => if c =? 10 then (rev_append acc [], t, true) else take_line t (c :: acc)
  end.

(** [Environment::input] *)
Definition chan_input (c : channels) : res env_error (str * channels) :=
  let '(ln, rest, found) := take_line (in_rest c) [] in
  let consumed := byte_len ln + (if found then 1 else 0) in
  let needed := if found then in_pos c + consumed - 1   (* the newline byte must be delivered *)
                else in_pos c + consumed in              (* a read at EOF must succeed *)
  let ok := match in_fault c with None => true | Some r => needed <? r end in
  if ok then
    Ok (ln, mkChan rest (in_pos c + consumed) (in_fault c) (out_bytes c) (out_budget c))
  else Err (IOError read_fault_msg).

(** [Environment::output]: [writeln!] of the text *)
Definition chan_output (text : str) (c : channels) : res env_error channels * channels :=
  let bytes := utf8_encode text ++ [10] in
  let n := len bytes in
  match out_budget c with
  | None => (Ok (mkChan (in_rest c) (in_pos c) (in_fault c) (out_bytes c ++ bytes) None),
             c)
  | Some b =>
      if n <=? b then
        (Ok (mkChan (in_rest c) (in_pos c) (in_fault c) (out_bytes c ++ bytes) (Some (b - n))), c)
      else
        let c' := mkChan (in_rest c) (in_pos c) (in_fault c)
                         (out_bytes c ++ firstn (N.to_nat b) bytes) (Some 0) in
        (Err (IOError write_fault_msg), c')
  end.

(** * Environment *)

(** [steps] and [depth] are the model's resource budget (C09: "within modest resource bounds"):
    statements/calls/iterations still allowed, and nested calls still allowed.  Exhausting either
    is [OverBudget], never a result. *)
Record env := mkEnv_ {
  scopes : list symtab;            (* innermost first (Rust: last) *)
  last_access : option varname;
  chan : channels;
  steps : N;
  depth : N
}.

Definition default_steps : N := 30000.
Definition default_depth : N := 120.

Definition env_init (c : channels) : env := mkEnv_ [[]] None c default_steps default_depth.

(** rebuild an environment keeping the budgets of [e0] *)
Definition mkEnvB (e0 : env) (ss : list symtab) (la : option varname) (c : channels) : env :=
  mkEnv_ ss la c (steps e0) (depth e0).

Definition push_scope (e : env) : env := mkEnvB e ([] :: scopes e) (last_access e) (chan e).

Definition tick (e : env) : option env :=
  if steps e =? 0 then None else Some (mkEnv_ (scopes e) (last_access e) (chan e) (steps e - 1) (depth e)).
Definition enter_call (e : env) : option env :=
  if depth e =? 0 then None else Some (mkEnv_ (scopes e) (last_access e) (chan e) (steps e) (depth e - 1)).
Definition leave_call (e : env) : env :=
  mkEnv_ (scopes e) (last_access e) (chan e) (steps e) (depth e + 1).

Definition pop_scope (p : profile) (e : env) : res env_error env :=
  let* _ := debug_assert p 20 (1 <? len (scopes e)) in
  Ok (mkEnvB e (tl (scopes e)) None (chan e)).

(** first scope (from the innermost) where the lookup does not say NameNotFound *)
Fixpoint find_var (n : varname) (ss : list symtab) : res sym_error val :=
  match ss with
  | [] => Err (NameNotFound n)
  | t :: r =>
      match tab_lookup_var n t with
      | Err (NameNotFound _) => find_var n r
      | x => x
      end
  end.

Fixpoint find_func (n : varname) (ss : list symtab) : res sym_error (list (varname * range) * block) :=
  match ss with
  | [] => Err (NameNotFound n)
  | t :: r =>
      match tab_lookup_func n t with
      | Err (NameNotFound _) => find_func n r
      | x => x
      end
  end.

(** replace the variable found by [find_var] (same search) *)
Fixpoint store_var (n : varname) (v : val) (ss : list symtab) : list symtab :=
  match ss with
  | [] => []
  | t :: r =>
      match tab_lookup_var n t with
      | Err (NameNotFound _) => t :: store_var n v r
      | Ok _ => tab_set (lower_name n) (EVar v) t :: r
      | _ => ss
      end
  end.

Definition env_lookup_var (n : varname) (e : env) : res env_error val * env :=
  let e' := mkEnvB e (scopes e) (Some n) (chan e) in
  (map_err SymTableError (find_var n (scopes e)), e').

Definition env_lookup_func (n : varname) (e : env) : res env_error (list (varname * range) * block) :=
  map_err SymTableError (find_func n (scopes e)).

Definition env_last_access (e : env) : res env_error val :=
  match last_access e with
  | None => Err MissingPronounReferent
  | Some n => map_err SymTableError (find_var n (scopes e))
  end.

(** [create_var]: emplace [mysterious] in the innermost scope *)
Definition env_create_var (n : varname) (e : env) : res env_error env :=
  match scopes e with
  | [] => Panic (SiteUnwrap 21)
  | t :: r =>
      match tab_emplace n (EVar VUndef) t with
      | Ok t' => Ok (mkEnvB e (t' :: r) (Some n) (chan e))
      | Err x => Err (SymTableError x)
      | Panic s => Panic s | UB s => UB s | OutOfFuel => OutOfFuel | OverBudget => OverBudget
      end
  end.

Definition env_create_func (n : varname) (ps : list (varname * range)) (b : block) (e : env)
  : res env_error env :=
  match scopes e with
  | [] => Panic (SiteUnwrap 22)
  | t :: r =>
      match tab_emplace n (EFunc ps b) t with
      | Ok t' => Ok (mkEnvB e (t' :: r) (last_access e) (chan e))
      | Err x => Err (SymTableError x)
      | Panic s => Panic s | UB s => UB s | OutOfFuel => OutOfFuel | OverBudget => OverBudget
      end
  end.

Definition env_push_function_scope (args : list (varname * val)) (e : env) : res env_error env :=
  match tab_for_call args [] with
  | Ok t => Ok (mkEnvB e (t :: scopes e) (last_access e) (chan e))
  | Err x => Err (SymTableError x)
  | Panic s => Panic s | UB s => UB s | OutOfFuel => OutOfFuel | OverBudget => OverBudget
  end.

Definition env_store (n : varname) (v : val) (e : env) : env :=
  mkEnvB e (store_var n v (scopes e)) (last_access e) (chan e).
