(** The pure part of [binary_operator_fold]'s [op] (src/exec/produce_val.rs): applying a binary
    operator to an evaluated left value and a *lazily* evaluated right value.  The laziness is
    modelled by passing the right operand as a computation in an arbitrary state monad-free
    form: [b : unit -> res E val] is run only where Rust calls [b(this)]. *)
From Coq Require Import List ZArith NArith Bool.
From RRSS Require Import Base.Outcome Base.Chars Base.F64 Exec.Val.
Import ListNotations.

Inductive binop :=
  | OpPlus | OpMinus | OpMultiply | OpDivide
  | OpAnd | OpOr | OpNor
  | OpEq | OpNotEq
  | OpGreater | OpGreaterEq | OpLess | OpLessEq.

Inductive unop := UMinus | UNot.

(** Does the operator need its right operand, given the left value? (short-circuiting) *)
Definition needs_rhs (o : binop) (a : val) : bool :=
  match o with
  | OpAnd => is_truthy a
  | OpOr => negb (is_truthy a)
  | OpNor => negb (is_truthy a)
  | _ => true
  end.

(** Result when the right operand is not evaluated. *)
Definition short_result (o : binop) (a : val) : val :=
  match o with
  | OpAnd => VBool false          (* a falsy:  a && _ = false *)
  | OpOr => VBool true            (* a truthy: a || _ = true *)
  | OpNor => VBool false          (* a truthy: !a && _ = false *)
  | _ => VUndef
  end.

Definition ord_is (f : comparison -> bool) (o : option comparison) : bool :=
  match o with Some c => f c | None => false end.
Definition is_gt c := match c with Gt => true | _ => false end.
Definition is_lt c := match c with Lt => true | _ => false end.
Definition not_lt c := negb (is_lt c).
Definition not_gt c := negb (is_gt c).

(** Result when both operands are evaluated. *)
Definition binop_apply (o : binop) (a b : val) : vres val :=
  match o with
  | OpPlus => Ok (v_plus a b)
  | OpMinus => Ok (v_subtract a b)
  | OpMultiply => v_multiply a b
  | OpDivide => Ok (v_divide a b)
  | OpAnd => Ok (VBool (is_truthy a && is_truthy b))
  | OpOr => Ok (VBool (is_truthy a || is_truthy b))
  | OpNor => Ok (VBool (negb (is_truthy a) && negb (is_truthy b)))
  | OpEq => let* e := v_equals a b in Ok (VBool e)
  | OpNotEq => let* e := v_equals a b in Ok (VBool (negb e))
  | OpGreater => let* c := v_compare a b in Ok (VBool (ord_is is_gt c))
  | OpGreaterEq => let* c := v_compare a b in Ok (VBool (ord_is not_lt c))
  | OpLess => let* c := v_compare a b in Ok (VBool (ord_is is_lt c))
  | OpLessEq => let* c := v_compare a b in Ok (VBool (ord_is not_gt c))
  end.

Definition unop_apply (o : unop) (a : val) : vres val :=
  match o with
  | UMinus => v_negate a
  | UNot => Ok (VBool (negb (is_truthy a)))
  end.
