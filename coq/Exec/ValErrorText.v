(** [impl Display for ValError] (src/exec/display.rs). *)
From Coq Require Import List NArith.
From RRSS Require Import Base.Chars Base.F64 Base.F64Text Exec.Val.
Import ListNotations.

Definition val_error_display (e : val_error) : str :=
  match e with
  | NotIndexable v => lit "value " ++ v_display v ++ lit " not indexable"
  | InvalidKey v => lit "invalid key " ++ v_display v
  | IndexNotAssignable k v => lit "index " ++ v_display k ++ lit " not assignable for " ++ v_display v
  | InvalidOperationForType op v => lit "cannot " ++ op ++ lit " value " ++ v_display v
  | InvalidComparison a b => lit "invalid comparison between " ++ v_display a ++ lit " and " ++ v_display b
  | InvalidSplitDelimiter v => lit "invalid split delimiter " ++ v_display v
  | InvalidJoinDelimiter v => lit "invalid join delimiter " ++ v_display v
  | InvalidArrayElementForJoin v => lit "invalid array element for join " ++ v_display v
  | ParsingStringAsNumberFailed s => lit "parsing " ++ s ++ lit " as number failed"
  | InvalidStringToIntegerRadix v => lit "invalid string-to-integer radix " ++ v_display v
  | ConvertingNumberToCharacterFailed f => lit "converting " ++ f64_display f ++ lit " to character failed"
  | UnexpectedParameterToNumberToCharacterCast v =>
      lit "converting number to character shouldn't take a parameter, found " ++ v_display v
  end.

Definition val_error_name (e : val_error) : str :=
  match e with
  | NotIndexable _ => lit "NotIndexable"
  | InvalidKey _ => lit "InvalidKey"
  | IndexNotAssignable _ _ => lit "IndexNotAssignable"
  | InvalidOperationForType _ _ => lit "InvalidOperationForType"
  | InvalidComparison _ _ => lit "InvalidComparison"
  | InvalidSplitDelimiter _ => lit "InvalidSplitDelimiter"
  | InvalidJoinDelimiter _ => lit "InvalidJoinDelimiter"
  | InvalidArrayElementForJoin _ => lit "InvalidArrayElementForJoin"
  | ParsingStringAsNumberFailed _ => lit "ParsingStringAsNumberFailed"
  | InvalidStringToIntegerRadix _ => lit "InvalidStringToIntegerRadix"
  | ConvertingNumberToCharacterFailed _ => lit "ConvertingNumberToCharacterFailed"
  | UnexpectedParameterToNumberToCharacterCast _ => lit "UnexpectedParameterToNumberToCharacterCast"
  end.
