(** Model of src/exec/val.rs and src/exec/val/display.rs, function by function. *)
From Coq Require Import List ZArith NArith Bool Floats.SpecFloat.
From RRSS Require Import Base.Outcome Base.Chars Base.F64 Base.F64Text.
Import ListNotations.
Open Scope N_scope.

Inductive dkey := KUndef | KNull | KBool (b : bool) | KStr (s : str).

Inductive val :=
  | VUndef
  | VNull
  | VBool (b : bool)
  | VNum (f : f64)
  | VStr (s : str)
  | VArr (arr : list val) (dict : list (dkey * val)).

Inductive val_error :=
  | NotIndexable (v : val)
  | InvalidKey (v : val)
  | IndexNotAssignable (k v : val)
  | InvalidOperationForType (op : str) (v : val)
  | InvalidComparison (a b : val)
  | InvalidSplitDelimiter (v : val)
  | InvalidJoinDelimiter (v : val)
  | InvalidArrayElementForJoin (v : val)
  | ParsingStringAsNumberFailed (s : str)
  | InvalidStringToIntegerRadix (v : val)
  | ConvertingNumberToCharacterFailed (f : f64)
  | UnexpectedParameterToNumberToCharacterCast (v : val).

Definition vres := res val_error.

(** Resource budget of the model (C09's "modest resource bounds"): array indices and
    string repetition beyond it are [OverBudget], not modelled further. *)
Definition size_budget : N := 65536.

(** * Dictionary keys *)

Definition dkey_eqb (a b : dkey) : bool :=
  match a, b with
  | KUndef, KUndef => true
  | KNull, KNull => true
  | KBool x, KBool y => Bool.eqb x y
  | KStr x, KStr y => str_eqb x y
  | _, _ => false
  end.

(** derived [Ord] on [DictKey]: variant order, then payload *)
Definition dkey_rank (k : dkey) : N :=
  match k with KUndef => 0 | KNull => 1 | KBool _ => 2 | KStr _ => 3 end.
Definition dkey_compare (a b : dkey) : comparison :=
  match a, b with
  | KBool x, KBool y =>
      match x, y with false, true => Lt | true, false => Gt | _, _ => Eq end
  | KStr x, KStr y => str_compare x y
  | _, _ => dkey_rank a ?= dkey_rank b
  end.

Definition dkey_of (v : val) : option dkey :=
  match v with
  | VUndef => Some KUndef
  | VNull => Some KNull
  | VBool b => Some (KBool b)
  | VStr s => Some (KStr s)
  | _ => None
  end.

Definition dict := list (dkey * val).

Fixpoint dict_get (k : dkey) (d : dict) : option val :=
  match d with
  | [] => None
  | (k', v) :: t => if dkey_eqb k k' then Some v else dict_get k t
  end.

(** replace the value at [k], or append a new entry (a [HashMap] has no order; the model
    keeps insertion order, and nothing observable may depend on it: C10) *)
Fixpoint dict_set (k : dkey) (v : val) (d : dict) : dict :=
  match d with
  | [] => [(k, v)]
  | (k', v') :: t => if dkey_eqb k k' then (k', v) :: t else (k', v') :: dict_set k v t
  end.

(** insertion sort, used for key-ordered iteration and for the sorted Display *)
Section Sort.
  Context {A : Type} (cmp : A -> A -> comparison).
  Fixpoint insert_sorted (x : A) (l : list A) : list A :=
    match l with
    | [] => [x]
    | y :: t => match cmp x y with Gt => y :: insert_sorted x t | _ => x :: l end
    end.
  Fixpoint isort (l : list A) : list A :=
    match l with [] => [] | x :: t => insert_sorted x (isort t) end.
End Sort.

Definition dict_sorted (d : dict) : dict :=
  isort (fun a b => dkey_compare (fst a) (fst b)) d.

(** [Array::val_iter]: the sequence, then dictionary values in key order *)
Definition val_iter (a : list val) (d : dict) : list val := a ++ map snd (dict_sorted d).

(** * Indexing *)

Fixpoint nth_N {A} (l : list A) (i : N) : option A :=
  match l with
  | [] => None
  | x :: t => if i =? 0 then Some x else nth_N t (N.pred i)
  end.

Fixpoint set_nth_N {A} (l : list A) (i : N) (x : A) : list A :=
  match l with
  | [] => []
  | y :: t => if i =? 0 then x :: t else y :: set_nth_N t (N.pred i) x
  end.

Definition len {A} (l : list A) : N := N.of_nat (length l).

Definition arr_index (a : list val) (d : dict) (k : val) : vres val :=
  match k with
  | VNum n => Ok (match nth_N a (f_to_usize n) with Some v => v | None => VUndef end)
  | VArr _ _ => Err (InvalidKey k)
  | _ => match dkey_of k with
         | Some dk => Ok (match dict_get dk d with Some v => v | None => VUndef end)
         | None => Err (InvalidKey k)
         end
  end.

Definition index_string (s : str) (i : N) : val :=
  match nth_N s i with Some c => VStr [c] | None => VUndef end.

(** [Val::index] *)
Definition v_index (self k : val) : vres val :=
  match self with
  | VStr s => match k with VNum n => Ok (index_string s (f_to_usize n)) | _ => Err (InvalidKey k) end
  | VArr a d => arr_index a d k
  | _ => Err (NotIndexable self)
  end.

Fixpoint repeat_val (n : nat) : list val := match n with O => [] | S n' => VUndef :: repeat_val n' end.

(** [Val::index_or_insert] followed by a write through the returned reference:
    [f] receives the current element and returns its replacement. *)
Definition v_update_at {X} (self k : val) (f : val -> vres (val * X)) : vres (val * X) :=
  let self := match self with VUndef => VArr [] [] | _ => self end in
  match self with
  | VArr a d =>
      match k with
      | VNum n =>
          let i := f_to_usize n in
          if size_budget <=? i then OverBudget else
          let a' := if len a <=? i then a ++ repeat_val (N.to_nat (i + 1 - len a)) else a in
          match nth_N a' i with
          | Some cur => let* (nv, x) := f cur in Ok (VArr (set_nth_N a' i nv) d, x)
          | None => UB (SiteUnchecked 1)
          end
      | VArr _ _ => Err (InvalidKey k)
      | _ => match dkey_of k with
             | Some dk =>
                 let cur := match dict_get dk d with Some v => v | None => VUndef end in
                 let* (nv, x) := f cur in Ok (VArr a (dict_set dk nv d), x)
             | None => Err (InvalidKey k)
             end
      end
  | VStr _ => Err (IndexNotAssignable k self)
  | _ => Err (NotIndexable self)
  end.

(** * Queue operations *)

Definition v_array_coerce (v : val) : val :=
  match v with
  | VArr _ _ => v
  | VUndef => VArr [] []
  | _ => VArr [v] []
  end.

Definition v_push (v : val) (vals : list val) : vres val :=
  match v_array_coerce v with
  | VArr a d => Ok (VArr (a ++ vals) d)
  | _ => UB (SiteUnchecked 2)
  end.

Definition v_pop (v : val) : vres (val * val) :=
  match v with
  | VArr a d =>
      match a with
      | [] => Ok (VArr [] d, VUndef)
      | x :: t => Ok (VArr t d, x)
      end
  | _ => Err (InvalidOperationForType (lit "pop") v)
  end.

(** * Scalars *)

Definition v_decay (v : val) : val :=
  match v with VArr a _ => VNum (f_of_N (len a)) | _ => v end.

Definition bool_text (b : bool) : str := if b then lit "true" else lit "false".

Definition to_string_for_output (v : val) : res val_error str :=
  match v_decay v with
  | VUndef => Ok (lit "mysterious")
  | VNull => Ok (lit "null")
  | VBool b => Ok (bool_text b)
  | VNum n => Ok (f64_display n)
  | VStr s => Ok s
  | VArr _ _ => Panic (SiteAssert 1)
  end.

Definition is_truthy (v : val) : bool :=
  match v with
  | VUndef => false
  | VNull => false
  | VBool b => b
  | VNum n => f_nonzero n
  | VStr _ => true
  | VArr _ _ => true
  end.

Definition kind (v : val) : N :=
  match v with
  | VUndef => 0 | VNull => 1 | VBool _ => 2 | VNum _ => 3 | VStr _ => 4 | VArr _ _ => 5
  end.
Definition same_kind (a b : val) : bool := kind a =? kind b.

(** The arms of [cmp_coerced] that do not swap; [None] = the arm calls
    [other.cmp_coerced(self)] and swaps the pair. *)
Definition cmp_coerced_arm (self other : val) : option (option (val * val)) :=
  match self with
  | VUndef => match other with
              | VNull => Some (Some (VNull, other))
              | _ => Some (Some (self, other))
              end
  | VArr _ _ => match other with
                | VNull => Some (Some (v_decay self, VNum fzero))
                | _ => Some (Some (v_decay self, other))
                end
  | VNull => None
  | VBool _ => match other with
               | VNull => Some (Some (self, VBool false))
               | _ => None
               end
  | VNum _ => match other with
              | VBool _ => Some (Some (VBool (is_truthy self), other))
              | VNull => Some (Some (self, VNum fzero))
              | _ => None
              end
  | VStr s => match other with
              | VNum _ => Some (match f64_parse s with
                                | Some n => Some (VNum n, other)
                                | None => None
                                end)
              | VBool _ => Some (Some (VBool (negb (match s with [] => true | _ => false end)), other))
              | VNull => Some (Some (self, VStr []))
              | _ => Some (Some (self, other))
              end
  end.

Definition swap_pair {A} (p : A * A) : A * A := (snd p, fst p).

Definition cmp_coerced (self other : val) : res val_error (option (val * val)) :=
  if same_kind self other then Ok (Some (self, other)) else
  match cmp_coerced_arm self other with
  | Some r => Ok r
  | None =>
      match cmp_coerced_arm other self with
      | Some r => Ok (option_map swap_pair r)
      | None => OutOfFuel  (* the Rust recursion would not terminate; shown unreachable *)
      end
  end.

(** derived [PartialEq] on [Val] / [Array] ([HashMap] equality is order-free) *)
Fixpoint val_eq (a b : val) : bool :=
  match a, b with
  | VUndef, VUndef => true
  | VNull, VNull => true
  | VBool x, VBool y => Bool.eqb x y
  | VNum x, VNum y => feqb x y
  | VStr x, VStr y => str_eqb x y
  | VArr xa xd, VArr ya yd =>
      (fix list_eq (l1 l2 : list val) : bool :=
         match l1, l2 with
         | [], [] => true
         | x :: t1, y :: t2 => val_eq x y && list_eq t1 t2
         | _, _ => false
         end) xa ya
      && (len xd =? len yd)
      && (fix all_in (d : list (dkey * val)) : bool :=
            match d with
            | [] => true
            | (k, v) :: t =>
                match dict_get k yd with Some v' => val_eq v v' | None => false end && all_in t
            end) xd
  | _, _ => false
  end.

(** [Val::equals] *)
Definition v_equals (a b : val) : res val_error bool :=
  let* r := cmp_coerced a b in
  Ok (match r with Some (x, y) => val_eq x y | None => false end).

(** [Val::compare]: [Ok None] = unordered (NaN) *)
Definition v_compare (self other : val) : res val_error (option comparison) :=
  let* r := cmp_coerced self other in
  match r with
  | None => Ok None
  | Some (a, b) =>
      if negb (same_kind a b) then Err (InvalidComparison self other) else
      match a, b with
      | VUndef, _ => Ok (Some Eq)
      | VNull, _ => Ok (Some Eq)
      | VNum x, VNum y => Ok (fcompare x y)
      | VStr x, VStr y => Ok (Some (str_compare x y))
      | VBool _, _ => Err (InvalidComparison self other)
      | VArr _ _, _ => Err (InvalidComparison self other)
      | _, _ => Panic (SiteUnwrap 1)   (* inner!() on a mismatching variant *)
      end
  end.

Definition v_inc (v : val) (x : Z) : vres val :=
  let v := match v with VNull => VNum fzero | _ => v end in
  match v with
  | VNull => UB (SiteUnchecked 3)
  | VBool b => Ok (VBool (xorb b (Z.odd x)))
  | VNum n => Ok (VNum (fadd n (f_of_Z x)))
  | _ => Err (InvalidOperationForType (if (0 <=? x)%Z then lit "increment" else lit "decrement") v)
  end.

Definition is_str (v : val) : bool := match v with VStr _ => true | _ => false end.
Definition is_arr (v : val) : bool := match v with VArr _ _ => true | _ => false end.

(** arms of [plus_coerced] with a [VStr] receiver *)
Definition plus_coerced_str (self other : val) : option (val * val) :=
  match other with
  | VUndef => Some (self, VStr (lit "mysterious"))
  | VNull => Some (self, VStr (lit "null"))
  | VBool b => Some (self, VStr (bool_text b))
  | VNum n => Some (self, VStr (f64_display n))
  | VStr _ => Some (self, other)
  | VArr _ _ => None
  end.

Definition arith_coerced (self other : val) : val * val :=
  match self, other with
  | VNull, VNum _ => (VNum fzero, other)
  | VNum _, VNull => (self, VNum fzero)
  | VArr _ _, _ => (v_decay self, v_decay other)
  | _, VArr _ _ => (v_decay self, v_decay other)
  | _, _ => (self, other)
  end.

Definition plus_coerced (self other : val) : val * val :=
  match (if is_str self then plus_coerced_str self other else None) with
  | Some p => p
  | None =>
      match (if is_str other then
               (* (_, String): other.plus_coerced(self), swapped; its first five arms, else its tail *)
               match plus_coerced_str other self with
               | Some p => Some (swap_pair p)
               | None => Some (swap_pair (arith_coerced other self))
               end
             else None) with
      | Some p => p
      | None => arith_coerced self other
      end
  end.

Definition v_plus (a b : val) : val :=
  match plus_coerced a b with
  | (VStr x, VStr y) => VStr (x ++ y)
  | (VNum x, VNum y) => VNum (fadd x y)
  | _ => VUndef
  end.

Fixpoint repeat_str (n : nat) (s : str) : str :=
  match n with O => [] | S n' => s ++ repeat_str n' s end.

Definition v_multiply (a b : val) : vres val :=
  match arith_coerced a b with
  | (VNum x, VNum y) => Ok (VNum (fmul x y))
  | (VStr s, VNum y) =>
      if fleb fzero y then
        let n := f_to_usize y in
        if (size_budget <? n) || (size_budget <? n * len s) then OverBudget
        else Ok (VStr (repeat_str (N.to_nat n) s))
      else Ok VUndef
  | _ => Ok VUndef
  end.

Definition v_subtract (a b : val) : val :=
  match arith_coerced a b with
  | (VNum x, VNum y) => VNum (fsub x y)
  | _ => VUndef
  end.

Definition v_divide (a b : val) : val :=
  match arith_coerced a b with
  | (VNum x, VNum y) => VNum (fdiv x y)
  | _ => VUndef
  end.

Definition v_negate (v : val) : vres val :=
  match v with
  | VNum n => Ok (VNum (fneg n))
  | _ => Err (InvalidOperationForType (lit "negate") v)
  end.

Definition v_round_up (v : val) : vres val :=
  match v with VNum f => Ok (VNum (fceil f)) | _ => Err (InvalidOperationForType (lit "round up") v) end.
Definition v_round_down (v : val) : vres val :=
  match v with VNum f => Ok (VNum (ffloor f)) | _ => Err (InvalidOperationForType (lit "round down") v) end.
Definition v_round_nearest (v : val) : vres val :=
  match v with VNum f => Ok (VNum (fround f)) | _ => Err (InvalidOperationForType (lit "round nearest") v) end.

(** * Split / join / cast *)

(** [str::split] with a non-empty pattern: leftmost non-overlapping occurrences. *)
Fixpoint split_on (fuel : nat) (d s : str) (cur : str) : list str :=
  match fuel with
  | O => [rev cur]
  | S fuel' =>
      match s with
      | [] => [rev cur]
      | c :: t =>
          match strip_prefix d s with
          | Some rest => rev cur :: split_on fuel' d rest []
          | None => split_on fuel' d t (c :: cur)
          end
      end
  end.

Definition str_split (s d : str) : list str := split_on (S (length s)) d s [].

Fixpoint str_join (d : str) (l : list str) : str :=
  match l with
  | [] => []
  | [x] => x
  | x :: t => x ++ d ++ str_join d t
  end.

Definition v_split (v : val) (delim : option val) : vres val :=
  match v with
  | VStr [] =>
      match delim with
      | Some d => if is_str d then Ok (VArr [] []) else Err (InvalidSplitDelimiter d)
      | None => Ok (VArr [] [])
      end
  | VStr s =>
      let* d := match delim with
                | Some (VStr d) => Ok d
                | Some d => Err (InvalidSplitDelimiter d)
                | None => Ok []
                end in
      match d with
      | [] => Ok (VArr (map (fun c => VStr [c]) s) [])
      | _ => Ok (VArr (map VStr (str_split s d)) [])
      end
  | _ => Err (InvalidOperationForType (lit "split") v)
  end.

Fixpoint first_non_string (l : list val) : option val :=
  match l with
  | [] => None
  | VStr _ :: t => first_non_string t
  | v :: _ => Some v
  end.

Definition str_of_val (v : val) : str := match v with VStr s => s | _ => [] end.

Definition v_join (v : val) (delim : option val) : vres val :=
  match v with
  | VArr [] [] =>
      match delim with
      | Some d => if is_str d then Ok (VStr []) else Err (InvalidJoinDelimiter d)
      | None => Ok (VStr [])
      end
  | VArr a dct =>
      let* d := match delim with
                | Some (VStr d) => Ok d
                | Some d => Err (InvalidJoinDelimiter d)
                | None => Ok []
                end in
      let vals := val_iter a dct in
      match first_non_string vals with
      | Some bad => Err (InvalidArrayElementForJoin bad)
      | None => Ok (VStr (str_join d (map str_of_val vals)))
      end
  | _ => Err (InvalidOperationForType (lit "join") v)
  end.

(** [try_to_integer]: [Some (f as i64)] iff [f.trunc() == f] *)
Definition try_to_integer (f : f64) : option Z :=
  if feqb (ftrunc f) f then Some (f_to_i64 (ftrunc f)) else None.

Definition u32_max : Z := 4294967295.

Definition v_cast (v : val) (param : option val) : vres val :=
  match v with
  | VNum n =>
      match param with
      | Some p => Err (UnexpectedParameterToNumberToCharacterCast p)
      | None =>
          match try_to_integer n with
          | None => Err (ConvertingNumberToCharacterFailed n)
          | Some i =>
              if ((0 <=? i) && (i <=? u32_max))%Z && is_scalar_value (Z.to_N i)
              then Ok (VStr [Z.to_N i])
              else Err (ConvertingNumberToCharacterFailed n)
          end
      end
  | VStr s =>
      match param with
      | Some (VNum p) =>
          match try_to_integer p with
          | None => Err (InvalidStringToIntegerRadix (VNum p))
          | Some r =>
              if ((0 <=? r) && (r <=? u32_max))%Z then
                if ((2 <=? r) && (r <=? 36))%Z then
                  match i64_from_str_radix s r with
                  | Some n => Ok (VNum (f_of_Z n))
                  | None => Err (InvalidStringToIntegerRadix (VNum p))
                  end
                else Err (InvalidStringToIntegerRadix (VNum p))
              else Err (InvalidStringToIntegerRadix (VNum p))
          end
      | Some p => Err (InvalidStringToIntegerRadix p)
      | None =>
          match f64_parse s with
          | Some n => Ok (VNum n)
          | None => Err (ParsingStringAsNumberFailed s)
          end
      end
  | _ => Err (InvalidOperationForType (lit "cast") v)
  end.

(** * Display (display.rs) *)

Definition quoted (s : str) : str := [34] ++ s ++ [34].

Definition dkey_display (k : dkey) : str :=
  match k with
  | KUndef => lit "mysterious"
  | KNull => lit "null"
  | KBool b => bool_text b
  | KStr s => quoted s
  end.

Definition scalar_text (v : val) : str :=
  match v with
  | VUndef => lit "mysterious"
  | VNull => lit "null"
  | VBool b => bool_text b
  | VNum n => f64_display n
  | VStr s => s
  | VArr _ _ => []
  end.

(** [impl Display for Val]; the dictionary part is sorted by rendered text *)
Fixpoint v_display (v : val) : str :=
  match v with
  | VStr s => quoted s
  | VArr a d =>
      let items :=
        (fix go (l : list val) : list str :=
           match l with [] => [] | x :: t => v_display x :: go t end) a in
      let entries :=
        (fix go (l : list (dkey * val)) : list str :=
           match l with
           | [] => []
           | (k, x) :: t => (dkey_display k ++ lit ": " ++ v_display x) :: go t
           end) d in
      lit "[" ++ str_join (lit ", ") (items ++ isort str_compare entries) ++ lit "]"
  | _ => scalar_text v
  end.
