(** Display for RuntimeError and friends (src/exec/display.rs, src/linter/render.rs). *)
From Coq Require Import List NArith ZArith.
From RRSS Require Import Base.Chars Base.F64 Base.F64Text Exec.Val Exec.ValErrorText Front.Ast Exec.Env Exec.Interp.
Import ListNotations.

Definition render_varname (n : varname) : str :=
  match n with
  | Simple s => s
  | Common p w => p ++ lit " " ++ w
  | Proper ws => str_join (lit " ") ws
  end.

Definition N_display (n : N) : str := f64_display (f_of_N n).

Definition sym_error_display (e : sym_error) : str :=
  match e with
  | NameNotFound n => lit "the name '" ++ render_varname n ++ lit "' could not be found"
  | ExpectedVarFoundFunc n => lit "expected '" ++ render_varname n ++ lit "' to be a variable, found function"
  | ExpectedFuncFoundVar n => lit "expected '" ++ render_varname n ++ lit "' to be a function, found variable"
  | DuplicateSymbol n => lit "duplicate symbol '" ++ render_varname n ++ lit "'"
  | DuplicateFunctionArgName n => lit "duplicate function argument name '" ++ render_varname n ++ lit "'"
  end.

Definition env_error_display (e : env_error) : str :=
  match e with
  | SymTableError s => sym_error_display s
  | MissingPronounReferent => lit "pronoun doesn't refer to anything yet"
  | IOError s => s
  end.

Definition rt_error_display (e : rt_error) : str :=
  match e with
  | REnv x => env_error_display x
  | RVal x => val_error_display x
  | RNotWritable => lit "value not writable"
  | RExprListInvalid => lit "expression list is invalid when not doing a compound assignment"
  | RWrongArgs ex ac =>
      lit "wrong number of function arguments; expected " ++ N_display ex ++ lit ", got " ++ N_display ac
  end.

Definition rt_error_name (e : rt_error) : str :=
  match e with
  | REnv (SymTableError (NameNotFound _)) => lit "NameNotFound"
  | REnv (SymTableError (ExpectedVarFoundFunc _)) => lit "ExpectedVarFoundFunc"
  | REnv (SymTableError (ExpectedFuncFoundVar _)) => lit "ExpectedFuncFoundVar"
  | REnv (SymTableError (DuplicateSymbol _)) => lit "DuplicateSymbol"
  | REnv (SymTableError (DuplicateFunctionArgName _)) => lit "DuplicateFunctionArgName"
  | REnv MissingPronounReferent => lit "MissingPronounReferent"
  | REnv (IOError _) => lit "IOError"
  | RVal x => val_error_name x
  | RNotWritable => lit "ValueNotWritable"
  | RExprListInvalid => lit "NonCompoundAssignmentExpressionListInvalid"
  | RWrongArgs _ _ => lit "WrongNumberOfFunctionArguments"
  end.
