(** Model of the tree-walking interpreter: ExecStmt (exec_stmt.rs), ProduceVal (produce_val.rs)
    and WriteVal (write_val.rs, including the *default* traversal it inherits from VisitExpr).
    One mutual fixpoint on fuel.  Write closures are defunctionalised into [wop]. *)
From Coq Require Import List ZArith NArith Bool.
From RRSS Require Import Base.Outcome Base.Chars Base.F64 Exec.Val Exec.Ops Front.Ast Front.Poetic Exec.Env.
Import ListNotations.
Open Scope N_scope.

Inductive rt_error :=
  | REnv (e : env_error)
  | RVal (e : val_error)
  | RNotWritable                         (* WriteValError::ValueNotWritable *)
  | RExprListInvalid                     (* ExecError::NonCompoundAssignmentExpressionListInvalid *)
  | RWrongArgs (expected actual : N).    (* ProduceValError::WrongNumberOfFunctionArguments *)

(** interpreter outcomes carry the environment, also on a runtime error (the output written so
    far is part of it) *)
Inductive xres (A : Type) : Type :=
  | XOk (a : A) (e : env)
  | XErr (err : rt_error) (e : env)
  | XPanic (s : site)
  | XUB (s : site)
  | XOutOfFuel
  | XOverBudget.
Arguments XOk {A} a e.
Arguments XErr {A} err e.
Arguments XPanic {A} s.
Arguments XUB {A} s.
Arguments XOutOfFuel {A}.
Arguments XOverBudget {A}.

Definition xbind {A B} (m : xres A) (f : A -> env -> xres B) : xres B :=
  match m with
  | XOk a e => f a e
  | XErr err e => XErr err e
  | XPanic s => XPanic s
  | XUB s => XUB s
  | XOutOfFuel => XOutOfFuel
  | XOverBudget => XOverBudget
  end.

Notation "'let+' ( x , e ) ':=' m 'in' f" := (xbind m (fun x e => f))
  (at level 200, x pattern, e name, m at level 100, f at level 200, right associativity).

Definition lift_res {E A} (inj : E -> rt_error) (r : res E A) (e : env) : xres A :=
  match r with
  | Ok a => XOk a e
  | Err x => XErr (inj x) e
  | Panic s => XPanic s
  | UB s => XUB s
  | OutOfFuel => XOutOfFuel
  | OverBudget => XOverBudget
  end.
Definition lift_val {A} (r : vres A) (e : env) : xres A := lift_res RVal r e.
Definition lift_env {A} (r : res env_error A) (e : env) : xres A := lift_res REnv r e.

(** * Write closures *)

Inductive wop :=
  | WAssign (v : val)
  | WInc (k : Z)
  | WPush (vals : list val)
  | WPop
  | WMutate (op : mutop) (param : option val)
  | WRound (dir : rounddir).

Definition apply_mutation (op : mutop) (v : val) (param : option val) : vres val :=
  match op with
  | MCut => v_split v param
  | MJoin => v_join v param
  | MCast => v_cast v param
  end.

Definition apply_round (dir : rounddir) (v : val) : vres val :=
  match dir with
  | RUp => v_round_up v
  | RDown => v_round_down v
  | RNearest => v_round_nearest v
  end.

(** new value of the target, and the value handed back (only [WPop] hands one back) *)
Definition apply_wop (w : wop) (cur : val) : vres (val * option val) :=
  match w with
  | WAssign v => Ok (v, None)
  | WInc k => let* v := v_inc cur k in Ok (v, None)
  | WPush vals => let* v := v_push cur vals in Ok (v, None)
  | WPop => let* (a, x) := v_pop cur in Ok (a, Some x)
  | WMutate op param => let* v := apply_mutation op cur param in Ok (v, None)
  | WRound dir => let* v := apply_round dir cur in Ok (v, None)
  end.

(** write through a chain of subscripts, innermost key first *)
Fixpoint update_path (cur : val) (keys : list val) (w : wop) : vres (val * option val) :=
  match keys with
  | [] => apply_wop w cur
  | k :: ks => v_update_at cur k (fun elem => update_path elem ks w)
  end.

(** [WriteValOutput]: [Ok(())] (with what a pop handed back) or an error value *)
Inductive inner := IOk (back : option val) | IErr (e : rt_error).

(** * Control flow state of one [ExecStmt] *)

Inductive flag := Normal | Breaking | Continuing | Returning.
Definition skip_rest (f : flag) : bool := match f with Normal => false | _ => true end.
Definition is_normal (f : flag) : bool := match f with Normal => true | _ => false end.

Record xstate := mkX { xflag : flag; xret : option val }.
Definition x_init : xstate := mkX Normal None.

(** a lookup that sets [last_access] first (also when it fails) *)
Definition lookup_var_x (n : varname) (e : env) : xres val :=
  let '(r, e') := env_lookup_var n e in lift_env r e'.

(** [lookup_or_create!] then the write *)
Definition write_var (w : wop) (keys : list val) (n : varname) (e : env) : xres inner :=
  let '(r, e1) := env_lookup_var n e in
  let found := match r with Ok v => Some v | _ => None end in
  match found with
  | Some cur =>
      match update_path cur keys w with
      | Ok (nv, back) => XOk (IOk back) (env_store n nv e1)
      | Err x => XOk (IErr (RVal x)) e1
      | Panic s => XPanic s | UB s => XUB s | OutOfFuel => XOutOfFuel | OverBudget => XOverBudget
      end
  | None =>
      match env_create_var n e1 with
      | Ok e2 =>
          match update_path VUndef keys w with
          | Ok (nv, back) => XOk (IOk back) (env_store n nv e2)
          | Err x => XOk (IErr (RVal x)) e2
          | Panic s => XPanic s | UB s => XUB s | OutOfFuel => XOutOfFuel | OverBudget => XOverBudget
          end
      | Err x => XOk (IErr (REnv x)) e1
      | Panic s => XPanic s | UB s => XUB s | OutOfFuel => XOutOfFuel | OverBudget => XOverBudget
      end
  end.

(** [last_access_mut()?] then the write *)
Definition write_pronoun (w : wop) (keys : list val) (e : env) : xres inner :=
  match last_access e with
  | None => XOk (IErr (REnv MissingPronounReferent)) e
  | Some n =>
      match find_var n (scopes e) with
      | Ok cur =>
          match update_path cur keys w with
          | Ok (nv, back) => XOk (IOk back) (env_store n nv e)
          | Err x => XOk (IErr (RVal x)) e
          | Panic s => XPanic s | UB s => XUB s | OutOfFuel => XOutOfFuel | OverBudget => XOverBudget
          end
      | Err x => XOk (IErr (REnv (SymTableError x))) e
      | Panic s => XPanic s | UB s => XUB s | OutOfFuel => XOutOfFuel | OverBudget => XOverBudget
      end
  end.

Definition write_ident (w : wop) (keys : list val) (i : ident) (e : env) : xres inner :=
  match i with
  | IVar n => write_var w keys n e
  | IPronoun => write_pronoun w keys e
  end.

(** the result of a whole write as the caller sees it: [.unwrap().0?] *)
Definition settle (r : xres inner) : xres (option val) :=
  match r with
  | XOk (IOk back) e => XOk back e
  | XOk (IErr x) e => XErr x e
  | XErr x e => XErr x e
  | XPanic s => XPanic s
  | XUB s => XUB s
  | XOutOfFuel => XOutOfFuel
  | XOverBudget => XOverBudget
  end.

(** a failed inner evaluation becomes an error *value* of the write visitor *)
Definition absorb {A} (r : xres A) (k : A -> env -> xres inner) : xres inner :=
  match r with
  | XOk a e => k a e
  | XErr x e => XOk (IErr x) e
  | XPanic s => XPanic s
  | XUB s => XUB s
  | XOutOfFuel => XOutOfFuel
  | XOverBudget => XOverBudget
  end.

Definition not_writable (e : env) : xres inner := XOk (IErr RNotWritable) e.

Definition literal_val (l : literal) : val :=
  match l with
  | LMysterious => VUndef
  | LBool b => VBool b
  | LNull => VNull
  | LNumber n => VNum n
  | LString s => VStr s
  end.

Definition lhs_as_primary (l : lhs) : primary :=
  match l with
  | LIdent i r => PIdent i r
  | LSubscript a s => PSubscript a s
  end.

Section WithProfile.
Variable prof : profile.

Fixpoint produce_expr (fuel : nat) (x : expr) (e : env) {struct fuel} : xres val :=
  match fuel with
  | O => XOutOfFuel
  | S f =>
      match x with
      | EPrimary p => produce_primary f p e
      | EBinary op l first rest =>
          let+ (lv, e1) := produce_expr f l e in
          fold_rhs f op lv (first :: rest) e1
      | EUnary op a =>
          let+ (v, e1) := produce_expr f a e in
          lift_val (unop_apply op v) e1
      end
  end

with produce_primary (fuel : nat) (p : primary) (e : env) {struct fuel} : xres val :=
  match fuel with
  | O => XOutOfFuel
  | S f =>
      match p with
      | PLit l _ => XOk (literal_val l) e
      | PIdent (IVar n) _ => lookup_var_x n e
      | PIdent IPronoun _ => lift_env (env_last_access e) e
      | PSubscript a s =>
          let+ (av, e1) := produce_primary f a e in
          let+ (sv, e2) := produce_primary f s e1 in
          lift_val (v_index av sv) e2
      | PCall name _ args => call_function f name args e
      | PPop a =>
          (* visit_array_pop_expr: a WriteVal whose closure pops *)
          match settle (write_primary f WPop a e) with
          | XOk (Some v) e1 => XOk v e1
          | XOk None _ => XUB (SiteUnchecked 30)
          | XErr x e1 => XErr x e1
          | XPanic s => XPanic s | XUB s => XUB s | XOutOfFuel => XOutOfFuel | XOverBudget => XOverBudget
          end
      end
  end

(** [binary_operator_fold]: left to right, the right operand evaluated only if needed *)
with fold_rhs (fuel : nat) (op : binop) (acc : val) (l : list expr) (e : env) {struct fuel} : xres val :=
  match fuel with
  | O => XOutOfFuel
  | S f =>
      match l with
      | [] => XOk acc e
      | x :: t =>
          if needs_rhs op acc then
            let+ (bv, e1) := produce_expr f x e in
            let+ (r, e2) := lift_val (binop_apply op acc bv) e1 in
            fold_rhs f op r t e2
          else fold_rhs f op (short_result op acc) t e
      end
  end

with produce_args (fuel : nat) (l : list expr) (e : env) {struct fuel} : xres (list val) :=
  match fuel with
  | O => XOutOfFuel
  | S f =>
      match l with
      | [] => XOk [] e
      | x :: t =>
          let+ (v, e1) := produce_expr f x e in
          let+ (vs, e2) := produce_args f t e1 in
          XOk (v :: vs) e2
      end
  end

with call_function (fuel : nat) (name : varname) (args : list expr) (e : env) {struct fuel} : xres val :=
  match fuel with
  | O => XOutOfFuel
  | S f =>
      let+ (fd, e0) := lift_env (env_lookup_func name e) e in
      let '(params, body) := fd in
      if negb (len params =? len args) then XErr (RWrongArgs (len params) (len args)) e0 else
      let+ (vals, e1) := produce_args f args e0 in
      let+ (e2, _) := lift_env (env_push_function_scope (combine (map fst params) vals) e1) e1 in
      match enter_call e2 with
      | None => XOverBudget
      | Some e2' =>
          let+ (xs, e3) := exec_block f body x_init e2' in
          let+ (e4, _) := lift_env (pop_scope prof (leave_call e3)) e3 in
          XOk (match xret xs with Some v => v | None => VUndef end) e4
      end
  end

(** WriteVal: the overridden methods and, for everything else, VisitExpr's default traversal *)
with write_primary (fuel : nat) (w : wop) (p : primary) (e : env) {struct fuel} : xres inner :=
  match fuel with
  | O => XOutOfFuel
  | S f =>
      match p with
      | PLit _ _ => not_writable e
      | PIdent i _ => write_ident w [] i e
      | PSubscript a s => write_subscript f w a s [] e
      | PCall name _ args =>
          (* default visit_function_call: the name is *written*, the arguments traversed *)
          let+ (_, e1) := write_var w [] name e in
          let+ (_, e2) := write_exprs f w args e1 in
          not_writable e2
      | PPop a => write_primary f w a e
      end
  end

(** visit_array_subscript: [keys] are the subscripts collected so far (innermost first) *)
with write_subscript (fuel : nat) (w : wop) (a s : primary) (keys : list val) (e : env) {struct fuel}
  : xres inner :=
  match fuel with
  | O => XOutOfFuel
  | S f =>
      absorb (produce_primary f s e) (fun sv e1 =>
        let keys' := sv :: keys in
        match a with
        | PIdent i _ => write_ident w keys' i e1
        | PSubscript a2 s2 => write_subscript f w a2 s2 keys' e1
        | _ => not_writable e1
        end)
  end

with write_expr (fuel : nat) (w : wop) (x : expr) (e : env) {struct fuel} : xres inner :=
  match fuel with
  | O => XOutOfFuel
  | S f =>
      match x with
      | EPrimary p => write_primary f w p e
      | EBinary _ l first rest =>
          let+ (_, e1) := write_expr f w l e in
          let+ (_, e2) := write_exprs f w (first :: rest) e1 in
          not_writable e2
      | EUnary _ a =>
          let+ (_, e1) := write_expr f w a e in
          not_writable e1
      end
  end

with write_exprs (fuel : nat) (w : wop) (l : list expr) (e : env) {struct fuel} : xres inner :=
  match fuel with
  | O => XOutOfFuel
  | S f =>
      match l with
      | [] => not_writable e
      | x :: t =>
          let+ (_, e1) := write_expr f w x e in
          write_exprs f w t e1
      end
  end

with exec_stmt (fuel : nat) (s : stmt) (xs : xstate) (e : env) {struct fuel} : xres xstate :=
  match fuel with
  | O => XOutOfFuel
  | S f =>
      match tick e with
      | None => XOverBudget
      | Some e =>
      match s with
      | SAssign dest first rest op =>
          let+ (nv, e1) :=
            match op with
            | Some o =>
                let+ (lv, e0) := produce_primary f (lhs_as_primary dest) e in
                fold_rhs f o lv (first :: rest) e0
            | None =>
                match rest with
                | _ :: _ => XErr RExprListInvalid e
                | [] => produce_expr f first e
                end
            end in
          let+ (_, e2) := settle (write_primary f (WAssign nv) (lhs_as_primary dest) e1) in
          XOk xs e2
      | SPoeticNum dest rhs =>
          let+ (v, e1) :=
            match rhs with
            | PNExpr x => produce_expr f x e
            | PNLit elems => XOk (VNum (compute_value elems)) e
            end in
          let+ (_, e2) := settle (write_primary f (WAssign v) (lhs_as_primary dest) e1) in
          XOk xs e2
      | SPoeticStr dest str_ =>
          let+ (_, e2) := settle (write_primary f (WAssign (VStr str_)) (lhs_as_primary dest) e) in
          XOk xs e2
      | SIf c th el =>
          let+ (cv, e1) := produce_expr f c e in
          let e2 := push_scope e1 in
          let+ (xs', e3) :=
            if is_truthy cv then exec_block f th xs e2
            else match el with
                 | Some b => exec_block f b xs e2
                 | None => XOk xs e2
                 end in
          let+ (e4, _) := lift_env (pop_scope prof e3) e3 in
          XOk xs' e4
      | SWhile c b => exec_loop f false c b xs e
      | SUntil c b => exec_loop f true c b xs e
      | SInc i _ k =>
          let+ (_, e1) := settle (write_ident (WInc k) [] i e) in XOk xs e1
      | SDec i _ k =>
          let+ (_, e1) := settle (write_ident (WInc (- k)) [] i e) in XOk xs e1
      | SInput dest _ =>
          let+ (r, e0) := lift_env (chan_input (chan e)) e in
          let '(ln, c') := r in
          let e1 := mkEnvB e0 (scopes e0) (last_access e0) c' in
          match dest with
          | Some d =>
              let+ (_, e2) := settle (write_primary f (WAssign (VStr ln)) (lhs_as_primary d) e1) in
              XOk xs e2
          | None => XOk xs e1
          end
      | SOutput x =>
          let+ (v, e1) := produce_expr f x e in
          let+ (txt, e2) := lift_val (to_string_for_output v) e1 in
          let '(r, cfail) := chan_output txt (chan e2) in
          match r with
          | Ok c' => XOk xs (mkEnvB e2 (scopes e2) (last_access e2) c')
          | Err x => XErr (REnv x) (mkEnvB e2 (scopes e2) (last_access e2) cfail)
          | Panic s => XPanic s | UB s => XUB s | OutOfFuel => XOutOfFuel | OverBudget => XOverBudget
          end
      | SMutation op operand dest param =>
          let+ (pv, e1) :=
            match param with
            | Some px => let+ (v, e') := produce_expr f px e in XOk (Some v) e'
            | None => XOk None e
            end in
          match dest with
          | Some d =>
              let+ (v, e2) := produce_primary f operand e1 in
              let+ (v', e3) := lift_val (apply_mutation op v pv) e2 in
              let+ (_, e4) := settle (write_primary f (WAssign v') (lhs_as_primary d) e3) in
              XOk xs e4
          | None =>
              let+ (_, e2) := settle (write_primary f (WMutate op pv) operand e1) in
              XOk xs e2
          end
      | SRounding dir operand =>
          let+ (_, e1) := settle (write_expr f (WRound dir) operand e) in XOk xs e1
      | SContinue _ =>
          match debug_assert (E := unit) prof 31 (is_normal (xflag xs)) with
          | Ok _ => XOk (mkX Continuing (xret xs)) e
          | _ => XPanic (SiteDebugAssert 31)
          end
      | SBreak _ =>
          match debug_assert (E := unit) prof 32 (is_normal (xflag xs)) with
          | Ok _ => XOk (mkX Breaking (xret xs)) e
          | _ => XPanic (SiteDebugAssert 32)
          end
      | SPush arr value =>
          match value with
          | Some (PushList first rest) =>
              let+ (vals, e1) := produce_args f (first :: rest) e in
              let+ (_, e2) := settle (write_primary f (WPush vals) arr e1) in
              XOk xs e2
          | Some (PushLit elems) =>
              let+ (_, e2) := settle (write_primary f (WPush [VNum (compute_value elems)]) arr e) in
              XOk xs e2
          | None =>
              let+ (_, e2) := settle (write_primary f (WPush []) arr e) in
              XOk xs e2
          end
      | SPop arr dest =>
          let+ (back, e1) := produce_primary f (PPop arr) e in
          match dest with
          | Some d =>
              let+ (_, e2) := settle (write_primary f (WAssign back) (lhs_as_primary d) e1) in
              XOk xs e2
          | None => XOk xs e1
          end
      | SReturn x =>
          match debug_assert (E := unit) prof 33 (match xret xs with None => true | Some _ => false end) with
          | Ok _ =>
              let+ (v, e1) := produce_expr f x e in
              match debug_assert (E := unit) prof 34 (is_normal (xflag xs)) with
              | Ok _ => XOk (mkX Returning (Some v)) e1
              | _ => XPanic (SiteDebugAssert 34)
              end
          | _ => XPanic (SiteDebugAssert 33)
          end
      | SFunction name _ params body =>
          let+ (e1, _) := lift_env (env_create_func name params body e) e in
          XOk xs e1
      | SCall name _ args =>
          let+ (_, e1) := call_function f name args e in
          XOk xs e1
      end
      end
  end

(** ExecStmt::visit_block *)
with exec_block (fuel : nat) (b : block) (xs : xstate) (e : env) {struct fuel} : xres xstate :=
  match fuel with
  | O => XOutOfFuel
  | S f =>
      match b with
      | BEmpty _ => XOk xs e
      | BNonEmpty ss => exec_stmts f ss xs e
      end
  end

with exec_stmts (fuel : nat) (ss : list stmt) (xs : xstate) (e : env) {struct fuel} : xres xstate :=
  match fuel with
  | O => XOutOfFuel
  | S f =>
      match ss with
      | [] => XOk xs e
      | s :: t =>
          let+ (xs', e1) := exec_stmt f s xs e in
          if skip_rest (xflag xs') then XOk xs' e1 else exec_stmts f t xs' e1
      end
  end

(** visit_loop: one iteration per unit of fuel *)
with exec_loop (fuel : nat) (invert : bool) (c : expr) (b : block) (xs : xstate) (e : env) {struct fuel}
  : xres xstate :=
  match fuel with
  | O => XOutOfFuel
  | S f =>
      match tick e with
      | None => XOverBudget
      | Some e =>
      let+ (cv, e1) := produce_expr f c e in
      if xorb invert (is_truthy cv) then
        let+ (xs', e3) := exec_block f b xs (push_scope e1) in
        let+ (e4, _) := lift_env (pop_scope prof e3) e3 in
        match xflag xs' with
        | Normal => exec_loop f invert c b xs' e4
        | Continuing => exec_loop f invert c b (mkX Normal (xret xs')) e4
        | Breaking => XOk (mkX Normal (xret xs')) e4
        | Returning => XOk xs' e4
        end
      else XOk xs e1
      end
  end.

(** ExecStmt::visit_program (with the top-level exit rule) *)
Fixpoint exec_blocks (fuel : nat) (bs : list block) (xs : xstate) (e : env) : xres xstate :=
  match bs with
  | [] => XOk xs e
  | b :: t =>
      let+ (xs', e1) := exec_block fuel b xs e in
      if skip_rest (xflag xs') then XOk xs' e1 else exec_blocks fuel t xs' e1
  end.

Definition exec_program (fuel : nat) (p : program) (c : channels) : xres xstate :=
  exec_blocks fuel p x_init (env_init c).

End WithProfile.
