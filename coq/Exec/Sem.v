(** A structured semantics of statements (a specification, not code): control flow by explicit
    outcomes instead of the interpreter's flag machine.  A statement finishes normally, or asks to
    break, to continue, or to return a value; a block stops at the first statement that does not
    finish normally; a loop turns break into normal completion and continue into the next
    iteration, and passes return on.  Expressions, assignments, I/O and calls are the interpreter's
    own (they do not touch the control state): [sem_*] only replaces the control skeleton. *)
From Coq Require Import List ZArith NArith Bool.
From RRSS Require Import Base.Outcome Base.Chars Base.F64 Exec.Val Exec.Ops Front.Ast Exec.Env Exec.Interp.
Import ListNotations.

Inductive outcome := ONormal | OBreak | OContinue | OReturn (v : val).

Definition to_outcome (xs : xstate) : outcome :=
  match xflag xs with
  | Normal => ONormal
  | Breaking => OBreak
  | Continuing => OContinue
  | Returning => OReturn (match xret xs with Some v => v | None => VUndef end)
  end.

Definition xmap {A B} (g : A -> B) (r : xres A) : xres B :=
  match r with
  | XOk a e => XOk (g a) e
  | XErr x e => XErr x e
  | XPanic s => XPanic s
  | XUB s => XUB s
  | XOutOfFuel => XOutOfFuel
  | XOverBudget => XOverBudget
  end.

Section Sem.
Variable prof : profile.

Fixpoint sem_stmt (fuel : nat) (s : stmt) (e0 : env) {struct fuel} : xres outcome :=
  match fuel with
  | O => XOutOfFuel
  | S f =>
      match s with
      | SIf c th el =>
          match tick e0 with
          | None => XOverBudget
          | Some e =>
              let+ (cv, e1) := produce_expr prof f c e in
              let e2 := push_scope e1 in
              let+ (o, e3) :=
                if is_truthy cv then sem_block f th e2
                else match el with Some b => sem_block f b e2 | None => XOk ONormal e2 end in
              let+ (e4, _) := lift_env (pop_scope prof e3) e3 in
              XOk o e4
          end
      | SWhile c b => match tick e0 with None => XOverBudget | Some e => sem_loop f false c b e end
      | SUntil c b => match tick e0 with None => XOverBudget | Some e => sem_loop f true c b e end
      | SBreak _ => match tick e0 with None => XOverBudget | Some e => XOk OBreak e end
      | SContinue _ => match tick e0 with None => XOverBudget | Some e => XOk OContinue e end
      | SReturn x =>
          match tick e0 with
          | None => XOverBudget
          | Some e => let+ (v, e1) := produce_expr prof f x e in XOk (OReturn v) e1
          end
      | _ => (* straight-line statements: one step of the interpreter, which leaves the control state alone *)
          xmap (fun _ => ONormal) (exec_stmt prof (S f) s x_init e0)
      end
  end

with sem_block (fuel : nat) (b : block) (e : env) {struct fuel} : xres outcome :=
  match fuel with
  | O => XOutOfFuel
  | S f => match b with BEmpty _ => XOk ONormal e | BNonEmpty ss => sem_stmts f ss e end
  end

(** statements run in order; the first one that does not finish normally ends the block *)
with sem_stmts (fuel : nat) (ss : list stmt) (e : env) {struct fuel} : xres outcome :=
  match fuel with
  | O => XOutOfFuel
  | S f =>
      match ss with
      | [] => XOk ONormal e
      | s :: t =>
          let+ (o, e1) := sem_stmt f s e in
          match o with ONormal => sem_stmts f t e1 | _ => XOk o e1 end
      end
  end

(** the condition is evaluated before every iteration; break ends this loop normally, continue starts
    its next iteration, return leaves it *)
with sem_loop (fuel : nat) (invert : bool) (c : expr) (b : block) (e0 : env) {struct fuel} : xres outcome :=
  match fuel with
  | O => XOutOfFuel
  | S f =>
      match tick e0 with
      | None => XOverBudget
      | Some e =>
          let+ (cv, e1) := produce_expr prof f c e in
          if xorb invert (is_truthy cv) then
            let+ (o, e3) := sem_block f b (push_scope e1) in
            let+ (e4, _) := lift_env (pop_scope prof e3) e3 in
            match o with
            | ONormal | OContinue => sem_loop f invert c b e4
            | OBreak => XOk ONormal e4
            | OReturn v => XOk (OReturn v) e4
            end
          else XOk ONormal e1
      end
  end.
End Sem.
