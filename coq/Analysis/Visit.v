(** Model of src/analysis/visit.rs: VisitExpr's default traversal and the ExprVisitorRunner
    bridge, over an abstract visitor given by its leaf callbacks.

    A visitor has a state [S], outputs [O] with [combine]/[default], errors [E], and one
    callback per leaf method.  [walk_*] mirror the Rust default methods (same order, same
    combine structure, stop at the first [Err]).  [events_*] is the flat, field-order list of
    leaves, defined independently by plain structural recursion; [Proofs/VisitLaws.v] shows
    [walk = fold over events]. *)
From Coq Require Import List ZArith NArith Bool.
From RRSS Require Import Base.Outcome Base.Chars Base.F64 Exec.Ops Front.Ast.
Import ListNotations.

Inductive event :=
  | EvLiteral (l : literal) (r : range)
  | EvPronoun (r : range)
  | EvSimple (s : str) (r : range)
  | EvCommon (p w : str) (r : range)
  | EvProper (ws : list str) (r : range)
  | EvBinOp (o : binop)
  | EvUnOp (o : unop)
  | EvPoeticElem (e : pelem).

Definition ev_varname (n : varname) (r : range) : event :=
  match n with
  | Simple s => EvSimple s r
  | Common p w => EvCommon p w r
  | Proper ws => EvProper ws r
  end.

Definition ev_ident (i : ident) (r : range) : event :=
  match i with IVar n => ev_varname n r | IPronoun => EvPronoun r end.

(** * The flat event list (specification) *)

Fixpoint events_primary (p : primary) : list event :=
  match p with
  | PLit l r => [EvLiteral l r]
  | PIdent i r => [ev_ident i r]
  | PSubscript a s => events_primary a ++ events_primary s
  | PCall n r args =>
      ev_varname n r ::
      (fix go (l : list expr) : list event :=
         match l with [] => [] | x :: t => events_expr x ++ go t end) args
  | PPop a => events_primary a
  end
with events_expr (e : expr) : list event :=
  match e with
  | EPrimary p => events_primary p
  | EBinary o l f rest =>
      events_expr l ++ [EvBinOp o] ++ events_expr f ++
      (fix go (l : list expr) : list event :=
         match l with [] => [] | x :: t => events_expr x ++ go t end) rest
  | EUnary o x => EvUnOp o :: events_expr x
  end.

Definition events_exprs (l : list expr) : list event := flat_map events_expr l.

Definition events_lhs (l : lhs) : list event :=
  match l with
  | LIdent i r => [ev_ident i r]
  | LSubscript a s => events_primary a ++ events_primary s
  end.

Definition events_opt {A} (f : A -> list event) (o : option A) : list event :=
  match o with Some x => f x | None => [] end.

Definition events_pelems (l : list pelem) : list event := map EvPoeticElem l.

Fixpoint events_stmt (s : stmt) : list event :=
  match s with
  | SAssign d f rest op =>
      events_lhs d ++ events_opt (fun o => [EvBinOp o]) op ++ events_exprs (f :: rest)
  | SPoeticNum d (PNExpr e) => events_lhs d ++ events_expr e
  | SPoeticNum d (PNLit el) => events_lhs d ++ events_pelems el
  | SPoeticStr d _ => events_lhs d
  | SIf c t e => events_expr c ++ events_block t ++ events_opt events_block e
  | SWhile c b => events_expr c ++ events_block b
  | SUntil c b => events_expr c ++ events_block b
  | SInc i r _ => [ev_ident i r]
  | SDec i r _ => [ev_ident i r]
  | SInput d _ => events_opt events_lhs d
  | SOutput e => events_expr e
  | SMutation _ operand d p => events_primary operand ++ events_opt events_lhs d ++ events_opt events_expr p
  | SRounding _ e => events_expr e
  | SContinue _ => []
  | SBreak _ => []
  | SPush a None => events_primary a
  | SPush a (Some (PushList f rest)) => events_primary a ++ events_exprs (f :: rest)
  | SPush a (Some (PushLit el)) => events_primary a ++ events_pelems el
  | SPop a d => events_primary a ++ events_opt events_lhs d
  | SReturn e => events_expr e
  | SFunction n r ps b =>
      ev_varname n r :: map (fun p => ev_varname (fst p) (snd p)) ps ++ events_block b
  | SCall n r args => ev_varname n r :: events_exprs args
  end
with events_block (b : block) : list event :=
  match b with
  | BEmpty _ => []
  | BNonEmpty ss =>
      (fix go (l : list stmt) : list event :=
         match l with [] => [] | x :: t => events_stmt x ++ go t end) ss
  end.

Definition events_program (p : program) : list event := flat_map events_block p.

(** * The traversal as the Rust code performs it *)

Section Walk.
  Context {S O E : Type}.
  Variable combine : O -> O -> O.
  Variable default : O.
  (** one callback for all leaf methods: the event says which method and with what argument *)
  Variable leaf : event -> S -> (S * (O + E)).

  Definition wres := (S * (O + E))%type.

  Definition wbind (m : wres) (f : S -> O -> wres) : wres :=
    match m with
    | (s, inl o) => f s o
    | (s, inr e) => (s, inr e)
    end.

  (** [a?.combine(b?)] *)
  Definition wcombine2 (m : wres) (k : S -> wres) : wres :=
    wbind m (fun s o1 => wbind (k s) (fun s' o2 => (s', inl (combine o1 o2)))).

  (** [combine_all]: try_fold from [default] *)
  Fixpoint wall {A} (f : A -> S -> wres) (l : list A) (s : S) (acc : O) : wres :=
    match l with
    | [] => (s, inl acc)
    | x :: t => wbind (f x s) (fun s' o => wall f t s' (combine acc o))
    end.

  Definition wleaf_default (s : S) : wres := (s, inl default).

  Definition walk_varname (n : varname) (r : range) (s : S) : wres := leaf (ev_varname n r) s.
  Definition walk_ident (i : ident) (r : range) (s : S) : wres := leaf (ev_ident i r) s.

  Fixpoint walk_primary (p : primary) (s : S) {struct p} : wres :=
    match p with
    | PLit l r => leaf (EvLiteral l r) s
    | PIdent i r => walk_ident i r s
    | PSubscript a x => wcombine2 (walk_primary a s) (walk_primary x)
    | PCall n r args =>
        (* combine_all(once(name) ++ args) *)
        wbind (walk_varname n r s) (fun s1 o1 =>
          (fix go (l : list expr) (s : S) (acc : O) : wres :=
             match l with
             | [] => (s, inl acc)
             | x :: t => wbind (walk_expr x s) (fun s' o => go t s' (combine acc o))
             end) args s1 (combine default o1))
    | PPop a => walk_primary a s
    end
  with walk_expr (e : expr) (s : S) {struct e} : wres :=
    match e with
    | EPrimary p => walk_primary p s
    | EBinary o l f rest =>
        wcombine2
          (wcombine2 (walk_expr l s) (leaf (EvBinOp o)))
          (fun s2 =>
             wbind (walk_expr f s2) (fun s3 o3 =>
               (fix go (l : list expr) (s : S) (acc : O) : wres :=
                  match l with
                  | [] => (s, inl acc)
                  | x :: t => wbind (walk_expr x s) (fun s' o => go t s' (combine acc o))
                  end) rest s3 (combine default o3)))
    | EUnary o x => wcombine2 (leaf (EvUnOp o) s) (walk_expr x)
    end.

  Definition walk_exprs (l : list expr) (s : S) : wres := wall walk_expr l s default.

  Definition walk_lhs (l : lhs) (s : S) : wres :=
    match l with
    | LIdent i r => walk_ident i r s
    | LSubscript a x => wcombine2 (walk_primary a s) (walk_primary x)
    end.

  Definition walk_pelems (l : list pelem) (s : S) : wres :=
    wall (fun e => leaf (EvPoeticElem e)) l s default.

  Definition walk_opt {A} (f : A -> S -> wres) (o : option A) (s : S) : wres :=
    match o with Some x => f x s | None => wleaf_default s end.

  (** ExprVisitorRunner's VisitProgram methods *)
  Fixpoint walk_stmt (st : stmt) (s : S) {struct st} : wres :=
    match st with
    | SAssign d f rest op =>
        wcombine2 (wcombine2 (walk_lhs d s) (walk_opt (fun o => leaf (EvBinOp o)) op))
                  (walk_exprs (f :: rest))
    | SPoeticNum d (PNExpr e) => wcombine2 (walk_lhs d s) (walk_expr e)
    | SPoeticNum d (PNLit el) => wcombine2 (walk_lhs d s) (walk_pelems el)
    | SPoeticStr d _ => walk_lhs d s
    | SIf c t e =>
        wcombine2 (wcombine2 (walk_expr c s) (walk_block t))
                  (fun s' => match e with Some b => walk_block b s' | None => wleaf_default s' end)
    | SWhile c b => wcombine2 (walk_expr c s) (walk_block b)
    | SUntil c b => wcombine2 (walk_expr c s) (walk_block b)
    | SInc i r _ => walk_ident i r s
    | SDec i r _ => walk_ident i r s
    | SInput d _ => walk_opt walk_lhs d s
    | SOutput e => walk_expr e s
    | SMutation _ operand d p =>
        (* visit_mutation_operator is a leaf of the runner itself: default output *)
        wcombine2 (wcombine2 (wcombine2 (wleaf_default s) (walk_primary operand)) (walk_opt walk_lhs d))
                  (walk_opt walk_expr p)
    | SRounding _ e => wcombine2 (wleaf_default s) (walk_expr e)
    | SContinue _ => wleaf_default s
    | SBreak _ => wleaf_default s
    | SPush a v =>
        wcombine2 (walk_primary a s)
          (fun s' => match v with
                     | None => wleaf_default s'
                     | Some (PushList f rest) => walk_exprs (f :: rest) s'
                     | Some (PushLit el) => walk_pelems el s'
                     end)
    | SPop a d => wcombine2 (walk_primary a s) (walk_opt walk_lhs d)
    | SReturn e => walk_expr e s
    | SFunction n r ps b =>
        wcombine2 (walk_varname n r s)
          (fun s1 => wcombine2 (wall (fun p => walk_varname (fst p) (snd p)) ps s1 default) (walk_block b))
    | SCall n r args =>
        wbind (walk_varname n r s) (fun s1 o1 => wall walk_expr args s1 (combine default o1))
    end
  with walk_block (b : block) (s : S) {struct b} : wres :=
    match b with
    | BEmpty _ => wleaf_default s
    | BNonEmpty ss =>
        (fix go (l : list stmt) (s : S) (acc : O) : wres :=
           match l with
           | [] => (s, inl acc)
           | x :: t => wbind (walk_stmt x s) (fun s' o => go t s' (combine acc o))
           end) ss s default
    end.

  Definition walk_program (p : program) (s : S) : wres := wall walk_block p s default.
End Walk.
