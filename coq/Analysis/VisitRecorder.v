(** The recording visitor used by suite VISIT: state = number of callbacks so far, output = the
    events seen (combine = append), failing at the k-th callback. *)
From Coq Require Import List Arith.
From RRSS Require Import Front.Ast Analysis.Visit.
Import ListNotations.

Definition rec_leaf (fail_at : option nat) (ev : event) (calls : nat) : nat * (list event + nat) :=
  match fail_at with
  | Some k => if Nat.eqb calls k then (S calls, inr calls) else (S calls, inl [ev])
  | None => (S calls, inl [ev])
  end.

Definition record_program (fail_at : option nat) (p : program) : nat * (list event + nat) :=
  walk_program (@app event) [] (rec_leaf fail_at) p 0.
