(** Model of src/analysis/tools.rs: NumericConstantFolder and SimpleStringConstantFolder
    (their overrides plus the VisitExpr defaults they inherit). *)
From Coq Require Import List ZArith NArith Bool.
From RRSS Require Import Base.Outcome Base.Chars Base.F64 Exec.Ops Front.Ast Front.Poetic.
Import ListNotations.

Inductive fold_error := FNoType | FUnknownValue | FWrongType | FNeedMoreInfo | FPossibleValueIgnored.

Definition fres := res fold_error.

Definition arith_op (o : binop) : option (f64 -> f64 -> f64) :=
  match o with
  | OpPlus => Some fadd
  | OpMinus => Some fsub
  | OpMultiply => Some fmul
  | OpDivide => Some fdiv
  | _ => None
  end.

(** NumericConstantFolder::visit_expression *)
Fixpoint fold_num (e : expr) : fres f64 :=
  match e with
  | EPrimary (PLit (LNumber x) _) => Ok x
  | EPrimary (PLit _ _) => Err FWrongType
  | EPrimary (PIdent _ _) => Err FUnknownValue
  | EPrimary (PSubscript _ _) => Err FUnknownValue
  | EPrimary (PCall _ _ _) => Err FUnknownValue      (* the inherited visit_function_call fails on the name *)
  | EPrimary (PPop _) => Err FUnknownValue
  | EBinary o l f rest =>
      let* lv := fold_num l in
      match arith_op o with
      | None => Err FWrongType                          (* after the first right operand was visited *)
      | Some g =>
          (fix go (xs : list expr) (acc : f64) : fres f64 :=
             match xs with
             | [] => Ok acc
             | x :: t => let* v := fold_num x in go t (g acc v)
             end) (f :: rest) lv
      end
  | EUnary UMinus x => let* v := fold_num x in Ok (fneg v)
  | EUnary UNot x => let* _ := fold_num x in Err FWrongType
  end.

(** visit_expression_list *)
Definition fold_num_list (first : expr) (rest : list expr) : fres f64 :=
  match rest with [] => fold_num first | _ => Err FNeedMoreInfo end.

(** SimpleStringConstantFolder::visit_expression *)
Definition fold_str (e : expr) : fres str :=
  match e with
  | EPrimary (PLit (LString s) _) => Ok s
  | EPrimary (PLit _ _) => Err FWrongType
  | EPrimary (PIdent _ _) => Err FUnknownValue
  | EPrimary (PSubscript _ _) => Err FUnknownValue
  | EPrimary (PCall _ _ _) => Err FUnknownValue
  | EPrimary (PPop _) => Err FUnknownValue
  | EBinary _ _ _ _ => Err FPossibleValueIgnored
  | EUnary _ _ => Err FWrongType
  end.

Definition fold_str_list (first : expr) (rest : list expr) : fres str :=
  match rest with [] => fold_str first | _ => Err FNeedMoreInfo end.

(** the syntactic class the property talks about: built solely from number literals,
    unary minus and + - * / (list operands allowed) *)
Fixpoint const_expr (e : expr) : bool :=
  match e with
  | EPrimary (PLit (LNumber _) _) => true
  | EPrimary _ => false
  | EBinary o l f rest =>
      match arith_op o with
      | Some _ => const_expr l && const_expr f && forallb const_expr rest
      | None => false
      end
  | EUnary UMinus x => const_expr x
  | EUnary UNot _ => false
  end.
