(** C15 — Renaming variables and re-casing names or keywords never changes behaviour.
    Statements only; proofs in Proofs/NameLaws.v.  These theorems cover how names become
    symbol-table keys; the invariance of whole executions under renaming is established by the
    renaming oracle and the correspondence (see the evidence), not by a theorem. *)
From Coq Require Import List ZArith NArith Bool.
From RRSS Require Import Base.Outcome Base.Chars Front.Ast Front.Token Exec.Val Exec.Env Exec.Interp Proofs.NameLaws Proofs.RenameSim.
From RRSS Require Import Front.Token Front.Lexer Proofs.LexKeywords.
Import ListNotations.

(** the key of a name is its lower-casing, word by word — for every Unicode letter (table facts
    checked over the complete tables inside Coq) *)
Theorem C15_lower_name_is_fold : forall n, lower_name n = fold_name n.
Proof. exact lower_name_is_fold. Qed.

(** names are compared without regard to letter case *)
Theorem C15_same_fold_same_key : forall a b, fold_name a = fold_name b -> lower_name a = lower_name b.
Proof. exact same_fold_same_key. Qed.

Theorem C15_key_is_stable : forall n, lower_name (lower_name n) = lower_name n.
Proof. exact key_is_stable. Qed.

(** simple, common and proper names are distinct kinds of name: they never collide *)
Theorem C15_kinds_are_distinct :
  forall a b, varname_eqb (lower_name a) (lower_name b) = true ->
  match a, b with
  | Simple _, Simple _ | Common _ _, Common _ _ | Proper _, Proper _ => True
  | _, _ => False
  end.
Proof. exact kinds_are_distinct. Qed.

(** distinct spellings denote distinct variables *)
Theorem C15_distinct_spellings_distinct_keys :
  forall a b, fold_name a <> fold_name b -> varname_eqb (lower_name a) (lower_name b) = false.
Proof. exact distinct_spellings_distinct_keys. Qed.

(** keywords are recognised in any letter case: the lookup lower-cases the word first *)
Theorem C15_keyword_case_insensitive :
  forall w1 w2, str_to_lowercase w1 = str_to_lowercase w2 -> match_keyword w1 = match_keyword w2.
Proof. exact keyword_case_insensitive. Qed.

(** Renaming never changes behaviour.  [rho] renames spelled names; it is consistent when it acts on
    symbol-table keys through a map [kappa] that keeps distinct keys distinct.  Then the renamed program
    (every variable, parameter, function name and call renamed by [rn_program rho]) run on the same
    input is, for every fuel and in both profiles, the renamed run: same outcome class, same control
    state and return value, same output bytes, same input consumed, same budgets; a runtime error is the
    same error with the names it mentions renamed ([xres_rel], [env_rel]: related scopes key by key). *)
Theorem C15_rename_invariance :
  forall (rho kappa : varname -> varname),
    (forall n, lower_name (rho n) = kappa (lower_name n)) ->
    (forall a b, varname_eqb (kappa a) (kappa b) = varname_eqb a b) ->
    forall prof fuel p c,
      xres_rel rho kappa eq (exec_program prof fuel p c) (exec_program prof fuel (rn_program rho p) c).
Proof. exact rename_invariance. Qed.

Theorem C15_rename_same_output :
  forall (rho kappa : varname -> varname),
    (forall n, lower_name (rho n) = kappa (lower_name n)) ->
    (forall a b, varname_eqb (kappa a) (kappa b) = varname_eqb a b) ->
    forall prof fuel p c,
      match exec_program prof fuel p c, exec_program prof fuel (rn_program rho p) c with
      | XOk xs e, XOk xs' e' => xs' = xs /\ chan e' = chan e
      | XErr x e, XErr x' e' => x' = rn_err rho x /\ chan e' = chan e
      | XPanic s, XPanic s' => s' = s
      | XUB s, XUB s' => s' = s
      | XOutOfFuel, XOutOfFuel => True
      | XOverBudget, XOverBudget => True
      | _, _ => False
      end.
Proof. exact rename_same_output. Qed.

(** re-casing names (any respelling with the same keys) is the instance kappa = identity *)
Theorem C15_recase_invariance :
  forall (rho : varname -> varname) prof fuel p c,
    (forall n, lower_name (rho n) = lower_name n) ->
    xres_rel rho (fun k => k) eq (exec_program prof fuel p c) (exec_program prof fuel (rn_program rho p) c).
Proof. exact recase_invariance. Qed.

(** a renaming that is not a re-casing and satisfies the hypotheses: exchanging two names *)
Theorem C15_swap_invariance :
  forall a b prof fuel p c,
    xres_rel (swap_name a b) (swap_key a b) eq
             (exec_program prof fuel p c) (exec_program prof fuel (rn_program (swap_name a b) p) c).
Proof. exact swap_invariance. Qed.

Example C15_example :
  lower_name (Common (lit "My") (lit "HEART")) = lower_name (Common (lit "my") (lit "heart")) /\
  lower_name (Simple [201; 84; 201]%N) = lower_name (Simple [233; 116; 233]%N) /\
  match_keyword (lit "KnOcK") = Some TKnock /\ match_keyword [8490; 110; 111; 99; 107]%N = Some TKnock.
Proof. vm_compute. repeat split; reflexivity. Qed.

(** keywords are recognised in any case, in whole sources: no word (name) token of a lexed source spells a keyword *)
Theorem C15_keywords_are_never_names :
  forall prof src pts, lex prof src = Ok pts ->
  Forall (fun pt => tid (pt_tok pt) = TWord -> match_keyword (tspell (pt_tok pt)) = None) pts.
Proof. exact lex_words_are_not_keywords. Qed.

Print Assumptions C15_lower_name_is_fold.
Print Assumptions C15_rename_invariance.
Print Assumptions C15_swap_invariance.
