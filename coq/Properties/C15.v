(** C15 — Renaming variables and re-casing names or keywords never changes behaviour.
    Statements only; proofs in Proofs/NameLaws.v.  These theorems cover how names become
    symbol-table keys; the invariance of whole executions under renaming is established by the
    renaming oracle and the correspondence (see the evidence), not by a theorem. *)
From Coq Require Import List ZArith NArith Bool.
From RRSS Require Import Base.Outcome Base.Chars Front.Ast Front.Token Exec.Env Proofs.NameLaws.
Import ListNotations.

(** the key of a name is its lower-casing, word by word — for every Unicode letter (table facts
    checked over the complete tables inside Coq) *)
Theorem C15_lower_name_is_fold : forall n, lower_name n = fold_name n.
Proof. exact lower_name_is_fold. Qed.

(** names are compared without regard to letter case *)
Theorem C15_same_fold_same_key : forall a b, fold_name a = fold_name b -> lower_name a = lower_name b.
Proof. exact same_fold_same_key. Qed.

Theorem C15_key_is_stable : forall n, lower_name (lower_name n) = lower_name n.
Proof. exact key_is_stable. Qed.

(** simple, common and proper names are distinct kinds of name: they never collide *)
Theorem C15_kinds_are_distinct :
  forall a b, varname_eqb (lower_name a) (lower_name b) = true ->
  match a, b with
  | Simple _, Simple _ | Common _ _, Common _ _ | Proper _, Proper _ => True
  | _, _ => False
  end.
Proof. exact kinds_are_distinct. Qed.

(** distinct spellings denote distinct variables *)
Theorem C15_distinct_spellings_distinct_keys :
  forall a b, fold_name a <> fold_name b -> varname_eqb (lower_name a) (lower_name b) = false.
Proof. exact distinct_spellings_distinct_keys. Qed.

(** keywords are recognised in any letter case: the lookup lower-cases the word first *)
Theorem C15_keyword_case_insensitive :
  forall w1 w2, str_to_lowercase w1 = str_to_lowercase w2 -> match_keyword w1 = match_keyword w2.
Proof. exact keyword_case_insensitive. Qed.

Example C15_example :
  lower_name (Common (lit "My") (lit "HEART")) = lower_name (Common (lit "my") (lit "heart")) /\
  lower_name (Simple [201; 84; 201]%N) = lower_name (Simple [233; 116; 233]%N) /\
  match_keyword (lit "KnOcK") = Some TKnock /\ match_keyword [8490; 110; 111; 99; 107]%N = Some TKnock.
Proof. vm_compute. repeat split; reflexivity. Qed.

Print Assumptions C15_lower_name_is_fold.
