(** C08 — Input and output happen once each, in program order, and I/O faults are errors.
    Statements only; proofs in Proofs/InterpLaws.v and Proofs/InterpInv.v. *)
From Coq Require Import List ZArith NArith Bool.
From RRSS Require Import Base.Outcome Base.Chars Base.F64 Exec.Val Exec.Ops Front.Ast Exec.Env Exec.Interp.
From RRSS Require Import Proofs.InterpInv Proofs.InterpLaws Proofs.InterpIO.
From RRSS Require Import Proofs.InterpPure Proofs.InterpIOLaws.
From RRSS Require Import Proofs.TraceBudget.
Import ListNotations.

(** each say writes exactly one line: the text and a line feed *)
Theorem C08_say_writes_one_line :
  forall txt c,
  (match out_budget c with None => True | Some b => (len (utf8_encode txt ++ [10%N]) <= b)%N end) ->
  exists c', fst (chan_output txt c) = Ok c' /\ out_bytes c' = out_bytes c ++ utf8_encode txt ++ [10%N] /\
             in_rest c' = in_rest c /\ in_pos c' = in_pos c.
Proof. exact say_writes_one_line. Qed.

(** if the writer fails inside a line: exactly the bytes it accepted are there (a prefix of the
    line), the statement is an I/O error, and the writer accepts nothing any more *)
Theorem C08_say_fault :
  forall txt c b, out_budget c = Some b -> (b < len (utf8_encode txt ++ [10%N]))%N ->
  exists cf, chan_output txt c = (Err (IOError write_fault_msg), cf) /\
             out_bytes cf = out_bytes c ++ firstn (N.to_nat b) (utf8_encode txt ++ [10%N]) /\
             out_budget cf = Some 0%N.
Proof. exact say_fault. Qed.

Theorem C08_say_after_fault :
  forall txt c, out_budget c = Some 0%N ->
  exists cf, chan_output txt c = (Err (IOError write_fault_msg), cf) /\ out_bytes cf = out_bytes c.
Proof. exact say_after_fault. Qed.

(** each listen consumes exactly one input line, delivered without its terminator (the rest of the
    input, possibly empty, at end of input), and does not touch the output *)
Theorem C08_listen_consumes_one_line :
  forall c ln c', chan_input c = Ok (ln, c') ->
  (in_rest c = ln ++ [10%N] ++ in_rest c' \/ (in_rest c = ln /\ in_rest c' = [])) /\
  ~ In 10%N ln /\ out_bytes c' = out_bytes c /\ out_budget c' = out_budget c /\ in_fault c' = in_fault c.
Proof. exact listen_consumes_one_line. Qed.

(** whatever the program does and wherever a stream fails: the bytes accepted by the writer only
    ever grow — everything written before a fault (or any runtime error) is intact, and nothing panics *)
Theorem C08_output_only_grows :
  forall prof fuel s xs e, wf e -> prex xs ->
  match exec_stmt prof fuel s xs e with
  | XOk _ e' | XErr _ e' => prefix_of (outp e) (outp e')
  | _ => True
  end.
Proof. exact output_preserved_stmt. Qed.

Theorem C08_no_crash_under_faults :
  forall prof fuel p c, match exec_program prof fuel p c with XPanic _ | XUB _ => False | _ => True end.
Proof. exact exec_no_crash. Qed.

(** whole runs: all the input and output of an execution — successful or stopped by an error — is a
    sequence of listen / say operations on the channels ([io_steps]: each step is one [chan_input] or one
    [chan_output]); nothing else in the interpreter touches them *)
Theorem C08_run_is_listens_and_says :
  forall prof fuel p c,
  match exec_program prof fuel p c with
  | XOk _ e' | XErr _ e' => exists tr, io_steps c tr (chan e')
  | _ => True
  end.
Proof. exact exec_program_io. Qed.

(** so, with no write fault, the output is exactly the lines said, whole and in order ... *)
Theorem C08_output_is_the_lines_said :
  forall c tr c', io_steps c tr c' -> no_fault tr = true ->
  out_bytes c' = out_bytes c ++ flat_map ev_line (outs tr).
Proof. exact trace_output. Qed.

(** ... with a fault, everything written before it is still there, in place ... *)
Theorem C08_output_survives_faults :
  forall c tr c', io_steps c tr c' -> exists more, out_bytes c' = out_bytes c ++ more.
Proof. exact trace_output_prefix. Qed.

(** ... and the input is consumed from the front, exactly one line per listen, in order *)
Theorem C08_input_consumed_by_lines :
  forall c tr c', io_steps c tr c' -> in_steps (in_rest c) (ins tr) (in_rest c').
Proof. exact trace_input. Qed.

Theorem C08_line_shape :
  forall s l r fnd, take_line s [] = (l, r, fnd) ->
  ~ In 10%N l /\ (if fnd then s = l ++ [10%N] ++ r else s = l /\ r = []).
Proof. exact line_shape. Qed.

(** one statement at a time: a `listen` (with a plain destination or none) consumes exactly one line whether or
    not it stores it; a `say` of a call-free expression writes exactly one line, the text of its value, and reads
    nothing *)
Theorem C08_listen_statement_consumes_one_line :
  forall prof f dest l xs e xs' e',
  (dest = None \/ exists i r, dest = Some (LIdent i r)) ->
  exec_stmt prof (S (S f)) (SInput dest l) xs e = XOk xs' e' ->
  exists ln c1, chan_input (chan e) = Ok (ln, c1) /\ chan e' = c1.
Proof. exact stmt_listen_consumes_one_line. Qed.

Theorem C08_say_statement_writes_one_line :
  forall prof f x xs e xs' e',
  pure_expr x = true -> exec_stmt prof (S f) (SOutput x) xs e = XOk xs' e' ->
  exists v txt, to_string_for_output v = Ok txt /\
    fst (chan_output txt (chan e)) = Ok (chan e') /\
    out_bytes (chan e') = out_bytes (chan e) ++ utf8_encode txt ++ [10%N] /\
    in_rest (chan e') = in_rest (chan e).
Proof. exact stmt_say_writes_one_line. Qed.

(** a writer with a byte budget [b] receives exactly the first [b] bytes of everything the program tried to write —
    the lines of its says, whole or refused, in order — never a byte more, and bytes received + budget left is constant *)
Theorem C08_output_is_truncation_of_attempts :
  forall c tr c', io_steps c tr c' -> forall b, out_budget c = Some b ->
  out_bytes c' = out_bytes c ++ firstn (N.to_nat b) (flat_map ev_line (attempted tr)) /\
  out_budget c' = Some (b - len (flat_map ev_line (attempted tr)))%N.
Proof. exact trace_budget. Qed.

Theorem C08_writer_budget_conserved :
  forall prof fuel p c b, out_budget c = Some b ->
  match exec_program prof fuel p c with
  | XOk _ e' | XErr _ e' =>
      exists k, out_budget (chan e') = Some k /\ (len (out_bytes (chan e')) + k = len (out_bytes c) + b)%N
  | _ => True
  end.
Proof. exact run_budget_conserved. Qed.

(** without a budget nothing is refused: the output is all the lines said *)
Theorem C08_unlimited_writer_takes_everything :
  forall c tr c', io_steps c tr c' -> out_budget c = None ->
  out_bytes c' = out_bytes c ++ flat_map ev_line (attempted tr) /\ no_fault tr = true /\ out_budget c' = None.
Proof. exact trace_unlimited. Qed.

(** the reader: the position advances by exactly the bytes taken from the front of the input, and no byte at or beyond
    the fault position is ever delivered *)
Theorem C08_reader_never_passes_fault :
  forall prof fuel p c r, in_fault c = Some r -> (in_pos c <= r)%N ->
  match exec_program prof fuel p c with
  | XOk _ e' | XErr _ e' =>
      (in_pos (chan e') <= r)%N /\ (in_pos (chan e') + byte_len (in_rest (chan e')) = in_pos c + byte_len (in_rest c))%N
  | _ => True
  end.
Proof. exact run_reader_never_passes_fault. Qed.

Print Assumptions C08_listen_consumes_one_line.
Print Assumptions C08_run_is_listens_and_says.
Print Assumptions C08_input_consumed_by_lines.
Print Assumptions C08_say_statement_writes_one_line.
Print Assumptions C08_writer_budget_conserved.
Print Assumptions C08_reader_never_passes_fault.
