(** C06 — Arrays are independent values with queue and dictionary behaviour.
    Statements only; proofs in Proofs/ArrayLaws.v. *)
From Coq Require Import List ZArith NArith Bool.
From RRSS Require Import Base.Outcome Base.Chars Base.F64 Base.F64Text Exec.Val Exec.Ops Front.Ast Exec.Env Exec.Interp Proofs.ArrayLaws Proofs.InterpPure.
Import ListNotations.
Open Scope N_scope.

(** writing at an index beyond the end extends the sequence with mysterious; the dictionary, and
    every other cell, is untouched *)
Theorem C06_write_extends_with_mysterious :
  forall a d n nv, f_to_usize n < size_budget ->
  exists a', assign_at (VArr a d) (VNum n) nv = Ok (VArr a' d) /\
             len a' = N.max (len a) (f_to_usize n + 1) /\
             (forall j, len a <= j -> j < len a' -> j <> f_to_usize n -> nth_N a' j = Some VUndef) /\
             (forall j, j < len a -> j <> f_to_usize n -> nth_N a' j = nth_N a j).
Proof. exact write_extends_with_mysterious. Qed.

Theorem C06_read_after_write_numeric :
  forall a d n nv, f_to_usize n < size_budget ->
  (let* v' := assign_at (VArr a d) (VNum n) nv in v_index v' (VNum n)) = Ok nv.
Proof. exact read_after_write_numeric. Qed.

(** the dictionary is keyed by non-numeric scalars *)
Theorem C06_read_after_write_dict :
  forall a d k dk nv, dkey_of k = Some dk ->
  (let* v' := assign_at (VArr a d) k nv in v_index v' k) = Ok nv.
Proof. exact read_after_write_dict. Qed.

Theorem C06_write_dict_frame :
  forall a d k dk nv, dkey_of k = Some dk ->
  exists d', assign_at (VArr a d) k nv = Ok (VArr a d') /\
             forall k2, dkey_eqb k2 dk = false -> dict_get k2 d' = dict_get k2 d.
Proof. exact write_dict_frame. Qed.

Theorem C06_read_missing_is_mysterious :
  forall a d n, len a <= f_to_usize n -> v_index (VArr a d) (VNum n) = Ok VUndef.
Proof. exact read_missing_is_mysterious. Qed.

Theorem C06_read_missing_key_is_mysterious :
  forall a d k dk, dkey_of k = Some dk -> dict_get dk d = None -> v_index (VArr a d) k = Ok VUndef.
Proof. exact read_missing_key_is_mysterious. Qed.

(** rock appends, turning a scalar into a one-element array first *)
Theorem C06_rock_appends : forall a d vs, v_push (VArr a d) vs = Ok (VArr (a ++ vs) d).
Proof. exact rock_appends. Qed.

Theorem C06_rock_coerces_scalar :
  forall v vs, is_arr v = false -> v <> VUndef -> v_push v vs = Ok (VArr (v :: vs) []).
Proof. exact rock_coerces_scalar. Qed.

(** roll removes and yields the first element: rocks followed by rolls are a FIFO queue *)
Theorem C06_rock_then_roll_fifo :
  forall a d vs, (let* v := v_push (VArr a d) vs in roll_n (length (a ++ vs)) v) = Ok (VArr [] d, a ++ vs).
Proof. exact rock_then_roll_fifo. Qed.

Theorem C06_roll_empty_is_mysterious : forall d, v_pop (VArr [] d) = Ok (VArr [] d, VUndef).
Proof. exact roll_empty_is_mysterious. Qed.

(** printed, compared with a number or used in arithmetic, an array counts as its length *)
Theorem C06_array_prints_length :
  forall a d, to_string_for_output (VArr a d) = Ok (f64_display (f_of_N (len a))).
Proof. exact array_prints_length. Qed.

Theorem C06_array_arith_is_length :
  forall a d b, is_str b = false -> b <> VNull ->
  v_plus (VArr a d) b = v_plus (VNum (f_of_N (len a))) (v_decay b) /\
  v_subtract (VArr a d) b = v_subtract (VNum (f_of_N (len a))) (v_decay b) /\
  v_divide (VArr a d) b = v_divide (VNum (f_of_N (len a))) (v_decay b).
Proof. exact array_arith_is_length. Qed.

Theorem C06_array_compares_as_length :
  forall a d b, match b with VNum _ | VNull | VUndef => True | _ => False end ->
  v_equals (VArr a d) b = v_equals (VNum (f_of_N (len a))) (match b with VNull => VNum fzero | _ => b end) /\
  v_compare (VArr a d) b = match v_compare (VNum (f_of_N (len a))) (match b with VNull => VNum fzero | _ => b end) with
                           | Err (InvalidComparison _ _) => Err (InvalidComparison (VArr a d) b)
                           | r => r
                           end.
Proof. exact array_compares_as_length. Qed.

(** indexing something that is not indexable, or with an array as key, is an error *)
Theorem C06_not_indexable_error :
  forall v k, match v with VStr _ | VArr _ _ => False | _ => True end -> v_index v k = Err (NotIndexable v).
Proof. exact not_indexable_error. Qed.

Theorem C06_array_key_error :
  forall a d ka kd,
  v_index (VArr a d) (VArr ka kd) = Err (InvalidKey (VArr ka kd)) /\
  forall nv, assign_at (VArr a d) (VArr ka kd) nv = Err (InvalidKey (VArr ka kd)).
Proof. exact array_key_error. Qed.

(** copies are independent: a store into one variable never changes what another variable holds
    (model values are immutable; that the Rust copies made through Rc are independent is tied by the
    EXEC array-history suite, not proved) *)
Theorem C06_store_other_variable_unchanged :
  forall n m v ss, varname_eqb (lower_name n) (lower_name m) = false ->
  find_var n (store_var m v ss) = find_var n ss.
Proof. exact store_other_variable_unchanged. Qed.

(** copies are independent: a statement that writes through one variable (rock, roll, a subscript write, any
    mutation — with call-free operands) leaves every other variable exactly as it was, in particular the variable a
    copy was taken from; and evaluating a call-free expression changes no variable at all *)
Theorem C06_mutating_one_variable_leaves_the_others :
  forall prof f s xs e xs' e' n,
  frame_ok n s = true -> exec_stmt prof f s xs e = XOk xs' e' -> find_var n (scopes e') = find_var n (scopes e).
Proof. exact assignment_frame. Qed.

Example C06_frame_example :
  let a := Simple (lit "a") in let b := Simple (lit "b") in
  let r := mkRange (mkLoc 1 0) (mkLoc 1 1) in
  frame_ok a (SPush (PIdent (IVar b) r) (Some (PushList (EPrimary (PLit (LNumber (f_of_Z 1)) r)) []))) = true /\
  frame_ok a (SPop (PIdent (IVar b) r) None) = true /\
  frame_ok a (SAssign (LSubscript (PIdent (IVar b) r) (PLit (LNumber (f_of_Z 0)) r)) (EPrimary (PIdent (IVar a) r)) [] None) = true /\
  frame_ok a (SPush (PIdent (IVar a) r) None) = false.
Proof. vm_compute. repeat split; reflexivity. Qed.

Print Assumptions C06_write_extends_with_mysterious.
Print Assumptions C06_rock_then_roll_fifo.
Print Assumptions C06_store_other_variable_unchanged.
Print Assumptions C06_mutating_one_variable_leaves_the_others.
