(** C11 — Poetic literals denote the number or string their words spell.
    Statements only; proofs in Proofs/PoeticLaws.v. *)
From Coq Require Import List ZArith NArith Bool QArith Qpower.
From RRSS Require Import Base.Outcome Base.Chars Base.F64 Front.Ast Front.Token Front.Lexer Front.Poetic Front.Parser Proofs.PoeticLaws Proofs.ParseSafe Proofs.FloatExact.
Import ListNotations.

(** In exact arithmetic the algorithm of PoeticNumberLiteral::compute_value (the same generic
    definition that is instantiated with f64 operations for execution) yields the decimal numeral
    whose digits are the word lengths modulo 10 ([poetic_digits]: apostrophes not counted,
    hyphenated and apostrophe-suffixed parts counted with their word, periods and commas yielding no
    digit), with the decimal point after the digits that precede the first period. *)
Theorem C11_poetic_value_exact :
  forall elems,
  (compute_value_gen (fun d => inject_Z (Z.of_N d)) Qmult Qplus (fun n => Qpower 10 n) 0 elems ==
   inject_Z (number (poetic_digits elems)) *
   Qpower 10 (poetic_int_digits elems - Z.of_nat (length (poetic_digits elems))))%Q.
Proof. exact poetic_value_exact. Qed.

(** without a period: exactly the integer (no rounding involved in integer arithmetic) *)
Theorem C11_poetic_integer_value :
  forall elems,
  poetic_int_digits elems = Z.of_nat (length (poetic_digits elems)) ->
  compute_value_gen Z.of_N Z.mul Z.add (fun n => 10 ^ n)%Z 0%Z elems = number (poetic_digits elems).
Proof. exact poetic_integer_value. Qed.

Theorem C11_word_len_skips_apostrophes :
  forall a b, word_len (a ++ [39%N] ++ b) = (word_len a + word_len b)%N.
Proof. exact word_len_skips_apostrophes. Qed.

Theorem C11_suffixed_word_counts_together :
  forall s ss, item_len (PISuffixed s ss) = fold_left (fun a x => (a + word_len x)%N) ss (word_len s).
Proof. exact suffixed_word_counts_together. Qed.

(** a right-hand side that starts with a literal word or a negative number is an ordinary expression *)
Theorem C11_rhs_literal_word_is_expression :
  forall prof fuel s t, current s = Some t -> is_literal_word (tid t) = true ->
  parse_poetic_number_rhs prof fuel s = (let* (e, s1) := parse_expression prof fuel s in Ok (PNExpr e, s1)).
Proof. exact poetic_rhs_literal_word_is_expression. Qed.

Theorem C11_rhs_negative_number_is_expression :
  forall prof fuel s t, current s = Some t -> is_literal_word (tid t) = false ->
  is_current_negative_number prof s = Ok true ->
  parse_poetic_number_rhs prof fuel s = (let* (e, s1) := parse_expression prof fuel s in Ok (PNExpr e, s1)).
Proof. exact poetic_rhs_negative_number_is_expression. Qed.

Theorem C11_rhs_otherwise_is_literal :
  forall prof fuel s t, current s = Some t -> is_literal_word (tid t) = false ->
  is_current_negative_number prof s = Ok false ->
  parse_poetic_number_rhs prof fuel s = (let* (el, s1) := parse_poetic_number_literal s in Ok (PNLit el, s1)).
Proof. exact poetic_rhs_otherwise_is_literal. Qed.

(** Non-vacuity: `a lovestruck ladykiller. ice-cold dream's end` : digits 1 0 0 . 8 6 3 = 100.863;
    the f64 instance prints 100.863 *)
(** ... exactly for integers: the f64 value the interpreter computes (repeated-squaring powi, products,
    a sum that starts from -0.0) for a literal without a period and with at most 15 digits is exactly the
    integer those digits spell (such integers are below 10^15 < 2^53).  Proved with Flocq (exact integer
    addition) and by evaluation of the 150 digit-times-power products. *)
Theorem C11_poetic_integer_exact :
  forall elems,
  poetic_int_digits elems = Z.of_nat (length (poetic_digits elems)) ->
  (1 <= length (poetic_digits elems) <= 15)%nat ->
  compute_value elems = f_of_Z (number (poetic_digits elems)).
Proof. exact poetic_integer_exact. Qed.

(** A poetic string literal is the exact text of the source after the `says` token and one space, up
    to the next line-break token (or the end of the source): over any token list of ordered slices of
    the buffer ([TI], what the lexer produces: C12), with [says] the token just consumed. *)
Theorem C11_poetic_string_exact :
  forall buf all, TI buf all ->
  forall says s0 s txt s1, SI all s0 -> SI all s ->
  (exists pt, toks s0 = pt :: toks s /\ pt_tok pt = says) ->
  parse_poetic_string_rhs buf says s = Ok (txt, s1) ->
  exists a rest, buf = a ++ tspell says ++ [32%N] ++ txt ++ rest /\ tstart says = byte_len a /\
    s1 = drop_until_newline s (length (toks s)) /\
    match current s1 with
    | Some e => tid e = TNewline /\ exists b', rest = tspell e ++ b'
    | None => rest = []
    end.
Proof. exact poetic_string_exact. Qed.

Example C11_example :
  let el := [PEWord (lit "a"); PEWord (lit "lovestruck"); PEWord (lit "ladykiller"); PEDot;
             PEWord (lit "ice"); PESuffix (lit "-cold"); PEWord (lit "dream"); PESuffix (lit "'s"); PEWord (lit "end")] in
  poetic_digits el = [1; 0; 0; 8; 6; 3]%N /\ poetic_int_digits el = 3%Z /\
  Base.F64Text.f64_display (compute_value el) = lit "100.863".
Proof. vm_compute. repeat split; reflexivity. Qed.

Print Assumptions C11_poetic_value_exact.
Print Assumptions C11_poetic_string_exact.
Print Assumptions C11_poetic_integer_exact.
