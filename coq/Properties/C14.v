(** C14 — Equality, ordering and logic obey their algebraic laws on all values.
    Only statements, closed by [exact]; the proofs live in Proofs/ValLaws.v. *)
From Coq Require Import List ZArith NArith Bool.
From RRSS Require Import Base.Outcome Base.Chars Base.F64 Exec.Val Exec.Ops Proofs.ValInd Proofs.ValLaws Proofs.FloatExact Proofs.InterpWf.
From RRSS Require Import Front.Ast Exec.Env Exec.Interp.
Import ListNotations.

(** [a is b] = [b is a], for all values whose dictionaries have distinct keys (every value the
    interpreter can build: [C14_runtime_values_wellformed] below, proved in Proofs/InterpWf.v). *)
Theorem C14_equals_sym :
  forall a b, wf_val a -> wf_val b -> v_equals a b = v_equals b a.
Proof. exact equals_sym. Qed.

Theorem C14_equals_op_sym :
  forall a b, wf_val a -> wf_val b -> binop_apply OpEq a b = binop_apply OpEq b a.
Proof. exact equals_op_sym. Qed.

(** [a isnt b] / [a is not b] (both parse to NotEq) is the negation of [a is b]. *)
Theorem C14_noteq_is_negation :
  forall a b, binop_apply OpNotEq a b = rmap vnot (binop_apply OpEq a b).
Proof. exact noteq_is_negation. Qed.

(** [compare] in the other direction is the opposite ordering; it is an error exactly when the
    first direction is (the error names the operands in the order given). *)
Theorem C14_compare_swap :
  forall a b,
    v_compare b a =
    match v_compare a b with
    | Ok o => Ok (option_map CompOpp o)
    | Err e => Err (flip_err e)
    | r => r
    end.
Proof. exact compare_swap. Qed.

Theorem C14_less_greater_dual :
  forall a b, binop_apply OpGreater b a = map_err flip_err (binop_apply OpLess a b).
Proof. exact less_greater_dual. Qed.

Theorem C14_leq_geq_dual :
  forall a b, binop_apply OpGreaterEq b a = map_err flip_err (binop_apply OpLessEq a b).
Proof. exact leq_geq_dual. Qed.

Theorem C14_compare_error_sym :
  forall a b, is_err (v_compare a b) = is_err (v_compare b a).
Proof. exact compare_error_sym. Qed.

(** when [compare] does not fail, [a <= b and a >= b] coincides with equality *)
Theorem C14_leq_and_geq_is_equals :
  forall a b o, v_compare a b = Ok o -> v_equals a b = Ok (ord_is not_gt o && ord_is not_lt o).
Proof. exact leq_and_geq_is_equals. Qed.

Theorem C14_logic_truthiness :
  forall a b,
    binop_apply OpAnd a b = Ok (VBool (is_truthy a && is_truthy b)) /\
    binop_apply OpOr a b = Ok (VBool (is_truthy a || is_truthy b)) /\
    binop_apply OpNor a b = Ok (VBool (negb (is_truthy a || is_truthy b))) /\
    unop_apply UNot a = Ok (VBool (negb (is_truthy a))).
Proof. exact logic_truthiness. Qed.

Theorem C14_inc_dec_restores_bool :
  forall b k, (let* v := v_inc (VBool b) k in v_inc v (- k)%Z) = Ok (VBool b).
Proof. exact inc_dec_restores_bool. Qed.

(** ... and for numbers: every integer of magnitude below 2^53 (these are exactly represented) is restored by
    the opposite step, and by n knock-downs after n build-ups, as long as the values passed through stay
    below 2^53.  (Proved with Flocq: f64 addition of integers whose sum is below 2^53 is exact.) *)
Theorem C14_inc_dec_restores_int :
  forall a k, (Z.abs a < 2 ^ 53)%Z -> (Z.abs k < 2 ^ 53)%Z -> (Z.abs (a + k) < 2 ^ 53)%Z ->
  (let* v := v_inc (VNum (f_of_Z a)) k in v_inc v (- k)%Z) = Ok (VNum (f_of_Z a)).
Proof. exact inc_dec_restores_int. Qed.

Theorem C14_build_knock_restores_int :
  forall a n, (Z.abs a + Z.of_nat n < 2 ^ 53)%Z ->
  (let* v := iter_inc n 1 (VNum (f_of_Z a)) in iter_inc n (-1) v) = Ok (VNum (f_of_Z a)).
Proof. exact build_knock_restores_int. Qed.

Theorem C14_build_knock_restores_bool :
  forall b n, (let* v := iter_inc n 1 (VBool b) in iter_inc n (-1) v) = Ok (VBool b).
Proof. exact build_knock_restores_bool. Qed.

(** Non-vacuity: a nested array with a dictionary meets [wf_val], and the laws compute on it. *)
Example C14_wf_example :
  let a := VArr [VNum fone; VArr [] [(KStr (lit "k"), VNull)]] [(KUndef, VBool true); (KStr (lit "x"), VStr (lit "y"))] in
  wf_val a /\ v_equals a a = Ok true /\ v_equals a (VNum (f_of_Z 2)) = Ok true.
Proof.
  cbv zeta. split; [|split]; [|vm_compute; reflexivity|vm_compute; reflexivity].
  cbn. repeat split; repeat constructor; cbn; intuition discriminate.
Qed.

(** The side condition of the first two laws is met by every value a program can compute: the
    interpreter keeps every variable and every result well formed, from the initial environment on
    ([env_init_wf]), so in a run equality is symmetric without qualification. *)
Theorem C14_runtime_values_wellformed :
  forall prof f x e a e1, wf_env e -> produce_expr prof f x e = XOk a e1 -> wf_val a /\ wf_env e1.
Proof. exact produce_expr_wf. Qed.

Theorem C14_program_states_wellformed :
  forall prof fuel p c, WInv wf_x (exec_program prof fuel p c).
Proof. exact exec_program_wf. Qed.

Theorem C14_runtime_equality_symmetric :
  forall prof f1 f2 x y e a e1 b e2,
  wf_env e -> produce_expr prof f1 x e = XOk a e1 -> produce_expr prof f2 y e1 = XOk b e2 ->
  v_equals a b = v_equals b a /\ binop_apply OpEq a b = binop_apply OpEq b a.
Proof. exact runtime_equality_symmetric. Qed.


Print Assumptions C14_equals_sym.
Print Assumptions C14_compare_swap.
Print Assumptions C14_leq_and_geq_is_equals.

Print Assumptions C14_build_knock_restores_int.
Print Assumptions C14_runtime_equality_symmetric.
Print Assumptions C14_program_states_wellformed.
