(** C20 — The command-line tool behaves exactly like the library on the same file.
    The model takes the library's results as data; these theorems say how they are routed.
    The weight of this property is on the correspondence (the real binary run as a process
    against the library called on the same text): see DESIGN.md. *)
From Coq Require Import List NArith.
From RRSS Require Import Base.Chars Lint.Lint Cli.Cli Proofs.CliLaws.
Import ListNotations.

Theorem C20_cli_exec_stdout : forall out r, c_stdout (cli_exec out r) = out.
Proof. exact cli_exec_stdout. Qed.

Theorem C20_cli_exec_errors_to_stderr :
  forall out m,
  c_stderr (cli_exec out (LibParseError m)) = lit "Parse error: " ++ m ++ nl /\
  c_stderr (cli_exec out (LibRuntimeError m)) = lit "Runtime error: " ++ m ++ nl /\
  c_stderr (cli_exec out LibOk) = [].
Proof. exact cli_exec_errors_to_stderr. Qed.

Theorem C20_cli_lint_routes :
  forall r ds,
  match r with
  | LibParseError m => c_stdout (cli_lint r ds) = [] /\ c_stderr (cli_lint r ds) = lit "Parse error: " ++ m ++ nl
  | _ => c_stderr (cli_lint r ds) = [] /\
         c_stdout (cli_lint r ds) = match ds with [] => lit "No lint issues found :)" | _ => flat_map cli_diag ds end
  end.
Proof. exact cli_lint_routes. Qed.

Theorem C20_cli_parse_routes :
  forall r t,
  match r with
  | LibParseError m => c_stdout (cli_parse r t) = [] /\ c_stderr (cli_parse r t) = lit "Parse error: " ++ m ++ nl
  | _ => c_stdout (cli_parse r t) = t ++ nl /\ c_stderr (cli_parse r t) = []
  end.
Proof. exact cli_parse_routes. Qed.

Theorem C20_cli_failure_nonzero : forall msg, c_exit (cli_failure msg) <> 0%N.
Proof. exact cli_failure_nonzero. Qed.

Print Assumptions C20_cli_exec_stdout.
