(** C09 — Running any parseable program never crashes the interpreter.
    Statements only; the proof is the global invariant of Proofs/InterpInv.v. *)
From Coq Require Import List ZArith NArith Bool.
From RRSS Require Import Base.Outcome Base.Chars Base.F64 Exec.Val Exec.Ops Front.Ast Exec.Env Exec.Interp Exec.RtErrorText.
From RRSS Require Import Front.Token Front.Lexer Front.Parser Front.ParseErrorText Proofs.InterpInv Proofs.InterpLaws Proofs.EndToEnd.
From RRSS Require Import Proofs.FuelMono.
Import ListNotations.

(** For EVERY syntax tree (parser-accepted or not), both build profiles (the debug profile turns
    every debug_assert! of exec_stmt.rs / environment.rs into a crash outcome of the model), every
    input text, every reader fault position and writer budget, and every amount of fuel: execution
    ends in success, a runtime error, or the model's step/size/depth budget — never in one of the
    panic / unchecked-unsafe sites (unwrap, unchecked_unwrap, unreachable_unchecked, unreachable!,
    debug_assert!, inner!) that the model carries as explicit outcomes. *)
Theorem C09_exec_no_crash :
  forall prof fuel p c, match exec_program prof fuel p c with XPanic _ | XUB _ => False | _ => True end.
Proof. exact exec_no_crash. Qed.

(** from source text to the end of the run: every source shorter than 4 GiB either fails to parse with an
    error that renders, or parses to a program whose execution (any input, any faults, any fuel) never
    reaches a crash site — in both profiles; the front end itself never crashes or runs out of fuel (C01) *)
Theorem C09_whole_pipeline_safe :
  forall prof src fuel c, (byte_len src < u32_limit)%N ->
  match parse prof src with
  | ParseOk p => match exec_program prof fuel p c with XPanic _ | XUB _ => False | _ => True end
  | ParseErr e => exists text, parse_error_display e = Ok text
  | ParseCrash _ _ | ParseOutOfFuel => False
  end.
Proof. exact whole_pipeline_safe. Qed.

Theorem C09_exec_stmt_no_crash :
  forall prof fuel s xs e, wf e -> prex xs ->
  match exec_stmt prof fuel s xs e with XPanic _ | XUB _ => False | _ => True end.
Proof. exact exec_stmt_no_crash. Qed.

Theorem C09_produce_expr_no_crash :
  forall prof fuel x e, wf e -> match produce_expr prof fuel x e with XPanic _ | XUB _ => False | _ => True end.
Proof. exact produce_expr_no_crash. Qed.

(** the invariant itself: depth of the scope stack, growth of the output, flag discipline *)
Theorem C09_exec_program_inv :
  forall prof fuel p c, Inv Qx (env_init c) (exec_program prof fuel p c).
Proof. exact exec_program_inv. Qed.

(** the message of every runtime error renders: [rt_error_display] is a total function *)
Theorem C09_runtime_error_renders : forall e : rt_error, exists txt, rt_error_display e = txt.
Proof. exact runtime_error_renders. Qed.

(** Non-vacuity: ill-typed programs that used to crash the real interpreter are runtime errors of
    the model: a function name used as a write target, a radix of 1, break at top level twice. *)
Example C09_example :
  let r := mkRange (mkLoc 1 0) (mkLoc 1 1) in
  let f := Simple (lit "F") in
  let num z := EPrimary (PLit (LNumber (f_of_Z z)) r) in
  let c := mkChan [] 0%N None [] None in
  (exists e, exec_program Debug 50 [BNonEmpty [SFunction f r [(Simple (lit "X"), r)] (BNonEmpty [SReturn (num 1%Z)]);
                                               SAssign (LIdent (IVar f) r) (num 5%Z) [] None]] c
             = XErr (REnv (SymTableError (DuplicateSymbol f))) e) /\
  (exists e, exec_program Release 50 [BNonEmpty [SBreak r]; BNonEmpty [SBreak r]] c = XOk (mkX Breaking None) e).
Proof. cbv zeta. split; vm_compute; eexists; reflexivity. Qed.

(** the statements above are "for every fuel"; fuel itself never changes an outcome: once a run has one,
    every larger fuel gives the same *)
Theorem C09_fuel_irrelevant :
  forall prof f f' p c, (f <= f')%nat -> exec_program prof f p c <> XOutOfFuel ->
  exec_program prof f' p c = exec_program prof f p c.
Proof. exact exec_program_fuel_irrelevant. Qed.

Print Assumptions C09_exec_no_crash.
Print Assumptions C09_fuel_irrelevant.
