(** C19 — statements only; see Proofs/. *)
From RRSS Require Import Base.Outcome.
