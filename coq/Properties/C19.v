(** C19 — Lint reports are complete, ordered by line, and linting never fails.
    Statements only; proofs in Proofs/LintLaws.v. *)
From Coq Require Import List ZArith NArith Bool Sorting.Permutation Sorting.Sorted.
From RRSS Require Import Base.Outcome Base.Chars Base.F64 Base.F64Text Front.Ast Lint.Lint Proofs.LintLaws Proofs.LintTotal.
From Coq Require Import Floats.SpecFloat.
From RRSS Require Import Proofs.DigitBound Proofs.DigitLaws.
From RRSS Require Import Proofs.FloatValid Proofs.LintValid.
From RRSS Require Import Front.Token Front.Lexer Front.Parser Proofs.LintSource.
Import ListNotations.

(** the diagnostics returned are ordered by line *)
Theorem C19_lint_sorted :
  forall p ds, lint p = Ok ds -> StronglySorted line_le ds.
Proof. exact lint_sorted. Qed.

(** they are exactly the diagnostics of both passes (nothing lost or invented), and within one
    line they keep pass order: first the constant-assignment pass, then the repeated-identifier pass,
    each in traversal order *)
Theorem C19_lint_complete_stable :
  forall p ds a, lint p = Ok ds -> boring_program p = Ok a ->
    Permutation (a ++ missed_program p) ds /\
    forall n, filter (on_line n) ds = filter (on_line n) a ++ filter (on_line n) (missed_program p).
Proof. exact lint_complete_stable. Qed.

(** the repeated-identifier pass reports mention i exactly when it is a variable mention (not the
    name of a called function) spelling the same name as mention i-1 in traversal order, at the
    line of that mention ([missed_spec] / [report_at] / [missed_diag] say precisely this) *)
Theorem C19_missed_run_spec :
  forall ms last, missed_run ms last = missed_spec last ms.
Proof. exact missed_run_spec. Qed.

Theorem C19_sort_stable :
  forall n l, filter (on_line n) (sort_diags l) = filter (on_line n) l.
Proof. exact sort_diags_stable. Qed.

(** linting never fails: for every syntax tree the linter returns its diagnostics.  It has no error
    path, and its one failure site (the digit arithmetic of the poetic template) is unreachable because
    the printed text of a non-negative finite number consists of digits and periods only.  [fine r] is
    [r = Ok _] or the model's own size budget ([OverBudget], a template of more than 100000 stars; the
    implementation's digits are 0..9, a bound that is not proved here). *)
Theorem C19_lint_total : forall p, fine (lint p).
Proof. exact lint_total. Qed.

Theorem C19_display_digits :
  forall v, has_poetic_spelling v = true -> forallb digitish (f64_display v) = true.
Proof. exact display_digits. Qed.

(** for numbers of the binary64 range neither failure site of the linter (the digit underflow, the model's size
    budget) is reachable: the printed text consists of 0-9 and the period, and the diagnostic is produced *)
Theorem C19_display_decimal :
  forall v, f_in_range v -> match v with S754_zero false | S754_finite false _ _ => True | _ => False end ->
  forallb decimal_char (f64_display v) = true.
Proof. exact display_decimal. Qed.

Theorem C19_numeric_diag_ok :
  forall pre sep var v ln, f_in_range v -> exists ds, numeric_diag pre sep var v ln = Ok ds.
Proof. exact numeric_diag_ok. Qed.

(** joined: number literals are what [f64_parse] returns — binary64 data —, the folder's operations keep
    binary64 data, such data print as decimal text: for every syntax tree whose number literals are binary64
    data the linter returns its diagnostics, with no budget and no failure left in the statement *)
Theorem C19_number_literals_are_binary64 :
  forall s v, f64_parse s = Some v -> fvalid v.
Proof. exact f64_parse_valid. Qed.

Theorem C19_lint_returns_diagnostics :
  forall p, Forall lv_block p -> exists ds, lint p = Ok ds.
Proof. exact lint_ok. Qed.

(** end to end: whatever the source text, if the parser accepts it the linter returns its diagnostics — no
    error path, no underflow, no budget (lexer: number tokens carry parsed numerals; parsed numerals are binary64
    data; the grammar copies literals from tokens; the folder keeps binary64 data; binary64 data print as decimal
    digits) *)
Theorem C19_lint_source_total :
  forall prof src p, parse prof src = ParseOk p -> exists ds, lint p = Ok ds.
Proof. exact lint_source_total. Qed.

Print Assumptions C19_lint_total.
Print Assumptions C19_lint_sorted.
Print Assumptions C19_lint_complete_stable.
Print Assumptions C19_numeric_diag_ok.
Print Assumptions C19_lint_returns_diagnostics.
Print Assumptions C19_lint_source_total.
