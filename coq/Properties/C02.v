(** C02 — Every spelling of a program parses to the same syntax tree.
    Statements only; proofs in Proofs/ParseSound.v, GrammarLaws.v, LiteralLaws.v.
    The grammar itself is Front/Grammar.v. *)
From Coq Require Import List ZArith NArith Bool.
From RRSS Require Import Base.Outcome Base.Chars Base.F64 Base.F64Text Exec.Ops Front.Ast Front.Token Front.Lexer Front.Parser Front.Grammar.
From RRSS Require Import Proofs.ParseSound Proofs.GrammarLaws Proofs.LiteralLaws.
From RRSS Require Import Proofs.LexNumbers.
From RRSS Require Import Proofs.ParseLayout.
From RRSS Require Import Proofs.LexKeywords.
From RRSS Require Import Proofs.LexPayloads.
From RRSS Require Import Proofs.ParseFacts.
Import ListNotations.
Open Scope N_scope.

(** Whatever expression tree the parser returns — in either profile, for any fuel, from any state —
    is a tree the declarative grammar [g] assigns, at the loosest level, to exactly the tokens it
    consumed.  The grammar is insensitive to positions, so trees are determined up to source ranges
    by the sequence of token types and name spellings: keyword alias, letter case, whitespace,
    ignorable punctuation and comments are gone before the grammar is consulted (C12, C15 and
    [C02_keyword_alias_any_case] below). *)
Theorem C02_expression_in_grammar :
  forall prof f s e s', parse_expression prof f s = Ok (e, s') ->
    exists ts, ptoks s = ts ++ ptoks s' /\ g 5 ts e.
Proof. exact parse_expression_sound. Qed.

(** The same for whole programs: whatever [parse] accepts is a program of the declarative grammar
    ([g_program]: blocks of statements, each of the 18+ statement forms with its optional words, a
    statement ended by an optional , or . and a line break, a blank line closing a block, `else`
    attached to the open `if`, function bodies) over exactly the comment-free token list of the source. *)
Theorem C02_program_in_grammar :
  forall prof src p, parse prof src = ParseOk p ->
    exists pts, lex prof src = Ok pts /\ g_program (map pt_tok (drop_comments pts)) p.
Proof. exact parse_sound. Qed.

(** ... and the grammar's trees obey the precedence ladder
    logical(5) < comparison(4) < term(3) < factor(2) < unary(1): the left operand of an operator binds
    at least as tightly as the operator (chains nest to the left: left associativity), every right
    operand, including every further element of a list operand, binds strictly tighter *)
Theorem C02_grammar_levels : forall L ts e, g L ts e -> levels_ok L e.
Proof. exact g_levels. Qed.

(** every alias of the keyword table, spelled in any letter case, is its token type *)
Theorem C02_keyword_alias_any_case :
  forall a ty w, In (a, ty) keywords -> str_to_lowercase w = str_to_lowercase a -> match_keyword w = Some ty.
Proof. exact keyword_alias_any_case. Qed.

(** a number token's value is the value of its text; a string literal's payload is exactly the text
    between its quotes *)
Theorem C02_number_literal_value :
  forall prof lx s0 start r stg, scan_number prof lx s0 start = Ok (Some (r, stg)) -> payload_ok (lr_token r).
Proof. exact scan_number_payload. Qed.

Theorem C02_string_literal_exact :
  forall prof lx c after start r stg,
    scan_delimited prof lx (c :: after) start 34 TStringLiteral (lit "Unterminated string literal") = Ok (r, stg) ->
    c = 34 -> byte_len (c :: after) < u32_limit * u32_limit -> payload_ok (lr_token r).
Proof. exact string_literal_payload. Qed.

(** Non-vacuity: `1 + 2 * 3, 4 and 5 is 6` in two spellings gives the same tree, which has the shape the
    ladder dictates; the list attaches to the innermost operator. *)
Example C02_example :
  let strip := fun r => match r with ParseOk [BNonEmpty [SOutput e]] => Some e | _ => None end in
  let n := fun k => EPrimary (PLit (LNumber (f_of_Z k)) (mkRange (mkLoc 0 0) (mkLoc 0 0))) in
  match strip (parse Debug (lit "say 1 + 2 * 3, 4 and 5 is 6")), strip (parse Release (lit "SHOUT 1 with 2 of 3, and 4 AND 5's 6")) with
  | Some e1, Some e2 =>
      levels_ok 5 e1 /\ levels_ok 5 e2 /\
      match e1, e2 with
      | EBinary OpAnd (EBinary OpPlus _ (EBinary OpMultiply _ _ [_]) []) (EBinary OpEq _ _ []) [],
        EBinary OpAnd (EBinary OpPlus _ (EBinary OpMultiply _ _ [_]) []) (EBinary OpEq _ _ []) [] => True
      | _, _ => False
      end
  | _, _ => False
  end.
Proof. vm_compute. repeat split; try exact I; repeat constructor. Qed.

(** ... and this holds for every number token of every source at once: its value is a parsed numeral *)
Theorem C02_number_tokens_carry_numerals :
  forall prof src pts, lex prof src = Ok pts -> Forall (fun pt => num_ok (pt_tok pt)) pts.
Proof. exact lex_numbers. Qed.

(** the layout half of the property: the tree depends on the sequence of tokens — kinds and spellings — only.
    However the two sources arrange whitespace, ignorable punctuation, comments and line layout between the same
    tokens (byte offsets, ranges, line numbers and lexer post-states all differ), the parser returns trees that are
    equal after erasing source positions, or rejects both.  Poetic strings are raw text: [tksim] asks that the raw
    text after a `says` token up to the end of its line agrees, [say_texts_agree] the same for a `say` token that is
    not the first token of its line (the only place where the parser takes `say` for `says`) *)
Theorem C02_tree_depends_on_tokens_only :
  forall prof src src' pts pts',
  lex prof src = Ok pts -> lex prof src' = Ok pts' ->
  tksim src src' (drop_comments pts) (drop_comments pts') ->
  say_texts_agree src src' (drop_comments pts) (drop_comments pts') ->
  same_parse (parse prof src) (parse prof src').
Proof. exact parse_layout_invariant. Qed.

(** when every `say` starts a line (decidable; true of every program that does not write `say` for `says`) the
    second condition is void *)
Theorem C02_tree_depends_on_tokens_only_say :
  forall prof src src' pts pts',
  lex prof src = Ok pts -> lex prof src' = Ok pts' ->
  tksim src src' (drop_comments pts) (drop_comments pts') ->
  say_starts_lines true (drop_comments pts) = true ->
  same_parse (parse prof src) (parse prof src').
Proof. exact parse_layout_invariant_say. Qed.

(** and for sources with neither `says` nor a `say` in the middle of a line, nothing but the tokens matters *)
Theorem C02_same_tokens_same_tree :
  forall prof src src' pts pts',
  lex prof src = Ok pts -> lex prof src' = Ok pts' ->
  Forall2 (fun pt pt' => tsim (pt_tok pt) (pt_tok pt')) (drop_comments pts) (drop_comments pts') ->
  Forall (fun pt => tid (pt_tok pt) <> TSays) (drop_comments pts) ->
  say_starts_lines true (drop_comments pts) = true ->
  same_parse (parse prof src) (parse prof src').
Proof. exact parse_layout_invariant_plain. Qed.

Theorem C02_token_relation_reflexive : forall b l, tksim b b l l.
Proof. exact tksim_refl. Qed.

Example C02_layout_example :
  lex Debug ex_a = Ok ex_pa /\ lex Debug ex_b = Ok ex_pb /\
  map pt_tok (drop_comments ex_pa) <> map pt_tok (drop_comments ex_pb) /\
  same_parse (parse Debug ex_a) (parse Debug ex_b) /\ exists p, parse Debug ex_a = ParseOk p.
Proof. exact layout_example. Qed.

(** the alias table is applied to whole sources: no word token of any lexed source spells a keyword — in any alias,
    in any letter case (the lookup folds case) — and the two word scanners give a word that the table knows exactly the
    table's kind *)
Theorem C02_keywords_are_never_names :
  forall prof src pts, lex prof src = Ok pts ->
  Forall (fun pt => tid (pt_tok pt) = TWord -> match_keyword (tspell (pt_tok pt)) = None) pts.
Proof. exact lex_words_are_not_keywords. Qed.

Theorem C02_keyword_scanner_kind :
  forall prof lx s0 start r, scan_keyword prof lx s0 start = Ok (Some r) ->
  match_keyword (tspell (lr_token r)) = Some (tid (lr_token r)).
Proof. exact scan_keyword_kind. Qed.

Theorem C02_word_scanner_kind :
  forall prof lx word b start e r stg, tokenize_word prof lx (word ++ b) start word e = Ok (r, stg) ->
  (match match_keyword (tspell (lr_token r)) with Some k => tid (lr_token r) = k | None => tid (lr_token r) = TWord end) /\
  wstg_ok stg.
Proof. exact tokenize_word_kind. Qed.

(** "Numbers and string literals denote exactly their written value", for all tokens of any source at once: a
    number token's value is the parse of its own spelling, a string token's payload is its spelling without the quotes *)
Theorem C02_literals_denote_their_written_value :
  forall prof src pts, lex prof src = Ok pts -> Forall (fun pt => payload_ok (pt_tok pt)) pts.
Proof. exact lex_payloads. Qed.

(** structural facts of every accepted program, read off the grammar: `build`/`knock` count at least one `up`/`down`,
    functions have at least one parameter and calls at least one argument, poetic number literals at least one word,
    non-empty blocks at least one statement *)
Theorem C02_accepted_programs_wellformed :
  forall prof src p, parse prof src = ParseOk p -> Forall ok_block p.
Proof. exact parse_wellformed. Qed.

Print Assumptions C02_expression_in_grammar.
Print Assumptions C02_program_in_grammar.
Print Assumptions C02_grammar_levels.
Print Assumptions C02_keyword_alias_any_case.
Print Assumptions C02_number_literal_value.
Print Assumptions C02_string_literal_exact.
Print Assumptions C02_tree_depends_on_tokens_only.
