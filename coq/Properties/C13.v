(** C13 — Syntax errors are rejected and attributed to the line they occur on.
    Statements only; proofs in Proofs/ParseSafe.v, ParseTotal.v (and C12's lexer theorems). *)
From Coq Require Import List ZArith NArith Bool.
From RRSS Require Import Base.Outcome Base.Chars Front.Ast Front.Token Front.Lexer Front.Parser Front.ParseErrorText.
From RRSS Require Import Proofs.LexCorollaries Proofs.ParseSafe Proofs.ParseTotal.
Import ListNotations.
Open Scope N_scope.

(** the line printed in a parse error is the start line of the token it points at *)
Theorem C13_error_line_is_token_line :
  forall e t, pe_loc e = PLTok t -> perr_line e = line (rstart (trange t)).
Proof. exact error_line_is_token_line. Qed.

(** every error of [parse] points at a token of the source's (comment-free) token list, or, when the
    input ended, at the line the lexer had reached after the last token *)
Theorem C13_error_located :
  forall prof src e, byte_len src < u32_limit -> parse prof src = ParseErr e ->
    exists pts, lex prof src = Ok pts /\
      match pe_loc e with
      | PLTok t => In t (map pt_tok (drop_comments pts))
      | PLLine n => n = line_after (drop_comments pts)
      end.
Proof. exact parse_error_located. Qed.

(** ... and the line reported for a token is its true line: one more than the number of line feeds
    before its first byte in the source *)
Theorem C13_error_token_true_line :
  forall prof src e t, byte_len src < u32_limit -> parse prof src = ParseErr e -> pe_loc e = PLTok t ->
    exists a b, src = a ++ tspell t ++ b /\ perr_line e = 1 + count_nl a.
Proof. exact parse_error_token_line. Qed.

(** an error "at end of input" names the true line of the last byte of the last non-comment token (1 if none) *)
Theorem C13_error_eof_line :
  forall prof src e n, byte_len src < u32_limit -> parse prof src = ParseErr e -> pe_loc e = PLLine n ->
    exists pts, lex prof src = Ok pts /\
      match rev (drop_comments pts) with
      | [] => n = 1
      | pt :: _ => n = pt_line pt /\ In pt pts /\ ptok_in src pt
      end.
Proof. exact parse_error_eof_line. Qed.

(** nothing is silently dropped: a program is returned only from a state with no tokens left *)
Theorem C13_accepted_consumes_all :
  forall prof buf fuel s acc p, parse_blocks prof buf fuel s acc = Ok p ->
    exists s', parse_blocks_st prof buf fuel s acc = Ok (p, s') /\ toks s' = [].
Proof. exact accepted_consumes_all. Qed.

(** the context-independent faults of the catalogue *)
Theorem C13_error_token_rejected :
  forall prof buf f s t m, current s = Some t -> tid t = TError m ->
    parse_statement prof buf (S f) s = Err (mkPE PUnexpectedToken (PLTok t)).
Proof. exact error_token_rejected. Qed.

Theorem C13_statement_must_end_line :
  forall s t, current (skip_opt (is_one_of [TComma; TDot]) s) = Some t -> ttype_eqb (tid t) TNewline = false ->
    expect_eol s = Err (mkPE (PExpectedToken TNewline) (PLTok t)).
Proof. exact expect_eol_rejects. Qed.

Theorem C13_second_statement_on_line_rejected :
  forall prof buf f inf s acc st s1 t,
    parse_statement prof buf f s = Ok (Some st, s1) ->
    inf && is_function_terminator st = false ->
    current (skip_opt (is_one_of [TComma; TDot]) s1) = Some t -> ttype_eqb (tid t) TNewline = false ->
    block_statements prof buf (S f) inf s acc = Err (mkPE (PExpectedToken TNewline) (PLTok t)).
Proof. exact second_statement_on_line_rejected. Qed.

Theorem C13_missing_operand_at_end :
  forall prof f s, toks s = [] ->
    parse_non_subscript_primary prof (S (S f)) s = Err (mkPE PExpectedPrimaryExpression (PLLine (pline s))).
Proof. exact missing_operand_at_end. Qed.

(** Non-vacuity: two statements on line 3 after a two-line comment; the error names line 3. *)
Example C13_example :
  match parse Debug (lit "(a" ++ [10] ++ lit "b)" ++ [10] ++ lit "say 1 say 2") with
  | ParseErr e => perr_line e = 3 /\ pe_code e = PExpectedToken TNewline
  | _ => False
  end.
Proof. vm_compute. split; reflexivity. Qed.

Print Assumptions C13_error_located.
Print Assumptions C13_error_token_true_line.
Print Assumptions C13_accepted_consumes_all.
