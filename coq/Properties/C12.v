(** C12 — Tokens carry their exact spelling and true source position.
    Statements only; proofs in Proofs/LexPos.v, LexSpec.v, LexStream.v, LexCorollaries.v. *)
From Coq Require Import List ZArith NArith Bool Sorting.Sorted.
From RRSS Require Import Base.Outcome Base.Chars Front.Ast Front.Token Front.Lexer.
From RRSS Require Import Proofs.LexPos Proofs.LexSpec Proofs.LexStream Proofs.LexCorollaries.
Import ListNotations.
Open Scope N_scope.

(** For every source shorter than 4 GiB (columns are u32 in the implementation; a longer source
    panics there and in the model), in both build profiles, the lexer returns a token list, and the
    source splits as  gap, token, gap, token, ..., gap  where every gap consists only of ignorable
    characters (whitespace other than the line feed, ASCII punctuation other than _ and ', stray
    apostrophes) and every token [t], found after the prefix [a] of the source, has
    [tstart t = byte_len a] and [trange t = tok_range a (tspell t) (tid t)]:
    start = (line, byte column) of its first byte, end = position just past its last byte on that
    byte's line; a Newline token ends at (line, column + 1).  Staged 's / 're suffix tokens and
    tokens after multi-line strings and comments are included: they are ordinary elements of the stream. *)
Theorem C12_lex_stream :
  forall prof src, byte_len src < u32_limit ->
    exists pts, lex prof src = Ok pts /\ stream [] src (map pt_tok pts).
Proof. exact lex_stream. Qed.

(** every token is a non-empty slice of the source, at its recorded offset, with its true range *)
Theorem C12_tokens_are_slices :
  forall pre s ts, stream pre s ts -> Forall (tok_in (pre ++ s)) ts.
Proof. exact stream_tokens. Qed.

(** tokens come in source order and do not overlap *)
Theorem C12_tokens_ordered :
  forall pre s ts, stream pre s ts -> StronglySorted tok_before ts.
Proof. exact stream_sorted. Qed.

(** the source is exactly gaps and spellings, alternating; gaps are ignorable (so no line feed is ever skipped) *)
Theorem C12_gaps_ignorable :
  forall pre s ts, stream pre s ts ->
    exists gaps, length gaps = S (length ts) /\ Forall (fun g => forallb ignorable g = true) gaps /\
      s = concat (map (fun p => fst p ++ tspell (snd p)) (combine gaps ts)) ++ last gaps [].
Proof. exact stream_concat. Qed.

Theorem C12_ignorable_is_not_newline : forall c, ignorable c = true -> c <> 10.
Proof. exact ignorable_not_nl. Qed.

(** every line feed of the source lies inside a token (gaps have none), and only line-break tokens, string
    literals, comments and unterminated-literal error tokens contain one: every newline outside strings and
    comments is a token *)
Theorem C12_newline_kinds :
  forall prof src pts, byte_len src < u32_limit -> lex prof src = Ok pts ->
    Forall (fun pt => no_nl (tspell (pt_tok pt)) = true \/ nl_kind (tid (pt_tok pt))) pts.
Proof. exact lex_newline_kinds. Qed.

(** the line the lexer reports after each token ([current_line()]) is the true line of the token's last byte *)
Theorem C12_post_line_true :
  forall prof src pts, byte_len src < u32_limit -> lex prof src = Ok pts -> Forall (ptok_in src) pts.
Proof. exact lex_post_lines. Qed.

(** what [pos_at] (used by [tok_range]) means: 1 + the number of preceding line feeds, and the offset just
    past the last of them *)
Theorem C12_line_is_true_line : forall pre, fst (pos_at pre) = 1 + count_nl pre.
Proof. exact pos_at_line. Qed.

Theorem C12_line_start_first_line : forall pre, no_nl pre = true -> snd (pos_at pre) = 0.
Proof. exact pos_at_line_start_first. Qed.

Theorem C12_line_start_after_break : forall a b, no_nl b = true -> snd (pos_at (a ++ 10 :: b)) = byte_len a + 1.
Proof. exact pos_at_line_start_after. Qed.

(** Non-vacuity: a two-line string literal followed by a suffix and a word on its last line. *)
Example C12_example :
  let src := lit "say ""a" ++ [10] ++ lit "b""'s x" in
  byte_len src < u32_limit /\
  match lex Debug src with
  | Ok pts => map (fun p => (tstart (pt_tok p), trange (pt_tok p))) pts =
      [(0, mkRange (mkLoc 1 0) (mkLoc 1 3)); (4, mkRange (mkLoc 1 4) (mkLoc 2 2));
       (9, mkRange (mkLoc 2 2) (mkLoc 2 4)); (12, mkRange (mkLoc 2 5) (mkLoc 2 6))]
  | _ => False
  end.
Proof. vm_compute. split; reflexivity. Qed.

(** the location the lexer reports after a token ([current_loc()]; the parser stamps empty blocks and `listen`
    statements without destination with it): the true position just past the token and the apostrophes swallowed
    with it — its line, and its byte offset within that line *)
Theorem C12_post_loc_true :
  forall prof src pts, byte_len src < u32_limit -> lex prof src = Ok pts -> Forall (ploc_in src) pts.
Proof. exact lex_post_locs. Qed.

Print Assumptions C12_lex_stream.
Print Assumptions C12_tokens_are_slices.
Print Assumptions C12_tokens_ordered.
Print Assumptions C12_gaps_ignorable.
Print Assumptions C12_line_is_true_line.
