(** C07 — Split, join, cast and rounding transform values exactly and only their target.
    Statements only; proofs in Proofs/StringLaws.v. *)
From Coq Require Import List ZArith NArith Bool.
From Coq Require Import Floats.SpecFloat.
From RRSS Require Import Base.Outcome Base.Chars Base.F64 Base.F64Text Exec.Val Exec.Ops Front.Ast Exec.Env Exec.Interp.
From RRSS Require Import Proofs.StringLaws Proofs.RoundLaws Proofs.InterpInv Proofs.InterpLaws Proofs.InterpPure.
Import ListNotations.

(** cut then join with the same delimiter (or none) restores the string: all strings, all delimiters *)
Theorem C07_join_split_roundtrip :
  forall s (d : option str),
  (let* a := v_split (VStr s) (option_map VStr d) in v_join a (option_map VStr d)) = Ok (VStr s).
Proof. exact join_split_roundtrip. Qed.

Theorem C07_str_join_split : forall s d, d <> [] -> str_join d (str_split s d) = s.
Proof. exact str_join_split. Qed.

(** operands of the wrong kind are runtime errors, never values *)
Theorem C07_split_wrong_kind :
  forall v d, is_str v = false -> v_split v d = Err (InvalidOperationForType (lit "split") v).
Proof. exact split_wrong_kind. Qed.

Theorem C07_join_wrong_kind :
  forall v d, is_arr v = false -> v_join v d = Err (InvalidOperationForType (lit "join") v).
Proof. exact join_wrong_kind. Qed.

Theorem C07_cast_wrong_kind :
  forall v p, match v with VNum _ | VStr _ => False | _ => True end ->
  v_cast v p = Err (InvalidOperationForType (lit "cast") v).
Proof. exact cast_wrong_kind. Qed.

Theorem C07_round_wrong_kind :
  forall v, match v with VNum _ => False | _ => True end ->
  v_round_up v = Err (InvalidOperationForType (lit "round up") v) /\
  v_round_down v = Err (InvalidOperationForType (lit "round down") v) /\
  v_round_nearest v = Err (InvalidOperationForType (lit "round nearest") v).
Proof. exact round_wrong_kind. Qed.

Theorem C07_split_bad_delimiter :
  forall s d, is_str d = false -> v_split (VStr s) (Some d) = Err (InvalidSplitDelimiter d).
Proof. exact split_bad_delimiter. Qed.

Theorem C07_join_bad_element :
  forall a dct d bad, (a <> [] \/ dct <> []) -> first_non_string (val_iter a dct) = Some bad ->
  v_join (VArr a dct) (Some (VStr d)) = Err (InvalidArrayElementForJoin bad).
Proof. exact join_bad_element. Qed.

(** invalid radices are runtime errors (never a crash or a value) *)
Theorem C07_cast_bad_radix :
  forall s p,
  match try_to_integer p with
  | Some r => (r <? 2)%Z || (36 <? r)%Z = true
  | None => True
  end ->
  v_cast (VStr s) (Some (VNum p)) = Err (InvalidStringToIntegerRadix (VNum p)).
Proof. exact cast_bad_radix. Qed.

(** a number casts to the character with that code point iff it is a Unicode scalar value *)
Theorem C07_cast_codepoint :
  forall n i, try_to_integer n = Some i ->
  v_cast (VNum n) None =
  if ((0 <=? i)%Z && (i <=? u32_max)%Z) && is_scalar_value (Z.to_N i)
  then Ok (VStr [Z.to_N i]) else Err (ConvertingNumberToCharacterFailed n).
Proof. exact cast_codepoint. Qed.

(** turn down / up / round pick the right integer: for a finite number with fraction bits (value
    [signed s m / 2^k]) the result is the float of the integer z with
      z <= value < z + 1 (down),  z - 1 < value <= z (up),  |value - z| <= 1/2 with ties away from zero (round),
    stated in exact integer arithmetic on the mantissa; numbers without fraction bits, zeros, infinities and
    NaN are returned unchanged *)
Theorem C07_round_down_spec :
  forall s m k, exists z, ffloor (S754_finite s m (Zneg k)) = f_of_mag s (Z.abs z) /\
    (z * 2 ^ Zpos k <= signed s (Zpos m) < (z + 1) * 2 ^ Zpos k)%Z /\ ((z <= 0)%Z <-> s = true \/ z = 0%Z).
Proof. exact ffloor_spec. Qed.

Theorem C07_round_up_spec :
  forall s m k, exists z, fceil (S754_finite s m (Zneg k)) = f_of_mag s (Z.abs z) /\
    ((z - 1) * 2 ^ Zpos k < signed s (Zpos m) <= z * 2 ^ Zpos k)%Z.
Proof. exact fceil_spec. Qed.

Theorem C07_round_nearest_spec :
  forall s m k, exists z, fround (S754_finite s m (Zneg k)) = f_of_mag s (Z.abs z) /\
    (2 * Z.abs (signed s (Zpos m) - z * 2 ^ Zpos k) <= 2 ^ Zpos k)%Z /\
    ((2 * Z.abs (signed s (Zpos m) - z * 2 ^ Zpos k) = 2 ^ Zpos k)%Z -> (Z.abs z * 2 ^ Zpos k > Zpos m)%Z).
Proof. exact fround_spec. Qed.

Theorem C07_round_fixed :
  forall x, match x with S754_finite _ _ (Zneg _) => True | _ => ffloor x = x /\ fceil x = x /\ fround x = x end.
Proof. exact round_fixed. Qed.

(** with an `into` destination the operand is only read and the result goes to the destination; without one
    the operand is rewritten in place by a single write visit (so a subscript or pronoun operand is evaluated once) *)
Theorem C07_mutation_into_clause :
  forall prof f op operand d param xs e,
  exec_stmt prof (S f) (SMutation op operand (Some d) param) xs e =
  after_tick e (fun e =>
    let+ (pv, e1) := match param with
                     | Some px => let+ (v, e') := produce_expr prof f px e in XOk (Some v) e'
                     | None => XOk None e
                     end in
    let+ (v, e2) := produce_primary prof f operand e1 in
    let+ (v', e3) := lift_val (apply_mutation op v pv) e2 in
    let+ (_, e4) := settle (write_primary prof f (WAssign v') (lhs_as_primary d) e3) in
    XOk xs e4).
Proof. exact mutation_into_clause. Qed.

Theorem C07_mutation_in_place_clause :
  forall prof f op operand param xs e,
  exec_stmt prof (S f) (SMutation op operand None param) xs e =
  after_tick e (fun e =>
    let+ (pv, e1) := match param with
                     | Some px => let+ (v, e') := produce_expr prof f px e in XOk (Some v) e'
                     | None => XOk None e
                     end in
    let+ (_, e2) := settle (write_primary prof f (WMutate op pv) operand e1) in
    XOk xs e2).
Proof. exact mutation_in_place_clause. Qed.

Theorem C07_rounding_clause :
  forall prof f dir operand xs e,
  exec_stmt prof (S f) (SRounding dir operand) xs e =
  after_tick e (fun e => let+ (_, e1) := settle (write_expr prof f (WRound dir) operand e) in XOk xs e1).
Proof. exact rounding_clause. Qed.

Example C07_example :
  v_split (VStr (lit "aXbXXc")) (Some (VStr (lit "X"))) = Ok (VArr [VStr (lit "a"); VStr (lit "b"); VStr []; VStr (lit "c")] []) /\
  v_cast (VStr (lit "ff")) (Some (VNum (f_of_Z 16))) = Ok (VNum (f_of_Z 255)) /\
  v_cast (VNum (f_of_Z 4294967361)) None = Err (ConvertingNumberToCharacterFailed (f_of_Z 4294967361)) /\
  v_round_nearest (VNum (fdiv (f_of_Z (-5)) (f_of_Z 2))) = Ok (VNum (f_of_Z (-3))).
Proof. vm_compute. repeat split; reflexivity. Qed.

(** "only their target": evaluating a call-free operand changes no variable, scope, channel or budget
    (only which variable `it` names), and `cut/join/cast X into Y` leaves X exactly as it was *)
Theorem C07_reading_changes_no_variable :
  forall prof f p e v e', pure_primary p = true -> produce_primary prof f p e = XOk v e' ->
  scopes e' = scopes e /\ chan e' = chan e /\ steps e' = steps e /\ depth e' = depth e.
Proof. exact pure_primary_frame. Qed.

Theorem C07_into_keeps_operand :
  forall prof f op x rx y ry param xs e xs' e',
  other x y = true -> match param with Some px => pure_expr px | None => true end = true ->
  exec_stmt prof f (SMutation op (PIdent (IVar x) rx) (Some (LIdent (IVar y) ry)) param) xs e = XOk xs' e' ->
  find_var x (scopes e') = find_var x (scopes e).
Proof. exact mutation_into_keeps_operand. Qed.

(** any call-free mutation / rounding statement leaves every variable it does not target as it was *)
Theorem C07_only_the_target_changes :
  forall prof f s xs e xs' e' n,
  frame_ok n s = true -> exec_stmt prof f s xs e = XOk xs' e' -> find_var n (scopes e') = find_var n (scopes e).
Proof. exact assignment_frame. Qed.

Example C07_frame_example :
  let x := Simple (lit "x") in let y := Simple (lit "y") in let z := Simple (lit "z") in
  frame_ok z (SMutation MCut (PIdent (IVar x) (mkRange (mkLoc 1 0) (mkLoc 1 1))) (Some (LIdent (IVar y) (mkRange (mkLoc 1 0) (mkLoc 1 1)))) None) = true /\
  frame_ok x (SMutation MCut (PIdent (IVar x) (mkRange (mkLoc 1 0) (mkLoc 1 1))) (Some (LIdent (IVar y) (mkRange (mkLoc 1 0) (mkLoc 1 1)))) None) = true /\
  frame_ok y (SMutation MCut (PIdent (IVar x) (mkRange (mkLoc 1 0) (mkLoc 1 1))) (Some (LIdent (IVar y) (mkRange (mkLoc 1 0) (mkLoc 1 1)))) None) = false /\
  frame_ok x (SRounding RUp (EPrimary (PSubscript (PIdent (IVar y) (mkRange (mkLoc 1 0) (mkLoc 1 1))) (PIdent (IVar z) (mkRange (mkLoc 1 0) (mkLoc 1 1)))))) = true.
Proof. vm_compute. repeat split; reflexivity. Qed.

Print Assumptions C07_join_split_roundtrip.
Print Assumptions C07_only_the_target_changes.
