(** C05 — Functions, scopes and pronouns: calls are by value and locals do not leak.
    Statements only; proofs in Proofs/InterpLaws.v and Proofs/InterpInv.v. *)
From Coq Require Import List ZArith NArith Bool.
From RRSS Require Import Base.Outcome Base.Chars Base.F64 Exec.Val Exec.Ops Front.Ast Exec.Env Exec.Interp.
From RRSS Require Import Proofs.InterpInv Proofs.InterpLaws Proofs.ArrayLaws Proofs.InterpPure.
From RRSS Require Import Proofs.InterpPronoun.
Import ListNotations.

(** the call protocol: look the function up, check the arity, evaluate the arguments, bind them in
    a fresh scope, run the body in a fresh statement executor, pop the scope, yield the value of the
    return that was reached (mysterious if none) *)
Theorem C05_call_clause :
  forall prof f name args e,
  call_function prof (S f) name args e =
  (let+ (fd, e0) := lift_env (env_lookup_func name e) e in
   let '(params, body) := fd in
   if negb (len params =? len args)%N then XErr (RWrongArgs (len params) (len args)) e0 else
   let+ (vals, e1) := produce_args prof f args e0 in
   let+ (e2, _) := lift_env (env_push_function_scope (combine (map fst params) vals) e1) e1 in
   match enter_call e2 with
   | None => XOverBudget
   | Some e2' =>
       let+ (xs, e3) := exec_block prof f body x_init e2' in
       let+ (e4, _) := lift_env (pop_scope prof (leave_call e3)) e3 in
       XOk (match xret xs with Some v => v | None => VUndef end) e4
   end).
Proof. exact call_clause. Qed.

(** arguments are evaluated left to right *)
Theorem C05_args_left_to_right :
  forall prof f x t e,
  produce_args prof (S f) (x :: t) e =
  (let+ (v, e1) := produce_expr prof f x e in
   let+ (vs, e2) := produce_args prof f t e1 in
   XOk (v :: vs) e2).
Proof. exact args_clause. Qed.

(** parameters live in a fresh scope on top of the caller's *)
Theorem C05_parameters_in_fresh_scope :
  forall args e e2, env_push_function_scope args e = Ok e2 ->
  exists t, scopes e2 = t :: scopes e /\ last_access e2 = last_access e.
Proof. exact push_function_scope_fresh. Qed.

(** locals do not leak: a completed statement (if, loop, anything), call or expression leaves the
    scope stack exactly as deep as it found it — every scope pushed for a body, branch or call has
    been popped again, from any nesting depth and through recursion (the induction is on fuel) *)
Theorem C05_scopes_restored_stmt :
  forall prof fuel s xs e xs' e', wf e -> prex xs ->
  exec_stmt prof fuel s xs e = XOk xs' e' -> depth_of e' = depth_of e.
Proof. exact scopes_restored_stmt. Qed.

Theorem C05_scopes_restored_call :
  forall prof fuel n args e v e', wf e ->
  call_function prof fuel n args e = XOk v e' -> depth_of e' = depth_of e.
Proof. exact scopes_restored_call. Qed.

(** ... and the names: whatever a body (function, branch, loop) binds in the scope [t0] opened for
    it — parameters, variables first assigned inside — once that scope is popped every enclosing scope
    binds exactly the names it bound before, in the same order; a statement can add names only at the
    end of the innermost scope.  ([SK ss ss']: the head scope's names are a prefix of the new head's,
    all other scopes have equal name lists.) *)
Theorem C05_body_locals_do_not_leak :
  forall prof fuel body xs e1 e2 t0 xs' e3,
  scopes e2 = t0 :: scopes e1 -> prex xs ->
  exec_block prof fuel body xs e2 = XOk xs' e3 ->
  map keys (tl (scopes e3)) = map keys (scopes e1).
Proof. exact body_locals_do_not_leak. Qed.

Theorem C05_names_only_grow_stmt :
  forall prof fuel s xs e xs' e', wf e -> prex xs ->
  exec_stmt prof fuel s xs e = XOk xs' e' -> SK (scopes e) (scopes e').
Proof. exact names_only_grow_stmt. Qed.

Theorem C05_names_only_grow_expr :
  forall prof fuel x e v e', wf e -> produce_expr prof fuel x e = XOk v e' -> SK (scopes e) (scopes e').
Proof. exact names_only_grow_expr. Qed.

(** calls are by value: the argument values are bound under the parameter names in the call's own scope; a
    store to a name that scope binds stays there and leaves every enclosing scope — the caller's variables,
    also one with the same name — exactly as it was; a lookup finds the innermost binding.  (Values are
    immutable in the model: an array passed as an argument is a value, not a reference; that the
    implementation's Rc::make_mut gives the same is suite EXEC-array-histories.) *)
Theorem C05_store_innermost :
  forall n v t ss x, tab_lookup_var n t = Ok x -> store_var n v (t :: ss) = tab_set (lower_name n) (EVar v) t :: ss.
Proof. exact store_innermost. Qed.

Theorem C05_find_innermost :
  forall n t ss x, tab_lookup_var n t = Ok x -> find_var n (t :: ss) = Ok x.
Proof. exact find_innermost. Qed.

(** updates of one variable never change another (callee writes to its parameters live in the
    callee's scope: with the previous theorem they are gone after the call) *)
Theorem C05_store_other_variable_unchanged :
  forall n m v ss, varname_eqb (lower_name n) (lower_name m) = false ->
  find_var n (store_var m v ss) = find_var n ss.
Proof. exact store_other_variable_unchanged. Qed.

(** a pronoun denotes the variable most recently named; none right after a block or call has ended *)
Theorem C05_lookup_sets_pronoun : forall n e, last_access (snd (env_lookup_var n e)) = Some n.
Proof. exact lookup_sets_pronoun. Qed.

Theorem C05_pop_scope_clears_pronoun :
  forall prof e e', pop_scope prof e = Ok e' -> last_access e' = None.
Proof. exact pop_scope_clears_pronoun. Qed.

(** wrong number of arguments, unknown names *)
Theorem C05_arity_error :
  forall prof f name args e params body,
  env_lookup_func name e = Ok (params, body) -> len params <> len args ->
  call_function prof (S f) name args e = XErr (RWrongArgs (len params) (len args)) e.
Proof. exact arity_error. Qed.

Theorem C05_unknown_name_error :
  forall prof f n r e, find_var n (scopes e) = Err (NameNotFound n) ->
  exists e', produce_primary prof (S f) (PIdent (IVar n) r) e = XErr (REnv (SymTableError (NameNotFound n))) e'.
Proof. exact unknown_name_error. Qed.

(** a statement that calls nothing writes only the variables it names as targets (plain or through
    subscripts): every other variable — of this scope or an enclosing one — reads as before, also when
    the statement fails *)
Theorem C05_assignment_frame :
  forall prof f s xs e xs' e' n,
  frame_ok n s = true -> exec_stmt prof f s xs e = XOk xs' e' -> find_var n (scopes e') = find_var n (scopes e).
Proof. exact assignment_frame. Qed.

Theorem C05_assignment_frame_on_error :
  forall prof f s xs e err e' n,
  frame_ok n s = true -> exec_stmt prof f s xs e = XErr err e' -> find_var n (scopes e') = find_var n (scopes e).
Proof. exact assignment_frame_err. Qed.

(** what `it` refers to after a statement: an assignment, an increment or a decrement leave it on their target
    (whatever their operands named on the way), reading a variable leaves it on that variable, and a conditional
    or a function call that completed leave it on nothing *)
Theorem C05_assignment_sets_pronoun :
  forall prof f x r first rest op xs e xs' e',
  exec_stmt prof (S (S f)) (SAssign (LIdent (IVar x) r) first rest op) xs e = XOk xs' e' -> last_access e' = Some x.
Proof. exact assign_sets_pronoun. Qed.

Theorem C05_build_up_sets_pronoun :
  forall prof f x r k xs e xs' e',
  exec_stmt prof (S f) (SInc (IVar x) r k) xs e = XOk xs' e' -> last_access e' = Some x.
Proof. exact inc_sets_pronoun. Qed.

Theorem C05_reading_sets_pronoun :
  forall prof f x r e v e', produce_primary prof (S f) (PIdent (IVar x) r) e = XOk v e' -> last_access e' = Some x.
Proof. exact read_sets_pronoun. Qed.

Theorem C05_conditional_clears_pronoun :
  forall prof f c th el xs e xs' e',
  exec_stmt prof (S f) (SIf c th el) xs e = XOk xs' e' -> last_access e' = None.
Proof. exact if_clears_pronoun. Qed.

Theorem C05_call_clears_pronoun :
  forall prof f n args e v e', call_function prof (S f) n args e = XOk v e' -> last_access e' = None.
Proof. exact call_clears_pronoun. Qed.

Print Assumptions C05_scopes_restored_stmt.
Print Assumptions C05_body_locals_do_not_leak.
Print Assumptions C05_assignment_frame.
Print Assumptions C05_assignment_sets_pronoun.
