(** C16 — Visitors see every node exactly once, in order, and stop at the first error.
    Statements only; proofs in Proofs/VisitLaws.v. *)
From Coq Require Import List ZArith NArith Bool.
From RRSS Require Import Base.Outcome Base.Chars Base.F64 Exec.Ops Front.Ast Analysis.Visit Analysis.VisitRecorder Proofs.VisitLaws.
Import ListNotations.

(** For every visitor (state S, outputs O, errors E, one callback per leaf method) whose outputs
    form a monoid under combine/default, walking a program with the runner equals feeding the
    flat field-order event list [events_program p] to the callback one event at a time, combining
    the results left to right from [default], and stopping at the first error, which is returned
    unchanged together with the state at that point.  [events_program] is defined by plain
    structural recursion over every field of every node (else blocks, mutation parameters and
    destinations, function parameters, list tails, nested subscripts): nothing skipped, nothing twice. *)
Theorem C16_walk_program_is_fold :
  forall (S O E : Type) (combine : O -> O -> O) (default : O) (leaf : event -> S -> S * (O + E)),
    (forall a b c, combine (combine a b) c = combine a (combine b c)) ->
    (forall a, combine default a = a) ->
    (forall a, combine a default = a) ->
    forall p s, walk_program combine default leaf p s = fold_events combine default leaf (events_program p) s.
Proof. exact (@walk_program_is_fold). Qed.

(** the first error ends the walk: the remaining events are not presented *)
Theorem C16_first_error_ends_walk :
  forall (S O E : Type) (combine : O -> O -> O) (leaf : event -> S -> S * (O + E)) ev t s acc K s' e,
    leaf ev s = (s', inr e) -> fold_k combine leaf (ev :: t) s acc K = (s', inr e).
Proof. exact (@fold_k_error). Qed.

(** Non-vacuity: the recording visitor of suite VISIT (list outputs, append, []) on a program with an
    else block, a list tail and a nested subscript, failing at the 6th callback. *)
Example C16_example :
  let r := mkRange (mkLoc 1 0) (mkLoc 1 1) in
  let v s := PIdent (IVar (Simple (lit s))) r in
  let p := [BNonEmpty [SIf (EPrimary (v "a"%string)) (BNonEmpty [SOutput (EPrimary (v "b"%string))])
                           (Some (BNonEmpty [SOutput (EBinary OpPlus (EPrimary (v "c"%string)) (EPrimary (v "d"%string)) [EPrimary (PSubscript (PSubscript (v "e"%string) (v "f"%string)) (v "g"%string))])]))]] in
  length (events_program p) = 8%nat /\
  fst (record_program None p) = 8%nat /\
  record_program (Some 5%nat) p = (6%nat, inr 5%nat).
Proof. vm_compute. repeat split; reflexivity. Qed.

Print Assumptions C16_walk_program_is_fold.
