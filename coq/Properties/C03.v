(** C03 — Expressions evaluate by the Rockstar value rules for every operand kind.
    Statements only; proofs in Proofs/ValTables.v (tables) and Proofs/ValLaws.v (short circuit). *)
From Coq Require Import List ZArith NArith Bool.
From RRSS Require Import Base.Outcome Base.Chars Base.F64 Base.F64Text Exec.Val Exec.Ops Front.Ast Exec.Env Exec.Interp.
From RRSS Require Import Proofs.ValTables Proofs.ValLaws Proofs.InterpPure.
From RRSS Require Import Proofs.ValValid Proofs.FloatValid Proofs.InterpNum Proofs.ParseNum.
From RRSS Require Import Front.Parser.
Import ListNotations.

(** the model of val.rs (written as the Rust is, with its argument-swapping recursion) computes
    exactly the declarative 6x6 tables [spec_plus], [spec_arith], [spec_multiply], [spec_equals],
    [spec_compare] — for all values, incl. NaN, infinities, -0, empty and numeric-looking strings *)
Theorem C03_plus_table : forall a b, v_plus a b = spec_plus a b.
Proof. exact plus_table. Qed.
Theorem C03_subtract_table : forall a b, v_subtract a b = spec_arith fsub a b.
Proof. exact subtract_table. Qed.
Theorem C03_divide_table : forall a b, v_divide a b = spec_arith fdiv a b.
Proof. exact divide_table. Qed.
Theorem C03_multiply_table : forall a b, v_multiply a b = spec_multiply a b.
Proof. exact multiply_table. Qed.
Theorem C03_equals_table : forall a b, v_equals a b = Ok (spec_equals a b).
Proof. exact equals_table. Qed.
Theorem C03_compare_table :
  forall a b, v_compare a b = match spec_compare a b with OrdOf c => Ok c | OrdError => Err (InvalidComparison a b) end.
Proof. exact compare_table. Qed.
Theorem C03_negate_table :
  forall a, v_negate a = match a with VNum n => Ok (VNum (fneg n)) | _ => Err (InvalidOperationForType (lit "negate") a) end.
Proof. exact negate_table. Qed.
Theorem C03_not_table : forall a, unop_apply UNot a = Ok (VBool (negb (spec_truthy a))).
Proof. exact not_table. Qed.
Theorem C03_inc_table :
  forall a k,
  v_inc a k = match a with
              | VNull => Ok (VNum (fadd fzero (f_of_Z k)))
              | VBool b => Ok (VBool (xorb b (Z.odd k)))
              | VNum n => Ok (VNum (fadd n (f_of_Z k)))
              | _ => Err (InvalidOperationForType (if (0 <=? k)%Z then lit "increment" else lit "decrement") a)
              end.
Proof. exact inc_table. Qed.

(** the text printed for a value is its canonical rendering *)
Theorem C03_output_table : forall a, to_string_for_output a = Ok (spec_text a).
Proof. exact output_table. Qed.

(** expressions: left operand first, then the list operands folded left to right *)
Theorem C03_binary_clause :
  forall prof f op l first rest e,
  produce_expr prof (S f) (EBinary op l first rest) e =
  (let+ (lv, e1) := produce_expr prof f l e in fold_rhs prof f op lv (first :: rest) e1).
Proof. exact binary_clause. Qed.

(** short-circuiting: an operand that is not needed is not evaluated (the environment — variables,
    pronoun, input position, output — is handed on untouched), and the result is what evaluating it
    would have given *)
Theorem C03_fold_clause :
  forall prof f op acc x t e,
  fold_rhs prof (S f) op acc (x :: t) e =
  (if needs_rhs op acc then
     let+ (bv, e1) := produce_expr prof f x e in
     let+ (r, e2) := lift_val (binop_apply op acc bv) e1 in
     fold_rhs prof f op r t e2
   else fold_rhs prof f op (short_result op acc) t e).
Proof. exact fold_clause. Qed.

Theorem C03_short_circuit_sound :
  forall o a b, needs_rhs o a = false -> binop_apply o a b = Ok (short_result o a).
Proof. exact short_circuit_sound. Qed.

Theorem C03_compound_assign_clause :
  forall prof f d first rest o xs e,
  exec_stmt prof (S f) (SAssign d first rest (Some o)) xs e =
  match tick e with
  | None => XOverBudget
  | Some e =>
      let+ (nv, e1) := (let+ (lv, e0) := produce_primary prof f (lhs_as_primary d) e in
                        fold_rhs prof f o lv (first :: rest) e0) in
      let+ (_, e2) := settle (write_primary prof f (WAssign nv) (lhs_as_primary d) e1) in
      XOk xs e2
  end.
Proof. exact compound_assign_clause. Qed.

Theorem C03_invalid_is_error :
  forall a b,
  (forall k, match a with VUndef | VStr _ | VArr _ _ => is_err (v_inc a k) = true | _ => True end) /\
  (match a with VNum _ => True | _ => is_err (v_negate a) = true end) /\
  (spec_compare a b = OrdError -> is_err (v_compare a b) = true).
Proof. exact invalid_is_error. Qed.

(** evaluating an expression without calls and without `roll` has no effect on any variable, scope,
    channel or budget: only the pronoun's referent moves *)
Theorem C03_call_free_expressions_have_no_effect :
  forall prof f x e v e', pure_expr x = true -> produce_expr prof f x e = XOk v e' ->
  scopes e' = scopes e /\ chan e' = chan e /\ steps e' = steps e /\ depth e' = depth e.
Proof. exact pure_expr_frame. Qed.

Theorem C03_call_free_expressions_have_no_effect_on_error :
  forall prof f x e err e', pure_expr x = true -> produce_expr prof f x e = XErr err e' ->
  scopes e' = scopes e /\ chan e' = chan e /\ steps e' = steps e /\ depth e' = depth e.
Proof. exact pure_expr_frame_err. Qed.

(** arithmetic never leaves binary64: from operands whose numbers are binary64 data (53-bit mantissa, exponent in
    range) every operation yields binary64 data — so the float model is only ever applied inside its domain *)
Theorem C03_arithmetic_stays_binary64 :
  forall a b, nv a -> nv b ->
  nv (v_plus a b) /\ nv (v_subtract a b) /\ nv (v_divide a b) /\ nvr (v_multiply a b) /\ nvr (v_negate a) /\
  (forall k, nvr (v_inc a k)) /\ nvr (v_round_up a) /\ nvr (v_round_down a) /\ nvr (v_round_nearest a) /\
  (forall p, nvr (v_cast a p)) /\ nv (v_decay a).
Proof. exact arithmetic_stays_binary64. Qed.

(** ... and so does the whole interpreter: in every state a run of a parser-accepted program can stop in (normally or
    with a runtime error; any fuel, input, fault position, build profile), every number — in any variable of any
    scope, at any depth of arrays and dictionaries, and in the value a function hands back — is a binary64 datum
    ([dn]: SpecFloat's [valid_binary] at (53,1024), recursively through arrays).  Literals are binary64 because the
    lexer's numerals are ([C03_accepted_programs_have_binary64_literals]); everything else is closure. *)
Theorem C03_accepted_programs_have_binary64_literals :
  forall prof src p, parse prof src = ParseOk p -> forallb okb p = true.
Proof. exact parsed_program_ok. Qed.

Theorem C03_run_numbers_are_binary64 :
  forall prof prof' src p fuel c, parse prof src = ParseOk p ->
  match exec_program prof' fuel p c with
  | XOk xs e => dn_env e /\ dn_opt (xret xs)
  | XErr _ e => dn_env e
  | _ => True
  end.
Proof. exact run_numbers_are_binary64. Qed.

Theorem C03_expression_values_are_binary64 :
  forall prof f x e a e1, okx x = true -> dn_env e -> produce_expr prof f x e = XOk a e1 -> dn a /\ dn_env e1.
Proof. exact expression_values_are_binary64. Qed.

Print Assumptions C03_equals_table.
Print Assumptions C03_compare_table.
Print Assumptions C03_call_free_expressions_have_no_effect.
Print Assumptions C03_arithmetic_stays_binary64.
Print Assumptions C03_run_numbers_are_binary64.
