(** C18 — Constant-assignment lint is exact and its suggested rewrite is equivalent.
    Statements only; proofs in Proofs/SuggestLaws.v (and C17's for what "folds to a constant" means). *)
From Coq Require Import List ZArith NArith Bool.
From RRSS Require Import Base.Outcome Base.Chars Base.F64 Base.F64Text Exec.Val Exec.Ops Front.Ast Analysis.Fold Lint.Lint Proofs.SuggestLaws.
From Coq Require Import Floats.SpecFloat.
From RRSS Require Import Proofs.DigitBound Proofs.DigitLaws.
Import ListNotations.
Open Scope N_scope.

(** reported exactly when the right-hand side is an ordinary expression that folds to a single
    numeric constant (or is a plain string literal), naming target, value and the line of the value *)
Theorem C18_boring_assignment_iff :
  forall d f rest,
  boring_stmt (SAssign d f rest None) =
  match fold_num_list f rest with
  | Ok x => numeric_diag [] (lit " is ") (render_lhs d) x (range_line (exprlist_range f rest))
  | Err FWrongType =>
      match fold_str_list f rest with
      | Ok s => Ok (string_diag (render_lhs d) s (range_line (exprlist_range f rest)))
      | _ => Ok []
      end
  | _ => Ok []
  end.
Proof. exact boring_assignment_iff. Qed.

Theorem C18_boring_poetic_expr_iff :
  forall d e,
  boring_stmt (SPoeticNum d (PNExpr e)) =
  match fold_num e with
  | Ok x => numeric_diag [] (lit " is ") (render_lhs d) x (range_line (expr_range e))
  | Err FWrongType =>
      match fold_str e with
      | Ok s => Ok (string_diag (render_lhs d) s (range_line (expr_range e)))
      | _ => Ok []
      end
  | _ => Ok []
  end.
Proof. exact boring_poetic_expr_iff. Qed.

Theorem C18_boring_push_iff :
  forall a f rest,
  boring_stmt (SPush a (Some (PushList f rest))) =
  match fold_num_list f rest with
  | Ok x => numeric_diag (lit "Rock ") (lit " like ") (render_primary a) x (range_line (primary_range a))
  | _ => Ok []
  end.
Proof. exact boring_push_iff. Qed.

(** never for compound assignments, poetic literals, poetic strings *)
Theorem C18_boring_never :
  (forall d f rest o, boring_stmt (SAssign d f rest (Some o)) = Ok []) /\
  (forall d el, boring_stmt (SPoeticNum d (PNLit el)) = Ok []) /\
  (forall d s, boring_stmt (SPoeticStr d s) = Ok []) /\
  (forall a, boring_stmt (SPush a None) = Ok []) /\
  (forall a el, boring_stmt (SPush a (Some (PushLit el))) = Ok []).
Proof. exact boring_never. Qed.

(** the diagnostic names the target and the value; no (misleading) suggestion when the value has no
    poetic spelling *)
Theorem C18_numeric_diag_shape :
  forall pre sep var v ln ds, numeric_diag pre sep var v ln = Ok ds ->
  exists sugg, ds = [mkDiag (issue_text var (f64_display v)) sugg ln] /\
               (has_poetic_spelling v = false -> sugg = []) /\
               (has_poetic_spelling v = true ->
                exists t, template_text (f64_display v) true = Ok t /\ sugg = [suggestion_text (pre ++ var ++ sep ++ t)]).
Proof. exact numeric_diag_shape. Qed.

Theorem C18_string_diag_shape :
  forall var s ln,
  string_diag var s ln =
  [mkDiag (issue_text var (quoted s))
          (if existsb (fun c => c =? 10) s then [] else [suggestion_text (var ++ lit " says " ++ s)]) ln].
Proof. exact string_diag_shape. Qed.

(** the poetic words of a suggestion spell exactly the reported value: reading the template back
    (word lengths modulo 10, periods in place) gives the printed numeral *)
Theorem C18_template_spells_value :
  forall chars t, forallb digit_or_dot chars = true -> template_text chars true = Ok t -> read_template t 0 [] = chars.
Proof. exact template_spells_value. Qed.

Example C18_example :
  template_text (lit "10.25") true = Ok (lit "* **********. ** *****") /\
  read_template (lit "* **********. ** *****") 0 [] = lit "10.25".
Proof. vm_compute. split; reflexivity. Qed.

(** for every number of the binary64 range (53-bit mantissa, exponent -1074..971: [bounded_in_range]) the
    digits the printer produces are decimal digits ([shortest_digits_dec]: the one numeric fact, the printer's
    estimate of the decimal exponent, is checked for all 2500 exponents of the range inside Coq), so the
    template exists and spells exactly the numeral reported — no side condition on the text left *)
Theorem C18_suggestion_spells_reported_value :
  forall v t, f_in_range v -> has_poetic_spelling v = true ->
  template_text (f64_display v) true = Ok t -> read_template t 0 [] = f64_display v.
Proof. exact numeric_template_spells_value. Qed.

Theorem C18_binary64_is_in_range :
  forall m e, bounded prec emax m e = true -> in_range m e.
Proof. exact bounded_in_range. Qed.

Print Assumptions C18_template_spells_value.
Print Assumptions C18_suggestion_spells_reported_value.
