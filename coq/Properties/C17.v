(** C17 — statements only; see Proofs/. *)
From RRSS Require Import Base.Outcome.
