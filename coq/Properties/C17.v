(** C17 — The constant folder only reports values the interpreter would compute.
    Statements only, closed by [exact]; proofs in Proofs/FoldLaws.v. *)
From Coq Require Import List ZArith NArith Bool.
From RRSS Require Import Base.Outcome Base.Chars Base.F64 Exec.Val Exec.Ops Front.Ast Front.Poetic Exec.Env Exec.Interp.
From RRSS Require Import Analysis.Fold Proofs.FoldLaws.
Import ListNotations.

(** Whenever the numeric folder reports [c] for an expression, evaluating that expression in ANY
    environment (whatever the rest of the program did), with any sufficiently large fuel, yields the
    number [c] and leaves the environment (variables, pronoun, channels) untouched. *)
Theorem C17_fold_num_sound :
  forall prof e c, fold_num e = Ok c ->
  forall env, exists f0, forall fuel, (f0 <= fuel)%nat -> produce_expr prof fuel e env = XOk (VNum c) env.
Proof. exact fold_num_sound. Qed.

(** A value is reported for every expression built solely from number literals, unary minus and
    + - * / (including list operands) ... *)
Theorem C17_fold_num_complete :
  forall e, const_expr e = true -> exists c, fold_num e = Ok c.
Proof. exact fold_num_complete. Qed.

(** ... and never for an expression that reads a variable, a pronoun, an array element, a call or
    a pop (or uses any other operator or literal kind). *)
Theorem C17_fold_num_only_const :
  forall e c, fold_num e = Ok c -> const_expr e = true.
Proof. exact fold_num_only_const. Qed.

Theorem C17_fold_str_only_literal :
  forall e s, fold_str e = Ok s -> exists r, e = EPrimary (PLit (LString s) r).
Proof. exact fold_str_only_literal. Qed.

Theorem C17_fold_str_sound :
  forall prof e s, fold_str e = Ok s ->
  forall env fuel, (2 <= fuel)%nat -> produce_expr prof fuel e env = XOk (VStr s) env.
Proof. exact fold_str_sound. Qed.

(** Non-vacuity: a nested constant expression with list operands folds, and the interpreter
    computes the same number; a zero product with a variable does not fold. *)
Example C17_example :
  let r := mkRange (mkLoc 1 0) (mkLoc 1 1) in
  let n x := EPrimary (PLit (LNumber (f_of_Z x)) r) in
  let e := EBinary OpMinus (n 10%Z) (EBinary OpMultiply (n 3%Z) (n 2%Z) [n 4%Z]) [EUnary UMinus (n 1%Z)] in
  fold_num e = Ok (f_of_Z (-13)%Z) /\
  produce_expr Debug 10%nat e (env_init (mkChan [] 0%N None [] None)) = XOk (VNum (f_of_Z (-13)%Z)) (env_init (mkChan [] 0%N None [] None)) /\
  fold_num (EBinary OpMultiply (n 0%Z) (EPrimary (PIdent (IVar (Simple (lit "x"))) r)) []) = Err FUnknownValue.
Proof. vm_compute. repeat split; reflexivity. Qed.

Print Assumptions C17_fold_num_sound.
Print Assumptions C17_fold_num_complete.
