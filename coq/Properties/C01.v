(** C01 — Lexing and parsing are total: any text yields a Program or a ParseError.
    Statements only; proofs in Proofs/LexStream.v, ParseSafe.v, ParseTotal.v. *)
From Coq Require Import List ZArith NArith Bool.
From RRSS Require Import Base.Outcome Base.Chars Front.Ast Front.Token Front.Lexer Front.Parser Front.ParseErrorText.
From RRSS Require Import Proofs.LexStream Proofs.ParseSafe Proofs.ParseTotal.
Import ListNotations.
Open Scope N_scope.

(** The lexer is total: for every source shorter than 4 GiB, in both profiles, it returns a token
    list (it never panics, never slices off a character boundary or out of bounds, and its loops
    terminate within the model's fuel). *)
Theorem C01_lex_total :
  forall prof src, byte_len src < u32_limit -> exists pts, lex prof src = Ok pts.
Proof. exact lex_total. Qed.

(** The front end never crashes: for every source shorter than 4 GiB, in both profiles, [parse]
    never reaches a panic site (unwrap, assert, debug_assert, checked slice) nor an unchecked site
    (unchecked_unwrap, extract_unchecked, unchecked slice), and an error it returns can be rendered
    ([impl Display for ParseError] with its own assertions never panics on it). *)
Theorem C01_parse_never_crashes :
  forall prof src, byte_len src < u32_limit ->
    match parse prof src with
    | ParseOk _ => True
    | ParseErr e => exists text, parse_error_display e = Ok text
    | ParseCrash _ _ => False
    | ParseOutOfFuel => True
    end.
Proof. exact parse_never_crashes. Qed.

(** Totality: a program, or an error that renders.  The parser's fuel (40 * tokens + 40) always
    suffices because every loop of the parser consumes a token per iteration and the descent
    through the precedence ladder is bounded; in particular a token in an unexpected position
    (a stray `else`) cannot make the top-level loop spin. *)
Theorem C01_parse_total :
  forall prof src, byte_len src < u32_limit ->
    (exists p, parse prof src = ParseOk p) \/
    (exists e text, parse prof src = ParseErr e /\ parse_error_display e = Ok text).
Proof. exact parse_total. Qed.

(** the same at the level of the parser alone: over any token list that consists of ordered slices of
    the buffer (the only facts about the lexer the parser's unwraps rely on), for any fuel *)
Theorem C01_parser_safe_on_wellformed_tokens :
  forall prof buf all, TI buf all ->
  forall fuel s acc, SI all s -> okpure all any (parse_blocks prof buf fuel s acc).
Proof. exact parse_blocks_ok. Qed.

(** Non-vacuity: inputs that used to crash (identifier with a digit away from offset 0; stray else). *)
Example C01_example :
  (match parse Debug (lit "say x1") with ParseErr _ => True | _ => False end) /\
  (match parse Release (lit "else") with ParseErr _ => True | _ => False end) /\
  (match parse Debug (lit "say 1") with ParseOk _ => True | _ => False end).
Proof. vm_compute. repeat split; exact I. Qed.

Print Assumptions C01_lex_total.
Print Assumptions C01_parse_never_crashes.
Print Assumptions C01_parse_total.
Print Assumptions C01_parser_safe_on_wellformed_tokens.
