(** C04 — Control flow follows the program text: branches, loops, break/continue.
    Statements only; proofs in Proofs/InterpLaws.v and Proofs/InterpInv.v. *)
From Coq Require Import List ZArith NArith Bool.
From RRSS Require Import Base.Outcome Base.Chars Base.F64 Exec.Val Exec.Ops Front.Ast Exec.Env Exec.Interp.
From RRSS Require Import Exec.Sem Proofs.InterpInv Proofs.InterpLaws Proofs.SemRefine.
From RRSS Require Import Proofs.FuelMono.
Import ListNotations.

(** an if evaluates its condition once and runs exactly one branch, chosen by truthiness *)
Theorem C04_if_clause :
  forall prof f c th el xs e,
  exec_stmt prof (S f) (SIf c th el) xs e =
  after_tick e (fun e =>
    let+ (cv, e1) := produce_expr prof f c e in
    let e2 := push_scope e1 in
    let+ (xs', e3) :=
      if is_truthy cv then exec_block prof f th xs e2
      else match el with Some b => exec_block prof f b xs e2 | None => XOk xs e2 end in
    let+ (e4, _) := lift_env (pop_scope prof e3) e3 in
    XOk xs' e4).
Proof. exact if_clause. Qed.

(** while/until re-evaluate their condition before every iteration and run the body as long as it
    holds (fails to hold); break leaves and continue restarts exactly this loop — the flag set by a
    break/continue at any depth of nested ifs travels up through [exec_stmts] (next theorem) and is
    reset here and nowhere else; a return leaves the loop with the flag still set *)
Theorem C04_loop_clause :
  forall prof f invert c b xs e,
  exec_loop prof (S f) invert c b xs e =
  after_tick e (fun e =>
    let+ (cv, e1) := produce_expr prof f c e in
    if xorb invert (is_truthy cv) then
      let+ (xs', e3) := exec_block prof f b xs (push_scope e1) in
      let+ (e4, _) := lift_env (pop_scope prof e3) e3 in
      match xflag xs' with
      | Normal => exec_loop prof f invert c b xs' e4
      | Continuing => exec_loop prof f invert c b (mkX Normal (xret xs')) e4
      | Breaking => XOk (mkX Normal (xret xs')) e4
      | Returning => XOk xs' e4
      end
    else XOk xs e1).
Proof. exact loop_clause. Qed.

Theorem C04_while_until_clause :
  forall prof f c b xs e,
  exec_stmt prof (S f) (SWhile c b) xs e = after_tick e (exec_loop prof f false c b xs) /\
  exec_stmt prof (S f) (SUntil c b) xs e = after_tick e (exec_loop prof f true c b xs).
Proof. exact while_until_clause. Qed.

(** Refinement: the interpreter's flag machine (ExecStmt's block-state flags and return slot) computes
    exactly the structured semantics of Exec/Sem.v, where a statement finishes normally or asks to break,
    continue or return; a block stops at the first statement that does not finish normally; an `if` runs
    the branch its condition selects; a loop re-evaluates its condition before every iteration, turns break
    into normal completion and continue into the next iteration, and passes return on.  Same environment
    (hence same output written and input consumed), same error, for every statement, block and loop, any
    fuel, both profiles, from any environment with at least one scope. *)
Theorem C04_exec_stmt_refines :
  forall prof f s e, wf e -> xmap to_outcome (exec_stmt prof f s x_init e) = sem_stmt prof f s e.
Proof. exact exec_stmt_refines. Qed.

Theorem C04_exec_block_refines :
  forall prof f b e, wf e -> xmap to_outcome (exec_block prof f b x_init e) = sem_block prof f b e.
Proof. exact exec_block_refines. Qed.

Theorem C04_exec_loop_refines :
  forall prof f inv c b e, wf e -> xmap to_outcome (exec_loop prof f inv c b x_init e) = sem_loop prof f inv c b e.
Proof. exact exec_loop_refines. Qed.

(** break leaves and continue restarts only the innermost enclosing loop: a loop entered with a normal
    flag always ends with a normal flag or a pending return, for every body — the break/continue flag
    raised anywhere inside (through any nesting of ifs, which pass flags through, and blocks, which
    skip their remaining statements) is consumed by this loop and never reaches an enclosing one *)
Theorem C04_loop_exit_flag :
  forall prof f invert c b xs e xs' e',
  xflag xs = Normal -> exec_loop prof f invert c b xs e = XOk xs' e' ->
  xflag xs' = Normal \/ xflag xs' = Returning.
Proof. exact loop_exit_flag. Qed.

(** statements run in order; once a break/continue/return has set the flag the rest of the block is skipped *)
Theorem C04_stmts_clause :
  forall prof f s t xs e,
  exec_stmts prof (S f) (s :: t) xs e =
  (let+ (xs', e1) := exec_stmt prof f s xs e in
   if skip_rest (xflag xs') then XOk xs' e1 else exec_stmts prof f t xs' e1).
Proof. exact stmts_clause. Qed.

Theorem C04_break_continue_clause :
  forall prof f r xs e, xflag xs = Normal ->
  exec_stmt prof (S f) (SBreak r) xs e = after_tick e (fun e => XOk (mkX Breaking (xret xs)) e) /\
  exec_stmt prof (S f) (SContinue r) xs e = after_tick e (fun e => XOk (mkX Continuing (xret xs)) e).
Proof. exact break_continue_clause. Qed.

(** an error stops execution at that statement ... *)
Theorem C04_error_stops_block :
  forall prof f s t xs e x e',
  exec_stmt prof f s xs e = XErr x e' -> exec_stmts prof (S f) (s :: t) xs e = XErr x e'.
Proof. exact error_stops_block. Qed.

(** ... with everything printed before it preserved (and never a crash) *)
Theorem C04_output_preserved_stmt :
  forall prof fuel s xs e, wf e -> prex xs ->
  match exec_stmt prof fuel s xs e with
  | XOk _ e' | XErr _ e' => prefix_of (outp e) (outp e')
  | _ => True
  end.
Proof. exact output_preserved_stmt. Qed.

Theorem C04_output_preserved_program :
  forall prof fuel p c,
  match exec_program prof fuel p c with
  | XOk _ e' | XErr _ e' => prefix_of (out_bytes c) (outp e')
  | _ => True
  end.
Proof. exact output_preserved_program. Qed.

(** more fuel never changes what a statement does *)
Theorem C04_fuel_irrelevant :
  forall prof f f' s xs e, (f <= f')%nat -> exec_stmt prof f s xs e <> XOutOfFuel ->
  exec_stmt prof f' s xs e = exec_stmt prof f s xs e.
Proof. exact exec_stmt_fuel_irrelevant. Qed.

Print Assumptions C04_output_preserved_program.
Print Assumptions C04_exec_stmt_refines.
Print Assumptions C04_fuel_irrelevant.
