(** C04 — statements only; see Proofs/. *)
From RRSS Require Import Base.Outcome.
