(** C10 — Same program and input give the same output, result and messages every time.
    Statements only; proofs in Proofs/OrderLaws.v.
    The model is a function (no hash table, no address, no clock): what has to be shown is that the
    three places where val.rs iterates a HashMap — Display, join and equality — compute something
    that does not depend on the arrangement of the entries; everywhere else tables are accessed by key. *)
From Coq Require Import List ZArith NArith Bool Sorting.Permutation.
From RRSS Require Import Base.Outcome Base.Chars Base.F64 Exec.Val Proofs.OrderLaws Proofs.InterpWf.
From RRSS Require Import Front.Ast Exec.Env Exec.Interp.
From RRSS Require Import Proofs.FuelMono Proofs.InterpProfile Proofs.ParseProfile.
From RRSS Require Import Base.Chars Front.Lexer Front.Parser.
Import ListNotations.

(** printing: the rendered text is the same for every arrangement of the dictionary ... *)
Theorem C10_display_order_independent :
  forall a d d', Permutation d d' -> v_display (VArr a d) = v_display (VArr a d').
Proof. exact display_order_independent. Qed.

(** ... and depends on nested values only through their own renderings (so this nests) *)
Theorem C10_display_congruence :
  forall a a' d d', map v_display a = map v_display a' -> map render_entry d = map render_entry d' ->
  v_display (VArr a d) = v_display (VArr a' d').
Proof. exact display_congruence. Qed.

(** join: the joined text, and which element an error names, are the same for every arrangement *)
Theorem C10_join_order_independent :
  forall a d d' delim, NoDup (map fst d) -> Permutation d d' -> v_join (VArr a d) delim = v_join (VArr a d') delim.
Proof. exact join_order_independent. Qed.

Theorem C10_val_iter_order_independent :
  forall a d d', NoDup (map fst d) -> Permutation d d' -> val_iter a d = val_iter a d'.
Proof. exact val_iter_order_independent. Qed.

(** comparison: equality of arrays sees dictionaries as finite maps *)
Theorem C10_val_eq_order_independent :
  forall xa xd ya yd yd', NoDup (map fst yd) -> Permutation yd yd' ->
  val_eq (VArr xa xd) (VArr ya yd) = val_eq (VArr xa xd) (VArr ya yd').
Proof. exact val_eq_order_independent_r. Qed.

(** lookups by key do not depend on the arrangement *)
Theorem C10_dict_get_order_independent :
  forall k d d', NoDup (map fst d) -> Permutation d d' -> dict_get k d = dict_get k d'.
Proof. exact dict_get_perm. Qed.

(** sorting (used by Display and by the linter's postprocess on keys) is a function of the multiset *)
Theorem C10_sorted_strings_order_independent :
  forall l1 l2, Permutation l1 l2 -> isort str_compare l1 = isort str_compare l2.
Proof. exact sorted_strings_order_independent. Qed.

(** the distinct-keys side condition above holds for every array a run computes (Proofs/InterpWf.v):
    whatever arrangement the table of such an array has, joining, iterating, comparing, looking up
    and printing it give the same thing *)
Theorem C10_runtime_array_order_independent :
  forall prof f x e a d e1 d',
  wf_env e -> produce_expr prof f x e = XOk (VArr a d) e1 -> Permutation d d' ->
  (forall delim, v_join (VArr a d) delim = v_join (VArr a d') delim) /\
  val_iter a d = val_iter a d' /\
  (forall xa xd, val_eq (VArr xa xd) (VArr a d) = val_eq (VArr xa xd) (VArr a d')) /\
  (forall k, dict_get k d = dict_get k d') /\
  v_display (VArr a d) = v_display (VArr a d').
Proof. exact runtime_array_order_independent. Qed.

Example C10_example :
  let d1 := [(KStr (lit "z"), VStr (lit "1")); (KStr (lit "m"), VStr (lit "2")); (KNull, VStr (lit "3"))] in
  let d2 := [(KNull, VStr (lit "3")); (KStr (lit "z"), VStr (lit "1")); (KStr (lit "m"), VStr (lit "2"))] in
  v_join (VArr [] d1) None = Ok (VStr (lit "321")) /\ v_join (VArr [] d2) None = Ok (VStr (lit "321")) /\
  v_display (VArr [] d1) = v_display (VArr [] d2) /\ val_eq (VArr [] d1) (VArr [] d2) = true.
Proof. vm_compute. repeat split; reflexivity. Qed.

(** the model's fuel is not an input: whenever two evaluations of the same program on the same input both
    finish (with a result, an error, or the resource budget), they give the same outcome — value, error,
    variables and every byte written *)
Theorem C10_outcome_unique :
  forall prof f1 f2 p c,
  exec_program prof f1 p c <> XOutOfFuel -> exec_program prof f2 p c <> XOutOfFuel ->
  exec_program prof f1 p c = exec_program prof f2 p c.
Proof. exact outcome_unique. Qed.

(** nor is the build: a debug build and a release build of the interpreter compute the same run — every byte written,
    the outcome, the final variables (the debug-only assertions are the only difference between the two, and none
    of them can fail) *)
Theorem C10_build_profile_irrelevant :
  forall fuel p c, exec_program Debug fuel p c = exec_program Release fuel p c.
Proof. exact profile_irrelevant. Qed.

(** ... and the front end: on every source shorter than 4 GiB both builds produce the same tokens and the same tree or
    the same syntax error *)
Theorem C10_front_end_profile_irrelevant :
  forall src, (byte_len src < u32_limit)%N -> lex Debug src = lex Release src /\ parse Debug src = parse Release src.
Proof. exact front_end_profile_irrelevant. Qed.

Print Assumptions C10_join_order_independent.
Print Assumptions C10_runtime_array_order_independent.
Print Assumptions C10_outcome_unique.
Print Assumptions C10_build_profile_irrelevant.
Print Assumptions C10_front_end_profile_irrelevant.
