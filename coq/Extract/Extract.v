(** Extraction of the executable model for the correspondence driver.
    Only ExtrOcamlBasic is used: bool, option, unit, list, prod, sumbool map to OCaml's own
    types; N, Z, positive, nat, comparison, spec_float stay Coq datatypes. *)
From Coq Require Import ExtrOcamlBasic.
From Coq Require Import ZArith NArith List Floats.SpecFloat.
From RRSS Require Import Base.Outcome Base.UnicodeTables Base.Chars Base.F64 Base.F64Text Exec.Val Exec.ValErrorText.
From RRSS Require Import Front.Token Front.Lexer Front.Parser Front.ParseErrorText.
From RRSS Require Import Analysis.Visit Analysis.VisitRecorder Analysis.Fold Lint.Lint.
From RRSS Require Import Exec.Ops Front.Ast Front.Poetic Exec.Env Exec.Interp Exec.RtErrorText.
Extraction Language OCaml.
Extraction "model.ml"
  is_alphabetic is_numeric is_whitespace is_uppercase is_lowercase char_to_lowercase
  f64_display f64_parse i64_from_str_radix fpowi f_of_Z fadd fsub fmul fdiv
  fceil ffloor fround ftrunc f_to_usize f_to_i64
  v_index v_update_at v_push v_pop v_decay to_string_for_output is_truthy
  v_equals v_compare v_inc v_plus v_multiply v_subtract v_divide v_negate
  v_round_up v_round_down v_round_nearest v_split v_join v_cast v_display
  val_error_display val_error_name
  binop_apply unop_apply compute_value poetic_digits exec_program rt_error_display rt_error_name
  range_concat range_new stmt_line block_line lower_name
  lex match_keyword ttype_name is_word parse parse_error_display perr_code_name perr_line
  record_program events_program fold_num fold_str lint diag_display
  alphabetic_ranges numeric_ranges whitespace_ranges uppercase_ranges lowercase_ranges tolower_table.
