(** Outcomes of model functions: every Rust failure mode is explicit. *)
From Coq Require Import List ZArith NArith Bool.
Import ListNotations.

(** One constructor per class of Rust crash site; the [N] / string payloads name the site. *)
Inductive site :=
  | SiteUnwrap (where_ : nat)        (* Option/Result::unwrap on None/Err *)
  | SiteSlice (where_ : nat)         (* checked slice out of bounds / not a char boundary (debug) *)
  | SiteAssert (where_ : nat)        (* assert!/unreachable!/unimplemented! *)
  | SiteDebugAssert (where_ : nat)   (* debug_assert! (debug profile only) *)
  | SiteUnchecked (where_ : nat)     (* violated precondition of an unchecked/unsafe op *)
  | SiteOverflow (where_ : nat).     (* arithmetic overflow (debug) *)

Inductive res (E A : Type) : Type :=
  | Ok (a : A)
  | Err (e : E)
  | Panic (s : site)
  | UB (s : site)
  | OutOfFuel
  | OverBudget.
Arguments Ok {E A} a.
Arguments Err {E A} e.
Arguments Panic {E A} s.
Arguments UB {E A} s.
Arguments OutOfFuel {E A}.
Arguments OverBudget {E A}.

Inductive profile := Debug | Release.

Definition bind {E A B} (m : res E A) (f : A -> res E B) : res E B :=
  match m with
  | Ok a => f a
  | Err e => Err e
  | Panic s => Panic s
  | UB s => UB s
  | OutOfFuel => OutOfFuel
  | OverBudget => OverBudget
  end.

Definition rmap {E A B} (f : A -> B) (m : res E A) : res E B :=
  bind m (fun a => Ok (f a)).

Definition map_err {E F A} (f : E -> F) (m : res E A) : res F A :=
  match m with
  | Ok a => Ok a
  | Err e => Err (f e)
  | Panic s => Panic s
  | UB s => UB s
  | OutOfFuel => OutOfFuel
  | OverBudget => OverBudget
  end.

Declare Scope res_scope.
Delimit Scope res_scope with res.
Notation "'let*' x ':=' m 'in' f" := (bind m (fun x => f))
  (at level 200, x pattern, m at level 100, f at level 200, right associativity) : res_scope.
Notation "m ';;' f" := (bind m (fun _ => f))
  (at level 100, f at level 200, right associativity) : res_scope.
Open Scope res_scope.

Definition debug_assert {E} (p : profile) (s : nat) (c : bool) : res E unit :=
  match p with
  | Debug => if c then Ok tt else Panic (SiteDebugAssert s)
  | Release => Ok tt
  end.

Definition is_ok {E A} (r : res E A) : bool := match r with Ok _ => true | _ => false end.
Definition is_err {E A} (r : res E A) : bool := match r with Err _ => true | _ => false end.
(** The outcome is a crash (panic or undefined behaviour). *)
Definition is_crash {E A} (r : res E A) : bool :=
  match r with Panic _ | UB _ => true | _ => false end.
(** The outcome is a value the Rust function can return. *)
Definition returns {E A} (r : res E A) : Prop :=
  match r with Ok _ | Err _ => True | _ => False end.
(** No crash: returns, or the model ran out of its budgets. *)
Definition safe {E A} (r : res E A) : Prop :=
  match r with Panic _ | UB _ => False | _ => True end.

Lemma bind_ok {E A B} (m : res E A) (f : A -> res E B) b :
  bind m f = Ok b -> exists a, m = Ok a /\ f a = Ok b.
Proof. destruct m; simpl; try discriminate. eauto. Qed.

Lemma bind_safe {E A B} (m : res E A) (f : A -> res E B) :
  safe m -> (forall a, m = Ok a -> safe (f a)) -> safe (bind m f).
Proof. destruct m; simpl; auto. Qed.

Fixpoint mapM {E A B} (f : A -> res E B) (l : list A) : res E (list B) :=
  match l with
  | [] => Ok []
  | x :: xs => let* y := f x in let* ys := mapM f xs in Ok (y :: ys)
  end.
