(** Float <-> text as Rust std does it.
    [f64_display]: a port of core::num::flt2dec::strategy::dragon::format_shortest
    (shortest digits that round-trip; on an exact tie the last digit is rounded UP)
    in the no-exponent layout of [impl Display for f64].
    [f64_parse]: the grammar of [str::parse::<f64>] with correct rounding.
    Agreement with std on concrete inputs is checked by suite F64 (not proved). *)
From Coq Require Import ZArith NArith Bool List Floats.SpecFloat.
From RRSS Require Import Base.Chars Base.F64.
Import ListNotations.
Open Scope Z_scope.

(** * Display *)

Definition bit_length (z : Z) : Z := Zdigits2 z.

Record decoded := { d_mant : Z; d_minus : Z; d_plus : Z; d_exp : Z; d_incl : bool }.

Definition decode (m : positive) (e : Z) : decoded :=
  if Zpos (digits2_pos m) <? prec then
    (* subnormal: Rust's mantissa is frac << 1, always even *)
    {| d_mant := 2 * Zpos m; d_minus := 1; d_plus := 1; d_exp := e - 1; d_incl := true |}
  else if Zpos m =? 2 ^ 52 then
    {| d_mant := 4 * Zpos m; d_minus := 1; d_plus := 2; d_exp := e - 2; d_incl := true |}
  else
    {| d_mant := 2 * Zpos m; d_minus := 1; d_plus := 1; d_exp := e - 1; d_incl := Z.even (Zpos m) |}.

Definition lt_incl (incl : bool) (a b : Z) : bool := if incl then a <=? b else a <? b.

(** Digit generation; returns digits (most significant first), and the final (mant, down, up). *)
Fixpoint gen_digits (fuel : nat) (incl : bool) (scale mant minus plus : Z) (acc : list Z)
  : list Z * Z * bool * bool :=
  match fuel with
  | O => (rev acc, mant, true, false)
  | S fuel' =>
      let dg := mant / scale in
      let mant := mant mod scale in
      let acc := dg :: acc in
      let down := lt_incl incl mant minus in
      let up := lt_incl incl scale (mant + plus) in
      if down || up then (rev acc, mant, down, up)
      else gen_digits fuel' incl scale (mant * 10) (minus * 10) (plus * 10) acc
  end.

(** Increment a digit string (as a reversed list); returns carry-out. *)
Fixpoint inc_rev (l : list Z) : list Z * bool :=
  match l with
  | [] => ([], true)
  | d :: t => if d =? 9 then let '(t', c) := inc_rev t in (0 :: t', c) else ((d + 1) :: t, false)
  end.

Definition shortest_digits (m : positive) (e : Z) : list Z * Z :=
  let d := decode m e in
  let mant := d_mant d in let minus := d_minus d in let plus := d_plus d in
  let exp := d_exp d in let incl := d_incl d in
  let nbits := bit_length (mant + plus - 1) in
  let k := Z.shiftr ((nbits + exp) * 1292913986) 32 in
  let scale := if exp <? 0 then Z.pow 2 (- exp) else 1 in
  let sh := if exp <? 0 then 1 else Z.pow 2 exp in
  let mant := mant * sh in let minus := minus * sh in let plus := plus * sh in
  let scale := if 0 <=? k then scale * Z.pow 10 k else scale in
  let mu := if 0 <=? k then 1 else Z.pow 10 (- k) in
  let mant := mant * mu in let minus := minus * mu in let plus := plus * mu in
  let fix_ := lt_incl incl scale (mant + plus) in
  let k := if fix_ then k + 1 else k in
  let mu2 := if fix_ then 1 else 10 in
  let mant := mant * mu2 in let minus := minus * mu2 in let plus := plus * mu2 in
  let '(digs, rem, down, up) := gen_digits 40 incl scale mant minus plus [] in
  if up && (negb down || (scale <=? rem * 2)) then
    let '(r, carry) := inc_rev (rev digs) in
    if carry then (1 :: rev r, k + 1) else (rev r, k)
  else (digs, k).

Definition digit_char (d : Z) : char := Z.to_N (48 + d).

Fixpoint zeros (n : nat) : str := match n with O => [] | S n' => 48%N :: zeros n' end.

Definition layout (digs : list Z) (k : Z) : str :=
  let ds := map digit_char digs in
  let n := Z.of_nat (length ds) in
  if k <=? 0 then [48%N; 46%N] ++ zeros (Z.to_nat (- k)) ++ ds
  else if n <=? k then ds ++ zeros (Z.to_nat (k - n))
  else firstn (Z.to_nat k) ds ++ [46%N] ++ skipn (Z.to_nat k) ds.

Definition f64_display (x : f64) : str :=
  match x with
  | S754_nan => lit "NaN"
  | S754_infinity s => if s then lit "-inf" else lit "inf"
  | S754_zero s => if s then lit "-0" else lit "0"
  | S754_finite s m e =>
      let '(digs, k) := shortest_digits m e in
      (if s then [45%N] else []) ++ layout digs k
  end.

(** * Parse *)

Definition parse_dec (neg : bool) (m e10 : Z) : f64 :=
  match m with
  | 0 => S754_zero neg
  | _ =>
    if 0 <=? e10 then
      match binary_normalize prec emax (m * 10 ^ e10) 0 false with
      | S754_finite _ mm ee => S754_finite neg mm ee
      | S754_infinity _ => S754_infinity neg
      | S754_zero _ => S754_zero neg
      | S754_nan => S754_nan
      end
    else
      let '(q, e', l) := SFdiv_core_binary prec emax m 0 (10 ^ (- e10)) 0 in
      binary_round_aux prec emax neg q e' l
  end.

(** Consume leading ASCII digits: returns (value, count, rest). *)
Fixpoint take_digits (s : str) (acc : Z) (n : Z) : Z * Z * str :=
  match s with
  | c :: t => if is_ascii_digit c then take_digits t (acc * 10 + (Z.of_N c - 48)) (n + 1) else (acc, n, s)
  | [] => (acc, n, s)
  end.

(** Exponent digits with Rust's saturation (stops accumulating at >= 0x10000). *)
Fixpoint take_exp_digits (s : str) (acc : Z) (n : Z) : Z * Z * str :=
  match s with
  | c :: t =>
      if is_ascii_digit c then
        take_exp_digits t (if acc <? 65536 then acc * 10 + (Z.of_N c - 48) else acc) (n + 1)
      else (acc, n, s)
  | [] => (acc, n, s)
  end.

Definition ascii_upper (c : char) : char := if is_ascii_lower c then (c - 32)%N else c.
Definition str_eq_nocase (s : str) (upper : str) : bool := str_eqb (map ascii_upper s) upper.

(** number of decimal digits of a positive integer, by repeated division (fuel = bit length) *)
Fixpoint ndigits10 (fuel : nat) (m : Z) : Z :=
  match fuel with
  | O => 0
  | S f => if m <=? 0 then 0 else 1 + ndigits10 f (m / 10)
  end.

Definition parse_inf_nan (neg : bool) (s : str) : option f64 :=
  if str_eq_nocase s (lit "INF") || str_eq_nocase s (lit "INFINITY") then Some (S754_infinity neg)
  else if str_eq_nocase s (lit "NAN") then Some S754_nan
  else None.

Definition parse_number (neg : bool) (s : str) : option f64 :=
  let '(m1, n1, s1) := take_digits s 0 0 in
  let '(m2, n2, s2) :=
    match s1 with
    | 46%N :: t => take_digits t m1 0
    | _ => (m1, 0, s1)
    end in
  if n1 + n2 =? 0 then None else
  let exp_part : option (Z * str) :=
    match s2 with
    | c :: t =>
        if (c =? 101)%N || (c =? 69)%N then
          let '(eneg, t') :=
            match t with
            | 45%N :: u => (true, u)
            | 43%N :: u => (false, u)
            | _ => (false, t)
            end in
          let '(ev, en, rest) := take_exp_digits t' 0 0 in
          if en =? 0 then None else Some (if eneg then - ev else ev, rest)
        else Some (0, s2)
    | [] => Some (0, s2)
    end in
  match exp_part with
  | None => None
  | Some (ev, rest) =>
      match rest with
      | _ :: _ => None
      | [] =>
          let e10 := ev - n2 in
          if m2 =? 0 then Some (S754_zero neg) else
          let d := ndigits10 (Z.to_nat (bit_length m2)) m2 in
          if 310 <? e10 + d then Some (S754_infinity neg)
          else if e10 + d <? -330 then Some (S754_zero neg)
          else Some (parse_dec neg m2 e10)
      end
  end.

Definition f64_parse (s : str) : option f64 :=
  match s with
  | [] => None
  | c :: t =>
      let neg := (c =? 45)%N in
      let body := if (c =? 45)%N || (c =? 43)%N then t else s in
      match body with
      | [] => None
      | _ =>
          match parse_number neg body with
          | Some v => Some v
          | None => parse_inf_nan neg body
          end
      end
  end.

(** * i64::from_str_radix for 2 <= radix <= 36 (the caller guards the radix). *)
Definition digit_of_char (radix : Z) (c : char) : option Z :=
  let v :=
    if is_ascii_digit c then Z.of_N c - 48
    else if is_ascii_lower c then Z.of_N c - 97 + 10
    else if is_ascii_upper c then Z.of_N c - 65 + 10
    else 99 in
  if v <? radix then Some v else None.

Fixpoint radix_digits (radix : Z) (s : str) (acc : Z) : option Z :=
  match s with
  | [] => Some acc
  | c :: t =>
      match digit_of_char radix c with
      | Some d => radix_digits radix t (acc * radix + d)
      | None => None
      end
  end.

Definition i64_from_str_radix (s : str) (radix : Z) : option Z :=
  match s with
  | [] => None
  | c :: t =>
      let '(neg, body) :=
        if (c =? 45)%N then (true, t) else if (c =? 43)%N then (false, t) else (false, s) in
      match body with
      | [] => None
      | _ =>
          match radix_digits radix body 0 with
          | Some v =>
              let v := if neg then - v else v in
              if (i64_min <=? v) && (v <=? i64_max) then Some v else None
          | None => None
          end
      end
  end.
