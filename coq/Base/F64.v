(** IEEE-754 binary64 as the standard library's [spec_float] at (53, 1024).
    Plain computable definitions over Z/positive: no proof fields, extracts cleanly. *)
From Coq Require Import ZArith NArith Bool List Floats.SpecFloat.
Import ListNotations.
Open Scope Z_scope.

Definition prec := 53.
Definition emax := 1024.

Definition f64 := spec_float.

Definition fadd : f64 -> f64 -> f64 := SFadd prec emax.
Definition fsub : f64 -> f64 -> f64 := SFsub prec emax.
Definition fmul : f64 -> f64 -> f64 := SFmul prec emax.
Definition fdiv : f64 -> f64 -> f64 := SFdiv prec emax.
Definition fneg : f64 -> f64 := SFopp.
(** [partial_cmp] *)
Definition fcompare : f64 -> f64 -> option comparison := SFcompare.
(** [==] *)
Definition feqb : f64 -> f64 -> bool := SFeqb.
Definition fleb : f64 -> f64 -> bool := SFleb.

Arguments fadd : simpl never.
Arguments fsub : simpl never.
Arguments fmul : simpl never.
Arguments fdiv : simpl never.
Arguments fcompare : simpl never.
Arguments feqb : simpl never.
Arguments fleb : simpl never.

Definition fzero : f64 := S754_zero false.
Definition fnegzero : f64 := S754_zero true.
Definition fnan : f64 := S754_nan.

Definition f_of_Z (z : Z) : f64 := binary_normalize prec emax z 0 false.
Definition f_of_N (n : N) : f64 := f_of_Z (Z.of_N n).
Definition fone : f64 := f_of_Z 1.

Definition f_is_nan (x : f64) : bool := match x with S754_nan => true | _ => false end.
Definition f_is_finite (x : f64) : bool :=
  match x with S754_zero _ | S754_finite _ _ _ => true | _ => false end.
Definition f_sign (x : f64) : bool :=
  match x with
  | S754_zero s | S754_infinity s | S754_finite s _ _ => s
  | S754_nan => false
  end.

(** Integer part (magnitude) and whether a non-zero fraction was discarded / its relation to 1/2. *)
Definition split_int (m : positive) (e : Z) : Z * comparison * bool :=
  (* returns (q, cmp (2*r) (2^k), r =? 0) where m = q*2^k + r, k = -e > 0 *)
  match e with
  | Zneg k =>
      let d := Z.pow 2 (Zpos k) in
      let q := Z.div (Zpos m) d in
      let r := Z.modulo (Zpos m) d in
      (q, Z.compare (2 * r) d, Z.eqb r 0)
  | _ => (Zpos m * Z.pow 2 e, Lt, true)
  end.

Definition f_of_mag (s : bool) (q : Z) : f64 :=
  match q with
  | Z0 => S754_zero s
  | _ => binary_normalize prec emax (if s then Z.opp q else q) 0 s
  end.

Definition ftrunc (x : f64) : f64 :=
  match x with
  | S754_finite s m e =>
      if 0 <=? e then x else let '(q, _, _) := split_int m e in f_of_mag s q
  | _ => x
  end.

Definition fceil (x : f64) : f64 :=
  match x with
  | S754_finite s m e =>
      if 0 <=? e then x else
      let '(q, _, exact) := split_int m e in
      f_of_mag s (if negb s && negb exact then q + 1 else q)
  | _ => x
  end.

Definition ffloor (x : f64) : f64 :=
  match x with
  | S754_finite s m e =>
      if 0 <=? e then x else
      let '(q, _, exact) := split_int m e in
      f_of_mag s (if s && negb exact then q + 1 else q)
  | _ => x
  end.

(** [f64::round]: half away from zero. *)
Definition fround (x : f64) : f64 :=
  match x with
  | S754_finite s m e =>
      if 0 <=? e then x else
      let '(q, half, _) := split_int m e in
      f_of_mag s (match half with Lt => q | _ => q + 1 end)
  | _ => x
  end.

(** Rust's saturating [as usize] on a 64-bit target: NaN and negatives give 0. *)
Definition usize_max : Z := 2 ^ 64 - 1.
Definition f_to_usize (x : f64) : N :=
  match x with
  | S754_finite false m e =>
      let '(q, _, _) := split_int m e in Z.to_N (Z.min q usize_max)
  | S754_infinity false => Z.to_N usize_max
  | _ => 0%N
  end.

Definition i64_max : Z := 2 ^ 63 - 1.
Definition i64_min : Z := - 2 ^ 63.
(** Rust's saturating [as i64]. *)
Definition f_to_i64 (x : f64) : Z :=
  match x with
  | S754_finite s m e =>
      let '(q, _, _) := split_int m e in
      if s then Z.max (- q) i64_min else Z.min q i64_max
  | S754_infinity s => if s then i64_min else i64_max
  | _ => 0
  end.

(** compiler-rt / compiler-builtins [__powidf2]: repeated squaring on |n|, reciprocal if n < 0. *)
Fixpoint powi_loop (fuel : nat) (a r : f64) (b : Z) : f64 :=
  match fuel with
  | O => r
  | S fuel' =>
      let r' := if Z.odd b then fmul r a else r in
      let b' := Z.div2 b in
      if b' =? 0 then r' else powi_loop fuel' (fmul a a) r' b'
  end.

Definition fpowi (a : f64) (n : Z) : f64 :=
  let r := powi_loop 40 a fone (Z.abs n) in
  if n <? 0 then fdiv fone r else r.

(** [a != 0.0] *)
Definition f_nonzero (x : f64) : bool := negb (feqb x fzero).

Definition f_is_integer (x : f64) : bool := feqb (ftrunc x) x.
