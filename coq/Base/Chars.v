(** Characters (Unicode scalar values as [N]) and strings (lists of characters). *)
From Coq Require Import List NArith ZArith Bool Lia.
From RRSS Require Import Base.UnicodeTables.
Import ListNotations.
Open Scope N_scope.

Definition char := N.
Definition str := list char.

(** Sorted range table lookup with early exit. *)
Fixpoint in_ranges (c : N) (l : list (N * N)) : bool :=
  match l with
  | [] => false
  | (lo, hi) :: t => if c <? lo then false else if c <=? hi then true else in_ranges c t
  end.

Fixpoint assoc_sorted {A} (c : N) (l : list (N * A)) : option A :=
  match l with
  | [] => None
  | (k, v) :: t => if c <? k then None else if c =? k then Some v else assoc_sorted c t
  end.

Definition is_alphabetic (c : char) : bool := in_ranges c alphabetic_ranges.
Definition is_numeric (c : char) : bool := in_ranges c numeric_ranges.
Definition is_whitespace (c : char) : bool := in_ranges c whitespace_ranges.
Definition is_uppercase (c : char) : bool := in_ranges c uppercase_ranges.
Definition is_lowercase (c : char) : bool := in_ranges c lowercase_ranges.
Definition char_to_lowercase (c : char) : list char :=
  match assoc_sorted c tolower_table with Some l => l | None => [c] end.

Definition is_scalar_value (c : N) : bool :=
  (c <? 55296) || ((57343 <? c) && (c <? 1114112)).

Definition utf8_len (c : char) : N :=
  if c <? 128 then 1 else if c <? 2048 then 2 else if c <? 65536 then 3 else 4.

Fixpoint byte_len (s : str) : N :=
  match s with [] => 0 | c :: t => utf8_len c + byte_len t end.

Definition is_ascii_digit (c : char) : bool := (48 <=? c) && (c <=? 57).
Definition is_ascii_upper (c : char) : bool := (65 <=? c) && (c <=? 90).
Definition is_ascii_lower (c : char) : bool := (97 <=? c) && (c <=? 122).
Definition is_ascii_alphanumeric (c : char) : bool :=
  is_ascii_digit c || is_ascii_upper c || is_ascii_lower c.
(** Rust's [char::is_ascii_punctuation]: 33..=47, 58..=64, 91..=96, 123..=126. *)
Definition is_ascii_punctuation (c : char) : bool :=
  ((33 <=? c) && (c <=? 47)) || ((58 <=? c) && (c <=? 64)) ||
  ((91 <=? c) && (c <=? 96)) || ((123 <=? c) && (c <=? 126)).

Definition str_to_lowercase (s : str) : str := flat_map char_to_lowercase s.

Fixpoint str_eqb (a b : str) : bool :=
  match a, b with
  | [], [] => true
  | x :: a', y :: b' => (x =? y) && str_eqb a' b'
  | _, _ => false
  end.

Fixpoint str_compare (a b : str) : comparison :=
  match a, b with
  | [], [] => Eq
  | [], _ :: _ => Lt
  | _ :: _, [] => Gt
  | x :: a', y :: b' =>
      match x ?= y with Eq => str_compare a' b' | c => c end
  end.

Fixpoint starts_with (p s : str) : bool :=
  match p, s with
  | [], _ => true
  | x :: p', y :: s' => (x =? y) && starts_with p' s'
  | _ :: _, [] => false
  end.

Fixpoint strip_prefix (p s : str) : option str :=
  match p, s with
  | [], _ => Some s
  | x :: p', y :: s' => if x =? y then strip_prefix p' s' else None
  | _ :: _, [] => None
  end.

Definition strip_suffix (p s : str) : option str :=
  match strip_prefix (rev p) (rev s) with Some r => Some (rev r) | None => None end.

(** ASCII string literals: conversion from Coq strings, for readable models. *)
From Coq Require Strings.String Strings.Ascii.
Export String.StringSyntax Ascii.AsciiSyntax.
Delimit Scope string_scope with string.
Delimit Scope char_scope with char.
Fixpoint lit (s : String.string) : str :=
  match s with
  | String.EmptyString => []
  | String.String a t => Ascii.N_of_ascii a :: lit t
  end.

Arguments lit s%string.
Definition ch (a : Ascii.ascii) : char := Ascii.N_of_ascii a.
Arguments ch a%char.

Lemma str_eqb_refl s : str_eqb s s = true.
Proof. induction s; simpl; auto. rewrite N.eqb_refl; auto. Qed.

Lemma str_eqb_eq a b : str_eqb a b = true <-> a = b.
Proof.
  revert b; induction a as [|x a IH]; destruct b as [|y b]; simpl; split; intro H;
    try discriminate; auto.
  - apply andb_true_iff in H as [H1 H2]. apply N.eqb_eq in H1. apply IH in H2. congruence.
  - inversion H; subst. rewrite N.eqb_refl. simpl. apply IH; auto.
Qed.

Lemma str_eqb_sym a b : str_eqb a b = str_eqb b a.
Proof.
  revert b; induction a as [|x a IH]; destruct b as [|y b]; simpl; auto.
  rewrite N.eqb_sym, IH; auto.
Qed.

Lemma str_compare_antisym a b : str_compare b a = CompOpp (str_compare a b).
Proof.
  revert b; induction a as [|x a IH]; destruct b as [|y b]; simpl; auto.
  rewrite (N.compare_antisym x y). destruct (x ?= y); simpl; auto.
Qed.

Lemma str_compare_eq a b : str_compare a b = Eq <-> a = b.
Proof.
  revert b; induction a as [|x a IH]; destruct b as [|y b]; simpl; split; intro H;
    try discriminate; auto.
  - destruct (x ?= y) eqn:E; try discriminate. apply N.compare_eq in E. apply IH in H. congruence.
  - inversion H; subst. rewrite N.compare_refl. apply IH; auto.
Qed.
