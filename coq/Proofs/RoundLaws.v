(** C07: `turn up / down / round` choose the right integer.  For a finite number with a fractional
    part (mantissa m, exponent -k: the value is ±m / 2^k) the result is the float of an integer z
    characterised here in exact integer arithmetic on the mantissa; numbers without fraction bits,
    zeros, infinities and NaN are returned unchanged. *)
From Coq Require Import List ZArith NArith Bool Lia Floats.SpecFloat.
From RRSS Require Import Base.Outcome Base.Chars Base.F64 Exec.Val.
Open Scope Z_scope.

Definition signed (s : bool) (x : Z) : Z := if s then - x else x.

(** the value of [S754_finite s m (Zneg k)] is [signed s m / 2^k] *)

Lemma split_int_spec m k :
  let d := 2 ^ Zpos k in
  let '(q, half, exact) := split_int m (Zneg k) in
  exists r, Zpos m = q * d + r /\ 0 <= r < d /\ 0 <= q /\ exact = (r =? 0) /\ half = (2 * r ?= d).
Proof.
  cbn [split_int]. set (d := 2 ^ Z.pos k).
  assert (Hd : 0 < d) by (apply Z.pow_pos_nonneg; lia).
  exists (Z.pos m mod d). repeat split; auto.
  - rewrite Z.mul_comm. apply Z.div_mod. lia.
  - apply Z.mod_pos_bound; lia.
  - apply Z.mod_pos_bound; lia.
  - apply Z.div_pos; lia.
Qed.

(** round down: the greatest integer not above the value *)
Theorem ffloor_spec s m k :
  exists z, ffloor (S754_finite s m (Zneg k)) = f_of_mag s (Z.abs z) /\
            z * 2 ^ Zpos k <= signed s (Zpos m) < (z + 1) * 2 ^ Zpos k /\ (z <= 0 <-> s = true \/ z = 0).
Proof.
  cbn [ffloor Z.leb Z.compare]. pose proof (split_int_spec m k) as H. cbv zeta in H.
  destruct (split_int m (Zneg k)) as [[q half] exact]. destruct H as (r & Hm & Hr & Hq & He & _).
  set (d := 2 ^ Z.pos k) in *. subst exact.
  destruct s; cbn [andb negb signed].
  - destruct (r =? 0) eqn:E; cbn [negb].
    + apply Z.eqb_eq in E. exists (- q). rewrite Z.abs_opp, Z.abs_eq by lia. repeat split; try nia; intros; auto; lia.
    + apply Z.eqb_neq in E. exists (- (q + 1)). rewrite Z.abs_opp, Z.abs_eq by lia. repeat split; try nia; intros; auto; lia.
  - exists q. rewrite Z.abs_eq by lia. repeat split; try nia.
    all: try (intro H; right; lia); try (intros [H|H]; [discriminate|lia]).
Qed.

(** round up: the least integer not below the value *)
Theorem fceil_spec s m k :
  exists z, fceil (S754_finite s m (Zneg k)) = f_of_mag s (Z.abs z) /\
            (z - 1) * 2 ^ Zpos k < signed s (Zpos m) <= z * 2 ^ Zpos k.
Proof.
  cbn [fceil Z.leb Z.compare]. pose proof (split_int_spec m k) as H. cbv zeta in H.
  destruct (split_int m (Zneg k)) as [[q half] exact]. destruct H as (r & Hm & Hr & Hq & He & _).
  set (d := 2 ^ Z.pos k) in *. subst exact.
  destruct s; cbn [andb negb signed].
  - exists (- q). rewrite Z.abs_opp, Z.abs_eq by lia. split; [reflexivity|nia].
  - destruct (r =? 0) eqn:E; cbn [negb].
    + apply Z.eqb_eq in E. exists q. rewrite Z.abs_eq by lia. split; [reflexivity|nia].
    + apply Z.eqb_neq in E. exists (q + 1). rewrite Z.abs_eq by lia. split; [reflexivity|nia].
Qed.

(** round to nearest: an integer within one half of the value; exactly half way, the one farther from zero *)
Theorem fround_spec s m k :
  exists z, fround (S754_finite s m (Zneg k)) = f_of_mag s (Z.abs z) /\
            2 * Z.abs (signed s (Zpos m) - z * 2 ^ Zpos k) <= 2 ^ Zpos k /\
            (2 * Z.abs (signed s (Zpos m) - z * 2 ^ Zpos k) = 2 ^ Zpos k -> Z.abs z * 2 ^ Zpos k > Zpos m).
Proof.
  cbn [fround Z.leb Z.compare]. pose proof (split_int_spec m k) as H. cbv zeta in H.
  destruct (split_int m (Zneg k)) as [[q half] exact]. destruct H as (r & Hm & Hr & Hq & _ & Hh).
  set (d := 2 ^ Z.pos k) in *. subst half.
  destruct (Z.compare_spec (2 * r) d) as [E|E|E].
  - exists (signed s (q + 1)). destruct s; cbn [signed].
    + rewrite Z.abs_opp, Z.abs_eq by lia. repeat split; try reflexivity; try lia; nia.
    + rewrite Z.abs_eq by lia. repeat split; try reflexivity; try lia; nia.
  - exists (signed s q). destruct s; cbn [signed].
    + rewrite Z.abs_opp, Z.abs_eq by lia. repeat split; try reflexivity; try lia; nia.
    + rewrite Z.abs_eq by lia. repeat split; try reflexivity; try lia; nia.
  - exists (signed s (q + 1)). destruct s; cbn [signed].
    + rewrite Z.abs_opp, Z.abs_eq by lia. repeat split; try reflexivity; try lia; nia.
    + rewrite Z.abs_eq by lia. repeat split; try reflexivity; try lia; nia.
Qed.

(** numbers without fraction bits, zeros, infinities and NaN are their own rounding *)
Theorem round_fixed x :
  match x with S754_finite _ _ (Zneg _) => True | _ => ffloor x = x /\ fceil x = x /\ fround x = x end.
Proof. destruct x as [s|s| |s m [|e|e]]; auto. Qed.
