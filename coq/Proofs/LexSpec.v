(** What one step of the lexer produces: a token that is a slice of the source at its true
    position, possibly a staged suffix token, and correct bookkeeping afterwards.  No step
    panics or slices out of bounds (for sources shorter than 4 GiB, the limit of u32 columns). *)
From Coq Require Import List ZArith NArith Bool Lia.
From RRSS Require Import Base.Outcome Base.Chars Base.F64 Base.F64Text Front.Ast Front.Token Front.Lexer.
From RRSS Require Import Proofs.LexBasics Proofs.LexPos.
Import ListNotations.
Open Scope N_scope.

Definition is_apos (c : char) : bool := c =? 39.
Definition ignorable (c : char) : bool := is_ignorable_whitespace c || is_ignorable_punctuation c || (c =? 39).

(** the lexer [lx] stands right after the prefix [pre] of a source [pre ++ s0] *)
Record ctx (lx : lexer) (pre s0 : str) (start : N) : Prop := mkCtx {
  c_start : start = byte_len pre;
  c_pos : pos_at pre = (cur_line lx, line_start lx);
  c_small : byte_len (pre ++ s0) < u32_limit
}.

(** only line-break tokens, string literals, comments and error tokens (an unterminated literal) may contain a line feed *)
Definition nl_kind (id : ttype) : Prop :=
  match id with TNewline | TStringLiteral _ | TComment _ | TError _ => True | _ => False end.
Definition nlk (t : token) : Prop := no_nl (tspell t) = true \/ nl_kind (tid t).

(** the outcome of a producing step on the text [s0] that follows [pre] *)
Definition produced_ok (lx : lexer) (pre s0 : str) (r : lex_result) (stg : option token) : Prop :=
  exists gap2 sp2 rest',
    s0 = tspell (lr_token r) ++ gap2 ++ sp2 ++ rest' /\
    tspell (lr_token r) <> [] /\
    forallb is_apos gap2 = true /\
    tok_wf pre (lr_token r) /\
    match stg with
    | None => sp2 = []
    | Some t2 => sp2 = tspell t2 /\ sp2 <> [] /\ tok_wf (pre ++ tspell (lr_token r) ++ gap2) t2
    end /\
    lr_end r = byte_len pre + byte_len (tspell (lr_token r) ++ gap2 ++ sp2) /\
    pos_at (pre ++ tspell (lr_token r) ++ gap2 ++ sp2) =
      (cur_line lx + lr_newlines r, dflt (line_start lx) (lr_new_line_start r)) /\
    nlk (lr_token r) /\ no_nl sp2 = true.

Lemma substr_ok prof site a b : substr prof site (byte_len a) (a ++ b) = Ok a.
Proof. unfold substr. rewrite take_bytes_app. reflexivity. Qed.

Lemma tok_range_general a sp id : id <> TNewline ->
  tok_range a sp id =
  let '(ln, ls) := pos_at a in
  let '(ln', ls') := pos_at (a ++ sp) in
  mkRange (mkLoc ln (byte_len a - ls)) (mkLoc ln' (byte_len a + byte_len sp - ls')).
Proof. intro H. unfold tok_range. destruct (pos_at a), (pos_at (a ++ sp)). destruct id; try reflexivity. contradiction. Qed.

Lemma ctx_bounds lx pre s0 start : ctx lx pre s0 start ->
  line_start lx <= start /\ start + byte_len s0 < u32_limit.
Proof.
  intros [Hs Hp Hb]. pose proof (pos_at_bounds pre) as B. rewrite Hp in B. rewrite byte_len_app in Hb. lia.
Qed.

Lemma make_loc_ok ln ls off : ls <= off -> off < u32_limit -> make_loc_from ln ls off = Ok (mkLoc ln (off - ls)).
Proof.
  intros H1 H2. unfold make_loc_from.
  destruct (off <? u32_limit) eqn:E1; [|apply N.ltb_ge in E1; lia].
  destruct (ls <=? off) eqn:E2; [|apply N.leb_gt in E2; lia]. reflexivity.
Qed.

(** the range of a token whose spelling has no line break *)
Lemma make_range_line lx pre text rest' start id :
  ctx lx pre (text ++ rest') start -> no_nl text = true -> id <> TNewline ->
  make_range_from (cur_line lx) (line_start lx) start (start + byte_len text) = Ok (tok_range pre text id).
Proof.
  intros C Hn Hid. pose proof (ctx_bounds _ _ _ _ C) as [B1 B2]. destruct C as [Hs Hp Hb].
  rewrite byte_len_app in B2. unfold make_range_from.
  rewrite !make_loc_ok by lia. cbn [bind]. unfold loc_to. rewrite range_new_ordered by (right; split; [reflexivity|lia]).
  rewrite tok_range_general by exact Hid. rewrite pos_at_app_no_nl by exact Hn. rewrite Hp. subst start. reflexivity.
Qed.

Lemma app_nil_tail (sp rest' : str) : sp ++ rest' = sp ++ [] ++ [] ++ rest'.
Proof. reflexivity. Qed.

(** a one-line token without suffix *)
Lemma simple_token_ok prof lx pre text rest' start id :
  ctx lx pre (text ++ rest') start -> no_nl text = true -> text <> [] -> id <> TNewline ->
  exists t, make_token_from prof lx (text ++ rest') start (byte_len text) id = Ok t /\
    tid t = id /\ tspell t = text /\
    produced_ok lx pre (text ++ rest') (simple_result t (start + byte_len text)) None.
Proof.
  intros C Hn Hne Hid. unfold make_token_from. rewrite substr_ok. cbn [bind].
  rewrite (make_range_line lx pre text rest' start id C Hn Hid). cbn [bind].
  eexists. split; [reflexivity|]. split; [reflexivity|]. split; [reflexivity|].
  exists [], [], rest'. cbn [simple_result lr_token lr_end lr_newlines lr_new_line_start tspell dflt].
  destruct C as [Hs Hp Hb].
  repeat split; auto.
  - cbn. rewrite app_nil_r. lia.
  - cbn [app]. rewrite app_nil_r. rewrite pos_at_app_no_nl by exact Hn. rewrite Hp. f_equal. lia.
  - left. exact Hn.
Qed.

Lemma byte_len_single c : byte_len [c] = utf8_len c.
Proof. cbn. lia. Qed.

Lemma char_token_ok prof lx pre c after start id :
  ctx lx pre (c :: after) start -> utf8_len c = 1 -> c <> 10 -> id <> TNewline ->
  exists r, char_token prof lx (c :: after) start id = Ok r /\ produced_ok lx pre (c :: after) r None.
Proof.
  intros C Hu Hc Hid. unfold char_token.
  destruct (simple_token_ok prof lx pre [c] after start id) as (t & Ht & Hti & Hts & Hp); auto.
  - cbn. rewrite andb_true_r. apply negb_true_iff. apply N.eqb_neq. exact Hc.
  - discriminate.
  - rewrite byte_len_single, Hu in Ht. cbn [app] in Ht. rewrite Ht. cbn [bind].
    rewrite byte_len_single, Hu in Hp.
    destruct id; try (eexists; split; [reflexivity|exact Hp]). contradiction.
Qed.

Lemma newline_token_ok prof lx pre (after : str) start :
  ctx lx pre ((10 : char) :: after) start ->
  exists r, char_token prof lx ((10 : char) :: after) start TNewline = Ok r /\
            produced_ok lx pre ((10 : char) :: after) r None.
Proof.
  intros C. pose proof (ctx_bounds _ _ _ _ C) as [B1 B2]. destruct C as [Hs Hp Hb].
  cbn [byte_len] in B2. rewrite utf8_len_10 in B2.
  unfold char_token, make_token_from.
  change (10 :: after) with ([10] ++ after). change 1 with (byte_len [10]) at 1. rewrite substr_ok. cbn [bind].
  unfold make_range_from. rewrite !make_loc_ok by lia. cbn [bind]. unfold loc_to.
  rewrite range_new_ordered by (right; split; [reflexivity|lia]).
  eexists. split; [reflexivity|].
  exists [], [], after. cbn [lr_token lr_end lr_newlines lr_new_line_start tspell tid dflt].
  repeat split; auto.
  - discriminate.
  - unfold tok_wf. cbn [trange tid tspell tstart]. unfold tok_range. rewrite Hp. subst start. do 2 f_equal. lia.
  - cbn. lia.
  - cbn [app]. rewrite pos_at_app, Hp. cbn. f_equal; lia.
  - right. exact I.
Qed.

Lemma two_char_token_ok prof lx pre c d after start id :
  ctx lx pre (c :: d :: after) start -> utf8_len c = 1 -> utf8_len d = 1 -> c <> 10 -> d <> 10 -> id <> TNewline ->
  exists r, two_char_token prof lx (c :: d :: after) start id = Ok r /\ produced_ok lx pre (c :: d :: after) r None.
Proof.
  intros C Hu Hv Hc Hd Hid. unfold two_char_token.
  destruct (simple_token_ok prof lx pre [c; d] after start id) as (t & Ht & Hti & Hts & Hp); auto.
  - cbn. rewrite andb_true_r. apply andb_true_iff. split; apply negb_true_iff; apply N.eqb_neq; auto.
  - discriminate.
  - assert (E : byte_len [c; d] = 2) by (cbn; lia). rewrite E in Ht, Hp. cbn [app] in Ht. rewrite Ht. cbn [bind].
    eexists; split; [reflexivity|exact Hp].
Qed.

(** * Suffix tokens after numbers, strings and comments *)

Lemma starts_with_split p s : starts_with p s = true -> exists r, s = p ++ r.
Proof. intro H. destruct (starts_with_prefix p s H) as [r Hr]. exists r. exact Hr. Qed.

Lemma max_opt_none o : max_opt o None = o.
Proof. destruct o; reflexivity. Qed.

Lemma maybe_suffix_ok prof lx pre sp rest' r :
  nlk (lr_token r) ->
  tspell (lr_token r) = sp -> sp <> [] -> tok_wf pre (lr_token r) ->
  lr_end r = byte_len pre + byte_len sp ->
  pos_at (pre ++ sp) = (cur_line lx + lr_newlines r, dflt (line_start lx) (lr_new_line_start r)) ->
  byte_len (pre ++ sp ++ rest') < u32_limit ->
  exists r' stg, maybe_suffix prof lx r rest' = Ok (r', stg) /\ produced_ok lx pre (sp ++ rest') r' stg.
Proof.
  intros Hk Hsp Hne Hwf He Hpos Hb.
  pose proof (pos_at_bounds (pre ++ sp)) as B. rewrite Hpos in B. rewrite byte_len_app in B.
  rewrite !byte_len_app in Hb.
  unfold maybe_suffix, scan_apostrophe_suffix.
  assert (Hmk : forall sfx id rest'', rest' = sfx ++ rest'' -> no_nl sfx = true -> sfx <> [] -> id <> TNewline ->
     exists r' stg,
       (let* sp0 := substr prof 42 (byte_len sfx) rest' in
        let* r0 := make_range_from (cur_line lx + lr_newlines r)
                     match lr_new_line_start r with Some x => x | None => line_start lx end
                     (lr_end r) (lr_end r + byte_len sfx) in
        Ok (Some (simple_result (mkToken id sp0 (lr_end r) r0) (lr_end r + byte_len sfx)))) = Ok (Some r') /\
       stg = Some (lr_token r') /\
       produced_ok lx pre (sp ++ rest')
         (mkLR (lr_token r) (N.max (lr_end r) (lr_end r')) (lr_newlines r + lr_newlines r')
               (max_opt (lr_new_line_start r) (lr_new_line_start r'))) stg).
  { intros sfx id rest'' -> Hn Hsn Hid. rewrite byte_len_app in Hb.
    rewrite substr_ok. cbn [bind]. unfold make_range_from.
    change (match lr_new_line_start r with Some x => x | None => line_start lx end) with (dflt (line_start lx) (lr_new_line_start r)).
    rewrite !make_loc_ok by lia. cbn [bind].
    unfold loc_to. rewrite range_new_ordered by (right; split; [reflexivity|lia]).
    eexists. eexists. split; [reflexivity|]. split; [reflexivity|].
    exists [], sfx, rest''. cbn [simple_result lr_token lr_end lr_newlines lr_new_line_start tspell].
    rewrite Hsp. destruct Hwf as [Hw1 Hw2]. repeat split; auto.
    - cbn [app tstart]. rewrite app_nil_r. rewrite byte_len_app. lia.
    - cbn [app tstart trange tspell tid]. rewrite app_nil_r.
      rewrite tok_range_general by exact Hid. rewrite (pos_at_app_no_nl (pre ++ sp) sfx Hn). rewrite Hpos.
      rewrite byte_len_app. rewrite He. do 2 f_equal; f_equal; lia.
    - cbn [app]. rewrite byte_len_app. lia.
    - cbn [app]. rewrite app_assoc. rewrite pos_at_app_no_nl by exact Hn. rewrite Hpos.
      rewrite max_opt_none. f_equal. lia. }
  destruct (starts_with (lit "'s") rest') eqn:E1.
  - destruct (starts_with_split _ _ E1) as [r'' Hr].
    destruct (Hmk (lit "'s") TApostropheS r'' Hr) as (r' & stg & H1 & H2 & H3); try reflexivity; try discriminate.
    rewrite H1. cbn [bind]. subst stg. eexists. eexists. split; [reflexivity|exact H3].
  - destruct (starts_with (lit "'re") rest') eqn:E2.
    + destruct (starts_with_split _ _ E2) as [r'' Hr].
      destruct (Hmk (lit "'re") TApostropheRE r'' Hr) as (r' & stg & H1 & H2 & H3); try reflexivity; try discriminate.
      rewrite H1. cbn [bind]. subst stg. eexists. eexists. split; [reflexivity|exact H3].
    + cbn [bind]. eexists. eexists. split; [reflexivity|].
      exists [], [], rest'. rewrite Hsp. destruct Hwf as [Hw1 Hw2]. repeat split; auto.
      * cbn [app]. rewrite app_nil_r. exact He.
      * cbn [app]. rewrite app_nil_r. exact Hpos.
Qed.

Lemma simple_produced lx pre text rest' start id :
  ctx lx pre (text ++ rest') start -> no_nl text = true -> text <> [] ->
  produced_ok lx pre (text ++ rest') (simple_result (mkToken id text start (tok_range pre text id)) (start + byte_len text)) None.
Proof.
  intros [Hs Hp Hb] Hn Hne.
  exists [], [], rest'. cbn [simple_result lr_token lr_end lr_newlines lr_new_line_start tspell dflt].
  repeat split; auto.
  - cbn. rewrite app_nil_r. lia.
  - cbn [app]. rewrite app_nil_r. rewrite pos_at_app_no_nl by exact Hn. rewrite Hp. f_equal. lia.
  - left. exact Hn.
Qed.

(** * Numbers *)

Lemma no_nl_cons c s : c <> 10 -> no_nl s = true -> no_nl (c :: s) = true.
Proof.
  intros Hc Hs. unfold no_nl in *. cbn [forallb]. rewrite Hs, andb_true_r. apply negb_true_iff. apply N.eqb_neq. exact Hc.
Qed.

Lemma no_nl_take_while stop s : stop 10 = true -> no_nl (take_while_not stop s) = true.
Proof.
  intro H. induction s as [|c t IH]; cbn [take_while_not]; [reflexivity|]. destruct (stop c) eqn:E; [reflexivity|].
  apply no_nl_cons; auto. intro Hc. subst c. congruence.
Qed.

Lemma head_split stop c after :
  c :: after = (c :: take_while_not stop after) ++ drop_while_not stop after.
Proof. cbn. f_equal. apply span_split. Qed.

Lemma head_len stop c after :
  utf8_len c + prefix_len stop after = byte_len (c :: take_while_not stop after).
Proof. cbn [byte_len]. rewrite prefix_len_spec. reflexivity. Qed.

Lemma scan_number_ok prof lx pre c after start :
  ctx lx pre (c :: after) start -> c <> 10 ->
  match scan_number prof lx (c :: after) start with
  | Ok (Some (r, stg)) => produced_ok lx pre (c :: after) r stg
  | Ok None => True
  | _ => False
  end.
Proof.
  intros C Hc. unfold scan_number.
  set (stop := fun ch => negb (is_ascii_alphanumeric ch || (ch =? 46))).
  rewrite (head_len stop). set (text := c :: take_while_not stop after).
  set (rest' := drop_while_not stop after).
  assert (Hs0 : c :: after = text ++ rest') by apply head_split.
  rewrite Hs0.
  assert (C' : ctx lx pre (text ++ rest') start) by (rewrite <- Hs0; exact C).
  assert (Hn : no_nl text = true) by (apply no_nl_cons; auto; apply no_nl_take_while; reflexivity).
  rewrite substr_ok. cbn [bind].
  destruct (f64_parse text) as [v|]; [|exact I].
  rewrite (make_range_line lx pre text rest' start (TNumber v) C' Hn) by discriminate. cbn [bind].
  rewrite drop_bytes_app.
  destruct C' as [Hs Hp Hb].
  destruct (maybe_suffix_ok prof lx pre text rest'
              (simple_result (mkToken (TNumber v) text start (tok_range pre text (TNumber v))) (start + byte_len text)))
    as (r' & stg & Hm & Hok); cbn [simple_result lr_token lr_end lr_newlines lr_new_line_start tspell dflt]; auto.
  - left. exact Hn.
  - discriminate.
  - split; auto.
  - lia.
  - rewrite pos_at_app_no_nl by exact Hn. rewrite Hp. f_equal. lia.
  - cbn [simple_result] in Hm. rewrite Hm. cbn [bind]. exact Hok.
Qed.

(** * Strings and comments *)

Lemma delimited_finish prof lx pre text rest' start ty nl' nls' :
  ctx lx pre (text ++ rest') start -> text <> [] -> ty <> TNewline -> nl_kind ty ->
  pos_at (pre ++ text) = (cur_line lx + nl', dflt (line_start lx) nls') ->
  exists start_loc end_loc,
    make_loc_from (cur_line lx) (line_start lx) start = Ok start_loc /\
    make_loc_from (cur_line lx + nl') (dflt (line_start lx) nls') (start + byte_len text) = Ok end_loc /\
    exists r stg,
      maybe_suffix prof lx (mkLR (mkToken ty text start (loc_to start_loc end_loc)) (start + byte_len text) nl' nls') rest'
        = Ok (r, stg) /\
      produced_ok lx pre (text ++ rest') r stg.
Proof.
  intros C Hne Hty Hkind Hpos. pose proof (ctx_bounds _ _ _ _ C) as [B1 B2]. destruct C as [Hs Hp Hb].
  rewrite byte_len_app in B2.
  pose proof (pos_at_bounds (pre ++ text)) as B3. rewrite Hpos, byte_len_app in B3.
  pose proof (scan_pos_bounds text (byte_len pre) (cur_line lx) (line_start lx)) as B4.
  assert (Hpa : pos_at (pre ++ text) = scan_pos text (byte_len pre) (cur_line lx) (line_start lx))
    by (rewrite pos_at_app, Hp; reflexivity).
  rewrite <- Hpa, Hpos in B4. destruct B4 as (B5 & B6 & B7); [lia|].
  eexists. eexists. split; [apply make_loc_ok; lia|]. split; [apply make_loc_ok; lia|].
  unfold loc_to. rewrite range_new_ordered.
  2:{ destruct (N.eq_dec nl' 0) as [->|Hnz].
      - right. split; [lia|]. rewrite B7 by lia. lia.
      - left. lia. }
  apply maybe_suffix_ok; cbn [lr_token lr_end lr_newlines lr_new_line_start tspell]; auto.
  - right. exact Hkind.
  - split; cbn [tstart trange tspell tid]; auto.
    rewrite tok_range_general by exact Hty. rewrite Hp, Hpos. subst start. reflexivity.
  - lia.
Qed.

Lemma drop_bytes_all s : drop_bytes (byte_len s) s = [].
Proof. pose proof (drop_bytes_app s []) as H. rewrite app_nil_r in H. exact H. Qed.

Lemma scan_delimited_ok prof lx pre c after start close factory err :
  ctx lx pre (c :: after) start -> utf8_len c = 1 -> utf8_len close = 1 -> c <> 10 ->
  (forall x, factory x <> TNewline) -> (forall x, nl_kind (factory x)) ->
  exists r stg, scan_delimited prof lx (c :: after) start close factory err = Ok (r, stg) /\
                produced_ok lx pre (c :: after) r stg.
Proof.
  intros C Hu Hv Hc Hf Hfk. unfold scan_delimited.
  pose proof (ctx_bounds _ _ _ _ C) as [B1 B2].
  rewrite make_loc_ok by (try lia; cbn [byte_len] in B2; lia). cbn [bind].
  pose proof (scan_close_spec close after (start + 1) 0 None) as S.
  destruct (scan_close close after (start + 1) 0 None) as [[found nl'] nls'].
  assert (Hstart : start = byte_len pre) by (destruct C; auto).
  assert (Hp : pos_at pre = (cur_line lx, line_start lx)) by (destruct C; auto).
  destruct found as [cl|].
  - destruct S as (inner & rest' & Hafter & Hcl & Hsp).
    set (text := c :: inner ++ [close]).
    assert (Hs0 : c :: after = text ++ rest').
    { unfold text. rewrite Hafter. cbn. rewrite <- app_assoc. reflexivity. }
    assert (Hlen : byte_len text = 2 + byte_len inner).
    { unfold text. cbn [byte_len]. rewrite byte_len_app, byte_len_single. lia. }
    replace (cl - (start + 1)) with (byte_len inner) by lia.
    rewrite Hs0. rewrite Hafter. rewrite substr_ok. cbn [bind].
    replace (cl + 1 - start) with (byte_len text) by lia.
    rewrite substr_ok. cbn [bind].
    assert (Hpos : pos_at (pre ++ text) = (cur_line lx + nl', dflt (line_start lx) nls')).
    { rewrite pos_at_app, Hp. unfold text. cbn [scan_pos].
      destruct (c =? 10) eqn:E; [apply N.eqb_eq in E; contradiction|].
      specialize (Hsp (cur_line lx) (line_start lx)). rewrite N.add_0_r in Hsp. cbn [dflt] in Hsp.
      rewrite Hu, <- Hstart. exact Hsp. }
    rewrite Hs0 in C.
    destruct (delimited_finish prof lx pre text rest' start (factory inner) nl' nls' C) as (sl & el & H1 & H2 & r & stg & H3 & H4); auto.
    + discriminate.
    + rewrite make_loc_ok in H1 by (try lia; rewrite byte_len_app in B2; lia). inversion H1; subst sl.
      replace (cl + 1) with (start + byte_len text) by lia.
      unfold dflt in H2. rewrite H2. cbn [bind].
      replace (start + byte_len text - start) with (byte_len text) by lia.
      rewrite drop_bytes_app. exists r, stg. split; auto.
  - set (text := c :: after).
    assert (Hpos : pos_at (pre ++ text) = (cur_line lx + nl', dflt (line_start lx) nls')).
    { rewrite pos_at_app, Hp. unfold text. cbn [scan_pos].
      destruct (c =? 10) eqn:E; [apply N.eqb_eq in E; contradiction|].
      specialize (S (cur_line lx) (line_start lx)). rewrite N.add_0_r in S. cbn [dflt] in S.
      rewrite Hu, <- Hstart. exact S. }
    cbn [bind].
    assert (C' : ctx lx pre (text ++ []) start) by (rewrite app_nil_r; exact C).
    destruct (delimited_finish prof lx pre text [] start (TError err) nl' nls' C') as (sl & el & H1 & H2 & r & stg & H3 & H4); auto.
    + discriminate.
    + discriminate.
    + exact I.
    + rewrite make_loc_ok in H1 by (try lia). inversion H1; subst sl.
      unfold dflt in H2. fold text. rewrite H2. cbn [bind].
      replace (start + byte_len text - start) with (byte_len text) by lia.
      rewrite drop_bytes_all.
      exists r, stg. split; auto. rewrite app_nil_r in H4. exact H4.
Qed.

(** * Words, keywords and error tokens *)

Lemma is_word_end_10 : is_word_end 10 = true.
Proof. vm_compute. reflexivity. Qed.

Definition word_text (c : char) (after : str) : str := c :: take_while_not is_word_end after.
Definition word_rest (after : str) : str := drop_while_not is_word_end after.

Lemma word_split c after : c :: after = word_text c after ++ word_rest after.
Proof. apply head_split. Qed.

Lemma word_end_len_eq c after : word_end_len (c :: after) = byte_len (word_text c after).
Proof. unfold word_end_len, word_text. apply head_len. Qed.

Lemma no_nl_word c after : c <> 10 -> no_nl (word_text c after) = true.
Proof. intro H. apply no_nl_cons; auto. apply no_nl_take_while. exact is_word_end_10. Qed.

Lemma make_error_token_ok prof lx pre c after start msg :
  ctx lx pre (c :: after) start -> c <> 10 ->
  exists r, make_error_token prof lx (c :: after) start msg = Ok r /\ produced_ok lx pre (c :: after) r None.
Proof.
  intros C Hc. unfold make_error_token. rewrite word_end_len_eq.
  rewrite (word_split c after). rewrite (word_split c after) in C.
  destruct (simple_token_ok prof lx pre (word_text c after) (word_rest after) start (TError msg) C) as (t & Ht & _ & _ & Hp).
  - apply no_nl_word; auto.
  - discriminate.
  - discriminate.
  - rewrite Ht. cbn [bind]. eexists. split; [reflexivity|exact Hp].
Qed.

Lemma scan_for_text_ok prof lx pre s0 start text id :
  ctx lx pre s0 start -> no_nl text = true -> text <> [] -> id <> TNewline ->
  match scan_for_text prof lx s0 start text id with
  | Ok (Some r) => produced_ok lx pre s0 r None
  | Ok None => starts_with text s0 = false
  | _ => False
  end.
Proof.
  intros C Hn Hne Hid. unfold scan_for_text. destruct (starts_with text s0) eqn:E; [|reflexivity].
  destruct (starts_with_split _ _ E) as [rest' ->].
  destruct (simple_token_ok prof lx pre text rest' start id C Hn Hne Hid) as (t & Ht & _ & _ & Hp).
  rewrite Ht. cbn [bind]. exact Hp.
Qed.

Lemma assoc_str_in {A} k (l : list (str * A)) v : assoc_str k l = Some v -> In v (map snd l).
Proof.
  induction l as [|[k' v'] t IH]; cbn; [discriminate|]. destruct (str_eqb k k').
  - intro H; inversion H; auto.
  - intro H. right. auto.
Qed.

Lemma keyword_not_newline w id : match_keyword w = Some id -> id <> TNewline.
Proof.
  unfold match_keyword. intro H. apply assoc_str_in in H.
  assert (F : forallb (fun t => negb (ttype_code t =? 71)) (map snd keywords) = true) by (vm_compute; reflexivity).
  rewrite forallb_forall in F. specialize (F _ H). intro E. subst id. discriminate.
Qed.

Lemma scan_keyword_ok prof lx pre c after start :
  ctx lx pre (c :: after) start -> c <> 10 ->
  match scan_keyword prof lx (c :: after) start with
  | Ok (Some r) => produced_ok lx pre (c :: after) r None
  | Ok None => True
  | _ => False
  end.
Proof.
  intros C Hc. unfold scan_keyword. rewrite word_end_len_eq.
  rewrite (word_split c after). rewrite (word_split c after) in C.
  rewrite substr_ok. cbn [bind].
  destruct (match_keyword (word_text c after)) as [id|] eqn:E; [|exact I].
  rewrite (make_range_line lx pre _ _ start id C (no_nl_word c after Hc) (keyword_not_newline _ _ E)). cbn [bind].
  apply simple_produced; auto.
  - apply no_nl_word; auto.
  - discriminate.
Qed.

Lemma no_nl_app a b : no_nl (a ++ b) = no_nl a && no_nl b.
Proof. unfold no_nl. apply forallb_app. Qed.

Lemma forallb_apos_no_nl q : forallb is_apos q = true -> no_nl q = true.
Proof.
  induction q as [|c t IH]; cbn; auto. intro H. apply andb_true_iff in H as [H1 H2].
  unfold is_apos in H1. apply N.eqb_eq in H1. subst c. cbn. auto.
Qed.

Lemma word_id_not_newline w : match match_keyword w with Some k => k | None => TWord end <> TNewline.
Proof. destruct (match_keyword w) eqn:E; [eapply keyword_not_newline; eauto|discriminate]. Qed.

(** the word token, an apostrophe gap, and possibly a staged suffix: the common tail of [tokenize_word] *)
Lemma word_with_suffix prof lx pre stripped gap sfx rest' start idsfx :
  ctx lx pre (stripped ++ gap ++ sfx ++ rest') start ->
  no_nl stripped = true -> stripped <> [] -> forallb is_apos gap = true -> no_nl sfx = true -> idsfx <> TNewline ->
  let id := match match_keyword stripped with Some k => k | None => TWord end in
  exists t, make_token_from prof lx (stripped ++ gap ++ sfx ++ rest') start (byte_len stripped) id = Ok t /\
    tspell t = stripped /\ tok_wf pre t /\
    (sfx <> [] ->
     exists t2, make_token_from prof lx (sfx ++ rest') (start + byte_len stripped + byte_len gap) (byte_len sfx) idsfx = Ok t2 /\
       produced_ok lx pre (stripped ++ gap ++ sfx ++ rest')
                   (simple_result t (start + byte_len (stripped ++ gap ++ sfx))) (Some t2)) /\
    (sfx = [] ->
       produced_ok lx pre (stripped ++ gap ++ sfx ++ rest')
                   (simple_result t (start + byte_len (stripped ++ gap ++ sfx))) None).
Proof.
  intros C Hn Hne Hg Hsn Hid id.
  pose proof (ctx_bounds _ _ _ _ C) as [B1 B2]. rewrite !byte_len_app in B2.
  assert (Hidn : id <> TNewline) by apply word_id_not_newline.
  unfold make_token_from. rewrite substr_ok. cbn [bind].
  rewrite (make_range_line lx pre stripped (gap ++ sfx ++ rest') start id C Hn Hidn). cbn [bind].
  eexists. split; [reflexivity|]. split; [reflexivity|].
  destruct C as [Hs Hp Hb].
  assert (Hgn : no_nl gap = true) by (apply forallb_apos_no_nl; exact Hg).
  assert (Hpos1 : pos_at (pre ++ stripped ++ gap) = (cur_line lx, line_start lx)).
  { rewrite app_assoc. rewrite pos_at_app_no_nl by exact Hgn. rewrite pos_at_app_no_nl by exact Hn. exact Hp. }
  split; [split; reflexivity || auto|]. split.
  - intro Hsne. rewrite substr_ok. cbn [bind].
    unfold make_range_from. rewrite !make_loc_ok by lia. cbn [bind]. unfold loc_to.
    rewrite range_new_ordered by (right; split; [reflexivity|lia]).
    eexists. split; [reflexivity|].
    exists gap, sfx, rest'. cbn [simple_result lr_token lr_end lr_newlines lr_new_line_start tspell dflt].
    repeat split; auto.
    + cbn [tstart]. rewrite !byte_len_app. lia.
    + cbn [trange tspell tid]. rewrite tok_range_general by exact Hid.
      rewrite (pos_at_app_no_nl (pre ++ stripped ++ gap) sfx Hsn). rewrite Hpos1.
      rewrite !byte_len_app. subst start. do 2 f_equal; f_equal; lia.
    + lia.
    + rewrite !app_assoc. rewrite pos_at_app_no_nl by exact Hsn. rewrite <- !app_assoc. rewrite Hpos1. f_equal. lia.
    + left. exact Hn.
  - intros ->. exists gap, [], rest'. cbn [simple_result lr_token lr_end lr_newlines lr_new_line_start tspell dflt].
    repeat split; auto.
    + lia.
    + rewrite app_nil_r. rewrite Hpos1. f_equal. lia.
    + left. exact Hn.
Qed.

Lemma debug_assert_true {E} prof site : @debug_assert E prof site true = Ok tt.
Proof. destruct prof; reflexivity. Qed.

Lemma nonempty_negb (s : str) : s <> [] -> negb (match s with [] => true | _ => false end) = true.
Proof. destruct s; [contradiction|reflexivity]. Qed.

Lemma tokenize_suffix_case prof lx pre st sfx rest' start idsfx n :
  ctx lx pre ((st ++ sfx) ++ rest') start -> no_nl (st ++ sfx) = true -> st <> [] -> sfx <> [] ->
  byte_len sfx = n -> idsfx <> TNewline ->
  exists r stg,
   (let* stg0 := (let* t := make_token_from prof lx
                               (drop_bytes (start + byte_len (st ++ sfx) - n - start) ((st ++ sfx) ++ rest'))
                               (start + byte_len (st ++ sfx) - n) n idsfx in Ok (Some t)) in
    let* _ := debug_assert prof 45 (negb (match st with [] => true | _ => false end)) in
    let* t := make_token_from prof lx ((st ++ sfx) ++ rest') start (byte_len st)
                (match match_keyword st with Some k => k | None => TWord end) in
    Ok (simple_result t (start + byte_len (st ++ sfx)), stg0)) = Ok (r, stg) /\
   produced_ok lx pre ((st ++ sfx) ++ rest') r stg.
Proof.
  intros C Hn Hst Hsfx Hlen Hid.
  rewrite no_nl_app in Hn. apply andb_true_iff in Hn as [Hn1 Hn2].
  assert (E : (st ++ sfx) ++ rest' = st ++ [] ++ sfx ++ rest') by (rewrite <- app_assoc; reflexivity).
  rewrite E in C.
  destruct (word_with_suffix prof lx pre st [] sfx rest' start idsfx C Hn1 Hst eq_refl Hn2 Hid)
    as (t & Ht & Hts & Hwf & Hsome & _).
  destruct (Hsome Hsfx) as (t2 & Ht2 & Hok).
  rewrite byte_len_app.
  replace (start + (byte_len st + byte_len sfx) - n - start) with (byte_len st) by lia.
  replace (start + (byte_len st + byte_len sfx) - n) with (start + byte_len st + byte_len []) by (cbn [byte_len]; lia).
  rewrite <- app_assoc. rewrite drop_bytes_app. rewrite <- Hlen. rewrite Ht2. cbn [bind].
  rewrite nonempty_negb by exact Hst. rewrite debug_assert_true. cbn [bind].
  cbn [app] in Ht. rewrite Ht. cbn [bind].
  eexists. eexists. split; [reflexivity|].
  cbn [app] in Hok. rewrite byte_len_app in Hok. exact Hok.
Qed.

Definition hd_apos (s : str) : bool := match s with x :: _ => x =? 39 | [] => false end.

Lemma tokenize_word_ok prof lx pre c w rest' start :
  ctx lx pre ((c :: w) ++ rest') start -> no_nl (c :: w) = true -> c <> 39 ->
  exists r stg, tokenize_word prof lx ((c :: w) ++ rest') start (c :: w) (start + byte_len (c :: w)) = Ok (r, stg) /\
                produced_ok lx pre ((c :: w) ++ rest') r stg.
Proof.
  intros C Hn Hc. set (word := c :: w) in *.
  assert (Hhead : forall st sfx, word = st ++ sfx -> (hd_apos sfx = true) -> st <> []).
  { intros st sfx E Hs ->. cbn [app] in E. subst sfx. unfold word in Hs. cbn in Hs. apply N.eqb_eq in Hs. contradiction. }
  unfold tokenize_word. cbn [first_some fold_right].
  assert (Hcase : forall sfx idsfx n, (hd_apos sfx = true) -> byte_len sfx = n -> idsfx <> TNewline ->
            forall st, strip_suffix sfx word = Some st ->
            exists r stg,
             (let* stg0 := (let* t := make_token_from prof lx (drop_bytes (start + byte_len word - n - start) (word ++ rest'))
                                         (start + byte_len word - n) n idsfx in Ok (Some t)) in
              let* _ := debug_assert prof 45 (negb (match st with [] => true | _ => false end)) in
              let* t := make_token_from prof lx (word ++ rest') start (byte_len st)
                          (match match_keyword st with Some k => k | None => TWord end) in
              Ok (simple_result t (start + byte_len word), stg0)) = Ok (r, stg) /\
             produced_ok lx pre (word ++ rest') r stg).
  { intros sfx idsfx n Hs Hl Hid st Hst. apply strip_suffix_some in Hst.
    assert (Hsne : sfx <> []) by (destruct sfx; [discriminate|discriminate]).
    pose proof (Hhead st sfx Hst Hs) as Hstne.
    rewrite Hst. rewrite Hst in C, Hn.
    apply tokenize_suffix_case; auto. }
  destruct (strip_suffix (lit "'s") word) as [st|] eqn:E1.
  { apply (Hcase (lit "'s") TApostropheS 2); auto; try reflexivity; discriminate. }
  destruct (strip_suffix (lit "'S") word) as [st|] eqn:E2.
  { apply (Hcase (lit "'S") TApostropheS 2); auto; try reflexivity; discriminate. }
  destruct (strip_suffix (lit "'re") word) as [st|] eqn:E3.
  { apply (Hcase (lit "'re") TApostropheRE 3); auto; try reflexivity; discriminate. }
  destruct (strip_suffix (lit "'RE") word) as [st|] eqn:E4.
  { apply (Hcase (lit "'RE") TApostropheRE 3); auto; try reflexivity; discriminate. }
  destruct (strip_suffix (lit "'Re") word) as [st|] eqn:E5.
  { apply (Hcase (lit "'Re") TApostropheRE 3); auto; try reflexivity; discriminate. }
  destruct (strip_suffix (lit "'rE") word) as [st|] eqn:E6.
  { apply (Hcase (lit "'rE") TApostropheRE 3); auto; try reflexivity; discriminate. }
  (* no suffix: trailing apostrophes are dropped *)
  destruct (trim_end_apostrophes_prefix word) as (q & Hq & Hall).
  set (stripped := trim_end_apostrophes word) in *.
  assert (Hsne : stripped <> []).
  { intro E. rewrite E in Hq. cbn [app] in Hq. unfold word in Hq. subst q. cbn in Hall.
    apply andb_true_iff in Hall as [H1 _]. apply N.eqb_eq in H1. contradiction. }
  cbn [bind]. rewrite nonempty_negb by exact Hsne. rewrite debug_assert_true. cbn [bind].
  assert (E : word ++ rest' = stripped ++ q ++ [] ++ rest') by (rewrite Hq at 1; rewrite <- app_assoc; reflexivity).
  rewrite E in C. rewrite Hq in Hn. rewrite no_nl_app in Hn. apply andb_true_iff in Hn as [Hn1 Hn2].
  destruct (word_with_suffix prof lx pre stripped q [] rest' start TApostropheS C Hn1 Hsne Hall eq_refl)
    as (t & Ht & Hts & Hwf & _ & Hnone); [discriminate|].
  rewrite E. rewrite Ht. cbn [bind]. eexists. eexists. split; [reflexivity|].
  specialize (Hnone eq_refl). rewrite app_nil_r in Hnone.
  replace (start + byte_len word) with (start + byte_len (stripped ++ q)) by (rewrite <- Hq; reflexivity).
  exact Hnone.
Qed.

Lemma scan_word_ok prof lx pre c after start :
  ctx lx pre (c :: after) start -> c <> 10 -> c <> 39 ->
  exists r stg, scan_word prof lx (c :: after) start = Ok (r, stg) /\ produced_ok lx pre (c :: after) r stg.
Proof.
  intros C Hc Ha. unfold scan_word. rewrite word_end_len_eq.
  rewrite (word_split c after). rewrite (word_split c after) in C.
  rewrite substr_ok. cbn [bind].
  destruct (forallb (fun c0 => is_alphabetic c0 || (c0 =? 39)) (word_text c after)).
  - unfold word_text in *. apply tokenize_word_ok; auto. apply (no_nl_word c after Hc).
  - replace (start + byte_len (word_text c after) - start) with (byte_len (word_text c after)) by lia.
    destruct (simple_token_ok prof lx pre (word_text c after) (word_rest after) start
                (TError (lit "Identifier may not contain non-alphabetic characters")) C) as (t & Ht & _ & _ & Hp).
    + apply no_nl_word; auto.
    + discriminate.
    + discriminate.
    + rewrite Ht. cbn [bind]. eexists. eexists. split; [reflexivity|exact Hp].
Qed.

(** * One pass of the dispatch *)

Lemma ignorable_not_nl c : ignorable c = true -> c <> 10.
Proof. intros H E. subst c. vm_compute in H. discriminate. Qed.

Theorem match_one_spec prof lx pre c after start :
  ctx lx pre (c :: after) start ->
  match match_one prof lx (c :: after) start with
  | Ok (Produced r stg) => produced_ok lx pre (c :: after) r stg
  | Ok Skip => ignorable c = true
  | _ => False
  end.
Proof.
  intro C. unfold match_one. cbv zeta.
  (* a single-byte punctuation token *)
  assert (Hchar : forall id, utf8_len c = 1 -> c <> 10 -> id <> TNewline ->
            match (let* x := char_token prof lx (c :: after) start id in Ok (Produced x None)) with
            | Ok (Produced r stg) => produced_ok lx pre (c :: after) r stg
            | Ok Skip => ignorable c = true
            | _ => False
            end).
  { intros id Hu Hc Hid. destruct (char_token_ok prof lx pre c after start id C Hu Hc Hid) as (r & Hr & Hok).
    rewrite Hr. exact Hok. }
  assert (Herr : forall msg, c <> 10 ->
            match (let* x := make_error_token prof lx (c :: after) start msg in Ok (Produced x None)) with
            | Ok (Produced r stg) => produced_ok lx pre (c :: after) r stg
            | Ok Skip => ignorable c = true
            | _ => False
            end).
  { intros msg Hc. destruct (make_error_token_ok prof lx pre c after start msg C Hc) as (r & Hr & Hok).
    rewrite Hr. exact Hok. }
  assert (Hnum : c <> 10 -> forall k : lres step_result,
            match k with
            | Ok (Produced r stg) => produced_ok lx pre (c :: after) r stg
            | Ok Skip => ignorable c = true
            | _ => False
            end ->
            match (let* n := scan_number prof lx (c :: after) start in
                   match n with Some x => Ok (Produced (fst x) (snd x)) | None => k end) with
            | Ok (Produced r stg) => produced_ok lx pre (c :: after) r stg
            | Ok Skip => ignorable c = true
            | _ => False
            end).
  { intros Hc k Hk. pose proof (scan_number_ok prof lx pre c after start C Hc) as Hn.
    destruct (scan_number prof lx (c :: after) start) as [[[r stg]|]| | | | |]; try contradiction; cbn [bind fst snd]; auto. }
  assert (Hdel : forall close factory err, utf8_len c = 1 -> utf8_len close = 1 -> c <> 10 -> (forall x, factory x <> TNewline) -> (forall x, nl_kind (factory x)) ->
            match (let* x := scan_delimited prof lx (c :: after) start close factory err in Ok (Produced (fst x) (snd x))) with
            | Ok (Produced r stg) => produced_ok lx pre (c :: after) r stg
            | Ok Skip => ignorable c = true
            | _ => False
            end).
  { intros close factory err Hu Hv Hc Hf Hfk.
    destruct (scan_delimited_ok prof lx pre c after start close factory err C Hu Hv Hc Hf Hfk) as (r & stg & Hr & Hok).
    rewrite Hr. exact Hok. }
  destruct (c =? 10) eqn:E10.
  { apply N.eqb_eq in E10. subst c. destruct (newline_token_ok prof lx pre after start C) as (r & Hr & Hok). rewrite Hr. exact Hok. }
  apply N.eqb_neq in E10.
  destruct (c =? 46) eqn:E46.
  { apply N.eqb_eq in E46. subst c. apply Hnum; auto. apply Hchar; auto; discriminate. }
  destruct (c =? 44) eqn:E44. { apply N.eqb_eq in E44. subst c. apply Hchar; auto; discriminate. }
  destruct (c =? 38) eqn:E38. { apply N.eqb_eq in E38. subst c. apply Hchar; auto; discriminate. }
  destruct (c =? 43) eqn:E43. { apply N.eqb_eq in E43. subst c. apply Hchar; auto; discriminate. }
  destruct (c =? 45) eqn:E45. { apply N.eqb_eq in E45. subst c. apply Hchar; auto; discriminate. }
  destruct (c =? 42) eqn:E42. { apply N.eqb_eq in E42. subst c. apply Hchar; auto; discriminate. }
  destruct (c =? 47) eqn:E47. { apply N.eqb_eq in E47. subst c. apply Hchar; auto; discriminate. }
  destruct (c =? 34) eqn:E34. { apply N.eqb_eq in E34. subst c. apply Hdel; auto; try discriminate; intros; exact I. }
  destruct (c =? 40) eqn:E40. { apply N.eqb_eq in E40. subst c. apply Hdel; auto; try discriminate; intros; exact I. }
  destruct (c =? 95) eqn:E95. { apply Herr; auto. }
  destruct (c =? 60) eqn:E60.
  { apply N.eqb_eq in E60. subst c. destruct after as [|d after'].
    - apply Hchar; auto; discriminate.
    - destruct (N.eq_dec d 61) as [->|Hd].
      + destruct (two_char_token_ok prof lx pre 60 61 after' start TLessEq C) as (r & Hr & Hok); auto; try discriminate.
        rewrite Hr. exact Hok.
      + assert (E : match d with 61 => False | _ => True end -> True) by auto.
        destruct d as [|p]; [apply Hchar; auto; discriminate|].
        do 6 (destruct p as [p|p|]; try (apply Hchar; auto; discriminate)). contradiction. }
  destruct (c =? 62) eqn:E62.
  { apply N.eqb_eq in E62. subst c. destruct after as [|d after'].
    - apply Hchar; auto; discriminate.
    - destruct (N.eq_dec d 61) as [->|Hd].
      + destruct (two_char_token_ok prof lx pre 62 61 after' start TGreaterEq C) as (r & Hr & Hok); auto; try discriminate.
        rewrite Hr. exact Hok.
      + destruct d as [|p]; [apply Hchar; auto; discriminate|].
        do 6 (destruct p as [p|p|]; try (apply Hchar; auto; discriminate)). contradiction. }
  pose proof (scan_for_text_ok prof lx pre (c :: after) start (lit "'n'") TApostropheNApostrophe C eq_refl) as Hn'.
  destruct (scan_for_text prof lx (c :: after) start (lit "'n'") TApostropheNApostrophe) as [[r|]| | | | |];
    cbn [bind]; try (apply Hn'; discriminate).
  destruct (is_ignorable_punctuation c || (c =? 39)) eqn:Eig.
  { unfold ignorable. apply orb_true_iff in Eig as [H|H]; rewrite H; rewrite ?orb_true_r; reflexivity. }
  apply orb_false_iff in Eig as [Eig1 Eig2]. apply N.eqb_neq in Eig2.
  destruct (is_numeric c).
  { apply Hnum; auto. apply Herr; auto. }
  destruct (is_alphabetic c).
  { pose proof (scan_keyword_ok prof lx pre c after start C E10) as Hk.
    destruct (scan_keyword prof lx (c :: after) start) as [[r|]| | | | |]; try contradiction; cbn [bind]; auto.
    destruct (scan_word_ok prof lx pre c after start C E10 Eig2) as (r & stg & Hr & Hok). rewrite Hr. exact Hok. }
  apply Herr; auto.
Qed.
