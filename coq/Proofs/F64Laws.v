(** Order facts about [spec_float] comparison. *)
From Coq Require Import ZArith NArith Bool PArith Lia Floats.SpecFloat.
From RRSS Require Import Base.F64.

Lemma fcompare_antisym x y : fcompare y x = option_map CompOpp (fcompare x y).
Proof.
  unfold fcompare.
  destruct x as [sx|sx| |sx mx ex], y as [sy|sy| |sy my ey]; simpl; auto;
    try (destruct sx; reflexivity); try (destruct sy; reflexivity);
    try (destruct sx, sy; reflexivity).
  assert (E : Pos.compare_cont Eq my mx = CompOpp (Pos.compare_cont Eq mx my))
    by (symmetry; apply (Pos.compare_cont_antisym mx my Eq)).
  f_equal. rewrite (Z.compare_antisym ex ey), E.
  destruct sx, sy; simpl; auto; destruct (ex ?= ey)%Z; simpl; auto;
    destruct (Pos.compare_cont Eq mx my); reflexivity.
Qed.

Lemma feqb_sym x y : feqb x y = feqb y x.
Proof.
  unfold feqb, SFeqb. change SFcompare with fcompare.
  rewrite (fcompare_antisym x y). destruct (fcompare x y) as [[]|]; reflexivity.
Qed.

Lemma feqb_compare x y : feqb x y = match fcompare x y with Some Eq => true | _ => false end.
Proof. reflexivity. Qed.
