(** Readable consequences of [lex_stream]: what "true position" means, slices, order. *)
From Coq Require Import List ZArith NArith Bool Lia Sorting.Sorted.
From RRSS Require Import Base.Outcome Base.Chars Base.F64 Base.F64Text Front.Ast Front.Token Front.Lexer.
From RRSS Require Import Proofs.LexBasics Proofs.LexPos Proofs.LexSpec Proofs.LexStream.
Import ListNotations.
Open Scope N_scope.

(** * [pos_at] is the true line and line start *)
Fixpoint count_nl (s : str) : N :=
  match s with [] => 0 | c :: t => (if c =? 10 then 1 else 0) + count_nl t end.

Lemma scan_pos_line s : forall off ln ls, fst (scan_pos s off ln ls) = ln + count_nl s.
Proof.
  induction s as [|c t IH]; intros off ln ls; cbn [scan_pos count_nl fst]; [lia|].
  destruct (c =? 10); rewrite IH; lia.
Qed.

(** the line of an offset is one more than the number of line breaks before it *)
Theorem pos_at_line pre : fst (pos_at pre) = 1 + count_nl pre.
Proof. unfold pos_at. apply scan_pos_line. Qed.

(** the line start is the offset just past the last line break before it (0 on the first line) *)
Theorem pos_at_line_start_first pre : no_nl pre = true -> snd (pos_at pre) = 0.
Proof. intro H. unfold pos_at. rewrite scan_pos_no_nl by exact H. reflexivity. Qed.

Theorem pos_at_line_start_after a b : no_nl b = true -> snd (pos_at (a ++ 10 :: b)) = byte_len a + 1.
Proof.
  intro H. rewrite pos_at_app. destruct (pos_at a) as [ln ls]. cbn [scan_pos]. rewrite N.eqb_refl.
  rewrite scan_pos_no_nl by exact H. reflexivity.
Qed.

(** * Every token is a slice of the source with its true range *)
Definition tok_in (src : str) (t : token) : Prop :=
  exists a b, src = a ++ tspell t ++ b /\ tok_wf a t /\ tspell t <> [].

Lemma stream_tokens pre s ts : stream pre s ts -> Forall (tok_in (pre ++ s)) ts.
Proof.
  induction 1 as [pre g Hg|pre g t rest_ ts Hg Hne Hwf Hs IH]; constructor.
  - exists (pre ++ g), rest_. repeat split; auto; try apply Hwf. rewrite <- !app_assoc. reflexivity.
  - eapply Forall_impl; [|exact IH]. intros t' (a & b & E & W & N'). exists a, b. repeat split; auto; try apply W.
    rewrite <- E. rewrite <- !app_assoc. reflexivity.
Qed.

(** * Tokens do not overlap and come in source order *)
Definition tok_before (a b : token) : Prop := tend a <= tstart b.

Lemma stream_bounds pre s ts : stream pre s ts ->
  Forall (fun t => byte_len pre <= tstart t /\ tend t <= byte_len pre + byte_len s) ts.
Proof.
  induction 1 as [pre g Hg|pre g t rest_ ts Hg Hne Hwf Hs IH]; constructor.
  - destruct Hwf as [W _]. unfold tend. rewrite W, !byte_len_app. lia.
  - eapply Forall_impl; [|exact IH]. cbn beta. intros t' [A B]. rewrite !byte_len_app in *. lia.
Qed.

Lemma stream_sorted pre s ts : stream pre s ts -> StronglySorted tok_before ts.
Proof.
  induction 1 as [pre g Hg|pre g t rest_ ts Hg Hne Hwf Hs IH]; constructor; auto.
  pose proof (stream_bounds _ _ _ Hs) as B. eapply Forall_impl; [|exact B]. cbn beta. intros t' [A _].
  unfold tok_before, tend. destruct Hwf as [W _]. rewrite W. rewrite !byte_len_app in *. lia.
Qed.

(** * Nothing but ignorable characters lies between tokens: in particular no line break *)
Lemma stream_concat pre s ts : stream pre s ts ->
  exists gaps, length gaps = S (length ts) /\ Forall (fun g => forallb ignorable g = true) gaps /\
    s = concat (map (fun p => fst p ++ tspell (snd p)) (combine gaps ts)) ++ last gaps [].
Proof.
  induction 1 as [pre g Hg|pre g t rest_ ts Hg Hne Hwf Hs IH].
  - exists [g]. repeat split; auto.
  - destruct IH as (gaps & L & F & E). exists (g :: gaps). repeat split.
    + cbn. lia.
    + constructor; auto.
    + destruct gaps as [|g1 gaps']; [discriminate|]. cbn [combine map concat fst snd last].
      rewrite E. rewrite <- !app_assoc. reflexivity.
Qed.

(** * Which tokens may contain a line feed, and the line the lexer reports after each token *)
Definition ptok_in (src : str) (pt : ptoken) : Prop :=
  exists a b, src = a ++ tspell (pt_tok pt) ++ b /\ tstart (pt_tok pt) = byte_len a /\
              pt_line pt = 1 + count_nl (a ++ tspell (pt_tok pt)).

Lemma pstream_lines pre s pts : pstream pre s pts -> Forall (ptok_in (pre ++ s)) pts.
Proof.
  induction 1 as [pre g Hg|pre g pt rest_ pts Hg Hne Hwf Hk Hl Hc Hs IH]; constructor.
  - exists (pre ++ g), rest_. repeat split.
    + rewrite <- !app_assoc. reflexivity.
    + apply Hwf.
    + rewrite Hl. rewrite <- pos_at_line. rewrite <- !app_assoc. reflexivity.
  - eapply Forall_impl; [|exact IH]. intros pt' (a & b & E & W & L). exists a, b. repeat split; auto.
    rewrite <- E. rewrite <- !app_assoc. reflexivity.
Qed.

Lemma pstream_kinds pre s pts : pstream pre s pts -> Forall (fun pt => nlk (pt_tok pt)) pts.
Proof. induction 1; constructor; auto. Qed.

(** every line feed of the source lies inside a token, and a token that contains one is a line-break
    token, a string literal, a comment or an unterminated-literal error token *)
Theorem lex_newline_kinds prof src pts :
  byte_len src < u32_limit -> lex prof src = Ok pts ->
  Forall (fun pt => no_nl (tspell (pt_tok pt)) = true \/ nl_kind (tid (pt_tok pt))) pts.
Proof.
  intros Hb Hl. destruct (lex_pstream prof src Hb) as (pts' & Hl' & Hs). rewrite Hl in Hl'. injection Hl' as <-.
  apply (pstream_kinds _ _ _ Hs).
Qed.

(** the line the lexer reports after a token ([current_line()], which the parser uses for errors at the
    end of the input) is the true line of the token's last byte *)
Theorem lex_post_lines prof src pts :
  byte_len src < u32_limit -> lex prof src = Ok pts -> Forall (ptok_in src) pts.
Proof.
  intros Hb Hl. destruct (lex_pstream prof src Hb) as (pts' & Hl' & Hs). rewrite Hl in Hl'. injection Hl' as <-.
  apply (pstream_lines [] src pts Hs).
Qed.

(** the location the lexer reports after a token ([current_loc()]: the parser stamps empty blocks and
    destination-less `listen` statements with it) is the true position just past the token and the apostrophes
    swallowed with it: the line of that point, and its byte offset from the start of that line *)
Definition ploc_in (src : str) (pt : ptoken) : Prop :=
  exists a gap2 b, src = a ++ tspell (pt_tok pt) ++ gap2 ++ b /\ tstart (pt_tok pt) = byte_len a /\
                   forallb is_apos gap2 = true /\
                   pt_loc pt = mkLoc (1 + count_nl (a ++ tspell (pt_tok pt) ++ gap2))
                                     (byte_len (a ++ tspell (pt_tok pt) ++ gap2) - snd (pos_at (a ++ tspell (pt_tok pt) ++ gap2))).

Lemma pstream_locs pre s pts : pstream pre s pts -> Forall (ploc_in (pre ++ s)) pts.
Proof.
  induction 1 as [pre g Hg|pre g pt rest_ pts Hg Hne Hwf Hk Hl Hc Hs IH]; constructor.
  - destruct Hc as (gap2 & r2 & E1 & E2 & E3). exists (pre ++ g), gap2, r2. repeat split; auto.
    + rewrite E1. rewrite <- !app_assoc. reflexivity.
    + apply Hwf.
    + rewrite E3. unfold loc_after. rewrite <- pos_at_line. rewrite <- !app_assoc. reflexivity.
  - eapply Forall_impl; [|exact IH]. intros pt' (a & gap2 & b & E & W & G & L). exists a, gap2, b. repeat split; auto.
    rewrite <- E. rewrite <- !app_assoc. reflexivity.
Qed.

Theorem lex_post_locs prof src pts :
  byte_len src < u32_limit -> lex prof src = Ok pts -> Forall (ploc_in src) pts.
Proof.
  intros Hb Hl. destruct (lex_pstream prof src Hb) as (pts' & Hl' & Hs). rewrite Hl in Hl'. injection Hl' as <-.
  apply (pstream_locs [] src pts Hs).
Qed.
