(** C19: linting never fails.  The only failure site of the linter is the poetic template of a
    constant's printed text ([c as usize - '0' as usize]); the printed text of a non-negative
    finite number consists of digits and periods only, so that site is never reached. *)
From Coq Require Import List ZArith NArith Bool Lia Floats.SpecFloat.
From RRSS Require Import Base.Outcome Base.Chars Base.F64 Base.F64Text Exec.Val Exec.Ops Front.Ast Front.Poetic.
From RRSS Require Import Analysis.Fold Lint.Lint Proofs.AstInd.
Import ListNotations.

(** the result is a value (or the model's size budget was exceeded): no error, no panic *)
Definition fine {A} (r : res unit A) : Prop := match r with Ok _ | OverBudget => True | _ => False end.

Lemma fine_bind {A B} (m : res unit A) (f : A -> res unit B) : fine m -> (forall a, fine (f a)) -> fine (bind m f).
Proof. destruct m; cbn; auto; try contradiction. Qed.

(** * digits are non-negative *)
Open Scope Z_scope.
Definition nonneg (l : list Z) : Prop := Forall (fun d => 0 <= d) l.

Lemma gen_digits_nonneg : forall fuel incl scale mant minus plus acc,
  0 < scale -> 0 <= mant -> nonneg acc ->
  nonneg (fst (fst (fst (gen_digits fuel incl scale mant minus plus acc)))).
Proof.
  induction fuel as [|f IH]; intros incl scale mant minus plus acc Hs Hm Ha; cbn [gen_digits].
  - cbn [fst]. unfold nonneg. apply Forall_rev. exact Ha.
  - assert (Hd : 0 <= mant / scale) by (apply Z.div_pos; lia).
    assert (Hr : 0 <= mant mod scale) by (apply Z.mod_pos_bound; lia).
    assert (Ha' : nonneg (mant / scale :: acc)) by (constructor; auto).
    destruct (lt_incl incl (mant mod scale) minus || lt_incl incl scale (mant mod scale + plus)).
    + cbn [fst]. unfold nonneg. apply Forall_rev. exact Ha'.
    + apply IH; auto. lia.
Qed.

Lemma inc_rev_nonneg l : nonneg l -> nonneg (fst (inc_rev l)).
Proof.
  induction l as [|d t IH]; cbn; intro H; [constructor|].
  inversion H as [|? ? Hd Ht]; subst.
  destruct (d =? 9).
  - specialize (IH Ht). destruct (inc_rev t) as [t' c]. cbn in *. constructor; auto. lia.
  - cbn. constructor; auto. lia.
Qed.

Lemma shortest_digits_nonneg m e : nonneg (fst (shortest_digits m e)).
Proof.
  unfold shortest_digits.
  set (d := decode m e).
  assert (Hm : 0 < d_mant d).
  { unfold d, decode. destruct (Z.pos (digits2_pos m) <? prec); [cbn; lia|]. destruct (Z.pos m =? 2 ^ 52); cbn; lia. }
  set (exp := d_exp d).
  set (k0 := Z.shiftr ((bit_length (d_mant d + d_plus d - 1) + exp) * 1292913986) 32).
  set (scale0 := if exp <? 0 then 2 ^ (- exp) else 1).
  assert (Hs0 : 0 < scale0).
  { unfold scale0. destruct (exp <? 0) eqn:E; [|lia]. apply Z.ltb_lt in E. apply Z.pow_pos_nonneg; lia. }
  set (sh := if exp <? 0 then 1 else 2 ^ exp).
  assert (Hsh : 0 <= sh) by (unfold sh; destruct (exp <? 0); [lia|apply Z.pow_nonneg; lia]).
  set (scale := if 0 <=? k0 then scale0 * 10 ^ k0 else scale0).
  assert (Hs : 0 < scale).
  { unfold scale. destruct (0 <=? k0) eqn:E; auto. apply Z.leb_le in E. apply Z.mul_pos_pos; auto. apply Z.pow_pos_nonneg; lia. }
  set (mu := if 0 <=? k0 then 1 else 10 ^ (- k0)).
  assert (Hmu : 0 <= mu) by (unfold mu; destruct (0 <=? k0); [lia|apply Z.pow_nonneg; lia]).
  set (fix_ := lt_incl (d_incl d) scale (d_mant d * sh * mu + d_plus d * sh * mu)).
  set (mu2 := if fix_ then 1 else 10).
  assert (Hmu2 : 0 <= mu2) by (unfold mu2; destruct fix_; lia).
  assert (Hmant : 0 <= d_mant d * sh * mu * mu2) by (repeat apply Z.mul_nonneg_nonneg; lia).
  pose proof (gen_digits_nonneg 40 (d_incl d) scale (d_mant d * sh * mu * mu2) (d_minus d * sh * mu * mu2)
                (d_plus d * sh * mu * mu2) [] Hs Hmant (Forall_nil _)) as G.
  destruct (gen_digits 40 (d_incl d) scale (d_mant d * sh * mu * mu2) (d_minus d * sh * mu * mu2) (d_plus d * sh * mu * mu2) [])
    as [[[digs rem] down] up]. cbn [fst] in G.
  destruct (up && (negb down || (scale <=? rem * 2))); [|exact G].
  assert (Hr : nonneg (rev digs)) by (apply Forall_rev; exact G).
  pose proof (inc_rev_nonneg _ Hr) as I. destruct (inc_rev (rev digs)) as [r carry]. cbn [fst] in I.
  destruct carry; cbn [fst].
  - constructor; [lia|]. apply Forall_rev. exact I.
  - apply Forall_rev. exact I.
Qed.

(** * the printed text of a non-negative finite number: digits and periods *)
Close Scope Z_scope.
Open Scope N_scope.

Definition digitish (c : char) : bool := (c =? 46) || (48 <=? c).

Lemma digit_char_ok d : (0 <= d)%Z -> digitish (digit_char d) = true.
Proof.
  intro H. unfold digitish, digit_char. apply orb_true_iff. right. apply N.leb_le.
  change 48 with (Z.to_N 48). apply Z2N.inj_le; lia.
Qed.

Lemma zeros_ok n : forallb digitish (zeros n) = true.
Proof. induction n; cbn; auto. Qed.

Lemma forallb_firstn {A} (f : A -> bool) n : forall l, forallb f l = true -> forallb f (firstn n l) = true.
Proof.
  induction n as [|n IH]; intros l H; [reflexivity|]. destruct l as [|x t]; [reflexivity|].
  cbn in *. apply andb_true_iff in H as [H1 H2]. rewrite H1. cbn. apply IH. exact H2.
Qed.
Lemma forallb_skipn {A} (f : A -> bool) n : forall l, forallb f l = true -> forallb f (skipn n l) = true.
Proof.
  induction n as [|n IH]; intros l H; [exact H|]. destruct l as [|x t]; [reflexivity|].
  cbn in *. apply andb_true_iff in H as [H1 H2]. apply IH. exact H2.
Qed.

Lemma layout_ok digs k : nonneg digs -> forallb digitish (layout digs k) = true.
Proof.
  intro H. unfold layout.
  assert (Hd : forallb digitish (map digit_char digs) = true).
  { induction H as [|d t Hd Ht IH]; cbn; auto. rewrite digit_char_ok by exact Hd. exact IH. }
  destruct (k <=? 0)%Z.
  - cbn [app forallb]. rewrite forallb_app, zeros_ok, Hd. reflexivity.
  - destruct (Z.of_nat (length (map digit_char digs)) <=? k)%Z.
    + rewrite forallb_app, Hd, zeros_ok. reflexivity.
    + rewrite !forallb_app. rewrite forallb_firstn, forallb_skipn by exact Hd. reflexivity.
Qed.

Theorem display_digits v : has_poetic_spelling v = true -> forallb digitish (f64_display v) = true.
Proof.
  destruct v as [s|s| |s m e]; cbn [has_poetic_spelling f64_display]; try discriminate.
  - destruct s; [discriminate|]. reflexivity.
  - destruct s; [discriminate|]. intros _.
    pose proof (shortest_digits_nonneg m e) as H. destruct (shortest_digits m e) as [digs k]. cbn [fst app] in *.
    apply layout_ok. exact H.
Qed.

(** * the template of such a text is always produced *)
Lemma template_text_fine chars : forall first, forallb digitish chars = true -> fine (template_text chars first).
Proof.
  induction chars as [|c t IH]; intros first H; cbn [template_text]; [exact I|].
  cbn [forallb] in H. apply andb_true_iff in H as [Hc Ht].
  destruct (c =? 46) eqn:E46.
  - apply fine_bind; [apply IH; auto|]. intros; exact I.
  - unfold digitish in Hc. rewrite E46 in Hc. cbn in Hc. apply N.leb_le in Hc.
    destruct (c <? 48) eqn:E; [apply N.ltb_lt in E; lia|].
    destruct (100000 <? (if c - 48 =? 0 then 10 else c - 48)); [exact I|].
    apply fine_bind; [apply IH; auto|]. intros; exact I.
Qed.

Lemma numeric_diag_fine pre sep var v ln : fine (numeric_diag pre sep var v ln).
Proof.
  unfold numeric_diag. apply fine_bind; [|intros; exact I].
  destruct (has_poetic_spelling v) eqn:E; [|exact I].
  apply fine_bind; [apply template_text_fine; apply display_digits; exact E|]. intros; exact I.
Qed.

(** * the passes *)
Lemma boring_fine : (forall s, fine (boring_stmt s)) /\ (forall b, fine (boring_block b)).
Proof.
  apply stmt_block_ind; intros; try exact I.
  - (* SAssign *) cbn [boring_stmt]. destruct op; [exact I|].
    destruct (fold_num_list f rest) as [x|[]| | | |]; try exact I; try apply numeric_diag_fine.
    destruct (fold_str_list f rest); exact I.
  - (* SPoeticNum *) cbn [boring_stmt]. destruct rhs as [e|el]; [|exact I].
    destruct (fold_num e) as [x|[]| | | |]; try exact I; try apply numeric_diag_fine.
    destruct (fold_str e); exact I.
  - (* SIf *) cbn [boring_stmt]. apply fine_bind; [assumption|]. intros a.
    apply fine_bind; [|intros; exact I]. destruct e as [b|]; [|exact I]. apply (H0 b eq_refl).
  - cbn [boring_stmt]. assumption.
  - cbn [boring_stmt]. assumption.
  - (* SPush *) cbn [boring_stmt]. destruct v as [[f rest|el]|]; try exact I.
    destruct (fold_num_list f rest); try exact I. apply numeric_diag_fine.
  - cbn [boring_stmt]. assumption.
  - (* block *) cbn [boring_block]. induction H as [|x t Hx Ht IH]; [exact I|].
    apply fine_bind; [exact Hx|]. intros a. apply fine_bind; [exact IH|]. intros; exact I.
Qed.

Lemma boring_program_fine p : fine (boring_program p).
Proof.
  induction p as [|b t IH]; cbn [boring_program]; [exact I|].
  apply fine_bind; [apply (proj2 boring_fine)|]. intros a. apply fine_bind; [exact IH|]. intros; exact I.
Qed.

(** ** C19: for every syntax tree the linter returns its diagnostics — it has no error path and its
    one arithmetic-underflow site is unreachable ([OverBudget] is the model's own size budget for a
    template of more than 100000 stars, which the digit bound 0..9 of the printed text rules out in
    the implementation; that bound is not proved here) *)
Theorem lint_total p : fine (lint p).
Proof. unfold lint. apply fine_bind; [apply boring_program_fine|]. intros; exact I. Qed.
