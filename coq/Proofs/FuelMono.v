(** Fuel is not part of the meaning: once an evaluation has a result other than "out of fuel", every
    larger amount of fuel gives the very same result (value or error, environment, channels).  So the
    outcome of a program is a partial function of the program and its input alone, and every theorem
    stated "for every fuel" is a statement about that one outcome. *)
From Coq Require Import List ZArith NArith Bool Lia.
From RRSS Require Import Base.Outcome Base.Chars Base.F64 Exec.Val Exec.Ops Front.Ast Front.Poetic Exec.Env Exec.Interp.
Import ListNotations.

Definition nf {A} (r : xres A) : Prop := r <> XOutOfFuel.

Lemma bind_mono {A B} (m m' : xres A) (k k' : A -> env -> xres B) :
  nf (xbind m k) -> (nf m -> m' = m) -> (forall a e, nf (k a e) -> k' a e = k a e) -> xbind m' k' = xbind m k.
Proof.
  intros H Hm Hk. destruct m as [a e|x e| | | |]; try (rewrite Hm by discriminate; reflexivity).
  - rewrite Hm by discriminate. cbn in *. apply Hk. exact H.
  - exfalso. apply H. reflexivity.
Qed.

Lemma nf_bind_l {A B} (m : xres A) (k : A -> env -> xres B) : nf (xbind m k) -> nf m.
Proof. intros H E. apply H. rewrite E. reflexivity. Qed.

Lemma settle_mono r r' : nf (settle r) -> (nf r -> r' = r) -> settle r' = settle r.
Proof.
  intros H Hr. destruct r as [[b|x] e|x e| | | |]; try (rewrite Hr by discriminate; reflexivity).
  exfalso. apply H. reflexivity.
Qed.

Lemma absorb_mono {A} (r r' : xres A) k k' :
  nf (absorb r k) -> (nf r -> r' = r) -> (forall a e, nf (k a e) -> k' a e = k a e) -> absorb r' k' = absorb r k.
Proof.
  intros H Hr Hk. destruct r as [a e|x e| | | |]; try (rewrite Hr by discriminate; reflexivity).
  - rewrite Hr by discriminate. cbn in *. apply Hk. exact H.
  - exfalso. apply H. reflexivity.
Qed.

Section Mono.
Variable prof : profile.

Record FM (f g : nat) : Prop := mkFM {
  fm_expr : forall x e, nf (produce_expr prof f x e) -> produce_expr prof g x e = produce_expr prof f x e;
  fm_primary : forall p e, nf (produce_primary prof f p e) -> produce_primary prof g p e = produce_primary prof f p e;
  fm_fold : forall op acc l e, nf (fold_rhs prof f op acc l e) -> fold_rhs prof g op acc l e = fold_rhs prof f op acc l e;
  fm_args : forall l e, nf (produce_args prof f l e) -> produce_args prof g l e = produce_args prof f l e;
  fm_call : forall n args e, nf (call_function prof f n args e) -> call_function prof g n args e = call_function prof f n args e;
  fm_wprimary : forall w p e, nf (write_primary prof f w p e) -> write_primary prof g w p e = write_primary prof f w p e;
  fm_wsub : forall w a s keys e, nf (write_subscript prof f w a s keys e) ->
            write_subscript prof g w a s keys e = write_subscript prof f w a s keys e;
  fm_wexpr : forall w x e, nf (write_expr prof f w x e) -> write_expr prof g w x e = write_expr prof f w x e;
  fm_wexprs : forall w l e, nf (write_exprs prof f w l e) -> write_exprs prof g w l e = write_exprs prof f w l e;
  fm_stmt : forall s xs e, nf (exec_stmt prof f s xs e) -> exec_stmt prof g s xs e = exec_stmt prof f s xs e;
  fm_block : forall b xs e, nf (exec_block prof f b xs e) -> exec_block prof g b xs e = exec_block prof f b xs e;
  fm_stmts : forall ss xs e, nf (exec_stmts prof f ss xs e) -> exec_stmts prof g ss xs e = exec_stmts prof f ss xs e;
  fm_loop : forall inv c b xs e, nf (exec_loop prof f inv c b xs e) -> exec_loop prof g inv c b xs e = exec_loop prof f inv c b xs e
}.

Lemma FM_0 g : FM 0 g.
Proof. constructor; intros; exfalso; match goal with H : nf _ |- _ => apply H; reflexivity end. Qed.

(** [bm H]: the goal is [xbind m' k' = xbind m k] with [H : nf (xbind m k)] *)
Ltac bm H := apply bind_mono; [exact H | | ].

Lemma FM_S f g : FM f g -> FM (S f) (S g).
Proof.
  intros [Hexpr Hprimary Hfold Hargs Hcall Hwp Hwsub Hwexpr Hwexprs Hstmt Hblock Hstmts Hloop].
  constructor.
  - intros x e H. destruct x as [p|op l first rest|op a]; simpl in *.
    + apply Hprimary; auto.
    + bm H; [apply Hexpr|]. intros lv e1 H1. apply Hfold; auto.
    + bm H; [apply Hexpr|]. reflexivity.
  - intros p e H. destruct p as [l r|i r|a s|name r args|a]; simpl in *.
    + reflexivity.
    + reflexivity.
    + bm H; [apply Hprimary|]. intros av e1 H1. bm H1; [apply Hprimary|]. reflexivity.
    + apply Hcall; auto.
    + assert (Hs : nf (settle (write_primary prof f WPop a e))).
      { intro E. apply H. rewrite E. reflexivity. }
      rewrite (settle_mono _ (write_primary prof g WPop a e) Hs); [reflexivity|]. apply Hwp.
  - intros op acc l e H. destruct l as [|x t]; simpl in *; [reflexivity|].
    destruct (needs_rhs op acc).
    + bm H; [apply Hexpr|]. intros bv e1 H1. bm H1; [reflexivity|]. intros r e2 H2. apply Hfold; auto.
    + apply Hfold; auto.
  - intros l e H. destruct l as [|x t]; simpl in *; [reflexivity|].
    bm H; [apply Hexpr|]. intros v e1 H1. bm H1; [apply Hargs|]. reflexivity.
  - intros n args e H. simpl in *.
    bm H; [reflexivity|]. intros [params body] e0 H0.
    destruct (negb (Val.len params =? Val.len args)%N); [reflexivity|].
    bm H0; [apply Hargs|]. intros vals e1 H1.
    bm H1; [reflexivity|]. intros e2 ex H2.
    destruct (enter_call e2) as [e2'|]; [|reflexivity].
    bm H2; [apply Hblock|]. reflexivity.
  - intros w p e H. destruct p as [l r|i r|a s|name r args|a]; simpl in *.
    + reflexivity.
    + reflexivity.
    + apply Hwsub; auto.
    + bm H; [reflexivity|]. intros i1 e1 H1. bm H1; [apply Hwexprs|]. reflexivity.
    + apply Hwp; auto.
  - intros w a s keys e H. simpl in *.
    apply absorb_mono; [exact H|apply Hprimary|]. intros sv e1 H1.
    destruct a as [l r|i r|a2 s2|name r args|a2]; simpl in *; try reflexivity.
    apply Hwsub; auto.
  - intros w x e H. destruct x as [p|op l first rest|op a]; simpl in *.
    + apply Hwp; auto.
    + bm H; [apply Hwexpr|]. intros i1 e1 H1. bm H1; [apply Hwexprs|]. reflexivity.
    + bm H; [apply Hwexpr|]. reflexivity.
  - intros w l e H. destruct l as [|x t]; simpl in *; [reflexivity|].
    bm H; [apply Hwexpr|]. intros i1 e1 H1. apply Hwexprs; auto.
  - (* exec_stmt *)
    intros s xs e0 H. simpl in *. destruct (tick e0) as [e|]; [|reflexivity].
    assert (Hwrite : forall w d e1 (k : option val -> env -> xres xstate),
              nf (xbind (settle (write_primary prof f w (lhs_as_primary d) e1)) k) ->
              xbind (settle (write_primary prof g w (lhs_as_primary d) e1)) k =
              xbind (settle (write_primary prof f w (lhs_as_primary d) e1)) k).
    { intros w d e1 k Hn. bm Hn; [|reflexivity]. intro Hs. apply settle_mono; [exact Hs|apply Hwp]. }
    assert (Hwritep : forall w p e1 (k : option val -> env -> xres xstate),
              nf (xbind (settle (write_primary prof f w p e1)) k) ->
              xbind (settle (write_primary prof g w p e1)) k = xbind (settle (write_primary prof f w p e1)) k).
    { intros w p e1 k Hn. bm Hn; [|reflexivity]. intro Hs. apply settle_mono; [exact Hs|apply Hwp]. }
    destruct s as [d first rest op|d rhs|d str_|c th else_|c b|c b|i r k|i r k|dest l|x|op operand dest param|dir operand|r|r|arr value|arr dest|x|name r params body|name r args]; simpl in *.
    + bm H.
      * intro Hn. destruct op as [o|].
        -- bm Hn; [apply Hprimary|]. intros lv e1 H1. apply Hfold; auto.
        -- destruct rest; [apply Hexpr; auto|reflexivity].
      * intros nv e1 H1. apply Hwrite; auto.
    + bm H.
      * intro Hn. destruct rhs; [apply Hexpr; auto|reflexivity].
      * intros nv e1 H1. apply Hwrite; auto.
    + apply Hwrite; auto.
    + bm H; [apply Hexpr|]. intros cv e1 H1. bm H1; [|reflexivity].
      intro Hn. destruct (is_truthy cv); [apply Hblock; auto|]. destruct else_; [apply Hblock; auto|reflexivity].
    + apply Hloop; auto.
    + apply Hloop; auto.
    + reflexivity.
    + reflexivity.
    + bm H; [reflexivity|]. intros [ln c'] e1 H1. destruct dest as [d|]; [apply Hwrite; auto|reflexivity].
    + bm H; [apply Hexpr|]. reflexivity.
    + bm H.
      * intro Hn. destruct param as [px|]; [|reflexivity]. bm Hn; [apply Hexpr|]. reflexivity.
      * intros pv e1 H1. destruct dest as [d|].
        -- bm H1; [apply Hprimary|]. intros v e2 H2. bm H2; [reflexivity|]. intros v2 e3 H3. apply Hwrite; auto.
        -- apply Hwritep; auto.
    + bm H; [|reflexivity]. intro Hs. apply settle_mono; [exact Hs|apply Hwexpr].
    + reflexivity.
    + reflexivity.
    + destruct value as [[first rest|elems]|]; simpl in *.
      * bm H; [apply Hargs|]. intros vals e1 H1. apply Hwritep; auto.
      * apply Hwritep; auto.
      * apply Hwritep; auto.
    + bm H; [apply (Hprimary (PPop arr))|]. intros back e1 H1.
      destruct dest as [d|]; [apply Hwrite; auto|reflexivity].
    + destruct (debug_assert prof 33 (match xret xs with None => true | Some _ => false end)); try reflexivity.
      bm H; [apply Hexpr|]. reflexivity.
    + reflexivity.
    + bm H; [apply Hcall|]. reflexivity.
  - intros b xs e H. destruct b; simpl in *; [reflexivity|apply Hstmts; auto].
  - intros ss xs e H. destruct ss as [|s t]; simpl in *; [reflexivity|].
    bm H; [apply Hstmt|]. intros xs1 e1 H1. destruct (skip_rest (xflag xs1)); [reflexivity|apply Hstmts; auto].
  - intros inv c b xs e0 H. simpl in *. destruct (tick e0) as [e|]; [|reflexivity].
    bm H; [apply Hexpr|]. intros cv e1 H1.
    destruct (xorb inv (is_truthy cv)); [|reflexivity].
    bm H1; [apply Hblock|]. intros xs' e3 H3. bm H3; [reflexivity|]. intros e4 ex H4.
    destruct (xflag xs'); try reflexivity; apply Hloop; auto.
Qed.

Theorem FM_all : forall f g, (f <= g)%nat -> FM f g.
Proof.
  induction f as [|f IH]; intros g Hle; [apply FM_0|].
  destruct g as [|g]; [lia|]. apply FM_S. apply IH. lia.
Qed.

Lemma exec_blocks_mono f g : (f <= g)%nat -> forall bs xs e,
  nf (exec_blocks prof f bs xs e) -> exec_blocks prof g bs xs e = exec_blocks prof f bs xs e.
Proof.
  intro Hle. induction bs as [|b t IH]; intros xs e H; cbn [exec_blocks] in *; [reflexivity|].
  bm H; [apply (fm_block f g (FM_all f g Hle))|]. intros xs1 e1 H1.
  destruct (skip_rest (xflag xs1)); [reflexivity|apply IH; auto].
Qed.

(** ** more fuel never changes an outcome *)
Theorem exec_program_fuel_irrelevant f f' p c :
  (f <= f')%nat -> exec_program prof f p c <> XOutOfFuel -> exec_program prof f' p c = exec_program prof f p c.
Proof. intros Hle H. unfold exec_program in *. apply exec_blocks_mono; auto. Qed.

Theorem exec_stmt_fuel_irrelevant f f' s xs e :
  (f <= f')%nat -> exec_stmt prof f s xs e <> XOutOfFuel -> exec_stmt prof f' s xs e = exec_stmt prof f s xs e.
Proof. intros Hle H. apply (fm_stmt f f' (FM_all f f' Hle)). exact H. Qed.

Theorem produce_expr_fuel_irrelevant f f' x e :
  (f <= f')%nat -> produce_expr prof f x e <> XOutOfFuel -> produce_expr prof f' x e = produce_expr prof f x e.
Proof. intros Hle H. apply (fm_expr f f' (FM_all f f' Hle)). exact H. Qed.

(** two runs that both finish agree, whatever fuel each was given: the outcome is unique *)
Corollary outcome_unique f1 f2 p c :
  exec_program prof f1 p c <> XOutOfFuel -> exec_program prof f2 p c <> XOutOfFuel ->
  exec_program prof f1 p c = exec_program prof f2 p c.
Proof.
  intros H1 H2. destruct (Nat.le_ge_cases f1 f2) as [L|L].
  - symmetry. apply exec_program_fuel_irrelevant; auto.
  - apply exec_program_fuel_irrelevant; auto.
Qed.
End Mono.
