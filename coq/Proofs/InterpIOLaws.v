(** C08 at the level of one statement: a `listen` (with a plain destination, or none) consumes exactly one line
    whether or not it stores it; a `say` of a call-free expression writes exactly one line — the canonical text of
    the value — and reads nothing. *)
From Coq Require Import List ZArith NArith Bool Lia.
From RRSS Require Import Base.Outcome Base.Chars Base.F64 Exec.Val Exec.Ops Front.Ast Front.Poetic Exec.Env Exec.Interp.
From RRSS Require Import Proofs.InterpIO Proofs.InterpPure.
Import ListNotations.

Section L.
Variable prof : profile.

(** `listen` / `listen to x` *)
Theorem stmt_listen_consumes_one_line f dest l xs e xs' e' :
  (dest = None \/ exists i r, dest = Some (LIdent i r)) ->
  exec_stmt prof (S (S f)) (SInput dest l) xs e = XOk xs' e' ->
  exists ln c1, chan_input (chan e) = Ok (ln, c1) /\ chan e' = c1.
Proof.
  intros Hd. simpl. unfold tick. destruct (steps e =? 0)%N; [discriminate|]. cbn [chan].
  unfold lift_env at 1, lift_res at 1.
  destruct (chan_input (chan e)) as [[ln c']| | | | |]; cbn [xbind]; try discriminate.
  destruct Hd as [->|(i & r & ->)].
  - intro H. injection H as _ <-. eauto.
  - cbn [lhs_as_primary write_primary].
    match goal with |- xbind (settle (write_ident ?w ?k i ?e1)) _ = _ -> _ =>
      pose proof (C_write_ident w k i e1) as C; destruct (write_ident w k i e1) as [[b|x] e2| | | | |] end;
      cbn [settle xbind] in *; try discriminate.
    intro H. injection H as _ <-. exists ln, c'. split; auto.
Qed.

(** `say e` for a call-free e *)
Theorem stmt_say_writes_one_line f x xs e xs' e' :
  pure_expr x = true -> exec_stmt prof (S f) (SOutput x) xs e = XOk xs' e' ->
  exists v txt, to_string_for_output v = Ok txt /\
    fst (chan_output txt (chan e)) = Ok (chan e') /\
    out_bytes (chan e') = out_bytes (chan e) ++ utf8_encode txt ++ [10%N] /\
    in_rest (chan e') = in_rest (chan e).
Proof.
  intro Hp. simpl. destruct (tick e) as [e0|] eqn:Et; [|discriminate].
  assert (Ec : chan e0 = chan e).
  { unfold tick in Et. destruct (steps e =? 0)%N; [discriminate|]. injection Et as <-. reflexivity. }
  destruct (produce_expr prof f x e0) as [v e1| | | | |] eqn:Ex; cbn [xbind]; try discriminate.
  destruct (pure_expr_frame prof f x e0 v e1 Hp Ex) as (_ & C1 & _ & _).
  unfold lift_val, lift_res. destruct (to_string_for_output v) as [txt| | | | |] eqn:Es; cbn [xbind]; try discriminate.
  destruct (chan_output txt (chan e1)) as [r cf] eqn:Eo. destruct r as [c'| | | | |]; try discriminate.
  intro H. injection H as _ <-. cbn [chan]. exists v, txt. rewrite C1, Ec in Eo. split; auto.
  split; [rewrite Eo; reflexivity|].
  assert (Ho : fst (chan_output txt (chan e)) = Ok c') by (rewrite Eo; reflexivity).
  destruct (chan_output_ok txt (chan e) c' Ho) as (A & B & _). split; auto.
Qed.
End L.
