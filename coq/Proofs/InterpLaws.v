(** Consequences of the interpreter invariant, and the semantic clauses of control flow, calls
    and I/O in the form the properties state them. *)
From Coq Require Import List ZArith NArith Bool Lia.
From RRSS Require Import Base.Outcome Base.Chars Base.F64 Base.F64Text Exec.Val Exec.Ops Front.Ast Front.Poetic Exec.Env Exec.Interp.
From RRSS Require Import Exec.RtErrorText Proofs.ValSafe Proofs.InterpInv.
Import ListNotations.

(** * C09: no crash, for every program, profile, input, fault positions and fuel *)
Theorem exec_no_crash prof fuel p c :
  match exec_program prof fuel p c with XPanic _ | XUB _ => False | _ => True end.
Proof.
  pose proof (exec_program_inv prof fuel p c) as H.
  destruct (exec_program prof fuel p c); cbn in H; auto.
Qed.

(** every statement, expression and write is crash-free from any environment with a scope *)
Theorem exec_stmt_no_crash prof fuel s xs e :
  wf e -> prex xs ->
  match exec_stmt prof fuel s xs e with XPanic _ | XUB _ => False | _ => True end.
Proof.
  intros W Hp. pose proof (P_exec_stmt prof fuel (all_P prof fuel) s xs e W Hp) as H.
  destruct (exec_stmt prof fuel s xs e); cbn in H; auto.
Qed.

Theorem produce_expr_no_crash prof fuel x e :
  wf e -> match produce_expr prof fuel x e with XPanic _ | XUB _ => False | _ => True end.
Proof.
  intros W. pose proof (P_produce_expr prof fuel (all_P prof fuel) x e W) as H.
  destruct (produce_expr prof fuel x e); cbn in H; auto.
Qed.

(** * C04 / C08: what was written stays written, also when a statement fails *)
Theorem output_preserved_stmt prof fuel s xs e :
  wf e -> prex xs ->
  match exec_stmt prof fuel s xs e with
  | XOk _ e' | XErr _ e' => prefix_of (outp e) (outp e')
  | _ => True
  end.
Proof.
  intros W Hp. pose proof (P_exec_stmt prof fuel (all_P prof fuel) s xs e W Hp) as H.
  destruct (exec_stmt prof fuel s xs e); cbn in H; auto.
  - destruct H as [(_ & H & _) _]. exact H.
  - destruct H as [_ H]. exact H.
Qed.

Theorem output_preserved_program prof fuel p c :
  match exec_program prof fuel p c with
  | XOk _ e' | XErr _ e' => prefix_of (out_bytes c) (outp e')
  | _ => True
  end.
Proof.
  pose proof (exec_program_inv prof fuel p c) as H.
  destruct (exec_program prof fuel p c); cbn in H; auto.
  - destruct H as [(_ & H & _) _]. exact H.
  - destruct H as [_ H]. exact H.
Qed.

(** * C05: a completed statement, block, call or expression leaves the scope stack as deep as it was *)
Theorem scopes_restored_stmt prof fuel s xs e xs' e' :
  wf e -> prex xs -> exec_stmt prof fuel s xs e = XOk xs' e' -> depth_of e' = depth_of e.
Proof.
  intros W Hp E. pose proof (P_exec_stmt prof fuel (all_P prof fuel) s xs e W Hp) as H.
  rewrite E in H. destruct H as [[H _] _]. exact H.
Qed.

Theorem scopes_restored_call prof fuel n args e v e' :
  wf e -> call_function prof fuel n args e = XOk v e' -> depth_of e' = depth_of e.
Proof.
  intros W E. pose proof (P_call_function prof fuel (all_P prof fuel) n args e W) as H.
  rewrite E in H. destruct H as [[H _] _]. exact H.
Qed.

Theorem scopes_restored_expr prof fuel x e v e' :
  wf e -> produce_expr prof fuel x e = XOk v e' -> depth_of e' = depth_of e.
Proof.
  intros W E. pose proof (P_produce_expr prof fuel (all_P prof fuel) x e W) as H.
  rewrite E in H. destruct H as [[H _] _]. exact H.
Qed.

(** * C05: which names a scope binds.  The innermost scope may gain names (appended), every
    enclosing scope keeps exactly its names — through any statement, and through anything it calls *)
Theorem names_only_grow_stmt prof fuel s xs e xs' e' :
  wf e -> prex xs -> exec_stmt prof fuel s xs e = XOk xs' e' -> SK (scopes e) (scopes e').
Proof.
  intros W Hp E. pose proof (P_exec_stmt prof fuel (all_P prof fuel) s xs e W Hp) as H.
  rewrite E in H. destruct H as [(_ & _ & H) _]. exact H.
Qed.

Theorem names_only_grow_expr prof fuel x e v e' :
  wf e -> produce_expr prof fuel x e = XOk v e' -> SK (scopes e) (scopes e').
Proof.
  intros W E. pose proof (P_produce_expr prof fuel (all_P prof fuel) x e W) as H.
  rewrite E in H. destruct H as [(_ & _ & H) _]. exact H.
Qed.

(** locals do not leak: whatever a body binds in the scope [t0] opened for it (parameters, first
    assignments), once that scope is popped the enclosing scopes bind exactly the names they bound before *)
Theorem body_locals_do_not_leak prof fuel body xs e1 e2 t0 xs' e3 :
  scopes e2 = t0 :: scopes e1 -> prex xs ->
  exec_block prof fuel body xs e2 = XOk xs' e3 ->
  map keys (tl (scopes e3)) = map keys (scopes e1).
Proof.
  intros Hs Hp E.
  assert (W : wf e2) by (unfold wf, depth_of; rewrite Hs; cbn; lia).
  pose proof (P_exec_block prof fuel (all_P prof fuel) body xs e2 W Hp) as H.
  rewrite E in H. destruct H as [(_ & _ & H) _]. rewrite Hs in H.
  destruct (scopes e3) as [|t3 r3]; [contradiction|]. destruct H as [_ H]. cbn. auto.
Qed.

(** * C04: the semantic clauses (one step of fuel = one unfolding of the Rust method) *)

Definition after_tick (e : env) (k : env -> xres xstate) : xres xstate :=
  match tick e with None => XOverBudget | Some e' => k e' end.

(** an [if] evaluates its condition once and runs exactly one branch, in a fresh scope *)
Theorem if_clause prof f c th el xs e :
  exec_stmt prof (S f) (SIf c th el) xs e =
  after_tick e (fun e =>
    let+ (cv, e1) := produce_expr prof f c e in
    let e2 := push_scope e1 in
    let+ (xs', e3) :=
      if is_truthy cv then exec_block prof f th xs e2
      else match el with Some b => exec_block prof f b xs e2 | None => XOk xs e2 end in
    let+ (e4, _) := lift_env (pop_scope prof e3) e3 in
    XOk xs' e4).
Proof. reflexivity. Qed.

(** while/until re-evaluate the condition before every iteration; break leaves and continue
    restarts exactly this loop (the flag is reset here and nowhere else); return propagates *)
Theorem loop_clause prof f invert c b xs e :
  exec_loop prof (S f) invert c b xs e =
  after_tick e (fun e =>
    let+ (cv, e1) := produce_expr prof f c e in
    if xorb invert (is_truthy cv) then
      let+ (xs', e3) := exec_block prof f b xs (push_scope e1) in
      let+ (e4, _) := lift_env (pop_scope prof e3) e3 in
      match xflag xs' with
      | Normal => exec_loop prof f invert c b xs' e4
      | Continuing => exec_loop prof f invert c b (mkX Normal (xret xs')) e4
      | Breaking => XOk (mkX Normal (xret xs')) e4
      | Returning => XOk xs' e4
      end
    else XOk xs e1).
Proof. reflexivity. Qed.

(** break and continue never escape the loop they belong to: whatever happens inside (at any depth of
    nested ifs and blocks), a loop entered with a normal flag ends with a normal flag, or with a
    pending return; the flag that an inner break/continue raised was consumed by *this* loop *)
Theorem loop_exit_flag prof : forall f invert c b xs e xs' e',
  xflag xs = Normal -> exec_loop prof f invert c b xs e = XOk xs' e' ->
  xflag xs' = Normal \/ xflag xs' = Returning.
Proof.
  induction f as [|f IH]; intros invert c b xs e xs' e' Hn H; [discriminate|].
  rewrite loop_clause in H. unfold after_tick in H. destruct (tick e) as [et|]; [|discriminate].
  destruct (produce_expr prof f c et) as [cv e1| | | | |]; cbn [xbind] in H; try discriminate.
  destruct (xorb invert (is_truthy cv)).
  - destruct (exec_block prof f b xs (push_scope e1)) as [xs1 e3| | | | |]; cbn [xbind] in H; try discriminate.
    destruct (lift_env (pop_scope prof e3) e3) as [e4 e4'| | | | |]; cbn [xbind] in H; try discriminate.
    destruct (xflag xs1) eqn:Ef.
    + eapply IH; eauto.
    + injection H as <- _. left. reflexivity.
    + eapply IH; [|exact H]. reflexivity.
    + injection H as <- _. right. exact Ef.
  - injection H as <- _. left. exact Hn.
Qed.

(** C07: cut / join / cast with an `into` destination only *read* the operand and write the result to the
    destination; without one the operand itself is rewritten in place by one write visit *)
Theorem mutation_into_clause prof f op operand d param xs e :
  exec_stmt prof (S f) (SMutation op operand (Some d) param) xs e =
  after_tick e (fun e =>
    let+ (pv, e1) := match param with
                     | Some px => let+ (v, e') := produce_expr prof f px e in XOk (Some v) e'
                     | None => XOk None e
                     end in
    let+ (v, e2) := produce_primary prof f operand e1 in
    let+ (v', e3) := lift_val (apply_mutation op v pv) e2 in
    let+ (_, e4) := settle (write_primary prof f (WAssign v') (lhs_as_primary d) e3) in
    XOk xs e4).
Proof. reflexivity. Qed.

Theorem mutation_in_place_clause prof f op operand param xs e :
  exec_stmt prof (S f) (SMutation op operand None param) xs e =
  after_tick e (fun e =>
    let+ (pv, e1) := match param with
                     | Some px => let+ (v, e') := produce_expr prof f px e in XOk (Some v) e'
                     | None => XOk None e
                     end in
    let+ (_, e2) := settle (write_primary prof f (WMutate op pv) operand e1) in
    XOk xs e2).
Proof. reflexivity. Qed.

Theorem rounding_clause prof f dir operand xs e :
  exec_stmt prof (S f) (SRounding dir operand) xs e =
  after_tick e (fun e => let+ (_, e1) := settle (write_expr prof f (WRound dir) operand e) in XOk xs e1).
Proof. reflexivity. Qed.

Theorem while_until_clause prof f c b xs e :
  exec_stmt prof (S f) (SWhile c b) xs e = after_tick e (exec_loop prof f false c b xs) /\
  exec_stmt prof (S f) (SUntil c b) xs e = after_tick e (exec_loop prof f true c b xs).
Proof. split; reflexivity. Qed.

(** statements run in order; after a break/continue/return the rest of the block is skipped *)
Theorem stmts_clause prof f s t xs e :
  exec_stmts prof (S f) (s :: t) xs e =
  (let+ (xs', e1) := exec_stmt prof f s xs e in
   if skip_rest (xflag xs') then XOk xs' e1 else exec_stmts prof f t xs' e1).
Proof. reflexivity. Qed.

Theorem break_continue_clause prof f r xs e :
  xflag xs = Normal ->
  exec_stmt prof (S f) (SBreak r) xs e = after_tick e (fun e => XOk (mkX Breaking (xret xs)) e) /\
  exec_stmt prof (S f) (SContinue r) xs e = after_tick e (fun e => XOk (mkX Continuing (xret xs)) e).
Proof.
  intro H. split; cbn; unfold after_tick; destruct (tick e); auto; rewrite H; destruct prof; reflexivity.
Qed.

(** an error stops execution at that statement: nothing after it in the block runs *)
Theorem error_stops_block prof f s t xs e x e' :
  exec_stmt prof f s xs e = XErr x e' -> exec_stmts prof (S f) (s :: t) xs e = XErr x e'.
Proof. intro H. rewrite stmts_clause, H. reflexivity. Qed.

(** * C05: the call protocol *)
Theorem call_clause prof f name args e :
  call_function prof (S f) name args e =
  (let+ (fd, e0) := lift_env (env_lookup_func name e) e in
   let '(params, body) := fd in
   if negb (len params =? len args)%N then XErr (RWrongArgs (len params) (len args)) e0 else
   let+ (vals, e1) := produce_args prof f args e0 in
   let+ (e2, _) := lift_env (env_push_function_scope (combine (map fst params) vals) e1) e1 in
   match enter_call e2 with
   | None => XOverBudget
   | Some e2' =>
       let+ (xs, e3) := exec_block prof f body x_init e2' in
       let+ (e4, _) := lift_env (pop_scope prof (leave_call e3)) e3 in
       XOk (match xret xs with Some v => v | None => VUndef end) e4
   end).
Proof. reflexivity. Qed.

(** arguments are evaluated left to right *)
Theorem args_clause prof f x t e :
  produce_args prof (S f) (x :: t) e =
  (let+ (v, e1) := produce_expr prof f x e in
   let+ (vs, e2) := produce_args prof f t e1 in
   XOk (v :: vs) e2).
Proof. reflexivity. Qed.

(** parameters are bound in a fresh scope of their own: the caller's tables are not touched by the binding *)
Theorem push_function_scope_fresh args e e2 :
  env_push_function_scope args e = Ok e2 -> exists t, scopes e2 = t :: scopes e /\ last_access e2 = last_access e.
Proof.
  unfold env_push_function_scope. destruct (tab_for_call args []); try discriminate.
  intro H; inversion H; subst. eexists; split; reflexivity.
Qed.

(** the pronoun referent is cleared whenever a scope ends (block, loop body, call) *)
Theorem pop_scope_clears_pronoun prof e e' : pop_scope prof e = Ok e' -> last_access e' = None.
Proof.
  unfold pop_scope. destruct (debug_assert prof 20 (1 <? len (scopes e))%N); cbn; try discriminate.
  intro H; inversion H; reflexivity.
Qed.

(** looking a name up makes it the pronoun referent, found or not *)
Theorem lookup_sets_pronoun n e : last_access (snd (env_lookup_var n e)) = Some n.
Proof. reflexivity. Qed.

(** unknown names, non-functions and wrong arities are runtime errors *)
Theorem unknown_name_error prof f n r e :
  find_var n (scopes e) = Err (NameNotFound n) ->
  exists e', produce_primary prof (S f) (PIdent (IVar n) r) e = XErr (REnv (SymTableError (NameNotFound n))) e'.
Proof. intro H. cbn. unfold lookup_var_x, env_lookup_var. rewrite H. cbn. eauto. Qed.

Theorem arity_error prof f name args e params body :
  env_lookup_func name e = Ok (params, body) -> len params <> len args ->
  call_function prof (S f) name args e = XErr (RWrongArgs (len params) (len args)) e.
Proof.
  intros H Hn. rewrite call_clause, H. cbn.
  destruct (len params =? len args)%N eqn:E; [apply N.eqb_eq in E; contradiction|reflexivity].
Qed.

(** * C08: the channels *)

(** a `say` with room writes exactly the text and one line feed *)
Theorem say_writes_one_line txt c :
  (match out_budget c with None => True | Some b => (len (utf8_encode txt ++ [10%N]) <= b)%N end) ->
  exists c', fst (chan_output txt c) = Ok c' /\ out_bytes c' = out_bytes c ++ utf8_encode txt ++ [10%N] /\
             in_rest c' = in_rest c /\ in_pos c' = in_pos c.
Proof.
  unfold chan_output. destruct (out_budget c) as [b|]; intro H.
  - apply N.leb_le in H. rewrite H. eexists. repeat split.
  - eexists. repeat split.
Qed.

(** a failing writer: the bytes accepted are exactly the budget, a prefix of the line; the statement
    fails with an I/O error and the budget is exhausted (nothing can be written afterwards) *)
Theorem say_fault txt c b :
  out_budget c = Some b -> (b < len (utf8_encode txt ++ [10%N]))%N ->
  exists cf, chan_output txt c = (Err (IOError write_fault_msg), cf) /\
             out_bytes cf = out_bytes c ++ firstn (N.to_nat b) (utf8_encode txt ++ [10%N]) /\
             out_budget cf = Some 0%N.
Proof.
  intros Hb Hlt. unfold chan_output. rewrite Hb.
  destruct (len (utf8_encode txt ++ [10%N]) <=? b)%N eqn:E; [apply N.leb_le in E; lia|].
  eexists. repeat split.
Qed.

(** once the writer has failed, every later `say` fails without writing a byte *)
Theorem say_after_fault txt c :
  out_budget c = Some 0%N ->
  exists cf, chan_output txt c = (Err (IOError write_fault_msg), cf) /\ out_bytes cf = out_bytes c.
Proof.
  intro Hb. unfold chan_output. rewrite Hb.
  assert (H : (len (utf8_encode txt ++ [10%N]) <=? 0)%N = false).
  { apply N.leb_gt. unfold len. rewrite app_length. cbn. lia. }
  rewrite H. eexists. split; [reflexivity|]. cbn. rewrite app_nil_r. reflexivity.
Qed.

Lemma take_line_spec s acc :
  let '(ln, rest, found) := take_line s acc in
  if found then rev acc ++ s = ln ++ [10%N] ++ rest /\ ~ In 10%N (skipn (length acc) ln)
  else rev acc ++ s = ln /\ rest = [] /\ ~ In 10%N s.
Proof.
  revert acc. induction s as [|c t IH]; intro acc; cbn; rewrite <- ?rev_alt.
  - rewrite app_nil_r. auto.
  - destruct (c =? 10)%N eqn:E.
    + apply N.eqb_eq in E. subst. split; [reflexivity|].
      rewrite <- (rev_length acc). rewrite skipn_all. auto.
    + specialize (IH (c :: acc)). destruct (take_line t (c :: acc)) as [[ln rest] found].
      apply N.eqb_neq in E. cbn [rev] in IH. rewrite <- app_assoc in IH. cbn in IH.
      destruct found.
      * destruct IH as [H1 H2]. split; auto.
        intro Hin. apply H2.
        assert (length acc <= length ln)%nat.
        { assert (L : length (rev acc ++ c :: t) = length (ln ++ 10%N :: rest)) by congruence.
          destruct (Nat.le_gt_cases (length acc) (length ln)); auto.
          rewrite skipn_all2 in Hin by lia. contradiction. }
        (* the element at position |acc| of ln is c <> 10 *)
        assert (Hs : skipn (length acc) ln = c :: skipn (S (length acc)) ln).
        { assert (E1 : skipn (length acc) (ln ++ 10%N :: rest) = c :: t).
          { rewrite <- H1. rewrite <- (rev_length acc). rewrite skipn_app, skipn_all, Nat.sub_diag. reflexivity. }
          rewrite skipn_app in E1.
          destruct (skipn (length acc) ln) as [|y ys] eqn:Es.
          - cbn in E1. destruct (length acc - length ln)%nat; cbn in E1; inversion E1; subst; contradiction.
          - cbn in E1. inversion E1; subst. f_equal.
            clear -Es. revert ln Es. generalize (length acc). induction n; intros ln Es; destruct ln; cbn in *; try discriminate.
            + inversion Es; reflexivity.
            + apply IHn; auto. }
        rewrite Hs in Hin. destruct Hin as [Hin|Hin]; [congruence|exact Hin].
      * destruct IH as (H1 & H2 & H3). repeat split; auto. intros [Hin|Hin]; [congruence|auto].
Qed.

(** a `listen` consumes exactly one line: up to and including the next line feed (or to the end of
    the input), delivers it without the terminator, and touches nothing of the output *)
Theorem listen_consumes_one_line c ln c' :
  chan_input c = Ok (ln, c') ->
  (in_rest c = ln ++ [10%N] ++ in_rest c' \/ (in_rest c = ln /\ in_rest c' = [])) /\
  ~ In 10%N ln /\ out_bytes c' = out_bytes c /\ out_budget c' = out_budget c /\ in_fault c' = in_fault c.
Proof.
  unfold chan_input. pose proof (take_line_spec (in_rest c) []) as H.
  destruct (take_line (in_rest c) []) as [[l r] found].
  match goal with |- (if ?b then _ else _) = _ -> _ => destruct b end; try discriminate.
  intro E; inversion E; subst; clear E. cbn [rev app length skipn] in H.
  destruct found.
  - destruct H as [H1 H2]. repeat split; auto.
  - destruct H as (H1 & H2 & H3). subst. repeat split; auto.
Qed.

(** the message of every runtime error renders: [rt_error_display] is a total function *)
Theorem runtime_error_renders : forall e : rt_error, exists txt, rt_error_display e = txt.
Proof. intro e. eexists. reflexivity. Qed.
