(** Every value the interpreter ever holds is well formed ([wf_val]: no dictionary binds a key
    twice, recursively) — the domain on which the value laws of C14 and the order-independence
    theorems of C10 are stated.  One induction on fuel over the fourteen interpreter functions. *)
From Coq Require Import List ZArith NArith Bool Lia.
From RRSS Require Import Base.Outcome Base.Chars Base.F64 Base.F64Text Exec.Val Exec.Ops Front.Ast Front.Poetic Exec.Env Exec.Interp.
From RRSS Require Import Proofs.ValInd.
Import ListNotations.

Definition scalar (v : val) : Prop := match v with VArr _ _ => False | _ => True end.
Lemma scalar_wf v : scalar v -> wf_val v.
Proof. destruct v; cbn; auto; contradiction. Qed.

Lemma wf_arr_i a d : Forall wf_val a -> NoDup (map fst d) -> Forall (fun kv => wf_val (snd kv)) d -> wf_val (VArr a d).
Proof. intros. apply (proj2 (wf_arr a d)). auto. Qed.

Lemma wf_nil : wf_val (VArr [] []).
Proof. cbn. split; [exact I|split; [constructor|exact I]]. Qed.

(** pure results *)
Definition wres {E A} (Q : A -> Prop) (r : res E A) : Prop := match r with Ok a => Q a | _ => True end.

Lemma wres_bind {E A B} (Q : A -> Prop) (R : B -> Prop) (m : res E A) (f : A -> res E B) :
  wres Q m -> (forall a, Q a -> wres R (f a)) -> wres R (bind m f).
Proof. destruct m; cbn; auto. Qed.

(** * Arrays *)
Lemma nth_N_wf a : forall i v, Forall wf_val a -> nth_N a i = Some v -> wf_val v.
Proof.
  induction a as [|x t IH]; intros i v F H; cbn in H; [discriminate|].
  inversion F; subst. destruct (i =? 0)%N; [injection H as <-; auto|eauto].
Qed.

Lemma set_nth_N_wf a : forall i x, Forall wf_val a -> wf_val x -> Forall wf_val (set_nth_N a i x).
Proof.
  induction a as [|y t IH]; intros i x F Hx; cbn; auto.
  inversion F; subst. destruct (i =? 0)%N; constructor; auto.
Qed.

Lemma repeat_val_wf n : Forall wf_val (repeat_val n).
Proof. induction n; cbn; constructor; auto. exact I. Qed.

Lemma dict_get_wf k d v : Forall (fun kv => wf_val (snd kv)) d -> dict_get k d = Some v -> wf_val v.
Proof.
  intros F H. apply dict_get_in in H. rewrite Forall_forall in F. apply (F (k, v) H).
Qed.

Lemma dict_set_wf_vals k v d :
  Forall (fun kv => wf_val (snd kv)) d -> wf_val v -> Forall (fun kv => wf_val (snd kv)) (dict_set k v d).
Proof.
  induction d as [|[k' v'] t IH]; intros F Hv; cbn.
  - constructor; auto.
  - inversion F; subst. destruct (dkey_eqb k k'); constructor; auto.
Qed.

Lemma v_index_wf self k : wf_val self -> wres wf_val (v_index self k).
Proof.
  intro W. destruct self; cbn; auto.
  - destruct k; cbn; auto. unfold index_string. destruct (nth_N s (f_to_usize f)); exact I.
  - apply wf_arr in W as (Fa & Hn & Fd). unfold arr_index.
    destruct k; cbn; auto; try (destruct (dict_get _ dict) eqn:E; [eapply dict_get_wf; eauto|exact I]).
    destruct (nth_N arr (f_to_usize f)) eqn:E; [eapply nth_N_wf; eauto|exact I].
Qed.

Lemma v_update_at_wf {X} (QX : X -> Prop) self k (f : val -> vres (val * X)) :
  wf_val self -> (forall cur, wf_val cur -> wres (fun p => wf_val (fst p) /\ QX (snd p)) (f cur)) ->
  wres (fun p => wf_val (fst p) /\ QX (snd p)) (v_update_at self k f).
Proof.
  intros W Hf. unfold v_update_at.
  assert (W' : wf_val (match self with VUndef => VArr [] [] | _ => self end)).
  { destruct self; auto. exact wf_nil. }
  destruct (match self with VUndef => VArr [] [] | _ => self end) as [| | | | |a d]; cbn; auto.
  apply wf_arr in W' as (Fa & Hn & Fd).
  assert (Hdict : forall dk, wres (fun p => wf_val (fst p) /\ QX (snd p))
            (let* (nv, x) := f (match dict_get dk d with Some v => v | None => VUndef end) in Ok (VArr a (dict_set dk nv d), x))).
  { intro dk. eapply wres_bind; [apply Hf|].
    - destruct (dict_get dk d) eqn:E; [eapply dict_get_wf; eauto|exact I].
    - intros [nv x] [Hnv Hx]. cbn in *. split; auto. apply wf_arr_i; auto.
      + apply dict_set_nodup; auto.
      + apply dict_set_wf_vals; auto. }
  destruct k; cbn; auto; try apply Hdict.
  destruct (size_budget <=? f_to_usize f0)%N; [exact I|].
  set (a' := if (len a <=? f_to_usize f0)%N then a ++ repeat_val (N.to_nat (f_to_usize f0 + 1 - len a)) else a).
  assert (Fa' : Forall wf_val a').
  { unfold a'. destruct (len a <=? f_to_usize f0)%N; auto. apply Forall_app. split; auto. apply repeat_val_wf. }
  destruct (nth_N a' (f_to_usize f0)) eqn:E; [|exact I].
  eapply wres_bind; [apply Hf; eapply nth_N_wf; eauto|].
  intros [nv x] [Hnv Hx]. cbn in *. split; auto. apply wf_arr_i; auto. apply set_nth_N_wf; auto.
Qed.

Lemma v_array_coerce_wf v : wf_val v -> wf_val (v_array_coerce v).
Proof.
  intro W. destruct v; unfold v_array_coerce; auto; try exact wf_nil; apply wf_arr_i; repeat constructor.
Qed.

Lemma v_push_wf v vals : wf_val v -> Forall wf_val vals -> wres wf_val (v_push v vals).
Proof.
  intros W F. unfold v_push. pose proof (v_array_coerce_wf v W) as Wc.
  destruct (v_array_coerce v); cbn; auto. apply wf_arr in Wc as (Fa & Hn & Fd). apply wf_arr_i; auto.
  apply Forall_app. auto.
Qed.

Lemma v_pop_wf v : wf_val v -> wres (fun p => wf_val (fst p) /\ wf_val (snd p)) (v_pop v).
Proof.
  intro W. destruct v; try exact I. apply wf_arr in W as (Fa & Hn & Fd).
  destruct arr as [|x t]; unfold v_pop, wres, fst, snd.
  - split; [apply wf_arr_i; auto|exact I].
  - inversion Fa; subst. split; auto. apply wf_arr_i; auto.
Qed.

(** * Scalars: every arithmetic, logical, rounding, casting and joining result is a scalar *)
Lemma v_plus_scalar a b : scalar (v_plus a b).
Proof. unfold v_plus. destruct (plus_coerced a b) as [x y]. destruct x, y; exact I. Qed.
Lemma v_subtract_scalar a b : scalar (v_subtract a b).
Proof. unfold v_subtract. destruct (arith_coerced a b) as [x y]. destruct x, y; exact I. Qed.
Lemma v_divide_scalar a b : scalar (v_divide a b).
Proof. unfold v_divide. destruct (arith_coerced a b) as [x y]. destruct x, y; exact I. Qed.
Lemma v_multiply_scalar a b : wres scalar (v_multiply a b).
Proof.
  unfold v_multiply. destruct (arith_coerced a b) as [x y]. destruct x, y; cbn; auto.
  destruct (fleb fzero f); cbn; auto. destruct ((size_budget <? f_to_usize f) || (size_budget <? f_to_usize f * len s))%N; cbn; auto.
Qed.

Lemma binop_apply_wf o a b : wres wf_val (binop_apply o a b).
Proof.
  destruct o; cbn; try exact I.
  - apply scalar_wf, v_plus_scalar.
  - apply scalar_wf, v_subtract_scalar.
  - pose proof (v_multiply_scalar a b) as H. destruct (v_multiply a b); cbn in *; auto. apply scalar_wf; auto.
  - apply scalar_wf, v_divide_scalar.
  - destruct (v_equals a b); exact I.
  - destruct (v_equals a b); exact I.
  - destruct (v_compare a b); exact I.
  - destruct (v_compare a b); exact I.
  - destruct (v_compare a b); exact I.
  - destruct (v_compare a b); exact I.
Qed.

Lemma unop_apply_wf o a : wres wf_val (unop_apply o a).
Proof. destruct o; cbn; [destruct a; exact I|exact I]. Qed.

Lemma short_result_wf o a : wf_val (short_result o a).
Proof. destruct o; exact I. Qed.

Lemma v_inc_wf v k : wres wf_val (v_inc v k).
Proof. unfold v_inc. destruct v; cbn; exact I. Qed.

Lemma v_split_wf v p : wres wf_val (v_split v p).
Proof.
  unfold v_split. destruct v as [| | | |s|]; cbn; auto.
  assert (Harr : forall l : list str, wf_val (VArr (map VStr l) [])).
  { intro l. apply wf_arr_i; try constructor. induction l; cbn; constructor; auto. exact I. }
  assert (Hchars : forall l : str, wf_val (VArr (map (fun c => VStr [c]) l) [])).
  { intro l. apply wf_arr_i; try constructor. induction l; cbn; constructor; auto. exact I. }
  pose proof wf_nil as Hnil.
  destruct s as [|c s'].
  - destruct p as [d|]; [destruct (is_str d)|]; cbn; auto.
  - eapply wres_bind with (Q := fun _ => True).
    + destruct p as [[]|]; exact I.
    + intros d _. destruct d; cbn; [apply (Hchars (c :: s'))|apply Harr].
Qed.

Lemma v_join_wf v p : wres wf_val (v_join v p).
Proof.
  unfold v_join. destruct v as [| | | | |a d]; cbn; auto.
  assert (H : wres wf_val
           (let* d0 := match p with Some (VStr d0) => Ok d0 | Some d0 => Err (InvalidJoinDelimiter d0) | None => Ok [] end in
            match first_non_string (val_iter a d) with
            | Some bad => Err (InvalidArrayElementForJoin bad)
            | None => Ok (VStr (str_join d0 (map str_of_val (val_iter a d))))
            end)).
  { destruct p as [[]|]; cbn; auto; destruct (first_non_string (val_iter a d)); exact I. }
  destruct a, d; auto. destruct p as [x|]; [destruct (is_str x)|]; exact I.
Qed.

Lemma v_cast_wf v p : wres wf_val (v_cast v p).
Proof.
  unfold v_cast. destruct v; cbn; auto.
  - destruct p; cbn; auto. destruct (try_to_integer f); cbn; auto.
    destruct (((0 <=? z) && (z <=? u32_max))%Z && is_scalar_value (Z.to_N z)); exact I.
  - destruct p as [[]|]; cbn; auto.
    + destruct (try_to_integer f); cbn; auto. destruct ((0 <=? z) && (z <=? u32_max))%Z; cbn; auto.
      destruct ((2 <=? z) && (z <=? 36))%Z; cbn; auto. destruct (i64_from_str_radix s z); exact I.
    + destruct (f64_parse s); exact I.
Qed.

Lemma apply_mutation_wf op v p : wres wf_val (apply_mutation op v p).
Proof. destruct op; cbn; [apply v_split_wf|apply v_join_wf|apply v_cast_wf]. Qed.

Lemma apply_round_wf dir v : wres wf_val (apply_round dir v).
Proof. destruct dir, v; exact I. Qed.

(** * Write closures *)
Definition wf_wop (w : wop) : Prop :=
  match w with
  | WAssign v => wf_val v
  | WPush vals => Forall wf_val vals
  | _ => True
  end.

Definition wf_opt (o : option val) : Prop := match o with Some v => wf_val v | None => True end.

Lemma apply_wop_wf w cur : wf_wop w -> wf_val cur -> wres (fun p => wf_val (fst p) /\ wf_opt (snd p)) (apply_wop w cur).
Proof.
  intros Hw Hc. destruct w; cbn in *.
  - split; auto.
  - pose proof (v_inc_wf cur k) as H. destruct (v_inc cur k); cbn in *; auto.
  - pose proof (v_push_wf cur vals Hc Hw) as H. destruct (v_push cur vals); cbn in *; auto.
  - pose proof (v_pop_wf cur Hc) as H. destruct (v_pop cur) as [[a x]| | | | |]; cbn in *; auto.
  - pose proof (apply_mutation_wf op cur param) as H. destruct (apply_mutation op cur param); cbn in *; auto.
  - pose proof (apply_round_wf dir cur) as H. destruct (apply_round dir cur); cbn in *; auto.
Qed.

Lemma update_path_wf w keys : forall cur, wf_wop w -> wf_val cur ->
  wres (fun p => wf_val (fst p) /\ wf_opt (snd p)) (update_path cur keys w).
Proof.
  induction keys as [|k ks IH]; intros cur Hw Hc; cbn [update_path].
  - apply apply_wop_wf; auto.
  - apply (v_update_at_wf wf_opt); auto.
Qed.

(** * Environments *)
Definition wf_entry (x : entry) : Prop := match x with EVar v => wf_val v | EFunc _ _ => True end.
Definition wf_tab (t : symtab) : Prop := Forall (fun kv => wf_entry (snd kv)) t.
Definition wf_env (e : env) : Prop := Forall wf_tab (scopes e).

Lemma tab_get_wf k t x : wf_tab t -> tab_get k t = Some x -> wf_entry x.
Proof.
  induction t as [|[k' e'] r IH]; cbn; [discriminate|]. intros F H. inversion F; subst.
  destruct (varname_eqb k k'); [injection H as <-; auto|auto].
Qed.

Lemma find_var_wf n ss : Forall wf_tab ss -> wres wf_val (find_var n ss).
Proof.
  induction 1 as [|t r Ht Hr IH]; cbn; auto.
  unfold tab_lookup_var. destruct (tab_get (lower_name n) t) as [[v|ps b]|] eqn:E; cbn; auto.
  apply (tab_get_wf _ _ _ Ht E).
Qed.

Lemma tab_set_wf k x t : wf_tab t -> wf_entry x -> wf_tab (tab_set k x t).
Proof.
  induction t as [|[k' e'] r IH]; intros F Hx; cbn.
  - constructor; [exact Hx|constructor].
  - inversion F; subst. destruct (varname_eqb k k'); constructor; cbn in *; auto. apply IH; auto.
Qed.

Lemma store_var_wf n v ss : Forall wf_tab ss -> wf_val v -> Forall wf_tab (store_var n v ss).
Proof.
  induction 1 as [|t r Ht Hr IH]; intro Hv; cbn; auto.
  destruct (tab_lookup_var n t) as [x|[]| | | |]; try (constructor; auto; fail).
  constructor; auto. apply tab_set_wf; auto.
Qed.

Lemma tab_emplace_wf n x t : wf_tab t -> wf_entry x -> wres wf_tab (tab_emplace n x t).
Proof.
  intros F Hx. unfold tab_emplace. destruct (tab_get (lower_name n) t); cbn; auto.
  apply Forall_app. split; auto.
Qed.

Lemma tab_for_call_wf args : forall t, wf_tab t -> Forall (fun p => wf_val (snd p)) args -> wres wf_tab (tab_for_call args t).
Proof.
  induction args as [|[n v] r IH]; intros t Ht F; cbn; auto.
  inversion F; subst. pose proof (tab_emplace_wf n (EVar v) t Ht H1) as H.
  destruct (tab_emplace n (EVar v) t); cbn in *; auto.
Qed.

Lemma env_store_wf n v e : wf_env e -> wf_val v -> wf_env (env_store n v e).
Proof. intros W Hv. unfold wf_env, env_store. cbn. apply store_var_wf; auto. Qed.

Lemma env_create_var_wf n e : wf_env e -> wres wf_env (env_create_var n e).
Proof.
  intro W. unfold env_create_var. unfold wf_env in W. destruct (scopes e) as [|t r]; cbn; auto.
  inversion W; subst. pose proof (tab_emplace_wf n (EVar VUndef) t H1 I) as H.
  destruct (tab_emplace n (EVar VUndef) t); cbn in *; auto. constructor; auto.
Qed.

Lemma env_create_func_wf n ps b e : wf_env e -> wres wf_env (env_create_func n ps b e).
Proof.
  intro W. unfold env_create_func. unfold wf_env in W. destruct (scopes e) as [|t r]; cbn; auto.
  inversion W; subst. pose proof (tab_emplace_wf n (EFunc ps b) t H1 I) as H.
  destruct (tab_emplace n (EFunc ps b) t); cbn in *; auto. constructor; auto.
Qed.

Lemma env_push_function_scope_wf args e :
  wf_env e -> Forall (fun p => wf_val (snd p)) args -> wres wf_env (env_push_function_scope args e).
Proof.
  intros W F. unfold env_push_function_scope.
  pose proof (tab_for_call_wf args [] (Forall_nil _) F) as H.
  destruct (tab_for_call args []); cbn in *; auto. constructor; auto.
Qed.

Lemma pop_scope_wf prof e : wf_env e -> wres wf_env (pop_scope prof e).
Proof.
  intro W. unfold pop_scope. destruct (debug_assert prof 20 (1 <? len (scopes e))%N); cbn; auto.
  unfold wf_env in *. cbn. destruct (scopes e); cbn; auto. inversion W; auto.
Qed.

Lemma push_scope_wf e : wf_env e -> wf_env (push_scope e).
Proof. intro W. unfold wf_env, push_scope. cbn. constructor; auto. constructor. Qed.

Lemma tick_wf e e' : wf_env e -> tick e = Some e' -> wf_env e'.
Proof. unfold tick. destruct (steps e =? 0)%N; [discriminate|]. intros W H. injection H as <-. exact W. Qed.
Lemma enter_call_wf e e' : wf_env e -> enter_call e = Some e' -> wf_env e'.
Proof. unfold enter_call. destruct (depth e =? 0)%N; [discriminate|]. intros W H. injection H as <-. exact W. Qed.

Lemma combine_wf (names : list varname) vals : Forall wf_val vals -> Forall (fun p : varname * val => wf_val (snd p)) (combine names vals).
Proof.
  revert vals. induction names as [|n t IH]; intros [|v vs] F; cbn; auto. inversion F; subst. constructor; auto.
Qed.

(** * The interpreter *)
Definition WInv {A} (Q : A -> Prop) (r : xres A) : Prop :=
  match r with
  | XOk a e' => wf_env e' /\ Q a
  | XErr _ e' => wf_env e'
  | _ => True
  end.

Lemma WInv_bind {A B} (Q : A -> Prop) (R : B -> Prop) (m : xres A) (k : A -> env -> xres B) :
  WInv Q m -> (forall a e, wf_env e -> Q a -> WInv R (k a e)) -> WInv R (xbind m k).
Proof. intros Hm Hk. destruct m; cbn in *; auto. destruct Hm. auto. Qed.

Lemma WInv_lift {E A} (inj : E -> rt_error) (Q : A -> Prop) (r : res E A) e :
  wf_env e -> wres Q r -> WInv Q (lift_res inj r e).
Proof. intros W H. destruct r; cbn in *; auto. Qed.

Definition wf_inner (i : inner) : Prop := match i with IOk b => wf_opt b | IErr _ => True end.
Definition any1 {A} (_ : A) : Prop := True.

Lemma update_result_wf w keys cur n e1 :
  wf_wop w -> wf_val cur -> wf_env e1 ->
  WInv wf_inner
    match update_path cur keys w with
    | Ok (nv, back) => XOk (IOk back) (env_store n nv e1)
    | Err x => XOk (IErr (RVal x)) e1
    | Panic s => XPanic s | UB s => XUB s | OutOfFuel => XOutOfFuel | OverBudget => XOverBudget
    end.
Proof.
  intros Hw Hc W. pose proof (update_path_wf w keys cur Hw Hc) as H.
  destruct (update_path cur keys w) as [[nv back]| | | | |]; cbn in *; auto.
  destruct H. split; auto. apply env_store_wf; auto.
Qed.

Lemma write_var_wf w keys n e : wf_wop w -> wf_env e -> WInv wf_inner (write_var w keys n e).
Proof.
  intros Hw W. unfold write_var, env_lookup_var. cbn [fst snd].
  set (e1 := mkEnvB e (scopes e) (Some n) (chan e)).
  assert (W1 : wf_env e1) by exact W.
  pose proof (find_var_wf n (scopes e) W) as Hf.
  assert (Hnone : WInv wf_inner
      match env_create_var n e1 with
      | Ok e2 =>
          match update_path VUndef keys w with
          | Ok (nv, back) => XOk (IOk back) (env_store n nv e2)
          | Err x => XOk (IErr (RVal x)) e2
          | Panic s => XPanic s | UB s => XUB s | OutOfFuel => XOutOfFuel | OverBudget => XOverBudget
          end
      | Err x => XOk (IErr (REnv x)) e1
      | Panic s => XPanic s | UB s => XUB s | OutOfFuel => XOutOfFuel | OverBudget => XOverBudget
      end).
  { pose proof (env_create_var_wf n e1 W1) as Hc.
    destruct (env_create_var n e1); cbn [wres] in Hc; try exact I.
    - apply update_result_wf; auto. exact I.
    - split; [exact W1|exact I]. }
  destruct (find_var n (scopes e)) as [v| | | | |]; cbn [map_err wres] in *; try exact Hnone.
  apply update_result_wf; auto.
Qed.

Lemma write_pronoun_wf w keys e : wf_wop w -> wf_env e -> WInv wf_inner (write_pronoun w keys e).
Proof.
  intros Hw W. unfold write_pronoun. destruct (last_access e) as [n|]; [|split; [exact W|exact I]].
  pose proof (find_var_wf n (scopes e) W) as Hf.
  destruct (find_var n (scopes e)); cbn [wres] in Hf; try exact I.
  - apply update_result_wf; auto.
  - split; [exact W|exact I].
Qed.

Lemma write_ident_wf w keys i e : wf_wop w -> wf_env e -> WInv wf_inner (write_ident w keys i e).
Proof. intros. destruct i; cbn; [apply write_var_wf|apply write_pronoun_wf]; auto. Qed.

Lemma settle_wf r : WInv wf_inner r -> WInv wf_opt (settle r).
Proof. destruct r as [[b|x] e| | | | |]; cbn; auto. intros [A _]. exact A. Qed.

Lemma absorb_wf {A} (Q : A -> Prop) (r : xres A) k :
  WInv Q r -> (forall a e, wf_env e -> Q a -> WInv wf_inner (k a e)) -> WInv wf_inner (absorb r k).
Proof. intros Hr Hk. destruct r; cbn in *; auto. destruct Hr; auto. Qed.

Lemma not_writable_wf e : wf_env e -> WInv wf_inner (not_writable e).
Proof. intro W. split; auto. exact I. Qed.

Lemma lookup_var_x_wf n e : wf_env e -> WInv wf_val (lookup_var_x n e).
Proof.
  intro W. unfold lookup_var_x, env_lookup_var.
  apply WInv_lift; [exact W|]. pose proof (find_var_wf n (scopes e) W) as H. destruct (find_var n (scopes e)); cbn in *; auto.
Qed.

Lemma env_last_access_wf e : wf_env e -> wres wf_val (env_last_access e).
Proof.
  intro W. unfold env_last_access. destruct (last_access e) as [n|]; cbn; auto.
  pose proof (find_var_wf n (scopes e) W) as H. destruct (find_var n (scopes e)); cbn in *; auto.
Qed.

Lemma literal_val_wf l : wf_val (literal_val l).
Proof. destruct l; exact I. Qed.

Definition wf_x (xs : xstate) : Prop := wf_opt (xret xs).

Section Main.
Variable prof : profile.

Record WP (f : nat) : Prop := mkWP {
  wp_expr : forall x e, wf_env e -> WInv wf_val (produce_expr prof f x e);
  wp_primary : forall p e, wf_env e -> WInv wf_val (produce_primary prof f p e);
  wp_fold : forall op acc l e, wf_env e -> wf_val acc -> WInv wf_val (fold_rhs prof f op acc l e);
  wp_args : forall l e, wf_env e -> WInv (Forall wf_val) (produce_args prof f l e);
  wp_call : forall n args e, wf_env e -> WInv wf_val (call_function prof f n args e);
  wp_wprimary : forall w p e, wf_wop w -> wf_env e -> WInv wf_inner (write_primary prof f w p e);
  wp_wsub : forall w a s keys e, wf_wop w -> wf_env e -> WInv wf_inner (write_subscript prof f w a s keys e);
  wp_wexpr : forall w x e, wf_wop w -> wf_env e -> WInv wf_inner (write_expr prof f w x e);
  wp_wexprs : forall w l e, wf_wop w -> wf_env e -> WInv wf_inner (write_exprs prof f w l e);
  wp_stmt : forall s xs e, wf_env e -> wf_x xs -> WInv wf_x (exec_stmt prof f s xs e);
  wp_block : forall b xs e, wf_env e -> wf_x xs -> WInv wf_x (exec_block prof f b xs e);
  wp_stmts : forall ss xs e, wf_env e -> wf_x xs -> WInv wf_x (exec_stmts prof f ss xs e);
  wp_loop : forall inv c b xs e, wf_env e -> wf_x xs -> WInv wf_x (exec_loop prof f inv c b xs e)
}.

Lemma WP_0 : WP 0.
Proof. constructor; intros; exact I. Qed.

Ltac wb H := eapply WInv_bind; [H|].

Lemma ok_wf {A} (Q : A -> Prop) a e : wf_env e -> Q a -> WInv Q (XOk a e).
Proof. intros. split; auto. Qed.

Lemma scoped_wf (m : xres xstate) (k : xstate -> env -> xres xstate) :
  WInv wf_x m -> (forall xs e, wf_env e -> wf_x xs -> WInv wf_x (k xs e)) ->
  WInv wf_x (let+ (xs', e3) := m in let+ (e4, _) := lift_env (pop_scope prof e3) e3 in k xs' e4).
Proof.
  intros Hm Hk. wb ltac:(exact Hm). intros xs e3 W3 Hx.
  pose proof (pop_scope_wf prof e3 W3) as Hp. unfold lift_env, lift_res.
  destruct (pop_scope prof e3); cbn in *; auto.
Qed.

Lemma WP_S f : WP f -> WP (S f).
Proof.
  intros [Hexpr Hprimary Hfold Hargs Hcall Hwp Hwsub Hwexpr Hwexprs Hstmt Hblock Hstmts Hloop].
  constructor.
  - intros x e W. destruct x as [p|op l first rest|op a]; simpl.
    + apply Hprimary; auto.
    + wb ltac:(apply Hexpr; eauto). intros lv e1 W1 Hl. apply Hfold; auto.
    + wb ltac:(apply Hexpr; eauto). intros v e1 W1 Hv. apply WInv_lift; auto. apply unop_apply_wf.
  - intros p e W. destruct p as [l r|i r|a s|name r args|a]; simpl.
    + apply ok_wf; auto. apply literal_val_wf.
    + destruct i; simpl; [apply lookup_var_x_wf; auto|apply WInv_lift; auto; apply env_last_access_wf; auto].
    + wb ltac:(apply Hprimary; eauto). intros av e1 W1 Ha.
      wb ltac:(apply Hprimary; eauto). intros sv e2 W2 Hs. apply WInv_lift; auto. apply v_index_wf; auto.
    + apply Hcall; auto.
    + pose proof (settle_wf _ (Hwp WPop a e I W)) as G.
      destruct (settle (write_primary prof f WPop a e)) as [[v|] e1| | | | |]; cbn in *; auto.
  - intros op acc l e W Ha. destruct l as [|x t]; simpl.
    + apply ok_wf; auto.
    + destruct (needs_rhs op acc).
      * wb ltac:(apply Hexpr; eauto). intros bv e1 W1 Hb.
        wb ltac:(apply WInv_lift; [eauto|apply binop_apply_wf]). intros r e2 W2 Hr. apply Hfold; auto.
      * apply Hfold; auto. apply short_result_wf.
  - intros l e W. destruct l as [|x t]; simpl.
    + apply ok_wf; auto.
    + wb ltac:(apply Hexpr; eauto). intros v e1 W1 Hv.
      wb ltac:(apply Hargs; eauto). intros vs e2 W2 Hvs. apply ok_wf; auto.
  - intros n args e W. simpl.
    wb ltac:(apply (WInv_lift REnv any1); [eauto|]).
    { destruct (env_lookup_func n e); exact I. }
    intros [params body] e0 W0 _.
    destruct (negb (Val.len params =? Val.len args)%N); [exact W0|].
    wb ltac:(apply Hargs; eauto). intros vals e1 W1 Hvals.
    wb ltac:(apply (WInv_lift REnv wf_env); [eauto|apply env_push_function_scope_wf; [eauto|apply combine_wf; eauto]]).
    intros e2 ex Wx W2.
    destruct (enter_call e2) as [e2'|] eqn:Ee; [|exact I].
    wb ltac:(apply Hblock; [eapply enter_call_wf; eauto|exact I]). intros xs e3 W3 Hx.
    pose proof (pop_scope_wf prof (leave_call e3) W3) as Hp. unfold lift_env, lift_res.
    destruct (pop_scope prof (leave_call e3)); cbn in *; auto. split; auto;
    unfold wf_x in Hx; destruct (xret xs); auto; exact I.
  - intros w p e Hw W. destruct p as [l r|i r|a s|name r args|a]; simpl.
    + apply not_writable_wf; auto.
    + apply write_ident_wf; auto.
    + apply Hwsub; auto.
    + wb ltac:(apply write_var_wf; eauto). intros i1 e1 W1 _.
      wb ltac:(apply Hwexprs; eauto). intros i2 e2 W2 _. apply not_writable_wf; auto.
    + apply Hwp; auto.
  - intros w a s keys e Hw W. simpl.
    eapply absorb_wf; [apply Hprimary; eauto|]. intros sv e1 W1 Hsv.
    destruct a as [l r|i r|a2 s2|name r args|a2]; simpl; try (apply not_writable_wf; auto).
    + apply write_ident_wf; auto.
    + apply Hwsub; auto.
  - intros w x e Hw W. destruct x as [p|op l first rest|op a]; simpl.
    + apply Hwp; auto.
    + wb ltac:(apply Hwexpr; eauto). intros i1 e1 W1 _.
      wb ltac:(apply Hwexprs; eauto). intros i2 e2 W2 _. apply not_writable_wf; auto.
    + wb ltac:(apply Hwexpr; eauto). intros i1 e1 W1 _. apply not_writable_wf; auto.
  - intros w l e Hw W. destruct l as [|x t]; simpl.
    + apply not_writable_wf; auto.
    + wb ltac:(apply Hwexpr; eauto). intros i1 e1 W1 _. apply Hwexprs; auto.
  - (* exec_stmt *)
    intros s xs e0 W0 Hxs. simpl. destruct (tick e0) as [e|] eqn:Et; [|exact I].
    pose proof (tick_wf _ _ W0 Et) as W.
    assert (Hwrite : forall w d e1, wf_wop w -> wf_env e1 ->
              WInv wf_x (let+ (_, e2) := settle (write_primary prof f w (lhs_as_primary d) e1) in XOk xs e2)).
    { intros w d e1 Hw W1. wb ltac:(apply settle_wf; apply Hwp; eauto). intros b e2 W2 _. apply ok_wf; auto. }
    destruct s as [d first rest op|d rhs|d str_|c th else_|c b|c b|i r k|i r k|dest l|x|op operand dest param|dir operand|r|r|arr value|arr dest|x|name r params body|name r args]; simpl.
    + eapply WInv_bind with (Q := wf_val).
      * destruct op as [o|].
        -- wb ltac:(apply Hprimary; eauto). intros lv e1 W1 Hl. apply Hfold; auto.
        -- destruct rest; simpl; [apply Hexpr; auto|exact W].
      * intros nv e1 W1 Hnv. apply Hwrite; auto.
    + eapply WInv_bind with (Q := wf_val).
      * destruct rhs; [apply Hexpr; auto|apply ok_wf; auto; exact I].
      * intros nv e1 W1 Hnv. apply Hwrite; auto.
    + apply Hwrite; auto. exact I.
    + wb ltac:(apply Hexpr; eauto). intros cv e1 W1 _.
      apply (scoped_wf _ (fun xs' e4 => XOk xs' e4)).
      * destruct (is_truthy cv); [apply Hblock; auto; apply push_scope_wf; auto|].
        destruct else_; [apply Hblock; auto; apply push_scope_wf; auto|apply ok_wf; auto; apply push_scope_wf; auto].
      * intros xs' e4 W4 Hx. apply ok_wf; auto.
    + apply Hloop; auto.
    + apply Hloop; auto.
    + wb ltac:(apply settle_wf; apply write_ident_wf; [exact I|eauto]). intros b e1 W1 _. apply ok_wf; auto.
    + wb ltac:(apply settle_wf; apply write_ident_wf; [exact I|eauto]). intros b e1 W1 _. apply ok_wf; auto.
    + wb ltac:(apply (WInv_lift REnv any1); [eauto|]).
      { destruct (chan_input (chan e)); exact I. }
      intros [ln c'] e1 W1 _.
      destruct dest as [d|]; [apply Hwrite; [exact I|exact W1]|apply ok_wf; auto].
    + wb ltac:(apply Hexpr; eauto). intros v e1 W1 _.
      wb ltac:(apply (WInv_lift RVal any1); [eauto|]).
      { destruct (to_string_for_output v); exact I. }
      intros txt e2 W2 _.
      destruct (chan_output txt (chan e2)) as [[c'|ioe| | | |] cf]; cbn; auto.
    + eapply WInv_bind with (Q := wf_opt).
      * destruct param as [px|]; [|apply ok_wf; auto; exact I].
        wb ltac:(apply Hexpr; eauto). intros v e1 W1 Hv. apply ok_wf; auto.
      * intros pv e1 W1 Hpv. destruct dest as [d|].
        -- wb ltac:(apply Hprimary; eauto). intros v e2 W2 Hv.
           wb ltac:(apply WInv_lift; [eauto|apply apply_mutation_wf]). intros v2 e3 W3 Hv2. apply Hwrite; auto.
        -- wb ltac:(apply settle_wf; apply Hwp; [exact I|eauto]). intros b e2 W2 _. apply ok_wf; auto.
    + wb ltac:(apply settle_wf; apply Hwexpr; [exact I|eauto]). intros b e1 W1 _. apply ok_wf; auto.
    + destruct (debug_assert prof 31 (is_normal (xflag xs))); cbn; auto.
    + destruct (debug_assert prof 32 (is_normal (xflag xs))); cbn; auto.
    + destruct value as [[first rest|elems]|]; simpl.
      * wb ltac:(apply Hargs; eauto). intros vals e1 W1 Hvals.
        wb ltac:(apply settle_wf; apply Hwp; eauto). intros b e2 W2 _. apply ok_wf; auto.
      * wb ltac:(apply settle_wf; apply Hwp; [cbn; constructor; [exact I|constructor]|eauto]). intros b e2 W2 _. apply ok_wf; auto.
      * wb ltac:(apply settle_wf; apply Hwp; [cbn; constructor|eauto]). intros b e2 W2 _. apply ok_wf; auto.
    + wb ltac:(apply (Hprimary (PPop arr)); eauto). intros back e1 W1 Hb.
      destruct dest as [d|]; [apply Hwrite; auto|apply ok_wf; auto].
    + destruct (debug_assert prof 33 (match xret xs with None => true | Some _ => false end)); cbn; auto.
      wb ltac:(apply Hexpr; eauto). intros v e1 W1 Hv.
      destruct (debug_assert prof 34 (is_normal (xflag xs))); cbn; auto.
    + wb ltac:(apply (WInv_lift REnv wf_env); [eauto|apply env_create_func_wf; eauto]).
      intros e1 ex Wx W1. apply ok_wf; auto.
    + wb ltac:(apply Hcall; eauto). intros v e1 W1 _. apply ok_wf; auto.
  - intros b xs e W Hx. destruct b; simpl; [apply ok_wf; auto|apply Hstmts; auto].
  - intros ss xs e W Hx. destruct ss as [|s t]; simpl; [apply ok_wf; auto|].
    wb ltac:(apply Hstmt; eauto). intros xs1 e1 W1 Hx1.
    destruct (skip_rest (xflag xs1)); [apply ok_wf; auto|apply Hstmts; auto].
  - intros inv c b xs e0 W0 Hx. simpl. destruct (tick e0) as [e|] eqn:Et; [|exact I].
    pose proof (tick_wf _ _ W0 Et) as W.
    wb ltac:(apply Hexpr; eauto). intros cv e1 W1 _.
    destruct (xorb inv (is_truthy cv)); [|apply ok_wf; auto].
    apply (scoped_wf _ (fun xs' e4 => match xflag xs' with
                                      | Normal => exec_loop prof f inv c b xs' e4
                                      | Continuing => exec_loop prof f inv c b (mkX Normal (xret xs')) e4
                                      | Breaking => XOk (mkX Normal (xret xs')) e4
                                      | Returning => XOk xs' e4
                                      end)).
    + apply Hblock; auto. apply push_scope_wf; auto.
    + intros xs' e4 W4 Hx'. destruct (xflag xs'); try (apply Hloop; auto); apply ok_wf; auto.
Qed.

Theorem WP_all f : WP f.
Proof. induction f; [apply WP_0|apply WP_S; auto]. Qed.

Lemma exec_blocks_wf fuel : forall bs xs e, wf_env e -> wf_x xs -> WInv wf_x (exec_blocks prof fuel bs xs e).
Proof.
  induction bs as [|b t IH]; intros xs e W Hx; cbn [exec_blocks]; [apply ok_wf; auto|].
  wb ltac:(apply (wp_block fuel (WP_all fuel)); eauto). intros xs1 e1 W1 Hx1.
  destruct (skip_rest (xflag xs1)); [apply ok_wf; auto|apply IH; auto].
Qed.

(** ** every environment a run passes through, every value it produces, is well formed *)
Theorem exec_program_wf fuel p c : WInv wf_x (exec_program prof fuel p c).
Proof. unfold exec_program. apply exec_blocks_wf; [repeat constructor|exact I]. Qed.
End Main.

(** * Consequences: the side conditions of the value laws hold for everything a run computes *)
From Coq Require Import Sorting.Permutation.
From RRSS Require Import Proofs.ValLaws Proofs.OrderLaws.

Lemma env_init_wf c : wf_env (env_init c).
Proof. repeat constructor. Qed.

Theorem produce_expr_wf prof f x e a e1 :
  wf_env e -> produce_expr prof f x e = XOk a e1 -> wf_val a /\ wf_env e1.
Proof.
  intros W H. pose proof (wp_expr prof f (WP_all prof f) x e W) as G. rewrite H in G. destruct G; auto.
Qed.

(** any two values a program computes compare the same in either order *)
Theorem runtime_equality_symmetric prof f1 f2 x y e a e1 b e2 :
  wf_env e -> produce_expr prof f1 x e = XOk a e1 -> produce_expr prof f2 y e1 = XOk b e2 ->
  v_equals a b = v_equals b a /\ binop_apply OpEq a b = binop_apply OpEq b a.
Proof.
  intros W H1 H2. destruct (produce_expr_wf _ _ _ _ _ _ W H1) as [Wa W1].
  destruct (produce_expr_wf _ _ _ _ _ _ W1 H2) as [Wb _].
  split; [apply equals_sym|apply equals_op_sym]; auto.
Qed.

(** any array a program computes joins, iterates and compares the same however its table is arranged *)
Theorem runtime_array_order_independent prof f x e a d e1 d' :
  wf_env e -> produce_expr prof f x e = XOk (VArr a d) e1 -> Permutation d d' ->
  (forall delim, v_join (VArr a d) delim = v_join (VArr a d') delim) /\
  val_iter a d = val_iter a d' /\
  (forall xa xd, val_eq (VArr xa xd) (VArr a d) = val_eq (VArr xa xd) (VArr a d')) /\
  (forall k, dict_get k d = dict_get k d') /\
  v_display (VArr a d) = v_display (VArr a d').
Proof.
  intros W H P. destruct (produce_expr_wf _ _ _ _ _ _ W H) as [Wa _].
  apply wf_arr in Wa as (_ & Hn & _).
  repeat split; intros.
  - apply join_order_independent; auto.
  - apply val_iter_order_independent; auto.
  - apply val_eq_order_independent_r; auto.
  - apply dict_get_perm; auto.
  - apply display_order_independent; auto.
Qed.
