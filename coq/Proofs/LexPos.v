(** Source positions: the true line and line start of every byte offset, and how the lexer's
    bookkeeping (newline counts, last line start) relates to them. *)
From Coq Require Import List ZArith NArith Bool Lia.
From RRSS Require Import Base.Outcome Base.Chars Base.F64 Front.Ast Front.Token Front.Lexer Proofs.LexBasics.
Import ListNotations.
Open Scope N_scope.

(** scanning a text that starts at byte [off], on line [ln] whose first byte is [ls]:
    the line and line start after it *)
Fixpoint scan_pos (s : str) (off ln ls : N) : N * N :=
  match s with
  | [] => (ln, ls)
  | c :: t => if c =? 10 then scan_pos t (off + 1) (ln + 1) (off + 1) else scan_pos t (off + utf8_len c) ln ls
  end.

(** the true position bookkeeping after the prefix [pre] of a source: (1 + number of line
    breaks, offset just past the last line break) *)
Definition pos_at (pre : str) : N * N := scan_pos pre 0 1 0.

Lemma utf8_len_10 : utf8_len 10 = 1.
Proof. reflexivity. Qed.

Lemma scan_pos_app a : forall b off ln ls,
  scan_pos (a ++ b) off ln ls =
  let '(ln1, ls1) := scan_pos a off ln ls in scan_pos b (off + byte_len a) ln1 ls1.
Proof.
  induction a as [|c t IH]; intros b off ln ls; cbn [app scan_pos byte_len].
  - rewrite N.add_0_r. reflexivity.
  - destruct (c =? 10) eqn:E.
    + apply N.eqb_eq in E. subst c. rewrite IH. rewrite utf8_len_10.
      destruct (scan_pos t (off + 1) (ln + 1) (off + 1)). f_equal. lia.
    + rewrite IH. destruct (scan_pos t (off + utf8_len c) ln ls). f_equal. lia.
Qed.

Definition no_nl (s : str) : bool := forallb (fun c => negb (c =? 10)) s.

Lemma scan_pos_no_nl s : forall off ln ls, no_nl s = true -> scan_pos s off ln ls = (ln, ls).
Proof.
  induction s as [|c t IH]; intros off ln ls H; cbn in *; auto.
  apply andb_true_iff in H as [H1 H2]. apply negb_true_iff in H1. rewrite H1. apply IH. exact H2.
Qed.

(** the line start never lies beyond the current offset, lines only grow *)
Lemma scan_pos_bounds s : forall off ln ls, ls <= off ->
  let '(ln', ls') := scan_pos s off ln ls in ls' <= off + byte_len s /\ ln <= ln' /\ (ln' = ln -> ls' = ls).
Proof.
  induction s as [|c t IH]; intros off ln ls H; cbn [scan_pos byte_len].
  - repeat split; try lia.
  - destruct (c =? 10) eqn:E.
    + apply N.eqb_eq in E. subst c. rewrite utf8_len_10.
      specialize (IH (off + 1) (ln + 1) (off + 1)). destruct (scan_pos t (off + 1) (ln + 1) (off + 1)) as [ln' ls'].
      destruct IH as (A & B & C); [lia|]. repeat split; try lia.
    + specialize (IH (off + utf8_len c) ln ls). destruct (scan_pos t (off + utf8_len c) ln ls) as [ln' ls'].
      destruct IH as (A & B & C); [lia|]. repeat split; try lia.
Qed.

Lemma pos_at_bounds pre : let '(ln, ls) := pos_at pre in ls <= byte_len pre /\ 1 <= ln.
Proof.
  unfold pos_at. pose proof (scan_pos_bounds pre 0 1 0) as H.
  destruct (scan_pos pre 0 1 0) as [ln ls]. destruct H as (A & B & C); [lia|]. split; lia.
Qed.

Lemma pos_at_app a b :
  pos_at (a ++ b) = let '(ln, ls) := pos_at a in scan_pos b (byte_len a) ln ls.
Proof. unfold pos_at. rewrite scan_pos_app. destruct (scan_pos a 0 1 0). rewrite N.add_0_l. reflexivity. Qed.

Lemma pos_at_app_no_nl a b : no_nl b = true -> pos_at (a ++ b) = pos_at a.
Proof. intro H. rewrite pos_at_app. destruct (pos_at a). apply scan_pos_no_nl. exact H. Qed.

(** * The lexer's incremental bookkeeping *)
Definition dflt (ls : N) (o : option N) : N := match o with Some x => x | None => ls end.

(** [scan_close] agrees with [scan_pos] over the text it walks *)
Lemma scan_close_spec close s : forall pos nl nls,
  match scan_close close s pos nl nls with
  | (Some cl, nl', nls') =>
      exists inner rest', s = inner ++ close :: rest' /\ cl = pos + byte_len inner /\
        (forall ln ls, scan_pos (inner ++ [close]) pos (ln + nl) (dflt ls nls) = (ln + nl', dflt ls nls'))
  | (None, nl', nls') =>
      forall ln ls, scan_pos s pos (ln + nl) (dflt ls nls) = (ln + nl', dflt ls nls')
  end.
Proof.
  induction s as [|c t IH]; intros pos nl nls; cbn [scan_close].
  - intros ln ls. reflexivity.
  - destruct (c =? 10) eqn:E10.
    + apply N.eqb_eq in E10. subst c.
      destruct (10 =? close) eqn:Ec.
      * apply N.eqb_eq in Ec. subst close. exists [], t. repeat split; [cbn; lia|].
        intros ln ls. cbn. f_equal. lia.
      * specialize (IH (pos + utf8_len 10) (nl + 1) (Some (pos + 1))).
        destruct (scan_close close t (pos + utf8_len 10) (nl + 1) (Some (pos + 1))) as [[[cl|] nl'] nls'].
        -- destruct IH as (inner & rest' & -> & -> & Hp). exists (10 :: inner), rest'. repeat split.
           ++ cbn [byte_len]. lia.
           ++ intros ln ls. cbn [app scan_pos]. rewrite N.eqb_refl. specialize (Hp ln ls). cbn [dflt] in Hp.
              rewrite utf8_len_10 in Hp. rewrite <- Hp. f_equal. lia.
        -- intros ln ls. cbn [scan_pos]. rewrite N.eqb_refl. specialize (IH ln ls). cbn [dflt] in IH.
           rewrite utf8_len_10 in IH. rewrite <- IH. f_equal. lia.
    + destruct (c =? close) eqn:Ec.
      * apply N.eqb_eq in Ec. subst close. exists [], t. repeat split; [cbn; lia|].
        intros ln ls. cbn. rewrite E10. reflexivity.
      * specialize (IH (pos + utf8_len c) nl nls).
        destruct (scan_close close t (pos + utf8_len c) nl nls) as [[[cl|] nl'] nls'].
        -- destruct IH as (inner & rest' & -> & -> & Hp). exists (c :: inner), rest'. repeat split.
           ++ cbn [byte_len]. lia.
           ++ intros ln ls. cbn [app scan_pos]. rewrite E10. apply Hp.
        -- intros ln ls. cbn [scan_pos]. rewrite E10. apply IH.
Qed.

(** * Ranges *)
Lemma range_new_ordered ln1 c1 ln2 c2 :
  (ln1 < ln2 \/ (ln1 = ln2 /\ c1 <= c2)) ->
  range_new (mkLoc ln1 c1) (mkLoc ln2 c2) = mkRange (mkLoc ln1 c1) (mkLoc ln2 c2).
Proof.
  intro H. unfold range_new, loc_ltb, loc_compare. cbn [line col].
  destruct H as [H|[-> H]].
  - assert (E : (ln2 ?= ln1) = Gt) by (apply N.compare_gt_iff; lia). rewrite E. reflexivity.
  - rewrite N.compare_refl. destruct (c2 ?= c1) eqn:E; try reflexivity. change (c2 < c1) in E. exfalso. lia.
Qed.

(** the range of the token whose spelling [sp] follows the prefix [a] of the source *)
Definition tok_range (a sp : str) (id : ttype) : range :=
  let '(ln, ls) := pos_at a in
  let st := mkLoc ln (byte_len a - ls) in
  match id with
  | TNewline => mkRange st (mkLoc ln (byte_len a - ls + 1))
  | _ => let '(ln', ls') := pos_at (a ++ sp) in mkRange st (mkLoc ln' (byte_len a + byte_len sp - ls'))
  end.

(** [t] is the slice [tspell t] of the source found right after the prefix [a], with true positions *)
Definition tok_wf (a : str) (t : token) : Prop :=
  tstart t = byte_len a /\ trange t = tok_range a (tspell t) (tid t).
