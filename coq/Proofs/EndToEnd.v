(** The pipeline as a whole: from source text to the end of the run nothing crashes. *)
From Coq Require Import List ZArith NArith Bool.
From RRSS Require Import Base.Outcome Base.Chars Base.F64 Exec.Val Exec.Ops Front.Ast Front.Token Front.Lexer Front.Parser Front.ParseErrorText.
From RRSS Require Import Exec.Env Exec.Interp Proofs.InterpInv Proofs.InterpLaws Proofs.ParseTotal.
Import ListNotations.
Open Scope N_scope.

Theorem whole_pipeline_safe prof src fuel c :
  byte_len src < u32_limit ->
  match parse prof src with
  | ParseOk p => match exec_program prof fuel p c with XPanic _ | XUB _ => False | _ => True end
  | ParseErr e => exists text, parse_error_display e = Ok text
  | ParseCrash _ _ | ParseOutOfFuel => False
  end.
Proof.
  intro Hb. destruct (parse_total prof src Hb) as [[p Hp]|(e & text & He & Ht)].
  - rewrite Hp. apply exec_no_crash.
  - rewrite He. eauto.
Qed.
