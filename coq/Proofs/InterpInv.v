(** The interpreter's global invariant, proved once by induction on fuel for all fourteen mutually
    recursive functions:
      - no crash site is ever reached (C09),
      - the scope stack has the same depth after every completed expression/statement (C05),
      - the bytes accepted by the writer only ever grow: what was written stays, also on a runtime
        error (C04, C08),
      - a successful pop-write hands a value back, `break/continue/return` only run with a normal
        control-flow flag and an unset return value (the debug assertions of exec_stmt.rs). *)
From Coq Require Import List ZArith NArith Bool Lia.
From RRSS Require Import Base.Outcome Base.Chars Base.F64 Base.F64Text Exec.Val Exec.Ops Front.Ast Front.Poetic Exec.Env Exec.Interp.
From RRSS Require Import Proofs.ValSafe.
Import ListNotations.

Definition outp (e : env) : list N := out_bytes (chan e).
Definition prefix_of {A} (a b : list A) : Prop := exists t, b = a ++ t.

Lemma prefix_refl {A} (a : list A) : prefix_of a a.
Proof. exists []. rewrite app_nil_r. reflexivity. Qed.
Lemma prefix_trans {A} (a b c : list A) : prefix_of a b -> prefix_of b c -> prefix_of a c.
Proof. intros [t1 ->] [t2 ->]. exists (t1 ++ t2). rewrite app_assoc. reflexivity. Qed.

Definition depth_of (e : env) : nat := length (scopes e).

(** the names bound in each scope: the innermost scope may gain names (at its end), every outer
    scope keeps exactly its names, in order *)
Definition keys (t : symtab) : list varname := map fst t.
Definition SK (ss ss' : list symtab) : Prop :=
  match ss, ss' with
  | [], [] => True
  | t :: r, t' :: r' => prefix_of (keys t) (keys t') /\ map keys r = map keys r'
  | _, _ => False
  end.

Lemma SK_refl ss : SK ss ss.
Proof. destruct ss; cbn; auto. split; [apply prefix_refl|reflexivity]. Qed.
Lemma SK_trans a b c : SK a b -> SK b c -> SK a c.
Proof.
  destruct a as [|ta ra], b as [|tb rb], c as [|tc rc]; cbn; try tauto.
  intros [H1 H2] [H3 H4]. split; [eapply prefix_trans; eauto|congruence].
Qed.
Lemma SK_length a b : SK a b -> length b = length a.
Proof.
  destruct a as [|ta ra], b as [|tb rb]; cbn; try tauto. intros [_ H]. f_equal.
  rewrite <- (map_length keys rb), <- (map_length keys ra). congruence.
Qed.
Lemma SK_same_keys a b : map keys b = map keys a -> SK a b.
Proof.
  destruct a as [|ta ra], b as [|tb rb]; cbn; try discriminate; auto.
  intro H. injection H as H1 H2. split; [rewrite H1; apply prefix_refl|auto].
Qed.

Definition R (e e' : env) : Prop :=
  depth_of e' = depth_of e /\ prefix_of (outp e) (outp e') /\ SK (scopes e) (scopes e').
(** on an error the stack may be deeper than at the start (scopes pushed and not yet popped: the
    Rust code returns early through `?`), never shallower *)
Definition Rerr (e e' : env) : Prop := (depth_of e <= depth_of e')%nat /\ prefix_of (outp e) (outp e').
Definition wf (e : env) : Prop := (1 <= depth_of e)%nat.

Lemma R_refl e : R e e.  Proof. split; [reflexivity|split; [apply prefix_refl|apply SK_refl]]. Qed.
Lemma R_trans a b c : R a b -> R b c -> R a c.
Proof. intros (H1 & H2 & H5) (H3 & H4 & H6). split; [congruence|split; [eapply prefix_trans; eauto|eapply SK_trans; eauto]]. Qed.
Lemma R_Rerr a b c : R a b -> Rerr b c -> Rerr a c.
Proof. intros (H1 & H2 & _) [H3 H4]. split; [lia|eapply prefix_trans; eauto]. Qed.
Lemma Rerr_trans a b c : Rerr a b -> Rerr b c -> Rerr a c.
Proof. intros [H1 H2] [H3 H4]. split; [lia|eapply prefix_trans; eauto]. Qed.
Lemma R_is_Rerr a b : R a b -> Rerr a b.
Proof. intros (H1 & H2 & _). split; [lia|auto]. Qed.
Lemma Rerr_refl a : Rerr a a.
Proof. split; [lia|apply prefix_refl]. Qed.
Lemma Rerr_wf a b : Rerr a b -> wf a -> wf b.
Proof. intros [H _] W. unfold wf in *. lia. Qed.
Lemma R_wf a b : R a b -> wf a -> wf b.
Proof. intros [H _] W. unfold wf in *. lia. Qed.
Lemma R_same_keys_out a b : map keys (scopes b) = map keys (scopes a) -> outp b = outp a -> R a b.
Proof.
  intros H1 H2. pose proof (SK_same_keys _ _ H1) as K. split; [apply (SK_length _ _ K)|]. split; auto.
  rewrite H2. apply prefix_refl.
Qed.
Lemma R_same_scopes_out a b : scopes b = scopes a -> outp b = outp a -> R a b.
Proof. intros H1 H2. apply R_same_keys_out; auto. rewrite H1. reflexivity. Qed.

Definition Inv {A} (Q : A -> env -> Prop) (e : env) (r : xres A) : Prop :=
  match r with
  | XOk a e' => R e e' /\ Q a e'
  | XErr _ e' => Rerr e e'
  | XPanic _ | XUB _ => False
  | XOutOfFuel | XOverBudget => True
  end.

Definition Qtrue {A} : A -> env -> Prop := fun _ _ => True.

Lemma Inv_trans {A} (Q : A -> env -> Prop) e e1 r : R e e1 -> Inv Q e1 r -> Inv Q e r.
Proof.
  intros H. destruct r; cbn; auto.
  - intros [H1 H2]. split; auto. eapply R_trans; eauto.
  - intro H1. eapply R_Rerr; eauto.
Qed.

Lemma Inv_bind {A B} (Q1 : A -> env -> Prop) (Q2 : B -> env -> Prop) e (m : xres A) (k : A -> env -> xres B) :
  Inv Q1 e m ->
  (forall a e1, R e e1 -> Q1 a e1 -> Inv Q2 e1 (k a e1)) ->
  Inv Q2 e (xbind m k).
Proof.
  intros Hm Hk. destruct m; cbn in *; auto.
  destruct Hm as [HR HQ]. eapply Inv_trans; eauto.
Qed.

Lemma Inv_weaken {A} (Q1 Q2 : A -> env -> Prop) e r :
  (forall a e', Q1 a e' -> Q2 a e') -> Inv Q1 e r -> Inv Q2 e r.
Proof. intros H. destruct r; cbn; auto. intros [H1 H2]; auto. Qed.

Lemma Inv_ok {A} (Q : A -> env -> Prop) e a : Q a e -> Inv Q e (XOk a e).
Proof. intro H. split; [apply R_refl|auto]. Qed.

Lemma Inv_err {A} (Q : A -> env -> Prop) e x : Inv Q e (XErr x e : xres A).
Proof. apply Rerr_refl. Qed.

(** lifting a pure result into the interpreter monad *)
Lemma Inv_lift {E A} (inj : E -> rt_error) (Q : A -> env -> Prop) (r : res E A) e :
  safe r -> (forall a, r = Ok a -> Q a e) -> Inv Q e (lift_res inj r e).
Proof.
  intros Hs Hq. destruct r; cbn in *; auto; try contradiction.
  - split; [apply R_refl|auto].
  - apply Rerr_refl.
Qed.

(** * Environment helpers *)

Lemma store_var_length n v ss : length (store_var n v ss) = length ss.
Proof.
  induction ss as [|t r IH]; cbn; auto.
  destruct (tab_lookup_var n t) as [?|[]| | | |]; cbn; auto.
Qed.

Lemma tab_set_keys k x t : tab_get k t <> None -> keys (tab_set k x t) = keys t.
Proof.
  induction t as [|[k' e'] r IH]; cbn; [intro H; contradiction|].
  destruct (varname_eqb k k'); cbn; auto. intro H. f_equal. apply IH. exact H.
Qed.

Lemma store_var_keys n v ss : map keys (store_var n v ss) = map keys ss.
Proof.
  induction ss as [|t r IH]; cbn; auto.
  unfold tab_lookup_var. destruct (tab_get (lower_name n) t) as [[x|ps b]|] eqn:E; cbn; auto.
  - f_equal. apply tab_set_keys. rewrite E. discriminate.
  - f_equal. exact IH.
Qed.

Lemma env_store_R n v e : R e (env_store n v e).
Proof. apply R_same_keys_out; unfold env_store, mkEnvB; cbn; [apply store_var_keys|reflexivity]. Qed.

Lemma env_lookup_var_R n e : R e (snd (env_lookup_var n e)).
Proof. apply R_same_scopes_out; reflexivity. Qed.

Lemma find_var_safe n ss : safe (find_var n ss).
Proof.
  induction ss as [|t r IH]; cbn; [exact I|].
  unfold tab_lookup_var. destruct (tab_get (lower_name n) t) as [[]|]; cbn; auto.
Qed.

Lemma find_func_safe n ss : safe (find_func n ss).
Proof.
  induction ss as [|t r IH]; cbn; [exact I|].
  unfold tab_lookup_func. destruct (tab_get (lower_name n) t) as [[]|]; cbn; auto.
Qed.

Lemma map_err_safe {E F A} (f : E -> F) (r : res E A) : safe r -> safe (map_err f r).
Proof. destruct r; cbn; auto. Qed.

Lemma Inv_lookup_var_x n e : Inv Qtrue e (lookup_var_x n e).
Proof.
  unfold lookup_var_x, env_lookup_var.
  eapply Inv_trans; [apply (env_lookup_var_R n e)|].
  apply Inv_lift; [|intros; exact I]. apply map_err_safe, find_var_safe.
Qed.

Lemma Inv_last_access e : Inv Qtrue e (lift_env (env_last_access e) e).
Proof.
  apply Inv_lift; [|intros; exact I]. unfold env_last_access.
  destruct (last_access e); [apply map_err_safe, find_var_safe|exact I].
Qed.

Lemma Inv_lookup_func n e : Inv Qtrue e (lift_env (env_lookup_func n e) e).
Proof. apply Inv_lift; [|intros; exact I]. apply map_err_safe, find_func_safe. Qed.

(** * Writes *)

Lemma apply_mutation_safe op v p : safe (apply_mutation op v p).
Proof. destruct op; cbn; [apply v_split_safe|apply v_join_safe|apply v_cast_safe]. Qed.

Lemma apply_round_safe d v : safe (apply_round d v).
Proof. destruct (v_round_safe v) as (H1 & H2 & H3). destruct d; cbn; auto. Qed.

Lemma bind_safe' {E A B} (m : res E A) (f : A -> res E B) :
  safe m -> (forall a, safe (f a)) -> safe (bind m f).
Proof. destruct m; cbn; auto. Qed.

Lemma apply_wop_safe w cur : safe (apply_wop w cur).
Proof.
  destruct w; cbn [apply_wop]; try exact I.
  - apply bind_safe'; [apply v_inc_safe|intros; exact I].
  - apply bind_safe'; [apply v_push_safe|intros; exact I].
  - apply bind_safe'; [apply v_pop_safe|intros [? ?]; exact I].
  - apply bind_safe'; [apply apply_mutation_safe|intros; exact I].
  - apply bind_safe'; [apply apply_round_safe|intros; exact I].
Qed.

Lemma update_path_safe keys w : forall cur, safe (update_path cur keys w).
Proof.
  induction keys as [|k ks IH]; intro cur; cbn [update_path].
  - apply apply_wop_safe.
  - apply v_update_at_safe. exact IH.
Qed.

(** a pop handed back a value whenever the write succeeded *)
Lemma v_update_at_back {X} self k (f : val -> vres (val * X)) (P : X -> Prop) nv x :
  (forall cur nv' x', f cur = Ok (nv', x') -> P x') ->
  v_update_at self k f = Ok (nv, x) -> P x.
Proof.
  intros Hf. unfold v_update_at.
  destruct (match self with VUndef => VArr [] [] | _ => self end) eqn:Es; try discriminate.
  destruct k; cbn [dkey_of]; try discriminate;
    try (match goal with |- context [f ?c] => destruct (f c) as [[nv' x']| | | | |] eqn:Ef; cbn; try discriminate;
           intro H; inversion H; subst; eapply Hf; eauto end; fail).
  cbv zeta. destruct (size_budget <=? f_to_usize f0)%N; try discriminate.
  match goal with |- context [nth_N ?l ?i] => destruct (nth_N l i) as [cur|]; try discriminate end.
  destruct (f cur) as [[nv' x']| | | | |] eqn:Ef; cbn; try discriminate.
  intro H; inversion H; subst. eapply Hf; eauto.
Qed.

Lemma update_path_pop_back keys : forall cur nv back, update_path cur keys WPop = Ok (nv, back) -> back <> None.
Proof.
  induction keys as [|k ks IH]; intros cur nv back; cbn [update_path].
  - cbn. destruct (v_pop cur) as [[a x]| | | | |]; cbn; try discriminate. intro H; inversion H; discriminate.
  - intro H. eapply (v_update_at_back cur k _ (fun b => b <> None)); [|exact H].
    cbn beta. intros cur0 nv' x' E. eapply IH; eauto.
Qed.

(** the write visitor's invariant: a successful write keeps the depth and (for a pop) hands a value
    back; a failed one (an error value) may leave the stack deeper *)
Definition InvW (w : wop) (e : env) (r : xres inner) : Prop :=
  match r with
  | XOk (IOk back) e' => R e e' /\ match w, back with WPop, None => False | _, _ => True end
  | XOk (IErr _) e' => Rerr e e'
  | XErr _ e' => Rerr e e'
  | XPanic _ | XUB _ => False
  | XOutOfFuel | XOverBudget => True
  end.

(** traversals of non-writable shapes: they always end in an error value *)
Definition InvE (e : env) (r : xres inner) : Prop :=
  match r with
  | XOk (IErr _) e' => Rerr e e'
  | XOk (IOk _) _ => False
  | XErr _ e' => Rerr e e'
  | XPanic _ | XUB _ => False
  | XOutOfFuel | XOverBudget => True
  end.

Lemma InvE_InvW w e r : InvE e r -> InvW w e r.
Proof. destruct r as [[]| | | | |]; cbn; auto; contradiction. Qed.

Lemma InvW_trans w e e1 r : R e e1 -> InvW w e1 r -> InvW w e r.
Proof.
  intro H. destruct r as [[back|x] e'|x e'| | | |]; cbn; auto.
  - intros [H1 H2]. split; auto. eapply R_trans; eauto.
  - intro H1. eapply R_Rerr; eauto.
  - intro H1. eapply R_Rerr; eauto.
Qed.

Lemma InvE_trans e e1 r : Rerr e e1 -> InvE e1 r -> InvE e r.
Proof.
  intro H. destruct r as [[back|x] e'|x e'| | | |]; cbn; auto; intro H1; eapply Rerr_trans; eauto.
Qed.

(** sequencing inside a non-writable traversal: whatever the first write did, the rest ends in an error value *)
Lemma InvE_bind w e (m : xres inner) (k : inner -> env -> xres inner) :
  InvW w e m -> (forall i e1, Rerr e e1 -> InvE e1 (k i e1)) -> InvE e (xbind m k).
Proof.
  intros Hm Hk. destruct m as [[back|x] e'|x e'| | | |]; cbn in *; auto.
  - destruct Hm as [HR _]. eapply InvE_trans; [apply R_is_Rerr; eauto|]. apply Hk. apply R_is_Rerr; auto.
  - eapply InvE_trans; eauto.
Qed.

Lemma InvE_not_writable e : InvE e (not_writable e).
Proof. apply Rerr_refl. Qed.

Lemma write_result w cur keys (e0 e1 : env) n :
  R e0 e1 ->
  InvW w e0
    match update_path cur keys w with
    | Ok (nv, back) => XOk (IOk back) (env_store n nv e1)
    | Err x => XOk (IErr (RVal x)) e1
    | Panic s => XPanic s | UB s => XUB s | OutOfFuel => XOutOfFuel | OverBudget => XOverBudget
    end.
Proof.
  intro HR. pose proof (update_path_safe keys w cur) as Hs.
  destruct (update_path cur keys w) as [[nv back]| | | | |] eqn:E; cbn in *; auto; try contradiction.
  - split; [eapply R_trans; [exact HR|apply env_store_R]|].
    destruct w; try exact I. destruct back; [exact I|]. apply update_path_pop_back in E. contradiction.
  - apply R_is_Rerr; auto.
Qed.

Lemma tab_emplace_keys n x t t' : tab_emplace n x t = Ok t' -> prefix_of (keys t) (keys t').
Proof.
  unfold tab_emplace. destruct (tab_get (lower_name n) t); try discriminate. intro H. injection H as <-.
  exists [lower_name n]. unfold keys. rewrite map_app. reflexivity.
Qed.

Lemma R_grow a b t t' r :
  scopes a = t :: r -> scopes b = t' :: r -> prefix_of (keys t) (keys t') -> outp b = outp a -> R a b.
Proof.
  intros Ha Hb Hp Ho. unfold R, depth_of. rewrite Ha, Hb, Ho. cbn. split; [reflexivity|]. split; [apply prefix_refl|auto].
Qed.

Lemma env_create_var_R n e e2 : env_create_var n e = Ok e2 -> R e e2.
Proof.
  unfold env_create_var. destruct (scopes e) as [|t r] eqn:Es; try discriminate.
  destruct (tab_emplace n (EVar VUndef) t) as [t'| | | | |] eqn:Et; try discriminate. intro H; inversion H; subst.
  eapply R_grow; [exact Es|reflexivity|eapply tab_emplace_keys; eauto|reflexivity].
Qed.

Lemma tab_emplace_safe n x t : safe (tab_emplace n x t).
Proof. unfold tab_emplace. destruct (tab_get (lower_name n) t); exact I. Qed.

Lemma env_create_var_safe n e : wf e -> safe (env_create_var n e).
Proof.
  unfold wf, depth_of, env_create_var. destruct (scopes e) as [|t r]; cbn; [lia|]. intros _.
  pose proof (tab_emplace_safe n (EVar VUndef) t). destruct (tab_emplace n (EVar VUndef) t); cbn in *; auto.
Qed.

Lemma InvW_write_var w keys n e : wf e -> InvW w e (write_var w keys n e).
Proof.
  intro W. unfold write_var.
  pose proof (env_lookup_var_R n e) as HR. destruct (env_lookup_var n e) as [r e1] eqn:El. cbn [snd] in HR.
  destruct r as [v| | | | |]; try (apply write_result; exact HR).
  all: pose proof (env_create_var_safe n e1 (R_wf _ _ HR W)) as Hs;
       destruct (env_create_var n e1) as [e2| | | | |] eqn:Ec; cbn in Hs; try contradiction; auto;
       try (apply write_result; eapply R_trans; [exact HR|eapply env_create_var_R; eauto]);
       try (apply R_is_Rerr; exact HR).
Qed.

Lemma InvW_write_pronoun w keys e : InvW w e (write_pronoun w keys e).
Proof.
  unfold write_pronoun. destruct (last_access e) as [n|]; [|apply Rerr_refl].
  pose proof (find_var_safe n (scopes e)) as Hs.
  destruct (find_var n (scopes e)) as [cur| | | | |]; cbn in Hs; try contradiction; auto.
  - apply write_result. apply R_refl.
  - apply Rerr_refl.
Qed.

Lemma InvW_write_ident w keys i e : wf e -> InvW w e (write_ident w keys i e).
Proof. intro W. destruct i; cbn; [apply InvW_write_var; auto|apply InvW_write_pronoun]. Qed.

(** [settle]: the caller's view of a finished write *)
Definition Qback (w : wop) : option val -> env -> Prop :=
  fun b _ => match w, b with WPop, None => False | _, _ => True end.

Lemma Inv_settle w e r : InvW w e r -> Inv (Qback w) e (settle r).
Proof. destruct r as [[back|x] e'| | | | |]; cbn; auto. Qed.

Lemma InvW_absorb {A} w e (r : xres A) (k : A -> env -> xres inner) :
  Inv Qtrue e r -> (forall a e1, R e e1 -> InvW w e1 (k a e1)) -> InvW w e (absorb r k).
Proof.
  intros Hr Hk. destruct r; cbn in *; auto.
  destruct Hr as [HR _]. eapply InvW_trans; eauto.
Qed.

(** * Scope and channel steps *)

Lemma len_ge2 {A} (l : list A) : (2 <= length l)%nat -> (1 <? Val.len l)%N = true.
Proof. intro H. apply N.ltb_lt. unfold Val.len. lia. Qed.

Lemma pop_scope_ok prof e :
  (2 <= depth_of e)%nat ->
  exists e', pop_scope prof e = Ok e' /\ depth_of e' = pred (depth_of e) /\ outp e' = outp e /\ scopes e' = tl (scopes e).
Proof.
  intro H. unfold pop_scope, debug_assert. unfold depth_of in *.
  rewrite (len_ge2 _ H). eexists. split; [destruct prof; reflexivity|].
  unfold mkEnvB; cbn. split; auto. destruct (scopes e); cbn in *; auto.
Qed.

Lemma push_scope_depth e : depth_of (push_scope e) = S (depth_of e) /\ outp (push_scope e) = outp e.
Proof. split; reflexivity. Qed.

(** a scope pushed, a computation that respects [R], the scope popped: [R] for the whole *)
Lemma R_frame e1 e2 e3 e4 t0 :
  scopes e2 = t0 :: scopes e1 -> outp e2 = outp e1 -> R e2 e3 ->
  scopes e4 = tl (scopes e3) -> outp e4 = outp e3 -> R e1 e4.
Proof.
  intros H2 O2 (Hd & Hp & Hk) H4 O4. rewrite H2 in Hk. unfold R, depth_of in *. rewrite H2 in Hd.
  destruct (scopes e3) as [|t3 r3]; [contradiction|]. cbn in Hk, Hd, H4. destruct Hk as [_ Hk].
  rewrite H4, O4, <- O2. split; [cbn in Hd; lia|]. split; [exact Hp|]. apply SK_same_keys. auto.
Qed.

Lemma tab_for_call_safe args : forall t, safe (tab_for_call args t).
Proof.
  induction args as [|[n v] r IH]; intro t; cbn; [exact I|].
  pose proof (tab_emplace_safe n (EVar v) t). destruct (tab_emplace n (EVar v) t); cbn in *; auto.
Qed.

Lemma push_function_scope_spec args e :
  match env_push_function_scope args e with
  | Ok e2 => depth_of e2 = S (depth_of e) /\ outp e2 = outp e /\ exists t0, scopes e2 = t0 :: scopes e
  | Err _ => True
  | Panic _ | UB _ => False
  | _ => True
  end.
Proof.
  unfold env_push_function_scope. pose proof (tab_for_call_safe args []) as H.
  destruct (tab_for_call args []); cbn in *; auto. repeat split; eauto.
Qed.

Lemma tick_R e e' : tick e = Some e' -> R e e'.
Proof.
  unfold tick. destruct (steps e =? 0)%N; try discriminate. intro H; inversion H; subst.
  apply R_same_scopes_out; reflexivity.
Qed.

Lemma enter_call_spec e e' : enter_call e = Some e' -> depth_of e' = depth_of e /\ outp e' = outp e /\ scopes e' = scopes e.
Proof. unfold enter_call. destruct (depth e =? 0)%N; try discriminate. intro H; inversion H; subst. repeat split; reflexivity. Qed.

Lemma leave_call_spec e : depth_of (leave_call e) = depth_of e /\ outp (leave_call e) = outp e /\ scopes (leave_call e) = scopes e.
Proof. repeat split; reflexivity. Qed.

Lemma chan_input_spec c ln c' : chan_input c = Ok (ln, c') -> out_bytes c' = out_bytes c.
Proof.
  unfold chan_input. destruct (take_line (in_rest c) []) as [[l r] fnd].
  match goal with |- (if ?b then _ else _) = _ -> _ => destruct b end; try discriminate.
  intro H; inversion H; subst. reflexivity.
Qed.

Lemma chan_input_safe c : safe (chan_input c).
Proof.
  unfold chan_input. destruct (take_line (in_rest c) []) as [[l r] fnd].
  match goal with |- safe (if ?b then _ else _) => destruct b end; exact I.
Qed.

Lemma chan_output_spec txt c :
  match chan_output txt c with
  | (Ok c', _) => prefix_of (out_bytes c) (out_bytes c')
  | (Err _, cf) => prefix_of (out_bytes c) (out_bytes cf)
  | _ => False
  end.
Proof.
  unfold chan_output. destruct (out_budget c) as [b|].
  - destruct (Val.len (utf8_encode txt ++ [10%N]) <=? b)%N; cbn; eexists; reflexivity.
  - cbn. eexists; reflexivity.
Qed.

Lemma env_create_func_spec n ps b e :
  wf e ->
  match env_create_func n ps b e with
  | Ok e1 => R e e1
  | Err _ => True
  | Panic _ | UB _ => False
  | _ => True
  end.
Proof.
  unfold wf, depth_of, env_create_func. destruct (scopes e) as [|t r] eqn:Es; cbn; [lia|]. intros _.
  pose proof (tab_emplace_safe n (EFunc ps b) t) as H.
  destruct (tab_emplace n (EFunc ps b) t) as [t'| | | | |] eqn:Et; cbn in *; auto.
  eapply R_grow; [exact Es|reflexivity|eapply tab_emplace_keys; eauto|reflexivity].
Qed.

(** * Control-flow bookkeeping *)

Definition prex (xs : xstate) : Prop := xflag xs = Normal /\ xret xs = None.
Definition okx (xs : xstate) : Prop := xflag xs = Returning \/ xret xs = None.
Definition Qx : xstate -> env -> Prop := fun xs _ => okx xs.

Lemma prex_okx xs : prex xs -> okx xs.
Proof. intros [_ H]. right; auto. Qed.

Lemma okx_normal xs : okx xs -> xflag xs = Normal -> prex xs.
Proof. intros [H|H] Hn; split; auto; congruence. Qed.

Lemma prex_init : prex x_init.
Proof. split; reflexivity. Qed.

Section Main.
Variable prof : profile.

Record P (f : nat) : Prop := mkP {
  P_produce_expr : forall x e, wf e -> Inv Qtrue e (produce_expr prof f x e);
  P_produce_primary : forall p e, wf e -> Inv Qtrue e (produce_primary prof f p e);
  P_fold_rhs : forall op acc l e, wf e -> Inv Qtrue e (fold_rhs prof f op acc l e);
  P_produce_args : forall l e, wf e -> Inv Qtrue e (produce_args prof f l e);
  P_call_function : forall n args e, wf e -> Inv Qtrue e (call_function prof f n args e);
  P_write_primary : forall w p e, wf e -> InvW w e (write_primary prof f w p e);
  P_write_subscript : forall w a s keys e, wf e -> InvW w e (write_subscript prof f w a s keys e);
  P_write_expr : forall w x e, wf e -> InvW w e (write_expr prof f w x e);
  P_write_exprs : forall w l e, wf e -> InvE e (write_exprs prof f w l e);
  P_exec_stmt : forall s xs e, wf e -> prex xs -> Inv Qx e (exec_stmt prof f s xs e);
  P_exec_block : forall b xs e, wf e -> prex xs -> Inv Qx e (exec_block prof f b xs e);
  P_exec_stmts : forall ss xs e, wf e -> prex xs -> Inv Qx e (exec_stmts prof f ss xs e);
  P_exec_loop : forall inv c b xs e, wf e -> prex xs -> Inv Qx e (exec_loop prof f inv c b xs e)
}.

Lemma P_zero : P 0.
Proof. constructor; intros; exact I. Qed.

Ltac use_bind H := eapply Inv_bind; [apply H; auto|]; cbn beta.
Ltac ok_tac := first [apply Inv_ok; exact I | split; [apply R_refl|exact I]].

Lemma step_produce_expr f : P f -> forall x e, wf e -> Inv Qtrue e (produce_expr prof (S f) x e).
Proof.
  intros IH x e W. destruct x as [p|op l first rest|op a]; simpl.
  - apply (P_produce_primary f IH); auto.
  - eapply Inv_bind; [apply (P_produce_expr f IH); auto|]. intros lv e1 HR _.
    apply (P_fold_rhs f IH). eapply R_wf; eauto.
  - eapply Inv_bind; [apply (P_produce_expr f IH); auto|]. intros v e1 HR _.
    apply Inv_lift; [apply unop_apply_safe|intros; exact I].
Qed.

Lemma step_produce_primary f : P f -> forall p e, wf e -> Inv Qtrue e (produce_primary prof (S f) p e).
Proof.
  intros IH p e W. destruct p as [l r|[n|] r|a s|name r args|a]; simpl.
  - ok_tac.
  - apply Inv_lookup_var_x.
  - apply Inv_last_access.
  - eapply Inv_bind; [apply (P_produce_primary f IH); auto|]. intros av e1 HR1 _.
    eapply Inv_bind; [apply (P_produce_primary f IH); eapply R_wf; eauto|]. intros sv e2 HR2 _.
    apply Inv_lift; [apply v_index_safe|intros; exact I].
  - apply (P_call_function f IH); auto.
  - pose proof (Inv_settle WPop e _ (P_write_primary f IH WPop a e W)) as H.
    destruct (settle (write_primary prof f WPop a e)) as [[v|] e1|x e1| | | |]; cbn in *; auto.
    destruct H as [_ []].
Qed.

Lemma step_fold_rhs f : P f -> forall op acc l e, wf e -> Inv Qtrue e (fold_rhs prof (S f) op acc l e).
Proof.
  intros IH op acc l e W. destruct l as [|x t]; simpl.
  - ok_tac.
  - destruct (needs_rhs op acc).
    + eapply Inv_bind; [apply (P_produce_expr f IH); auto|]. intros bv e1 HR1 _.
      eapply Inv_bind; [apply Inv_lift; [apply binop_apply_safe|intros; exact I]|]. intros r e2 HR2 _.
      apply (P_fold_rhs f IH). eapply R_wf; [eauto|]. eapply R_wf; eauto.
    + apply (P_fold_rhs f IH); auto.
Qed.

Lemma step_produce_args f : P f -> forall l e, wf e -> Inv Qtrue e (produce_args prof (S f) l e).
Proof.
  intros IH l e W. destruct l as [|x t]; simpl.
  - ok_tac.
  - eapply Inv_bind; [apply (P_produce_expr f IH); auto|]. intros v e1 HR1 _.
    eapply Inv_bind; [apply (P_produce_args f IH); eapply R_wf; eauto|]. intros vs e2 HR2 _.
    ok_tac.
Qed.

Lemma step_call_function f : P f -> forall n args e, wf e -> Inv Qtrue e (call_function prof (S f) n args e).
Proof.
  intros IH n args e W. simpl.
  eapply Inv_bind; [apply Inv_lookup_func|]. intros [params body] e0 HR0 _.
  destruct (negb (Val.len params =? Val.len args)%N); [apply Inv_err|].
  pose proof (R_wf _ _ HR0 W) as W0.
  eapply Inv_bind; [apply (P_produce_args f IH); auto|]. intros vals e1 HR1 _.
  pose proof (R_wf _ _ HR1 W0) as W1.
  pose proof (push_function_scope_spec (combine (map fst params) vals) e1) as Hp.
  destruct (env_push_function_scope (combine (map fst params) vals) e1) as [e2|x| | | |]; cbn in *; try contradiction; auto.
  2:{ apply Rerr_refl. }
  destruct Hp as (Hd & Ho & t0 & Hs2).
  destruct (enter_call e2) as [e2'|] eqn:Ee; [|exact I].
  apply enter_call_spec in Ee as (Hd' & Ho' & Hs2').
  assert (W2 : wf e2') by (unfold wf in *; lia).
  pose proof (P_exec_block f IH body x_init e2' W2 prex_init) as Hb.
  destruct (exec_block prof f body x_init e2') as [xs e3|x e3| | | |]; cbn in *; auto.
  - destruct Hb as [HR3 _]. pose proof HR3 as (Hd3 & Ho3 & _).
    destruct (leave_call_spec e3) as (Hl1 & Hl2 & Hl3).
    destruct (pop_scope_ok prof (leave_call e3)) as (e4 & Ep & Hd4 & Ho4 & Hs4); [unfold wf in *; lia|].
    rewrite Ep. cbn. split; [|exact I].
    apply (R_frame e1 e2' e3 e4 t0); auto; try congruence.
  - destruct Hb as [Hd3 Ho3]. split; [lia|]. rewrite <- Ho, <- Ho'. exact Ho3.
Qed.

Lemma step_write_exprs f : P f -> forall w l e, wf e -> InvE e (write_exprs prof (S f) w l e).
Proof.
  intros IH w l e W. destruct l as [|x t]; simpl.
  - apply Rerr_refl.
  - eapply InvE_bind; [apply (P_write_expr f IH w x e W)|]. intros i e1 HR.
    apply (P_write_exprs f IH). eapply Rerr_wf; eauto.
Qed.

Lemma step_write_primary f : P f -> forall w p e, wf e -> InvW w e (write_primary prof (S f) w p e).
Proof.
  intros IH w p e W. destruct p as [l r|i r|a s|name r args|a]; simpl.
  - apply Rerr_refl.
  - apply InvW_write_ident; auto.
  - apply (P_write_subscript f IH); auto.
  - apply InvE_InvW.
    eapply InvE_bind; [apply (InvW_write_var w [] name e W)|]. intros i e1 HR1.
    eapply (InvE_bind w); [apply InvE_InvW; apply (P_write_exprs f IH w args e1); eapply Rerr_wf; eauto|].
    intros i2 e2 HR2. apply InvE_not_writable.
  - apply (P_write_primary f IH); auto.
Qed.

Lemma step_write_subscript f : P f -> forall w a s keys e, wf e -> InvW w e (write_subscript prof (S f) w a s keys e).
Proof.
  intros IH w a s keys e W. simpl.
  apply InvW_absorb; [apply (P_produce_primary f IH); auto|]. intros sv e1 HR.
  pose proof (R_wf _ _ HR W) as W1.
  destruct a as [l r|i r|a2 s2|name r args|a2].
  - apply Rerr_refl.
  - apply InvW_write_ident; auto.
  - apply (P_write_subscript f IH); auto.
  - apply Rerr_refl.
  - apply Rerr_refl.
Qed.

Lemma step_write_expr f : P f -> forall w x e, wf e -> InvW w e (write_expr prof (S f) w x e).
Proof.
  intros IH w x e W. destruct x as [p|op l first rest|op a]; simpl.
  - apply (P_write_primary f IH); auto.
  - apply InvE_InvW.
    eapply InvE_bind; [apply (P_write_expr f IH w l e W)|]. intros i e1 HR1.
    eapply (InvE_bind w); [apply InvE_InvW; apply (P_write_exprs f IH w (first :: rest) e1); eapply Rerr_wf; eauto|].
    intros i2 e2 HR2. apply InvE_not_writable.
  - apply InvE_InvW.
    eapply InvE_bind; [apply (P_write_expr f IH w a e W)|]. intros i e1 HR1. apply InvE_not_writable.
Qed.

(** a finished write followed by [XOk xs] *)
Lemma Inv_after_write f (IH : P f) w p xs e :
  wf e -> okx xs ->
  Inv Qx e (let+ (_, e2) := settle (write_primary prof f w p e) in XOk xs e2).
Proof.
  intros W Hx. eapply Inv_bind; [apply Inv_settle; apply (P_write_primary f IH); auto|].
  intros b e2 HR _. apply Inv_ok. exact Hx.
Qed.

Lemma Inv_after_write_ident w i xs e :
  wf e -> okx xs ->
  Inv Qx e (let+ (_, e2) := settle (write_ident w [] i e) in XOk xs e2).
Proof.
  intros W Hx. eapply Inv_bind; [apply Inv_settle; apply InvW_write_ident; auto|].
  intros b e2 HR _. apply Inv_ok. exact Hx.
Qed.

(** running a block in a fresh scope and popping it *)
Lemma Inv_scoped_block f (IH : P f) b xs e1 (k : xstate -> env -> xres xstate) :
  wf e1 -> prex xs ->
  (forall xs' e4, okx xs' -> R e1 e4 -> Inv Qx e4 (k xs' e4)) ->
  Inv Qx e1 (let+ (xs', e3) := exec_block prof f b xs (push_scope e1) in
             let+ (e4, _) := lift_env (pop_scope prof e3) e3 in k xs' e4).
Proof.
  intros W Hp Hk. destruct (push_scope_depth e1) as [Hd Ho].
  assert (W2 : wf (push_scope e1)) by (unfold wf in *; lia).
  pose proof (P_exec_block f IH b xs (push_scope e1) W2 Hp) as Hb.
  destruct (exec_block prof f b xs (push_scope e1)) as [xs' e3|x e3| | | |]; simpl in *; auto.
  - destruct Hb as [HR3 Hq]. pose proof HR3 as (Hd3 & Ho3 & _).
    destruct (pop_scope_ok prof e3) as (e4 & Ep & Hd4 & Ho4 & Hs4); [unfold wf in *; lia|].
    rewrite Ep. simpl.
    assert (HR : R e1 e4) by (apply (R_frame e1 (push_scope e1) e3 e4 []); auto).
    eapply Inv_trans; [exact HR|]. apply Hk; auto.
  - destruct Hb as [Hd3 Ho3]. split; [lia|]. rewrite <- Ho. exact Ho3.
Qed.

Lemma step_exec_loop f : P f -> forall inv c b xs e, wf e -> prex xs -> Inv Qx e (exec_loop prof (S f) inv c b xs e).
Proof.
  intros IH inv c b xs e W Hp. simpl.
  destruct (tick e) as [et|] eqn:Et; [|exact I].
  pose proof (tick_R _ _ Et) as HRt. eapply Inv_trans; [exact HRt|].
  pose proof (R_wf _ _ HRt W) as Wt.
  eapply Inv_bind; [apply (P_produce_expr f IH); auto|]. intros cv e1 HR1 _.
  pose proof (R_wf _ _ HR1 Wt) as W1.
  destruct (xorb inv (is_truthy cv)).
  - apply (Inv_scoped_block f IH b xs e1); auto.
    intros xs' e4 Hx HR4.
    assert (W4 : wf e4) by (eapply R_wf; [exact HR4|]; auto).
    destruct (xflag xs') eqn:Ef.
    + apply (P_exec_loop f IH). apply R_wf with (a := e4); [apply R_refl|]. eapply R_wf; [apply R_refl|].
      eapply R_wf; [exact HR4|exact W1]. apply okx_normal; auto.
    + apply Inv_ok. destruct Hx as [Hx|Hx]; [congruence|]. right. exact Hx.
    + apply (P_exec_loop f IH).
      * eapply R_wf; [exact HR4|exact W1].
      * destruct Hx as [Hx|Hx]; [congruence|]. split; auto.
    + apply Inv_ok. left. exact Ef.
  - apply Inv_ok. apply prex_okx; auto.
Qed.

Lemma Inv_chan_output xs e2 txt :
  okx xs ->
  Inv Qx e2
    (let '(r, cfail) := chan_output txt (chan e2) in
     match r with
     | Ok c' => XOk xs (mkEnvB e2 (scopes e2) (last_access e2) c')
     | Err x => XErr (REnv x) (mkEnvB e2 (scopes e2) (last_access e2) cfail)
     | Panic s => XPanic s | UB s => XUB s | OutOfFuel => XOutOfFuel | OverBudget => XOverBudget
     end).
Proof.
  intro Hx. pose proof (chan_output_spec txt (chan e2)) as H.
  destruct (chan_output txt (chan e2)) as [[c'|x| | | |] cf]; try contradiction.
  - split; [|exact Hx]. split; [reflexivity|]. split; [exact H|apply SK_refl].
  - split; [unfold depth_of, mkEnvB; cbn; lia|exact H].
Qed.

Lemma step_exec_stmt f : P f -> forall s xs e, wf e -> prex xs -> Inv Qx e (exec_stmt prof (S f) s xs e).
Proof.
  intros IH s xs e W Hp. simpl.
  destruct (tick e) as [et|] eqn:Et; [|exact I].
  pose proof (tick_R _ _ Et) as HRt. eapply Inv_trans; [exact HRt|].
  pose proof (R_wf _ _ HRt W) as Wt. clear Et HRt W e. rename et into e. rename Wt into W.
  pose proof (prex_okx _ Hp) as Hx.
  destruct s.
  - (* SAssign *)
    eapply Inv_bind with (Q1 := Qtrue).
    + destruct op as [o|].
      * eapply Inv_bind; [apply (P_produce_primary f IH); auto|]. intros lv e0 HR0 _.
        apply (P_fold_rhs f IH). eapply R_wf; eauto.
      * destruct rest; [apply (P_produce_expr f IH); auto|apply Inv_err].
    + intros nv e1 HR1 _. apply (Inv_after_write f IH); auto; try (eapply R_wf; eauto).
  - (* SPoeticNum *)
    eapply Inv_bind with (Q1 := Qtrue).
    + destruct rhs; [apply (P_produce_expr f IH); auto|apply Inv_ok; exact I].
    + intros v e1 HR1 _. apply (Inv_after_write f IH); auto; try (eapply R_wf; eauto).
  - (* SPoeticStr *)
    apply (Inv_after_write f IH); auto.
  - (* SIf *)
    eapply Inv_bind; [apply (P_produce_expr f IH); auto|]. intros cv e1 HR1 _.
    pose proof (R_wf _ _ HR1 W) as W1.
    destruct (is_truthy cv).
    + apply (Inv_scoped_block f IH then_ xs e1 (fun xs' e4 => XOk xs' e4)); auto.
      intros xs' e4 Hx' _. apply Inv_ok. exact Hx'.
    + destruct else_ as [b|].
      * apply (Inv_scoped_block f IH b xs e1 (fun xs' e4 => XOk xs' e4)); auto.
        intros xs' e4 Hx' _. apply Inv_ok. exact Hx'.
      * simpl. destruct (push_scope_depth e1) as [Hd Ho].
        destruct (pop_scope_ok prof (push_scope e1)) as (e4 & Ep & Hd4 & Ho4 & Hs4); [unfold wf in *; lia|].
        rewrite Ep. simpl. split; [|exact Hx].
        apply (R_frame e1 (push_scope e1) (push_scope e1) e4 []); auto. apply R_refl.
  - apply (P_exec_loop f IH); auto.
  - apply (P_exec_loop f IH); auto.
  - apply Inv_after_write_ident; auto.
  - apply Inv_after_write_ident; auto.
  - (* SInput *)
    pose proof (chan_input_safe (chan e)) as Hs.
    destruct (chan_input (chan e)) as [[ln c']|x| | | |] eqn:Ei; simpl in *; try contradiction; auto.
    2:{ apply Rerr_refl. }
    apply chan_input_spec in Ei.
    assert (HR : R e (mkEnvB e (scopes e) (last_access e) c')).
    { apply R_same_scopes_out; [reflexivity|]. unfold outp, mkEnvB; cbn. exact Ei. }
    destruct dest as [d|].
    + eapply Inv_trans; [exact HR|]. apply (Inv_after_write f IH); auto; try (eapply R_wf; eauto).
    + split; [exact HR|exact Hx].
  - (* SOutput *)
    eapply Inv_bind; [apply (P_produce_expr f IH); auto|]. intros v e1 HR1 _.
    eapply Inv_bind; [apply Inv_lift; [apply to_string_for_output_safe|intros; exact I]|]. intros txt e2 HR2 _.
    apply Inv_chan_output; auto.
  - (* SMutation *)
    eapply Inv_bind with (Q1 := Qtrue).
    + destruct param as [px|]; [|apply Inv_ok; exact I].
      eapply Inv_bind; [apply (P_produce_expr f IH); auto|]. intros v e' HR' _. apply Inv_ok; exact I.
    + intros pv e1 HR1 _. pose proof (R_wf _ _ HR1 W) as W1.
      destruct dest as [d|].
      * eapply Inv_bind; [apply (P_produce_primary f IH); auto|]. intros v e2 HR2 _.
        eapply Inv_bind; [apply Inv_lift; [apply apply_mutation_safe|intros; exact I]|]. intros v' e3 HR3 _.
        apply (Inv_after_write f IH); auto; try (eapply R_wf; [exact HR3|]; eapply R_wf; eauto).
      * apply (Inv_after_write f IH); auto.
  - (* SRounding *)
    eapply Inv_bind; [apply Inv_settle; apply (P_write_expr f IH); auto|].
    intros b e1 HR1 _. apply Inv_ok. exact Hx.
  - (* SContinue *)
    destruct Hp as [Hf Hr]. rewrite Hf. destruct prof; simpl; (split; [apply R_refl|right; exact Hr]).
  - (* SBreak *)
    destruct Hp as [Hf Hr]. rewrite Hf. destruct prof; simpl; (split; [apply R_refl|right; exact Hr]).
  - (* SPush *)
    destruct value as [[first rest|elems]|].
    + eapply Inv_bind; [apply (P_produce_args f IH); auto|]. intros vals e1 HR1 _.
      apply (Inv_after_write f IH); auto; try (eapply R_wf; eauto).
    + apply (Inv_after_write f IH); auto.
    + apply (Inv_after_write f IH); auto.
  - (* SPop *)
    eapply Inv_bind; [apply (P_produce_primary f IH); auto|]. intros back e1 HR1 _.
    destruct dest as [d|].
    + apply (Inv_after_write f IH); auto; try (eapply R_wf; eauto).
    + apply Inv_ok. exact Hx.
  - (* SReturn *)
    destruct Hp as [Hf Hr]. rewrite Hr, Hf.
    assert (Hd : forall n, debug_assert (E := unit) prof n true = Ok tt) by (destruct prof; reflexivity).
    rewrite !Hd.
    eapply Inv_bind; [apply (P_produce_expr f IH); auto|]. intros v e1 HR1 _.
    apply Inv_ok. left. reflexivity.
  - (* SFunction *)
    pose proof (env_create_func_spec name params body e W) as Hc.
    destruct (env_create_func name params body e) as [e1|x| | | |]; simpl in *; try contradiction; try exact I.
    + split; [exact Hc|exact Hx].
    + apply Rerr_refl.
  - (* SCall *)
    eapply Inv_bind; [apply (P_call_function f IH); auto|]. intros v e1 HR1 _. apply Inv_ok. exact Hx.
Qed.

Lemma step_exec_stmts f : P f -> forall ss xs e, wf e -> prex xs -> Inv Qx e (exec_stmts prof (S f) ss xs e).
Proof.
  intros IH ss xs e W Hp. destruct ss as [|s t]; simpl.
  - split; [apply R_refl|apply prex_okx; auto].
  - eapply Inv_bind; [apply (P_exec_stmt f IH); auto|]. intros xs' e1 HR1 Hq.
    destruct (xflag xs') eqn:Ef; simpl.
    + apply (P_exec_stmts f IH); [eapply R_wf; eauto|]. apply okx_normal; auto.
    + apply Inv_ok; exact Hq.
    + apply Inv_ok; exact Hq.
    + apply Inv_ok; exact Hq.
Qed.

Lemma step_exec_block f : P f -> forall b xs e, wf e -> prex xs -> Inv Qx e (exec_block prof (S f) b xs e).
Proof.
  intros IH b xs e W Hp. destruct b as [l|ss]; simpl.
  - split; [apply R_refl|apply prex_okx; auto].
  - apply (P_exec_stmts f IH); auto.
Qed.

Theorem all_P : forall f, P f.
Proof.
  induction f as [|f IH]; [apply P_zero|].
  constructor.
  - apply step_produce_expr; auto.
  - apply step_produce_primary; auto.
  - apply step_fold_rhs; auto.
  - apply step_produce_args; auto.
  - apply step_call_function; auto.
  - apply step_write_primary; auto.
  - apply step_write_subscript; auto.
  - apply step_write_expr; auto.
  - apply step_write_exprs; auto.
  - apply step_exec_stmt; auto.
  - apply step_exec_block; auto.
  - apply step_exec_stmts; auto.
  - apply step_exec_loop; auto.
Qed.

(** top level: [exec_program] *)
Lemma Inv_exec_blocks fuel : forall bs xs e, wf e -> prex xs -> Inv Qx e (exec_blocks prof fuel bs xs e).
Proof.
  induction bs as [|b t IHb]; intros xs e W Hp; simpl.
  - split; [apply R_refl|apply prex_okx; auto].
  - eapply Inv_bind; [apply (P_exec_block fuel (all_P fuel)); auto|]. intros xs' e1 HR1 Hq.
    destruct (xflag xs') eqn:Ef; simpl; try (apply Inv_ok; exact Hq).
    apply IHb; [eapply R_wf; eauto|]. apply okx_normal; auto.
Qed.

Theorem exec_program_inv fuel p c : Inv Qx (env_init c) (exec_program prof fuel p c).
Proof. apply Inv_exec_blocks; [unfold wf, depth_of; cbn; lia|apply prex_init]. Qed.

End Main.
