(** A keyword is never taken for a name: whatever its alias and letter case, no word token of any lexed source
    spells a keyword; and the word scanners give a word spelled as an alias exactly the alias's kind.  (The global
    form of the table lemma C02_keyword_alias_any_case: one pass over the lexer functions, as in LexNumbers.v.) *)
From Coq Require Import List ZArith NArith Bool Lia.
From RRSS Require Import Base.Outcome Base.Chars Base.F64 Base.F64Text Front.Ast Front.Token Front.Lexer.
From RRSS Require Import Proofs.LexBasics Proofs.LexSpec Proofs.LexNumbers.
Import ListNotations.
Open Scope N_scope.

Definition word_ok (t : token) : Prop := tid t = TWord -> match_keyword (tspell t) = None.
Definition not_word (id : ttype) : Prop := id <> TWord.
Definition wstg_ok (o : option token) : Prop := match o with Some t => word_ok t | None => True end.

Lemma not_word_ok t : not_word (tid t) -> word_ok t.
Proof. intros H E. exfalso. apply H. exact E. Qed.

Lemma keywords_not_word : forallb (fun p => match snd p with TWord => false | _ => true end) keywords = true.
Proof. vm_compute. reflexivity. Qed.

Lemma match_keyword_not_word w id : match_keyword w = Some id -> not_word id.
Proof.
  unfold match_keyword. intro H. apply assoc_str_in in H as [k Hin].
  pose proof keywords_not_word as K. rewrite forallb_forall in K. specialize (K _ Hin). cbn in K.
  intro E. subst id. discriminate.
Qed.

Section L.
Variable prof : profile.

Lemma make_token_from_spell lx a b start id t :
  make_token_from prof lx (a ++ b) start (byte_len a) id = Ok t -> tid t = id /\ tspell t = a.
Proof.
  unfold make_token_from. rewrite substr_ok. cbn [bind].
  destruct (make_range_from _ _ _ _); cbn [bind]; try discriminate. intro H. injection H as <-. split; reflexivity.
Qed.

Ltac nw := let E := fresh in intro E; discriminate E.

Lemma char_token_w lx s0 start id r : not_word id -> char_token prof lx s0 start id = Ok r -> word_ok (lr_token r).
Proof.
  intros Hn. unfold char_token. destruct (make_token_from prof lx s0 start 1 id) as [t| | | | |] eqn:E; cbn [bind]; try discriminate.
  apply make_token_from_tid in E. intro H. apply not_word_ok.
  destruct id; injection H as <-; cbn; rewrite E; exact Hn.
Qed.

Lemma two_char_token_w lx s0 start id r : not_word id -> two_char_token prof lx s0 start id = Ok r -> word_ok (lr_token r).
Proof.
  intros Hn. unfold two_char_token. destruct (make_token_from prof lx s0 start 2 id) as [t| | | | |] eqn:E; cbn [bind]; try discriminate.
  apply make_token_from_tid in E. intro H. injection H as <-. apply not_word_ok. cbn. rewrite E. exact Hn.
Qed.

Lemma make_error_token_w lx s0 start msg r : make_error_token prof lx s0 start msg = Ok r -> word_ok (lr_token r).
Proof.
  unfold make_error_token. destruct (make_token_from prof lx s0 start _ _) as [t| | | | |] eqn:E; cbn [bind]; try discriminate.
  apply make_token_from_tid in E. intro H. injection H as <-. apply not_word_ok. cbn. rewrite E. nw.
Qed.

Lemma scan_for_text_w lx s start text id r : not_word id -> scan_for_text prof lx s start text id = Ok (Some r) -> word_ok (lr_token r).
Proof.
  intro Hn. unfold scan_for_text. destruct (starts_with text s); [|discriminate].
  destruct (make_token_from prof lx s start _ id) as [t| | | | |] eqn:E; cbn [bind]; try discriminate.
  apply make_token_from_tid in E. intro H. injection H as <-. apply not_word_ok. cbn. rewrite E. exact Hn.
Qed.

(** the keyword scanner gives the word the kind the table assigns to it *)
Lemma scan_keyword_kind lx s0 start r :
  scan_keyword prof lx s0 start = Ok (Some r) -> match_keyword (tspell (lr_token r)) = Some (tid (lr_token r)).
Proof.
  unfold scan_keyword. destruct (substr prof 44 _ s0) as [text| | | | |]; cbn [bind]; try discriminate.
  destruct (match_keyword text) as [id|] eqn:Ek; [|discriminate].
  destruct (make_range_from _ _ _ _); cbn [bind]; try discriminate.
  intro H. injection H as <-. cbn. exact Ek.
Qed.

Lemma scan_keyword_w lx s0 start r : scan_keyword prof lx s0 start = Ok (Some r) -> word_ok (lr_token r).
Proof.
  intro H. apply scan_keyword_kind in H. apply not_word_ok. eapply match_keyword_not_word; eauto.
Qed.

Lemma suffix_w ln lstart s start r : scan_apostrophe_suffix prof ln lstart s start = Ok (Some r) -> word_ok (lr_token r).
Proof.
  unfold scan_apostrophe_suffix.
  destruct (starts_with (lit "'s") s).
  - destruct (substr prof 42 _ s); cbn [bind]; try discriminate.
    destruct (make_range_from _ _ _ _); cbn [bind]; try discriminate.
    intro H. injection H as <-. apply not_word_ok. cbn. nw.
  - destruct (starts_with (lit "'re") s); [|discriminate].
    destruct (substr prof 42 _ s); cbn [bind]; try discriminate.
    destruct (make_range_from _ _ _ _); cbn [bind]; try discriminate.
    intro H. injection H as <-. apply not_word_ok. cbn. nw.
Qed.

Lemma maybe_suffix_w lx r after r' stg :
  word_ok (lr_token r) -> maybe_suffix prof lx r after = Ok (r', stg) -> word_ok (lr_token r') /\ wstg_ok stg.
Proof.
  intro Hr. unfold maybe_suffix.
  destruct (scan_apostrophe_suffix prof _ _ after (lr_end r)) as [[s|]| | | | |] eqn:E; cbn [bind]; try discriminate.
  - intro H. injection H as <- <-. cbn. split; auto. eapply suffix_w; eauto.
  - intro H. injection H as <- <-. split; auto. exact I.
Qed.

Lemma scan_number_w lx s0 start r stg :
  scan_number prof lx s0 start = Ok (Some (r, stg)) -> word_ok (lr_token r) /\ wstg_ok stg.
Proof.
  unfold scan_number. destruct s0 as [|c after]; [discriminate|].
  destruct (substr prof 43 _ (c :: after)) as [text| | | | |]; cbn [bind]; try discriminate.
  destruct (f64_parse text) as [v|] eqn:Ev; [|discriminate].
  destruct (make_range_from _ _ _ _) as [rg| | | | |]; cbn [bind]; try discriminate.
  destruct (maybe_suffix prof lx _ _) as [[r' stg']| | | | |] eqn:Em; cbn [bind]; try discriminate.
  intro H. injection H as <- <-. eapply maybe_suffix_w; [|exact Em]. apply not_word_ok. cbn. nw.
Qed.

Lemma scan_delimited_w lx s0 open close factory err r stg :
  (forall x, not_word (factory x)) ->
  scan_delimited prof lx s0 open close factory err = Ok (r, stg) -> word_ok (lr_token r) /\ wstg_ok stg.
Proof.
  intro Hf. unfold scan_delimited. destruct s0 as [|c after]; [discriminate|].
  destruct (make_loc_from _ _ open); cbn [bind]; try discriminate.
  destruct (scan_close close after (open + 1) 0 None) as [[found nl] nls].
  match goal with |- bind ?m _ = _ -> _ => destruct m as [[[ty text] e]| | | | |] eqn:Em end; cbn [bind]; try discriminate.
  assert (Hty : not_word ty).
  { destruct found as [cl|].
    - destruct (substr prof 48 _ after); cbn [bind] in Em; try discriminate.
      destruct (substr prof 49 _ (c :: after)); cbn [bind] in Em; try discriminate.
      injection Em as <- _ _. apply Hf.
    - injection Em as <- _ _. nw. }
  destruct (make_loc_from _ _ e); cbn [bind]; try discriminate.
  intro H. eapply maybe_suffix_w; [|exact H]. apply not_word_ok. cbn. exact Hty.
Qed.

(** the word scanner: the token is the word without its suffix / trailing apostrophes, of the table's kind if the
    table knows it (in any letter case), a plain word otherwise *)
Lemma tokenize_word_kind lx word b start e r stg :
  tokenize_word prof lx (word ++ b) start word e = Ok (r, stg) ->
  (match match_keyword (tspell (lr_token r)) with Some k => tid (lr_token r) = k | None => tid (lr_token r) = TWord end) /\
  wstg_ok stg.
Proof.
  unfold tokenize_word.
  set (ss := first_some [strip_suffix (lit "'s") word; strip_suffix (lit "'S") word]).
  set (rs := first_some _).
  match goal with |- (let '(stripped, staged_type) := ?p in _) = _ -> _ => destruct p as [stripped staged_type] eqn:Ep end.
  assert (Hpre : exists q, word = stripped ++ q).
  { destruct ss as [st|] eqn:Es.
    - injection Ep as <- _. unfold ss in Es. cbn [first_some fold_right] in Es.
      destruct (strip_suffix (lit "'s") word) eqn:E1; [injection Es as <-; apply strip_suffix_some in E1; eauto|].
      destruct (strip_suffix (lit "'S") word) eqn:E2; [injection Es as <-; apply strip_suffix_some in E2; eauto|discriminate].
    - destruct rs as [st|] eqn:Er.
      + injection Ep as <- _. unfold rs in Er. cbn [first_some fold_right] in Er.
        destruct (strip_suffix (lit "'re") word) eqn:E1; [injection Er as <-; apply strip_suffix_some in E1; eauto|].
        destruct (strip_suffix (lit "'RE") word) eqn:E2; [injection Er as <-; apply strip_suffix_some in E2; eauto|].
        destruct (strip_suffix (lit "'Re") word) eqn:E3; [injection Er as <-; apply strip_suffix_some in E3; eauto|].
        destruct (strip_suffix (lit "'rE") word) eqn:E4; [injection Er as <-; apply strip_suffix_some in E4; eauto|discriminate].
      + injection Ep as <- _. destruct (trim_end_apostrophes_prefix word) as (q & Eq & _). eauto. }
  assert (Hst : forall id n, staged_type = Some (id, n) -> not_word id).
  { intros id n E. subst staged_type. destruct ss; [injection Ep as _ <- _; nw|].
    destruct rs; [injection Ep as _ <- _; nw|]. discriminate. }
  match goal with |- bind ?m _ = _ -> _ => destruct m as [stg0| | | | |] eqn:Es0 end; cbn [bind]; try discriminate.
  assert (Hs0 : wstg_ok stg0).
  { destruct staged_type as [[id n]|].
    - destruct (make_token_from prof lx _ _ n id) as [t| | | | |] eqn:Et; cbn [bind] in Es0; try discriminate.
      injection Es0 as <-. cbn. apply not_word_ok. rewrite (make_token_from_tid _ _ _ _ _ _ _ Et). eapply Hst; eauto.
    - injection Es0 as <-. exact I. }
  destruct (debug_assert prof 45 _); cbn [bind]; try discriminate.
  destruct Hpre as [q Eq]. rewrite Eq at 1. rewrite <- app_assoc.
  destruct (make_token_from prof lx (stripped ++ q ++ b) start (byte_len stripped) _) as [t| | | | |] eqn:Et; cbn [bind]; try discriminate.
  apply make_token_from_spell in Et as [Et1 Et2].
  intro H. injection H as <- <-. split; auto. cbn [lr_token simple_result]. rewrite Et2, Et1.
  destruct (match_keyword stripped); reflexivity.
Qed.

Lemma tokenize_word_w lx word b start e r stg :
  tokenize_word prof lx (word ++ b) start word e = Ok (r, stg) -> word_ok (lr_token r) /\ wstg_ok stg.
Proof.
  intro H. apply tokenize_word_kind in H as [Hk Hs]. split; auto.
  intro Ew. destruct (match_keyword (tspell (lr_token r))) as [k|] eqn:E; [|reflexivity].
  exfalso. apply (match_keyword_not_word _ _ E). congruence.
Qed.

Lemma scan_word_w lx s0 start r stg : scan_word prof lx s0 start = Ok (r, stg) -> word_ok (lr_token r) /\ wstg_ok stg.
Proof.
  unfold scan_word. unfold substr. destruct (take_bytes (word_end_len s0) s0) as [text|] eqn:Et; cbn [bind]; [|destruct prof; discriminate].
  destruct (take_bytes_spec _ _ _ Et) as (b & Es & _).
  destruct (forallb _ text).
  - rewrite Es at 1. apply tokenize_word_w.
  - destruct (make_token_from prof lx s0 start _ _) as [t| | | | |] eqn:Em; cbn [bind]; try discriminate.
    intro H. injection H as <- <-. split; [|exact I]. cbn. apply not_word_ok. rewrite (make_token_from_tid _ _ _ _ _ _ _ Em). nw.
Qed.

Lemma match_one_w lx s0 start r stg : match_one prof lx s0 start = Ok (Produced r stg) -> word_ok (lr_token r) /\ wstg_ok stg.
Proof.
  unfold match_one. destruct s0 as [|c after]; [discriminate|].
  assert (Hplain : forall (m : lres lex_result), (forall x, m = Ok x -> word_ok (lr_token x)) ->
             (let* x := m in Ok (Produced x None)) = Ok (Produced r stg) -> word_ok (lr_token r) /\ wstg_ok stg).
  { intros m Hm. destruct m; cbn [bind]; try discriminate. intro H. injection H as <- <-. split; [apply Hm; reflexivity|exact I]. }
  assert (Hpair : forall (m : lres (lex_result * option token)), (forall a b, m = Ok (a, b) -> word_ok (lr_token a) /\ wstg_ok b) ->
             (let* x := m in Ok (Produced (fst x) (snd x))) = Ok (Produced r stg) -> word_ok (lr_token r) /\ wstg_ok stg).
  { intros m Hm. destruct m as [[a b]| | | | |]; cbn [bind]; try discriminate. intro H. injection H as <- <-. apply Hm. reflexivity. }
  assert (Hnum : forall (k : lres step_result),
             (k = Ok (Produced r stg) -> word_ok (lr_token r) /\ wstg_ok stg) ->
             (let* n := scan_number prof lx (c :: after) start in
              match n with Some x => Ok (Produced (fst x) (snd x)) | None => k end) = Ok (Produced r stg) ->
             word_ok (lr_token r) /\ wstg_ok stg).
  { intros k Hk. destruct (scan_number prof lx (c :: after) start) as [[[a b]|]| | | | |] eqn:En; cbn [bind]; try discriminate; auto.
    intro H. injection H as <- <-. eapply scan_number_w; eauto. }
  destruct (c =? 10); [apply Hplain; intros x; apply char_token_w; nw|].
  destruct (c =? 46); [apply Hnum; apply Hplain; intros x; apply char_token_w; nw|].
  destruct (c =? 44); [apply Hplain; intros x; apply char_token_w; nw|].
  destruct (c =? 38); [apply Hplain; intros x; apply char_token_w; nw|].
  destruct (c =? 43); [apply Hplain; intros x; apply char_token_w; nw|].
  destruct (c =? 45); [apply Hplain; intros x; apply char_token_w; nw|].
  destruct (c =? 42); [apply Hplain; intros x; apply char_token_w; nw|].
  destruct (c =? 47); [apply Hplain; intros x; apply char_token_w; nw|].
  destruct (c =? 34); [apply Hpair; intros a b; apply scan_delimited_w; intros x; nw|].
  destruct (c =? 40); [apply Hpair; intros a b; apply scan_delimited_w; intros x; nw|].
  destruct (c =? 95); [apply Hplain; intros x; apply make_error_token_w|].
  destruct (c =? 60).
  { destruct after as [|[|p] t]; try (apply Hplain; intros x; apply char_token_w; nw).
    destruct (Pos.eq_dec p 61) as [->|Hne]; [apply Hplain; intros x; apply two_char_token_w; nw|].
    repeat (destruct p as [p|p|]; try (apply Hplain; intros x; apply char_token_w; nw); try (exfalso; apply Hne; reflexivity)). }
  destruct (c =? 62).
  { destruct after as [|[|p] t]; try (apply Hplain; intros x; apply char_token_w; nw).
    destruct (Pos.eq_dec p 61) as [->|Hne]; [apply Hplain; intros x; apply two_char_token_w; nw|].
    repeat (destruct p as [p|p|]; try (apply Hplain; intros x; apply char_token_w; nw); try (exfalso; apply Hne; reflexivity)). }
  destruct (scan_for_text prof lx (c :: after) start (lit "'n'") TApostropheNApostrophe) as [[x|]| | | | |] eqn:Et; cbn [bind]; try discriminate.
  - intro H. injection H as <- <-. split; [|exact I]. eapply scan_for_text_w; [|exact Et]. nw.
  - destruct (is_ignorable_punctuation c || (c =? 39)); [discriminate|].
    destruct (is_numeric c); [apply Hnum; apply Hplain; intros x; apply make_error_token_w|].
    destruct (is_alphabetic c); [|apply Hplain; intros x; apply make_error_token_w].
    destruct (scan_keyword prof lx (c :: after) start) as [[x|]| | | | |] eqn:Ek; cbn [bind]; try discriminate.
    + intro H. injection H as <- <-. split; [|exact I]. eapply scan_keyword_w; eauto.
    + apply Hpair. intros a b. apply scan_word_w.
Qed.

Lemma match_loop_w : forall fuel lx t lx', match_loop prof fuel lx = Ok (Some (t, lx')) -> wstg_ok (staged lx) -> word_ok t /\ wstg_ok (staged lx').
Proof.
  induction fuel as [|f IH]; intros lx t lx' H Hs; cbn [match_loop] in H; [discriminate|].
  destruct (find_word_start (rest lx) (idx lx)) as [s0 start].
  destruct s0 as [|c after]; [discriminate|].
  destruct (match_one prof lx (c :: after) start) as [st| | | | |] eqn:Em; cbn [bind] in H; try discriminate.
  destruct st as [r stg| |]; try discriminate.
  - destruct (debug_assert prof 50 _); cbn [bind] in H; try discriminate.
    destruct (advance_to after _ (lr_end r)) as [s2 i2]. injection H as <- <-. cbn [staged].
    eapply match_one_w; eauto.
  - apply IH in H; auto.
Qed.

Lemma lex_all_w buflen : forall fuel lx pts, lex_all prof fuel buflen lx = Ok pts -> wstg_ok (staged lx) ->
  Forall (fun pt => word_ok (pt_tok pt)) pts.
Proof.
  induction fuel as [|f IH]; intros lx pts H Hs; cbn [lex_all] in H; [discriminate|].
  destruct (lexer_next prof (S (length (rest lx))) lx) as [[[t lx']|]| | | | |] eqn:En; cbn [bind] in H; try discriminate.
  - destruct (post_state buflen lx') as [ln lc].
    destruct (lex_all prof f buflen lx') as [ts| | | | |] eqn:El; cbn [bind] in H; try discriminate.
    injection H as <-.
    assert (Ht : word_ok t /\ wstg_ok (staged lx')).
    { unfold lexer_next in En. destruct (staged lx) as [t2|] eqn:Est.
      - injection En as <- <-. cbn. split; [exact Hs|exact I].
      - eapply match_loop_w; eauto. rewrite Est. exact I. }
    constructor; [exact (proj1 Ht)|]. eapply IH; eauto. exact (proj2 Ht).
  - injection H as <-. constructor.
Qed.

(** ** no word token of a lexed source spells a keyword, in any letter case *)
Theorem lex_words_are_not_keywords src pts :
  lex prof src = Ok pts -> Forall (fun pt => tid (pt_tok pt) = TWord -> match_keyword (tspell (pt_tok pt)) = None) pts.
Proof. unfold lex. intro H. eapply lex_all_w; eauto. exact I. Qed.
End L.
