(** C16: the runner's traversal is a left-to-right fold over the flat event list, stopping at the
    first error.  Holds for every visitor whose outputs form a monoid under combine/default
    (the situation "fold the results left to right starting from the default" presupposes). *)
From Coq Require Import List ZArith NArith Bool Lia.
From RRSS Require Import Base.Outcome Base.Chars Base.F64 Exec.Ops Front.Ast Analysis.Visit Proofs.AstInd.
Import ListNotations.

Section WalkFold.
  Context {S O E : Type}.
  Variable combine : O -> O -> O.
  Variable default : O.
  Variable leaf : event -> S -> (S * (O + E)).
  Hypothesis assoc : forall a b c, combine (combine a b) c = combine a (combine b c).
  Hypothesis idl : forall a, combine default a = a.
  Hypothesis idr : forall a, combine a default = a.

  Notation wres := (S * (O + E))%type.
  Notation wbind := (@wbind S O E).

  (** the specification: feed the events to the callback one by one, combine left to right,
      stop at the first error and return it unchanged *)
  Fixpoint fold_k (evs : list event) (s : S) (acc : O) (K : S -> O -> wres) : wres :=
    match evs with
    | [] => K s acc
    | ev :: t => wbind (leaf ev s) (fun s' o => fold_k t s' (combine acc o) K)
    end.

  Definition fold_events (evs : list event) (s : S) : wres :=
    fold_k evs s default (fun s' o => (s', inl o)).

  Definition Spec (W : S -> wres) (evs : list event) : Prop :=
    forall s acc K, wbind (W s) (fun s' o => K s' (combine acc o)) = fold_k evs s acc K.

  Lemma wbind_assoc (m : wres) f g :
    wbind (wbind m f) g = wbind m (fun s o => wbind (f s o) g).
  Proof. destruct m as [s [o|e]]; reflexivity. Qed.

  Lemma wbind_ext (m : wres) f g : (forall s o, f s o = g s o) -> wbind m f = wbind m g.
  Proof. intro H. destruct m as [s [o|e]]; cbn; auto. Qed.

  Lemma fold_k_app e1 e2 s acc K :
    fold_k (e1 ++ e2) s acc K = fold_k e1 s acc (fun s' a => fold_k e2 s' a K).
  Proof.
    revert s acc. induction e1 as [|ev t IH]; intros s acc; cbn; auto.
    apply wbind_ext. intros. apply IH.
  Qed.

  Lemma spec_leaf ev : Spec (leaf ev) [ev].
  Proof. intros s acc K. reflexivity. Qed.

  Lemma spec_default : Spec (wleaf_default default) [].
  Proof. intros s acc K. cbn. rewrite idr. reflexivity. Qed.

  Lemma spec_combine2 W1 W2 e1 e2 :
    Spec W1 e1 -> Spec W2 e2 -> Spec (fun s => wcombine2 combine (W1 s) W2) (e1 ++ e2).
  Proof.
    intros H1 H2 s acc K. unfold wcombine2. rewrite wbind_assoc, fold_k_app.
    rewrite <- (H1 s acc (fun s' a => fold_k e2 s' a K)).
    apply wbind_ext. intros s1 o1. rewrite wbind_assoc. cbn [Visit.wbind].
    rewrite <- (H2 s1 (combine acc o1) K).
    apply wbind_ext. intros s2 o2. cbn. rewrite assoc. reflexivity.
  Qed.

  Lemma spec_ext W1 W2 evs : (forall s, W1 s = W2 s) -> Spec W1 evs -> Spec W2 evs.
  Proof. intros H H1 s acc K. rewrite <- H. apply H1. Qed.

  (** loops of the [combine_all] shape, with an accumulator *)
  Lemma spec_loop {A} (f : A -> S -> wres) (ev : A -> list event) (l : list A) :
    Forall (fun x => Spec (f x) (ev x)) l ->
    forall s a0 acc K,
      wbind (wall combine f l s a0) (fun s' o => K s' (combine acc o)) =
      fold_k (flat_map ev l) s (combine acc a0) K.
  Proof.
    induction 1 as [|x t Hx _ IH]; intros s a0 acc K; cbn; auto.
    rewrite wbind_assoc, fold_k_app. rewrite <- (Hx s (combine acc a0)).
    apply wbind_ext. intros s1 o1. rewrite IH. rewrite assoc. reflexivity.
  Qed.

  Lemma spec_wall {A} (f : A -> S -> wres) (ev : A -> list event) (l : list A) :
    Forall (fun x => Spec (f x) (ev x)) l ->
    Spec (fun s => wall combine f l s default) (flat_map ev l).
  Proof. intros H s acc K. rewrite (spec_loop f ev l H). rewrite idr. reflexivity. Qed.

  Lemma flat_map_go (l : list expr) :
    (fix go (l : list expr) : list event := match l with [] => [] | x :: t => events_expr x ++ go t end) l
    = flat_map events_expr l.
  Proof. induction l; cbn; auto. Qed.

  Lemma go_wall (l : list expr) s acc :
    (fix go (l : list expr) (s : S) (acc : O) : wres :=
       match l with
       | [] => (s, inl acc)
       | x :: t => wbind (walk_expr combine default leaf x s) (fun s' o => go t s' (combine acc o))
       end) l s acc = wall combine (walk_expr combine default leaf) l s acc.
  Proof. revert s acc. induction l as [|x t IH]; intros s acc; cbn; auto. apply wbind_ext. intros. apply IH. Qed.

  Lemma walk_ident_spec i r : Spec (walk_ident leaf i r) [ev_ident i r].
  Proof. apply spec_leaf. Qed.

  Lemma walk_varname_spec n r : Spec (walk_varname leaf n r) [ev_varname n r].
  Proof. apply spec_leaf. Qed.

  Lemma walk_primary_expr_spec :
    (forall p, Spec (walk_primary combine default leaf p) (events_primary p)) /\
    (forall e, Spec (walk_expr combine default leaf e) (events_expr e)).
  Proof.
    apply primary_expr_ind.
    - intros l r. apply spec_leaf.
    - intros i r. apply walk_ident_spec.
    - intros a s Ha Hs. cbn [walk_primary events_primary]. apply spec_combine2; auto.
    - intros n r args Hargs s acc K. cbn [walk_primary events_primary]. rewrite flat_map_go.
      rewrite wbind_assoc. change (ev_varname n r :: flat_map events_expr args) with ([ev_varname n r] ++ flat_map events_expr args).
      rewrite fold_k_app. rewrite <- (walk_varname_spec n r s acc).
      apply wbind_ext. intros s1 o1. rewrite go_wall. rewrite (spec_loop _ events_expr args Hargs).
      rewrite idl. reflexivity.
    - intros a Ha. exact Ha.
    - intros p Hp. exact Hp.
    - intros o l f rest Hl Hf Hrest. cbn [walk_expr events_expr]. rewrite flat_map_go.
      rewrite app_assoc.
      apply spec_combine2.
      + apply spec_combine2; auto. apply spec_leaf.
      + intros s acc K. rewrite wbind_assoc. rewrite fold_k_app. rewrite <- (Hf s acc).
        apply wbind_ext. intros s1 o1. rewrite go_wall. rewrite (spec_loop _ events_expr rest Hrest).
        rewrite idl. reflexivity.
    - intros o x Hx. cbn [walk_expr events_expr].
      change (EvUnOp o :: events_expr x) with ([EvUnOp o] ++ events_expr x).
      apply spec_combine2; auto. apply spec_leaf.
  Qed.

  Definition walk_primary_spec := proj1 walk_primary_expr_spec.
  Definition walk_expr_spec := proj2 walk_primary_expr_spec.

  Lemma walk_exprs_spec l : Spec (walk_exprs combine default leaf l) (events_exprs l).
  Proof.
    unfold walk_exprs, events_exprs. apply spec_wall. apply Forall_forall. intros x _. apply walk_expr_spec.
  Qed.

  Lemma walk_lhs_spec l : Spec (walk_lhs combine default leaf l) (events_lhs l).
  Proof.
    destruct l as [i r|a s]; cbn [walk_lhs events_lhs].
    - apply walk_ident_spec.
    - apply spec_combine2; apply walk_primary_spec.
  Qed.

  Lemma walk_pelems_spec l : Spec (walk_pelems combine default leaf l) (events_pelems l).
  Proof.
    unfold walk_pelems, events_pelems.
    replace (map EvPoeticElem l) with (flat_map (fun e => [EvPoeticElem e]) l) by (induction l; cbn; congruence).
    apply spec_wall. apply Forall_forall. intros x _. apply spec_leaf.
  Qed.

  Lemma walk_opt_spec {A} (f : A -> S -> wres) (ev : A -> list event) (o : option A) :
    (forall x, Spec (f x) (ev x)) -> Spec (walk_opt default f o) (events_opt ev o).
  Proof. intro H. destruct o; cbn; [apply H|apply spec_default]. Qed.

  Lemma stmts_go (ss : list stmt) :
    (fix go (l : list stmt) : list event := match l with [] => [] | x :: t => events_stmt x ++ go t end) ss
    = flat_map events_stmt ss.
  Proof. induction ss; cbn; auto. Qed.

  Lemma stmts_wall (ss : list stmt) s acc :
    (fix go (l : list stmt) (s : S) (acc : O) : wres :=
       match l with
       | [] => (s, inl acc)
       | x :: t => wbind (walk_stmt combine default leaf x s) (fun s' o => go t s' (combine acc o))
       end) ss s acc = wall combine (walk_stmt combine default leaf) ss s acc.
  Proof. revert s acc. induction ss as [|x t IH]; intros s acc; cbn; auto. apply wbind_ext. intros. apply IH. Qed.

  Lemma walk_stmt_block_spec :
    (forall st, Spec (walk_stmt combine default leaf st) (events_stmt st)) /\
    (forall b, Spec (walk_block combine default leaf b) (events_block b)).
  Proof.
    apply stmt_block_ind.
    - intros d f rest op. cbn [walk_stmt events_stmt]. rewrite app_assoc.
      apply spec_combine2; [apply spec_combine2|].
      + apply walk_lhs_spec.
      + apply (walk_opt_spec (fun o => leaf (EvBinOp o)) (fun o => [EvBinOp o])). intro. apply spec_leaf.
      + apply walk_exprs_spec.
    - intros d [e|el]; cbn [walk_stmt events_stmt]; apply spec_combine2;
        auto using walk_lhs_spec, walk_expr_spec, walk_pelems_spec.
    - intros d s. apply walk_lhs_spec.
    - intros c t e Ht He. cbn [walk_stmt events_stmt]. rewrite app_assoc.
      apply spec_combine2; [apply spec_combine2; auto using walk_expr_spec|].
      destruct e as [b|]; cbn; [apply (He b eq_refl)|apply spec_default].
    - intros c b Hb. cbn [walk_stmt events_stmt]. apply spec_combine2; auto using walk_expr_spec.
    - intros c b Hb. cbn [walk_stmt events_stmt]. apply spec_combine2; auto using walk_expr_spec.
    - intros. apply walk_ident_spec.
    - intros. apply walk_ident_spec.
    - intros d l. cbn [walk_stmt events_stmt]. apply walk_opt_spec. apply walk_lhs_spec.
    - intros. apply walk_expr_spec.
    - intros o p d x. cbn [walk_stmt events_stmt]. rewrite app_assoc.
      apply spec_combine2; [apply spec_combine2|].
      + change (events_primary p) with ([] ++ events_primary p).
        apply spec_combine2; [apply spec_default|apply walk_primary_spec].
      + apply walk_opt_spec. apply walk_lhs_spec.
      + apply walk_opt_spec. apply walk_expr_spec.
    - intros d e. cbn [walk_stmt events_stmt]. change (events_expr e) with ([] ++ events_expr e).
      apply spec_combine2; [apply spec_default|apply walk_expr_spec].
    - intros. apply spec_default.
    - intros. apply spec_default.
    - intros a v. cbn [walk_stmt]. destruct v as [[f rest|el]|]; cbn [events_stmt].
      + apply spec_combine2; [apply walk_primary_spec|apply walk_exprs_spec].
      + apply spec_combine2; [apply walk_primary_spec|apply walk_pelems_spec].
      + rewrite <- (app_nil_r (events_primary a)).
        apply spec_combine2; [apply walk_primary_spec|apply spec_default].
    - intros a d. cbn [walk_stmt events_stmt]. apply spec_combine2; [apply walk_primary_spec|].
      apply walk_opt_spec. apply walk_lhs_spec.
    - intros. apply walk_expr_spec.
    - intros n r ps b Hb. cbn [walk_stmt events_stmt].
      change (ev_varname n r :: map (fun p => ev_varname (fst p) (snd p)) ps ++ events_block b)
        with ([ev_varname n r] ++ (map (fun p => ev_varname (fst p) (snd p)) ps ++ events_block b)).
      apply spec_combine2; [apply walk_varname_spec|].
      apply spec_combine2; auto.
      replace (map (fun p => ev_varname (fst p) (snd p)) ps)
        with (flat_map (fun p : varname * range => [ev_varname (fst p) (snd p)]) ps) by (induction ps; cbn; congruence).
      apply spec_wall. apply Forall_forall. intros x _. apply walk_varname_spec.
    - intros n r args s acc K. cbn [walk_stmt events_stmt].
      rewrite wbind_assoc. change (ev_varname n r :: events_exprs args) with ([ev_varname n r] ++ events_exprs args).
      rewrite fold_k_app. rewrite <- (walk_varname_spec n r s acc).
      apply wbind_ext. intros s1 o1.
      rewrite (spec_loop _ events_expr args). { rewrite idl. reflexivity. }
      apply Forall_forall. intros x _. apply walk_expr_spec.
    - intros l. apply spec_default.
    - intros ss Hss s acc K. cbn [walk_block events_block]. rewrite stmts_go, stmts_wall.
      rewrite (spec_loop _ events_stmt ss Hss). rewrite idr. reflexivity.
  Qed.

  Lemma wbind_ret (m : wres) : wbind m (fun s o => (s, inl o)) = m.
  Proof. destruct m as [s [o|e]]; reflexivity. Qed.

  (** the walk of a whole program is the fold over its flat event list *)
  Theorem walk_program_is_fold p s :
    walk_program combine default leaf p s = fold_events (events_program p) s.
  Proof.
    unfold fold_events, walk_program, events_program.
    assert (H : Spec (fun s => wall combine (walk_block combine default leaf) p s default) (flat_map events_block p)).
    { apply spec_wall. apply Forall_forall. intros b _. apply (proj2 walk_stmt_block_spec). }
    rewrite <- (H s default (fun s' o => (s', inl o))).
    rewrite <- (wbind_ret (wall combine (walk_block combine default leaf) p s default)) at 1.
    apply wbind_ext. intros. rewrite idl. reflexivity.
  Qed.

  (** consequences in the property's words: an error ends the walk and is returned unchanged *)
  Lemma fold_k_error ev t s acc K s' e :
    leaf ev s = (s', inr e) -> fold_k (ev :: t) s acc K = (s', inr e).
  Proof. intro H. cbn. rewrite H. reflexivity. Qed.
End WalkFold.
