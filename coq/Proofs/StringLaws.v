(** C07: split and join are inverse; kind errors of the mutations. *)
From Coq Require Import List ZArith NArith Bool Lia.
From RRSS Require Import Base.Outcome Base.Chars Base.F64 Base.F64Text Exec.Val.
Import ListNotations.

Lemma strip_prefix_app p s r : strip_prefix p s = Some r -> s = p ++ r.
Proof.
  revert s. induction p as [|x p IH]; intros s H; cbn in *.
  - inversion H; auto.
  - destruct s as [|y s]; try discriminate. destruct (x =? y)%N eqn:E; try discriminate.
    apply N.eqb_eq in E. subst. f_equal. apply IH; auto.
Qed.

Lemma split_on_nonempty fuel d s cur : split_on fuel d s cur <> [].
Proof.
  destruct fuel; cbn; [discriminate|]. destruct s; [discriminate|].
  destruct (strip_prefix d (c :: s)); [discriminate|].
  destruct fuel; cbn; [discriminate|]. destruct s; [discriminate|].
  destruct (strip_prefix d (c0 :: s)); discriminate || idtac.
  clear. generalize (c0 :: c :: cur). revert s. induction fuel; intros; cbn; [discriminate|].
  destruct s; [discriminate|]. destruct (strip_prefix d (c1 :: s)); [discriminate|]. apply IHfuel.
Qed.

Lemma str_join_cons d x l : l <> [] -> str_join d (x :: l) = x ++ d ++ str_join d l.
Proof. destruct l; [contradiction|reflexivity]. Qed.

(** joining the pieces with the delimiter gives back the text (plus what was accumulated) *)
Lemma split_on_join d : d <> [] ->
  forall fuel s cur, (length s < fuel)%nat -> str_join d (split_on fuel d s cur) = rev cur ++ s.
Proof.
  intros Hd. induction fuel as [|f IH]; intros s cur Hf; [lia|].
  cbn [split_on]. destruct s as [|c t].
  - cbn. rewrite app_nil_r. reflexivity.
  - destruct (strip_prefix d (c :: t)) as [rest|] eqn:E.
    + apply strip_prefix_app in E.
      rewrite str_join_cons by apply split_on_nonempty.
      rewrite IH.
      * cbn [rev app]. rewrite E. reflexivity.
      * assert (length (c :: t) = length d + length rest)%nat by (rewrite E, app_length; auto).
        destruct d; [contradiction|]. cbn in *. lia.
    + rewrite IH by (cbn in Hf; lia). cbn [rev]. rewrite <- app_assoc. reflexivity.
Qed.

Theorem str_join_split s d : d <> [] -> str_join d (str_split s d) = s.
Proof. intro H. unfold str_split. rewrite split_on_join; auto. Qed.

Lemma str_join_chars (s : str) : str_join [] (map (fun c => [c]) s) = s.
Proof.
  induction s as [|c t IH]; cbn; auto. destruct t as [|c2 t2]; cbn in *; auto. rewrite IH. reflexivity.
Qed.

Lemma first_non_string_strs l : first_non_string (map VStr l) = None.
Proof. induction l; cbn; auto. Qed.

Lemma map_str_of_val l : map str_of_val (map VStr l) = l.
Proof. induction l; cbn; congruence. Qed.

Lemma v_join_strs l (d : option str) :
  l <> [] ->
  v_join (VArr (map VStr l) []) (option_map VStr d) =
  Ok (VStr (str_join (match d with Some x => x | None => [] end) l)).
Proof.
  intro Hne. destruct l as [|p ps]; [contradiction|].
  assert (Hv : val_iter (map VStr (p :: ps)) [] = map VStr (p :: ps)).
  { unfold val_iter. cbn [dict_sorted isort map]. apply app_nil_r. }
  destruct d as [d|]; cbn [option_map v_join map bind]; cbn [map] in Hv; rewrite Hv;
    change (VStr p :: map VStr ps) with (map VStr (p :: ps));
    rewrite first_non_string_strs, map_str_of_val; reflexivity.
Qed.

(** cutting a string (into characters or at a delimiter) and joining the pieces with the same
    delimiter restores the string — for every string and every delimiter *)
Theorem join_split_roundtrip s (d : option str) :
  (let* a := v_split (VStr s) (option_map VStr d) in v_join a (option_map VStr d)) = Ok (VStr s).
Proof.
  destruct s as [|c t].
  - destruct d; reflexivity.
  - assert (Hchars : forall dd, (dd = None \/ dd = Some []) ->
              v_split (VStr (c :: t)) (option_map VStr dd) = Ok (VArr (map VStr (map (fun x => [x]) (c :: t))) [])).
    { intros dd [->| ->]; cbn [option_map v_split bind]; rewrite map_map; reflexivity. }
    destruct d as [[|dc dt]|].
    + rewrite Hchars by auto. cbn [bind]. rewrite v_join_strs by discriminate. rewrite str_join_chars. reflexivity.
    + cbn [option_map v_split bind].
      pose proof (split_on_nonempty (S (length (c :: t))) (dc :: dt) (c :: t) []) as Hne.
      change (Some (VStr (dc :: dt))) with (option_map VStr (Some (dc :: dt))).
      rewrite (v_join_strs (str_split (c :: t) (dc :: dt)) (Some (dc :: dt)) Hne).
      rewrite str_join_split by discriminate. reflexivity.
    + rewrite Hchars by auto. cbn [bind]. rewrite (v_join_strs _ None) by discriminate. rewrite str_join_chars. reflexivity.
Qed.

(** operands or parameters of the wrong kind are errors, never values *)
Theorem split_wrong_kind v d : is_str v = false -> v_split v d = Err (InvalidOperationForType (lit "split") v).
Proof. destruct v; cbn; intro H; try discriminate; reflexivity. Qed.

Theorem join_wrong_kind v d : is_arr v = false -> v_join v d = Err (InvalidOperationForType (lit "join") v).
Proof. destruct v; cbn; intro H; try discriminate; reflexivity. Qed.

Theorem cast_wrong_kind v p :
  match v with VNum _ | VStr _ => False | _ => True end ->
  v_cast v p = Err (InvalidOperationForType (lit "cast") v).
Proof. destruct v; cbn; intro H; try contradiction; reflexivity. Qed.

Theorem round_wrong_kind v :
  match v with VNum _ => False | _ => True end ->
  v_round_up v = Err (InvalidOperationForType (lit "round up") v) /\
  v_round_down v = Err (InvalidOperationForType (lit "round down") v) /\
  v_round_nearest v = Err (InvalidOperationForType (lit "round nearest") v).
Proof. destruct v; cbn; intro H; try contradiction; repeat split; reflexivity. Qed.

Theorem split_bad_delimiter s d :
  is_str d = false -> v_split (VStr s) (Some d) = Err (InvalidSplitDelimiter d).
Proof. destruct s; destruct d; cbn; intro H; try discriminate; reflexivity. Qed.

Theorem join_bad_element a dct d bad :
  (a <> [] \/ dct <> []) -> first_non_string (val_iter a dct) = Some bad ->
  v_join (VArr a dct) (Some (VStr d)) = Err (InvalidArrayElementForJoin bad).
Proof.
  intros Hne H. destruct a as [|x a]; [destruct dct as [|kv dct]; [destruct Hne; contradiction|]|];
    cbn [v_join bind]; rewrite H; reflexivity.
Qed.

(** a radix outside 2..36, a non-integral or non-numeric radix: always the radix error *)
Theorem cast_bad_radix s p :
  match try_to_integer p with
  | Some r => (r <? 2)%Z || (36 <? r)%Z = true
  | None => True
  end ->
  v_cast (VStr s) (Some (VNum p)) = Err (InvalidStringToIntegerRadix (VNum p)).
Proof.
  cbn [v_cast]. destruct (try_to_integer p) as [r|]; auto. intro H.
  destruct ((0 <=? r)%Z && (r <=? u32_max)%Z); auto.
  destruct ((2 <=? r)%Z && (r <=? 36)%Z) eqn:E; auto.
  apply andb_true_iff in E as [E1 E2]. apply orb_true_iff in H as [H|H]; lia.
Qed.

(** a code point must be a Unicode scalar value *)
Theorem cast_codepoint n i :
  try_to_integer n = Some i ->
  v_cast (VNum n) None =
  if ((0 <=? i)%Z && (i <=? u32_max)%Z) && is_scalar_value (Z.to_N i)
  then Ok (VStr [Z.to_N i]) else Err (ConvertingNumberToCharacterFailed n).
Proof. intro H. cbn [v_cast]. rewrite H. reflexivity. Qed.
