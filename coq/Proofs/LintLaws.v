(** C19 / C18: ordering of lint reports, the repeated-identifier specification. *)
From Coq Require Import List ZArith NArith Bool Lia Sorting.Permutation Sorting.Sorted.
From RRSS Require Import Base.Outcome Base.Chars Base.F64 Exec.Val Exec.Ops Front.Ast Exec.Env Exec.Interp Exec.RtErrorText.
From RRSS Require Import Analysis.Visit Analysis.Fold Lint.Lint.
Import ListNotations.
Open Scope N_scope.

(** * postprocess: sorted by line, a permutation, and stable *)

Definition line_le (a b : diag) : Prop := d_line a <= d_line b.

Lemma insert_diag_perm d l : Permutation (d :: l) (insert_diag d l).
Proof.
  induction l as [|x t IH]; cbn; auto.
  destruct (d_line d <=? d_line x); auto.
  eapply perm_trans; [apply perm_swap|]. constructor. exact IH.
Qed.

Theorem sort_diags_perm l : Permutation l (sort_diags l).
Proof.
  induction l as [|x t IH]; cbn; auto.
  eapply perm_trans; [|apply insert_diag_perm]. constructor. exact IH.
Qed.

Lemma insert_diag_sorted d l : StronglySorted line_le l -> StronglySorted line_le (insert_diag d l).
Proof.
  induction l as [|x t IH]; intro H; cbn.
  - repeat constructor.
  - destruct (d_line d <=? d_line x) eqn:E.
    + apply N.leb_le in E. constructor; auto. constructor; auto.
      inversion H as [|? ? Hs Hf]; subst. rewrite Forall_forall in *. intros y Hy.
      unfold line_le in *. specialize (Hf y Hy). lia.
    + apply N.leb_gt in E. inversion H as [|? ? Hs Hf]; subst. constructor; auto.
      rewrite Forall_forall in *. intros y Hy.
      apply (Permutation_in _ (Permutation_sym (insert_diag_perm d t))) in Hy.
      destruct Hy as [<-|Hy]; [unfold line_le; lia|auto].
Qed.

Theorem sort_diags_sorted l : StronglySorted line_le (sort_diags l).
Proof.
  induction l as [|x t IH]; cbn; [constructor|]. apply insert_diag_sorted; auto.
Qed.

(** stability: the reports of any one line keep their original relative order *)
Definition on_line (n : N) (d : diag) : bool := d_line d =? n.

Lemma insert_diag_filter n d l :
  StronglySorted line_le l ->
  filter (on_line n) (insert_diag d l) = filter (on_line n) (d :: l).
Proof.
  induction l as [|x t IH]; intro H; cbn [insert_diag]; auto.
  destruct (d_line d <=? d_line x) eqn:E; auto.
  apply N.leb_gt in E. inversion H as [|? ? Hs Hf]; subst.
  cbn [filter]. rewrite (IH Hs). cbn [filter].
  unfold on_line. destruct (d_line x =? n) eqn:Ex; destruct (d_line d =? n) eqn:Ed; auto.
  apply N.eqb_eq in Ex, Ed. lia.
Qed.

Theorem sort_diags_stable n l : filter (on_line n) (sort_diags l) = filter (on_line n) l.
Proof.
  induction l as [|x t IH]; cbn [sort_diags fold_right]; auto.
  rewrite insert_diag_filter by apply sort_diags_sorted.
  cbn [filter]. fold (sort_diags t). rewrite IH. reflexivity.
Qed.

(** * The repeated-identifier pass *)

Definition mention_name (m : mention) : varname :=
  match m with MVar n _ | MCallee n _ => n end.

(** what is reported at a mention, given the name of the previous mention *)
Definition report_at (prev : option varname) (m : mention) : list diag :=
  match m, prev with
  | MVar n r, Some l => if varname_eqb l n then [missed_diag n r] else []
  | _, _ => []
  end.

Fixpoint missed_spec (prev : option varname) (ms : list mention) : list diag :=
  match ms with
  | [] => []
  | m :: t => report_at prev m ++ missed_spec (Some (mention_name m)) t
  end.

Lemma strs_eqb_eq a b : strs_eqb a b = true -> a = b.
Proof.
  revert b; induction a as [|x a IH]; destruct b as [|y b]; cbn; intro H; try discriminate; auto.
  apply andb_true_iff in H as [H1 H2]. apply str_eqb_eq in H1. apply IH in H2. congruence.
Qed.

Lemma varname_eqb_eq a b : varname_eqb a b = true -> a = b.
Proof.
  destruct a, b; cbn; intro H; try discriminate.
  - apply str_eqb_eq in H. congruence.
  - apply andb_true_iff in H as [H1 H2]. apply str_eqb_eq in H1, H2. congruence.
  - apply strs_eqb_eq in H. congruence.
Qed.

(** the pass reports mention i exactly when it is a variable mention (not a callee) spelling
    the same name as mention i-1, at that mention's line *)
Theorem missed_run_spec ms last : missed_run ms last = missed_spec last ms.
Proof.
  revert last. induction ms as [|m t IH]; intro last; cbn; auto.
  destruct m as [n r|n r]; cbn.
  - destruct last as [l|]; cbn.
    + destruct (varname_eqb l n) eqn:E; cbn.
      * apply varname_eqb_eq in E. subst. rewrite IH. reflexivity.
      * apply IH.
    + apply IH.
  - apply IH.
Qed.

(** the diagnostics of a run: both passes, ordered by line, ties in pass order *)
Theorem lint_sorted p ds : lint p = Ok ds -> StronglySorted line_le ds.
Proof.
  unfold lint. destruct (boring_program p); cbn; intro H; inversion H; subst. apply sort_diags_sorted.
Qed.

Theorem lint_complete_stable p ds a :
  lint p = Ok ds -> boring_program p = Ok a ->
  Permutation (a ++ missed_program p) ds /\
  forall n, filter (on_line n) ds = filter (on_line n) a ++ filter (on_line n) (missed_program p).
Proof.
  unfold lint. intros H Ha. rewrite Ha in H. cbn in H. inversion H; subst. split.
  - apply sort_diags_perm.
  - intro n. rewrite sort_diags_stable. apply filter_app.
Qed.
