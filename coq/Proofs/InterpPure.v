(** The frame of reading: evaluating an expression that contains no function call and no `roll`
    changes nothing a program can observe later except which variable `it` refers to — no
    variable, no scope, no channel, no budget.  (Used by C07: a mutation `into` a destination
    only *reads* its operand; by C03/C14: operands of an operator can be evaluated in any order
    when they are call-free.) *)
From Coq Require Import List ZArith NArith Bool Lia.
From RRSS Require Import Base.Outcome Base.Chars Base.F64 Exec.Val Exec.Ops Front.Ast Exec.Env Exec.Interp.
Import ListNotations.

Fixpoint pure_primary (p : primary) : bool :=
  match p with
  | PLit _ _ | PIdent _ _ => true
  | PSubscript a s => pure_primary a && pure_primary s
  | PCall _ _ _ | PPop _ => false
  end.

Fixpoint pure_expr (x : expr) : bool :=
  match x with
  | EPrimary p => pure_primary p
  | EBinary _ l f rest => pure_expr l && pure_expr f && forallb pure_expr rest
  | EUnary _ a => pure_expr a
  end.

(** everything but [last_access] *)
Definition same_vars (e e' : env) : Prop :=
  scopes e' = scopes e /\ chan e' = chan e /\ steps e' = steps e /\ depth e' = depth e.

Lemma same_refl e : same_vars e e.
Proof. repeat split. Qed.
Lemma same_trans e1 e2 e3 : same_vars e1 e2 -> same_vars e2 e3 -> same_vars e1 e3.
Proof. intros (A & B & C & D) (A' & B' & C' & D'). repeat split; congruence. Qed.

Definition PInv {A} (e : env) (r : xres A) : Prop :=
  match r with
  | XOk _ e' | XErr _ e' => same_vars e e'
  | _ => True
  end.

Lemma PInv_bind {A B} e (m : xres A) (k : A -> env -> xres B) :
  PInv e m -> (forall a e1, same_vars e e1 -> PInv e1 (k a e1)) -> PInv e (xbind m k).
Proof.
  intros Hm Hk. destruct m as [a e1|x e1| | | |]; cbn in *; auto.
  specialize (Hk a e1 Hm). destruct (k a e1); cbn in *; auto; eapply same_trans; eauto.
Qed.

Lemma PInv_lift {E A} inj (r : res E A) e : PInv e (lift_res inj r e).
Proof. destruct r; cbn; auto; apply same_refl. Qed.

Lemma PInv_lookup n e : PInv e (lookup_var_x n e).
Proof.
  unfold lookup_var_x, env_lookup_var.
  destruct (map_err SymTableError (find_var n (scopes e))); cbn; auto; repeat split.
Qed.

Section Pure.
Variable prof : profile.

Record PP (f : nat) : Prop := mkPP {
  pp_expr : forall x e, pure_expr x = true -> PInv e (produce_expr prof f x e);
  pp_primary : forall p e, pure_primary p = true -> PInv e (produce_primary prof f p e);
  pp_fold : forall op acc l e, forallb pure_expr l = true -> PInv e (fold_rhs prof f op acc l e)
}.

Lemma PP_0 : PP 0.
Proof. constructor; intros; exact I. Qed.

Lemma PP_S f : PP f -> PP (S f).
Proof.
  intros [He Hp Hf]. constructor.
  - intros x e Hx. destruct x as [p|op l first rest|op a]; simpl in *.
    + apply Hp; auto.
    + apply andb_true_iff in Hx as [Hx Hr]. apply andb_true_iff in Hx as [Hl Hfi].
      eapply PInv_bind; [apply He; auto|]. intros lv e1 S1. apply Hf. cbn. rewrite Hfi, Hr. reflexivity.
    + eapply PInv_bind; [apply He; auto|]. intros v e1 S1. apply PInv_lift.
  - intros p e Hp'. destruct p as [l r|i r|a s|name r args|a]; simpl in *; try discriminate.
    + apply same_refl.
    + destruct i; simpl; [apply PInv_lookup|apply PInv_lift].
    + apply andb_true_iff in Hp' as [Ha Hs].
      eapply PInv_bind; [apply Hp; auto|]. intros av e1 S1.
      eapply PInv_bind; [apply Hp; auto|]. intros sv e2 S2. apply PInv_lift.
  - intros op acc l e Hl. destruct l as [|x t]; simpl in *.
    + apply same_refl.
    + apply andb_true_iff in Hl as [Hx Ht]. destruct (needs_rhs op acc).
      * eapply PInv_bind; [apply He; auto|]. intros bv e1 S1.
        eapply PInv_bind; [apply PInv_lift|]. intros r e2 S2. apply Hf; auto.
      * apply Hf; auto.
Qed.

Theorem PP_all f : PP f.
Proof. induction f; [apply PP_0|apply PP_S; auto]. Qed.

(** ** reading changes no variable *)
Theorem pure_expr_frame f x e v e' :
  pure_expr x = true -> produce_expr prof f x e = XOk v e' ->
  scopes e' = scopes e /\ chan e' = chan e /\ steps e' = steps e /\ depth e' = depth e.
Proof. intros Hx H. pose proof (pp_expr f (PP_all f) x e Hx) as G. rewrite H in G. exact G. Qed.

Theorem pure_expr_frame_err f x e err e' :
  pure_expr x = true -> produce_expr prof f x e = XErr err e' ->
  scopes e' = scopes e /\ chan e' = chan e /\ steps e' = steps e /\ depth e' = depth e.
Proof. intros Hx H. pose proof (pp_expr f (PP_all f) x e Hx) as G. rewrite H in G. exact G. Qed.

Theorem pure_primary_frame f p e v e' :
  pure_primary p = true -> produce_primary prof f p e = XOk v e' ->
  scopes e' = scopes e /\ chan e' = chan e /\ steps e' = steps e /\ depth e' = depth e.
Proof. intros Hx H. pose proof (pp_primary f (PP_all f) p e Hx) as G. rewrite H in G. exact G. Qed.
End Pure.

(** * The frame of writing: a call-free statement changes only the variables it names as targets *)
From RRSS Require Import Front.Poetic Proofs.ArrayLaws.

Definition other (n m : varname) : bool := negb (varname_eqb (lower_name n) (lower_name m)).

(** [p] is a write target rooted at a variable other than [n], with call-free subscripts *)
Fixpoint tgt_ok (n : varname) (p : primary) : bool :=
  match p with
  | PIdent (IVar m) _ => other n m
  | PSubscript a s => tgt_ok n a && pure_primary s
  | _ => false
  end.

Lemma tgt_ok_pure n p : tgt_ok n p = true -> pure_primary p = true.
Proof.
  induction p as [| i r | a IHa s IHs | |]; cbn; try discriminate; auto.
  intro H. apply andb_true_iff in H as [Ha Hs]. rewrite (IHa Ha), Hs. reflexivity.
Qed.

Definition FInv {A} (n : varname) (e : env) (r : xres A) : Prop :=
  match r with
  | XOk _ e' | XErr _ e' => find_var n (scopes e') = find_var n (scopes e)
  | _ => True
  end.

Lemma FInv_bind {A B} n e (m : xres A) (k : A -> env -> xres B) :
  FInv n e m -> (forall a e1, FInv n e1 (k a e1)) -> FInv n e (xbind m k).
Proof.
  intros Hm Hk. destruct m as [a e1|x e1| | | |]; cbn in *; auto.
  specialize (Hk a e1). destruct (k a e1); cbn in *; auto; congruence.
Qed.

Lemma P_F {A} n e (r : xres A) : PInv e r -> FInv n e r.
Proof. destruct r; cbn; auto; intros (H & _); rewrite H; reflexivity. Qed.

Lemma FInv_settle n e r : FInv n e r -> FInv n e (settle r).
Proof. destruct r as [[b|x] e1| | | | |]; cbn; auto. Qed.

Lemma FInv_absorb {A} n e (r : xres A) k :
  FInv n e r -> (forall a e1, FInv n e1 (k a e1)) -> FInv n e (absorb r k).
Proof.
  intros Hr Hk. destruct r as [a e1|x e1| | | |]; cbn in *; auto.
  specialize (Hk a e1). destruct (k a e1); cbn in *; auto; congruence.
Qed.

Lemma tab_get_app_other k k2 x t : varname_eqb k2 k = false -> tab_get k2 (t ++ [(k, x)]) = tab_get k2 t.
Proof.
  intro H. induction t as [|[k' e'] r IH]; cbn.
  - rewrite H. reflexivity.
  - destruct (varname_eqb k2 k'); auto.
Qed.

Lemma find_var_emplace_other n m x t t' r :
  other n m = true -> tab_emplace m x t = Ok t' -> find_var n (t' :: r) = find_var n (t :: r).
Proof.
  unfold other, tab_emplace. intros H E. apply negb_true_iff in H.
  destruct (tab_get (lower_name m) t); [discriminate|]. injection E as <-.
  cbn [find_var]. unfold tab_lookup_var. rewrite tab_get_app_other by exact H. reflexivity.
Qed.

Lemma store_frame n m v ss : other n m = true -> find_var n (store_var m v ss) = find_var n ss.
Proof. intro H. apply store_other_variable_unchanged. apply negb_true_iff. exact H. Qed.

Lemma update_result_frame n m w keys cur e1 :
  other n m = true ->
  FInv n e1
    match update_path cur keys w with
    | Ok (nv, back) => XOk (IOk back) (env_store m nv e1)
    | Err x => XOk (IErr (RVal x)) e1
    | Panic s => XPanic s | UB s => XUB s | OutOfFuel => XOutOfFuel | OverBudget => XOverBudget
    end.
Proof.
  intro H. destruct (update_path cur keys w) as [[nv back]| | | | |]; cbn; auto.
  apply store_frame; auto.
Qed.

Lemma write_var_frame n m w keys e : other n m = true -> FInv n e (write_var w keys m e).
Proof.
  intro H. unfold write_var, env_lookup_var. cbn [fst snd].
  set (e1 := mkEnvB e (scopes e) (Some m) (chan e)).
  assert (Hnone : FInv n e
      match env_create_var m e1 with
      | Ok e2 =>
          match update_path VUndef keys w with
          | Ok (nv, back) => XOk (IOk back) (env_store m nv e2)
          | Err x => XOk (IErr (RVal x)) e2
          | Panic s => XPanic s | UB s => XUB s | OutOfFuel => XOutOfFuel | OverBudget => XOverBudget
          end
      | Err x => XOk (IErr (REnv x)) e1
      | Panic s => XPanic s | UB s => XUB s | OutOfFuel => XOutOfFuel | OverBudget => XOverBudget
      end).
  { unfold env_create_var. change (scopes e1) with (scopes e). destruct (scopes e) as [|t r] eqn:Es; [exact I|].
    destruct (tab_emplace m (EVar VUndef) t) as [t'| | | | |] eqn:Et; try exact I.
    - destruct (update_path VUndef keys w) as [[nv back]| | | | |]; try exact I; unfold FInv.
      + change (find_var n (store_var m nv (t' :: r)) = find_var n (scopes e)).
        rewrite store_frame by exact H. rewrite Es. eapply find_var_emplace_other; eauto.
      + change (find_var n (t' :: r) = find_var n (scopes e)).
        rewrite Es. eapply find_var_emplace_other; eauto.
    - unfold FInv. change (find_var n (t :: r) = find_var n (scopes e)). rewrite Es. reflexivity. }
  destruct (find_var m (scopes e)) as [v| | | | |]; cbn [map_err]; try exact Hnone.
  apply (update_result_frame n m w keys v e1 H).
Qed.

Section Frame.
Variable prof : profile.
Variable n : varname.

Record WF (f : nat) : Prop := mkWF {
  wf_primary : forall w p e, tgt_ok n p = true -> FInv n e (write_primary prof f w p e);
  wf_sub : forall w a s keys e, tgt_ok n a = true -> pure_primary s = true ->
           FInv n e (write_subscript prof f w a s keys e)
}.

Lemma WF_all f : WF f.
Proof.
  induction f as [|f [Hp Hs]]; [constructor; intros; exact I|].
  constructor.
  - intros w p e Hp'. destruct p as [l r|i r|a s|name r args|a]; simpl in *; try discriminate.
    + destruct i as [m|]; [|discriminate]. apply write_var_frame; auto.
    + apply andb_true_iff in Hp' as [Ha Hs']. apply Hs; auto.
  - intros w a s keys e Ha Hs'. simpl.
    apply FInv_absorb; [apply P_F; apply (pp_primary prof f (PP_all prof f)); auto|].
    intros sv e1. destruct a as [l r|i r|a2 s2|name r args|a2]; simpl in *; try discriminate.
    + destruct i as [m|]; [|discriminate]. apply write_var_frame; auto.
    + apply andb_true_iff in Ha as [Ha2 Hs2]. apply Hs; auto.
Qed.

Lemma produce_args_pure f : forall l e, forallb pure_expr l = true -> PInv e (produce_args prof f l e).
Proof.
  induction f as [|f IH]; intros l e Hl; [exact I|]. destruct l as [|x t]; simpl in *; [apply same_refl|].
  apply andb_true_iff in Hl as [Hx Ht].
  eapply PInv_bind; [apply (pp_expr prof f (PP_all prof f)); auto|]. intros v e1 S1.
  eapply PInv_bind; [apply IH; auto|]. intros vs e2 S2. apply same_refl.
Qed.

Definition lhs_ok (d : lhs) : bool := tgt_ok n (lhs_as_primary d).

(** call-free, and every target is rooted at a variable other than [n] *)
Definition frame_ok (s : stmt) : bool :=
  match s with
  | SAssign d first rest _ => lhs_ok d && pure_expr first && forallb pure_expr rest
  | SPoeticNum d rhs => lhs_ok d && match rhs with PNExpr x => pure_expr x | PNLit _ => true end
  | SPoeticStr d _ => lhs_ok d
  | SInc (IVar m) _ _ | SDec (IVar m) _ _ => other n m
  | SInput dest _ => match dest with Some d => lhs_ok d | None => true end
  | SOutput x => pure_expr x
  | SMutation _ operand dest param =>
      match param with Some px => pure_expr px | None => true end &&
      match dest with Some d => pure_primary operand && lhs_ok d | None => tgt_ok n operand end
  | SRounding _ (EPrimary p) => tgt_ok n p
  | SContinue _ | SBreak _ => true
  | SPush arr value =>
      tgt_ok n arr && match value with Some (PushList first rest) => forallb pure_expr (first :: rest) | _ => true end
  | SPop arr dest => tgt_ok n arr && match dest with Some d => lhs_ok d | None => true end
  | SReturn x => pure_expr x
  | SFunction name _ _ _ => other n name
  | _ => false
  end.

Lemma tick_frame e e' : tick e = Some e' -> scopes e' = scopes e.
Proof. unfold tick. destruct (steps e =? 0)%N; [discriminate|]. intro H. injection H as <-. reflexivity. Qed.

Lemma FInv_ok {A} (a : A) e : FInv n e (XOk a e).
Proof. reflexivity. Qed.

Lemma write_then_ok f w p (xs : xstate) e :
  tgt_ok n p = true ->
  FInv n e (let+ (_, e2) := settle (write_primary prof f w p e) in XOk xs e2).
Proof.
  intro H. apply FInv_bind; [apply FInv_settle; apply (wf_primary f (WF_all f)); auto|]. intros; apply FInv_ok.
Qed.

Theorem stmt_frame f s xs e : frame_ok s = true -> FInv n e (exec_stmt prof f s xs e).
Proof.
  intro Hs. destruct f as [|f]; [exact I|]. simpl.
  destruct (tick e) as [et|] eqn:Et; [|exact I].
  assert (Hlift : forall r : xres xstate, FInv n et r -> FInv n e r).
  { intros r Hr. pose proof (tick_frame _ _ Et) as E. destruct r; cbn in *; auto; congruence. }
  apply Hlift. clear Hlift Et.
  pose proof (PP_all prof f) as [He Hp Hf].
  destruct s as [d first rest op|d rhs|d str_|c th else_|c b|c b|i r k|i r k|dest l|x|op operand dest param|dir operand|r|r|arr value|arr dest|x|name r params body|name r args];
    cbn [frame_ok] in Hs; try discriminate.
  - apply andb_true_iff in Hs as [Hs Hr]. apply andb_true_iff in Hs as [Hd Hfi].
    apply FInv_bind.
    + destruct op as [o|].
      * apply FInv_bind; [apply P_F, Hp, (tgt_ok_pure n), Hd|]. intros lv e1. apply P_F, Hf. cbn. rewrite Hfi, Hr. reflexivity.
      * destruct rest; [apply P_F, He, Hfi|reflexivity].
    + intros nv e1. apply write_then_ok; auto.
  - apply andb_true_iff in Hs as [Hd Hx]. apply FInv_bind.
    + destruct rhs; [apply P_F, He, Hx|reflexivity].
    + intros nv e1. apply write_then_ok; auto.
  - apply write_then_ok; auto.
  - destruct i as [m|]; [|discriminate]. apply FInv_bind; [apply FInv_settle, write_var_frame; auto|]. intros; apply FInv_ok.
  - destruct i as [m|]; [|discriminate]. apply FInv_bind; [apply FInv_settle, write_var_frame; auto|]. intros; apply FInv_ok.
  - apply FInv_bind; [apply P_F, PInv_lift|]. intros [ln c'] e0.
    destruct dest as [d|]; [|reflexivity].
    match goal with |- FInv n e0 (xbind (settle (write_primary _ _ _ _ ?e1)) _) =>
      change (find_var n (scopes e0)) with (find_var n (scopes e1)) || idtac;
      apply (write_then_ok f _ _ xs e1 Hs) end.
  - apply FInv_bind; [apply P_F, He, Hs|]. intros v e1.
    apply FInv_bind; [apply P_F, PInv_lift|]. intros txt e2.
    destruct (chan_output txt (chan e2)) as [[c'|ioe| | | |] cf]; cbn; auto.
  - apply andb_true_iff in Hs as [Hpar Hd]. apply FInv_bind.
    + destruct param as [px|]; [|reflexivity]. apply FInv_bind; [apply P_F, He, Hpar|]. intros; apply FInv_ok.
    + intros pv e1. destruct dest as [d|].
      * apply andb_true_iff in Hd as [Ho Hd]. apply FInv_bind; [apply P_F, Hp, Ho|]. intros v e2.
        apply FInv_bind; [apply P_F, PInv_lift|]. intros v2 e3. apply write_then_ok; auto.
      * apply write_then_ok; auto.
  - destruct operand as [p| |]; try discriminate.
    apply FInv_bind; [apply FInv_settle; destruct f as [|f']; [exact I|]; simpl; apply (wf_primary f' (WF_all f')); auto|].
    intros; apply FInv_ok.
  - destruct (debug_assert prof 31 (is_normal (xflag xs))); cbn; auto.
  - destruct (debug_assert prof 32 (is_normal (xflag xs))); cbn; auto.
  - apply andb_true_iff in Hs as [Ha Hv]. destruct value as [[first rest|elems]|]; simpl.
    + apply FInv_bind; [apply P_F, produce_args_pure, Hv|]. intros vals e1. apply write_then_ok; auto.
    + apply write_then_ok; auto.
    + apply write_then_ok; auto.
  - apply andb_true_iff in Hs as [Ha Hd]. apply FInv_bind.
    + destruct f as [|f']; [exact I|]. simpl.
      pose proof (FInv_settle n et _ (wf_primary f' (WF_all f') WPop arr et Ha)) as G.
      destruct (settle (write_primary prof f' WPop arr et)) as [[v|] e1| | | | |]; cbn in *; auto.
    + intros back e1. destruct dest as [d|]; [apply write_then_ok; auto|reflexivity].
  - destruct (debug_assert prof 33 (match xret xs with None => true | Some _ => false end)); cbn; auto.
    apply FInv_bind; [apply P_F, He, Hs|]. intros v e1.
    destruct (debug_assert prof 34 (is_normal (xflag xs))); cbn; auto.
  - unfold env_create_func, lift_env, lift_res. destruct (scopes et) as [|t rr] eqn:Es; [exact I|].
    destruct (tab_emplace name (EFunc params body) t) as [t'| | | | |] eqn:Et; cbn [xbind]; try exact I.
    + unfold FInv. change (find_var n (t' :: rr) = find_var n (scopes et)). rewrite Es.
      eapply find_var_emplace_other; eauto.
    + reflexivity.
Qed.
End Frame.

(** ** a call-free statement leaves every variable it does not target exactly as it was *)
Theorem assignment_frame prof f s xs e xs' e' n :
  frame_ok n s = true -> exec_stmt prof f s xs e = XOk xs' e' -> find_var n (scopes e') = find_var n (scopes e).
Proof. intros H E. pose proof (stmt_frame prof n f s xs e H) as G. rewrite E in G. exact G. Qed.

Theorem assignment_frame_err prof f s xs e err e' n :
  frame_ok n s = true -> exec_stmt prof f s xs e = XErr err e' -> find_var n (scopes e') = find_var n (scopes e).
Proof. intros H E. pose proof (stmt_frame prof n f s xs e H) as G. rewrite E in G. exact G. Qed.

(** C07: `cut/join/cast X into Y` leaves X as it was (X and Y different variables) *)
Corollary mutation_into_keeps_operand prof f op x rx y ry param xs e xs' e' :
  other x y = true -> match param with Some px => pure_expr px | None => true end = true ->
  exec_stmt prof f (SMutation op (PIdent (IVar x) rx) (Some (LIdent (IVar y) ry)) param) xs e = XOk xs' e' ->
  find_var x (scopes e') = find_var x (scopes e).
Proof.
  intros H Hp E. eapply assignment_frame; [|exact E]. cbn. rewrite Hp. cbn. exact H.
Qed.
