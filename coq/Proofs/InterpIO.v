(** All the input and output of a run is a sequence of [listen] and [say] operations on the channels:
    nothing else reads or writes.  One induction on fuel over the interpreter, as in InterpInv/InterpWf;
    the trace of events makes "once each, in order" a statement about whole executions (C08). *)
From Coq Require Import List ZArith NArith Bool Lia.
From RRSS Require Import Base.Outcome Base.Chars Base.F64 Exec.Val Exec.Ops Front.Ast Front.Poetic Exec.Env Exec.Interp.
Import ListNotations.

Inductive ev :=
  | EvIn (ln : str)          (* a listen that delivered the line [ln] *)
  | EvOut (txt : str)        (* a say whose line was written whole *)
  | EvOutFail (txt : str).   (* a say the writer refused (part of the line may have been written) *)

Inductive io_steps : channels -> list ev -> channels -> Prop :=
  | io_nil c : io_steps c [] c
  | io_in c ln c1 tr c' : chan_input c = Ok (ln, c1) -> io_steps c1 tr c' -> io_steps c (EvIn ln :: tr) c'
  | io_out c txt c1 tr c' : fst (chan_output txt c) = Ok c1 -> io_steps c1 tr c' -> io_steps c (EvOut txt :: tr) c'
  | io_fail c txt x cf tr c' : chan_output txt c = (Err x, cf) -> io_steps cf tr c' -> io_steps c (EvOutFail txt :: tr) c'.

Lemma io_app c1 t1 c2 t2 c3 : io_steps c1 t1 c2 -> io_steps c2 t2 c3 -> io_steps c1 (t1 ++ t2) c3.
Proof. induction 1; cbn; intros; eauto using io_steps. Qed.

Definition IOInv {A} (e : env) (r : xres A) : Prop :=
  match r with
  | XOk _ e' | XErr _ e' => exists tr, io_steps (chan e) tr (chan e')
  | _ => True
  end.

Definition CInv {A} (e : env) (r : xres A) : Prop :=
  match r with
  | XOk _ e' | XErr _ e' => chan e' = chan e
  | _ => True
  end.

Lemma C_IO {A} e (r : xres A) : CInv e r -> IOInv e r.
Proof. destruct r; cbn; auto; intros ->; exists []; constructor. Qed.

Lemma IO_bind {A B} e (m : xres A) (k : A -> env -> xres B) :
  IOInv e m -> (forall a e1, IOInv e1 (k a e1)) -> IOInv e (xbind m k).
Proof.
  intros Hm Hk. destruct m as [a e1|x e1| | | |]; cbn in *; auto.
  destruct Hm as [t1 H1]. specialize (Hk a e1). destruct (k a e1); cbn in *; auto;
    destruct Hk as [t2 H2]; exists (t1 ++ t2); eapply io_app; eauto.
Qed.

Lemma IO_same {A} e e0 (r : xres A) : chan e = chan e0 -> IOInv e0 r -> IOInv e r.
Proof. intros E H. destruct r; cbn in *; auto; rewrite E; exact H. Qed.

Lemma IO_ok {A} (a : A) e : IOInv e (XOk a e).
Proof. exists []. constructor. Qed.

Lemma IO_lift {E A} inj (r : res E A) e : IOInv e (lift_res inj r e).
Proof. destruct r; cbn; auto; exists []; constructor. Qed.

Lemma C_update n cur keys w e1 :
  CInv e1
    match update_path cur keys w with
    | Ok (nv, back) => XOk (IOk back) (env_store n nv e1)
    | Err x => XOk (IErr (RVal x)) e1
    | Panic s => XPanic s | UB s => XUB s | OutOfFuel => XOutOfFuel | OverBudget => XOverBudget
    end.
Proof. destruct (update_path cur keys w) as [[nv back]| | | | |]; cbn; auto. Qed.

Lemma C_write_var w keys n e : CInv e (write_var w keys n e).
Proof.
  unfold write_var, env_lookup_var. cbn [fst snd].
  set (e1 := mkEnvB e (scopes e) (Some n) (chan e)).
  assert (Hnone : CInv e
      match env_create_var n e1 with
      | Ok e2 =>
          match update_path VUndef keys w with
          | Ok (nv, back) => XOk (IOk back) (env_store n nv e2)
          | Err x => XOk (IErr (RVal x)) e2
          | Panic s => XPanic s | UB s => XUB s | OutOfFuel => XOutOfFuel | OverBudget => XOverBudget
          end
      | Err x => XOk (IErr (REnv x)) e1
      | Panic s => XPanic s | UB s => XUB s | OutOfFuel => XOutOfFuel | OverBudget => XOverBudget
      end).
  { unfold env_create_var. destruct (scopes e1) as [|t r]; [exact I|].
    destruct (tab_emplace n (EVar VUndef) t); try exact I; [|reflexivity].
    destruct (update_path VUndef keys w) as [[nv back]| | | | |]; cbn; auto. }
  destruct (find_var n (scopes e)) as [v| | | | |]; cbn [map_err]; try exact Hnone.
  apply (C_update n v keys w e1).
Qed.

Lemma C_write_pronoun w keys e : CInv e (write_pronoun w keys e).
Proof.
  unfold write_pronoun. destruct (last_access e) as [n|]; [|reflexivity].
  destruct (find_var n (scopes e)); try exact I; [|reflexivity]. apply C_update.
Qed.

Lemma C_write_ident w keys i e : CInv e (write_ident w keys i e).
Proof. destruct i; cbn; [apply C_write_var|apply C_write_pronoun]. Qed.

Lemma IO_settle e r : IOInv e r -> IOInv e (settle r).
Proof. destruct r as [[b|x] e1| | | | |]; cbn; auto. Qed.

Lemma IO_absorb {A} e (r : xres A) k :
  IOInv e r -> (forall a e1, IOInv e1 (k a e1)) -> IOInv e (absorb r k).
Proof.
  intros Hr Hk. destruct r as [a e1|x e1| | | |]; cbn in *; auto.
  destruct Hr as [t1 H1]. specialize (Hk a e1). destruct (k a e1); cbn in *; auto;
    destruct Hk as [t2 H2]; exists (t1 ++ t2); eapply io_app; eauto.
Qed.

Lemma IO_lookup n e : IOInv e (lookup_var_x n e).
Proof.
  apply C_IO. unfold lookup_var_x, env_lookup_var.
  destruct (map_err SymTableError (find_var n (scopes e))); cbn; auto.
Qed.

Section Main.
Variable prof : profile.

Record IOP (f : nat) : Prop := mkIOP {
  io_expr : forall x e, IOInv e (produce_expr prof f x e);
  io_primary : forall p e, IOInv e (produce_primary prof f p e);
  io_fold : forall op acc l e, IOInv e (fold_rhs prof f op acc l e);
  io_args : forall l e, IOInv e (produce_args prof f l e);
  io_call : forall n args e, IOInv e (call_function prof f n args e);
  io_wprimary : forall w p e, IOInv e (write_primary prof f w p e);
  io_wsub : forall w a s keys e, IOInv e (write_subscript prof f w a s keys e);
  io_wexpr : forall w x e, IOInv e (write_expr prof f w x e);
  io_wexprs : forall w l e, IOInv e (write_exprs prof f w l e);
  io_stmt : forall s xs e, IOInv e (exec_stmt prof f s xs e);
  io_block : forall b xs e, IOInv e (exec_block prof f b xs e);
  io_stmts : forall ss xs e, IOInv e (exec_stmts prof f ss xs e);
  io_loop : forall inv c b xs e, IOInv e (exec_loop prof f inv c b xs e)
}.

Lemma IOP_0 : IOP 0.
Proof. constructor; intros; exact I. Qed.

Ltac iob H := eapply IO_bind; [H|].
Ltac iok := first [apply IO_ok | exists []; constructor].

Lemma tick_chan e e' : tick e = Some e' -> chan e' = chan e.
Proof. unfold tick. destruct (steps e =? 0)%N; [discriminate|]. intro H. injection H as <-. reflexivity. Qed.

Lemma IO_pop {A} (k : env -> xres A) e3 (e0 : env) :
  chan e0 = chan e3 ->
  (forall e4, chan e4 = chan e3 -> IOInv e4 (k e4)) ->
  IOInv e3 (let+ (e4, _) := lift_env (pop_scope prof e0) e3 in k e4).
Proof.
  intros E Hk. unfold pop_scope, lift_env, lift_res.
  destruct (debug_assert prof 20 (1 <? len (scopes e0))%N); cbn; auto; try (exists []; constructor).
  eapply IO_same; [|apply Hk]; cbn; auto.
Qed.

Lemma IOP_S f : IOP f -> IOP (S f).
Proof.
  intros [Hexpr Hprimary Hfold Hargs Hcall Hwp Hwsub Hwexpr Hwexprs Hstmt Hblock Hstmts Hloop].
  constructor.
  - intros x e. destruct x as [p|op l first rest|op a]; simpl.
    + apply Hprimary.
    + iob ltac:(apply Hexpr). intros lv e1. apply Hfold.
    + iob ltac:(apply Hexpr). intros v e1. apply IO_lift.
  - intros p e. destruct p as [l r|i r|a s|name r args|a]; simpl.
    + iok.
    + destruct i; simpl; [apply IO_lookup|apply IO_lift].
    + iob ltac:(apply Hprimary). intros av e1. iob ltac:(apply Hprimary). intros sv e2. apply IO_lift.
    + apply Hcall.
    + pose proof (IO_settle _ _ (Hwp WPop a e)) as G.
      destruct (settle (write_primary prof f WPop a e)) as [[v|] e1| | | | |]; cbn in *; auto.
  - intros op acc l e. destruct l as [|x t]; simpl.
    + iok.
    + destruct (needs_rhs op acc).
      * iob ltac:(apply Hexpr). intros bv e1. iob ltac:(apply IO_lift). intros r e2. apply Hfold.
      * apply Hfold.
  - intros l e. destruct l as [|x t]; simpl.
    + iok.
    + iob ltac:(apply Hexpr). intros v e1. iob ltac:(apply Hargs). intros vs e2. iok.
  - intros n args e. simpl.
    iob ltac:(apply IO_lift). intros [params body] e0.
    destruct (negb (Val.len params =? Val.len args)%N); [exists []; constructor|].
    iob ltac:(apply Hargs). intros vals e1.
    unfold env_push_function_scope, lift_env at 1, lift_res at 1.
    destruct (tab_for_call (combine (map fst params) vals) []) as [t| | | | |]; cbn [xbind]; try exact I;
      [|exists []; constructor].
    match goal with |- IOInv e1 (match enter_call ?e2 with _ => _ end) => set (e2x := e2) end.
    unfold enter_call. destruct (depth e2x =? 0)%N; [exact I|].
    match goal with |- IOInv e1 (xbind (exec_block prof f body x_init ?e2') _) => set (e2y := e2') end.
    apply (IO_same e1 e2y); [reflexivity|].
    iob ltac:(apply Hblock). intros xs e3.
    apply IO_pop; [reflexivity|]. intros e4 E4. iok.
  - intros w p e. destruct p as [l r|i r|a s|name r args|a]; simpl.
    + iok.
    + apply C_IO, C_write_ident.
    + apply Hwsub.
    + iob ltac:(apply C_IO, C_write_var). intros i1 e1. iob ltac:(apply Hwexprs). intros i2 e2. iok.
    + apply Hwp.
  - intros w a s keys e. simpl.
    apply IO_absorb; [apply Hprimary|]. intros sv e1.
    destruct a as [l r|i r|a2 s2|name r args|a2]; simpl; try iok.
    + apply C_IO, C_write_ident.
    + apply Hwsub.
  - intros w x e. destruct x as [p|op l first rest|op a]; simpl.
    + apply Hwp.
    + iob ltac:(apply Hwexpr). intros i1 e1. iob ltac:(apply Hwexprs). intros i2 e2. iok.
    + iob ltac:(apply Hwexpr). intros i1 e1. iok.
  - intros w l e. destruct l as [|x t]; simpl.
    + iok.
    + iob ltac:(apply Hwexpr). intros i1 e1. apply Hwexprs.
  - (* exec_stmt *)
    intros s xs e0. simpl. destruct (tick e0) as [e|] eqn:Et; [|exact I].
    apply (IO_same e0 e); [symmetry; apply (tick_chan _ _ Et)|]. clear Et e0.
    assert (Hwrite : forall w d e1, IOInv e1 (let+ (_, e2) := settle (write_primary prof f w (lhs_as_primary d) e1) in XOk xs e2)).
    { intros w d e1. iob ltac:(apply IO_settle, Hwp). intros b e2. iok. }
    destruct s as [d first rest op|d rhs|d str_|c th else_|c b|c b|i r k|i r k|dest l|x|op operand dest param|dir operand|r|r|arr value|arr dest|x|name r params body|name r args]; simpl.
    + eapply IO_bind.
      * destruct op as [o|].
        -- iob ltac:(apply Hprimary). intros lv e1. apply Hfold.
        -- destruct rest; simpl; [apply Hexpr|exists []; constructor].
      * intros nv e1. apply Hwrite.
    + eapply IO_bind.
      * destruct rhs; [apply Hexpr|iok].
      * intros nv e1. apply Hwrite.
    + apply Hwrite.
    + iob ltac:(apply Hexpr). intros cv e1.
      apply (IO_same e1 (push_scope e1)); [reflexivity|].
      eapply IO_bind.
      * destruct (is_truthy cv); [apply Hblock|]. destruct else_; [apply Hblock|iok].
      * intros xs' e3. apply IO_pop; [reflexivity|]. intros e4 E4. iok.
    + apply Hloop.
    + apply Hloop.
    + iob ltac:(apply IO_settle, C_IO, C_write_ident). intros b e1. iok.
    + iob ltac:(apply IO_settle, C_IO, C_write_ident). intros b e1. iok.
    + (* listen *)
      unfold lift_env at 1, lift_res at 1.
      destruct (chan_input (chan e)) as [[ln c']| | | | |] eqn:Ein; cbn [xbind]; try exact I; [|exists []; constructor].
      set (e1 := mkEnvB e (scopes e) (last_access e) c').
      assert (Hstep : io_steps (chan e) [EvIn ln] (chan e1)) by (econstructor; [exact Ein|constructor]).
      assert (Hk : forall r : xres xstate, IOInv e1 r -> IOInv e r).
      { intros r Hr. destruct r; cbn in *; auto; destruct Hr as [t2 H2]; exists ([EvIn ln] ++ t2); eapply io_app; eauto. }
      apply Hk. destruct dest as [d|]; [apply Hwrite|iok].
    + (* say *)
      iob ltac:(apply Hexpr). intros v e1. iob ltac:(apply IO_lift). intros txt e2.
      destruct (chan_output txt (chan e2)) as [r cf] eqn:Eout.
      destruct r as [c'|ioe| | | |]; cbn; auto.
      * exists [EvOut txt]. econstructor; [rewrite Eout; reflexivity|constructor].
      * exists [EvOutFail txt]. econstructor; [exact Eout|constructor].
    + eapply IO_bind.
      * destruct param as [px|]; [|iok]. iob ltac:(apply Hexpr). intros v e1. iok.
      * intros pv e1. destruct dest as [d|].
        -- iob ltac:(apply Hprimary). intros v e2. iob ltac:(apply IO_lift). intros v2 e3. apply Hwrite.
        -- iob ltac:(apply IO_settle, Hwp). intros b e2. iok.
    + iob ltac:(apply IO_settle, Hwexpr). intros b e1. iok.
    + destruct (debug_assert prof 31 (is_normal (xflag xs))); cbn; auto. exists []; constructor.
    + destruct (debug_assert prof 32 (is_normal (xflag xs))); cbn; auto. exists []; constructor.
    + destruct value as [[first rest|elems]|]; simpl.
      * iob ltac:(apply Hargs). intros vals e1. iob ltac:(apply IO_settle, Hwp). intros b e2. iok.
      * iob ltac:(apply IO_settle, Hwp). intros b e2. iok.
      * iob ltac:(apply IO_settle, Hwp). intros b e2. iok.
    + iob ltac:(apply (Hprimary (PPop arr))). intros back e1.
      destruct dest as [d|]; [apply Hwrite|iok].
    + destruct (debug_assert prof 33 (match xret xs with None => true | Some _ => false end)); cbn; auto.
      iob ltac:(apply Hexpr). intros v e1.
      destruct (debug_assert prof 34 (is_normal (xflag xs))); cbn; auto. exists []; constructor.
    + unfold env_create_func, lift_env, lift_res. destruct (scopes e) as [|t rr]; [exact I|].
      destruct (tab_emplace name (EFunc params body) t); cbn; auto; exists []; constructor.
    + iob ltac:(apply Hcall). intros v e1. iok.
  - intros b xs e. destruct b; simpl; [iok|apply Hstmts].
  - intros ss xs e. destruct ss as [|s t]; simpl; [iok|].
    iob ltac:(apply Hstmt). intros xs1 e1. destruct (skip_rest (xflag xs1)); [iok|apply Hstmts].
  - intros inv c b xs e0. simpl. destruct (tick e0) as [e|] eqn:Et; [|exact I].
    apply (IO_same e0 e); [symmetry; apply (tick_chan _ _ Et)|]. clear Et e0.
    iob ltac:(apply Hexpr). intros cv e1.
    destruct (xorb inv (is_truthy cv)); [|iok].
    apply (IO_same e1 (push_scope e1)); [reflexivity|].
    iob ltac:(apply Hblock). intros xs' e3.
    apply IO_pop; [reflexivity|]. intros e4 E4.
    destruct (xflag xs'); try apply Hloop; iok.
Qed.

Theorem IOP_all f : IOP f.
Proof. induction f; [apply IOP_0|apply IOP_S; auto]. Qed.

Lemma exec_blocks_io fuel : forall bs xs e, IOInv e (exec_blocks prof fuel bs xs e).
Proof.
  induction bs as [|b t IH]; intros xs e; cbn [exec_blocks]; [iok|].
  iob ltac:(apply (io_block fuel (IOP_all fuel))). intros xs1 e1.
  destruct (skip_rest (xflag xs1)); [iok|apply IH].
Qed.

(** ** every run's I/O is a sequence of listen / say operations *)
Theorem exec_program_io fuel p c :
  match exec_program prof fuel p c with
  | XOk _ e' | XErr _ e' => exists tr, io_steps c tr (chan e')
  | _ => True
  end.
Proof. unfold exec_program. apply (exec_blocks_io fuel p x_init (env_init c)). Qed.

Theorem exec_stmt_io fuel s xs e :
  match exec_stmt prof fuel s xs e with
  | XOk _ e' | XErr _ e' => exists tr, io_steps (chan e) tr (chan e')
  | _ => True
  end.
Proof. apply (io_stmt fuel (IOP_all fuel)). Qed.
End Main.

(** * What a trace says about the bytes *)

Definition ev_line (t : str) : list N := utf8_encode t ++ [10%N].

(** the lines delivered and the texts written whole, in order *)
Fixpoint ins (tr : list ev) : list str :=
  match tr with [] => [] | EvIn l :: t => l :: ins t | _ :: t => ins t end.
Fixpoint outs (tr : list ev) : list str :=
  match tr with [] => [] | EvOut x :: t => x :: outs t | _ :: t => outs t end.
Definition no_fault (tr : list ev) : bool :=
  forallb (fun e => match e with EvOutFail _ => false | _ => true end) tr.

Lemma chan_input_out c ln c' : chan_input c = Ok (ln, c') -> out_bytes c' = out_bytes c /\ out_budget c' = out_budget c.
Proof.
  unfold chan_input. destruct (take_line (in_rest c) []) as [[l r] fnd].
  match goal with |- (if ?b then _ else _) = _ -> _ => destruct b end; [|discriminate].
  intro H. injection H as _ <-. split; reflexivity.
Qed.

Lemma chan_output_ok txt c c' : fst (chan_output txt c) = Ok c' ->
  out_bytes c' = out_bytes c ++ ev_line txt /\ in_rest c' = in_rest c /\ in_pos c' = in_pos c /\ in_fault c' = in_fault c.
Proof.
  unfold chan_output, ev_line. destruct (out_budget c) as [b|]; cbn.
  - destruct (len (utf8_encode txt ++ [10%N]) <=? b)%N; cbn; [|discriminate]. intro H. injection H as <-. repeat split.
  - intro H. injection H as <-. repeat split.
Qed.

(** without a write fault, the output is exactly the lines said, whole and in order *)
Theorem trace_output c tr c' :
  io_steps c tr c' -> no_fault tr = true -> out_bytes c' = out_bytes c ++ flat_map ev_line (outs tr).
Proof.
  induction 1 as [c|c ln c1 tr c' Hin Hs IH|c txt c1 tr c' Hout Hs IH|c txt x cf tr c' Hout Hs IH]; cbn; intro Hn.
  - rewrite app_nil_r. reflexivity.
  - rewrite (IH Hn). destruct (chan_input_out _ _ _ Hin) as [-> _]. reflexivity.
  - rewrite (IH Hn). destruct (chan_output_ok _ _ _ Hout) as [-> _]. rewrite <- app_assoc. reflexivity.
  - discriminate.
Qed.

(** in every case what was written before stays, in place *)
Theorem trace_output_prefix c tr c' : io_steps c tr c' -> exists more, out_bytes c' = out_bytes c ++ more.
Proof.
  induction 1 as [c|c ln c1 tr c' Hin Hs IH|c txt c1 tr c' Hout Hs IH|c txt x cf tr c' Hout Hs IH].
  - exists []. rewrite app_nil_r. reflexivity.
  - destruct IH as [m ->]. destruct (chan_input_out _ _ _ Hin) as [-> _]. eauto.
  - destruct IH as [m ->]. destruct (chan_output_ok _ _ _ Hout) as [-> _]. rewrite <- app_assoc. eauto.
  - destruct IH as [m ->]. revert Hout. unfold chan_output. destruct (out_budget c) as [b|]; [|discriminate].
    destruct (len (utf8_encode txt ++ [10%N]) <=? b)%N; [discriminate|]. intro H. injection H as _ <-. cbn.
    rewrite <- app_assoc. eauto.
Qed.

Lemma take_line_spec s : forall acc ln r fnd, take_line s acc = (ln, r, fnd) ->
  (fnd = true /\ exists l, ln = rev acc ++ l /\ s = l ++ [10%N] ++ r /\ ~ In 10%N l) \/
  (fnd = false /\ exists l, ln = rev acc ++ l /\ s = l /\ r = [] /\ ~ In 10%N l).
Proof.
  induction s as [|c t IH]; intros acc ln r fnd H; cbn in H; rewrite <- ?rev_alt in H.
  - injection H as <- <- <-. right. split; auto. exists []. rewrite app_nil_r. auto.
  - destruct (c =? 10)%N eqn:E.
    + injection H as <- <- <-. apply N.eqb_eq in E. subst c. left. split; auto. exists []. rewrite app_nil_r. auto.
    + apply N.eqb_neq in E. apply IH in H. destruct H as [[-> (l & -> & -> & Hn)]|[-> (l & -> & -> & -> & Hn)]]; [left|right];
        split; auto; exists (c :: l); cbn [rev]; rewrite <- app_assoc; repeat split; auto; intros [F|F]; auto.
Qed.

(** the input is consumed from the front, one line ([take_line]: up to and without the next line feed,
    or everything that is left) per listen, in order; a say consumes none *)
Inductive in_steps : str -> list str -> str -> Prop :=
  | in_nil s : in_steps s [] s
  | in_cons s l r fnd ls s' : take_line s [] = (l, r, fnd) -> in_steps r ls s' -> in_steps s (l :: ls) s'.

Lemma chan_input_in c ln c' : chan_input c = Ok (ln, c') -> exists fnd, take_line (in_rest c) [] = (ln, in_rest c', fnd).
Proof.
  unfold chan_input. destruct (take_line (in_rest c) []) as [[l r] fnd].
  match goal with |- (if ?b then _ else _) = _ -> _ => destruct b end; [|discriminate].
  intro H. injection H as <- <-. exists fnd. reflexivity.
Qed.

Theorem trace_input c tr c' : io_steps c tr c' -> in_steps (in_rest c) (ins tr) (in_rest c').
Proof.
  induction 1 as [c|c ln c1 tr c' Hin Hs IH|c txt c1 tr c' Hout Hs IH|c txt x cf tr c' Hout Hs IH]; cbn.
  - constructor.
  - destruct (chan_input_in _ _ _ Hin) as [fnd Ht]. econstructor; eauto.
  - destruct (chan_output_ok _ _ _ Hout) as (_ & <- & _). exact IH.
  - revert Hout IH. unfold chan_output. destruct (out_budget c) as [b|]; [|discriminate].
    destruct (len (utf8_encode txt ++ [10%N]) <=? b)%N; [discriminate|]. intro H. injection H as _ <-. cbn. auto.
Qed.

(** a line delivered contains no line feed, and is followed by one in the input unless the input ended *)
Theorem line_shape s l r fnd : take_line s [] = (l, r, fnd) ->
  ~ In 10%N l /\ (if fnd then s = l ++ [10%N] ++ r else s = l /\ r = []).
Proof.
  intro H. apply take_line_spec in H. cbn [rev app] in H.
  destruct H as [[-> (l0 & -> & -> & Hn)]|[-> (l0 & -> & -> & -> & Hn)]]; auto.
Qed.
