(** C04: the interpreter's flag machine computes exactly the structured semantics of Exec/Sem.v:
    for every statement, block, statement list and loop, from any well-formed environment, with
    any fuel, in both profiles — same environment (so same output and input), same error, and
    the control state translated by [to_outcome]. *)
From Coq Require Import List ZArith NArith Bool Lia.
From RRSS Require Import Base.Outcome Base.Chars Base.F64 Exec.Val Exec.Ops Front.Ast Front.Poetic Exec.Env Exec.Interp Exec.Sem.
From RRSS Require Import Proofs.InterpInv.
Import ListNotations.

Lemma xmap_xbind {A B C} (g : B -> C) (m : xres A) (k : A -> env -> xres B) :
  xmap g (xbind m k) = xbind m (fun a e => xmap g (k a e)).
Proof. destruct m; reflexivity. Qed.

Lemma xbind_xmap {A B C} (g : A -> B) (m : xres A) (k : B -> env -> xres C) :
  xbind (xmap g m) k = xbind m (fun a e => k (g a) e).
Proof. destruct m; reflexivity. Qed.

Lemma xbind_ext {A B} (m : xres A) (k k' : A -> env -> xres B) :
  (forall a e, k a e = k' a e) -> xbind m k = xbind m k'.
Proof. intro H. destruct m; cbn; auto. Qed.

(** what the invariant says about a completed run from a normal control state *)
Lemma okx_normal_init xs : okx xs -> xflag xs = Normal -> xs = x_init.
Proof. intros [H|H] Hn; [congruence|]. destruct xs as [fl r]. cbn in *. subst. reflexivity. Qed.

Lemma okx_continuing xs : okx xs -> xflag xs = Continuing -> mkX Normal (xret xs) = x_init.
Proof. intros [H|H] Hn; [congruence|]. rewrite H. reflexivity. Qed.

Lemma okx_breaking xs : okx xs -> xflag xs = Breaking -> mkX Normal (xret xs) = x_init.
Proof. intros [H|H] Hn; [congruence|]. rewrite H. reflexivity. Qed.

Section Refine.
Variable prof : profile.

(** bind on a run of the interpreter whose continuation only matters on well-formed, invariant-respecting results *)
Lemma xbind_inv {A B} (Q : A -> env -> Prop) e (m : xres A) (k k' : A -> env -> xres B) :
  Inv Q e m -> wf e ->
  (forall a e1, wf e1 -> Q a e1 -> k a e1 = k' a e1) -> xbind m k = xbind m k'.
Proof.
  intros Hm W Hk. destruct m; cbn in *; auto. destruct Hm as [HR HQ]. apply Hk; auto. eapply R_wf; eauto.
Qed.

Record RF (f : nat) : Prop := mkRF {
  rf_stmt : forall s e, wf e -> xmap to_outcome (exec_stmt prof f s x_init e) = sem_stmt prof f s e;
  rf_block : forall b e, wf e -> xmap to_outcome (exec_block prof f b x_init e) = sem_block prof f b e;
  rf_stmts : forall ss e, wf e -> xmap to_outcome (exec_stmts prof f ss x_init e) = sem_stmts prof f ss e;
  rf_loop : forall inv c b e, wf e -> xmap to_outcome (exec_loop prof f inv c b x_init e) = sem_loop prof f inv c b e
}.

Lemma RF_0 : RF 0.
Proof. constructor; intros; reflexivity. Qed.

Lemma pop_frame e1 e3 : wf e1 -> R (push_scope e1) e3 ->
  forall (k k' : env -> env -> xres outcome),
  (forall e4 ex, wf e4 -> k e4 ex = k' e4 ex) ->
  xbind (lift_env (pop_scope prof e3) e3) k = xbind (lift_env (pop_scope prof e3) e3) k'.
Proof.
  intros W HR k k' Hk. destruct (push_scope_depth e1) as [Hd _]. pose proof HR as (Hd3 & _ & _).
  destruct (pop_scope_ok prof e3) as (e4 & Ep & Hd4 & _); [unfold wf in *; lia|].
  rewrite Ep. cbn. apply Hk. unfold wf in *. lia.
Qed.

Ltac straight :=
  repeat first
    [ reflexivity
    | rewrite !xmap_xbind; apply xbind_ext; intros
    | match goal with
      | |- context [match ?d with _ => _ end] => is_var d; destruct d
      | |- context [let '(_, _) := ?p in _] => destruct p
      end ].

Lemma RF_S f : RF f -> RF (S f).
Proof.
  intros [Hst Hb Hss Hl]. pose proof (all_P prof f) as IP.
  constructor.
  - (* statements *)
    intros s e0 W0.
    assert (Hstraight : xmap to_outcome (exec_stmt prof (S f) s x_init e0) = xmap (fun _ => ONormal) (exec_stmt prof (S f) s x_init e0) ->
                        match s with SIf _ _ _ | SWhile _ _ | SUntil _ _ | SBreak _ | SContinue _ | SReturn _ => True
                        | _ => xmap to_outcome (exec_stmt prof (S f) s x_init e0) = sem_stmt prof (S f) s e0 end).
    { intro H. destruct s; try exact I; exact H. }
    destruct s; try (apply Hstraight; simpl; destruct (tick e0); [|reflexivity]; straight; fail).
    + (* if *)
      simpl. destruct (tick e0) as [e|] eqn:Et; [|reflexivity].
      pose proof (R_wf _ _ (tick_R _ _ Et) W0) as W.
      rewrite xmap_xbind. eapply xbind_inv; [apply (P_produce_expr prof f IP); exact W|exact W|]. intros cv e1 W1 _.
      rewrite xmap_xbind.
      assert (W2 : wf (push_scope e1)) by (unfold wf in *; destruct (push_scope_depth e1); lia).
      assert (Hbr : (if is_truthy cv then sem_block prof f then_ (push_scope e1)
                     else match else_ with Some b => sem_block prof f b (push_scope e1) | None => XOk ONormal (push_scope e1) end) =
                    xmap to_outcome (if is_truthy cv then exec_block prof f then_ x_init (push_scope e1)
                                     else match else_ with Some b => exec_block prof f b x_init (push_scope e1) | None => XOk x_init (push_scope e1) end)).
      { destruct (is_truthy cv); [symmetry; apply Hb; auto|]. destruct else_; [symmetry; apply Hb; auto|reflexivity]. }
      rewrite Hbr. rewrite xbind_xmap.
      assert (Hinv : Inv Qx (push_scope e1) (if is_truthy cv then exec_block prof f then_ x_init (push_scope e1)
                                     else match else_ with Some b => exec_block prof f b x_init (push_scope e1) | None => XOk x_init (push_scope e1) end)).
      { destruct (is_truthy cv); [apply (P_exec_block prof f IP); auto; apply prex_init|].
        destruct else_; [apply (P_exec_block prof f IP); auto; apply prex_init|]. apply Inv_ok. apply prex_okx. apply prex_init. }
      destruct (if is_truthy cv then exec_block prof f then_ x_init (push_scope e1)
                else match else_ with Some b => exec_block prof f b x_init (push_scope e1) | None => XOk x_init (push_scope e1) end)
        as [xs' e3| | | | |]; cbn [xbind xmap]; try reflexivity.
      destruct Hinv as [HR _]. rewrite xmap_xbind. apply (pop_frame e1 e3 W1 HR). intros e4 ex W4. reflexivity.
    + (* while *)
      simpl. destruct (tick e0) as [e|] eqn:Et; [|reflexivity]. apply Hl. apply (R_wf _ _ (tick_R _ _ Et) W0).
    + (* until *)
      simpl. destruct (tick e0) as [e|] eqn:Et; [|reflexivity]. apply Hl. apply (R_wf _ _ (tick_R _ _ Et) W0).
    + (* continue *)
      simpl. destruct (tick e0); [|reflexivity]. destruct prof; reflexivity.
    + (* break *)
      simpl. destruct (tick e0); [|reflexivity]. destruct prof; reflexivity.
    + (* return *)
      simpl. destruct (tick e0); [|reflexivity]. destruct prof; cbn; rewrite xmap_xbind; apply xbind_ext; intros; reflexivity.
  - (* block *)
    intros b e W. destruct b; simpl; [reflexivity|apply Hss; auto].
  - (* statement list *)
    intros ss e W. destruct ss as [|s t]; simpl; [reflexivity|].
    rewrite <- (Hst s e W). rewrite xmap_xbind, xbind_xmap.
    eapply xbind_inv; [apply (P_exec_stmt prof f IP); [exact W|apply prex_init]|exact W|]. intros xs' e1 W1 Hx.
    unfold Qx in Hx. unfold to_outcome at 2. destruct (xflag xs') eqn:Ef; cbn [skip_rest]; try reflexivity.
    rewrite (okx_normal_init xs' Hx Ef). apply Hss; auto.
  - (* loop *)
    intros inv c b e0 W0. simpl. destruct (tick e0) as [e|] eqn:Et; [|reflexivity].
    pose proof (R_wf _ _ (tick_R _ _ Et) W0) as W.
    rewrite xmap_xbind. eapply xbind_inv; [apply (P_produce_expr prof f IP); exact W|exact W|]. intros cv e1 W1 _.
    destruct (xorb inv (is_truthy cv)); [|reflexivity].
    assert (W2 : wf (push_scope e1)) by (unfold wf in *; destruct (push_scope_depth e1); lia).
    rewrite <- (Hb b (push_scope e1) W2). rewrite xmap_xbind, xbind_xmap.
    pose proof (P_exec_block prof f IP b x_init (push_scope e1) W2 prex_init) as Hinv.
    destruct (exec_block prof f b x_init (push_scope e1)) as [xs' e3| | | | |]; cbn [xbind xmap]; try reflexivity.
    destruct Hinv as [HR Hx]. unfold Qx in Hx. rewrite xmap_xbind. apply (pop_frame e1 e3 W1 HR). intros e4 ex W4.
    unfold to_outcome. destruct (xflag xs') eqn:Ef.
    + rewrite (okx_normal_init xs' Hx Ef). apply Hl; auto.
    + rewrite (okx_breaking xs' Hx Ef). reflexivity.
    + rewrite (okx_continuing xs' Hx Ef). apply Hl; auto.
    + cbn [xmap]. rewrite Ef. reflexivity.
Qed.

Theorem RF_all f : RF f.
Proof. induction f; [apply RF_0|apply RF_S; auto]. Qed.

(** ** C04: statements, blocks and loops run as the structured semantics says *)
Theorem exec_stmt_refines f s e : wf e -> xmap to_outcome (exec_stmt prof f s x_init e) = sem_stmt prof f s e.
Proof. apply (rf_stmt f (RF_all f)). Qed.
Theorem exec_block_refines f b e : wf e -> xmap to_outcome (exec_block prof f b x_init e) = sem_block prof f b e.
Proof. apply (rf_block f (RF_all f)). Qed.
Theorem exec_loop_refines f inv c b e : wf e -> xmap to_outcome (exec_loop prof f inv c b x_init e) = sem_loop prof f inv c b e.
Proof. apply (rf_loop f (RF_all f)). Qed.
End Refine.
