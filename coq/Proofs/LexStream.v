(** C12 / C01 (lexer half): the token stream of any source shorter than 4 GiB is total and is, in
    order, a sequence of non-overlapping slices of the source separated by ignorable text, each
    token carrying its true position. *)
From Coq Require Import List ZArith NArith Bool Lia.
From RRSS Require Import Base.Outcome Base.Chars Base.F64 Base.F64Text Front.Ast Front.Token Front.Lexer.
From RRSS Require Import Proofs.LexBasics Proofs.LexPos Proofs.LexSpec.
Import ListNotations.
Open Scope N_scope.

(** [stream pre s ts]: the text [s], which follows the prefix [pre] of the source, splits as
    gap, token, gap, token, ..., gap; every gap is ignorable and every token is well-formed at
    its place. *)
Inductive stream : str -> str -> list token -> Prop :=
  | st_nil pre g : forallb ignorable g = true -> stream pre g []
  | st_cons pre g t rest_ ts :
      forallb ignorable g = true -> tspell t <> [] -> tok_wf (pre ++ g) t ->
      stream (pre ++ g ++ tspell t) rest_ ts ->
      stream pre (g ++ tspell t ++ rest_) (t :: ts).

Lemma stream_eq pre pre' s s' ts : pre = pre' -> s = s' -> stream pre s ts -> stream pre' s' ts.
Proof. intros -> ->. auto. Qed.

Lemma tok_wf_eq a a' t : a = a' -> tok_wf a t -> tok_wf a' t.
Proof. intros ->. auto. Qed.

Lemma stream_gap p gap s ts : forallb ignorable gap = true -> stream (p ++ gap) s ts -> stream p (gap ++ s) ts.
Proof.
  intros Hg H. inversion H as [pre g Hi|pre g t rest_ ts' Hi Hne Hwf Hs]; subst.
  - apply st_nil. rewrite forallb_app, Hg, Hi. reflexivity.
  - rewrite app_assoc. apply st_cons; auto.
    + rewrite forallb_app, Hg, Hi. reflexivity.
    + rewrite app_assoc. exact Hwf.
    + eapply stream_eq; [| reflexivity | exact Hs]. rewrite <- !app_assoc. reflexivity.
Qed.

Lemma apos_ignorable g : forallb is_apos g = true -> forallb ignorable g = true.
Proof.
  induction g as [|c t IH]; cbn; auto. intro H. apply andb_true_iff in H as [H1 H2].
  rewrite IH by exact H2. unfold ignorable. unfold is_apos in H1. rewrite H1, !orb_true_r. reflexivity.
Qed.

(** * Skipping whitespace *)
Lemma skip_ws_spec s : forall i,
  exists g, s = g ++ fst (skip_ws s i) /\ snd (skip_ws s i) = i + byte_len g /\
            forallb is_ignorable_whitespace g = true.
Proof.
  induction s as [|c t IH]; intro i; cbn [skip_ws].
  - exists []. cbn. repeat split; auto. lia.
  - destruct (is_ignorable_whitespace c) eqn:E.
    + destruct (IH (i + utf8_len c)) as (g & H1 & H2 & H3). exists (c :: g). cbn [app byte_len forallb].
      rewrite E, H3. repeat split; auto; [congruence|lia].
    + exists []. cbn. repeat split; auto. lia.
Qed.

Lemma find_word_start_spec s i :
  exists g, s = g ++ fst (find_word_start s i) /\ snd (find_word_start s i) = i + byte_len g /\
            forallb is_ignorable_whitespace g = true.
Proof.
  unfold find_word_start. destruct (starts_with (lit "'n'") s).
  - exists []. cbn. repeat split; auto. lia.
  - apply skip_ws_spec.
Qed.

Lemma ws_ignorable g : forallb is_ignorable_whitespace g = true -> forallb ignorable g = true.
Proof.
  induction g as [|c t IH]; cbn; auto. intro H. apply andb_true_iff in H as [H1 H2].
  rewrite IH by exact H2. unfold ignorable. rewrite H1. reflexivity.
Qed.

Lemma ignorable_no_nl g : forallb ignorable g = true -> no_nl g = true.
Proof.
  induction g as [|c t IH]; cbn; auto. intro H. apply andb_true_iff in H as [H1 H2].
  apply no_nl_cons; auto. apply ignorable_not_nl. exact H1.
Qed.

(** * Advancing the cursor to the end of what a step consumed *)
Lemma boundary_from_app a : forall b i, boundary_from (a ++ b) i (i + byte_len a) = true.
Proof.
  induction a as [|c t IH]; intros b i.
  - cbn [app byte_len]. rewrite N.add_0_r. destruct b; cbn; rewrite N.eqb_refl; reflexivity.
  - cbn [app byte_len boundary_from]. pose proof (utf8_len_pos c).
    destruct (i =? i + (utf8_len c + byte_len t)) eqn:E; auto.
    destruct (i + (utf8_len c + byte_len t) <? i + utf8_len c) eqn:E2; [apply N.ltb_lt in E2; lia|].
    replace (i + (utf8_len c + byte_len t)) with (i + utf8_len c + byte_len t) by lia. apply IH.
Qed.

Lemma advance_to_app a : forall b i, advance_to (a ++ b) i (i + byte_len a) = (b, i + byte_len a).
Proof.
  induction a as [|c t IH]; intros b i.
  - cbn [app byte_len]. rewrite N.add_0_r. destruct b; cbn; rewrite N.eqb_refl; reflexivity.
  - cbn [app byte_len advance_to]. pose proof (utf8_len_pos c).
    destruct (i =? i + (utf8_len c + byte_len t)) eqn:E; [apply N.eqb_eq in E; lia|].
    replace (i + (utf8_len c + byte_len t)) with (i + utf8_len c + byte_len t) by lia. apply IH.
Qed.

(** * The lexer between tokens *)
Record sinv_core (pre : str) (lx : lexer) : Prop := mkSC {
  s_idx : idx lx = byte_len pre;
  s_pos : pos_at pre = (cur_line lx, line_start lx);
  s_small : byte_len (pre ++ rest lx) < u32_limit
}.

Definition staged_ok (pre : str) (lx : lexer) : Prop :=
  match staged lx with
  | None => True
  | Some t2 => tspell t2 <> [] /\ exists pre0, pre = pre0 ++ tspell t2 /\ tok_wf pre0 t2
  end.

Definition loop_ok (pre : str) (lx : lexer) (t : token) (lx' : lexer) : Prop :=
  exists g gap2 sp2,
    rest lx = g ++ tspell t ++ gap2 ++ sp2 ++ rest lx' /\
    forallb ignorable g = true /\ tspell t <> [] /\ forallb is_apos gap2 = true /\
    tok_wf (pre ++ g) t /\
    match staged lx' with
    | None => sp2 = []
    | Some t2 => sp2 = tspell t2 /\ sp2 <> [] /\ tok_wf (pre ++ g ++ tspell t ++ gap2) t2
    end /\
    sinv_core (pre ++ g ++ tspell t ++ gap2 ++ sp2) lx' /\
    nlk t /\ no_nl sp2 = true.

Lemma match_loop_spec prof : forall fuel lx pre,
  sinv_core pre lx -> (length (rest lx) < fuel)%nat ->
  match match_loop prof fuel lx with
  | Ok None => forallb ignorable (rest lx) = true
  | Ok (Some (t, lx')) => loop_ok pre lx t lx'
  | _ => False
  end.
Proof.
  induction fuel as [|f IH]; intros lx pre [Hi Hp Hb] Hf; [lia|].
  cbn [match_loop].
  destruct (find_word_start_spec (rest lx) (idx lx)) as (g0 & Hr & Hst & Hg0).
  destruct (find_word_start (rest lx) (idx lx)) as [s0 start]. cbn [fst snd] in Hr, Hst.
  assert (Hg0i : forallb ignorable g0 = true) by (apply ws_ignorable; exact Hg0).
  assert (Hg0n : no_nl g0 = true) by (apply ignorable_no_nl; exact Hg0i).
  destruct s0 as [|c after].
  - rewrite Hr, app_nil_r. exact Hg0i.
  - assert (C : ctx lx (pre ++ g0) (c :: after) start).
    { constructor.
      - rewrite byte_len_app. lia.
      - rewrite pos_at_app_no_nl by exact Hg0n. exact Hp.
      - rewrite <- app_assoc, <- Hr. exact Hb. }
    pose proof (match_one_spec prof lx (pre ++ g0) c after start C) as M.
    destruct (match_one prof lx (c :: after) start) as [[r stg| |]| | | | |]; try contradiction; cbn [bind].
    + (* a token *)
      destruct M as (gap2 & sp2 & rest' & Hs0 & Hne & Hgap & Hwf & Hstg & Hend & Hpos & Hnlk & Hsp2).
      set (sp := tspell (lr_token r)) in *.
      assert (Hcons : exists cons', sp ++ gap2 ++ sp2 = c :: cons' /\ after = cons' ++ rest').
      { destruct sp as [|x sp']; [contradiction|]. cbn [app] in Hs0. inversion Hs0; subst x.
        exists (sp' ++ gap2 ++ sp2). split; [reflexivity|]. rewrite <- !app_assoc. reflexivity. }
      destruct Hcons as (cons' & Hc1 & Hc2).
      assert (He : lr_end r = start + utf8_len c + byte_len cons').
      { rewrite Hend, Hc1. cbn [byte_len]. destruct C as [Cs _ _]. lia. }
      rewrite He, Hc2. rewrite boundary_from_app. rewrite debug_assert_true. cbn [bind].
      rewrite advance_to_app.
      exists g0, gap2, sp2. cbn [rest staged].
      repeat split; auto.
      * rewrite Hr, Hs0. reflexivity.
      * destruct Hwf; auto.
      * destruct Hwf; auto.
      * destruct stg as [t2|]; auto. destruct Hstg as (A & B & Cc). repeat split; auto.
        -- destruct Cc as [Cc _]. rewrite Cc. rewrite <- !app_assoc. reflexivity.
        -- destruct Cc as [_ Cc]. rewrite Cc. rewrite <- !app_assoc. reflexivity.
      * cbn [idx]. fold sp.
        replace (pre ++ g0 ++ sp ++ gap2 ++ sp2) with ((pre ++ g0) ++ (sp ++ gap2 ++ sp2)) by (rewrite <- !app_assoc; reflexivity).
        rewrite Hc1, byte_len_app. cbn [byte_len]. destruct C as [Cs _ _]. lia.
      * cbn [cur_line line_start]. eapply eq_trans; [|exact Hpos]. f_equal. rewrite <- !app_assoc. reflexivity.
      * cbn [rest]. eapply N.le_lt_trans; [|exact Hb]. rewrite Hr, Hs0. rewrite <- !app_assoc. apply N.le_refl.
    + (* an ignorable character *)
      assert (Hcn : c <> 10) by (apply ignorable_not_nl; exact M).
      specialize (IH (mkLexer after (start + utf8_len c) (staged lx) (cur_line lx) (line_start lx)) (pre ++ g0 ++ [c])).
      assert (Hlen : length (rest lx) = (length g0 + S (length after))%nat) by (rewrite Hr, app_length; reflexivity).
      cbn [rest] in IH.
      assert (S2 : sinv_core (pre ++ g0 ++ [c]) (mkLexer after (start + utf8_len c) (staged lx) (cur_line lx) (line_start lx))).
      { constructor; cbn [idx rest cur_line line_start].
        - rewrite !byte_len_app, byte_len_single. lia.
        - rewrite app_assoc. rewrite pos_at_app_no_nl by (apply no_nl_cons; auto). destruct C as [_ Cp _]. exact Cp.
        - rewrite <- !app_assoc. cbn [app]. rewrite <- Hr. exact Hb. }
      specialize (IH S2). 
      destruct (match_loop prof f (mkLexer after (start + utf8_len c) (staged lx) (cur_line lx) (line_start lx)))
        as [[[t lx']|]| | | | |]; try (apply IH; lia).
      * destruct IH as (g & gap2 & sp2 & H1 & H2 & H3 & H4 & H5 & H6 & H7 & H8 & H9); [lia|].
        cbn [rest] in H1.
        exists (g0 ++ [c] ++ g), gap2, sp2. repeat split; auto.
        -- rewrite Hr, H1. rewrite <- !app_assoc. reflexivity.
        -- rewrite !forallb_app, Hg0i, H2. cbn. rewrite M. reflexivity.
        -- destruct H5 as [A _]. rewrite A. rewrite <- !app_assoc. reflexivity.
        -- destruct H5 as [_ A]. rewrite A. rewrite <- !app_assoc. reflexivity.
        -- destruct (staged lx') as [t2|]; auto. destruct H6 as (A & B & Cc). repeat split; auto.
           ++ destruct Cc as [Cc _]. rewrite Cc. rewrite <- !app_assoc. reflexivity.
           ++ destruct Cc as [_ Cc]. rewrite Cc. rewrite <- !app_assoc. reflexivity.
        -- destruct H7 as [A _ _]. rewrite A. rewrite <- !app_assoc. reflexivity.
        -- destruct H7 as [_ A _]. rewrite <- A. rewrite <- !app_assoc. reflexivity.
        -- destruct H7 as [_ _ A]. rewrite <- !app_assoc in A. rewrite <- !app_assoc. exact A.
      * rewrite Hr. rewrite forallb_app, Hg0i. cbn [forallb]. rewrite M. cbn. apply IH. lia.
Qed.

(** * The whole token list *)

(** [pstream]: [stream], plus what kind of token may contain a line feed, plus the line the lexer
    reports after each token ([current_line()]): the line of the token's last byte *)
(** the location ([current_loc()]) just after the text [s]: its line, and the byte column within that line *)
Definition loc_after (s : str) : loc := mkLoc (fst (pos_at s)) (byte_len s - snd (pos_at s)).

Inductive pstream : str -> str -> list ptoken -> Prop :=
  | ps_nil pre g : forallb ignorable g = true -> pstream pre g []
  | ps_cons pre g pt rest_ pts :
      forallb ignorable g = true -> tspell (pt_tok pt) <> [] -> tok_wf (pre ++ g) (pt_tok pt) ->
      nlk (pt_tok pt) ->
      pt_line pt = fst (pos_at (pre ++ g ++ tspell (pt_tok pt))) ->
      (* the location reported after the token: just past it and the apostrophes swallowed with it *)
      (exists gap2 r2, rest_ = gap2 ++ r2 /\ forallb is_apos gap2 = true /\
                       pt_loc pt = loc_after (pre ++ g ++ tspell (pt_tok pt) ++ gap2)) ->
      pstream (pre ++ g ++ tspell (pt_tok pt)) rest_ pts ->
      pstream pre (g ++ tspell (pt_tok pt) ++ rest_) (pt :: pts).

Lemma pstream_stream pre s pts : pstream pre s pts -> stream pre s (map pt_tok pts).
Proof. induction 1; cbn [map]; constructor; auto. Qed.

Lemma pstream_eq pre pre' s s' ts : pre = pre' -> s = s' -> pstream pre s ts -> pstream pre' s' ts.
Proof. intros -> ->. auto. Qed.

Lemma pstream_gap p gap s ts : forallb ignorable gap = true -> pstream (p ++ gap) s ts -> pstream p (gap ++ s) ts.
Proof.
  intros Hg H. inversion H as [pre g Hi|pre g pt rest_ ts' Hi Hne Hwf Hk Hl Hc Hs]; subst.
  - apply ps_nil. rewrite forallb_app, Hg, Hi. reflexivity.
  - rewrite app_assoc. apply ps_cons; auto.
    + rewrite forallb_app, Hg, Hi. reflexivity.
    + rewrite app_assoc. exact Hwf.
    + rewrite Hl. f_equal. f_equal. rewrite <- !app_assoc. reflexivity.
    + destruct Hc as (gap2 & r2 & E1 & E2 & E3). exists gap2, r2. repeat split; auto. rewrite E3. f_equal. rewrite <- !app_assoc. reflexivity.
    + eapply pstream_eq; [| reflexivity | exact Hs]. rewrite <- !app_assoc. reflexivity.
Qed.

Definition stream_staged (pre : str) (lx : lexer) (ts : list ptoken) : Prop :=
  match staged lx with
  | None => pstream pre (rest lx) ts
  | Some t2 => exists pt ts', ts = pt :: ts' /\ pt_tok pt = t2 /\ pt_line pt = fst (pos_at pre) /\ pt_loc pt = loc_after pre /\
                              pstream pre (rest lx) ts'
  end.

Definition measure (lx : lexer) : nat :=
  (2 * length (rest lx) + match staged lx with Some _ => 1 | None => 0 end)%nat.

Lemma nonempty_length {A} (l : list A) : l <> [] -> (1 <= length l)%nat.
Proof. destruct l; [contradiction|cbn; lia]. Qed.

Definition staged_ok2 (pre : str) (lx : lexer) : Prop :=
  match staged lx with
  | None => True
  | Some t2 => tspell t2 <> [] /\ no_nl (tspell t2) = true /\ exists pre0, pre = pre0 ++ tspell t2 /\ tok_wf pre0 t2
  end.

Lemma post_state_line buflen lx ln lc : post_state buflen lx = (ln, lc) -> ln = cur_line lx.
Proof. unfold post_state. intro H. injection H as <- _. reflexivity. Qed.

(** the location the lexer reports in a state: after the text [upto], where [upto] ends at the staged token's
    start, or at the current index *)
Lemma post_state_loc buflen lx ln lc upto :
  post_state buflen lx = (ln, lc) -> pos_at upto = (cur_line lx, line_start lx) -> current_idx buflen lx = byte_len upto ->
  lc = loc_after upto.
Proof.
  unfold post_state, loc_after. intros H Hp Hi. injection H as _ <-. rewrite Hp, Hi. reflexivity.
Qed.

Lemma lex_all_spec prof buflen : forall fuel lx pre,
  sinv_core pre lx -> staged_ok2 pre lx -> (measure lx < fuel)%nat -> buflen = byte_len (pre ++ rest lx) ->
  exists pts, lex_all prof fuel buflen lx = Ok pts /\ stream_staged pre lx pts.
Proof.
  induction fuel as [|f IH]; intros lx pre SC SO Hm Hbuf; [lia|].
  cbn [lex_all]. unfold lexer_next. unfold stream_staged, staged_ok2, measure in *.
  destruct (staged lx) as [t2|] eqn:Est.
  - (* the staged suffix token comes out first *)
    cbn [bind].
    set (lx0 := mkLexer (rest lx) (idx lx) None (cur_line lx) (line_start lx)).
    destruct (post_state buflen lx0) as [ln lc] eqn:Eps. pose proof (post_state_line _ _ _ _ Eps) as Eln.
    assert (Eloc : lc = loc_after pre).
    { eapply post_state_loc; [exact Eps| |].
      - destruct SC as [_ B _]. exact B.
      - unfold current_idx. cbn [staged lx0 rest idx]. destruct SC as [A _ _].
        destruct (rest lx) eqn:Er; [rewrite Hbuf, app_nil_r; reflexivity|exact A]. }
    destruct (IH lx0 pre) as (pts & Hl & Hs).
    + destruct SC as [A B Cc]. constructor; auto.
    + unfold staged_ok2. cbn. exact I.
    + unfold measure. cbn [rest staged lx0]. lia.
    + exact Hbuf.
    + rewrite Hl. cbn [bind]. eexists. split; [reflexivity|].
      unfold stream_staged in Hs. cbn [staged lx0 rest] in Hs. eexists. eexists. split; [reflexivity|].
      cbn [pt_tok pt_line pt_loc]. repeat split; auto. rewrite Eln. cbn [lx0 cur_line]. destruct SC as [_ B _]. rewrite B. reflexivity.
  - pose proof (match_loop_spec prof (S (length (rest lx))) lx pre SC (Nat.lt_succ_diag_r _)) as M.
    destruct (match_loop prof (S (length (rest lx))) lx) as [[[t lx']|]| | | | |]; try contradiction; cbn [bind].
    + destruct M as (g & gap2 & sp2 & H1 & H2 & H3 & H4 & H5 & H6 & H7 & H8 & H9).
      destruct (post_state buflen lx') as [ln lc] eqn:Eps. pose proof (post_state_line _ _ _ _ Eps) as Eln.
      assert (Hlen : length (rest lx) = (length g + (length (tspell t) + (length gap2 + (length sp2 + length (rest lx')))))%nat)
        by (rewrite H1, !app_length; reflexivity).
      pose proof (nonempty_length _ H3) as L1.
      assert (Hnl2 : no_nl (gap2 ++ sp2) = true).
      { rewrite no_nl_app. rewrite H9, andb_true_r. apply forallb_apos_no_nl. exact H4. }
      assert (Hline : ln = fst (pos_at (pre ++ g ++ tspell t))).
      { rewrite Eln. destruct H7 as [_ B _].
        assert (E : pre ++ g ++ tspell t ++ gap2 ++ sp2 = (pre ++ g ++ tspell t) ++ (gap2 ++ sp2)) by (rewrite <- !app_assoc; reflexivity).
        rewrite E in B. rewrite pos_at_app_no_nl in B by exact Hnl2. rewrite B. reflexivity. }
      assert (Hbuf' : buflen = byte_len ((pre ++ g ++ tspell t ++ gap2 ++ sp2) ++ rest lx')).
      { rewrite Hbuf, H1. rewrite <- !app_assoc. reflexivity. }
      assert (Hloc : lc = loc_after (pre ++ g ++ tspell t ++ gap2)).
      { eapply post_state_loc; [exact Eps| |].
        - destruct H7 as [_ B _].
          assert (E : pre ++ g ++ tspell t ++ gap2 ++ sp2 = (pre ++ g ++ tspell t ++ gap2) ++ sp2) by (rewrite <- ?app_assoc; reflexivity).
          rewrite E in B. rewrite pos_at_app_no_nl in B by exact H9. exact B.
        - unfold current_idx. destruct (staged lx') as [t2|].
          + destruct H6 as (A & B & Cc). destruct Cc as [Cs _]. rewrite Cs. rewrite <- ?app_assoc. reflexivity.
          + subst sp2. destruct H7 as [A _ _]. rewrite app_nil_r in A. rewrite <- ?app_assoc in A.
            destruct (rest lx') eqn:Er; [|exact A].
            rewrite Hbuf', app_nil_r, app_nil_r. rewrite <- ?app_assoc. reflexivity. }
      destruct (IH lx' (pre ++ g ++ tspell t ++ gap2 ++ sp2)) as (pts & Hl & Hs); auto.
      * unfold staged_ok2. destruct (staged lx') as [t2|]; auto. destruct H6 as (A & B & Cc).
        split; [rewrite <- A; exact B|]. split; [rewrite <- A; exact H9|]. exists (pre ++ g ++ tspell t ++ gap2). split.
        -- rewrite A. rewrite <- !app_assoc. reflexivity.
        -- exact Cc.
      * unfold measure. destruct (staged lx') as [t2|].
        -- destruct H6 as (A & B & Cc). pose proof (nonempty_length _ B) as L2. lia.
        -- lia.
      * rewrite Hl. cbn [bind]. eexists. split; [reflexivity|].
        rewrite H1. apply (ps_cons pre g (mkPT t ln lc)); auto.
        -- cbn [pt_tok pt_loc]. exists gap2, (sp2 ++ rest lx'). repeat split; auto.
        -- unfold stream_staged in Hs. destruct (staged lx') as [t2|].
           ++ destruct H6 as (A & B & Cc). destruct Hs as (pt & ts' & E & Ept & Elin & Elc & Hs). rewrite E. subst sp2. cbn [pt_tok].
              rewrite <- Ept. apply ps_cons; auto.
              ** apply apos_ignorable; exact H4.
              ** rewrite Ept. exact B.
              ** rewrite Ept. eapply tok_wf_eq; [|exact Cc]. rewrite <- !app_assoc. reflexivity.
              ** left. rewrite Ept. exact H9.
              ** rewrite Elin. f_equal. f_equal. rewrite Ept. rewrite <- !app_assoc. reflexivity.
              ** exists [], (rest lx'). repeat split; auto. rewrite Elc, app_nil_r. f_equal. rewrite Ept. rewrite <- !app_assoc. reflexivity.
              ** eapply pstream_eq; [| reflexivity | exact Hs]. rewrite Ept. rewrite <- !app_assoc. reflexivity.
           ++ subst sp2. cbn [app pt_tok]. apply pstream_gap; [apply apos_ignorable; exact H4|].
              eapply pstream_eq; [| reflexivity | exact Hs]. rewrite <- !app_assoc, app_nil_r. reflexivity.
    + eexists. split; [reflexivity|]. apply ps_nil. exact M.
Qed.

(** ** C12 / C01: the lexer is total and its tokens are the source, cut up *)
Theorem lex_pstream prof src :
  byte_len src < u32_limit ->
  exists pts, lex prof src = Ok pts /\ pstream [] src pts.
Proof.
  intro Hb. unfold lex.
  destruct (lex_all_spec prof (byte_len src) (2 * length src + 2) (lexer_init src) []) as (pts & Hl & Hs).
  - constructor; cbn; auto.
  - exact I.
  - unfold measure. cbn. lia.
  - reflexivity.
  - exists pts. split; auto.
Qed.

Theorem lex_stream prof src :
  byte_len src < u32_limit ->
  exists pts, lex prof src = Ok pts /\ stream [] src (map pt_tok pts).
Proof.
  intro Hb. destruct (lex_pstream prof src Hb) as (pts & Hl & Hs). exists pts. split; auto. apply pstream_stream. exact Hs.
Qed.

Corollary lex_total prof src : byte_len src < u32_limit -> exists pts, lex prof src = Ok pts.
Proof. intro H. destruct (lex_stream prof src H) as (pts & Hl & _). exists pts. exact Hl. Qed.
