(** C01 / C13: the front end as a whole. *)
From Coq Require Import List ZArith NArith Bool Lia Sorting.Sorted.
From RRSS Require Import Base.Outcome Base.Chars Base.F64 Base.F64Text Exec.Ops Front.Ast Front.Token Front.Lexer Front.Parser.
From RRSS Require Import Front.ParseErrorText.
From RRSS Require Import Proofs.LexBasics Proofs.LexPos Proofs.LexSpec Proofs.LexStream Proofs.LexCorollaries Proofs.ParseSafe Proofs.ParseFuel.
Import ListNotations.
Open Scope N_scope.

Lemma sorted_filter {A} (R : A -> A -> Prop) (f : A -> bool) l : StronglySorted R l -> StronglySorted R (filter f l).
Proof.
  induction 1 as [|x l Hs IH Hf]; cbn; [constructor|]. destruct (f x); auto. constructor; auto.
  rewrite Forall_forall in *. intros y Hy. apply filter_In in Hy. apply Hf. tauto.
Qed.

Lemma map_filter_comm (f : ptoken -> bool) (g : token -> bool) l :
  (forall pt, f pt = g (pt_tok pt)) -> map pt_tok (filter f l) = filter g (map pt_tok l).
Proof. intro H. induction l as [|x l IH]; cbn; auto. rewrite H. destruct (g (pt_tok x)); cbn; congruence. Qed.

Lemma TI_lexed prof src pts : lex prof src = Ok pts -> byte_len src < u32_limit -> TI src (drop_comments pts).
Proof.
  intros Hl Hb. destruct (lex_stream prof src Hb) as (pts' & Hl' & Hs). rewrite Hl in Hl'. injection Hl' as <-.
  split.
  - unfold drop_comments. rewrite (map_filter_comm _ (fun t => negb (is_comment t))) by reflexivity.
    apply sorted_filter. eapply stream_sorted; eauto.
  - unfold drop_comments. rewrite Forall_forall. intros pt Hin. apply filter_In in Hin as [Hin _].
    pose proof (stream_tokens _ _ _ Hs) as F. rewrite Forall_forall in F. apply F. apply in_map. exact Hin.
Qed.

(** every error the parser can report over a lexed token list renders *)
Lemma render_ok_displays e : render_ok e -> exists text, parse_error_display e = Ok text.
Proof.
  unfold render_ok, parse_error_display. destruct e as [c l]. cbn [pe_code pe_loc].
  destruct c; intro H; cbn [bind]; try (eexists; reflexivity).
  - destruct p; try contradiction; eexists; reflexivity.
  - assert (Hw : exists x, write_list (map ttype_name ts) = Ok x).
    { unfold write_list. destruct ts as [|a [|b [|c0 r]]]; [contradiction| | |]; cbn [map]; eexists; reflexivity. }
    destruct Hw as [x Hx]. rewrite Hx. eexists; reflexivity.
  - destruct l; [eexists; reflexivity|contradiction].
Qed.

(** * C01: no source text (shorter than 4 GiB) makes the front end panic or slice out of bounds,
    in either build profile; what it returns is a program or an error that renders. *)
Theorem parse_never_crashes prof src :
  byte_len src < u32_limit ->
  match parse prof src with
  | ParseOk _ => True
  | ParseErr e => exists text, parse_error_display e = Ok text
  | ParseCrash _ _ => False
  | ParseOutOfFuel => True
  end.
Proof.
  intro Hb. unfold parse.
  destruct (lex_stream prof src Hb) as (pts & Hl & _). rewrite Hl.
  pose proof (TI_lexed prof src pts Hl Hb) as HT.
  set (ts := drop_comments pts) in *.
  pose proof (parse_blocks_ok prof src ts HT (parse_fuel (length ts)) (mkPS ts 1 (mkLoc 1 0) false) []) as H.
  assert (S0 : SI ts (mkPS ts 1 (mkLoc 1 0) false)) by (exists []; split; reflexivity).
  specialize (H S0).
  destruct (parse_blocks prof src (parse_fuel (length ts)) (mkPS ts 1 (mkLoc 1 0) false) []); cbn [okpure] in H; auto.
  destruct H as [Hr _]. apply render_ok_displays. exact Hr.
Qed.

(** * C13: where errors are reported *)

(** the line shown in a parse error *)
Theorem error_line_is_token_line e t : pe_loc e = PLTok t -> perr_line e = line (rstart (trange t)).
Proof. intro H. unfold perr_line. rewrite H. reflexivity. Qed.

(** every error is located at a token of the (comment-free) token list, or, when the input ended,
    at the line the lexer had reached after the last token *)
Theorem parse_error_located prof src e :
  byte_len src < u32_limit -> parse prof src = ParseErr e ->
  exists pts, lex prof src = Ok pts /\
    match pe_loc e with
    | PLTok t => In t (map pt_tok (drop_comments pts))
    | PLLine n => n = line_after (drop_comments pts)
    end.
Proof.
  intros Hb Hp. unfold parse in Hp.
  destruct (lex_stream prof src Hb) as (pts & Hl & _). rewrite Hl in Hp. exists pts. split; auto.
  pose proof (TI_lexed prof src pts Hl Hb) as HT.
  set (ts := drop_comments pts) in *.
  pose proof (parse_blocks_ok prof src ts HT (parse_fuel (length ts)) (mkPS ts 1 (mkLoc 1 0) false) []) as H.
  assert (S0 : SI ts (mkPS ts 1 (mkLoc 1 0) false)) by (exists []; split; reflexivity).
  specialize (H S0).
  destruct (parse_blocks prof src (parse_fuel (length ts)) (mkPS ts 1 (mkLoc 1 0) false) []); try discriminate.
  injection Hp as <-. cbn [okpure] in H. destruct H as [_ Hloc]. exact Hloc.
Qed.

(** and the token an error points at carries its true line (C12) *)
Theorem parse_error_token_line prof src e t :
  byte_len src < u32_limit -> parse prof src = ParseErr e -> pe_loc e = PLTok t ->
  exists a b, src = a ++ tspell t ++ b /\ perr_line e = 1 + count_nl a.
Proof.
  intros Hb Hp Hloc. destruct (parse_error_located prof src e Hb Hp) as (pts & Hl & H). rewrite Hloc in H.
  destruct (lex_stream prof src Hb) as (pts' & Hl' & Hs). rewrite Hl in Hl'. injection Hl' as <-.
  pose proof (stream_tokens _ _ _ Hs) as F. rewrite Forall_forall in F.
  assert (Hin : In t (map pt_tok pts)).
  { unfold drop_comments in H. apply in_map_iff in H as (pt & E & Hin). apply filter_In in Hin as [Hin _].
    apply in_map_iff. exists pt. auto. }
  destruct (F t Hin) as (a & b & E & [W1 W2] & _). exists a, b. split; [exact E|].
  rewrite (error_line_is_token_line e t Hloc). rewrite W2. unfold tok_range.
  pose proof (pos_at_line a) as L. destruct (pos_at a) as [ln ls]. cbn [fst] in L.
  destruct (tid t); try (destruct (pos_at (a ++ tspell t))); cbn; exact L.
Qed.

(** * A program is accepted only when every token was consumed: nothing is silently dropped *)

(** [parse_blocks], also returning the state it stopped in *)
Fixpoint parse_blocks_st (prof : profile) (buf : str) (fuel : nat) (s : pstate) (acc : list block) : pres (program * pstate) :=
  match fuel with
  | O => OutOfFuel
  | S f =>
      match current s with
      | None => Ok (acc, s)
      | Some _ =>
          let* (b, s1) := parse_block prof buf fuel s in
          let acc' := if block_is_empty b then acc else acc ++ [b] in
          if current_matches (is_id TElse) s1 then fail s1 PUnexpectedToken
          else parse_blocks_st prof buf f s1 acc'
      end
  end.

Lemma parse_blocks_st_agrees prof buf : forall fuel s acc,
  parse_blocks prof buf fuel s acc = (let* (p, _) := parse_blocks_st prof buf fuel s acc in Ok p).
Proof.
  induction fuel as [|f IH]; intros s acc; cbn [parse_blocks parse_blocks_st]; [reflexivity|].
  destruct (current s); [|reflexivity].
  destruct (parse_block prof buf (S f) s) as [[b s1]| | | | |]; cbn [bind]; try reflexivity.
  destruct (current_matches (is_id TElse) s1); [reflexivity|]. apply IH.
Qed.

Lemma parse_blocks_st_end prof buf : forall fuel s acc p s',
  parse_blocks_st prof buf fuel s acc = Ok (p, s') -> toks s' = [].
Proof.
  induction fuel as [|f IH]; intros s acc p s' H; cbn [parse_blocks_st] in H; [discriminate|].
  destruct (current s) as [t|] eqn:Ec.
  - destruct (parse_block prof buf (S f) s) as [[b s1]| | | | |]; cbn [bind] in H; try discriminate.
    destruct (current_matches (is_id TElse) s1); [discriminate|]. eapply IH; eauto.
  - injection H as <- <-. unfold current in Ec. destruct (toks s); [reflexivity|discriminate].
Qed.

Theorem accepted_consumes_all prof buf fuel s acc p :
  parse_blocks prof buf fuel s acc = Ok p ->
  exists s', parse_blocks_st prof buf fuel s acc = Ok (p, s') /\ toks s' = [].
Proof.
  intro H. rewrite parse_blocks_st_agrees in H.
  destruct (parse_blocks_st prof buf fuel s acc) as [[p' s']| | | | |] eqn:E; cbn [bind] in H; try discriminate.
  injection H as <-. exists s'. split; auto. eapply parse_blocks_st_end; eauto.
Qed.

(** * Faults that every statement context rejects *)

(** an error token (invalid identifier, unterminated string, stray character) where a statement must
    start is rejected, and the error points at that token *)
Theorem error_token_rejected prof buf f s t m :
  current s = Some t -> tid t = TError m ->
  parse_statement prof buf (S f) s = Err (mkPE PUnexpectedToken (PLTok t)).
Proof.
  intros Hc Ht. cbn [parse_statement]. rewrite Hc, Ht. unfold fail, new_error. rewrite Hc. reflexivity.
Qed.

(** after a statement only an optional , or . and then a line break or the end of input may follow *)
Theorem expect_eol_rejects s t :
  current (skip_opt (is_one_of [TComma; TDot]) s) = Some t -> ttype_eqb (tid t) TNewline = false ->
  expect_eol s = Err (mkPE (PExpectedToken TNewline) (PLTok t)).
Proof.
  intros Hc Ht. unfold expect_eol, expect_token_or_end. rewrite Hc, Ht. cbn [bind]. unfold fail, new_error. rewrite Hc. reflexivity.
Qed.

(** two statements on one line: the second statement's first token is reported *)
Theorem second_statement_on_line_rejected prof buf f inf s acc st s1 t :
  parse_statement prof buf f s = Ok (Some st, s1) ->
  inf && is_function_terminator st = false ->
  current (skip_opt (is_one_of [TComma; TDot]) s1) = Some t -> ttype_eqb (tid t) TNewline = false ->
  block_statements prof buf (S f) inf s acc = Err (mkPE (PExpectedToken TNewline) (PLTok t)).
Proof.
  intros Hp Hterm Hc Ht. simpl block_statements. rewrite Hp. cbn [bind]. rewrite Hterm.
  rewrite (expect_eol_rejects s1 t Hc Ht). reflexivity.
Qed.

(** a missing operand at the end of the input *)
Theorem missing_operand_at_end prof f s :
  toks s = [] ->
  parse_non_subscript_primary prof (S (S f)) s = Err (mkPE PExpectedPrimaryExpression (PLLine (pline s))).
Proof.
  intro H.
  assert (Hc : current s = None) by (unfold current; rewrite H; reflexivity).
  assert (Hm : forall m, match_and_consume m s = None) by (intro m; unfold match_and_consume; rewrite Hc; reflexivity).
  cbn [parse_non_subscript_primary parse_identifier_or_call]. unfold parse_pronoun. rewrite Hm.
  unfold parse_variable_name, parse_common_identifier. rewrite Hm. cbn [bind].
  unfold parse_capitalized_identifier. cbn [length capitalized_words]. rewrite H. cbn [length capitalized_words]. rewrite Hc. cbn [bind].
  unfold parse_simple_identifier. rewrite Hm. cbn [bind].
  unfold parse_literal_expression. rewrite Hc. rewrite Hm. unfold fail, new_error. rewrite Hc. reflexivity.
Qed.

(** * C01, complete: every source shorter than 4 GiB yields a program or a parse error that renders —
    no panic, no unchecked access, and the model's fuel (every loop consumes a token) never runs out *)
Theorem parse_total prof src :
  byte_len src < u32_limit ->
  (exists p, parse prof src = ParseOk p) \/
  (exists e text, parse prof src = ParseErr e /\ parse_error_display e = Ok text).
Proof.
  intro Hb. pose proof (parse_never_crashes prof src Hb) as H1. pose proof (parse_fuel_suffices prof src) as H2.
  destruct (lex_total prof src Hb) as [pts Hl].
  destruct (parse prof src) as [p|e|st ub|].
  - left. eauto.
  - right. destruct H1 as [text Ht]. eauto.
  - contradiction.
  - rewrite Hl in H2. destruct H2; discriminate.
Qed.

(** an error reported "at end of input" names the line of the last byte of the last (non-comment)
    token of the source — line 1 if there is none *)
Theorem parse_error_eof_line prof src e n :
  byte_len src < u32_limit -> parse prof src = ParseErr e -> pe_loc e = PLLine n ->
  exists pts, lex prof src = Ok pts /\
    match rev (drop_comments pts) with
    | [] => n = 1
    | pt :: _ => n = pt_line pt /\ In pt pts /\ ptok_in src pt
    end.
Proof.
  intros Hb Hp Hloc. destruct (parse_error_located prof src e Hb Hp) as (pts & Hl & H). rewrite Hloc in H.
  exists pts. split; auto. unfold line_after in H.
  pose proof (lex_post_lines prof src pts Hb Hl) as F. rewrite Forall_forall in F.
  destruct (rev (drop_comments pts)) as [|pt r] eqn:E; auto.
  assert (Hin : In pt pts).
  { assert (In pt (drop_comments pts)) by (apply in_rev; rewrite E; left; reflexivity).
    unfold drop_comments in H0. apply filter_In in H0. tauto. }
  repeat split; auto.
Qed.
