(** C02: every expression tree the parser returns is one the declarative grammar
    (Front/Grammar.v) assigns to exactly the tokens it consumed: precedence, left associativity,
    list operands, `is`-comparisons, subscripts and calls. *)
From Coq Require Import List ZArith NArith Bool Lia.
From RRSS Require Import Base.Outcome Base.Chars Base.F64 Exec.Ops Front.Ast Front.Token Front.Lexer Front.Parser Front.Grammar.
Import ListNotations.

Definition ptoks (s : pstate) : list token := map pt_tok (toks s).

Definition sound {A} (G : list token -> A -> Prop) (p : P A) : Prop :=
  forall s x s', p s = Ok (x, s') -> exists ts, ptoks s = ts ++ ptoks s' /\ G ts x.

Lemma bind_ok {E A B} (m : res E A) (f : A -> res E B) r : bind m f = Ok r -> exists x, m = Ok x /\ f x = Ok r.
Proof. destruct m; cbn; try discriminate. intro H. eauto. Qed.

Ltac inv_bind H :=
  let x := fresh "x" in let Hm := fresh "Hm" in
  apply bind_ok in H; destruct H as (x & Hm & H).

Lemma advance_toks s t s' : advance s = Some (t, s') -> ptoks s = t :: ptoks s' /\ plist s' = plist s.
Proof.
  unfold advance, ptoks. destruct (toks s) as [|pt r]; [discriminate|]. intro H. injection H as <- <-. cbn. auto.
Qed.

Lemma mac_toks m s t s' : match_and_consume m s = Some (t, s') ->
  ptoks s = t :: ptoks s' /\ m t = true /\ current s = Some t.
Proof.
  unfold match_and_consume. destruct (current s) as [t0|] eqn:Ec; [|discriminate].
  destruct (m t0) eqn:Em; [|discriminate]. intro H. destruct (advance_toks _ _ _ H) as [A _].
  assert (t0 = t).
  { unfold current in Ec. unfold advance in H. destruct (toks s); [discriminate|]. injection Ec as <-. injection H as <- _. reflexivity. }
  subst t0. auto.
Qed.

Lemma current_head s t : current s = Some t -> exists r, ptoks s = t :: r.
Proof. unfold current, ptoks. destruct (toks s) as [|pt r]; [discriminate|]. intro H. injection H as <-. cbn. eauto. Qed.

Lemma skip_opt_toks m s :
  exists l, ptoks s = l ++ ptoks (skip_opt m s) /\ (l = [] \/ exists t, l = [t] /\ m t = true).
Proof.
  unfold skip_opt. destruct (match_and_consume m s) as [[t s']|] eqn:E.
  - destruct (mac_toks _ _ _ _ E) as (A & B & _). exists [t]. split; auto. right. eauto.
  - exists []. auto.
Qed.

Lemma ptoks_flag s b : ptoks (mkPS (toks s) (pline s) (ploc s) b) = ptoks s.
Proof. reflexivity. Qed.

Section Sound.
Variable prof : profile.

(** * Identifiers *)
Definition G_optvar (ts : list token) (o : option (varname * range)) : Prop :=
  match o with Some (n, _) => g_var ts n | None => ts = [] end.

Lemma parse_common_identifier_sound : sound G_optvar parse_common_identifier.
Proof.
  intros s x s' H. unfold parse_common_identifier in H.
  destruct (match_and_consume (is_id TCommonVariablePrefix) s) as [[p s1]|] eqn:E1.
  - destruct (mac_toks _ _ _ _ E1) as (A1 & B1 & _).
    destruct (match_and_consume (fun t => is_word (tspell t)) s1) as [[w s2]|] eqn:E2; [|discriminate].
    destruct (mac_toks _ _ _ _ E2) as (A2 & B2 & _). injection H as <- <-.
    exists [p; w]. split; [rewrite A1, A2; reflexivity|]. cbn. apply gv_common; auto.
    unfold is_id in B1. destruct (tid p); cbn in B1; try discriminate. reflexivity.
  - injection H as <- <-. exists []. split; auto. reflexivity.
Qed.

Lemma capitalized_words_sound : forall fuel s names acc names' acc' s',
  capitalized_words fuel s names acc = Ok (names', acc', s') ->
  exists ts, ptoks s = ts ++ ptoks s' /\ names' = names ++ map tspell ts /\
             Forall (fun t => tid t = TWord /\ is_capitalized_word t = Ok true) ts.
Proof.
  induction fuel as [|f IH]; intros s names acc names' acc' s' H; cbn [capitalized_words] in H; [discriminate|].
  destruct (current s) as [t|] eqn:Ec.
  - inv_bind H. destruct x.
    + destruct (advance s) as [[t' s1]|] eqn:Ea.
      * destruct (advance_toks _ _ _ Ea) as [A _].
        assert (t' = t). { destruct (current_head _ _ Ec) as [r Hr]. rewrite Hr in A. injection A as <- _. reflexivity. }
        subst t'.
        destruct (IH _ _ _ _ _ _ H) as (ts & B & Cn & D). exists (t :: ts). repeat split.
        -- rewrite A, B. reflexivity.
        -- rewrite Cn. rewrite <- app_assoc. reflexivity.
        -- constructor; auto. split; auto. unfold is_capitalized_word in Hm. destruct (tid t); try discriminate. reflexivity.
      * injection H as <- <- <-. exists []. repeat split; auto. rewrite app_nil_r. reflexivity.
    + injection H as <- <- <-. exists []. repeat split; auto. rewrite app_nil_r. reflexivity.
  - injection H as <- <- <-. exists []. repeat split; auto. rewrite app_nil_r. reflexivity.
Qed.

Lemma parse_capitalized_identifier_sound : sound G_optvar (parse_capitalized_identifier prof).
Proof.
  intros s x s' H. unfold parse_capitalized_identifier in H. inv_bind H. destruct x0 as [[names acc] s1].
  destruct (capitalized_words_sound _ _ _ _ _ _ _ Hm) as (ts & A & B & F). cbn [app] in B.
  destruct names as [|n [|n2 r]].
  - injection H as <- <-. exists ts. split; auto. destruct ts; [reflexivity|discriminate].
  - destruct acc; [|destruct prof; discriminate]. injection H as <- <-. exists ts. split; auto.
    destruct ts as [|t [|t2 rr]]; try discriminate. injection B as ->. cbn. apply gv_simple.
    inversion F as [|? ? [Ht _] _]; auto.
  - destruct acc; [|destruct prof; discriminate]. injection H as <- <-. exists ts. split; auto.
    cbn. rewrite B. apply gv_proper; auto. destruct ts as [|t [|t2 r']]; try discriminate. cbn. lia.
Qed.

Lemma parse_variable_name_sound : sound G_optvar (parse_variable_name prof).
Proof.
  intros s x s' H. unfold parse_variable_name in H. inv_bind H. destruct x0 as [c s1].
  destruct (parse_common_identifier_sound _ _ _ Hm) as (t1 & A1 & G1).
  destruct c as [[n r]|].
  - injection H as <- <-. exists t1. auto.
  - cbn in G1. subst t1. inv_bind H. destruct x0 as [k s2].
    destruct (parse_capitalized_identifier_sound _ _ _ Hm0) as (t2 & A2 & G2).
    destruct k as [[n r]|].
    + injection H as <- <-. exists t2. split; auto. rewrite A1. exact A2.
    + cbn in G2. subst t2. unfold parse_simple_identifier in H.
      destruct (match_and_consume (is_id TWord) s2) as [[t s3]|] eqn:E.
      * destruct (mac_toks _ _ _ _ E) as (A3 & B3 & _). injection H as <- <-. exists [t]. split.
        -- rewrite A1, A2, A3. reflexivity.
        -- cbn. apply gv_simple. unfold is_id in B3. destruct (tid t); cbn in B3; try discriminate. reflexivity.
      * injection H as <- <-. exists []. split; [rewrite A1, A2; reflexivity|reflexivity].
Qed.

(** * Combinators *)
Section Comb.
  Variable next : P expr.
  Variable L : nat.
  Hypothesis next_sound : sound (g L) next.

  Lemma comma_and s1 : forall t s0, match_and_consume (is_id TComma) s0 = Some (t, s1) ->
    exists tc, ptoks s0 = tc ++ ptoks (skip_opt (is_id TAnd) s1) /\ g_comma tc.
  Proof.
    intros t s0 E. destruct (mac_toks _ _ _ _ E) as (A & B & _).
    assert (Ht : tid t = TComma) by (unfold is_id in B; destruct (tid t); cbn in B; try discriminate; reflexivity).
    destruct (skip_opt_toks (is_id TAnd) s1) as (l & Hl & [->|(a & -> & Ha)]).
    - exists [t]. split; [rewrite A, Hl; reflexivity|apply gc_comma; auto].
    - exists [t; a]. split; [rewrite A, Hl; reflexivity|]. apply gc_comma_and; auto.
      unfold is_id in Ha. destruct (tid a); cbn in Ha; try discriminate; reflexivity.
  Qed.

  Lemma list_tail_sound : forall fuel s acc acc' s',
    list_tail next fuel s acc = Ok (acc', s') ->
    forall ts0 l0, g_list L ts0 l0 ->
    exists ts l, ptoks s = ts ++ ptoks s' /\ acc' = acc ++ l /\ g_list L (ts0 ++ ts) (l0 ++ l).
  Proof.
    induction fuel as [|f IH]; intros s acc acc' s' H ts0 l0 G0; cbn [list_tail] in H; [discriminate|].
    destruct (match_and_consume (is_id TComma) s) as [[t s1]|] eqn:E.
    - destruct (comma_and _ _ _ E) as (tc & A & Gc).
      inv_bind H. destruct x as [e s3]. destruct (next_sound _ _ _ Hm) as (te & B & Ge).
      destruct (IH _ _ _ _ H (ts0 ++ tc ++ te) (l0 ++ [e])) as (ts & l & Cc & D & Gl).
      + apply gl_snoc; auto.
      + exists (tc ++ te ++ ts), ([e] ++ l). repeat split.
        * rewrite A, B, Cc. rewrite <- ?app_assoc. reflexivity.
        * rewrite D. rewrite <- app_assoc. reflexivity.
        * rewrite <- ?app_assoc in Gl. rewrite <- ?app_assoc. exact Gl.
    - injection H as <- <-. exists [], []. rewrite !app_nil_r. auto.
  Qed.

  Lemma parse_expression_list_sound fuel s first rest_ s' :
    parse_expression_list next fuel s = Ok (first, rest_, s') ->
    exists tf tr, ptoks s = tf ++ tr ++ ptoks s' /\ g L tf first /\ g_list L tr rest_.
  Proof.
    intro H. unfold parse_expression_list in H. inv_bind H. destruct x as [f1 s1].
    destruct (next_sound _ _ _ Hm) as (tf & A & Gf).
    destruct (plist s1).
    - injection H as <- <- <-. exists tf, []. repeat split; auto. constructor.
    - inv_bind H. destruct x as [r s3].
      destruct (list_tail_sound _ _ _ _ _ Hm0 [] [] (gl_nil L)) as (ts & l & B & D & Gl).
      injection H as <- <- <-. cbn [app] in D, Gl. subst r. exists tf, ts. repeat split; auto.
      rewrite A. rewrite ptoks_flag in B. rewrite B. reflexivity.
  Qed.

  Lemma binary_loop_sound : forall fuel e s e' s',
    binary_loop next (ops_at (S L)) fuel e s = Ok (e', s') ->
    exists ts, ptoks s = ts ++ ptoks s' /\ forall tl, g (S L) tl e -> g (S L) (tl ++ ts) e'.
  Proof.
    induction fuel as [|f IH]; intros e s e' s' H; cbn [binary_loop] in H; [discriminate|].
    destruct (match_and_consume (is_one_of (ops_at (S L))) s) as [[t s1]|] eqn:E.
    - destruct (mac_toks _ _ _ _ E) as (A & B & _).
      inv_bind H. unfold unwrap_op in Hm. destruct (get_binary_operator (tid t)) as [op|] eqn:Eop; [|discriminate].
      injection Hm as <-. inv_bind H. destruct x as [[first r] s2].
      destruct (parse_expression_list_sound _ _ _ _ _ Hm) as (tf & tr & A2 & Gf & Gr).
      destruct (IH _ _ _ _ H) as (ts & A3 & K).
      exists ([t] ++ tf ++ tr ++ ts). split.
      + rewrite A, A2, A3. rewrite <- ?app_assoc. reflexivity.
      + intros tl Gl. specialize (K (tl ++ [t] ++ tf ++ tr)).
        rewrite <- ?app_assoc in K. rewrite <- ?app_assoc. apply K.
        apply (g_bin L tl e t op tf first tr r); auto.
    - injection H as <- <-. exists []. split; auto. intros tl Gl. rewrite app_nil_r. exact Gl.
  Qed.

  Lemma parse_binary_expression_sound fuel : (1 <= L)%nat -> sound (g (S L)) (parse_binary_expression next (ops_at (S L)) fuel).
  Proof.
    intros HL s e s' H. unfold parse_binary_expression in H. inv_bind H. destruct x as [e0 s1].
    destruct (next_sound _ _ _ Hm) as (t0 & A & G0).
    destruct (binary_loop_sound _ _ _ _ _ H) as (ts & B & K).
    exists (t0 ++ ts). split; [rewrite A, B, app_assoc; reflexivity|]. apply K. apply g_up; auto.
  Qed.
End Comb.

(** arguments of a call *)
Section Args.
  Variable p : P expr.
  Hypothesis p_sound : sound (g 1) p.

  Lemma param_tail_sound : forall fuel s acc acc' s',
    param_tail p fuel s acc = Ok (acc', s') ->
    forall ts0, g_args ts0 acc -> exists ts, ptoks s = ts ++ ptoks s' /\ g_args (ts0 ++ ts) acc'.
  Proof.
    induction fuel as [|f IH]; intros s acc acc' s' H ts0 G0; cbn [param_tail] in H; [discriminate|].
    destruct (match_and_consume (is_one_of param_seps) s) as [[sep s1]|] eqn:E.
    - destruct (mac_toks _ _ _ _ E) as (A & B & _).
      assert (Hsep : exists tsep, ptoks s = tsep ++ ptoks (match tid sep with TComma => skip_opt (is_id TAnd) s1 | _ => s1 end) /\ g_argsep tsep).
      { assert (Hdef : exists tsep, ptoks s = tsep ++ ptoks s1 /\ g_argsep tsep)
          by (exists [sep]; split; [rewrite A; reflexivity|apply ga_sep; auto]).
        destruct (tid sep) eqn:Et; try exact Hdef.
        destruct (skip_opt_toks (is_id TAnd) s1) as (l & Hl & [->|(a & -> & Ha)]).
        - exists [sep]. split; [rewrite A, Hl; reflexivity|apply ga_sep; auto].
        - exists [sep; a]. split; [rewrite A, Hl; reflexivity|]. apply ga_comma_and; auto.
          unfold is_id in Ha. destruct (tid a); cbn in Ha; try discriminate; reflexivity. }
      destruct Hsep as (tsep & A2 & Gs).
      inv_bind H. destruct x as [e s3]. destruct (p_sound _ _ _ Hm) as (te & A3 & Ge).
      destruct (IH _ _ _ _ H (ts0 ++ tsep ++ te)) as (ts & A4 & Ga).
      + apply gargs_snoc; auto.
      + exists (tsep ++ te ++ ts). split.
        * rewrite A2, A3, A4. rewrite <- ?app_assoc. reflexivity.
        * rewrite <- ?app_assoc in Ga. exact Ga.
    - injection H as <- <-. exists []. rewrite app_nil_r. auto.
  Qed.

  Lemma parse_parameter_list_sound fuel : sound g_args (parse_parameter_list p fuel).
  Proof.
    intros s x s' H. unfold parse_parameter_list in H. inv_bind H. destruct x0 as [e s1].
    destruct (p_sound _ _ _ Hm) as (te & A & Ge).
    destruct (param_tail_sound _ _ _ _ _ H te (gargs_one te e Ge)) as (ts & B & Ga).
    exists (te ++ ts). split; auto. rewrite A, B, app_assoc. reflexivity.
  Qed.
End Args.

Lemma is_id_tid id t : is_id id t = true -> ttype_code (tid t) = ttype_code id \/ True.
Proof. auto. Qed.

Lemma fancy_operator_sound : sound g_fancy_op fancy_operator.
Proof.
  intros s op s' H. unfold fancy_operator in H.
  destruct (match_and_consume (is_id TAs) s) as [[t1 s1]|] eqn:E1.
  - destruct (mac_toks _ _ _ _ E1) as (A1 & B1 & _).
    inv_bind H. destruct x as [t2 s2]. unfold expect_any in Hm.
    destruct (match_and_consume (is_one_of [TBig; TSmall]) s1) as [[t2' s2']|] eqn:E2; [|discriminate].
    injection Hm as -> ->. destruct (mac_toks _ _ _ _ E2) as (A2 & B2 & _).
    inv_bind H. unfold unwrap_op in Hm. destruct (get_binary_operator (tid t2)) as [o|] eqn:Eo; [|discriminate].
    injection Hm as <-. inv_bind H. destruct x as [t3 s3]. unfold expect_token in Hm.
    destruct (match_and_consume (is_id TAs) s2) as [[t3' s3']|] eqn:E3; [|discriminate].
    injection Hm as -> ->. destruct (mac_toks _ _ _ _ E3) as (A3 & B3 & _). injection H as <- <-.
    exists [t1; t2; t3]. split; [rewrite A1, A2, A3; reflexivity|].
    apply gf_as; auto.
    + unfold is_id in B1. destruct (tid t1); cbn in B1; try discriminate; reflexivity.
    + unfold is_id in B3. destruct (tid t3); cbn in B3; try discriminate; reflexivity.
  - destruct (match_and_consume (is_one_of [TBigger; TSmaller]) s) as [[t1 s1]|] eqn:E2.
    + destruct (mac_toks _ _ _ _ E2) as (A1 & B1 & _).
      inv_bind H. unfold unwrap_op in Hm. destruct (get_binary_operator (tid t1)) as [o|] eqn:Eo; [|discriminate].
      injection Hm as <-. inv_bind H. destruct x as [t2 s2]. unfold expect_token in Hm.
      destruct (match_and_consume (is_id TThan) s1) as [[t2' s2']|] eqn:E3; [|discriminate].
      injection Hm as -> ->. destruct (mac_toks _ _ _ _ E3) as (A2 & B2 & _). injection H as <- <-.
      exists [t1; t2]. split; [rewrite A1, A2; reflexivity|]. apply gf_than; auto.
      unfold is_id in B2. destruct (tid t2); cbn in B2; try discriminate; reflexivity.
    + destruct (match_and_consume (is_id TNot) s) as [[t1 s1]|] eqn:E3.
      * destruct (mac_toks _ _ _ _ E3) as (A1 & B1 & _). injection H as <- <-.
        exists [t1]. split; [rewrite A1; reflexivity|]. apply gf_not.
        unfold is_id in B1. destruct (tid t1); cbn in B1; try discriminate; reflexivity.
      * injection H as <- <-. exists []. split; auto. constructor.
Qed.

(** * The expression grammar *)
Definition G_optprim (ts : list token) (o : option primary) : Prop :=
  match o with Some p => g_nsp ts p | None => ts = [] end.

Record ES (f : nat) : Prop := mkES {
  s_expr : sound (g 5) (parse_expression prof f);
  s_cmp : sound (g 4) (parse_comparison prof f);
  s_fancy : forall l, sound (fun ts e => exists tops op tr r, ts = tops ++ tr /\ g_fancy_op tops op /\ g 3 tr r /\ e = EBinary op l r [])
                            (parse_fancy prof f l);
  s_floop : forall e, sound (fun ts e' => forall tl, g 4 tl e -> g 4 (tl ++ ts) e') (fancy_loop prof f e);
  s_term : sound (g 3) (parse_term prof f);
  s_factor : sound (g 2) (parse_factor prof f);
  s_unary : sound (g 1) (parse_unary prof f);
  s_primary : sound g_primary (parse_primary prof f);
  s_nsp : sound g_nsp (parse_non_subscript_primary prof f);
  s_sub : forall e, sound (fun ts p => forall ta, g_primary ta e -> g_primary (ta ++ ts) p) (subscript_after prof f e);
  s_ioc : sound G_optprim (parse_identifier_or_call prof f);
  s_args : sound (fun ts args => exists t targs, ts = t :: targs /\ g_args targs args) (parse_function_call_args prof f)
}.

Lemma ES_0 : ES 0.
Proof. constructor; repeat intro; discriminate. Qed.

Lemma tid_of_is_id id t : is_id id t = true ->
  match id with TStringLiteral _ | TNumber _ | TComment _ | TError _ => True | _ => tid t = id end.
Proof. unfold is_id. intro H. destruct id; auto; destruct (tid t); cbn in H; try discriminate; reflexivity. Qed.

Lemma ES_S f : ES f -> ES (S f).
Proof.
  intros [He Hc Hfa Hfl Ht Hfac Hu Hp Hn Hs Hi Ha].
  constructor.
  - intros s e s' H. cbn [parse_expression] in H.
    apply (parse_binary_expression_sound (parse_comparison prof f) 4 Hc f) in H; [exact H|lia].
  - intros s e s' H. cbn [parse_comparison] in H. inv_bind H. destruct x as [e0 s1].
    destruct (Ht _ _ _ Hm) as (t0 & A0 & G0).
    destruct (match_and_consume (is_one_of is_ops) s1) as [[t s2]|] eqn:E.
    + destruct (mac_toks _ _ _ _ E) as (A1 & B1 & _).
      inv_bind H. destruct x as [e2 s3].
      destruct (Hfa _ _ _ _ Hm0) as (t2 & A2 & tops & op & tr & r & -> & Gop & Gr & ->).
      destruct (Hfl _ _ _ _ H) as (t3 & A3 & K).
      exists (t0 ++ [t] ++ (tops ++ tr) ++ t3). split.
      * rewrite A0, A1, A2, A3. rewrite <- ?app_assoc. reflexivity.
      * specialize (K (t0 ++ [t] ++ tops ++ tr)). rewrite <- ?app_assoc in K. rewrite <- ?app_assoc. apply K.
        apply g_is; auto. apply g_up; [lia|exact G0].
    + destruct (binary_loop_sound (parse_term prof f) 3 Ht _ _ _ _ _ H) as (ts & A1 & K).
      exists (t0 ++ ts). split; [rewrite A0, A1, app_assoc; reflexivity|]. apply K. apply g_up; [lia|exact G0].
  - intros l s e s' H. cbn [parse_fancy] in H. inv_bind H. destruct x as [op s1].
    destruct (fancy_operator_sound _ _ _ Hm) as (tops & A & Gop).
    inv_bind H. destruct x as [r s2]. destruct (Ht _ _ _ Hm0) as (tr & B & Gr). injection H as <- <-.
    exists (tops ++ tr). split; [rewrite A, B, app_assoc; reflexivity|]. exists tops, op, tr, r. auto.
  - intros e s e' s' H. cbn [fancy_loop] in H.
    destruct (match_and_consume (is_one_of is_ops) s) as [[t s1]|] eqn:E.
    + destruct (mac_toks _ _ _ _ E) as (A1 & B1 & _).
      inv_bind H. destruct x as [e2 s2].
      destruct (Hfa _ _ _ _ Hm) as (t2 & A2 & tops & op & tr & r & -> & Gop & Gr & ->).
      destruct (Hfl _ _ _ _ H) as (t3 & A3 & K).
      exists ([t] ++ (tops ++ tr) ++ t3). split.
      * rewrite A1, A2, A3. rewrite <- ?app_assoc. reflexivity.
      * intros tl Gl. specialize (K (tl ++ [t] ++ tops ++ tr)). rewrite <- ?app_assoc in K. rewrite <- ?app_assoc. apply K.
        apply g_is; auto.
    + injection H as <- <-. exists []. split; auto. intros tl Gl. rewrite app_nil_r. exact Gl.
  - intros s e s' H. cbn [parse_term] in H.
    apply (parse_binary_expression_sound (parse_factor prof f) 2 Hfac f) in H; [exact H|lia].
  - intros s e s' H. cbn [parse_factor] in H.
    apply (parse_binary_expression_sound (parse_unary prof f) 1 Hu f) in H; [exact H|lia].
  - intros s e s' H. cbn [parse_unary] in H.
    destruct (match_and_consume (is_one_of [TMinus; TNot]) s) as [[t s1]|] eqn:E.
    + destruct (mac_toks _ _ _ _ E) as (A1 & B1 & _).
      inv_bind H. unfold unwrap_op in Hm. destruct (get_unary_operator (tid t)) as [op|] eqn:Eo; [|discriminate].
      injection Hm as <-. inv_bind H. destruct x as [x s2]. destruct (Hu _ _ _ Hm) as (tx & A2 & Gx).
      injection H as <- <-. exists (t :: tx). split; [rewrite A1, A2; reflexivity|]. apply g_unary; auto.
    + inv_bind H. destruct x as [p s1]. destruct (Hp _ _ _ Hm) as (tp & A & Gp). injection H as <- <-.
      exists tp. split; auto. apply g_prim; auto.
  - intros s p s' H. cbn [parse_primary] in H. inv_bind H. destruct x as [p0 s1].
    destruct (Hn _ _ _ Hm) as (t0 & A & G0). destruct (Hs _ _ _ _ H) as (ts & B & K).
    exists (t0 ++ ts). split; [rewrite A, B, app_assoc; reflexivity|]. apply K. apply gp_nsp; auto.
  - intros s p s' H. cbn [parse_non_subscript_primary] in H. inv_bind H. destruct x as [io s1].
    destruct (Hi _ _ _ Hm) as (t0 & A & G0).
    destruct io as [p0|].
    + injection H as <- <-. exists t0. auto.
    + cbn in G0. subst t0. cbn [app] in A.
      assert (Hroll : (match match_and_consume (is_id TRoll) s1 with
                       | Some (_, s2) => let* (p1, s3) := parse_primary prof f s2 in Ok (PPop p1, s3)
                       | None => fail s1 PExpectedPrimaryExpression
                       end) = Ok (p, s') -> exists ts, ptoks s1 = ts ++ ptoks s' /\ g_nsp ts p).
      { intro H2. destruct (match_and_consume (is_id TRoll) s1) as [[t s2]|] eqn:E; [|discriminate].
        destruct (mac_toks _ _ _ _ E) as (A1 & B1 & _). inv_bind H2. destruct x as [p1 s3].
        destruct (Hp _ _ _ Hm0) as (tp & A2 & Gp). injection H2 as <- <-.
        exists (t :: tp). split; [rewrite A1, A2; reflexivity|]. apply gn_roll; auto.
        apply (tid_of_is_id TRoll t B1). }
      unfold parse_literal_expression in H.
      destruct (current s1) as [t|] eqn:Ec.
      * destruct (literal_of_token (tid t)) as [l|] eqn:El.
        -- destruct (advance s1) as [[t' s2]|] eqn:Ea.
           ++ destruct (advance_toks _ _ _ Ea) as [A1 _]. injection H as <- <-.
              destruct (current_head _ _ Ec) as [r Hr]. rewrite Hr in A1. injection A1 as <- ->.
              exists [t]. split; [rewrite A, Hr; reflexivity|]. apply gn_lit; auto.
           ++ rewrite A. apply Hroll. exact H.
        -- rewrite A. apply Hroll. exact H.
      * rewrite A. apply Hroll. exact H.
  - intros e s p s' H. cbn [subscript_after] in H.
    destruct (match_and_consume (is_id TAt) s) as [[t s1]|] eqn:E.
    + destruct (mac_toks _ _ _ _ E) as (A1 & B1 & _). inv_bind H. destruct x as [sub s2].
      destruct (Hn _ _ _ Hm) as (tx & A2 & Gx). destruct (Hs _ _ _ _ H) as (ts & A3 & K).
      exists ([t] ++ tx ++ ts). split.
      * rewrite A1, A2, A3. cbn [app]. rewrite <- ?app_assoc. reflexivity.
      * intros ta Ga. specialize (K (ta ++ [t] ++ tx)). rewrite <- ?app_assoc in K. apply K.
        apply gp_at; auto. apply (tid_of_is_id TAt t B1).
    + injection H as <- <-. exists []. split; auto. intros ta Ga. rewrite app_nil_r. exact Ga.
  - intros s o s' H. cbn [parse_identifier_or_call] in H.
    unfold parse_pronoun in H. destruct (match_and_consume (is_id TPronoun) s) as [[t s1]|] eqn:E.
    + destruct (mac_toks _ _ _ _ E) as (A1 & B1 & _). injection H as <- <-.
      exists [t]. split; [rewrite A1; reflexivity|]. cbn. apply gn_pronoun. apply (tid_of_is_id TPronoun t B1).
    + inv_bind H. destruct x as [v s1]. destruct (parse_variable_name_sound _ _ _ Hm) as (tn & A & Gn).
      destruct v as [[n r]|].
      * cbn in Gn. unfold current_matches in H. destruct (current s1) as [t|] eqn:Ec.
        -- destruct (is_id TTaking t) eqn:Et.
           ++ inv_bind H. destruct x as [args s2]. destruct (Ha _ _ _ Hm0) as (ta & A2 & t' & targs & -> & Gargs).
              injection H as <- <-. destruct (current_head _ _ Ec) as [r' Hr]. rewrite Hr in A2.
              cbn [app] in A2. injection A2 as <- ->.
              exists (tn ++ [t] ++ targs). split; [rewrite A; rewrite Hr; rewrite <- ?app_assoc; reflexivity|].
              cbn. apply gn_call; auto. apply (tid_of_is_id TTaking t Et).
           ++ injection H as <- <-. exists tn. split; auto. cbn. apply gn_var; auto.
        -- injection H as <- <-. exists tn. split; auto. cbn. apply gn_var; auto.
      * cbn in Gn. injection H as <- <-. exists tn. split; auto.
  - intros s args s' H. cbn [parse_function_call_args] in H. inv_bind H. destruct x as [t s1].
    unfold consume in Hm. destruct (advance s) as [[t0 s0]|] eqn:Ea; [|destruct prof; discriminate].
    inv_bind Hm. injection Hm as <- <-. destruct (advance_toks _ _ _ Ea) as [A1 _].
    destruct (parse_parameter_list_sound (parse_unary prof f) Hu f _ _ _ H) as (ta & A2 & Ga).
    exists (t0 :: ta). split; [rewrite A1, A2; reflexivity|]. eauto.
Qed.

Theorem ES_all f : ES f.
Proof. induction f; [apply ES_0|apply ES_S; auto]. Qed.

(** ** C02: what [parse_expression] returns is the grammar's tree for the tokens it consumed *)
Theorem parse_expression_sound f s e s' :
  parse_expression prof f s = Ok (e, s') -> exists ts, ptoks s = ts ++ ptoks s' /\ g 5 ts e.
Proof. apply (s_expr f (ES_all f)). Qed.

End Sound.
