(** C02: every expression tree the parser returns is one the declarative grammar
    (Front/Grammar.v) assigns to exactly the tokens it consumed: precedence, left associativity,
    list operands, `is`-comparisons, subscripts and calls. *)
From Coq Require Import List ZArith NArith Bool Lia.
From RRSS Require Import Base.Outcome Base.Chars Base.F64 Exec.Ops Front.Ast Front.Token Front.Lexer Front.Parser Front.Grammar.
Import ListNotations.

Definition ptoks (s : pstate) : list token := map pt_tok (toks s).

Definition sound {A} (G : list token -> A -> Prop) (p : P A) : Prop :=
  forall s x s', p s = Ok (x, s') -> exists ts, ptoks s = ts ++ ptoks s' /\ G ts x.

Lemma bind_ok {E A B} (m : res E A) (f : A -> res E B) r : bind m f = Ok r -> exists x, m = Ok x /\ f x = Ok r.
Proof. destruct m; cbn; try discriminate. intro H. eauto. Qed.

Ltac inv_bind H :=
  let x := fresh "x" in let Hm := fresh "Hm" in
  apply bind_ok in H; destruct H as (x & Hm & H).

Lemma advance_toks s t s' : advance s = Some (t, s') -> ptoks s = t :: ptoks s' /\ plist s' = plist s.
Proof.
  unfold advance, ptoks. destruct (toks s) as [|pt r]; [discriminate|]. intro H. injection H as <- <-. cbn. auto.
Qed.

Lemma mac_toks m s t s' : match_and_consume m s = Some (t, s') ->
  ptoks s = t :: ptoks s' /\ m t = true /\ current s = Some t.
Proof.
  unfold match_and_consume. destruct (current s) as [t0|] eqn:Ec; [|discriminate].
  destruct (m t0) eqn:Em; [|discriminate]. intro H. destruct (advance_toks _ _ _ H) as [A _].
  assert (t0 = t).
  { unfold current in Ec. unfold advance in H. destruct (toks s); [discriminate|]. injection Ec as <-. injection H as <- _. reflexivity. }
  subst t0. auto.
Qed.

Lemma current_head s t : current s = Some t -> exists r, ptoks s = t :: r.
Proof. unfold current, ptoks. destruct (toks s) as [|pt r]; [discriminate|]. intro H. injection H as <-. cbn. eauto. Qed.

Lemma skip_opt_toks m s :
  exists l, ptoks s = l ++ ptoks (skip_opt m s) /\ (l = [] \/ exists t, l = [t] /\ m t = true).
Proof.
  unfold skip_opt. destruct (match_and_consume m s) as [[t s']|] eqn:E.
  - destruct (mac_toks _ _ _ _ E) as (A & B & _). exists [t]. split; auto. right. eauto.
  - exists []. auto.
Qed.

Lemma ptoks_flag s b : ptoks (mkPS (toks s) (pline s) (ploc s) b) = ptoks s.
Proof. reflexivity. Qed.

Section Sound.
Variable prof : profile.

(** * Identifiers *)
Definition G_optvar (ts : list token) (o : option (varname * range)) : Prop :=
  match o with Some (n, _) => g_var ts n | None => ts = [] end.

Lemma parse_common_identifier_sound : sound G_optvar parse_common_identifier.
Proof.
  intros s x s' H. unfold parse_common_identifier in H.
  destruct (match_and_consume (is_id TCommonVariablePrefix) s) as [[p s1]|] eqn:E1.
  - destruct (mac_toks _ _ _ _ E1) as (A1 & B1 & _).
    destruct (match_and_consume (fun t => is_word (tspell t)) s1) as [[w s2]|] eqn:E2; [|discriminate].
    destruct (mac_toks _ _ _ _ E2) as (A2 & B2 & _). injection H as <- <-.
    exists [p; w]. split; [rewrite A1, A2; reflexivity|]. cbn. apply gv_common; auto.
    unfold is_id in B1. destruct (tid p); cbn in B1; try discriminate. reflexivity.
  - injection H as <- <-. exists []. split; auto. reflexivity.
Qed.

Lemma capitalized_words_sound : forall fuel s names acc names' acc' s',
  capitalized_words fuel s names acc = Ok (names', acc', s') ->
  exists ts, ptoks s = ts ++ ptoks s' /\ names' = names ++ map tspell ts /\
             Forall (fun t => tid t = TWord /\ is_capitalized_word t = Ok true) ts.
Proof.
  induction fuel as [|f IH]; intros s names acc names' acc' s' H; cbn [capitalized_words] in H; [discriminate|].
  destruct (current s) as [t|] eqn:Ec.
  - inv_bind H. destruct x.
    + destruct (advance s) as [[t' s1]|] eqn:Ea.
      * destruct (advance_toks _ _ _ Ea) as [A _].
        assert (t' = t). { destruct (current_head _ _ Ec) as [r Hr]. rewrite Hr in A. injection A as <- _. reflexivity. }
        subst t'.
        destruct (IH _ _ _ _ _ _ H) as (ts & B & Cn & D). exists (t :: ts). repeat split.
        -- rewrite A, B. reflexivity.
        -- rewrite Cn. rewrite <- app_assoc. reflexivity.
        -- constructor; auto. split; auto. unfold is_capitalized_word in Hm. destruct (tid t); try discriminate. reflexivity.
      * injection H as <- <- <-. exists []. repeat split; auto. rewrite app_nil_r. reflexivity.
    + injection H as <- <- <-. exists []. repeat split; auto. rewrite app_nil_r. reflexivity.
  - injection H as <- <- <-. exists []. repeat split; auto. rewrite app_nil_r. reflexivity.
Qed.

Lemma parse_capitalized_identifier_sound : sound G_optvar (parse_capitalized_identifier prof).
Proof.
  intros s x s' H. unfold parse_capitalized_identifier in H. inv_bind H. destruct x0 as [[names acc] s1].
  destruct (capitalized_words_sound _ _ _ _ _ _ _ Hm) as (ts & A & B & F). cbn [app] in B.
  destruct names as [|n [|n2 r]].
  - injection H as <- <-. exists ts. split; auto. destruct ts; [reflexivity|discriminate].
  - destruct acc; [|destruct prof; discriminate]. injection H as <- <-. exists ts. split; auto.
    destruct ts as [|t [|t2 rr]]; try discriminate. injection B as ->. cbn. apply gv_simple.
    inversion F as [|? ? [Ht _] _]; auto.
  - destruct acc; [|destruct prof; discriminate]. injection H as <- <-. exists ts. split; auto.
    cbn. rewrite B. apply gv_proper; auto. destruct ts as [|t [|t2 r']]; try discriminate. cbn. lia.
Qed.

Lemma parse_variable_name_sound : sound G_optvar (parse_variable_name prof).
Proof.
  intros s x s' H. unfold parse_variable_name in H. inv_bind H. destruct x0 as [c s1].
  destruct (parse_common_identifier_sound _ _ _ Hm) as (t1 & A1 & G1).
  destruct c as [[n r]|].
  - injection H as <- <-. exists t1. auto.
  - cbn in G1. subst t1. inv_bind H. destruct x0 as [k s2].
    destruct (parse_capitalized_identifier_sound _ _ _ Hm0) as (t2 & A2 & G2).
    destruct k as [[n r]|].
    + injection H as <- <-. exists t2. split; auto. rewrite A1. exact A2.
    + cbn in G2. subst t2. unfold parse_simple_identifier in H.
      destruct (match_and_consume (is_id TWord) s2) as [[t s3]|] eqn:E.
      * destruct (mac_toks _ _ _ _ E) as (A3 & B3 & _). injection H as <- <-. exists [t]. split.
        -- rewrite A1, A2, A3. reflexivity.
        -- cbn. apply gv_simple. unfold is_id in B3. destruct (tid t); cbn in B3; try discriminate. reflexivity.
      * injection H as <- <-. exists []. split; [rewrite A1, A2; reflexivity|reflexivity].
Qed.

(** * Combinators *)
Section Comb.
  Variable next : P expr.
  Variable L : nat.
  Hypothesis next_sound : sound (g L) next.

  Lemma comma_and s1 : forall t s0, match_and_consume (is_id TComma) s0 = Some (t, s1) ->
    exists tc, ptoks s0 = tc ++ ptoks (skip_opt (is_id TAnd) s1) /\ g_comma tc.
  Proof.
    intros t s0 E. destruct (mac_toks _ _ _ _ E) as (A & B & _).
    assert (Ht : tid t = TComma) by (unfold is_id in B; destruct (tid t); cbn in B; try discriminate; reflexivity).
    destruct (skip_opt_toks (is_id TAnd) s1) as (l & Hl & [->|(a & -> & Ha)]).
    - exists [t]. split; [rewrite A, Hl; reflexivity|apply gc_comma; auto].
    - exists [t; a]. split; [rewrite A, Hl; reflexivity|]. apply gc_comma_and; auto.
      unfold is_id in Ha. destruct (tid a); cbn in Ha; try discriminate; reflexivity.
  Qed.

  Lemma list_tail_sound : forall fuel s acc acc' s',
    list_tail next fuel s acc = Ok (acc', s') ->
    forall ts0 l0, g_list L ts0 l0 ->
    exists ts l, ptoks s = ts ++ ptoks s' /\ acc' = acc ++ l /\ g_list L (ts0 ++ ts) (l0 ++ l).
  Proof.
    induction fuel as [|f IH]; intros s acc acc' s' H ts0 l0 G0; cbn [list_tail] in H; [discriminate|].
    destruct (match_and_consume (is_id TComma) s) as [[t s1]|] eqn:E.
    - destruct (comma_and _ _ _ E) as (tc & A & Gc).
      inv_bind H. destruct x as [e s3]. destruct (next_sound _ _ _ Hm) as (te & B & Ge).
      destruct (IH _ _ _ _ H (ts0 ++ tc ++ te) (l0 ++ [e])) as (ts & l & Cc & D & Gl).
      + apply gl_snoc; auto.
      + exists (tc ++ te ++ ts), ([e] ++ l). repeat split.
        * rewrite A, B, Cc. rewrite <- ?app_assoc. reflexivity.
        * rewrite D. rewrite <- app_assoc. reflexivity.
        * rewrite <- ?app_assoc in Gl. rewrite <- ?app_assoc. exact Gl.
    - injection H as <- <-. exists [], []. rewrite !app_nil_r. auto.
  Qed.

  Lemma parse_expression_list_sound fuel s first rest_ s' :
    parse_expression_list next fuel s = Ok (first, rest_, s') ->
    exists tf tr, ptoks s = tf ++ tr ++ ptoks s' /\ g L tf first /\ g_list L tr rest_.
  Proof.
    intro H. unfold parse_expression_list in H. inv_bind H. destruct x as [f1 s1].
    destruct (next_sound _ _ _ Hm) as (tf & A & Gf).
    destruct (plist s1).
    - injection H as <- <- <-. exists tf, []. repeat split; auto. constructor.
    - inv_bind H. destruct x as [r s3].
      destruct (list_tail_sound _ _ _ _ _ Hm0 [] [] (gl_nil L)) as (ts & l & B & D & Gl).
      injection H as <- <- <-. cbn [app] in D, Gl. subst r. exists tf, ts. repeat split; auto.
      rewrite A. rewrite ptoks_flag in B. rewrite B. reflexivity.
  Qed.

  Lemma binary_loop_sound : forall fuel e s e' s',
    binary_loop next (ops_at (S L)) fuel e s = Ok (e', s') ->
    exists ts, ptoks s = ts ++ ptoks s' /\ forall tl, g (S L) tl e -> g (S L) (tl ++ ts) e'.
  Proof.
    induction fuel as [|f IH]; intros e s e' s' H; cbn [binary_loop] in H; [discriminate|].
    destruct (match_and_consume (is_one_of (ops_at (S L))) s) as [[t s1]|] eqn:E.
    - destruct (mac_toks _ _ _ _ E) as (A & B & _).
      inv_bind H. unfold unwrap_op in Hm. destruct (get_binary_operator (tid t)) as [op|] eqn:Eop; [|discriminate].
      injection Hm as <-. inv_bind H. destruct x as [[first r] s2].
      destruct (parse_expression_list_sound _ _ _ _ _ Hm) as (tf & tr & A2 & Gf & Gr).
      destruct (IH _ _ _ _ H) as (ts & A3 & K).
      exists ([t] ++ tf ++ tr ++ ts). split.
      + rewrite A, A2, A3. rewrite <- ?app_assoc. reflexivity.
      + intros tl Gl. specialize (K (tl ++ [t] ++ tf ++ tr)).
        rewrite <- ?app_assoc in K. rewrite <- ?app_assoc. apply K.
        apply (g_bin L tl e t op tf first tr r); auto.
    - injection H as <- <-. exists []. split; auto. intros tl Gl. rewrite app_nil_r. exact Gl.
  Qed.

  Lemma parse_binary_expression_sound fuel : (1 <= L)%nat -> sound (g (S L)) (parse_binary_expression next (ops_at (S L)) fuel).
  Proof.
    intros HL s e s' H. unfold parse_binary_expression in H. inv_bind H. destruct x as [e0 s1].
    destruct (next_sound _ _ _ Hm) as (t0 & A & G0).
    destruct (binary_loop_sound _ _ _ _ _ H) as (ts & B & K).
    exists (t0 ++ ts). split; [rewrite A, B, app_assoc; reflexivity|]. apply K. apply g_up; auto.
  Qed.
End Comb.

(** arguments of a call *)
Section Args.
  Variable p : P expr.
  Hypothesis p_sound : sound (g 1) p.

  Lemma param_tail_sound : forall fuel s acc acc' s',
    param_tail p fuel s acc = Ok (acc', s') ->
    forall ts0, g_args ts0 acc -> exists ts, ptoks s = ts ++ ptoks s' /\ g_args (ts0 ++ ts) acc'.
  Proof.
    induction fuel as [|f IH]; intros s acc acc' s' H ts0 G0; cbn [param_tail] in H; [discriminate|].
    destruct (match_and_consume (is_one_of param_seps) s) as [[sep s1]|] eqn:E.
    - destruct (mac_toks _ _ _ _ E) as (A & B & _).
      assert (Hsep : exists tsep, ptoks s = tsep ++ ptoks (match tid sep with TComma => skip_opt (is_id TAnd) s1 | _ => s1 end) /\ g_argsep tsep).
      { assert (Hdef : exists tsep, ptoks s = tsep ++ ptoks s1 /\ g_argsep tsep)
          by (exists [sep]; split; [rewrite A; reflexivity|apply ga_sep; auto]).
        destruct (tid sep) eqn:Et; try exact Hdef.
        destruct (skip_opt_toks (is_id TAnd) s1) as (l & Hl & [->|(a & -> & Ha)]).
        - exists [sep]. split; [rewrite A, Hl; reflexivity|apply ga_sep; auto].
        - exists [sep; a]. split; [rewrite A, Hl; reflexivity|]. apply ga_comma_and; auto.
          unfold is_id in Ha. destruct (tid a); cbn in Ha; try discriminate; reflexivity. }
      destruct Hsep as (tsep & A2 & Gs).
      inv_bind H. destruct x as [e s3]. destruct (p_sound _ _ _ Hm) as (te & A3 & Ge).
      destruct (IH _ _ _ _ H (ts0 ++ tsep ++ te)) as (ts & A4 & Ga).
      + apply gargs_snoc; auto.
      + exists (tsep ++ te ++ ts). split.
        * rewrite A2, A3, A4. rewrite <- ?app_assoc. reflexivity.
        * rewrite <- ?app_assoc in Ga. exact Ga.
    - injection H as <- <-. exists []. rewrite app_nil_r. auto.
  Qed.

  Lemma parse_parameter_list_sound fuel : sound g_args (parse_parameter_list p fuel).
  Proof.
    intros s x s' H. unfold parse_parameter_list in H. inv_bind H. destruct x0 as [e s1].
    destruct (p_sound _ _ _ Hm) as (te & A & Ge).
    destruct (param_tail_sound _ _ _ _ _ H te (gargs_one te e Ge)) as (ts & B & Ga).
    exists (te ++ ts). split; auto. rewrite A, B, app_assoc. reflexivity.
  Qed.
End Args.

Lemma is_id_tid id t : is_id id t = true -> ttype_code (tid t) = ttype_code id \/ True.
Proof. auto. Qed.

Lemma fancy_operator_sound : sound g_fancy_op fancy_operator.
Proof.
  intros s op s' H. unfold fancy_operator in H.
  destruct (match_and_consume (is_id TAs) s) as [[t1 s1]|] eqn:E1.
  - destruct (mac_toks _ _ _ _ E1) as (A1 & B1 & _).
    inv_bind H. destruct x as [t2 s2]. unfold expect_any in Hm.
    destruct (match_and_consume (is_one_of [TBig; TSmall]) s1) as [[t2' s2']|] eqn:E2; [|discriminate].
    injection Hm as -> ->. destruct (mac_toks _ _ _ _ E2) as (A2 & B2 & _).
    inv_bind H. unfold unwrap_op in Hm. destruct (get_binary_operator (tid t2)) as [o|] eqn:Eo; [|discriminate].
    injection Hm as <-. inv_bind H. destruct x as [t3 s3]. unfold expect_token in Hm.
    destruct (match_and_consume (is_id TAs) s2) as [[t3' s3']|] eqn:E3; [|discriminate].
    injection Hm as -> ->. destruct (mac_toks _ _ _ _ E3) as (A3 & B3 & _). injection H as <- <-.
    exists [t1; t2; t3]. split; [rewrite A1, A2, A3; reflexivity|].
    apply gf_as; auto.
    + unfold is_id in B1. destruct (tid t1); cbn in B1; try discriminate; reflexivity.
    + unfold is_id in B3. destruct (tid t3); cbn in B3; try discriminate; reflexivity.
  - destruct (match_and_consume (is_one_of [TBigger; TSmaller]) s) as [[t1 s1]|] eqn:E2.
    + destruct (mac_toks _ _ _ _ E2) as (A1 & B1 & _).
      inv_bind H. unfold unwrap_op in Hm. destruct (get_binary_operator (tid t1)) as [o|] eqn:Eo; [|discriminate].
      injection Hm as <-. inv_bind H. destruct x as [t2 s2]. unfold expect_token in Hm.
      destruct (match_and_consume (is_id TThan) s1) as [[t2' s2']|] eqn:E3; [|discriminate].
      injection Hm as -> ->. destruct (mac_toks _ _ _ _ E3) as (A2 & B2 & _). injection H as <- <-.
      exists [t1; t2]. split; [rewrite A1, A2; reflexivity|]. apply gf_than; auto.
      unfold is_id in B2. destruct (tid t2); cbn in B2; try discriminate; reflexivity.
    + destruct (match_and_consume (is_id TNot) s) as [[t1 s1]|] eqn:E3.
      * destruct (mac_toks _ _ _ _ E3) as (A1 & B1 & _). injection H as <- <-.
        exists [t1]. split; [rewrite A1; reflexivity|]. apply gf_not.
        unfold is_id in B1. destruct (tid t1); cbn in B1; try discriminate; reflexivity.
      * injection H as <- <-. exists []. split; auto. constructor.
Qed.

(** * The expression grammar *)
Definition G_optprim (ts : list token) (o : option primary) : Prop :=
  match o with Some p => g_nsp ts p | None => ts = [] end.

Record ES (f : nat) : Prop := mkES {
  s_expr : sound (g 5) (parse_expression prof f);
  s_cmp : sound (g 4) (parse_comparison prof f);
  s_fancy : forall l, sound (fun ts e => exists tops op tr r, ts = tops ++ tr /\ g_fancy_op tops op /\ g 3 tr r /\ e = EBinary op l r [])
                            (parse_fancy prof f l);
  s_floop : forall e, sound (fun ts e' => forall tl, g 4 tl e -> g 4 (tl ++ ts) e') (fancy_loop prof f e);
  s_term : sound (g 3) (parse_term prof f);
  s_factor : sound (g 2) (parse_factor prof f);
  s_unary : sound (g 1) (parse_unary prof f);
  s_primary : sound g_primary (parse_primary prof f);
  s_nsp : sound g_nsp (parse_non_subscript_primary prof f);
  s_sub : forall e, sound (fun ts p => forall ta, g_primary ta e -> g_primary (ta ++ ts) p) (subscript_after prof f e);
  s_ioc : sound G_optprim (parse_identifier_or_call prof f);
  s_args : sound (fun ts args => exists t targs, ts = t :: targs /\ g_args targs args) (parse_function_call_args prof f)
}.

Lemma ES_0 : ES 0.
Proof. constructor; repeat intro; discriminate. Qed.

Lemma tid_of_is_id id t : is_id id t = true ->
  match id with TStringLiteral _ | TNumber _ | TComment _ | TError _ => True | _ => tid t = id end.
Proof. unfold is_id. intro H. destruct id; auto; destruct (tid t); cbn in H; try discriminate; reflexivity. Qed.

Lemma ES_S f : ES f -> ES (S f).
Proof.
  intros [He Hc Hfa Hfl Ht Hfac Hu Hp Hn Hs Hi Ha].
  constructor.
  - intros s e s' H. cbn [parse_expression] in H.
    apply (parse_binary_expression_sound (parse_comparison prof f) 4 Hc f) in H; [exact H|lia].
  - intros s e s' H. cbn [parse_comparison] in H. inv_bind H. destruct x as [e0 s1].
    destruct (Ht _ _ _ Hm) as (t0 & A0 & G0).
    destruct (match_and_consume (is_one_of is_ops) s1) as [[t s2]|] eqn:E.
    + destruct (mac_toks _ _ _ _ E) as (A1 & B1 & _).
      inv_bind H. destruct x as [e2 s3].
      destruct (Hfa _ _ _ _ Hm0) as (t2 & A2 & tops & op & tr & r & -> & Gop & Gr & ->).
      destruct (Hfl _ _ _ _ H) as (t3 & A3 & K).
      exists (t0 ++ [t] ++ (tops ++ tr) ++ t3). split.
      * rewrite A0, A1, A2, A3. rewrite <- ?app_assoc. reflexivity.
      * specialize (K (t0 ++ [t] ++ tops ++ tr)). rewrite <- ?app_assoc in K. rewrite <- ?app_assoc. apply K.
        apply g_is; auto. apply g_up; [lia|exact G0].
    + destruct (binary_loop_sound (parse_term prof f) 3 Ht _ _ _ _ _ H) as (ts & A1 & K).
      exists (t0 ++ ts). split; [rewrite A0, A1, app_assoc; reflexivity|]. apply K. apply g_up; [lia|exact G0].
  - intros l s e s' H. cbn [parse_fancy] in H. inv_bind H. destruct x as [op s1].
    destruct (fancy_operator_sound _ _ _ Hm) as (tops & A & Gop).
    inv_bind H. destruct x as [r s2]. destruct (Ht _ _ _ Hm0) as (tr & B & Gr). injection H as <- <-.
    exists (tops ++ tr). split; [rewrite A, B, app_assoc; reflexivity|]. exists tops, op, tr, r. auto.
  - intros e s e' s' H. cbn [fancy_loop] in H.
    destruct (match_and_consume (is_one_of is_ops) s) as [[t s1]|] eqn:E.
    + destruct (mac_toks _ _ _ _ E) as (A1 & B1 & _).
      inv_bind H. destruct x as [e2 s2].
      destruct (Hfa _ _ _ _ Hm) as (t2 & A2 & tops & op & tr & r & -> & Gop & Gr & ->).
      destruct (Hfl _ _ _ _ H) as (t3 & A3 & K).
      exists ([t] ++ (tops ++ tr) ++ t3). split.
      * rewrite A1, A2, A3. rewrite <- ?app_assoc. reflexivity.
      * intros tl Gl. specialize (K (tl ++ [t] ++ tops ++ tr)). rewrite <- ?app_assoc in K. rewrite <- ?app_assoc. apply K.
        apply g_is; auto.
    + injection H as <- <-. exists []. split; auto. intros tl Gl. rewrite app_nil_r. exact Gl.
  - intros s e s' H. cbn [parse_term] in H.
    apply (parse_binary_expression_sound (parse_factor prof f) 2 Hfac f) in H; [exact H|lia].
  - intros s e s' H. cbn [parse_factor] in H.
    apply (parse_binary_expression_sound (parse_unary prof f) 1 Hu f) in H; [exact H|lia].
  - intros s e s' H. cbn [parse_unary] in H.
    destruct (match_and_consume (is_one_of [TMinus; TNot]) s) as [[t s1]|] eqn:E.
    + destruct (mac_toks _ _ _ _ E) as (A1 & B1 & _).
      inv_bind H. unfold unwrap_op in Hm. destruct (get_unary_operator (tid t)) as [op|] eqn:Eo; [|discriminate].
      injection Hm as <-. inv_bind H. destruct x as [x s2]. destruct (Hu _ _ _ Hm) as (tx & A2 & Gx).
      injection H as <- <-. exists (t :: tx). split; [rewrite A1, A2; reflexivity|]. apply g_unary; auto.
    + inv_bind H. destruct x as [p s1]. destruct (Hp _ _ _ Hm) as (tp & A & Gp). injection H as <- <-.
      exists tp. split; auto. apply g_prim; auto.
  - intros s p s' H. cbn [parse_primary] in H. inv_bind H. destruct x as [p0 s1].
    destruct (Hn _ _ _ Hm) as (t0 & A & G0). destruct (Hs _ _ _ _ H) as (ts & B & K).
    exists (t0 ++ ts). split; [rewrite A, B, app_assoc; reflexivity|]. apply K. apply gp_nsp; auto.
  - intros s p s' H. cbn [parse_non_subscript_primary] in H. inv_bind H. destruct x as [io s1].
    destruct (Hi _ _ _ Hm) as (t0 & A & G0).
    destruct io as [p0|].
    + injection H as <- <-. exists t0. auto.
    + cbn in G0. subst t0. cbn [app] in A.
      assert (Hroll : (match match_and_consume (is_id TRoll) s1 with
                       | Some (_, s2) => let* (p1, s3) := parse_primary prof f s2 in Ok (PPop p1, s3)
                       | None => fail s1 PExpectedPrimaryExpression
                       end) = Ok (p, s') -> exists ts, ptoks s1 = ts ++ ptoks s' /\ g_nsp ts p).
      { intro H2. destruct (match_and_consume (is_id TRoll) s1) as [[t s2]|] eqn:E; [|discriminate].
        destruct (mac_toks _ _ _ _ E) as (A1 & B1 & _). inv_bind H2. destruct x as [p1 s3].
        destruct (Hp _ _ _ Hm0) as (tp & A2 & Gp). injection H2 as <- <-.
        exists (t :: tp). split; [rewrite A1, A2; reflexivity|]. apply gn_roll; auto.
        apply (tid_of_is_id TRoll t B1). }
      unfold parse_literal_expression in H.
      destruct (current s1) as [t|] eqn:Ec.
      * destruct (literal_of_token (tid t)) as [l|] eqn:El.
        -- destruct (advance s1) as [[t' s2]|] eqn:Ea.
           ++ destruct (advance_toks _ _ _ Ea) as [A1 _]. injection H as <- <-.
              destruct (current_head _ _ Ec) as [r Hr]. rewrite Hr in A1. injection A1 as <- ->.
              exists [t]. split; [rewrite A, Hr; reflexivity|]. apply gn_lit; auto.
           ++ rewrite A. apply Hroll. exact H.
        -- rewrite A. apply Hroll. exact H.
      * rewrite A. apply Hroll. exact H.
  - intros e s p s' H. cbn [subscript_after] in H.
    destruct (match_and_consume (is_id TAt) s) as [[t s1]|] eqn:E.
    + destruct (mac_toks _ _ _ _ E) as (A1 & B1 & _). inv_bind H. destruct x as [sub s2].
      destruct (Hn _ _ _ Hm) as (tx & A2 & Gx). destruct (Hs _ _ _ _ H) as (ts & A3 & K).
      exists ([t] ++ tx ++ ts). split.
      * rewrite A1, A2, A3. cbn [app]. rewrite <- ?app_assoc. reflexivity.
      * intros ta Ga. specialize (K (ta ++ [t] ++ tx)). rewrite <- ?app_assoc in K. apply K.
        apply gp_at; auto. apply (tid_of_is_id TAt t B1).
    + injection H as <- <-. exists []. split; auto. intros ta Ga. rewrite app_nil_r. exact Ga.
  - intros s o s' H. cbn [parse_identifier_or_call] in H.
    unfold parse_pronoun in H. destruct (match_and_consume (is_id TPronoun) s) as [[t s1]|] eqn:E.
    + destruct (mac_toks _ _ _ _ E) as (A1 & B1 & _). injection H as <- <-.
      exists [t]. split; [rewrite A1; reflexivity|]. cbn. apply gn_pronoun. apply (tid_of_is_id TPronoun t B1).
    + inv_bind H. destruct x as [v s1]. destruct (parse_variable_name_sound _ _ _ Hm) as (tn & A & Gn).
      destruct v as [[n r]|].
      * cbn in Gn. unfold current_matches in H. destruct (current s1) as [t|] eqn:Ec.
        -- destruct (is_id TTaking t) eqn:Et.
           ++ inv_bind H. destruct x as [args s2]. destruct (Ha _ _ _ Hm0) as (ta & A2 & t' & targs & -> & Gargs).
              injection H as <- <-. destruct (current_head _ _ Ec) as [r' Hr]. rewrite Hr in A2.
              cbn [app] in A2. injection A2 as <- ->.
              exists (tn ++ [t] ++ targs). split; [rewrite A; rewrite Hr; rewrite <- ?app_assoc; reflexivity|].
              cbn. apply gn_call; auto. apply (tid_of_is_id TTaking t Et).
           ++ injection H as <- <-. exists tn. split; auto. cbn. apply gn_var; auto.
        -- injection H as <- <-. exists tn. split; auto. cbn. apply gn_var; auto.
      * cbn in Gn. injection H as <- <-. exists tn. split; auto.
  - intros s args s' H. cbn [parse_function_call_args] in H. inv_bind H. destruct x as [t s1].
    unfold consume in Hm. destruct (advance s) as [[t0 s0]|] eqn:Ea; [|destruct prof; discriminate].
    inv_bind Hm. injection Hm as <- <-. destruct (advance_toks _ _ _ Ea) as [A1 _].
    destruct (parse_parameter_list_sound (parse_unary prof f) Hu f _ _ _ H) as (ta & A2 & Ga).
    exists (t0 :: ta). split; [rewrite A1, A2; reflexivity|]. eauto.
Qed.

Theorem ES_all f : ES f.
Proof. induction f; [apply ES_0|apply ES_S; auto]. Qed.

(** ** C02: what [parse_expression] returns is the grammar's tree for the tokens it consumed *)
Theorem parse_expression_sound f s e s' :
  parse_expression prof f s = Ok (e, s') -> exists ts, ptoks s = ts ++ ptoks s' /\ g 5 ts e.
Proof. apply (s_expr f (ES_all f)). Qed.


(** * Statements *)
Ltac norm_app := repeat (progress (cbn [app]; rewrite <- ?app_assoc)).
Lemma consume_toks m s t s1 : consume prof m s = Ok (t, s1) -> current s = Some t /\ ptoks s = t :: ptoks s1.
Proof.
  unfold consume. destruct (advance s) as [[t0 s0]|] eqn:Ea; [|destruct prof; discriminate].
  intro H. inv_bind H. injection H as <- <-. destruct (advance_toks _ _ _ Ea) as [A _]. split; auto.
  unfold advance in Ea. unfold current. destruct (toks s); [discriminate|]. injection Ea as <- _. reflexivity.
Qed.

Lemma tid_of_is_id' id t : is_id id t = true ->
  match id with TStringLiteral _ | TNumber _ | TComment _ | TError _ => True | _ => tid t = id end.
Proof. apply tid_of_is_id. Qed.

Lemma expect_token_toks id s t s1 : expect_token id s = Ok (t, s1) -> ptoks s = t :: ptoks s1 /\ is_id id t = true.
Proof.
  unfold expect_token. destruct (match_and_consume (is_id id) s) as [[t0 s0]|] eqn:E; [|discriminate].
  intro H. injection H as <- <-. destruct (mac_toks _ _ _ _ E) as (A & B & _). auto.
Qed.

Lemma parse_identifier_sound s i r s1 :
  parse_identifier prof s = Ok (Some (i, r), s1) -> exists ts, ptoks s = ts ++ ptoks s1 /\ g_ident ts i.
Proof.
  unfold parse_identifier. intro H. inv_bind H. destruct x as [v s0].
  destruct (parse_variable_name_sound _ _ _ Hm) as (tn & A & Gn).
  destruct v as [[n r0]|].
  - injection H as <- <- <-. exists tn. split; auto. apply gi_var. exact Gn.
  - cbn in Gn. subst tn. unfold parse_pronoun in H.
    destruct (match_and_consume (is_id TPronoun) s0) as [[t s2]|] eqn:E; [|discriminate].
    destruct (mac_toks _ _ _ _ E) as (A2 & B2 & _). injection H as <- <- <-.
    exists [t]. split; [rewrite A, A2; reflexivity|]. apply gi_pronoun. apply (tid_of_is_id TPronoun t B2).
Qed.

Lemma expect_identifier_sound s i r s1 :
  expect_identifier prof s = Ok (i, r, s1) -> exists ts, ptoks s = ts ++ ptoks s1 /\ g_ident ts i.
Proof.
  unfold expect_identifier. intro H. inv_bind H. destruct x as [[[i0 r0]|] s0]; [|discriminate].
  injection H as <- <- <-. eapply parse_identifier_sound; eauto.
Qed.

Lemma expect_variable_name_sound s n r s1 :
  expect_variable_name prof s = Ok (n, r, s1) -> exists ts, ptoks s = ts ++ ptoks s1 /\ g_var ts n.
Proof.
  unfold expect_variable_name. intro H. inv_bind H. destruct x as [[[n0 r0]|] s0]; [|discriminate].
  injection H as <- <- <-. destruct (parse_variable_name_sound _ _ _ Hm) as (tn & A & Gn). eauto.
Qed.

Lemma g_ident_primary ti i r : g_ident ti i -> g_primary ti (PIdent i r).
Proof. intros [ts n G|t Ht]; apply gp_nsp; [apply gn_var; auto|apply gn_pronoun; auto]. Qed.

Lemma lhs_of_primary_inv p l : lhs_of_primary p = Ok l -> lhs_primary l = p.
Proof. destruct p; cbn; intro H; try discriminate; injection H as <-; reflexivity. Qed.

Lemma lhs_with_sound f i r s l s1 :
  parse_assignment_lhs_with prof f i r s = Ok (l, s1) ->
  exists ts, ptoks s = ts ++ ptoks s1 /\ forall ti, g_ident ti i -> g_lhs (ti ++ ts) l.
Proof.
  unfold parse_assignment_lhs_with. intro H. inv_bind H. destruct x as [p s0].
  destruct (s_sub f (ES_all f) _ _ _ _ Hm) as (ts & A & K). inv_bind H. injection H as <- <-.
  exists ts. split; auto. intros ti Gi. unfold g_lhs. rewrite (lhs_of_primary_inv _ _ Hm0).
  apply K. apply g_ident_primary. exact Gi.
Qed.

Lemma lhs_sound f s l s1 :
  parse_assignment_lhs prof f s = Ok (l, s1) -> exists ts, ptoks s = ts ++ ptoks s1 /\ g_lhs ts l.
Proof.
  unfold parse_assignment_lhs. intro H. inv_bind H. destruct x as [[i r] s0].
  destruct (expect_identifier_sound _ _ _ _ Hm) as (ti & A & Gi).
  destruct (lhs_with_sound _ _ _ _ _ _ H) as (ts & B & K).
  exists (ti ++ ts). split; [rewrite A, B, app_assoc; reflexivity|auto].
Qed.

Lemma expr_sound f s e s1 : parse_expression prof f s = Ok (e, s1) -> exists ts, ptoks s = ts ++ ptoks s1 /\ g 5 ts e.
Proof. apply (s_expr f (ES_all f)). Qed.
Lemma primary_sound f s p s1 : parse_primary prof f s = Ok (p, s1) -> exists ts, ptoks s = ts ++ ptoks s1 /\ g_primary ts p.
Proof. apply (s_primary f (ES_all f)). Qed.

Lemma toplevel_list_sound f s first rest_ s1 :
  parse_toplevel_expression_list prof f s = Ok (first, rest_, s1) ->
  exists tf tr, ptoks s = tf ++ tr ++ ptoks s1 /\ g 5 tf first /\ g_list 5 tr rest_.
Proof.
  unfold parse_toplevel_expression_list.
  apply (parse_expression_list_sound (parse_expression prof f) 5 (s_expr f (ES_all f))).
Qed.

Lemma expect_eol_sound s u s1 : expect_eol s = Ok (u, s1) -> exists ts, ptoks s = ts ++ ptoks s1 /\ g_eol ts.
Proof.
  unfold expect_eol. intro H. inv_bind H. destruct x as [o s0]. injection H as _ <-.
  destruct (skip_opt_toks (is_one_of [TComma; TDot]) s) as (l & A & Hl).
  set (s' := skip_opt (is_one_of [TComma; TDot]) s) in *.
  unfold expect_token_or_end in Hm. destruct (current s') as [t|] eqn:Ec.
  - destruct (ttype_eqb (tid t) TNewline) eqn:Et; [|discriminate].
    assert (Ht : tid t = TNewline) by (destruct (tid t); cbn in Et; try discriminate; reflexivity).
    destruct (advance s') as [[t' s2]|] eqn:Ea.
    + injection Hm as _ <-. destruct (advance_toks _ _ _ Ea) as [A2 _].
      destruct (current_head _ _ Ec) as [r Hr]. rewrite Hr in A2. injection A2 as <- ->.
      destruct Hl as [->|(x & -> & Hx)].
      * exists [t]. split; [rewrite A, Hr; reflexivity|apply ge_nl; auto].
      * exists [x; t]. split; [rewrite A, Hr; reflexivity|apply ge_sep_nl; auto].
    + injection Hm as _ <-. unfold advance in Ea. unfold current in Ec. destruct (toks s'); discriminate.
  - injection Hm as _ <-. destruct Hl as [->|(x & -> & Hx)].
    + exists []. split; auto. constructor.
    + exists [x]. split; auto. apply ge_sep; auto.
Qed.

Lemma poetic_elems_sound : forall fuel s acc el s1,
  poetic_elems fuel s acc = Ok (el, s1) ->
  forall ts0, g_poetic ts0 acc -> exists ts, ptoks s = ts ++ ptoks s1 /\ g_poetic (ts0 ++ ts) el.
Proof.
  induction fuel as [|f IH]; intros s acc el s1 H ts0 G0; cbn [poetic_elems] in H; [discriminate|].
  destruct (match_and_consume is_poetic_number_literal_token s) as [[t s0]|] eqn:E.
  - destruct (mac_toks _ _ _ _ E) as (A & B & _).
    assert (Hstep : forall acc' (G' : g_poetic (ts0 ++ [t]) acc'), poetic_elems f s0 acc' = Ok (el, s1) ->
              exists ts, ptoks s = ts ++ ptoks s1 /\ g_poetic (ts0 ++ ts) el).
    { intros acc' G' H'. destruct (IH _ _ _ _ H' _ G') as (ts & A2 & G2).
      exists (t :: ts). split; [rewrite A, A2; reflexivity|]. rewrite <- app_assoc in G2. exact G2. }
    assert (Hdef : (if is_minus_hyphen t
              then match advance s0 with
                   | Some (nt, s2) => if is_word (tspell nt) then poetic_elems f s2 (acc ++ [PESuffix (lit "-" ++ tspell nt)])
                                      else Err (mkPE PUnexpectedToken (PLTok nt))
                   | None => fail s0 PPoeticLiteralEndingWithHyphen
                   end
              else poetic_elems f s0 (acc ++ [PEWord (tspell t)])) = Ok (el, s1) ->
              exists ts, ptoks s = ts ++ ptoks s1 /\ g_poetic (ts0 ++ ts) el).
    { intro H'. destruct (is_minus_hyphen t) eqn:Eh.
      - destruct (advance s0) as [[nt s2]|] eqn:Ea; [|discriminate].
        destruct (advance_toks _ _ _ Ea) as [A2 _].
        destruct (is_word (tspell nt)) eqn:Ew; [|discriminate].
        destruct (IH _ _ _ _ H' (ts0 ++ [t; nt])) as (ts & A3 & G3); [apply gq_hyphen; auto|].
        exists (t :: nt :: ts). split; [rewrite A, A2, A3; reflexivity|]. rewrite <- app_assoc in G3. exact G3.
      - apply (Hstep _ (gq_word _ _ _ G0 B) H'). }
    destruct (tid t) eqn:Et; try (apply Hdef; exact H).
    + apply (Hstep (acc ++ [PESuffix (tspell t)])); auto. apply gq_suffix; auto.
    + apply (Hstep (acc ++ [PESuffix (tspell t)])); auto. apply gq_suffix; auto.
    + apply (Hstep acc); auto. apply gq_comma; auto.
    + apply (Hstep (acc ++ [PEDot])); auto. apply gq_dot; auto.
  - injection H as <- <-. exists []. rewrite app_nil_r. auto.
Qed.

Lemma poetic_literal_sound s el s1 :
  parse_poetic_number_literal s = Ok (el, s1) -> exists ts, ptoks s = ts ++ ptoks s1 /\ g_poetic ts el /\ el <> [].
Proof.
  unfold parse_poetic_number_literal. destruct (current_matches is_minus_hyphen s); [discriminate|].
  intro H. inv_bind H. destruct x as [el0 s0].
  destruct (poetic_elems_sound _ _ _ _ _ Hm [] gq_nil) as (ts & A & G). cbn [app] in G.
  destruct el0; [discriminate|]. injection H as <- <-. exists ts. repeat split; auto. discriminate.
Qed.

(** every simple statement, given the token that selected it *)
Lemma put_sound f s t st s1 : current s = Some t -> tid t = TPut ->
  parse_put_assignment prof f s = Ok (st, s1) -> exists ts, ptoks s = ts ++ ptoks s1 /\ g_stmt ts st.
Proof.
  intros Hc Ht H. unfold parse_put_assignment in H. inv_bind H. destruct x as [t0 s0].
  destruct (consume_toks _ _ _ _ Hm) as [Hc0 A0]. rewrite Hc in Hc0. injection Hc0 as <-.
  inv_bind H. destruct x as [v s2]. destruct (expr_sound _ _ _ _ Hm0) as (te & A1 & Ge).
  inv_bind H. destruct x as [ti s3]. destruct (expect_token_toks _ _ _ _ Hm1) as [A2 B2].
  inv_bind H. destruct x as [d s4]. destruct (lhs_sound _ _ _ _ Hm2) as (tl & A3 & Gl). injection H as <- <-.
  exists ([t] ++ te ++ [ti] ++ tl). split.
  - rewrite A0, A1, A2, A3. norm_app. reflexivity.
  - apply gs_put; auto. apply (tid_of_is_id TInto ti B2).
Qed.

Lemma let_sound f s t st s1 : current s = Some t -> tid t = TLet ->
  parse_let_assignment prof f s = Ok (st, s1) -> exists ts, ptoks s = ts ++ ptoks s1 /\ g_stmt ts st.
Proof.
  intros Hc Ht H. unfold parse_let_assignment in H. inv_bind H. destruct x as [t0 s0].
  destruct (consume_toks _ _ _ _ Hm) as [Hc0 A0]. rewrite Hc in Hc0. injection Hc0 as <-.
  inv_bind H. destruct x as [d s2]. destruct (lhs_sound _ _ _ _ Hm0) as (tl & A1 & Gl).
  inv_bind H. destruct x as [tb s3]. destruct (expect_token_toks _ _ _ _ Hm1) as [A2 B2].
  inv_bind H. destruct x as [op s4].
  assert (Hop : exists top, ptoks s3 = top ++ ptoks s4 /\
            (top = [] /\ op = None \/ exists o x, top = [x] /\ op = Some o /\
               is_one_of [TPlus; TWith; TMinus; TMultiply; TDivide] x = true /\ get_binary_operator (tid x) = Some o)).
  { destruct (match_and_consume (is_one_of [TPlus; TWith; TMinus; TMultiply; TDivide]) s3) as [[x s']|] eqn:E.
    - destruct (mac_toks _ _ _ _ E) as (A & B & _). inv_bind Hm2.
      unfold unwrap_op in Hm3. destruct (get_binary_operator (tid x)) as [o|] eqn:Eo; [|discriminate].
      injection Hm3 as <-. injection Hm2 as <- <-. exists [x]. split; [rewrite A; reflexivity|]. right. exists o, x. auto.
    - injection Hm2 as <- <-. exists []. split; auto. }
  destruct Hop as (top & A3 & Hop).
  inv_bind H. destruct x as [[first rest_] s5]. destruct (toplevel_list_sound _ _ _ _ _ Hm3) as (tf & tr & A4 & Gf & Gr).
  injection H as <- <-.
  exists ([t] ++ tl ++ [tb] ++ top ++ tf ++ tr). split.
  - rewrite A0, A1, A2, A3, A4. norm_app. reflexivity.
  - apply gs_let; auto. apply (tid_of_is_id TBe tb B2).
Qed.

Lemma drop_until_newline_toks : forall n s2,
  exists tany, ptoks s2 = tany ++ ptoks (drop_until_newline s2 n) /\ Forall (fun x => tid x <> TNewline) tany.
Proof.
  induction n as [|n IH]; intro s2; cbn [drop_until_newline]; [exists []; split; auto|].
  destruct (current s2) as [c|] eqn:Ec; [|exists []; split; auto].
  assert (Hadv : exists tany, ptoks s2 = tany ++ ptoks (match advance s2 with Some (_, s') => drop_until_newline s' n | None => s2 end) /\
                   (tid c <> TNewline -> Forall (fun x => tid x <> TNewline) tany)).
  { destruct (advance s2) as [[c' s']|] eqn:Ea; [|exists []; split; auto].
    destruct (advance_toks _ _ _ Ea) as [A _]. destruct (current_head _ _ Ec) as [r Hr]. rewrite Hr in A. injection A as <- ->.
    destruct (IH s') as (tany & A2 & F2). exists (c :: tany). split; [rewrite Hr, A2; reflexivity|]. intro Hn. constructor; auto. }
  destruct (tid c) eqn:Et; try (destruct Hadv as (tany & A & F); exists tany; split; [exact A|apply F; discriminate]).
  exists []. split; auto.
Qed.

Lemma poetic_assignment_sound buf f i r s st s1 :
  parse_poetic_assignment prof buf f i r s = Ok (st, s1) ->
  exists ts, ptoks s = ts ++ ptoks s1 /\ forall ti, g_ident ti i -> g_stmt (ti ++ ts) st.
Proof.
  unfold parse_poetic_assignment. intro H. inv_bind H. destruct x as [d s0].
  destruct (lhs_with_sound _ _ _ _ _ _ Hm) as (tl & A0 & Kl).
  inv_bind H. destruct x as [t s2]. unfold expect_any in Hm0.
  destruct (match_and_consume (is_one_of [TIs; TApostropheS; TApostropheRE; TSays; TSay]) s0) as [[t' s2']|] eqn:E; [|discriminate].
  injection Hm0 as -> ->. destruct (mac_toks _ _ _ _ E) as (A1 & B1 & _).
  assert (Hstr : is_one_of [TSays; TSay] t = true ->
            (let* (txt, s3) := parse_poetic_string_rhs buf t s2 in Ok (SPoeticStr d txt, s3)) = Ok (st, s1) ->
            exists ts, ptoks s = ts ++ ptoks s1 /\ forall ti, g_ident ti i -> g_stmt (ti ++ ts) st).
  { intros Hs H'. inv_bind H'. destruct x as [txt s3]. injection H' as <- <-.
    unfold parse_poetic_string_rhs in Hm0.
    set (sd := drop_until_newline s2 (length (toks s2))) in *.
    assert (Hd : exists tany, ptoks s2 = tany ++ ptoks sd /\ Forall (fun x => tid x <> TNewline) tany)
      by (apply drop_until_newline_toks).
    destruct Hd as (tany & A2 & Fany).
    assert (Es : s3 = sd).
    { destruct (match current sd with
                | Some e => if boundary_ok buf (tstart t) && boundary_ok buf (tstart e) then slice_bytes buf (tstart t) (tstart e) else None
                | None => if boundary_ok buf (tstart t) then Some (drop_bytes (tstart t) buf) else None
                end) as [text|]; [|discriminate].
      destruct (strip_prefix (tspell t) text) as [after|]; [|discriminate].
      destruct (strip_prefix (lit " ") after); [|discriminate]. injection Hm0 as _ <-. reflexivity. }
    subst s3. exists (tl ++ [t] ++ tany). split.
    - rewrite A0, A1, A2. norm_app. reflexivity.
    - intros ti Gi. rewrite app_assoc. apply gs_poetic_str; auto. }
  assert (Hnum : is_one_of [TIs; TApostropheS; TApostropheRE] t = true ->
            (let* (rhs, s3) := parse_poetic_number_rhs prof f s2 in Ok (SPoeticNum d rhs, s3)) = Ok (st, s1) ->
            exists ts, ptoks s = ts ++ ptoks s1 /\ forall ti, g_ident ti i -> g_stmt (ti ++ ts) st).
  { intros Hs H'. inv_bind H'. destruct x as [rhs s3]. injection H' as <- <-.
    unfold parse_poetic_number_rhs in Hm0. destruct (current s2) as [c|]; [|discriminate].
    inv_bind Hm0. destruct x.
    - inv_bind Hm0. destruct x as [e s4]. injection Hm0 as <- <-.
      destruct (expr_sound _ _ _ _ Hm2) as (te & A2 & Ge).
      exists (tl ++ [t] ++ te). split; [rewrite A0, A1, A2; norm_app; reflexivity|].
      intros ti Gi. rewrite app_assoc. apply gs_poetic_expr; auto.
    - inv_bind Hm0. destruct x as [el s4]. injection Hm0 as <- <-.
      destruct (poetic_literal_sound _ _ _ Hm2) as (tp & A2 & Gp & Hne).
      exists (tl ++ [t] ++ tp). split; [rewrite A0, A1, A2; norm_app; reflexivity|].
      intros ti Gi. rewrite app_assoc. apply gs_poetic_lit; auto. }
  unfold is_one_of, ttype_in in B1.
  destruct (tid t) eqn:Et; cbn in B1; try discriminate;
    first [ apply Hnum; [unfold is_one_of, ttype_in; rewrite Et; reflexivity|exact H]
          | apply Hstr; [unfold is_one_of, ttype_in; rewrite Et; reflexivity|exact H] ].
Qed.

Ltac first_tok Hm Hc :=
  let Hc0 := fresh "Hc0" in let A0 := fresh "A0" in
  destruct (consume_toks _ _ _ _ Hm) as [Hc0 A0]; rewrite Hc in Hc0; injection Hc0 as <-.

Lemma count_suffix_sound sfx : (sfx = TUp \/ sfx = TDown) -> forall fuel s c c' s1,
  count_suffix fuel sfx s c = (c', s1) ->
  exists more, ptoks s = more ++ ptoks s1 /\
    Forall (fun x => tid x = TComma \/ tid x = sfx) more /\
    c' = (c + Z.of_nat (length (filter (is_id sfx) more)))%Z.
Proof.
  intro Hsfx. induction fuel as [|f IH]; intros s c c' s1 H; cbn [count_suffix] in H.
  - injection H as <- <-. exists []. cbn. repeat split; auto. lia.
  - destruct (match_and_consume (is_id sfx) s) as [[t s0]|] eqn:E.
    + destruct (mac_toks _ _ _ _ E) as (A & B & _).
      assert (Ht : tid t = sfx) by (destruct Hsfx as [->| ->]; [apply (tid_of_is_id TUp t B)|apply (tid_of_is_id TDown t B)]).
      destruct (skip_opt_toks (is_id TComma) s0) as (l & A2 & Hl).
      destruct (IH _ _ _ _ H) as (more & A3 & F & Hc).
      assert (Hl2 : Forall (fun x => tid x = TComma \/ tid x = sfx) l /\ filter (is_id sfx) l = []).
      { destruct Hl as [->|(x & -> & Hx)]; [split; auto|].
        pose proof (tid_of_is_id TComma x Hx) as Hx'. cbn in Hx'. split; [constructor; auto|].
        cbn [filter]. unfold is_id. rewrite Hx'. destruct Hsfx as [->| ->]; reflexivity. }
      destruct Hl2 as [Fl El].
      exists ([t] ++ l ++ more). split; [rewrite A, A2, A3; norm_app; reflexivity|]. split.
      * constructor; [right; auto|]. apply Forall_app. split; auto.
      * rewrite Hc. cbn [app filter]. rewrite B. rewrite filter_app, El. cbn [app length]. lia.
    + injection H as <- <-. exists []. cbn. repeat split; auto. lia.
Qed.

Lemma build_knock_sound b sfx s t i r k s1 :
  current s = Some t -> tid t = b -> (sfx = TUp \/ sfx = TDown) ->
  parse_build_knock prof b sfx s = Ok (i, r, k, s1) ->
  exists ti tu more, ptoks s = ([t] ++ ti ++ [tu] ++ more) ++ ptoks s1 /\ g_ident ti i /\ tid tu = sfx /\
    Forall (fun x => tid x = TComma \/ tid x = sfx) more /\ k = (1 + Z.of_nat (length (filter (is_id sfx) more)))%Z.
Proof.
  intros Hc Ht Hsfx H. unfold parse_build_knock in H. inv_bind H. destruct x as [t0 s0]. first_tok Hm Hc.
  inv_bind H. destruct x as [[i0 r0] s2]. destruct (expect_identifier_sound _ _ _ _ Hm0) as (ti & A1 & Gi).
  inv_bind H. destruct x as [tu s3]. destruct (expect_token_toks _ _ _ _ Hm1) as [A2 B2].
  destruct (skip_opt_toks (is_id TComma) s3) as (l & A3 & Hl).
  destruct (count_suffix (length (toks (skip_opt (is_id TComma) s3))) sfx (skip_opt (is_id TComma) s3) 0%Z) as [extra s5] eqn:Ecs.
  assert (Ek : k = (1 + extra)%Z) by congruence.
  injection H as <- <- _ <-.
  destruct (count_suffix_sound sfx Hsfx _ _ _ _ _ Ecs) as (more & A4 & F & Hk).
  assert (Htu : tid tu = sfx) by (destruct Hsfx as [->| ->]; [apply (tid_of_is_id TUp tu B2)|apply (tid_of_is_id TDown tu B2)]).
  assert (Hl2 : Forall (fun x => tid x = TComma \/ tid x = sfx) l /\ filter (is_id sfx) l = []).
  { destruct Hl as [->|(x & -> & Hx)]; [split; auto|].
    pose proof (tid_of_is_id TComma x Hx) as Hx'. cbn in Hx'. split; [constructor; auto|].
    cbn [filter]. unfold is_id. rewrite Hx'. destruct Hsfx as [->| ->]; reflexivity. }
  destruct Hl2 as [Fl El].
  exists ti, tu, (l ++ more). split; [rewrite A0, A1, A2, A3, A4; norm_app; reflexivity|].
  repeat split; auto.
  - apply Forall_app. split; auto.
  - rewrite Ek, Hk, filter_app, El. cbn [app]. lia.
Qed.

Lemma say_sound f s t st s1 : current s = Some t -> is_one_of [TSay; TSayAlias] t = true ->
  parse_say prof f s = Ok (st, s1) -> exists ts, ptoks s = ts ++ ptoks s1 /\ g_stmt ts st.
Proof.
  intros Hc Ht H. unfold parse_say in H. inv_bind H. destruct x as [t0 s0]. first_tok Hm Hc.
  inv_bind H. destruct x as [e s2]. destruct (expr_sound _ _ _ _ Hm0) as (te & A1 & Ge). injection H as <- <-.
  exists ([t] ++ te). split; [rewrite A0, A1; norm_app; reflexivity|apply gs_say; auto].
Qed.

Lemma listen_sound f s t st s1 : current s = Some t -> tid t = TListen ->
  parse_listen prof f s = Ok (st, s1) -> exists ts, ptoks s = ts ++ ptoks s1 /\ g_stmt ts st.
Proof.
  intros Hc Ht H. unfold parse_listen in H. inv_bind H. destruct x as [t0 s0]. first_tok Hm Hc.
  destruct (match_and_consume (is_id TTo) s0) as [[tt s2]|] eqn:E.
  - destruct (mac_toks _ _ _ _ E) as (A1 & B1 & _). inv_bind H. destruct x as [d s3].
    destruct (lhs_sound _ _ _ _ Hm0) as (tl & A2 & Gl). injection H as <- <-.
    exists ([t; tt] ++ tl). split; [rewrite A0, A1, A2; norm_app; reflexivity|].
    apply gs_listen_to; auto. apply (tid_of_is_id TTo tt B1).
  - injection H as <- <-. exists [t]. split; [rewrite A0; reflexivity|apply gs_listen; auto].
Qed.

Lemma opt_lhs_after_sound f s o s1 :
  opt_lhs_after prof f TInto s = Ok (o, s1) ->
  exists ts, ptoks s = ts ++ ptoks s1 /\
    (ts = [] /\ o = None \/ exists x tl d, ts = [x] ++ tl /\ tid x = TInto /\ g_lhs tl d /\ o = Some d).
Proof.
  unfold opt_lhs_after. destruct (match_and_consume (is_id TInto) s) as [[x s0]|] eqn:E.
  - destruct (mac_toks _ _ _ _ E) as (A & B & _). intro H. inv_bind H. destruct x0 as [d s2].
    destruct (lhs_sound _ _ _ _ Hm) as (tl & A2 & Gl). injection H as <- <-.
    exists ([x] ++ tl). split; [rewrite A, A2; reflexivity|]. right. exists x, tl, d. repeat split; auto.
    apply (tid_of_is_id TInto x B).
  - intro H. injection H as <- <-. exists []. split; auto.
Qed.

Lemma mutation_sound f s t st s1 : current s = Some t -> is_one_of [TCut; TJoin; TCast] t = true ->
  parse_mutation prof f s = Ok (st, s1) -> exists ts, ptoks s = ts ++ ptoks s1 /\ g_stmt ts st.
Proof.
  intros Hc Ht H. unfold parse_mutation in H. inv_bind H. destruct x as [t0 s0]. first_tok Hm Hc.
  inv_bind H. unfold unwrap_op in Hm0. destruct (get_mutation_operator (tid t)) as [op|] eqn:Eo; [|discriminate].
  injection Hm0 as <-.
  inv_bind H. destruct x as [operand s2]. destruct (primary_sound _ _ _ _ Hm0) as (tp & A1 & Gp).
  inv_bind H. destruct x as [dest s3]. destruct (opt_lhs_after_sound _ _ _ _ Hm1) as (tinto & A2 & Hinto).
  inv_bind H. inv_bind H. destruct x0 as [param s4]. injection H as <- <-.
  assert (Hw : exists twith, ptoks s3 = twith ++ ptoks s4 /\
            (twith = [] /\ param = None \/ exists x te e, twith = [x] ++ te /\ tid x = TWith /\ g 5 te e /\ param = Some e)).
  { destruct (match_and_consume (is_id TWith) s3) as [[xw s']|] eqn:E.
    - destruct (mac_toks _ _ _ _ E) as (A & B & _).
      destruct (parse_expression prof f s') as [[e s'']| | | | |] eqn:Ee; cbn [bind] in Hm3; try discriminate.
      destruct (expr_sound _ _ _ _ Ee) as (te & A3 & Ge). injection Hm3 as <- <-.
      exists ([xw] ++ te). split; [rewrite A, A3; reflexivity|]. right. exists xw, te, e. repeat split; auto.
      apply (tid_of_is_id TWith xw B).
    - injection Hm3 as <- <-. exists []. split; auto. }
  destruct Hw as (twith & A3 & Hwith).
  exists ([t] ++ tp ++ tinto ++ twith). split; [rewrite A0, A1, A2, A3; norm_app; reflexivity|].
  apply gs_mutation; auto.
Qed.

Lemma rounding_direction_sound s d s1 :
  parse_rounding_direction s = (d, s1) ->
  (d = None /\ s1 = s) \/
  exists td, ptoks s = td :: ptoks s1 /\ is_one_of [TUp; TDown; TRound] td = true /\ d = get_rounding_direction (tid td).
Proof.
  unfold parse_rounding_direction. destruct (match_and_consume (is_one_of [TUp; TDown; TRound]) s) as [[td s0]|] eqn:E.
  - destruct (mac_toks _ _ _ _ E) as (A & B & _). intro H. injection H as <- <-. right. exists td. auto.
  - intro H. injection H as <- <-. left. auto.
Qed.

Lemma rounding_sound f s t st s1 : current s = Some t -> tid t = TTurn ->
  parse_rounding prof f s = Ok (st, s1) -> exists ts, ptoks s = ts ++ ptoks s1 /\ g_stmt ts st.
Proof.
  intros Hc Ht H. unfold parse_rounding in H. inv_bind H. destruct x as [t0 s0]. first_tok Hm Hc.
  destruct (parse_rounding_direction s0) as [d1 s2] eqn:E1.
  inv_bind H. destruct x as [operand s3]. destruct (expr_sound _ _ _ _ Hm0) as (te & A1 & Ge).
  destruct (rounding_direction_sound _ _ _ E1) as [[-> ->]|(td & A2 & B2 & ->)].
  - destruct (parse_rounding_direction s3) as [d2 s4] eqn:E2.
    destruct (rounding_direction_sound _ _ _ E2) as [[-> ->]|(td & A2 & B2 & ->)]; [discriminate|].
    destruct (get_rounding_direction (tid td)) as [d|] eqn:Ed; [|discriminate]. injection H as <- <-.
    exists ([t] ++ te ++ [td]). split; [rewrite A0, A1, A2; norm_app; reflexivity|apply gs_round_after; auto].
  - destruct (get_rounding_direction (tid td)) as [d|] eqn:Ed.
    + injection H as <- <-. exists ([t; td] ++ te). split; [rewrite A0, A2, A1; norm_app; reflexivity|apply gs_round_before; auto].
    + exfalso. unfold is_one_of, ttype_in in B2. destruct (tid td); cbn in B2; try discriminate; cbn in Ed; discriminate.
Qed.

Lemma break_sound s t st s1 : current s = Some t -> tid t = TBreak ->
  parse_break prof s = Ok (st, s1) -> exists ts, ptoks s = ts ++ ptoks s1 /\ g_stmt ts st.
Proof.
  intros Hc Ht H. unfold parse_break in H. inv_bind H. destruct x as [b s0]. first_tok Hm Hc.
  assert (Hplain : forall r, exists ts, ptoks s = ts ++ ptoks s0 /\ g_stmt ts (SBreak r))
    by (intro r; exists [t]; split; [rewrite A0; reflexivity|apply gs_break; auto]).
  destruct (current s0) as [t1|] eqn:Ec1; [|injection H as <- <-; apply Hplain].
  inv_bind H. destruct x; [|injection H as <- <-; apply Hplain].
  destruct (advance s0) as [[ti s2]|] eqn:Ea; [|injection H as <- <-; apply Hplain].
  destruct (advance_toks _ _ _ Ea) as [A1 _].
  inv_bind H. destruct x as [td s3]. destruct (expect_token_toks _ _ _ _ Hm1) as [A2 B2]. injection H as <- <-.
  exists [t; ti; td]. split; [rewrite A0, A1, A2; reflexivity|]. apply gs_break_it_down; auto. apply (tid_of_is_id TDown td B2).
Qed.

Lemma continue_sound s t st s1 : current s = Some t -> tid t = TContinue ->
  parse_simple_continue prof s = Ok (st, s1) -> exists ts, ptoks s = ts ++ ptoks s1 /\ g_stmt ts st.
Proof.
  intros Hc Ht H. unfold parse_simple_continue in H. inv_bind H. destruct x as [b s0]. first_tok Hm Hc. injection H as <- <-.
  exists [t]. split; [rewrite A0; reflexivity|apply gs_continue; auto].
Qed.

Lemma expect_ispelled_toks text s t s1 : expect_token_ispelled text s = Ok (t, s1) -> ptoks s = t :: ptoks s1.
Proof.
  unfold expect_token_ispelled. destruct (current s) as [c|] eqn:Ec; [|discriminate].
  intro H. inv_bind H. destruct x; [|discriminate]. destruct (advance s) as [[t' s']|] eqn:Ea; [|discriminate].
  injection H as <- <-. apply (advance_toks _ _ _ Ea).
Qed.

Lemma take_sound s t st s1 : current s = Some t -> tid t = TTake ->
  parse_take_it_to_the_top prof s = Ok (st, s1) -> exists ts, ptoks s = ts ++ ptoks s1 /\ g_stmt ts st.
Proof.
  intros Hc Ht H. unfold parse_take_it_to_the_top in H. inv_bind H. destruct x as [t0 s0]. first_tok Hm Hc.
  inv_bind H. destruct x as [t2 s2]. pose proof (expect_ispelled_toks _ _ _ _ Hm0) as A1.
  inv_bind H. destruct x as [t3 s3]. destruct (expect_token_toks _ _ _ _ Hm1) as [A2 B2].
  inv_bind H. destruct x as [t4 s4]. pose proof (expect_ispelled_toks _ _ _ _ Hm2) as A3.
  inv_bind H. destruct x as [t5 s5]. destruct (expect_token_toks _ _ _ _ Hm3) as [A4 B4]. injection H as <- <-.
  exists [t; t2; t3; t4; t5]. split; [rewrite A0, A1, A2, A3, A4; reflexivity|].
  apply gs_take_it_to_the_top; auto; [apply (tid_of_is_id TTo t3 B2)|apply (tid_of_is_id TTop t5 B4)].
Qed.

Lemma push_sound f s t st s1 : current s = Some t -> tid t = TRock ->
  parse_array_push prof f s = Ok (st, s1) -> exists ts, ptoks s = ts ++ ptoks s1 /\ g_stmt ts st.
Proof.
  intros Hc Ht H. unfold parse_array_push in H. inv_bind H. destruct x as [t0 s0]. first_tok Hm Hc.
  inv_bind H. destruct x as [arr s2]. destruct (primary_sound _ _ _ _ Hm0) as (tp & A1 & Gp).
  destruct (match_and_consume (is_one_of [TWith; TLike]) s2) as [[tw s3]|] eqn:E.
  - destruct (mac_toks _ _ _ _ E) as (A2 & B2 & _). unfold is_one_of, ttype_in in B2.
    destruct (tid tw) eqn:Etw; cbn in B2; try discriminate.
    + inv_bind H. destruct x as [el s4]. destruct (poetic_literal_sound _ _ _ Hm1) as (tq & A3 & Gq & Hne). injection H as <- <-.
      exists ([t] ++ tp ++ [tw] ++ tq). split; [rewrite A0, A1, A2, A3; norm_app; reflexivity|apply gs_rock_like; auto].
    + inv_bind H. destruct x as [[first rest_] s4]. destruct (toplevel_list_sound _ _ _ _ _ Hm1) as (tf & tr & A3 & Gf & Gr).
      injection H as <- <-.
      exists ([t] ++ tp ++ [tw] ++ tf ++ tr). split; [rewrite A0, A1, A2, A3; norm_app; reflexivity|apply gs_rock_with; auto].
  - injection H as <- <-. exists ([t] ++ tp). split; [rewrite A0, A1; norm_app; reflexivity|apply gs_rock; auto].
Qed.

Lemma pop_sound f s t st s1 : current s = Some t -> tid t = TRoll ->
  parse_array_pop prof f s = Ok (st, s1) -> exists ts, ptoks s = ts ++ ptoks s1 /\ g_stmt ts st.
Proof.
  intros Hc Ht H. unfold parse_array_pop in H. inv_bind H. destruct x as [t0 s0]. first_tok Hm Hc.
  inv_bind H. destruct x as [arr s2]. destruct (primary_sound _ _ _ _ Hm0) as (tp & A1 & Gp).
  inv_bind H. destruct x as [dest s3]. destruct (opt_lhs_after_sound _ _ _ _ Hm1) as (tinto & A2 & Hinto). injection H as <- <-.
  exists ([t] ++ tp ++ tinto). split; [rewrite A0, A1, A2; norm_app; reflexivity|apply gs_roll; auto].
Qed.

Lemma skip_opt_tok m s : exists l, ptoks s = l ++ ptoks (skip_opt m s) /\ g_opt_tok m l.
Proof.
  destruct (skip_opt_toks m s) as (l & A & Hl). exists l. split; auto.
Qed.

Lemma return_sound f s t st s1 : current s = Some t -> tid t = TReturn ->
  parse_return prof f s = Ok (st, s1) -> exists ts, ptoks s = ts ++ ptoks s1 /\ g_stmt ts st.
Proof.
  intros Hc Ht H. unfold parse_return in H. inv_bind H. destruct x as [rt s0]. first_tok Hm Hc.
  inv_bind H.
  assert (Hb1 : exists l, ptoks s0 = l ++ ptoks (if x then skip_opt (is_id TBack) s0 else s0) /\ g_opt_tok (is_id TBack) l).
  { destruct x; [apply skip_opt_tok|exists []; split; [reflexivity|left; reflexivity]]. }
  destruct Hb1 as (tb1 & A1 & G1).
  inv_bind H. destruct x0 as [e s3]. destruct (expr_sound _ _ _ _ Hm1) as (te & A2 & Ge). injection H as <- <-.
  destruct (skip_opt_tok (is_id TBack) s3) as (tb2 & A3 & G2).
  exists ([t] ++ tb1 ++ te ++ tb2). split; [rewrite A0, A1, A2, A3; norm_app; reflexivity|apply gs_return; auto].
Qed.

(** * Function parameters *)
Definition param_parser : P (varname * range) :=
  fun st => let* (v, r, st') := expect_variable_name prof st in Ok ((v, r), st').

Lemma param_parser_sound s n r s1 : param_parser s = Ok ((n, r), s1) -> exists ts, ptoks s = ts ++ ptoks s1 /\ g_var ts n.
Proof.
  unfold param_parser. intro H. inv_bind H. destruct x as [[v r0] st']. injection H as <- <- <-.
  eapply expect_variable_name_sound; eauto.
Qed.

Lemma argsep_of s sep s1 : match_and_consume (is_one_of param_seps) s = Some (sep, s1) ->
  exists tsep, ptoks s = tsep ++ ptoks (match tid sep with TComma => skip_opt (is_id TAnd) s1 | _ => s1 end) /\ g_argsep tsep.
Proof.
  intro E. destruct (mac_toks _ _ _ _ E) as (A & B & _).
  assert (Hdef : exists tsep, ptoks s = tsep ++ ptoks s1 /\ g_argsep tsep)
    by (exists [sep]; split; [rewrite A; reflexivity|apply ga_sep; auto]).
  destruct (tid sep) eqn:Et; try exact Hdef.
  destruct (skip_opt_toks (is_id TAnd) s1) as (l & Hl & [->|(a & -> & Ha)]).
  - exists [sep]. split; [rewrite A, Hl; reflexivity|apply ga_sep; auto].
  - exists [sep; a]. split; [rewrite A, Hl; reflexivity|]. apply ga_comma_and; auto. apply (tid_of_is_id TAnd a Ha).
Qed.

Lemma param_tail_params : forall fuel s acc acc' s1,
  param_tail param_parser fuel s acc = Ok (acc', s1) ->
  forall ts0, g_params ts0 acc -> exists ts, ptoks s = ts ++ ptoks s1 /\ g_params (ts0 ++ ts) acc'.
Proof.
  induction fuel as [|f IH]; intros s acc acc' s1 H ts0 G0; cbn [param_tail] in H; [discriminate|].
  destruct (match_and_consume (is_one_of param_seps) s) as [[sep s0]|] eqn:E.
  - destruct (argsep_of _ _ _ E) as (tsep & A & Gs).
    inv_bind H. destruct x as [[n r] s3]. destruct (param_parser_sound _ _ _ _ Hm) as (tn & A2 & Gn).
    destruct (IH _ _ _ _ H (ts0 ++ tsep ++ tn)) as (ts & A3 & Gp); [apply gpar_snoc; auto|].
    exists (tsep ++ tn ++ ts). split; [rewrite A, A2, A3; norm_app; reflexivity|]. rewrite <- ?app_assoc in Gp. exact Gp.
  - injection H as <- <-. exists []. rewrite app_nil_r. auto.
Qed.

Lemma parameter_list_params fuel s ps s1 :
  parse_parameter_list param_parser fuel s = Ok (ps, s1) -> exists ts, ptoks s = ts ++ ptoks s1 /\ g_params ts ps.
Proof.
  unfold parse_parameter_list. intro H. inv_bind H. destruct x as [[n r] s0].
  destruct (param_parser_sound _ _ _ _ Hm) as (tn & A & Gn).
  destruct (param_tail_params _ _ _ _ _ H tn (gpar_one tn n r Gn)) as (ts & A2 & Gp).
  exists (tn ++ ts). split; [rewrite A, A2; norm_app; reflexivity|exact Gp].
Qed.

(** * Statements and blocks *)
Section Blocks.
Variable buf : str.

Record BS (f : nat) : Prop := mkBS {
  bs_stmt : forall s o s1, parse_statement prof buf f s = Ok (o, s1) ->
      match o with
      | Some st => exists ts, ptoks s = ts ++ ptoks s1 /\ g_stmt ts st
      | None => s1 = s
      end;
  bs_word : forall s st s1, parse_statement_starting_with_word prof buf f s = Ok (st, s1) ->
      exists ts, ptoks s = ts ++ ptoks s1 /\ g_stmt ts st;
  bs_fun : forall n nr s t st s1, current s = Some t -> tid t = TTakes ->
      parse_function prof buf f n nr s = Ok (st, s1) ->
      exists ts, ptoks s = ts ++ ptoks s1 /\ forall tn, g_var tn n -> g_stmt (tn ++ ts) st;
  bs_if : forall s t st s1, current s = Some t -> tid t = TIf -> parse_if prof buf f s = Ok (st, s1) ->
      exists ts, ptoks s = ts ++ ptoks s1 /\ g_stmt ts st;
  bs_loop : forall s t st s1, current s = Some t -> (tid t = TWhile \/ tid t = TUntil) -> parse_loop prof buf f s = Ok (st, s1) ->
      exists ts, ptoks s = ts ++ ptoks s1 /\ g_stmt ts st;
  bs_block : forall s b s1, parse_block prof buf f s = Ok (b, s1) -> exists ts, ptoks s = ts ++ ptoks s1 /\ g_block ts b;
  bs_fblock : forall s b s1, parse_function_block prof buf f s = Ok (b, s1) -> exists ts, ptoks s = ts ++ ptoks s1 /\ g_block ts b;
  bs_stmts : forall inf s acc ss s1, block_statements prof buf f inf s acc = Ok (ss, s1) ->
      forall ts0, g_stmts ts0 acc -> exists ts, ptoks s = ts ++ ptoks s1 /\ g_stmts (ts0 ++ ts) ss
}.

Lemma BS_0 : BS 0.
Proof. constructor; intros; discriminate. Qed.

Lemma some_inv (r : pres (stmt * pstate)) o s1 :
  (let* (x, s') := r in Ok (Some x, s')) = Ok (o, s1) -> exists st, o = Some st /\ r = Ok (st, s1).
Proof. destruct r as [[x s']| | | | |]; cbn; try discriminate. intro H. injection H as <- <-. eauto. Qed.

Lemma parse_statement_S f s :
  parse_statement prof buf (S f) s =
  (let some := fun r : pres (stmt * pstate) => let* (x, s') := r in Ok (Some x, s') in
   match current s with
   | None => Ok (None, s)
   | Some t =>
       match tid t with
       | TPut => some (parse_put_assignment prof f s)
       | TLet => some (parse_let_assignment prof f s)
       | TWord | TCommonVariablePrefix | TPronoun => some (parse_statement_starting_with_word prof buf f s)
       | TIf => some (parse_if prof buf f s)
       | TWhile | TUntil => some (parse_loop prof buf f s)
       | TElse => Ok (None, s)
       | TNewline => Ok (None, s)
       | TBuild => let* (i, r, k, s1) := parse_build_knock prof TBuild TUp s in Ok (Some (SInc i r k), s1)
       | TKnock => let* (i, r, k, s1) := parse_build_knock prof TKnock TDown s in Ok (Some (SDec i r k), s1)
       | TSay | TSayAlias => some (parse_say prof f s)
       | TListen => some (parse_listen prof f s)
       | TCut | TJoin | TCast => some (parse_mutation prof f s)
       | TTurn => some (parse_rounding prof f s)
       | TBreak => some (parse_break prof s)
       | TContinue => some (parse_simple_continue prof s)
       | TTake => some (parse_take_it_to_the_top prof s)
       | TRock => some (parse_array_push prof f s)
       | TRoll => some (parse_array_pop prof f s)
       | TReturn => some (parse_return prof f s)
       | _ => fail s PUnexpectedToken
       end
   end).
Proof. reflexivity. Qed.

Lemma BS_S f : BS f -> BS (S f).
Proof.
  intros [Hst Hw Hfn Hif Hlp Hb Hfb Hss]. constructor.
  - (* parse_statement *)
    intros s o s1 H. rewrite parse_statement_S in H. cbv zeta in H.
    destruct (current s) as [t|] eqn:Ec; [|injection H as <- <-; reflexivity].
    destruct (tid t) eqn:Et; try discriminate; try (injection H as <- <-; reflexivity);
      try (apply some_inv in H; destruct H as (st & -> & H);
           first [ solve [eapply put_sound; eauto] | solve [eapply let_sound; eauto] | solve [eapply Hw; eauto]
                 | solve [eapply Hif; eauto] | solve [eapply Hlp; eauto]
                 | solve [eapply say_sound; eauto; unfold is_one_of, ttype_in; rewrite Et; reflexivity]
                 | solve [eapply listen_sound; eauto]
                 | solve [eapply mutation_sound; eauto; unfold is_one_of, ttype_in; rewrite Et; reflexivity]
                 | solve [eapply rounding_sound; eauto] | solve [eapply break_sound; eauto] | solve [eapply continue_sound; eauto]
                 | solve [eapply take_sound; eauto] | solve [eapply push_sound; eauto] | solve [eapply pop_sound; eauto]
                 | solve [eapply return_sound; eauto] ]).
    + inv_bind H. destruct x as [[[i r] k] s0]. injection H as <- <-.
      destruct (build_knock_sound TBuild TUp s t i r k s0 Ec Et (or_introl eq_refl) Hm) as (ti & tu & more & A & Gi & Htu & F & ->).
      eexists. split; [exact A|]. apply gs_build; auto.
    + inv_bind H. destruct x as [[[i r] k] s0]. injection H as <- <-.
      destruct (build_knock_sound TKnock TDown s t i r k s0 Ec Et (or_intror eq_refl) Hm) as (ti & tu & more & A & Gi & Htu & F & ->).
      eexists. split; [exact A|]. apply gs_knock; auto.
  - (* starting with a word *)
    intros s st s1 H. cbn [parse_statement_starting_with_word] in H.
    inv_bind H. destruct x as [[i r] s0]. destruct (expect_identifier_sound _ _ _ _ Hm) as (ti & A & Gi).
    assert (Hpo : parse_poetic_assignment prof buf f i r s0 = Ok (st, s1) -> exists ts, ptoks s = ts ++ ptoks s1 /\ g_stmt ts st).
    { intro H'. destruct (poetic_assignment_sound _ _ _ _ _ _ _ H') as (ts & A2 & K).
      exists (ti ++ ts). split; [rewrite A, A2; norm_app; reflexivity|auto]. }
    destruct (current s0) as [t|] eqn:Ec; [|auto].
    destruct (tid t) eqn:Et; auto.
    + inv_bind H. destruct x as [n nr]. unfold as_variable_name in Hm0. destruct i as [n0|]; [|discriminate].
      injection Hm0 as <- <-. inversion Gi as [ts' n' Gn|]; subst.
      destruct (Hfn n0 r s0 t st s1 Ec Et H) as (ts & A2 & K).
      exists (ti ++ ts). split; [rewrite A, A2; norm_app; reflexivity|auto].
    + inv_bind H. destruct x as [n nr]. unfold as_variable_name in Hm0. destruct i as [n0|]; [|discriminate].
      injection Hm0 as <- <-. inversion Gi as [ts' n' Gn|]; subst.
      inv_bind H. destruct x as [args s2]. injection H as <- <-.
      destruct (s_args f (ES_all f) _ _ _ Hm0) as (ta & A2 & t' & targs & -> & Gargs).
      destruct (current_head _ _ Ec) as [r' Hr]. rewrite Hr in A2. cbn [app] in A2. injection A2 as <- ->.
      exists (ti ++ [t] ++ targs). split; [rewrite A, Hr; norm_app; reflexivity|apply gs_call; auto].
  - (* function *)
    intros n nr s t st s1 Hc Ht H. cbn [parse_function] in H.
    inv_bind H. destruct x as [t0 s0]. first_tok Hm Hc.
    inv_bind H. destruct x as [params s2].
    destruct (parameter_list_params _ _ _ _ Hm0) as (tps & A1 & Gps).
    inv_bind H. destruct x as [u s3]. destruct (expect_eol_sound _ _ _ Hm1) as (teol & A2 & Ge).
    inv_bind H. destruct x as [body s4]. destruct (Hfb _ _ _ Hm2) as (tb & A3 & Gb). injection H as <- <-.
    exists ([t] ++ tps ++ teol ++ tb). split; [rewrite A0, A1, A2, A3; norm_app; reflexivity|].
    intros tn Gn. apply gs_function; auto.
  - (* if *)
    intros s t st s1 Hc Ht H. cbn [parse_if] in H.
    inv_bind H. destruct x as [t0 s0]. first_tok Hm Hc.
    inv_bind H. destruct x as [c s2]. destruct (expr_sound _ _ _ _ Hm0) as (tc & A1 & Gc).
    inv_bind H. destruct x as [u s3]. destruct (expect_eol_sound _ _ _ Hm1) as (teol & A2 & Ge).
    inv_bind H. destruct x as [th s4]. destruct (Hb _ _ _ Hm2) as (tth & A3 & Gth).
    destruct (match_and_consume (is_id TElse) s4) as [[x s5]|] eqn:E.
    + destruct (mac_toks _ _ _ _ E) as (A4 & B4 & _).
      inv_bind H. destruct x0 as [o s6].
      assert (Hnl : exists tnl, ptoks s5 = tnl ++ ptoks s6 /\ g_opt_tok (is_id TNewline) tnl).
      { unfold expect_token_or_end in Hm3. destruct (current s5) as [c5|] eqn:Ec5.
        - destruct (ttype_eqb (tid c5) TNewline) eqn:Et5; [|discriminate].
          destruct (advance s5) as [[t' s']|] eqn:Ea.
          + injection Hm3 as _ <-. destruct (advance_toks _ _ _ Ea) as [A5 _].
            destruct (current_head _ _ Ec5) as [r5 Hr5]. rewrite Hr5 in A5. injection A5 as <- ->.
            exists [c5]. split; [rewrite Hr5; reflexivity|]. right. exists c5. split; auto.
            unfold is_id. destruct (tid c5); cbn in Et5; try discriminate; reflexivity.
          + injection Hm3 as _ <-. exists []. split; auto. left. reflexivity.
        - injection Hm3 as _ <-. exists []. split; auto. left. reflexivity. }
      destruct Hnl as (tnl & A5 & Gnl).
      inv_bind H. destruct x0 as [el s7]. destruct (Hb _ _ _ Hm4) as (tel & A6 & Gel). injection H as <- <-.
      exists ([t] ++ tc ++ teol ++ tth ++ ([x] ++ tnl ++ tel)). split; [rewrite A0, A1, A2, A3, A4, A5, A6; norm_app; reflexivity|].
      apply gs_if; auto. right. exists x, tnl, tel, el. repeat split; auto. apply (tid_of_is_id TElse x B4).
    + injection H as <- <-.
      exists ([t] ++ tc ++ teol ++ tth ++ []). split; [rewrite A0, A1, A2, A3; norm_app; rewrite ?app_nil_r; reflexivity|].
      apply gs_if; auto.
  - (* loop *)
    intros s t st s1 Hc Ht H. cbn [parse_loop] in H.
    inv_bind H. destruct x as [t0 s0]. first_tok Hm Hc.
    inv_bind H. destruct x as [c s2]. destruct (expr_sound _ _ _ _ Hm0) as (tc & A1 & Gc).
    inv_bind H. destruct x as [u s3]. destruct (expect_eol_sound _ _ _ Hm1) as (teol & A2 & Ge).
    inv_bind H. destruct x as [b s4]. destruct (Hb _ _ _ Hm2) as (tb & A3 & Gb).
    destruct Ht as [Ht|Ht]; rewrite Ht in H; injection H as <- <-;
      (exists ([t] ++ tc ++ teol ++ tb); split; [rewrite A0, A1, A2, A3; norm_app; reflexivity|]);
      [apply gs_while|apply gs_until]; auto.
  - (* block *)
    intros s b s1 H. cbn [parse_block] in H.
    destruct (match_and_consume (is_id TNewline) s) as [[t s0]|] eqn:E.
    + destruct (mac_toks _ _ _ _ E) as (A & B & _). injection H as <- <-.
      exists [t]. split; [rewrite A; reflexivity|]. apply gb_blank. apply (tid_of_is_id TNewline t B).
    + inv_bind H. destruct x as [ss s0]. injection H as <- <-.
      destruct (Hss _ _ _ _ _ Hm [] gss_nil) as (ts & A & G). exists ts. split; auto. apply gb_stmts. exact G.
  - intros s b s1 H. cbn [parse_function_block] in H.
    destruct (match_and_consume (is_id TNewline) s) as [[t s0]|] eqn:E.
    + destruct (mac_toks _ _ _ _ E) as (A & B & _). injection H as <- <-.
      exists [t]. split; [rewrite A; reflexivity|]. apply gb_blank. apply (tid_of_is_id TNewline t B).
    + inv_bind H. destruct x as [ss s0]. injection H as <- <-.
      destruct (Hss _ _ _ _ _ Hm [] gss_nil) as (ts & A & G). exists ts. split; auto. apply gb_stmts. exact G.
  - (* statement loop *)
    intros inf s acc ss s1 H ts0 G0. cbn [block_statements] in H.
    inv_bind H. destruct x as [o s0]. pose proof (Hst _ _ _ Hm) as Ho.
    destruct o as [st|].
    + destruct Ho as (tst & A & Gst).
      destruct (inf && is_function_terminator st).
      * injection H as <- <-. exists tst. split; auto.
        replace (ts0 ++ tst) with (ts0 ++ tst ++ []) by (rewrite app_nil_r; reflexivity). apply gss_snoc; auto. constructor.
      * inv_bind H. destruct x as [u s2]. destruct (expect_eol_sound _ _ _ Hm0) as (teol & A2 & Ge).
        destruct (Hss _ _ _ _ _ H (ts0 ++ tst ++ teol)) as (ts & A3 & G3); [apply gss_snoc; auto|].
        exists (tst ++ teol ++ ts). split; [rewrite A, A2, A3; norm_app; reflexivity|]. rewrite <- ?app_assoc in G3. exact G3.
    + subst s0. injection H as <- <-. exists []. rewrite app_nil_r. auto.
Qed.

Theorem BS_all f : BS f.
Proof. induction f; [apply BS_0|apply BS_S; auto]. Qed.

(** ** C02: every program the parser returns is the grammar's tree for all the tokens it consumed *)
Theorem parse_blocks_sound : forall fuel s acc p,
  parse_blocks prof buf fuel s acc = Ok p ->
  forall ts0, g_program ts0 acc -> g_program (ts0 ++ ptoks s) p.
Proof.
  induction fuel as [|f IH]; intros s acc p H ts0 G0; cbn [parse_blocks] in H; [discriminate|].
  destruct (current s) as [t|] eqn:Ec.
  - inv_bind H. destruct x as [b s1]. destruct (bs_block (S f) (BS_all (S f)) _ _ _ Hm) as (tb & A & Gb).
    destruct (current_matches (is_id TElse) s1); [discriminate|].
    specialize (IH _ _ _ H (ts0 ++ tb) (gprog_snoc ts0 acc tb b G0 Gb)).
    rewrite A. rewrite app_assoc. exact IH.
  - injection H as <-. unfold current in Ec. unfold ptoks. destruct (toks s); [|discriminate]. cbn. rewrite app_nil_r. exact G0.
Qed.
End Blocks.
End Sound.

(** the whole front end: an accepted source is a program of the grammar over its comment-free tokens *)
Theorem parse_sound prof src p :
  parse prof src = ParseOk p ->
  exists pts, lex prof src = Ok pts /\ g_program (map pt_tok (drop_comments pts)) p.
Proof.
  unfold parse. destruct (lex prof src) as [pts| | | | |]; try discriminate.
  intro H. exists pts. split; auto.
  destruct (parse_blocks prof src (parse_fuel (length (drop_comments pts))) (mkPS (drop_comments pts) 1 (mkLoc 1 0) false) []) as [p'| | | | |] eqn:E;
    try discriminate.
  injection H as <-. apply (parse_blocks_sound prof src _ _ _ _ E [] gprog_nil).
Qed.
