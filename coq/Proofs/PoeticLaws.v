(** C11: a poetic number literal denotes the decimal numeral spelled by its word lengths. *)
From Coq Require Import List ZArith NArith Bool Lia QArith Qpower Qfield.
From RRSS Require Import Base.Outcome Base.Chars Base.F64 Exec.Ops Front.Ast Front.Token Front.Lexer Front.Poetic Front.Parser.
Import ListNotations.

(** the integer written by a digit string *)
Definition number_from (a : Z) (ds : list N) : Z := fold_left (fun acc d => 10 * acc + Z.of_N d)%Z ds a.
Definition number (ds : list N) : Z := number_from 0 ds.

Lemma number_from_split a ds : number_from a ds = (a * 10 ^ Z.of_nat (length ds) + number ds)%Z.
Proof.
  unfold number. revert a. induction ds as [|d t IH]; intro a; cbn [number_from fold_left length].
  - cbn. lia.
  - fold (number_from (10 * a + Z.of_N d) t). fold (number_from (10 * 0 + Z.of_N d) t).
    rewrite (IH (10 * a + Z.of_N d)%Z), (IH (10 * 0 + Z.of_N d)%Z).
    rewrite Nat2Z.inj_succ, Z.pow_succ_r by lia. lia.
Qed.

(** * Integers: in exact integer arithmetic the algorithm of compute_value yields the numeral *)
Definition sum_terms_Z := sum_terms (T := Z) Z.of_N Z.mul Z.add (fun n => 10 ^ n)%Z.

Lemma sum_terms_Z_spec ds : forall acc,
  sum_terms_Z ds (Z.of_nat (length ds) - 1) acc = (acc + number ds)%Z.
Proof.
  induction ds as [|d t IH]; intro acc.
  - cbn. unfold number. cbn. lia.
  - unfold sum_terms_Z in *. cbn [sum_terms length].
    replace (Z.of_nat (S (length t)) - 1 - 1)%Z with (Z.of_nat (length t) - 1)%Z by lia.
    rewrite IH. unfold number at 2. cbn [number_from fold_left].
    fold (number_from (10 * 0 + Z.of_N d) t). rewrite number_from_split.
    replace (Z.of_nat (S (length t)) - 1)%Z with (Z.of_nat (length t)) by lia. lia.
Qed.

(** a literal without a period: its value is the integer whose decimal digits are the word
    lengths modulo 10, in order *)
Theorem poetic_integer_value elems :
  poetic_int_digits elems = Z.of_nat (length (poetic_digits elems)) ->
  compute_value_gen Z.of_N Z.mul Z.add (fun n => 10 ^ n)%Z 0%Z elems = number (poetic_digits elems).
Proof.
  intro H. unfold compute_value_gen. rewrite H.
  change (sum_terms Z.of_N Z.mul Z.add (fun n : Z => (10 ^ n)%Z)) with sum_terms_Z.
  rewrite sum_terms_Z_spec. lia.
Qed.

(** * Rationals: with a decimal point *)
Definition sum_terms_Q := sum_terms (T := Q) (fun d => inject_Z (Z.of_N d)) Qmult Qplus (fun n => Qpower 10 n).

Lemma ten_nonzero : ~ (10 == 0)%Q.
Proof. intro H. discriminate. Qed.

Lemma pow10_split n m : (Qpower 10 (n + m) == Qpower 10 n * Qpower 10 m)%Q.
Proof. apply Qpower_plus. apply ten_nonzero. Qed.

(** the sum computed for digits [ds] starting at exponent [e] is the integer [number ds] scaled so
    that its first digit has weight 10^e *)
Lemma sum_terms_Q_spec ds : forall e acc,
  (sum_terms_Q ds e acc == acc + inject_Z (number ds) * Qpower 10 (e + 1 - Z.of_nat (length ds)))%Q.
Proof.
  induction ds as [|d t IH]; intros e acc.
  - cbn. unfold number. cbn. ring.
  - unfold sum_terms_Q in *. cbn [sum_terms length]. rewrite IH.
    unfold number at 2. cbn [number_from fold_left]. fold (number_from (10 * 0 + Z.of_N d) t).
    rewrite number_from_split. rewrite inject_Z_plus, inject_Z_mult.
    replace (10 * 0 + Z.of_N d)%Z with (Z.of_N d) by lia.
    replace (e - 1 + 1 - Z.of_nat (length t))%Z with (e + 1 - Z.of_nat (S (length t)))%Z by lia.
    set (k := (e + 1 - Z.of_nat (S (length t)))%Z).
    assert (Hp : (Qpower 10 e == inject_Z (10 ^ Z.of_nat (length t)) * Qpower 10 k)%Q).
    { replace e with (Z.of_nat (length t) + k)%Z at 1 by (subst k; lia).
      rewrite pow10_split. apply Qmult_comp; [|reflexivity].
      symmetry. apply (Zpower_Qpower 10 (Z.of_nat (length t))). lia. }
    rewrite Hp. ring.
Qed.

(** the value of a poetic literal, in exact arithmetic: the numeral whose digits are the word
    lengths modulo 10, with the decimal point after the digits that precede the first period *)
Theorem poetic_value_exact elems :
  (compute_value_gen (fun d => inject_Z (Z.of_N d)) Qmult Qplus (fun n => Qpower 10 n) 0 elems ==
   inject_Z (number (poetic_digits elems)) *
   Qpower 10 (poetic_int_digits elems - Z.of_nat (length (poetic_digits elems))))%Q.
Proof.
  unfold compute_value_gen.
  change (sum_terms (fun d : N => inject_Z (Z.of_N d)) Qmult Qplus (fun n : Z => Qpower 10 n)) with sum_terms_Q.
  rewrite sum_terms_Q_spec.
  replace (poetic_int_digits elems - 1 + 1 - Z.of_nat (length (poetic_digits elems)))%Z
    with (poetic_int_digits elems - Z.of_nat (length (poetic_digits elems)))%Z by lia.
  ring.
Qed.

(** * How the digits are read off the words *)

(** apostrophes are not counted; a hyphenated or apostrophe-suffixed part counts with its word *)
Theorem word_len_skips_apostrophes a b : word_len (a ++ [39%N] ++ b) = (word_len a + word_len b)%N.
Proof.
  unfold word_len. rewrite !filter_app, !app_length. cbn. lia.
Qed.

Theorem suffixed_word_counts_together s ss :
  item_len (PISuffixed s ss) = fold_left (fun a x => (a + word_len x)%N) ss (word_len s).
Proof. reflexivity. Qed.

(** * A right-hand side that starts with a literal word (or a negative number) is an expression *)
Theorem poetic_rhs_literal_word_is_expression prof fuel s t :
  current s = Some t -> is_literal_word (tid t) = true ->
  parse_poetic_number_rhs prof fuel s =
  (let* (e, s1) := parse_expression prof fuel s in Ok (PNExpr e, s1)).
Proof. intros Hc Hl. unfold parse_poetic_number_rhs. rewrite Hc, Hl. reflexivity. Qed.

Theorem poetic_rhs_negative_number_is_expression prof fuel s t :
  current s = Some t -> is_literal_word (tid t) = false ->
  is_current_negative_number prof s = Ok true ->
  parse_poetic_number_rhs prof fuel s =
  (let* (e, s1) := parse_expression prof fuel s in Ok (PNExpr e, s1)).
Proof. intros Hc Hl Hn. unfold parse_poetic_number_rhs. rewrite Hc, Hl, Hn. reflexivity. Qed.

Theorem poetic_rhs_otherwise_is_literal prof fuel s t :
  current s = Some t -> is_literal_word (tid t) = false ->
  is_current_negative_number prof s = Ok false ->
  parse_poetic_number_rhs prof fuel s =
  (let* (el, s1) := parse_poetic_number_literal s in Ok (PNLit el, s1)).
Proof. intros Hc Hl Hn. unfold parse_poetic_number_rhs. rewrite Hc, Hl, Hn. reflexivity. Qed.
