(** Nested induction principle for [val], well-formedness (unique dictionary keys). *)
From Coq Require Import List ZArith NArith Bool Lia.
From RRSS Require Import Base.Outcome Base.Chars Base.F64 Exec.Val.
Import ListNotations.

Section ValInd.
  Variable P : val -> Prop.
  Hypothesis HU : P VUndef.
  Hypothesis HN : P VNull.
  Hypothesis HB : forall b, P (VBool b).
  Hypothesis HF : forall f, P (VNum f).
  Hypothesis HS : forall s, P (VStr s).
  Hypothesis HA : forall a d, Forall P a -> Forall (fun kv => P (snd kv)) d -> P (VArr a d).

  Fixpoint val_ind' (v : val) : P v :=
    match v with
    | VUndef => HU
    | VNull => HN
    | VBool b => HB b
    | VNum f => HF f
    | VStr s => HS s
    | VArr a d =>
        HA a d
          ((fix go (l : list val) : Forall P l :=
              match l with
              | [] => Forall_nil _
              | x :: t => Forall_cons x (val_ind' x) (go t)
              end) a)
          ((fix go (l : list (dkey * val)) : Forall (fun kv => P (snd kv)) l :=
              match l with
              | [] => Forall_nil _
              | kv :: t => Forall_cons kv (val_ind' (snd kv)) (go t)
              end) d)
    end.
End ValInd.

Lemma dkey_eqb_eq a b : dkey_eqb a b = true <-> a = b.
Proof.
  destruct a, b; simpl; split; intro H; try discriminate; auto.
  - apply Bool.eqb_prop in H. congruence.
  - inversion H. apply Bool.eqb_reflx.
  - apply str_eqb_eq in H. congruence.
  - inversion H. apply str_eqb_refl.
Qed.

Lemma dkey_eqb_refl a : dkey_eqb a a = true.
Proof. apply dkey_eqb_eq; auto. Qed.

Lemma dkey_eqb_neq a b : dkey_eqb a b = false <-> a <> b.
Proof.
  split; intro H.
  - intro E. apply dkey_eqb_eq in E. congruence.
  - destruct (dkey_eqb a b) eqn:E; auto. apply dkey_eqb_eq in E. contradiction.
Qed.

(** Well-formed values: every dictionary has pairwise distinct keys (what a HashMap guarantees). *)
Fixpoint wf_val (v : val) : Prop :=
  match v with
  | VArr a d =>
      (fix all (l : list val) : Prop := match l with [] => True | x :: t => wf_val x /\ all t end) a
      /\ NoDup (map fst d)
      /\ (fix all (l : list (dkey * val)) : Prop :=
            match l with [] => True | kv :: t => wf_val (snd kv) /\ all t end) d
  | _ => True
  end.

Lemma wf_arr a d :
  wf_val (VArr a d) <-> Forall wf_val a /\ NoDup (map fst d) /\ Forall (fun kv => wf_val (snd kv)) d.
Proof.
  simpl. split.
  - intros (Ha & Hn & Hd). split; [|split]; auto.
    + clear Hn Hd. induction a as [|x t IH]; constructor; destruct Ha; auto.
    + clear Hn Ha. induction d as [|x t IH]; constructor; destruct Hd; auto.
  - intros (Ha & Hn & Hd). split; [|split]; auto.
    + clear Hn Hd. induction Ha; simpl; auto.
    + clear Hn Ha. induction Hd; simpl; auto.
Qed.

Lemma dict_get_in k d v : dict_get k d = Some v -> In (k, v) d.
Proof.
  induction d as [|[k' v'] t IH]; simpl; try discriminate.
  destruct (dkey_eqb k k') eqn:E.
  - apply dkey_eqb_eq in E; subst. intros [= ->]. auto.
  - intro H. right. auto.
Qed.

Lemma dict_get_in_nodup k d v : NoDup (map fst d) -> In (k, v) d -> dict_get k d = Some v.
Proof.
  induction d as [|[k' v'] t IH]; simpl; intros Hn Hin; [contradiction|].
  inversion Hn as [|? ? Hni Hn']; subst.
  destruct Hin as [E|Hin].
  - inversion E; subst. rewrite dkey_eqb_refl. auto.
  - destruct (dkey_eqb k k') eqn:E.
    + apply dkey_eqb_eq in E; subst. exfalso. apply Hni. apply (in_map fst) in Hin. exact Hin.
    + auto.
Qed.

Lemma dict_get_none k d : dict_get k d = None <-> ~ In k (map fst d).
Proof.
  induction d as [|[k' v'] t IH]; simpl; split; auto.
  - destruct (dkey_eqb k k') eqn:E; try discriminate. intros H [H1|H1].
    + subst. rewrite dkey_eqb_refl in E. discriminate.
    + apply IH in H. contradiction.
  - intro H. destruct (dkey_eqb k k') eqn:E.
    + apply dkey_eqb_eq in E. subst. exfalso. apply H. auto.
    + apply IH. intro. apply H. auto.
Qed.

Lemma dict_set_keys k v d :
  map fst (dict_set k v d) = if existsb (dkey_eqb k) (map fst d) then map fst d else map fst d ++ [k].
Proof.
  induction d as [|[k' v'] t IH]; simpl; auto.
  destruct (dkey_eqb k k') eqn:E; simpl; auto.
  rewrite IH. destruct (existsb (dkey_eqb k) (map fst t)); auto.
Qed.

Lemma dict_set_nodup k v d : NoDup (map fst d) -> NoDup (map fst (dict_set k v d)).
Proof.
  intro H. rewrite dict_set_keys.
  destruct (existsb (dkey_eqb k) (map fst d)) eqn:E; auto.
  assert (Hni : ~ In k (map fst d)).
  { intro Hin. assert (existsb (dkey_eqb k) (map fst d) = true).
    { apply existsb_exists. exists k. split; auto. apply dkey_eqb_refl. }
    congruence. }
  clear E. induction (map fst d) as [|x l IH]; simpl.
  - constructor; [intros []|constructor].
  - inversion H; subst. constructor.
    + rewrite in_app_iff. intros [H1|[H1|[]]]; auto. subst. apply Hni. left; auto.
    + apply IH; auto. intro. apply Hni. right; auto.
Qed.
