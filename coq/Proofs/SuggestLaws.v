(** C18: when the constant-assignment lint fires, what it names, and that the poetic template it
    suggests spells exactly the digits of the reported value. *)
From Coq Require Import List ZArith NArith Bool Lia.
From RRSS Require Import Base.Outcome Base.Chars Base.F64 Base.F64Text Exec.Val Exec.Ops Front.Ast Front.Poetic.
From RRSS Require Import Exec.Env Exec.Interp Exec.RtErrorText Analysis.Fold Lint.Lint.
Import ListNotations.
Open Scope N_scope.

(** * exactly when *)

(** never for a compound assignment, a poetic literal, or a push without / with a poetic value *)
Theorem boring_never :
  (forall d f rest o, boring_stmt (SAssign d f rest (Some o)) = Ok []) /\
  (forall d el, boring_stmt (SPoeticNum d (PNLit el)) = Ok []) /\
  (forall d s, boring_stmt (SPoeticStr d s) = Ok []) /\
  (forall a, boring_stmt (SPush a None) = Ok []) /\
  (forall a el, boring_stmt (SPush a (Some (PushLit el))) = Ok []).
Proof. repeat split; reflexivity. Qed.

(** an assignment is reported exactly when its right-hand side folds to a number (or is a plain
    string literal), naming the target, the value and the line of the right-hand side *)
Theorem boring_assignment_iff d f rest :
  boring_stmt (SAssign d f rest None) =
  match fold_num_list f rest with
  | Ok x => numeric_diag [] (lit " is ") (render_lhs d) x (range_line (exprlist_range f rest))
  | Err FWrongType =>
      match fold_str_list f rest with
      | Ok s => Ok (string_diag (render_lhs d) s (range_line (exprlist_range f rest)))
      | _ => Ok []
      end
  | _ => Ok []
  end.
Proof. reflexivity. Qed.

Theorem boring_poetic_expr_iff d e :
  boring_stmt (SPoeticNum d (PNExpr e)) =
  match fold_num e with
  | Ok x => numeric_diag [] (lit " is ") (render_lhs d) x (range_line (expr_range e))
  | Err FWrongType =>
      match fold_str e with
      | Ok s => Ok (string_diag (render_lhs d) s (range_line (expr_range e)))
      | _ => Ok []
      end
  | _ => Ok []
  end.
Proof. reflexivity. Qed.

Theorem boring_push_iff a f rest :
  boring_stmt (SPush a (Some (PushList f rest))) =
  match fold_num_list f rest with
  | Ok x => numeric_diag (lit "Rock ") (lit " like ") (render_primary a) x (range_line (primary_range a))
  | _ => Ok []
  end.
Proof. reflexivity. Qed.

(** the diagnostic names the target and the value; no suggestion when the value has no poetic
    spelling (negative, -0, non-finite) or the string contains a line break *)
Theorem numeric_diag_shape pre sep var v ln ds :
  numeric_diag pre sep var v ln = Ok ds ->
  exists sugg, ds = [mkDiag (issue_text var (f64_display v)) sugg ln] /\
               (has_poetic_spelling v = false -> sugg = []) /\
               (has_poetic_spelling v = true ->
                exists t, template_text (f64_display v) true = Ok t /\ sugg = [suggestion_text (pre ++ var ++ sep ++ t)]).
Proof.
  unfold numeric_diag. destruct (has_poetic_spelling v) eqn:E.
  - destruct (template_text (f64_display v) true) as [t| | | | |] eqn:Et; cbn; try discriminate.
    intro H; inversion H; subst. eexists. split; [reflexivity|]. split; [discriminate|]. intros _. eauto.
  - cbn. intro H; inversion H; subst. eexists. split; [reflexivity|]. split; auto. discriminate.
Qed.

Theorem string_diag_shape var s ln :
  string_diag var s ln =
  [mkDiag (issue_text var (quoted s))
          (if existsb (fun c => c =? 10) s then [] else [suggestion_text (var ++ lit " says " ++ s)]) ln].
Proof. reflexivity. Qed.

(** * the template spells the value *)

(** reading a template back: words of stars separated by single spaces, periods where they stand *)
Fixpoint read_template (t : str) (run : N) (acc : str) : str :=
  (* acc is built in reverse; [run] = stars seen in the current word *)
  match t with
  | [] => rev (if run =? 0 then acc else (48 + run mod 10) :: acc)
  | c :: r =>
      if c =? 42 then read_template r (run + 1) acc
      else if c =? 32 then read_template r 0 (if run =? 0 then acc else (48 + run mod 10) :: acc)
      else if c =? 46 then read_template r 0 (46 :: (if run =? 0 then acc else (48 + run mod 10) :: acc))
      else read_template r run acc
  end.

Definition digit_or_dot (c : char) : bool := ((48 <=? c) && (c <=? 57)) || (c =? 46).

Lemma stars_read n r acc run :
  read_template (stars n ++ r) run acc = read_template r (run + N.of_nat n) acc.
Proof.
  revert run. induction n as [|n IH]; intro run; cbn [stars app].
  - f_equal. lia.
  - cbn [read_template]. rewrite N.eqb_refl. rewrite IH. f_equal. lia.
Qed.

(** for a text of digits and periods, the words of the template have, modulo 10, exactly those
    digits, with the periods in place: the suggestion's words spell the reported value *)
Lemma template_reads_back chars : forall first acc t,
  forallb digit_or_dot chars = true ->
  template_text chars first = Ok t ->
  read_template t 0 acc = rev acc ++ chars.
Proof.
  induction chars as [|c r IH]; intros first acc t Hd Ht.
  - cbn in Ht. inversion Ht; subst. cbn. rewrite app_nil_r. reflexivity.
  - cbn [forallb] in Hd. apply andb_true_iff in Hd as [Hc Hr].
    cbn [template_text] in Ht. destruct (c =? 46) eqn:E46.
    + apply N.eqb_eq in E46. subst c.
      destruct (template_text r false) as [t'| | | | |] eqn:Et; cbn in Ht; try discriminate.
      inversion Ht; subst. cbn [read_template]. cbn. rewrite (IH false (46 :: acc) t' Hr Et).
      cbn [rev]. rewrite <- app_assoc. reflexivity.
    + unfold digit_or_dot in Hc. rewrite E46, orb_false_r in Hc. apply andb_true_iff in Hc as [H1 H2].
      apply N.leb_le in H1, H2.
      destruct (c <? 48) eqn:E48; [apply N.ltb_lt in E48; lia|].
      set (d := c - 48) in *. set (n := if d =? 0 then 10 else d) in *.
      destruct (100000 <? n) eqn:Eb; try discriminate.
      destruct (template_text r false) as [t'| | | | |] eqn:Et; cbn in Ht; try discriminate.
      inversion Ht; subst. clear Ht.
      assert (Hn : 48 + n mod 10 = c).
      { subst n d. destruct (c - 48 =? 0) eqn:E0.
        - apply N.eqb_eq in E0. cbn. lia.
        - apply N.eqb_neq in E0. rewrite N.mod_small by lia. lia. }
      assert (Hnz : (0 + N.of_nat (N.to_nat n) =? 0) = false).
      { apply N.eqb_neq. subst n d. destruct (c - 48 =? 0) eqn:E0; [lia|]. apply N.eqb_neq in E0. lia. }
      destruct first.
      * cbn [app]. rewrite stars_read.
        (* the next character of t' is a space, a period, or the end: in each case the run is flushed *)
        assert (G : forall t' r acc run, run <> 0 ->
                    forallb digit_or_dot r = true -> template_text r false = Ok t' ->
                    read_template t' run acc = read_template t' 0 ((48 + run mod 10) :: acc)).
        { clear. intros t' r. revert t'. destruct r as [|c2 r2]; intros t' acc run Hrun Hd Ht.
          - cbn in Ht. inversion Ht; subst. cbn. destruct (run =? 0) eqn:E; [apply N.eqb_eq in E; contradiction|reflexivity].
          - cbn [template_text] in Ht. destruct (c2 =? 46) eqn:E.
            + destruct (template_text r2 false); cbn in Ht; try discriminate. inversion Ht; subst.
              cbn. destruct (run =? 0) eqn:E2; [apply N.eqb_eq in E2; contradiction|reflexivity].
            + destruct (c2 <? 48); try discriminate.
              destruct (100000 <? (if c2 - 48 =? 0 then 10 else c2 - 48)); try discriminate.
              destruct (template_text r2 false); cbn in Ht; try discriminate. inversion Ht; subst.
              cbn. destruct (run =? 0) eqn:E2; [apply N.eqb_eq in E2; contradiction|reflexivity]. }
        rewrite (G t' r acc (0 + N.of_nat (N.to_nat n))) by (auto; apply N.eqb_neq; exact Hnz).
        rewrite N2Nat.id, N.add_0_l, Hn.
        pose proof (IH false (c :: acc) t' Hr Et) as HI. cbn [rev] in HI. rewrite <- app_assoc in HI. exact HI.
      * cbn [app read_template]. cbn. rewrite stars_read.
        assert (G : forall t' r acc run, run <> 0 ->
                    forallb digit_or_dot r = true -> template_text r false = Ok t' ->
                    read_template t' run acc = read_template t' 0 ((48 + run mod 10) :: acc)).
        { clear. intros t' r. revert t'. destruct r as [|c2 r2]; intros t' acc run Hrun Hd Ht.
          - cbn in Ht. inversion Ht; subst. cbn. destruct (run =? 0) eqn:E; [apply N.eqb_eq in E; contradiction|reflexivity].
          - cbn [template_text] in Ht. destruct (c2 =? 46) eqn:E.
            + destruct (template_text r2 false); cbn in Ht; try discriminate. inversion Ht; subst.
              cbn. destruct (run =? 0) eqn:E2; [apply N.eqb_eq in E2; contradiction|reflexivity].
            + destruct (c2 <? 48); try discriminate.
              destruct (100000 <? (if c2 - 48 =? 0 then 10 else c2 - 48)); try discriminate.
              destruct (template_text r2 false); cbn in Ht; try discriminate. inversion Ht; subst.
              cbn. destruct (run =? 0) eqn:E2; [apply N.eqb_eq in E2; contradiction|reflexivity]. }
        rewrite (G t' r acc (0 + N.of_nat (N.to_nat n))) by (auto; apply N.eqb_neq; exact Hnz).
        rewrite N2Nat.id, N.add_0_l, Hn.
        pose proof (IH false (c :: acc) t' Hr Et) as HI. cbn [rev] in HI. rewrite <- app_assoc in HI. exact HI.
Qed.

Theorem template_spells_value chars t :
  forallb digit_or_dot chars = true ->
  template_text chars true = Ok t ->
  read_template t 0 [] = chars.
Proof. intros Hd Ht. rewrite (template_reads_back chars true [] t Hd Ht). reflexivity. Qed.
