(** C06: arrays as a zero-based sequence plus a dictionary; queue behaviour; decay; errors;
    independence of variables under writes. *)
From Coq Require Import List ZArith NArith Bool Lia.
From RRSS Require Import Base.Outcome Base.Chars Base.F64 Base.F64Text Exec.Val Exec.Ops Front.Ast Exec.Env.
From RRSS Require Import Proofs.ValInd.
Import ListNotations.
Open Scope N_scope.

(** * Sequence part *)

Lemma nth_N_lt {A} (l : list A) i : i < len l -> exists x, nth_N l i = Some x.
Proof.
  unfold len. revert i. induction l as [|y t IH]; intros i H; cbn in *; [lia|].
  destruct (i =? 0) eqn:E; eauto. apply N.eqb_neq in E. apply IH. lia.
Qed.

Lemma nth_N_ge {A} (l : list A) i : len l <= i -> nth_N l i = None.
Proof.
  unfold len. revert i. induction l as [|y t IH]; intros i H; cbn in *; auto.
  destruct (i =? 0) eqn:E; [apply N.eqb_eq in E; lia|]. apply N.eqb_neq in E. apply IH. lia.
Qed.

Lemma set_nth_N_len {A} (l : list A) i x : len (set_nth_N l i x) = len l.
Proof.
  unfold len. revert i. induction l as [|y t IH]; intro i; cbn; auto.
  destruct (i =? 0); cbn; auto. f_equal. specialize (IH (N.pred i)). lia.
Qed.

Lemma nth_set_same {A} (l : list A) i x : i < len l -> nth_N (set_nth_N l i x) i = Some x.
Proof.
  unfold len. revert i. induction l as [|y t IH]; intros i H; cbn in *; [lia|].
  destruct (i =? 0) eqn:E; cbn; rewrite E; auto. apply N.eqb_neq in E. apply IH. lia.
Qed.

Lemma nth_set_other {A} (l : list A) i j x : i <> j -> nth_N (set_nth_N l i x) j = nth_N l j.
Proof.
  revert i j. induction l as [|y t IH]; intros i j H; cbn; auto.
  destruct (i =? 0) eqn:Ei; destruct (j =? 0) eqn:Ej; cbn; rewrite ?Ej; auto.
  - apply N.eqb_eq in Ei, Ej. lia.
  - apply N.eqb_neq in Ei, Ej. apply IH. lia.
Qed.

Lemma len_app {A} (a b : list A) : len (a ++ b) = len a + len b.
Proof. unfold len. rewrite app_length. lia. Qed.

Lemma len_repeat n : len (repeat_val n) = N.of_nat n.
Proof. unfold len. induction n as [|n IH]; auto. cbn [repeat_val length]. rewrite !Nat2N.inj_succ, IH. reflexivity. Qed.

Lemma nth_app_l {A} (a b : list A) i : i < len a -> nth_N (a ++ b) i = nth_N a i.
Proof.
  unfold len. revert i. induction a as [|y t IH]; intros i H; cbn in *; [lia|].
  destruct (i =? 0) eqn:E; auto. apply N.eqb_neq in E. apply IH. lia.
Qed.

Lemma nth_app_r {A} (a b : list A) i : len a <= i -> nth_N (a ++ b) i = nth_N b (i - len a).
Proof.
  unfold len. revert i. induction a as [|y t IH]; intros i H; cbn in *.
  - f_equal. lia.
  - destruct (i =? 0) eqn:E; [apply N.eqb_eq in E; lia|]. apply N.eqb_neq in E.
    rewrite IH by lia. f_equal. lia.
Qed.

Lemma nth_repeat n i : i < N.of_nat n -> nth_N (repeat_val n) i = Some VUndef.
Proof.
  revert i. induction n as [|n IH]; intros i H; cbn; [lia|].
  destruct (i =? 0) eqn:E; auto. apply N.eqb_neq in E. apply IH. lia.
Qed.

(** the sequence after an index write at [i] *)
Definition extended (a : list val) (i : N) : list val :=
  if len a <=? i then a ++ repeat_val (N.to_nat (i + 1 - len a)) else a.

Lemma extended_len a i : len (extended a i) = N.max (len a) (i + 1).
Proof.
  unfold extended. destruct (len a <=? i) eqn:E.
  - apply N.leb_le in E. rewrite len_app, len_repeat. lia.
  - apply N.leb_gt in E. lia.
Qed.

Lemma extended_new_cells a i j :
  len a <= j -> j < len (extended a i) -> nth_N (extended a i) j = Some VUndef.
Proof.
  intros H1 H2. rewrite extended_len in H2. unfold extended in *.
  destruct (len a <=? i) eqn:E.
  - apply N.leb_le in E. rewrite nth_app_r by auto. apply nth_repeat. lia.
  - apply N.leb_gt in E. lia.
Qed.

Lemma extended_old_cells a i j : j < len a -> nth_N (extended a i) j = nth_N a j.
Proof.
  intro H. unfold extended. destruct (len a <=? i); auto. apply nth_app_l; auto.
Qed.

(** * Index writes: [let A at k be v] *)

Definition assign_at (self k nv : val) : vres val :=
  let* (r, _) := v_update_at self k (fun _ => Ok (nv, tt)) in Ok r.

(** a numeric index write inside the budget: the sequence is extended with mysterious and the
    cell replaced; the dictionary is untouched *)
Theorem write_numeric a d n nv :
  f_to_usize n < size_budget ->
  assign_at (VArr a d) (VNum n) nv = Ok (VArr (set_nth_N (extended a (f_to_usize n)) (f_to_usize n) nv) d).
Proof.
  intro Hb. unfold assign_at, v_update_at.
  destruct (size_budget <=? f_to_usize n) eqn:E; [apply N.leb_le in E; lia|].
  fold (extended a (f_to_usize n)).
  destruct (nth_N_lt (extended a (f_to_usize n)) (f_to_usize n)) as [cur Hc].
  { rewrite extended_len. lia. }
  rewrite Hc. reflexivity.
Qed.

Theorem read_after_write_numeric a d n nv :
  f_to_usize n < size_budget ->
  (let* v' := assign_at (VArr a d) (VNum n) nv in v_index v' (VNum n)) = Ok nv.
Proof.
  intro Hb. rewrite write_numeric by auto. cbn [bind v_index arr_index].
  rewrite nth_set_same; auto. rewrite extended_len. lia.
Qed.

Theorem write_numeric_other_index a d n m nv :
  f_to_usize n < size_budget -> f_to_usize n <> f_to_usize m ->
  (let* v' := assign_at (VArr a d) (VNum n) nv in v_index v' (VNum m)) =
  Ok (match nth_N (extended a (f_to_usize n)) (f_to_usize m) with Some v => v | None => VUndef end).
Proof.
  intros Hb Hne. rewrite write_numeric by auto. cbn [bind v_index arr_index].
  rewrite nth_set_other; auto.
Qed.

Theorem write_extends_with_mysterious a d n nv :
  f_to_usize n < size_budget ->
  exists a', assign_at (VArr a d) (VNum n) nv = Ok (VArr a' d) /\
             len a' = N.max (len a) (f_to_usize n + 1) /\
             (forall j, len a <= j -> j < len a' -> j <> f_to_usize n -> nth_N a' j = Some VUndef) /\
             (forall j, j < len a -> j <> f_to_usize n -> nth_N a' j = nth_N a j).
Proof.
  intro Hb. eexists. split; [apply write_numeric; auto|]. split; [|split].
  - rewrite set_nth_N_len. apply extended_len.
  - intros j H1 H2 H3. rewrite set_nth_N_len in H2. rewrite nth_set_other by auto. apply extended_new_cells; auto.
  - intros j H1 H2. rewrite nth_set_other by auto. apply extended_old_cells; auto.
Qed.

(** dictionary keys *)
Lemma dict_get_set_same k v d : dict_get k (dict_set k v d) = Some v.
Proof.
  induction d as [|[k' v'] t IH]; cbn.
  - rewrite dkey_eqb_refl. reflexivity.
  - destruct (dkey_eqb k k') eqn:E; cbn; rewrite E; auto.
Qed.

Lemma dict_get_set_other k k2 v d : dkey_eqb k2 k = false -> dict_get k2 (dict_set k v d) = dict_get k2 d.
Proof.
  intro H. induction d as [|[k' v'] t IH]; cbn.
  - rewrite H. reflexivity.
  - destruct (dkey_eqb k k') eqn:E; cbn.
    + apply dkey_eqb_eq in E. subst. rewrite H. reflexivity.
    + destruct (dkey_eqb k2 k'); auto.
Qed.

Theorem write_dict a d k dk nv :
  dkey_of k = Some dk ->
  assign_at (VArr a d) k nv = Ok (VArr a (dict_set dk nv d)).
Proof.
  intro H. unfold assign_at, v_update_at. destruct k; cbn in H; try discriminate; inversion H; subst; reflexivity.
Qed.

Theorem read_after_write_dict a d k dk nv :
  dkey_of k = Some dk ->
  (let* v' := assign_at (VArr a d) k nv in v_index v' k) = Ok nv.
Proof.
  intro H. rewrite (write_dict _ _ _ _ _ H). cbn [bind v_index].
  destruct k; cbn in H; try discriminate; inversion H; subst; cbn; rewrite dict_get_set_same; reflexivity.
Qed.

(** a write to a non-numeric key leaves the sequence, and every other key, alone *)
Theorem write_dict_frame a d k dk nv :
  dkey_of k = Some dk ->
  exists d', assign_at (VArr a d) k nv = Ok (VArr a d') /\
             forall k2, dkey_eqb k2 dk = false -> dict_get k2 d' = dict_get k2 d.
Proof.
  intro H. eexists. split; [apply write_dict; eauto|]. intros. apply dict_get_set_other; auto.
Qed.

(** writing to mysterious makes an array first *)
Theorem write_to_mysterious k nv : assign_at VUndef k nv = assign_at (VArr [] []) k nv.
Proof. reflexivity. Qed.

(** reading a missing element yields mysterious *)
Theorem read_missing_is_mysterious a d n : len a <= f_to_usize n -> v_index (VArr a d) (VNum n) = Ok VUndef.
Proof. intro H. cbn. rewrite nth_N_ge; auto. Qed.

Theorem read_missing_key_is_mysterious a d k dk :
  dkey_of k = Some dk -> dict_get dk d = None -> v_index (VArr a d) k = Ok VUndef.
Proof.
  intros H1 H2. destruct k; cbn in H1; try discriminate; inversion H1; subst; cbn; rewrite H2; reflexivity.
Qed.

(** * Queue behaviour *)

Theorem rock_appends a d vs : v_push (VArr a d) vs = Ok (VArr (a ++ vs) d).
Proof. reflexivity. Qed.

Theorem rock_coerces_scalar v vs :
  is_arr v = false -> v <> VUndef -> v_push v vs = Ok (VArr (v :: vs) []).
Proof. destruct v; cbn; intros H1 H2; try discriminate; try reflexivity. contradiction. Qed.

Theorem rock_on_mysterious vs : v_push VUndef vs = Ok (VArr vs []).
Proof. reflexivity. Qed.

Theorem roll_takes_first x t d : v_pop (VArr (x :: t) d) = Ok (VArr t d, x).
Proof. reflexivity. Qed.

Theorem roll_empty_is_mysterious d : v_pop (VArr [] d) = Ok (VArr [] d, VUndef).
Proof. reflexivity. Qed.

(** any sequence of rocks followed by rolls behaves like a FIFO queue: the values come back in the
    order they went in *)
Fixpoint roll_n (n : nat) (v : val) : vres (val * list val) :=
  match n with
  | O => Ok (v, [])
  | S k => let* (v1, x) := v_pop v in let* (v2, xs) := roll_n k v1 in Ok (v2, x :: xs)
  end.

Theorem roll_is_fifo a d : roll_n (length a) (VArr a d) = Ok (VArr [] d, a).
Proof. induction a as [|x t IH]; cbn; auto. rewrite IH. reflexivity. Qed.

Theorem rock_then_roll_fifo a d vs :
  (let* v := v_push (VArr a d) vs in roll_n (length (a ++ vs)) v) = Ok (VArr [] d, a ++ vs).
Proof. cbn [v_push v_array_coerce bind]. apply roll_is_fifo. Qed.

(** * Decay: printed, compared with a scalar or used in arithmetic, an array counts as its length *)

Theorem array_prints_length a d : to_string_for_output (VArr a d) = Ok (f64_display (f_of_N (len a))).
Proof. reflexivity. Qed.

(** (with a string or null partner the combination is one of the invalid ones of the coercion
    tables and yields mysterious: the unit tests of val.rs pin string + array = mysterious) *)
Theorem array_arith_is_length a d (b : val) :
  is_str b = false -> b <> VNull ->
  v_plus (VArr a d) b = v_plus (VNum (f_of_N (len a))) (v_decay b) /\
  v_subtract (VArr a d) b = v_subtract (VNum (f_of_N (len a))) (v_decay b) /\
  v_divide (VArr a d) b = v_divide (VNum (f_of_N (len a))) (v_decay b).
Proof. destruct b; cbn; intros H Hn; try discriminate; try contradiction; repeat split; reflexivity. Qed.

(** compared with a number (or null, which counts as 0) an array counts as its length; against a
    boolean or a string it is simply unequal (val.rs's unit tests pin both) *)
Theorem array_compares_as_length a d (b : val) :
  match b with VNum _ | VNull | VUndef => True | _ => False end ->
  v_equals (VArr a d) b = v_equals (VNum (f_of_N (len a))) (match b with VNull => VNum fzero | _ => b end) /\
  v_compare (VArr a d) b = match v_compare (VNum (f_of_N (len a))) (match b with VNull => VNum fzero | _ => b end) with
                           | Err (InvalidComparison _ _) => Err (InvalidComparison (VArr a d) b)
                           | r => r
                           end.
Proof. destruct b; cbn; intro H; try contradiction; split; reflexivity. Qed.

(** * Errors *)

Theorem not_indexable_error v k :
  match v with VStr _ | VArr _ _ => False | _ => True end -> v_index v k = Err (NotIndexable v).
Proof. destruct v; cbn; intro H; try contradiction; reflexivity. Qed.

Theorem array_key_error a d ka kd :
  v_index (VArr a d) (VArr ka kd) = Err (InvalidKey (VArr ka kd)) /\
  forall nv, assign_at (VArr a d) (VArr ka kd) nv = Err (InvalidKey (VArr ka kd)).
Proof. split; reflexivity. Qed.

Theorem write_not_indexable_error v k nv :
  match v with VNull | VBool _ | VNum _ => True | _ => False end ->
  assign_at v k nv = Err (NotIndexable v).
Proof. destruct v; cbn; intro H; try contradiction; reflexivity. Qed.

(** * Variables are independent: storing into one never changes what another holds *)

Lemma tab_get_set_other k k2 e t : varname_eqb k2 k = false -> tab_get k2 (tab_set k e t) = tab_get k2 t.
Proof.
  intro H. induction t as [|[k' e'] r IH]; cbn.
  - rewrite H. reflexivity.
  - destruct (varname_eqb k k') eqn:E; cbn.
    + destruct (varname_eqb k2 k') eqn:E2; auto.
      (* k = k' as keys, k2 matches k' but not k: impossible when eqb is an equivalence; handle by cases *)
      exfalso.
      assert (varname_eqb_trans_false : varname_eqb k2 k = true).
      { clear -E E2.
        assert (Hs : forall a b, str_eqb a b = true -> a = b) by (intros; apply str_eqb_eq; auto).
        assert (Hl : forall a b, strs_eqb a b = true -> a = b).
        { induction a as [|x a IHa]; destruct b as [|y b]; cbn; intro H0; try discriminate; auto.
          apply andb_true_iff in H0 as [H1 H2]. apply Hs in H1. apply IHa in H2. congruence. }
        assert (Hv : forall a b, varname_eqb a b = true -> a = b).
        { destruct a, b; cbn; intro H0; try discriminate.
          - apply Hs in H0; congruence.
          - apply andb_true_iff in H0 as [H1 H2]. apply Hs in H1, H2. congruence.
          - apply Hl in H0; congruence. }
        apply Hv in E. apply Hv in E2. subst. apply E2 || idtac.
        destruct k'; cbn; rewrite ?str_eqb_refl; auto.
        induction words; cbn; auto. rewrite str_eqb_refl; auto. }
      congruence.
    + destruct (varname_eqb k2 k'); auto.
Qed.

Theorem store_other_variable_unchanged n m v ss :
  varname_eqb (lower_name n) (lower_name m) = false ->
  find_var n (store_var m v ss) = find_var n ss.
Proof.
  intro H. induction ss as [|t r IH]; cbn; auto.
  unfold tab_lookup_var at 1. destruct (tab_get (lower_name m) t) as [[mv|ps b]|] eqn:Em; cbn [find_var].
  - unfold tab_lookup_var. rewrite tab_get_set_other by auto. reflexivity.
  - reflexivity.
  - unfold tab_lookup_var. destruct (tab_get (lower_name n) t) as [[nv|ps b]|]; auto.
Qed.

(** * C05: calls are by value — a parameter shadows the caller's variable of the same name *)

(** a store goes to the innermost scope that binds the name and leaves every enclosing scope untouched *)
Theorem store_innermost n v t ss x :
  tab_lookup_var n t = Ok x -> store_var n v (t :: ss) = tab_set (lower_name n) (EVar v) t :: ss.
Proof. intro H. cbn [store_var]. rewrite H. reflexivity. Qed.

(** and a lookup finds that innermost binding *)
Theorem find_innermost n t ss x : tab_lookup_var n t = Ok x -> find_var n (t :: ss) = Ok x.
Proof. intro H. cbn [find_var]. rewrite H. reflexivity. Qed.

(** the argument values are bound under the parameter names in the fresh scope of the call *)
Theorem call_binds_parameters n v : tab_for_call [(n, v)] [] = Ok [(lower_name n, EVar v)].
Proof. reflexivity. Qed.
