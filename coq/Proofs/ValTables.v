(** C03: the coercion tables, stated declaratively (36 cells per operator, no argument-swapping
    recursion), and the proof that the model of val.rs computes exactly them. *)
From Coq Require Import List ZArith NArith Bool Lia.
From RRSS Require Import Base.Outcome Base.Chars Base.F64 Base.F64Text Exec.Val Exec.Ops Front.Ast Exec.Env Exec.Interp.
Import ListNotations.

(** number an array counts as *)
Definition alen (a : list val) : f64 := f_of_N (len a).

(** * Addition: strings concatenate with the text of any scalar; numbers add (null = 0, array = its
    length); everything else is mysterious *)
Definition spec_plus (a b : val) : val :=
  match a, b with
  | VStr x, VStr y => VStr (x ++ y)
  | VStr x, VUndef => VStr (x ++ lit "mysterious")
  | VStr x, VNull => VStr (x ++ lit "null")
  | VStr x, VBool t => VStr (x ++ bool_text t)
  | VStr x, VNum n => VStr (x ++ f64_display n)
  | VUndef, VStr y => VStr (lit "mysterious" ++ y)
  | VNull, VStr y => VStr (lit "null" ++ y)
  | VBool t, VStr y => VStr (bool_text t ++ y)
  | VNum n, VStr y => VStr (f64_display n ++ y)
  | VNum x, VNum y => VNum (fadd x y)
  | VNull, VNum y => VNum (fadd fzero y)
  | VNum x, VNull => VNum (fadd x fzero)
  | VArr x _, VArr y _ => VNum (fadd (alen x) (alen y))
  | VArr x _, VNum y => VNum (fadd (alen x) y)
  | VNum x, VArr y _ => VNum (fadd x (alen y))
  | _, _ => VUndef
  end.

Theorem plus_table a b : v_plus a b = spec_plus a b.
Proof. destruct a, b; reflexivity. Qed.

(** * Subtraction and division: numbers only (null = 0, array = its length) *)
Definition spec_arith (g : f64 -> f64 -> f64) (a b : val) : val :=
  match a, b with
  | VNum x, VNum y => VNum (g x y)
  | VNull, VNum y => VNum (g fzero y)
  | VNum x, VNull => VNum (g x fzero)
  | VArr x _, VArr y _ => VNum (g (alen x) (alen y))
  | VArr x _, VNum y => VNum (g (alen x) y)
  | VNum x, VArr y _ => VNum (g x (alen y))
  | _, _ => VUndef
  end.

Theorem subtract_table a b : v_subtract a b = spec_arith fsub a b.
Proof. destruct a, b; reflexivity. Qed.

Theorem divide_table a b : v_divide a b = spec_arith fdiv a b.
Proof. destruct a, b; reflexivity. Qed.

(** * Multiplication: as above, plus string x non-negative number = repetition (in that order only) *)
Definition spec_repeat (s : str) (y : f64) : vres val :=
  if fleb fzero y then
    if (size_budget <? f_to_usize y)%N || (size_budget <? f_to_usize y * len s)%N then OverBudget
    else Ok (VStr (repeat_str (N.to_nat (f_to_usize y)) s))
  else Ok VUndef.

Definition spec_multiply (a b : val) : vres val :=
  match a, b with
  | VStr s, VNum y => spec_repeat s y
  | VStr s, VArr y _ => spec_repeat s (alen y)
  | _, _ => Ok (spec_arith fmul a b)
  end.

Theorem multiply_table a b : v_multiply a b = spec_multiply a b.
Proof. destruct a, b; reflexivity. Qed.

(** * Unary operators, truthiness, printed text *)
Theorem negate_table a :
  v_negate a = match a with VNum n => Ok (VNum (fneg n)) | _ => Err (InvalidOperationForType (lit "negate") a) end.
Proof. destruct a; reflexivity. Qed.

Definition spec_truthy (a : val) : bool :=
  match a with
  | VUndef | VNull => false
  | VBool b => b
  | VNum n => negb (feqb n fzero)
  | VStr _ | VArr _ _ => true
  end.

Theorem truthy_table a : is_truthy a = spec_truthy a.
Proof. destruct a; reflexivity. Qed.

Theorem not_table a : unop_apply UNot a = Ok (VBool (negb (spec_truthy a))).
Proof. destruct a; reflexivity. Qed.

(** the canonical rendering printed by `say` *)
Definition spec_text (a : val) : str :=
  match a with
  | VUndef => lit "mysterious"
  | VNull => lit "null"
  | VBool b => bool_text b
  | VNum n => f64_display n
  | VStr s => s
  | VArr x _ => f64_display (alen x)
  end.

Theorem output_table a : to_string_for_output a = Ok (spec_text a).
Proof. destruct a; reflexivity. Qed.

(** * Equality: the pair actually compared, per combination of kinds *)
Definition spec_equals (a b : val) : bool :=
  match a, b with
  | VUndef, (VUndef | VNull) | VNull, (VUndef | VNull) => true
  | VBool x, VBool y => Bool.eqb x y
  | VBool x, VNull | VNull, VBool x => Bool.eqb x false
  | VBool x, VNum n | VNum n, VBool x => Bool.eqb (negb (feqb n fzero)) x
  | VBool x, VStr s | VStr s, VBool x => Bool.eqb (negb (match s with [] => true | _ => false end)) x
  | VNum x, VNum y => feqb x y
  | VNum x, VNull => feqb x fzero
  | VNull, VNum x => feqb fzero x
  | VNum x, VStr s => match f64_parse s with Some y => feqb x y | None => false end
  | VStr s, VNum y => match f64_parse s with Some x => feqb x y | None => false end
  | VStr x, VStr y => str_eqb x y
  | VStr x, VNull => str_eqb x []
  | VNull, VStr y => str_eqb [] y
  | VArr _ _, VArr _ _ => val_eq a b
  | VArr x _, VNum y => feqb (alen x) y
  | VNum x, VArr y _ => feqb x (alen y)
  | VArr x _, VNull => feqb (alen x) fzero
  | VNull, VArr y _ => feqb fzero (alen y)
  | _, _ => false
  end.

Theorem equals_table a b : v_equals a b = Ok (spec_equals a b).
Proof.
  destruct a, b; unfold v_equals, cmp_coerced; cbn; try reflexivity;
    try (destruct b; reflexivity); try (destruct b0; reflexivity);
    try (match goal with |- context [f64_parse ?s] => destruct (f64_parse s); reflexivity end).
  all: try (destruct b, b0; reflexivity).
  all: try (destruct s; destruct b; reflexivity).
Qed.

(** * Ordering: which combinations have an ordering, which are errors *)
Inductive ord_spec := OrdOf (c : option comparison) | OrdError.

Definition spec_compare (a b : val) : ord_spec :=
  match a, b with
  | VUndef, (VUndef | VNull) | VNull, (VUndef | VNull) => OrdOf (Some Eq)
  | VNum x, VNum y => OrdOf (fcompare x y)
  | VNum x, VNull => OrdOf (fcompare x fzero)
  | VNull, VNum y => OrdOf (fcompare fzero y)
  | VNum x, VStr s => match f64_parse s with Some y => OrdOf (fcompare x y) | None => OrdOf None end
  | VStr s, VNum y => match f64_parse s with Some x => OrdOf (fcompare x y) | None => OrdOf None end
  | VStr x, VStr y => OrdOf (Some (str_compare x y))
  | VStr x, VNull => OrdOf (Some (str_compare x []))
  | VNull, VStr y => OrdOf (Some (str_compare [] y))
  | VArr x _, VNum y => OrdOf (fcompare (alen x) y)
  | VNum x, VArr y _ => OrdOf (fcompare x (alen y))
  | VArr x _, VNull => OrdOf (fcompare (alen x) fzero)
  | VNull, VArr y _ => OrdOf (fcompare fzero (alen y))
  | _, _ => OrdError
  end.

Theorem compare_table a b :
  v_compare a b = match spec_compare a b with
                  | OrdOf c => Ok c
                  | OrdError => Err (InvalidComparison a b)
                  end.
Proof.
  destruct a, b; unfold v_compare, cmp_coerced; cbn; try reflexivity;
    try (match goal with |- context [f64_parse ?s] => destruct (f64_parse s); reflexivity end).
Qed.

(** * Increment / decrement *)
Theorem inc_table a k :
  v_inc a k = match a with
              | VNull => Ok (VNum (fadd fzero (f_of_Z k)))
              | VBool b => Ok (VBool (xorb b (Z.odd k)))
              | VNum n => Ok (VNum (fadd n (f_of_Z k)))
              | _ => Err (InvalidOperationForType (if (0 <=? k)%Z then lit "increment" else lit "decrement") a)
              end.
Proof. destruct a; reflexivity. Qed.

(** * Expressions: the evaluation clauses (left to right, short-circuit, compound assignment, say) *)

Theorem binary_clause prof f op l first rest e :
  produce_expr prof (S f) (EBinary op l first rest) e =
  (let+ (lv, e1) := produce_expr prof f l e in fold_rhs prof f op lv (first :: rest) e1).
Proof. reflexivity. Qed.

(** list operands are folded left to right; when the operator does not need its right operand
    (and/or/nor decided by the left one) that operand is NOT evaluated: the environment, and
    with it every side effect, is passed on untouched *)
Theorem fold_clause prof f op acc x t e :
  fold_rhs prof (S f) op acc (x :: t) e =
  (if needs_rhs op acc then
     let+ (bv, e1) := produce_expr prof f x e in
     let+ (r, e2) := lift_val (binop_apply op acc bv) e1 in
     fold_rhs prof f op r t e2
   else fold_rhs prof f op (short_result op acc) t e).
Proof. reflexivity. Qed.

Theorem unary_clause prof f op a e :
  produce_expr prof (S f) (EUnary op a) e =
  (let+ (v, e1) := produce_expr prof f a e in lift_val (unop_apply op v) e1).
Proof. reflexivity. Qed.

(** compound assignment reads the destination, folds the operand list into it, writes it back *)
Theorem compound_assign_clause prof f d first rest o xs e :
  exec_stmt prof (S f) (SAssign d first rest (Some o)) xs e =
  match tick e with
  | None => XOverBudget
  | Some e =>
      let+ (nv, e1) := (let+ (lv, e0) := produce_primary prof f (lhs_as_primary d) e in
                        fold_rhs prof f o lv (first :: rest) e0) in
      let+ (_, e2) := settle (write_primary prof f (WAssign nv) (lhs_as_primary d) e1) in
      XOk xs e2
  end.
Proof. reflexivity. Qed.

(** what `say e` writes is the canonical text of the value *)
Theorem say_clause prof f x xs e :
  exec_stmt prof (S f) (SOutput x) xs e =
  match tick e with
  | None => XOverBudget
  | Some e =>
      let+ (v, e1) := produce_expr prof f x e in
      let+ (txt, e2) := lift_val (to_string_for_output v) e1 in
      let '(r, cfail) := chan_output txt (chan e2) in
      match r with
      | Ok c' => XOk xs (mkEnvB e2 (scopes e2) (last_access e2) c')
      | Err x => XErr (REnv x) (mkEnvB e2 (scopes e2) (last_access e2) cfail)
      | Panic s => XPanic s | UB s => XUB s | OutOfFuel => XOutOfFuel | OverBudget => XOverBudget
      end
  end.
Proof. reflexivity. Qed.

(** invalid combinations are runtime errors, never values *)
Theorem invalid_is_error a b :
  (forall k, match a with VUndef | VStr _ | VArr _ _ => is_err (v_inc a k) = true | _ => True end) /\
  (match a with VNum _ => True | _ => is_err (v_negate a) = true end) /\
  (spec_compare a b = OrdError -> is_err (v_compare a b) = true).
Proof.
  repeat split.
  - intro k. destruct a; cbn; auto.
  - destruct a; cbn; auto.
  - intro H. rewrite compare_table, H. reflexivity.
Qed.
