(** Algebraic laws of equality and ordering on values (C14), and operator tables (C03). *)
From Coq Require Import List ZArith NArith Bool Lia.
From RRSS Require Import Base.Outcome Base.Chars Base.F64 Base.F64Text Exec.Val Exec.Ops.
From RRSS Require Import Proofs.ValInd Proofs.F64Laws.
Import ListNotations.

(** * Unfolding [val_eq] on arrays *)

Fixpoint forallb2 {A B} (f : A -> B -> bool) (l1 : list A) (l2 : list B) : bool :=
  match l1, l2 with
  | [], [] => true
  | x :: t1, y :: t2 => f x y && forallb2 f t1 t2
  | _, _ => false
  end.

Definition entry_in (yd : dict) (kv : dkey * val) : bool :=
  match dict_get (fst kv) yd with Some v' => val_eq (snd kv) v' | None => false end.

Lemma val_eq_arr xa xd ya yd :
  val_eq (VArr xa xd) (VArr ya yd) =
  forallb2 val_eq xa ya && (len xd =? len yd)%N && forallb (entry_in yd) xd.
Proof.
  simpl. f_equal; [f_equal|].
  - revert ya. induction xa as [|x t IH]; destruct ya; simpl; auto. rewrite IH; auto.
  - induction xd as [|[k v] t IH]; simpl; auto. rewrite IH. reflexivity.
Qed.

(** * Symmetry of structural equality *)

Lemma forallb2_sym {A} (f : A -> A -> bool) l1 l2 :
  Forall (fun x => forall y, In y l2 -> f x y = f y x) l1 ->
  forallb2 f l1 l2 = forallb2 f l2 l1.
Proof.
  revert l2. induction l1 as [|x t IH]; destruct l2 as [|y u]; simpl; auto.
  intro H. inversion H; subst. rewrite H2 by (left; auto). f_equal.
  apply IH. eapply Forall_impl; [|exact H3]. intros a Ha z Hz. apply Ha. right; auto.
Qed.

Lemma len_eq_length {A B} (l : list A) (m : list B) : (len l =? len m)%N = true -> length l = length m.
Proof. unfold len. intro H. apply N.eqb_eq in H. lia. Qed.

Lemma entry_in_spec yd kv :
  entry_in yd kv = true <-> exists v', dict_get (fst kv) yd = Some v' /\ val_eq (snd kv) v' = true.
Proof.
  unfold entry_in. destruct (dict_get (fst kv) yd) as [v'|]; split.
  - intro H. eauto.
  - intros (v'' & E & H). inversion E; subst; auto.
  - discriminate.
  - intros (v'' & E & _). discriminate.
Qed.

Lemma keys_incl_of_sub xd yd :
  forallb (entry_in yd) xd = true -> incl (map fst xd) (map fst yd).
Proof.
  intros H k Hk. apply in_map_iff in Hk as ([k' v] & <- & Hin).
  rewrite forallb_forall in H. specialize (H _ Hin). apply entry_in_spec in H as (v' & E & _).
  apply dict_get_in in E. apply (in_map fst) in E. exact E.
Qed.

Lemma dict_sub_flip (xd yd : dict) (R : val -> val -> Prop) :
  NoDup (map fst xd) -> NoDup (map fst yd) -> (length yd <= length xd)%nat ->
  (forall k v, In (k, v) xd -> exists v', dict_get k yd = Some v' /\ R v v') ->
  forall k v', In (k, v') yd -> exists v, dict_get k xd = Some v /\ R v v'.
Proof.
  intros Hx Hy Hlen Hsub k v' Hin.
  assert (Hincl : incl (map fst xd) (map fst yd)).
  { intros a Ha. apply in_map_iff in Ha as ([a' v] & <- & Hi).
    destruct (Hsub _ _ Hi) as (w & E & _). apply dict_get_in in E. apply (in_map fst) in E. exact E. }
  assert (Hrev : incl (map fst yd) (map fst xd)).
  { apply NoDup_length_incl; auto. rewrite !map_length. exact Hlen. }
  assert (Hk : In k (map fst xd)) by (apply Hrev; apply (in_map fst) in Hin; exact Hin).
  apply in_map_iff in Hk as ([k0 v] & Ek & Hi). simpl in Ek. subst k0.
  exists v. split.
  - apply dict_get_in_nodup; auto.
  - destruct (Hsub _ _ Hi) as (w & E & HR).
    rewrite (dict_get_in_nodup _ _ _ Hy Hin) in E. inversion E; subst. exact HR.
Qed.

Lemma dict_part_sym (xd yd : dict) :
  NoDup (map fst xd) -> NoDup (map fst yd) ->
  (forall kv, In kv xd -> forall w, In w (map snd yd) -> val_eq (snd kv) w = val_eq w (snd kv)) ->
  (len xd =? len yd)%N && forallb (entry_in yd) xd = (len yd =? len xd)%N && forallb (entry_in xd) yd.
Proof.
  intros Nx Ny Hsym. rewrite (N.eqb_sym (len yd)).
  destruct (len xd =? len yd)%N eqn:El; simpl; auto.
  apply len_eq_length in El.
  apply eq_true_iff_eq. rewrite !forallb_forall. split; intros H [k v] Hin; apply entry_in_spec; simpl.
  - (* from xd ⊆ yd to yd ⊆ xd *)
    destruct (dict_sub_flip xd yd (fun a b => val_eq a b = true) Nx Ny) with (k := k) (v' := v)
      as (w & E & HR); auto; try lia.
    { intros k0 v0 Hi. specialize (H _ Hi). apply entry_in_spec in H. exact H. }
    exists w. split; auto. apply dict_get_in in E.
    pose proof (Hsym (k, w) E v) as Hs. simpl in Hs. rewrite <- Hs; auto.
    apply in_map_iff. exists (k, v); auto.
  - destruct (dict_sub_flip yd xd (fun a b => val_eq a b = true) Ny Nx) with (k := k) (v' := v)
      as (w & E & HR); auto; try lia.
    { intros k0 v0 Hi. specialize (H _ Hi). apply entry_in_spec in H. exact H. }
    exists w. split; auto. apply dict_get_in in E.
    pose proof (Hsym (k, v) Hin w) as Hs. simpl in Hs. rewrite Hs; auto.
    apply in_map_iff. exists (k, w); auto.
Qed.

Lemma val_eq_sym : forall a b, wf_val a -> wf_val b -> val_eq a b = val_eq b a.
Proof.
  induction a as [| |x|x|x|xa xd IHa IHd] using val_ind'; intros b Wa Wb; destruct b as [| |y|y|y|ya yd];
    try reflexivity.
  - simpl. destruct x, y; reflexivity.
  - simpl. apply feqb_sym.
  - simpl. apply str_eqb_sym.
  - rewrite !val_eq_arr, <- !andb_assoc.
    apply wf_arr in Wa as (Wxa & Nx & Wxd). apply wf_arr in Wb as (Wya & Ny & Wyd).
    f_equal.
    + apply forallb2_sym. rewrite Forall_forall in *. intros x Hx y Hy. apply IHa; auto.
    + apply dict_part_sym; auto. rewrite Forall_forall in *.
      intros kv Hkv w Hw. apply IHd; auto.
      apply in_map_iff in Hw as (kv' & <- & Hi). apply Wyd; auto.
Qed.

(** * Laws of [equals] and [compare]
    [cmp_coerced] is NOT symmetric as a pair-valued function: mysterious/string against an array
    coerce differently in the two orders (the array decays only when it is the receiver).  The laws
    below hold nevertheless; they are proved on the 36 kind combinations directly. *)

Theorem equals_sym a b : wf_val a -> wf_val b -> v_equals a b = v_equals b a.
Proof.
  intros Wa Wb.
  destruct a, b; unfold v_equals, cmp_coerced; cbn; try reflexivity;
    try (f_equal; apply (val_eq_sym (VBool _) (VBool _)); auto; fail);
    try (f_equal; apply feqb_sym; fail);
    try (f_equal; apply str_eqb_sym; fail);
    try (f_equal; destruct b, b0; reflexivity; fail);
    try (f_equal; destruct b; reflexivity; fail);
    try match goal with |- context [f64_parse ?s] => destruct (f64_parse s); cbn; try reflexivity; f_equal; apply feqb_sym end.
  - destruct s; reflexivity.
  - f_equal. apply (val_eq_sym (VArr arr dict) (VArr arr0 dict0)); auto.
Qed.

Definition flip_err (e : val_error) : val_error :=
  match e with InvalidComparison x y => InvalidComparison y x | e => e end.

Theorem compare_swap a b :
  v_compare b a =
  match v_compare a b with
  | Ok o => Ok (option_map CompOpp o)
  | Err e => Err (flip_err e)
  | r => r
  end.
Proof.
  destruct a, b; unfold v_compare, cmp_coerced; cbn; try reflexivity;
    try (rewrite fcompare_antisym; reflexivity);
    try (rewrite str_compare_antisym; reflexivity);
    try match goal with |- context [f64_parse ?s] =>
          destruct (f64_parse s); cbn; try reflexivity; rewrite fcompare_antisym; reflexivity end.
  destruct s; reflexivity.
Qed.

Lemma str_compare_eqb a b : (match str_compare a b with Eq => true | _ => false end) = str_eqb a b.
Proof.
  destruct (str_compare a b) eqn:E.
  - apply str_compare_eq in E. subst. symmetry. apply str_eqb_refl.
  - destruct (str_eqb a b) eqn:E2; auto. apply str_eqb_eq in E2. subst.
    assert (str_compare b b = Eq) by (apply str_compare_eq; auto). congruence.
  - destruct (str_eqb a b) eqn:E2; auto. apply str_eqb_eq in E2. subst.
    assert (str_compare b b = Eq) by (apply str_compare_eq; auto). congruence.
Qed.

Lemma ord_eq_feqb x y : ord_is not_gt (fcompare x y) && ord_is not_lt (fcompare x y) = feqb x y.
Proof. rewrite feqb_compare. destruct (fcompare x y) as [[]|]; reflexivity. Qed.

Lemma ord_eq_str x y :
  ord_is not_gt (Some (str_compare x y)) && ord_is not_lt (Some (str_compare x y)) = str_eqb x y.
Proof. rewrite <- str_compare_eqb. destruct (str_compare x y); reflexivity. Qed.

(** When an ordering exists (or the operands are unordered), [<=] and [>=] together are equality. *)
Theorem leq_and_geq_is_equals a b o :
  v_compare a b = Ok o -> v_equals a b = Ok (ord_is not_gt o && ord_is not_lt o).
Proof.
  destruct a, b; unfold v_compare, v_equals, cmp_coerced; cbn; intro H; inversion H; subst; clear H;
    try reflexivity;
    try match goal with H : context [f64_parse ?s] |- _ =>
          destruct (f64_parse s); cbn in *; inversion H; subst; clear H end;
    try reflexivity.
  all: try (rewrite ord_eq_feqb; reflexivity).
  all: try (rewrite ord_eq_str; reflexivity).
  destruct s; reflexivity.
Qed.

(** * Operator-level corollaries (the forms the property text uses) *)

Theorem less_greater_dual a b :
  binop_apply OpGreater b a = map_err flip_err (binop_apply OpLess a b).
Proof.
  unfold binop_apply. rewrite compare_swap.
  destruct (v_compare a b) as [[[]|]| | | | |]; reflexivity.
Qed.

Theorem leq_geq_dual a b :
  binop_apply OpGreaterEq b a = map_err flip_err (binop_apply OpLessEq a b).
Proof.
  unfold binop_apply. rewrite compare_swap.
  destruct (v_compare a b) as [[[]|]| | | | |]; reflexivity.
Qed.

Theorem compare_error_sym a b : is_err (v_compare a b) = is_err (v_compare b a).
Proof. rewrite (compare_swap a b). destruct (v_compare a b); reflexivity. Qed.

Definition vnot (v : val) : val := VBool (negb (is_truthy v)).

Theorem noteq_is_negation a b :
  binop_apply OpNotEq a b = rmap vnot (binop_apply OpEq a b).
Proof. unfold binop_apply. destruct (v_equals a b); reflexivity. Qed.

Theorem logic_truthiness a b :
  binop_apply OpAnd a b = Ok (VBool (is_truthy a && is_truthy b)) /\
  binop_apply OpOr a b = Ok (VBool (is_truthy a || is_truthy b)) /\
  binop_apply OpNor a b = Ok (VBool (negb (is_truthy a || is_truthy b))) /\
  unop_apply UNot a = Ok (VBool (negb (is_truthy a))).
Proof. repeat split; try reflexivity. cbn. rewrite negb_orb. reflexivity. Qed.

(** short-circuit results agree with the full evaluation whatever the right operand is *)
Theorem short_circuit_sound o a b :
  needs_rhs o a = false -> binop_apply o a b = Ok (short_result o a).
Proof.
  destruct o; cbn; try discriminate; intro H.
  - rewrite H. reflexivity.
  - apply negb_false_iff in H. rewrite H. reflexivity.
  - apply negb_false_iff in H. rewrite H. reflexivity.
Qed.

Theorem equals_op_sym a b : wf_val a -> wf_val b -> binop_apply OpEq a b = binop_apply OpEq b a.
Proof. intros. unfold binop_apply. rewrite equals_sym; auto. Qed.

(** * Building up and knocking down *)

Theorem inc_dec_restores_bool b k :
  (let* v := v_inc (VBool b) k in v_inc v (- k)%Z) = Ok (VBool b).
Proof.
  cbn. rewrite Z.odd_opp. destruct b, (Z.odd k); reflexivity.
Qed.

Fixpoint iter_inc (n : nat) (k : Z) (v : val) : vres val :=
  match n with
  | O => Ok v
  | S n' => let* v' := v_inc v k in iter_inc n' k v'
  end.

Lemma iter_inc_bool n k b :
  iter_inc n k (VBool b) = Ok (VBool (xorb b (Nat.odd n && Z.odd k))).
Proof.
  revert b. induction n as [|n IH]; intro b.
  - cbn. rewrite xorb_false_r. reflexivity.
  - cbn [iter_inc v_inc bind]. rewrite IH. f_equal. f_equal.
    rewrite Nat.odd_succ, <- Nat.negb_odd.
    destruct b, (Nat.odd n), (Z.odd k); reflexivity.
Qed.

Theorem build_knock_restores_bool b n :
  (let* v := iter_inc n 1 (VBool b) in iter_inc n (-1) v) = Ok (VBool b).
Proof.
  rewrite iter_inc_bool. cbn [bind]. rewrite iter_inc_bool. f_equal. f_equal.
  destruct b, (Nat.odd n); reflexivity.
Qed.
