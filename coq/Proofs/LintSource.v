(** C19 end to end: for every source text the parser accepts, the linter returns its diagnostics.
    Number tokens carry parsed numerals (LexNumbers), parsed numerals are binary64 data (LintValid), an accepted
    program is a tree of the grammar over its tokens (ParseSound), the grammar copies literal values from tokens
    (this file), the linter succeeds on trees with binary64 literals (LintValid). *)
From Coq Require Import List ZArith NArith Bool Lia.
From RRSS Require Import Base.Outcome Base.Chars Base.F64 Base.F64Text Exec.Ops Front.Ast Front.Token Front.Lexer Front.Parser Front.Grammar Lint.Lint.
From RRSS Require Import Proofs.GrammarLaws Proofs.ParseSound Proofs.LexNumbers Proofs.FloatValid Proofs.LintValid.
Import ListNotations.

Definition tokv (ts : list token) : Prop := Forall (fun t => forall v, tid t = TNumber v -> fvalid v) ts.

Lemma tokv_app a b : tokv (a ++ b) <-> tokv a /\ tokv b.
Proof. apply Forall_app. Qed.

Lemma tokv_cons t ts : tokv (t :: ts) -> tokv ts.
Proof. intro H. inversion H; auto. Qed.

Ltac tv := repeat match goal with
  | H : tokv (_ ++ _) |- _ => apply tokv_app in H; destruct H
  | H : tokv (_ :: _ :: _) |- _ => let H' := fresh in pose proof (tokv_cons _ _ H) as H'; clear H
  end.

Lemma lit_num t x : literal_of_token (tid t) = Some (LNumber x) -> tid t = TNumber x.
Proof. destruct (tid t); cbn; intro H; try discriminate; injection H as <-; reflexivity. Qed.

Definition plit_ok (p : primary) : Prop := forall x r, p = PLit (LNumber x) r -> fvalid x.

Lemma lv_of_primary p : plit_ok p -> lv_expr (EPrimary p).
Proof.
  intro H. destruct p as [[| | |x|] r| | | |]; try (apply lv_other; intros; discriminate).
  apply lv_num. eapply H; reflexivity.
Qed.

Theorem g_expr_lv : forall L ts e, g L ts e -> tokv ts -> lv_expr e.
Proof.
  apply (g_mind (fun ts p _ => tokv ts -> plit_ok p) (fun ts p _ => tokv ts -> plit_ok p)
                (fun L ts e _ => tokv ts -> lv_expr e)
                (fun L ts r _ => tokv ts -> Forall lv_expr r) (fun _ _ _ => True));
    intros; try exact I; try (intros ? ? ?; discriminate).
  - (* literal *) intros x r E. injection E as -> _. apply lit_num in e. inversion H; subst. eauto.
  - auto.
  - apply lv_of_primary; auto.
  - apply lv_un. apply H. eapply tokv_cons; eauto.
  - auto.
  - tv. apply lv_bin; auto.
  - tv. apply lv_bin; auto.
  - constructor.
  - tv. apply Forall_app. split; auto.
Qed.

Lemma g_list_lv L ts r : g_list L ts r -> tokv ts -> Forall lv_expr r.
Proof.
  induction 1 as [|L ts l tc te e Hl IH Hc He]; intro H; [constructor|].
  tv. apply Forall_app. split; auto. constructor; [|constructor]. eapply g_expr_lv; eauto.
Qed.

Lemma block_new_lv l ss : Forall lv_stmt ss -> lv_block (block_new l ss).
Proof. intro H. unfold block_new. destruct ss; [constructor|constructor; exact H]. Qed.

Lemma g_stmt_lv : forall ts st, g_stmt ts st -> tokv ts -> lv_stmt st
with g_block_lv : forall ts b, g_block ts b -> tokv ts -> lv_block b
with g_stmts_lv : forall ts ss, g_stmts ts ss -> tokv ts -> Forall lv_stmt ss.
Proof.
  - intros ts st H. destruct H; intro Ht; try (constructor; fail).
    + (* put *) tv. constructor. eapply g_expr_lv; [eassumption|assumption].
    + (* let *) tv. constructor. eapply g_expr_lv; [eassumption|assumption].
    + (* poetic expr *) tv. constructor. eapply g_expr_lv; [eassumption|assumption].
    + (* function *) tv. constructor. eapply g_block_lv; [eassumption|assumption].
    + (* if *) tv. constructor; [eapply g_block_lv; [eassumption|assumption]|]. intros b' Eb.
      match goal with Ho : _ \/ _ |- _ => destruct Ho as [[-> ->]|(x & tnl & tb & b0 & -> & Hx & Hnl & Hb & ->)] end; [discriminate|].
      injection Eb as <-. tv. eapply g_block_lv; [exact Hb|assumption].
    + (* while *) tv. constructor. eapply g_block_lv; [eassumption|assumption].
    + (* until *) tv. constructor. eapply g_block_lv; [eassumption|assumption].
    + (* rock with *) tv. constructor. eapply g_expr_lv; [eassumption|assumption].
  - intros ts b H. destruct H; intro Ht; [constructor|]. apply block_new_lv. eapply g_stmts_lv; [eassumption|assumption].
  - intros ts ss H. destruct H; intro Ht; [constructor|]. tv. apply Forall_app. split.
    + eapply g_stmts_lv; [eassumption|assumption].
    + constructor; [|constructor]. eapply g_stmt_lv; [eassumption|assumption].
Qed.

Lemma g_program_lv ts p : g_program ts p -> tokv ts -> Forall lv_block p.
Proof.
  induction 1 as [|ts p tb b Hp IH Hb]; intro Ht; [constructor|]. tv.
  destruct (block_is_empty b); [auto|]. apply Forall_app. split; auto. constructor; [|constructor].
  eapply g_block_lv; eauto.
Qed.

(** the tokens of a lexed source carry binary64 numbers *)
Lemma lexed_tokv prof src pts : lex prof src = Ok pts -> tokv (map pt_tok (drop_comments pts)).
Proof.
  intro H. apply lex_numbers in H. unfold tokv, drop_comments.
  apply Forall_map. apply Forall_forall. intros pt Hin. apply filter_In in Hin as [Hin _].
  rewrite Forall_forall in H. intros v Ev. destruct (H pt Hin v Ev) as [s Hs]. eapply f64_parse_valid; eauto.
Qed.

(** ** linting never fails: every source the parser accepts is linted to a list of diagnostics *)
Theorem lint_source_total prof src p : parse prof src = ParseOk p -> exists ds, lint p = Ok ds.
Proof.
  intro H. destruct (parse_sound prof src p H) as (pts & Hl & Hg).
  apply lint_ok. eapply g_program_lv; eauto. eapply lexed_tokv; eauto.
Qed.
