(** Literal tokens denote exactly their written value, for all tokens of a whole lexing run at once: a number
    token's value is [f64_parse] of its own spelling, a string token's payload is its spelling without the two
    quotes, a comment's is its spelling without the parentheses ([payload_ok], LiteralLaws.v). *)
From Coq Require Import List ZArith NArith Bool Lia.
From RRSS Require Import Base.Outcome Base.Chars Base.F64 Base.F64Text Front.Ast Front.Token Front.Lexer.
From RRSS Require Import Proofs.LexBasics Proofs.LexPos Proofs.LexSpec Proofs.LiteralLaws Proofs.LexNumbers.
Import ListNotations.
Open Scope N_scope.

Definition not_lit (id : ttype) : Prop := match id with TNumber _ | TStringLiteral _ | TComment _ => False | _ => True end.
Definition pstg_ok (o : option token) : Prop := match o with Some t => payload_ok t | None => True end.

Lemma not_lit_ok t : not_lit (tid t) -> payload_ok t.
Proof. unfold payload_ok, not_lit. destruct (tid t); auto; contradiction. Qed.

Lemma keywords_not_lit : forallb (fun p => match snd p with TNumber _ | TStringLiteral _ | TComment _ => false | _ => true end) keywords = true.
Proof. vm_compute. reflexivity. Qed.

Lemma match_keyword_not_lit w id : match_keyword w = Some id -> not_lit id.
Proof.
  unfold match_keyword. intro H. apply assoc_str_in in H as [k Hin].
  pose proof keywords_not_lit as K. rewrite forallb_forall in K. specialize (K _ Hin). cbn in K.
  unfold not_lit. destruct id; auto; discriminate.
Qed.

Section L.
Variable prof : profile.

Lemma mtf_tid lx s0 start n id t : make_token_from prof lx s0 start n id = Ok t -> tid t = id.
Proof. apply make_token_from_tid. Qed.

Lemma char_token_p lx s0 start id r : not_lit id -> char_token prof lx s0 start id = Ok r -> payload_ok (lr_token r).
Proof.
  intros Hn. unfold char_token. destruct (make_token_from prof lx s0 start 1 id) as [t| | | | |] eqn:E; cbn [bind]; try discriminate.
  apply mtf_tid in E. intro H. apply not_lit_ok.
  destruct id; injection H as <-; cbn; rewrite E; exact Hn.
Qed.

Lemma two_char_token_p lx s0 start id r : not_lit id -> two_char_token prof lx s0 start id = Ok r -> payload_ok (lr_token r).
Proof.
  intros Hn. unfold two_char_token. destruct (make_token_from prof lx s0 start 2 id) as [t| | | | |] eqn:E; cbn [bind]; try discriminate.
  apply mtf_tid in E. intro H. injection H as <-. apply not_lit_ok. cbn. rewrite E. exact Hn.
Qed.

Lemma make_error_token_p lx s0 start msg r : make_error_token prof lx s0 start msg = Ok r -> payload_ok (lr_token r).
Proof.
  unfold make_error_token. destruct (make_token_from prof lx s0 start _ _) as [t| | | | |] eqn:E; cbn [bind]; try discriminate.
  apply mtf_tid in E. intro H. injection H as <-. apply not_lit_ok. cbn. rewrite E. exact I.
Qed.

Lemma scan_for_text_p lx s start text id r : not_lit id -> scan_for_text prof lx s start text id = Ok (Some r) -> payload_ok (lr_token r).
Proof.
  intro Hn. unfold scan_for_text. destruct (starts_with text s); [|discriminate].
  destruct (make_token_from prof lx s start _ id) as [t| | | | |] eqn:E; cbn [bind]; try discriminate.
  apply mtf_tid in E. intro H. injection H as <-. apply not_lit_ok. cbn. rewrite E. exact Hn.
Qed.

Lemma scan_keyword_p lx s0 start r : scan_keyword prof lx s0 start = Ok (Some r) -> payload_ok (lr_token r).
Proof.
  unfold scan_keyword. destruct (substr prof 44 _ s0) as [text| | | | |]; cbn [bind]; try discriminate.
  destruct (match_keyword text) as [id|] eqn:Ek; [|discriminate].
  destruct (make_range_from _ _ _ _); cbn [bind]; try discriminate.
  intro H. injection H as <-. apply not_lit_ok. cbn. eapply match_keyword_not_lit; eauto.
Qed.

Lemma staged_p lx r after r' stg : maybe_suffix prof lx r after = Ok (r', stg) -> pstg_ok stg.
Proof.
  intro H. destruct (maybe_suffix_token _ _ _ _ _ _ H) as [_ Hs]. destruct stg as [t2|]; [|exact I].
  cbn. apply not_lit_ok. destruct Hs as [-> | ->]; exact I.
Qed.

Lemma scan_number_p lx s0 start r stg :
  scan_number prof lx s0 start = Ok (Some (r, stg)) -> payload_ok (lr_token r) /\ pstg_ok stg.
Proof.
  intro H. split; [eapply scan_number_payload; eauto|].
  unfold scan_number in H. destruct s0 as [|c after]; [discriminate|].
  destruct (substr prof 43 _ (c :: after)) as [text| | | | |]; cbn [bind] in H; try discriminate.
  destruct (f64_parse text) as [v|]; [|discriminate].
  destruct (make_range_from _ _ _ _) as [rg| | | | |]; cbn [bind] in H; try discriminate.
  destruct (maybe_suffix prof lx _ _) as [[r' stg']| | | | |] eqn:Em; cbn [bind] in H; try discriminate.
  injection H as <- <-. eapply staged_p; eauto.
Qed.

(** strings: [string_literal_payload] without its (unused) size hypothesis *)
Lemma string_payload lx c after start r stg :
  scan_delimited prof lx (c :: after) start 34 TStringLiteral (lit "Unterminated string literal") = Ok (r, stg) ->
  c = 34 -> payload_ok (lr_token r).
Proof.
  unfold scan_delimited. intros H Hc. subst c.
  destruct (make_loc_from _ _ start) as [sl| | | | |]; cbn [bind] in H; try discriminate.
  pose proof (scan_close_spec 34 after (start + 1) 0 None) as S.
  destruct (scan_close 34 after (start + 1) 0 None) as [[found nl'] nls'].
  destruct found as [cl|].
  - destruct S as (inner & rest' & Hafter & Hcl & _).
    replace (cl - (start + 1)) with (byte_len inner) in H by lia.
    rewrite Hafter in H. rewrite substr_ok in H. cbn [bind] in H.
    assert (Hs0 : (34 : char) :: inner ++ (34 : char) :: rest' = ((34 : char) :: inner ++ [(34 : char)]) ++ rest') by (cbn; rewrite <- app_assoc; reflexivity).
    assert (Hlen : byte_len ((34 : char) :: inner ++ [(34 : char)]) = cl + 1 - start).
    { cbn [byte_len]. rewrite byte_len_app, byte_len_single. change (utf8_len 34) with 1. lia. }
    rewrite Hs0, <- Hlen in H. rewrite substr_ok in H. cbn [bind] in H.
    destruct (make_loc_from _ _ _) as [el| | | | |]; cbn [bind] in H; try discriminate.
    destruct (maybe_suffix_token _ _ _ _ _ _ H) as [-> _]. unfold payload_ok. cbn. reflexivity.
  - cbn [bind] in H. destruct (make_loc_from _ _ _) as [el| | | | |]; cbn [bind] in H; try discriminate.
    destruct (maybe_suffix_token _ _ _ _ _ _ H) as [-> _]. unfold payload_ok. cbn. exact I.
Qed.


(** comments: the same as [string_literal_payload], with parentheses *)
Lemma comment_payload lx c after start r stg :
  scan_delimited prof lx (c :: after) start 41 TComment (lit "Unterminated comment") = Ok (r, stg) ->
  c = 40 -> payload_ok (lr_token r).
Proof.
  unfold scan_delimited. intros H Hc. subst c.
  destruct (make_loc_from _ _ start) as [sl| | | | |]; cbn [bind] in H; try discriminate.
  pose proof (scan_close_spec 41 after (start + 1) 0 None) as S.
  destruct (scan_close 41 after (start + 1) 0 None) as [[found nl'] nls'].
  destruct found as [cl|].
  - destruct S as (inner & rest' & Hafter & Hcl & _).
    replace (cl - (start + 1)) with (byte_len inner) in H by lia.
    rewrite Hafter in H. rewrite substr_ok in H. cbn [bind] in H.
    assert (Hs0 : (40 : char) :: inner ++ (41 : char) :: rest' = ((40 : char) :: inner ++ [(41 : char)]) ++ rest') by (cbn; rewrite <- app_assoc; reflexivity).
    assert (Hlen : byte_len ((40 : char) :: inner ++ [(41 : char)]) = cl + 1 - start).
    { cbn [byte_len]. rewrite byte_len_app, byte_len_single. change (utf8_len 40) with 1. change (utf8_len 41) with 1. lia. }
    rewrite Hs0, <- Hlen in H. rewrite substr_ok in H. cbn [bind] in H.
    destruct (make_loc_from _ _ _) as [el| | | | |]; cbn [bind] in H; try discriminate.
    destruct (maybe_suffix_token _ _ _ _ _ _ H) as [-> _]. unfold payload_ok. cbn. reflexivity.
  - cbn [bind] in H. destruct (make_loc_from _ _ _) as [el| | | | |]; cbn [bind] in H; try discriminate.
    destruct (maybe_suffix_token _ _ _ _ _ _ H) as [-> _]. unfold payload_ok. cbn. exact I.
Qed.

Lemma scan_delimited_stg lx s0 open close factory err r stg :
  scan_delimited prof lx s0 open close factory err = Ok (r, stg) -> pstg_ok stg.
Proof.
  unfold scan_delimited. destruct s0 as [|c after]; [discriminate|].
  destruct (make_loc_from _ _ open); cbn [bind]; try discriminate.
  destruct (scan_close close after (open + 1) 0 None) as [[found nl] nls].
  match goal with |- bind ?m _ = _ -> _ => destruct m as [[[ty text] e]| | | | |] end; cbn [bind]; try discriminate.
  destruct (make_loc_from _ _ e); cbn [bind]; try discriminate.
  apply staged_p.
Qed.

Lemma tokenize_word_p lx s0 start word e r stg :
  tokenize_word prof lx s0 start word e = Ok (r, stg) -> payload_ok (lr_token r) /\ pstg_ok stg.
Proof.
  unfold tokenize_word.
  set (ss := first_some [strip_suffix (lit "'s") word; strip_suffix (lit "'S") word]).
  set (rs := first_some _).
  match goal with |- (let '(stripped, staged_type) := ?p in _) = _ -> _ => destruct p as [stripped staged_type] eqn:Ep end.
  assert (Hst : forall id n, staged_type = Some (id, n) -> not_lit id).
  { intros id n E. subst staged_type. destruct ss; [injection Ep as _ <- _; exact I|].
    destruct rs; [injection Ep as _ <- _; exact I|]. discriminate. }
  match goal with |- bind ?m _ = _ -> _ => destruct m as [stg0| | | | |] eqn:Es end; cbn [bind]; try discriminate.
  assert (Hs0 : pstg_ok stg0).
  { destruct staged_type as [[id n]|].
    - destruct (make_token_from prof lx _ _ n id) as [t| | | | |] eqn:Et; cbn [bind] in Es; try discriminate.
      injection Es as <-. cbn. apply not_lit_ok. rewrite (mtf_tid _ _ _ _ _ _ Et). eapply Hst; eauto.
    - injection Es as <-. exact I. }
  destruct (debug_assert prof 45 _); cbn [bind]; try discriminate.
  destruct (make_token_from prof lx s0 start (byte_len stripped) _) as [t| | | | |] eqn:Et; cbn [bind]; try discriminate.
  intro H. injection H as <- <-. split; auto. cbn. apply not_lit_ok. rewrite (mtf_tid _ _ _ _ _ _ Et).
  destruct (match_keyword stripped) eqn:Ek; [eapply match_keyword_not_lit; eauto|exact I].
Qed.

Lemma scan_word_p lx s0 start r stg : scan_word prof lx s0 start = Ok (r, stg) -> payload_ok (lr_token r) /\ pstg_ok stg.
Proof.
  unfold scan_word. destruct (substr prof 46 _ s0) as [text| | | | |]; cbn [bind]; try discriminate.
  destruct (forallb _ text).
  - apply tokenize_word_p.
  - destruct (make_token_from prof lx s0 start _ _) as [t| | | | |] eqn:Et; cbn [bind]; try discriminate.
    intro H. injection H as <- <-. split; [|exact I]. cbn. apply not_lit_ok. rewrite (mtf_tid _ _ _ _ _ _ Et). exact I.
Qed.

Ltac nl := exact I.

Lemma match_one_p lx s0 start r stg : match_one prof lx s0 start = Ok (Produced r stg) -> payload_ok (lr_token r) /\ pstg_ok stg.
Proof.
  unfold match_one. destruct s0 as [|c after]; [discriminate|].
  assert (Hplain : forall (m : lres lex_result), (forall x, m = Ok x -> payload_ok (lr_token x)) ->
             (let* x := m in Ok (Produced x None)) = Ok (Produced r stg) -> payload_ok (lr_token r) /\ pstg_ok stg).
  { intros m Hm. destruct m; cbn [bind]; try discriminate. intro H. injection H as <- <-. split; [apply Hm; reflexivity|exact I]. }
  assert (Hpair : forall (m : lres (lex_result * option token)), (forall a b, m = Ok (a, b) -> payload_ok (lr_token a) /\ pstg_ok b) ->
             (let* x := m in Ok (Produced (fst x) (snd x))) = Ok (Produced r stg) -> payload_ok (lr_token r) /\ pstg_ok stg).
  { intros m Hm. destruct m as [[a b]| | | | |]; cbn [bind]; try discriminate. intro H. injection H as <- <-. apply Hm. reflexivity. }
  assert (Hnum : forall (k : lres step_result),
             (k = Ok (Produced r stg) -> payload_ok (lr_token r) /\ pstg_ok stg) ->
             (let* n := scan_number prof lx (c :: after) start in
              match n with Some x => Ok (Produced (fst x) (snd x)) | None => k end) = Ok (Produced r stg) ->
             payload_ok (lr_token r) /\ pstg_ok stg).
  { intros k Hk. destruct (scan_number prof lx (c :: after) start) as [[[a b]|]| | | | |] eqn:En; cbn [bind]; try discriminate; auto.
    intro H. injection H as <- <-. eapply scan_number_p; eauto. }
  destruct (c =? 10); [apply Hplain; intros x; apply char_token_p; nl|].
  destruct (c =? 46); [apply Hnum; apply Hplain; intros x; apply char_token_p; nl|].
  destruct (c =? 44); [apply Hplain; intros x; apply char_token_p; nl|].
  destruct (c =? 38); [apply Hplain; intros x; apply char_token_p; nl|].
  destruct (c =? 43); [apply Hplain; intros x; apply char_token_p; nl|].
  destruct (c =? 45); [apply Hplain; intros x; apply char_token_p; nl|].
  destruct (c =? 42); [apply Hplain; intros x; apply char_token_p; nl|].
  destruct (c =? 47); [apply Hplain; intros x; apply char_token_p; nl|].
  destruct (c =? 34) eqn:E34.
  { apply N.eqb_eq in E34. apply Hpair. intros a b Hd. split; [eapply string_payload; eauto|eapply scan_delimited_stg; exact Hd]. }
  destruct (c =? 40) eqn:E40.
  { apply N.eqb_eq in E40. apply Hpair. intros a b Hd. split; [eapply comment_payload; eauto|eapply scan_delimited_stg; exact Hd]. }
  destruct (c =? 95); [apply Hplain; intros x; apply make_error_token_p|].
  destruct (c =? 60).
  { destruct after as [|[|p] t]; try (apply Hplain; intros x; apply char_token_p; nl).
    destruct (Pos.eq_dec p 61) as [->|Hne]; [apply Hplain; intros x; apply two_char_token_p; nl|].
    repeat (destruct p as [p|p|]; try (apply Hplain; intros x; apply char_token_p; nl); try (exfalso; apply Hne; reflexivity)). }
  destruct (c =? 62).
  { destruct after as [|[|p] t]; try (apply Hplain; intros x; apply char_token_p; nl).
    destruct (Pos.eq_dec p 61) as [->|Hne]; [apply Hplain; intros x; apply two_char_token_p; nl|].
    repeat (destruct p as [p|p|]; try (apply Hplain; intros x; apply char_token_p; nl); try (exfalso; apply Hne; reflexivity)). }
  destruct (scan_for_text prof lx (c :: after) start (lit "'n'") TApostropheNApostrophe) as [[x|]| | | | |] eqn:Et; cbn [bind]; try discriminate.
  - intro H. injection H as <- <-. split; [|exact I]. eapply scan_for_text_p; [|exact Et]. nl.
  - destruct (is_ignorable_punctuation c || (c =? 39)); [discriminate|].
    destruct (is_numeric c); [apply Hnum; apply Hplain; intros x; apply make_error_token_p|].
    destruct (is_alphabetic c); [|apply Hplain; intros x; apply make_error_token_p].
    destruct (scan_keyword prof lx (c :: after) start) as [[x|]| | | | |] eqn:Ek; cbn [bind]; try discriminate.
    + intro H. injection H as <- <-. split; [|exact I]. eapply scan_keyword_p; eauto.
    + apply Hpair. intros a b. apply scan_word_p.
Qed.

Lemma match_loop_p : forall fuel lx t lx', match_loop prof fuel lx = Ok (Some (t, lx')) -> pstg_ok (staged lx) -> payload_ok t /\ pstg_ok (staged lx').
Proof.
  induction fuel as [|f IH]; intros lx t lx' H Hs; cbn [match_loop] in H; [discriminate|].
  destruct (find_word_start (rest lx) (idx lx)) as [s0 start].
  destruct s0 as [|c after]; [discriminate|].
  destruct (match_one prof lx (c :: after) start) as [st| | | | |] eqn:Em; cbn [bind] in H; try discriminate.
  destruct st as [r stg| |]; try discriminate.
  - destruct (debug_assert prof 50 _); cbn [bind] in H; try discriminate.
    destruct (advance_to after _ (lr_end r)) as [s2 i2]. injection H as <- <-. cbn [staged].
    eapply match_one_p; eauto.
  - apply IH in H; auto.
Qed.

Lemma lex_all_p buflen : forall fuel lx pts, lex_all prof fuel buflen lx = Ok pts -> pstg_ok (staged lx) ->
  Forall (fun pt => payload_ok (pt_tok pt)) pts.
Proof.
  induction fuel as [|f IH]; intros lx pts H Hs; cbn [lex_all] in H; [discriminate|].
  destruct (lexer_next prof (S (length (rest lx))) lx) as [[[t lx']|]| | | | |] eqn:En; cbn [bind] in H; try discriminate.
  - destruct (post_state buflen lx') as [ln lc].
    destruct (lex_all prof f buflen lx') as [ts| | | | |] eqn:El; cbn [bind] in H; try discriminate.
    injection H as <-.
    assert (Ht : payload_ok t /\ pstg_ok (staged lx')).
    { unfold lexer_next in En. destruct (staged lx) as [t2|] eqn:Est.
      - injection En as <- <-. cbn. split; [exact Hs|exact I].
      - eapply match_loop_p; eauto. rewrite Est. exact I. }
    constructor; [exact (proj1 Ht)|]. eapply IH; eauto. exact (proj2 Ht).
  - injection H as <-. constructor.
Qed.

(** ** every literal token of a lexed source denotes exactly its written value *)
Theorem lex_payloads src pts : lex prof src = Ok pts -> Forall (fun pt => payload_ok (pt_tok pt)) pts.
Proof. unfold lex. intro H. eapply lex_all_p; eauto. exact I. Qed.
End L.
