(** The shortest-digits printer produces decimal digits: for every float whose mantissa and exponent are
    in the binary64 range (and well beyond), every digit of [shortest_digits] is between 0 and 9, so the
    printed text of a non-negative finite number consists of the characters 0-9 and the period only.
    The one non-structural ingredient is the printer's estimate of the decimal exponent,
    k = floor (n * 1292913986 / 2^32): that 2^n < 10^(k+1) is checked for every n of the range by
    computation inside Coq (a finite domain, stated in the theorem), everything else is integer arithmetic.
    No axioms, no real numbers. *)
From Coq Require Import List ZArith NArith Bool Lia Floats.SpecFloat.
From RRSS Require Import Base.Outcome Base.Chars Base.F64 Base.F64Text.
Import ListNotations.
Open Scope Z_scope.

(** * digits of an integer *)
Lemma digits2_pos_size p : digits2_pos p = Pos.size p.
Proof. induction p; cbn; congruence. Qed.

Lemma size_gt_Z p : Z.pos p < 2 ^ Z.pos (Pos.size p).
Proof. pose proof (Pos.size_gt p) as H. apply Pos2Z.pos_lt_pos in H. rewrite Pos2Z.inj_pow in H. exact H. Qed.

Lemma size_le_Z p : 2 ^ Z.pos (Pos.size p) <= 2 * Z.pos p.
Proof. pose proof (Pos.size_le p) as H. apply Pos2Z.pos_le_pos in H. rewrite Pos2Z.inj_pow in H. exact H. Qed.

Lemma Zdigits2_gt x : 0 < x -> x < 2 ^ Zdigits2 x.
Proof.
  destruct x as [|p|p]; try lia. intros _. cbn [Zdigits2]. rewrite digits2_pos_size. apply size_gt_Z.
Qed.

Lemma Zdigits2_pos x : 0 < x -> 0 < Zdigits2 x.
Proof. destruct x; try lia. intros _. cbn. lia. Qed.

Lemma Zdigits2_le x b : 0 < x -> 0 <= b -> x < 2 ^ b -> Zdigits2 x <= b.
Proof.
  destruct x as [|p|p]; try lia. intros _ Hb H. cbn [Zdigits2]. rewrite digits2_pos_size.
  pose proof (size_le_Z p) as L.
  destruct (Z_le_gt_dec (Z.pos (Pos.size p)) b) as [|G]; auto. exfalso.
  assert (2 ^ (b + 1) <= 2 ^ Z.pos (Pos.size p)) by (apply Z.pow_le_mono_r; lia).
  rewrite Z.pow_add_r in H0 by lia. lia.
Qed.

(** * the estimate of the decimal exponent, on the whole range, by computation *)
Definition est (n : Z) : Z := Z.shiftr (n * 1292913986) 32.

Definition est_ok (n : Z) : bool :=
  let k := est n in
  if 0 <=? n then (0 <=? k) && (2 ^ n <? 10 ^ (k + 1))
  else (k <? 0) && (10 ^ (- k - 1) <? 2 ^ (- n)).

Definition range_lo : Z := -1300.
Definition range_n : nat := 2500.

Lemma est_range_check : forallb (fun i => est_ok (Z.of_nat i + range_lo)) (seq 0 range_n) = true.
Proof. vm_compute. reflexivity. Qed.

Lemma est_ok_range n : range_lo <= n < range_lo + Z.of_nat range_n -> est_ok n = true.
Proof.
  intro H. pose proof est_range_check as C. rewrite forallb_forall in C.
  specialize (C (Z.to_nat (n - range_lo))). rewrite Z2Nat.id in C by lia.
  replace (n - range_lo + range_lo) with n in C by lia. apply C.
  apply in_seq. unfold range_lo, range_n in *. lia.
Qed.

(** * digit generation *)
Definition dec (l : list Z) : Prop := Forall (fun d => 0 <= d <= 9) l.

Lemma gen_digits_dec : forall fuel incl scale mant minus plus acc,
  0 < scale -> 0 <= mant < 10 * scale -> dec acc ->
  dec (fst (fst (fst (gen_digits fuel incl scale mant minus plus acc)))).
Proof.
  induction fuel as [|f IH]; intros incl scale mant minus plus acc Hs Hm Ha; cbn [gen_digits].
  - cbn [fst]. apply Forall_rev. exact Ha.
  - assert (Hd : 0 <= mant / scale <= 9).
    { split; [apply Z.div_pos; lia|]. assert (mant / scale < 10); [|lia]. apply Z.div_lt_upper_bound; lia. }
    assert (Hr : 0 <= mant mod scale < scale) by (apply Z.mod_pos_bound; lia).
    assert (Ha' : dec (mant / scale :: acc)) by (constructor; auto).
    destruct (lt_incl incl (mant mod scale) minus || lt_incl incl scale (mant mod scale + plus)).
    + cbn [fst]. apply Forall_rev. exact Ha'.
    + apply IH; auto. lia.
Qed.

Lemma inc_rev_dec l : dec l -> dec (fst (inc_rev l)).
Proof.
  induction l as [|d t IH]; cbn; intro H; [constructor|].
  inversion H as [|? ? Hd Ht]; subst.
  destruct (d =? 9) eqn:E.
  - specialize (IH Ht). destruct (inc_rev t) as [t' c]. cbn in *. constructor; auto. lia.
  - apply Z.eqb_neq in E. cbn. constructor; auto. lia.
Qed.

(** * the printer's digits *)
Definition in_range (m : positive) (e : Z) : Prop := Z.pos m < 2 ^ 64 /\ -1200 <= e <= 1100.

Theorem shortest_digits_dec m e : in_range m e -> dec (fst (shortest_digits m e)).
Proof.
  intros [Hm He]. unfold shortest_digits.
  set (d := decode m e).
  assert (Hd : 0 < d_mant d /\ d_mant d <= 4 * Z.pos m /\ 1 <= d_plus d <= 2 /\ e - 2 <= d_exp d <= e - 1).
  { unfold d, decode. destruct (Z.pos (digits2_pos m) <? prec); [cbn; lia|]. destruct (Z.pos m =? 2 ^ 52); cbn; lia. }
  destruct Hd as (Hmant & Hmant4 & Hplus & Hexp).
  set (mant := d_mant d) in *. set (plus := d_plus d) in *. set (exp := d_exp d) in *.
  set (nbits := bit_length (mant + plus - 1)).
  assert (Hnb : 0 < nbits <= 67).
  { assert (E67 : 2 ^ 67 = 8 * 2 ^ 64) by reflexivity.
    unfold nbits, bit_length. split; [apply Zdigits2_pos; lia|]. apply Zdigits2_le; lia. }
  assert (Hhigh : mant + plus <= 2 ^ nbits).
  { unfold nbits, bit_length. pose proof (Zdigits2_gt (mant + plus - 1)). lia. }
  set (n := nbits + exp).
  assert (Hest : est_ok n = true) by (apply est_ok_range; unfold range_lo, range_n, n; lia).
  fold (est n). set (k0 := est n) in *.
  set (scale0 := if exp <? 0 then 2 ^ (- exp) else 1).
  set (sh := if exp <? 0 then 1 else 2 ^ exp).
  set (scale := if 0 <=? k0 then scale0 * 10 ^ k0 else scale0).
  set (mu := if 0 <=? k0 then 1 else 10 ^ (- k0)).
  assert (Hs0 : 0 < scale0).
  { unfold scale0. destruct (exp <? 0) eqn:E; [|lia]. apply Z.ltb_lt in E. apply Z.pow_pos_nonneg; lia. }
  assert (Hsh : 0 < sh) by (unfold sh; destruct (exp <? 0) eqn:E; [lia|apply Z.ltb_ge in E; apply Z.pow_pos_nonneg; lia]).
  assert (Hs : 0 < scale).
  { unfold scale. destruct (0 <=? k0) eqn:E; auto. apply Z.leb_le in E. apply Z.mul_pos_pos; auto. apply Z.pow_pos_nonneg; lia. }
  assert (Hmu : 0 < mu) by (unfold mu; destruct (0 <=? k0) eqn:E; [lia|apply Z.leb_gt in E; apply Z.pow_pos_nonneg; lia]).
  (* the estimate: the scaled upper end of the interval is below ten times the scale *)
  assert (Hten : 2 ^ nbits * sh * mu < 10 * scale).
  { unfold est_ok in Hest. fold k0 in Hest. unfold scale, mu, scale0, sh.
    destruct (0 <=? n) eqn:En.
    - apply andb_true_iff in Hest as [Hk Hp]. rewrite Hk. apply Z.leb_le in Hk, En. apply Z.ltb_lt in Hp.
      rewrite Z.pow_add_r in Hp by lia. change (10 ^ 1) with 10 in Hp.
      destruct (exp <? 0) eqn:E.
      + apply Z.ltb_lt in E. assert (2 ^ nbits = 2 ^ n * 2 ^ (- exp)).
        { rewrite <- Z.pow_add_r by lia. f_equal. unfold n. lia. }
        rewrite H. assert (0 < 2 ^ (- exp)) by (apply Z.pow_pos_nonneg; lia). nia.
      + apply Z.ltb_ge in E. assert (2 ^ nbits * 2 ^ exp = 2 ^ n) by (rewrite <- Z.pow_add_r by lia; reflexivity).
        nia.
    - apply andb_true_iff in Hest as [Hk Hp]. apply Z.ltb_lt in Hk, Hp. apply Z.leb_gt in En.
      assert (E0 : (0 <=? k0) = false) by (apply Z.leb_gt; lia). rewrite E0.
      assert (E : (exp <? 0) = true) by (apply Z.ltb_lt; unfold n in En; lia). rewrite E.
      assert (10 ^ (- k0) = 10 * 10 ^ (- k0 - 1)).
      { replace (- k0) with (1 + (- k0 - 1)) at 1 by lia. rewrite Z.pow_add_r by lia. reflexivity. }
      assert (2 ^ (- exp) = 2 ^ nbits * 2 ^ (- n)).
      { rewrite <- Z.pow_add_r by lia. f_equal. unfold n. lia. }
      rewrite H, H0. assert (0 < 2 ^ nbits) by (apply Z.pow_pos_nonneg; lia).
      assert (0 <= 10 ^ (- k0 - 1)) by (apply Z.pow_nonneg; lia). nia. }
  set (M := mant * sh * mu). set (P := plus * sh * mu). set (Mi := d_minus d * sh * mu).
  assert (HM : 0 <= M) by (unfold M; nia).
  assert (HP : 0 < P) by (unfold P; nia).
  assert (HMP : M + P <= 2 ^ nbits * sh * mu) by (unfold M, P; nia).
  set (fix_ := lt_incl (d_incl d) scale (M + P)).
  set (mu2 := if fix_ then 1 else 10).
  assert (Hfirst : 0 <= M * mu2 < 10 * scale).
  { unfold mu2. destruct fix_ eqn:Ef; [lia|].
    unfold fix_, lt_incl in Ef. destruct (d_incl d); [apply Z.leb_gt in Ef|apply Z.ltb_ge in Ef]; lia. }
  pose proof (gen_digits_dec 40 (d_incl d) scale (M * mu2) (Mi * mu2) (P * mu2) [] Hs Hfirst (Forall_nil _)) as G.
  destruct (gen_digits 40 (d_incl d) scale (M * mu2) (Mi * mu2) (P * mu2) []) as [[[digs rem] down] up]. cbn [fst] in G.
  destruct (up && (negb down || (scale <=? rem * 2))); [|exact G].
  assert (Hr : dec (rev digs)) by (apply Forall_rev; exact G).
  pose proof (inc_rev_dec _ Hr) as I. destruct (inc_rev (rev digs)) as [r carry]. cbn [fst] in I.
  destruct carry; cbn [fst].
  - constructor; [lia|]. apply Forall_rev. exact I.
  - apply Forall_rev. exact I.
Qed.

(** * the printed text *)
Close Scope Z_scope.
Open Scope N_scope.

Definition decimal_char (c : char) : bool := (c =? 46) || ((48 <=? c) && (c <=? 57)).

Lemma digit_char_dec d : (0 <= d <= 9)%Z -> decimal_char (digit_char d) = true.
Proof.
  intro H. unfold decimal_char, digit_char. apply orb_true_iff. right. apply andb_true_iff. split; apply N.leb_le.
  - change 48 with (Z.to_N 48). apply Z2N.inj_le; lia.
  - change 57 with (Z.to_N 57). apply Z2N.inj_le; lia.
Qed.

Lemma zeros_dec n : forallb decimal_char (zeros n) = true.
Proof. induction n; cbn; auto. Qed.

Lemma forallb_firstn' {A} (f : A -> bool) n : forall l, forallb f l = true -> forallb f (firstn n l) = true.
Proof.
  induction n as [|n IH]; intros l H; [reflexivity|]. destruct l as [|x t]; [reflexivity|].
  cbn in *. apply andb_true_iff in H as [H1 H2]. rewrite H1. cbn. apply IH. exact H2.
Qed.
Lemma forallb_skipn' {A} (f : A -> bool) n : forall l, forallb f l = true -> forallb f (skipn n l) = true.
Proof.
  induction n as [|n IH]; intros l H; [exact H|]. destruct l as [|x t]; [reflexivity|].
  cbn in *. apply andb_true_iff in H as [H1 H2]. apply IH. exact H2.
Qed.

Lemma layout_dec digs k : dec digs -> forallb decimal_char (layout digs k) = true.
Proof.
  intro H. unfold layout.
  assert (Hd : forallb decimal_char (map digit_char digs) = true).
  { induction H as [|d t Hd Ht IH]; cbn [map forallb]; auto. rewrite digit_char_dec by exact Hd. exact IH. }
  destruct (k <=? 0)%Z.
  - cbn [app forallb]. rewrite forallb_app, zeros_dec, Hd. reflexivity.
  - destruct (Z.of_nat (length (map digit_char digs)) <=? k)%Z.
    + rewrite forallb_app, Hd, zeros_dec. reflexivity.
    + rewrite !forallb_app. rewrite forallb_firstn', forallb_skipn' by exact Hd. reflexivity.
Qed.

(** floats in (and well beyond) the binary64 range *)
Definition f_in_range (v : f64) : Prop :=
  match v with S754_finite _ m e => in_range m e | _ => True end.

(** ** the text of a non-negative finite number consists of decimal digits and the period *)
Theorem display_decimal v :
  f_in_range v -> match v with S754_zero false | S754_finite false _ _ => True | _ => False end ->
  forallb decimal_char (f64_display v) = true.
Proof.
  destruct v as [s|s| |s m e]; cbn [f_in_range f64_display]; try contradiction.
  - destruct s; [contradiction|]. reflexivity.
  - intros Hr Hs. destruct s; [contradiction|].
    pose proof (shortest_digits_dec m e Hr) as H. destruct (shortest_digits m e) as [digs k]. cbn [fst app] in *.
    apply layout_dec. exact H.
Qed.

(** every binary64 value is in the range: 53-bit mantissa, exponent between -1074 and 971 *)
Lemma bounded_in_range m e : bounded prec emax m e = true -> in_range m e.
Proof.
  unfold bounded, canonical_mantissa, fexp, emin, in_range. intro H. apply andb_true_iff in H as [H1 H2].
  apply Zeq_bool_eq in H1. apply Z.leb_le in H2. unfold prec, emax in *.
  split; [|lia].
  assert (Hd : (Z.pos (digits2_pos m) <= 53)%Z) by lia.
  rewrite digits2_pos_size in Hd. pose proof (size_gt_Z m) as G.
  assert ((2 ^ Z.pos (Pos.size m) <= 2 ^ 64)%Z) by (apply Z.pow_le_mono_r; lia). lia.
Qed.
