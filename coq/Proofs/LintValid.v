(** Joining the digit bound to the linter: number literals come from [f64_parse], whose results are binary64
    data; the constant folder computes with operations that keep binary64 data ([Proofs/FloatValid.v]); for
    such data the printer's digits are decimal ([Proofs/DigitBound.v]); so for every syntax tree whose number
    literals are binary64 data the linter returns its diagnostics: no underflow site, no size budget.
    Uses Flocq (through FloatValid), hence the classical-reals axioms. *)
From Coq Require Import List ZArith NArith Bool Lia Floats.SpecFloat.
From Flocq Require Import Core.Zaux Core.Raux Core.Defs Core.Generic_fmt Core.FLT Core.FLX IEEE754.BinarySingleNaN.
From RRSS Require Import Base.Outcome Base.Chars Base.F64 Base.F64Text Exec.Ops Front.Ast Analysis.Fold Lint.Lint.
From RRSS Require Import Proofs.AstInd Proofs.FloatExact Proofs.FloatValid Proofs.DigitBound Proofs.DigitLaws Proofs.FoldLaws.
Import ListNotations.

Local Instance Hprec : FLX.Prec_gt_0 prec := eq_refl _.
Local Instance Hmax : Prec_lt_emax prec emax := eq_refl _.

Lemma fvalid_in_range v : fvalid v -> f_in_range v.
Proof. destruct v as [s|s| |s m e]; cbn; auto. unfold fvalid. cbn. apply bounded_in_range. Qed.

(** * number literals: what [f64_parse] returns is binary64 data *)
Lemma resign_valid neg v : fvalid v ->
  fvalid match v with
         | S754_finite _ mm ee => S754_finite neg mm ee
         | S754_infinity _ => S754_infinity neg
         | S754_zero _ => S754_zero neg
         | S754_nan => S754_nan
         end.
Proof. destruct v; cbn; auto. Qed.

Lemma parse_dec_valid neg m e10 : (0 <= m)%Z -> fvalid (parse_dec neg m e10).
Proof.
  intro Hm. unfold parse_dec. destruct m as [|p|p]; [reflexivity| |exfalso; lia].
  destruct (0 <=? e10)%Z eqn:Ee.
  - apply resign_valid. rewrite binary_normalize_equiv. apply fvalid_B.
  - apply Z.leb_gt in Ee. assert (Hp : (0 < 10 ^ (- e10))%Z) by (apply Z.pow_pos_nonneg; lia).
    destruct (10 ^ (- e10))%Z as [|q|q] eqn:E; try lia.
    pose proof (Bdiv_correct_aux prec emax Hprec Hmax mode_NE neg p 0 false q 0) as H. cbn zeta in H.
    destruct (SFdiv_core_binary prec emax (Z.pos p) 0 (Z.pos q) 0) as [[mz ez] lz].
    destruct H as [H _]. rewrite xorb_false_r in H. unfold fvalid. rewrite binary_round_aux_equiv. exact H.
Qed.

Lemma take_digits_nonneg s : forall acc n, (0 <= acc)%Z -> (0 <= fst (fst (take_digits s acc n)))%Z.
Proof.
  induction s as [|c t IH]; intros acc n H; cbn [take_digits]; auto.
  destruct (is_ascii_digit c) eqn:E; [|exact H]. apply IH.
  unfold is_ascii_digit in E. apply andb_true_iff in E as [E1 E2]. apply N.leb_le in E1. lia.
Qed.

Theorem f64_parse_valid s v : f64_parse s = Some v -> fvalid v.
Proof.
  unfold f64_parse. destruct s as [|c t]; [discriminate|]. cbv zeta.
  remember (if (c =? 45)%N || (c =? 43)%N then t else c :: t) as body eqn:Ebody. set (neg := (c =? 45)%N).
  destruct body as [|b0 bt]; [discriminate|].
  assert (Hinf : forall x, parse_inf_nan neg (b0 :: bt) = Some x -> fvalid x).
  { intros x. unfold parse_inf_nan.
    match goal with |- (if ?c then _ else _) = _ -> _ => destruct c end; [intro H; injection H as <-; reflexivity|].
    match goal with |- (if ?c then _ else _) = _ -> _ => destruct c end; [intro H; injection H as <-; reflexivity|discriminate]. }
  destruct (parse_number neg (b0 :: bt)) as [x|] eqn:Ep; [|apply Hinf].
  intro H. injection H as <-. revert Ep. unfold parse_number.
  pose proof (take_digits_nonneg (b0 :: bt) 0 0 (Z.le_refl 0)) as H1.
  destruct (take_digits (b0 :: bt) 0 0) as [[m1 n1] s1]. cbn [fst] in H1.
  assert (H2 : forall m2 n2 s2, (match s1 with 46%N :: t0 => take_digits t0 m1 0 | _ => (m1, 0%Z, s1) end) = (m2, n2, s2) -> (0 <= m2)%Z).
  { intros m2 n2 s2 E. destruct s1 as [|c1 t1]; [injection E as <- _ _; exact H1|].
    destruct c1 as [|pc]; [injection E as <- _ _; exact H1|].
    destruct (Pos.eq_dec pc 46) as [->|Hne].
    - pose proof (take_digits_nonneg t1 m1 0 H1) as G. rewrite E in G. exact G.
    - assert (m2 = m1); [|subst; exact H1].
      repeat (destruct pc as [pc|pc|]; try (injection E as <- _ _; reflexivity); try (exfalso; apply Hne; reflexivity)). }
  destruct (match s1 with 46%N :: t0 => take_digits t0 m1 0 | _ => (m1, 0%Z, s1) end) as [[m2 n2] s2] eqn:E2.
  specialize (H2 _ _ _ eq_refl).
  destruct (n1 + n2 =? 0)%Z; [discriminate|].
  match goal with |- match ?ep with _ => _ end = _ -> _ => destruct ep as [[ev rest]|] end; [|discriminate].
  destruct rest; [|discriminate].
  destruct (m2 =? 0)%Z; [intro H; injection H as <-; reflexivity|].
  destruct (310 <? _)%Z; [intro H; injection H as <-; reflexivity|].
  destruct (_ <? -330)%Z; [intro H; injection H as <-; reflexivity|].
  intro H. injection H as <-. apply parse_dec_valid. exact H2.
Qed.

(** * the folder *)
Inductive lv_expr : expr -> Prop :=
  | lv_num x r : fvalid x -> lv_expr (EPrimary (PLit (LNumber x) r))
  | lv_other p : (forall x r, p <> PLit (LNumber x) r) -> lv_expr (EPrimary p)
  | lv_bin o l f rest : lv_expr l -> lv_expr f -> Forall lv_expr rest -> lv_expr (EBinary o l f rest)
  | lv_un o x : lv_expr x -> lv_expr (EUnary o x).

Lemma arith_op_valid o g a b : arith_op o = Some g -> fvalid a -> fvalid b -> fvalid (g a b).
Proof.
  destruct o; cbn; intro H; inversion H; subst; auto using fadd_valid, fsub_valid, fmul_valid, fdiv_valid.
Qed.

Lemma fold_list_valid g o : arith_op o = Some g ->
  forall xs, Forall (fun x => forall c, fold_num x = Ok c -> fvalid c) xs ->
  forall acc c, fvalid acc -> fold_list g xs acc = Ok c -> fvalid c.
Proof.
  intros Hg xs H. induction H as [|x t Hx _ IH]; intros acc c Ha E; cbn in E.
  - injection E as <-. exact Ha.
  - destruct (fold_num x) as [v| | | | |] eqn:Ex; cbn in E; try discriminate.
    eapply IH; [|exact E]. eapply arith_op_valid; eauto.
Qed.

Theorem fold_num_valid : forall e, lv_expr e -> forall c, fold_num e = Ok c -> fvalid c.
Proof.
  fix IH 2. intros e H. destruct H as [x r Hx|p Hp|o l f rest Hl Hf Hrest|o x Hx]; intros c E.
  - cbn in E. injection E as <-. exact Hx.
  - destruct p as [[]| | | |]; cbn in E; try discriminate. exfalso. eapply Hp; reflexivity.
  - rewrite fold_num_binary in E.
    destruct (fold_num l) as [lv| | | | |] eqn:El; cbn [bind] in E; try discriminate.
    destruct (arith_op o) as [g|] eqn:Eo; try discriminate.
    eapply (fold_list_valid g o Eo (f :: rest)); [|exact (IH l Hl lv El)|exact E].
    constructor; [apply IH; exact Hf|].
    clear E. induction Hrest as [|y t Hy _ IHt]; constructor; [apply IH; exact Hy|exact IHt].
  - destruct o; cbn in E.
    + destruct (fold_num x) as [v| | | | |] eqn:Ex; cbn in E; try discriminate. injection E as <-.
      apply fneg_valid. eapply IH; eauto.
    + destruct (fold_num x); cbn in E; discriminate.
Qed.

(** * the boring-assignment pass on trees with binary64 literals *)
Definition is_ok {A} (r : res unit A) : Prop := exists a, r = Ok a.

Lemma ok_bind {A B} (m : res unit A) (f : A -> res unit B) : is_ok m -> (forall a, is_ok (f a)) -> is_ok (bind m f).
Proof. intros [a ->] H. cbn. apply H. Qed.

Inductive lv_stmt : stmt -> Prop :=
  | lvs_assign d f rest op : lv_expr f -> lv_stmt (SAssign d f rest op)
  | lvs_pn d e : lv_expr e -> lv_stmt (SPoeticNum d (PNExpr e))
  | lvs_pnl d el : lv_stmt (SPoeticNum d (PNLit el))
  | lvs_push a f rest : lv_expr f -> lv_stmt (SPush a (Some (PushList f rest)))
  | lvs_push_lit a el : lv_stmt (SPush a (Some (PushLit el)))
  | lvs_push_none a : lv_stmt (SPush a None)
  | lvs_if c t e : lv_block t -> (forall b, e = Some b -> lv_block b) -> lv_stmt (SIf c t e)
  | lvs_while c b : lv_block b -> lv_stmt (SWhile c b)
  | lvs_until c b : lv_block b -> lv_stmt (SUntil c b)
  | lvs_function n r ps b : lv_block b -> lv_stmt (SFunction n r ps b)
  | lvs_pstr d s : lv_stmt (SPoeticStr d s)
  | lvs_inc i r k : lv_stmt (SInc i r k)
  | lvs_dec i r k : lv_stmt (SDec i r k)
  | lvs_input d l : lv_stmt (SInput d l)
  | lvs_output e : lv_stmt (SOutput e)
  | lvs_mutation o p d x : lv_stmt (SMutation o p d x)
  | lvs_rounding d e : lv_stmt (SRounding d e)
  | lvs_continue r : lv_stmt (SContinue r)
  | lvs_break r : lv_stmt (SBreak r)
  | lvs_pop a d : lv_stmt (SPop a d)
  | lvs_return e : lv_stmt (SReturn e)
  | lvs_call n r args : lv_stmt (SCall n r args)
with lv_block : block -> Prop :=
  | lvb_empty l : lv_block (BEmpty l)
  | lvb_ne ss : Forall lv_stmt ss -> lv_block (BNonEmpty ss).

Lemma numeric_diag_valid pre sep var v ln : fvalid v -> is_ok (numeric_diag pre sep var v ln).
Proof. intro H. apply numeric_diag_ok. apply fvalid_in_range. exact H. Qed.

Lemma boring_ok : (forall s, lv_stmt s -> is_ok (boring_stmt s)) /\ (forall b, lv_block b -> is_ok (boring_block b)).
Proof.
  apply stmt_block_ind; intros; try (cbn; eexists; reflexivity).
  - (* SAssign *) cbn [boring_stmt]. destruct op; [eexists; reflexivity|].
    inversion H as [d' f' rest' op' Hf| | | | | | | | | | | | | | | | | | | | |]; subst.
    unfold fold_num_list, fold_str_list. destruct rest.
    + destruct (fold_num f) as [x|[]| | | |] eqn:E; try (eexists; reflexivity).
      * apply numeric_diag_valid. eapply fold_num_valid; eauto.
      * destruct (fold_str f); eexists; reflexivity.
    + eexists; reflexivity.
  - (* SPoeticNum *) cbn [boring_stmt]. destruct rhs as [e|el]; [|eexists; reflexivity].
    inversion H as [|d' e' He| | | | | | | | | | | | | | | | | | | |]; subst.
    destruct (fold_num e) as [x|[]| | | |] eqn:E; try (eexists; reflexivity).
    + apply numeric_diag_valid. eapply fold_num_valid; eauto.
    + destruct (fold_str e); eexists; reflexivity.
  - (* SIf *) cbn [boring_stmt]. inversion H1 as [| | | | | |c' t' e' Ht He| | | | | | | | | | | | | | |]; subst.
    apply ok_bind; [auto|]. intros a.
    apply ok_bind; [|intros; eexists; reflexivity]. destruct e as [b|]; [|eexists; reflexivity]. apply (H0 b eq_refl). auto.
  - cbn [boring_stmt]. inversion H0; subst. auto.
  - cbn [boring_stmt]. inversion H0; subst. auto.
  - (* SPush *) cbn [boring_stmt]. destruct v as [[f rest|el]|]; try (eexists; reflexivity).
    inversion H as [| | |a' f' rest' Hf| | | | | | | | | | | | | | | | | |]; subst.
    unfold fold_num_list. destruct rest; [|eexists; reflexivity].
    destruct (fold_num f) eqn:E; try (eexists; reflexivity). apply numeric_diag_valid. eapply fold_num_valid; eauto.
  - cbn [boring_stmt]. inversion H0; subst. auto.
  - (* block *) cbn [boring_block]. inversion H0 as [|ss' Hss]; subst.
    induction H as [|x t Hx Ht IH]; [eexists; reflexivity|].
    inversion Hss; subst.
    apply ok_bind; [auto|]. intros a. apply ok_bind; [apply IH; auto; constructor; auto|]. intros; eexists; reflexivity.
Qed.

Lemma boring_program_ok p : Forall lv_block p -> is_ok (boring_program p).
Proof.
  induction 1 as [|b t Hb _ IH]; cbn [boring_program]; [eexists; reflexivity|].
  apply ok_bind; [apply (proj2 boring_ok); auto|]. intros a. apply ok_bind; [exact IH|]. intros; eexists; reflexivity.
Qed.

(** ** C19: for every syntax tree whose number literals are binary64 data, the linter returns its diagnostics *)
Theorem lint_ok p : Forall lv_block p -> exists ds, lint p = Ok ds.
Proof. intro H. unfold lint. apply ok_bind; [apply boring_program_ok; auto|]. intros; eexists; reflexivity. Qed.
