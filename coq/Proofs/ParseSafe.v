(** C01 (parser half) and C13: over a well-formed token list (what the lexer produces) the parser
    never reaches a panic or unchecked site, every error it reports can be rendered and is located
    at a token of the input or at the line where the token list ends. *)
From Coq Require Import List ZArith NArith Bool Lia Sorting.Sorted.
From RRSS Require Import Base.Outcome Base.Chars Base.F64 Base.F64Text Exec.Ops Front.Ast Front.Token Front.Lexer Front.Parser.
From RRSS Require Import Front.ParseErrorText.
From RRSS Require Import Proofs.LexBasics Proofs.LexPos Proofs.LexSpec Proofs.LexStream Proofs.LexCorollaries.
Import ListNotations.
Open Scope N_scope.

Section Safe.
Variable prof : profile.
Variable buf : str.
Variable all : list ptoken.

(** what the parser relies on: the tokens are slices of the buffer, in order *)
Definition TI (l : list ptoken) : Prop :=
  StronglySorted tok_before (map pt_tok l) /\ Forall (fun pt => tok_in buf (pt_tok pt)) l.

Hypothesis all_ok : TI all.

Definition line_after (consumed : list ptoken) : N :=
  match rev consumed with [] => 1 | pt :: _ => pt_line pt end.

(** the parser state is a position in [all] *)
Definition SI (s : pstate) : Prop :=
  exists p, all = p ++ toks s /\ pline s = line_after p.

Definition render_ok (e : parse_error) : Prop :=
  match pe_code e with
  | PExpectedOneOfTokens ts => ts <> []
  | PUnexpectedToken => match pe_loc e with PLTok _ => True | PLLine _ => False end
  | PMutationOperandMustBeIdentifier p => match p with PIdent _ _ => False | _ => True end
  | _ => True
  end.

Definition loc_ok (e : parse_error) : Prop :=
  match pe_loc e with
  | PLTok t => In t (map pt_tok all)
  | PLLine n => n = line_after all
  end.

Definition err_ok (e : parse_error) : Prop := render_ok e /\ loc_ok e.

Definition okres {A} (Q : A -> Prop) (r : pres (A * pstate)) : Prop :=
  match r with
  | Ok (x, s') => SI s' /\ Q x
  | Err e => err_ok e
  | Panic _ | UB _ => False
  | OutOfFuel | OverBudget => True
  end.

Definition any {A} (_ : A) : Prop := True.

Definition SafeP {A} (Q : A -> Prop) (p : P A) : Prop := forall s, SI s -> okres Q (p s).

Lemma okres_bind {A B} (Q : A -> Prop) (R : B -> Prop) (m : pres (A * pstate)) (f : A * pstate -> pres (B * pstate)) :
  okres Q m -> (forall x s', SI s' -> Q x -> okres R (f (x, s'))) -> okres R (bind m f).
Proof.
  intros Hm Hf. destruct m as [[x s']| | | | |]; cbn [bind okres] in *; auto. destruct Hm. auto.
Qed.

Lemma okres_weaken {A} (Q R : A -> Prop) r : (forall x, Q x -> R x) -> okres Q r -> okres R r.
Proof. intros H. destruct r as [[x s']| | | | |]; cbn; auto. intros [A1 A2]. auto. Qed.

(** pure results (no state): [let* x := m in ...] where m does not touch the state *)
Definition okpure {A} (Q : A -> Prop) (r : pres A) : Prop :=
  match r with
  | Ok x => Q x
  | Err e => err_ok e
  | Panic _ | UB _ => False
  | OutOfFuel | OverBudget => True
  end.

Lemma okres_bind_pure {A B} (Q : A -> Prop) (R : B -> Prop) (m : pres A) (f : A -> pres (B * pstate)) :
  okpure Q m -> (forall x, Q x -> okres R (f x)) -> okres R (bind m f).
Proof. intros Hm Hf. destruct m; cbn [bind okpure okres] in *; auto. Qed.

(** * Moving through the token list *)
Lemma SI_advance s t s' : SI s -> advance s = Some (t, s') ->
  SI s' /\ exists pt, toks s = pt :: toks s' /\ pt_tok pt = t.
Proof.
  intros (p & Hp & Hl) H. unfold advance in H. destruct (toks s) as [|pt rest_] eqn:E; [discriminate|].
  injection H as Ht Hs'. subst t s'. cbn [toks]. split.
  - exists (p ++ [pt]). split.
    + rewrite <- app_assoc. exact Hp.
    + cbn [pline]. unfold line_after. rewrite rev_app_distr. reflexivity.
  - exists pt. auto.
Qed.

Lemma SI_mac m s t s' : SI s -> match_and_consume m s = Some (t, s') ->
  SI s' /\ m t = true /\ current s = Some t /\ exists pt, toks s = pt :: toks s' /\ pt_tok pt = t.
Proof.
  intros HS H. unfold match_and_consume in H. destruct (current s) as [t0|] eqn:Ec; [|discriminate].
  destruct (m t0) eqn:Em; [|discriminate].
  destruct (SI_advance s t s' HS H) as (A & pt & B & Cc).
  assert (t0 = t). { unfold current in Ec. rewrite B in Ec. inversion Ec. congruence. }
  subst t0. repeat split; auto. exists pt. auto.
Qed.

Lemma SI_skip_opt m s : SI s -> SI (skip_opt m s).
Proof.
  intro HS. unfold skip_opt. destruct (match_and_consume m s) as [[t s']|] eqn:E; auto.
  apply (SI_mac m s t s' HS E).
Qed.

Lemma SI_flag s b : SI s -> SI (mkPS (toks s) (pline s) (ploc s) b).
Proof. intros (p & A & B). exists p. auto. Qed.

Lemma current_in s t : SI s -> current s = Some t -> In t (map pt_tok all) /\ tok_in buf t.
Proof.
  intros (p & Hp & _) Hc. unfold current in Hc. destruct (toks s) as [|pt r] eqn:E; [discriminate|].
  injection Hc as Ht. subst t. split.
  - rewrite Hp, map_app. apply in_or_app. right. left. reflexivity.
  - destruct all_ok as [_ F]. rewrite Forall_forall in F. apply F. rewrite Hp. apply in_or_app. right. left. reflexivity.
Qed.

Lemma current_none s : SI s -> current s = None -> pline s = line_after all.
Proof.
  intros (p & Hp & Hl) Hc. unfold current in Hc. destruct (toks s) eqn:E; [|discriminate].
  rewrite app_nil_r in Hp. subst p. exact Hl.
Qed.

(** an error raised at state [s] is well located *)
Lemma fail_ok {A} (Q : A -> Prop) s c :
  SI s ->
  match c with
  | PExpectedOneOfTokens ts => ts <> []
  | PUnexpectedToken => current s <> None
  | PMutationOperandMustBeIdentifier p => match p with PIdent _ _ => False | _ => True end
  | _ => True
  end ->
  okres Q (@fail (A * pstate) s c).
Proof.
  intros HS Hc. unfold fail, new_error. cbn [okres]. split.
  - unfold render_ok. cbn [pe_code pe_loc]. destruct c; auto.
    destruct (current s); auto.
  - unfold loc_ok. cbn [pe_loc]. destruct (current s) as [t|] eqn:E.
    + apply (current_in s t HS E).
    + apply current_none; auto.
Qed.

Lemma ok_ok {A} (Q : A -> Prop) x s : SI s -> Q x -> okres Q (Ok (x, s)).
Proof. intros. cbn. auto. Qed.

(** * Basic token expectations *)
Lemma consume_ok m s t : SI s -> current s = Some t -> m t = true ->
  okres (fun t' => t' = t) (consume prof m s).
Proof.
  intros HS Hc Hm. unfold consume. unfold current in Hc.
  destruct (toks s) as [|pt r] eqn:E; [discriminate|]. injection Hc as Ht. subst t.
  unfold advance. rewrite E. rewrite Hm. rewrite debug_assert_true. cbn [bind okres]. split; auto.
  assert (Ha : advance s = Some (pt_tok pt, mkPS r (pt_line pt) (pt_loc pt) (plist s))) by (unfold advance; rewrite E; reflexivity).
  apply (SI_advance _ _ _ HS Ha).
Qed.

Lemma expect_token_ok id : SafeP (fun t => tid t = tid t /\ ttype_eqb id (tid t) = true) (expect_token id).
Proof.
  intros s HS. unfold expect_token. destruct (match_and_consume (is_id id) s) as [[t s']|] eqn:E.
  - destruct (SI_mac _ _ _ _ HS E) as (A & B & _). apply ok_ok; auto.
  - apply fail_ok; auto.
Qed.

Lemma expect_any_ok ids : ids <> [] -> SafeP (fun t => is_one_of ids t = true) (expect_any ids).
Proof.
  intros Hne s HS. unfold expect_any. destruct (match_and_consume (is_one_of ids) s) as [[t s']|] eqn:E.
  - destruct (SI_mac _ _ _ _ HS E) as (A & B & _). apply ok_ok; auto.
  - apply fail_ok; auto.
Qed.

Lemma is_ispelled_ok text t : forallb is_lowercase text = true -> okpure any (is_ispelled text t).
Proof. intro H. unfold is_ispelled. rewrite H. exact I. Qed.

Lemma expect_token_ispelled_ok text : forallb is_lowercase text = true -> SafeP any (expect_token_ispelled text).
Proof.
  intros Hl s HS. unfold expect_token_ispelled. destruct (current s) as [t|] eqn:Ec.
  - unfold is_ispelled. rewrite Hl. cbn [bind].
    destruct (str_eqb (str_to_lowercase (tspell t)) text).
    + destruct (advance s) as [[t' s']|] eqn:Ea.
      * apply ok_ok; [apply (SI_advance _ _ _ HS Ea)|exact I].
      * apply fail_ok; auto.
    + apply fail_ok; auto.
  - apply fail_ok; auto.
Qed.

Lemma expect_token_or_end_ok id : SafeP any (expect_token_or_end id).
Proof.
  intros s HS. unfold expect_token_or_end. destruct (current s) as [t|] eqn:Ec.
  - destruct (ttype_eqb (tid t) id).
    + destruct (advance s) as [[t' s']|] eqn:Ea.
      * apply ok_ok; [apply (SI_advance _ _ _ HS Ea)|exact I].
      * apply ok_ok; auto. exact I.
    + apply fail_ok; auto.
  - apply ok_ok; auto. exact I.
Qed.

Lemma expect_eol_ok : SafeP any expect_eol.
Proof.
  intros s HS. unfold expect_eol.
  eapply okres_bind; [apply expect_token_or_end_ok; apply SI_skip_opt; exact HS|].
  intros x s' HS' _. apply ok_ok; auto. exact I.
Qed.

(** * Identifiers *)
Lemma advance_in s t s' : SI s -> advance s = Some (t, s') -> In t (map pt_tok all) /\ tok_in buf t.
Proof.
  intros HS Ha. destruct (SI_advance _ _ _ HS Ha) as (_ & pt & E & Et).
  apply (current_in s); auto. unfold current. rewrite E, Et. reflexivity.
Qed.

Lemma parse_common_identifier_ok : SafeP any parse_common_identifier.
Proof.
  intros s HS. unfold parse_common_identifier.
  destruct (match_and_consume (is_id TCommonVariablePrefix) s) as [[p s1]|] eqn:E1.
  - destruct (SI_mac _ _ _ _ HS E1) as (S1 & _).
    destruct (match_and_consume (fun t => is_word (tspell t)) s1) as [[w s2]|] eqn:E2.
    + destruct (SI_mac _ _ _ _ S1 E2) as (S2 & _). apply ok_ok; auto. exact I.
    + apply fail_ok; auto.
  - apply ok_ok; auto. exact I.
Qed.

Lemma is_capitalized_word_ok t : tok_in buf t -> okpure any (is_capitalized_word t).
Proof.
  intros (a & b & _ & _ & Hne). unfold is_capitalized_word. destruct (tid t); try exact I.
  destruct (tspell t); [contradiction|exact I].
Qed.

Lemma capitalized_words_ok : forall fuel s names acc,
  SI s -> (names <> [] -> acc <> None) ->
  okres (fun r => fst r <> [] -> snd r <> None) (capitalized_words fuel s names acc).
Proof.
  induction fuel as [|f IH]; intros s names acc HS Hinv; cbn [capitalized_words]; [exact I|].
  destruct (current s) as [t|] eqn:Ec.
  - destruct (current_in s t HS Ec) as [_ Hin].
    eapply okres_bind_pure; [apply is_capitalized_word_ok; exact Hin|]. intros b _.
    destruct b.
    + destruct (advance s) as [[t' s']|] eqn:Ea.
      * apply IH; [apply (SI_advance _ _ _ HS Ea)|]. intros _. discriminate.
      * apply ok_ok; auto.
    + apply ok_ok; auto.
  - apply ok_ok; auto.
Qed.

Lemma parse_capitalized_identifier_ok : SafeP any (parse_capitalized_identifier prof).
Proof.
  intros s HS. unfold parse_capitalized_identifier.
  eapply okres_bind; [apply capitalized_words_ok; [exact HS|intro H; contradiction]|].
  intros [names acc] s' HS' Hq. cbn [fst snd] in Hq.
  destruct names as [|n [|n2 rest_]].
  - apply ok_ok; auto. exact I.
  - destruct acc; [apply ok_ok; auto; exact I|]. exfalso. apply Hq; [discriminate|reflexivity].
  - destruct acc; [apply ok_ok; auto; exact I|]. exfalso. apply Hq; [discriminate|reflexivity].
Qed.

Lemma parse_variable_name_ok : SafeP any (parse_variable_name prof).
Proof.
  intros s HS. unfold parse_variable_name.
  eapply okres_bind; [apply parse_common_identifier_ok; exact HS|]. intros c s1 S1 _.
  destruct c; [apply ok_ok; auto; exact I|].
  eapply okres_bind; [apply parse_capitalized_identifier_ok; exact S1|]. intros k s2 S2 _.
  destruct k; [apply ok_ok; auto; exact I|].
  unfold parse_simple_identifier. destruct (match_and_consume (is_id TWord) s2) as [[t s3]|] eqn:E.
  - destruct (SI_mac _ _ _ _ S2 E) as (S3 & _). apply ok_ok; auto. exact I.
  - apply ok_ok; auto. exact I.
Qed.

Lemma parse_identifier_ok : SafeP any (parse_identifier prof).
Proof.
  intros s HS. unfold parse_identifier.
  eapply okres_bind; [apply parse_variable_name_ok; exact HS|]. intros v s1 S1 _.
  destruct v as [[n r]|]; [apply ok_ok; auto; exact I|].
  unfold parse_pronoun. destruct (match_and_consume (is_id TPronoun) s1) as [[t s2]|] eqn:E.
  - destruct (SI_mac _ _ _ _ S1 E) as (S2 & _). apply ok_ok; auto. exact I.
  - apply ok_ok; auto. exact I.
Qed.

Lemma expect_identifier_ok : SafeP any (expect_identifier prof).
Proof.
  intros s HS. unfold expect_identifier.
  eapply okres_bind; [apply parse_identifier_ok; exact HS|]. intros i s1 S1 _.
  destruct i as [[x r]|]; [apply ok_ok; auto; exact I|apply fail_ok; auto].
Qed.

Lemma expect_variable_name_ok : SafeP any (expect_variable_name prof).
Proof.
  intros s HS. unfold expect_variable_name.
  eapply okres_bind; [apply parse_variable_name_ok; exact HS|]. intros v s1 S1 _.
  destruct v as [[x r]|]; [apply ok_ok; auto; exact I|apply fail_ok; auto].
Qed.

Lemma as_variable_name_ok s i r : SI s -> okpure any (as_variable_name s i r).
Proof.
  intro HS. unfold as_variable_name. destruct i; [exact I|].
  pose proof (@fail_ok unit any s PExpectedIdentifier HS I) as H. exact H.
Qed.

Definition is_lvalue (p : primary) : Prop := match p with PIdent _ _ | PSubscript _ _ => True | _ => False end.

Lemma lhs_of_primary_ok p : is_lvalue p -> okpure any (lhs_of_primary p).
Proof. destruct p; cbn; auto. Qed.

(** * Poetic number literals *)
Lemma poetic_elems_ok : forall fuel s acc, SI s -> okres any (poetic_elems fuel s acc).
Proof.
  induction fuel as [|f IH]; intros s acc HS; cbn [poetic_elems]; [exact I|].
  destruct (match_and_consume is_poetic_number_literal_token s) as [[t s1]|] eqn:E.
  - destruct (SI_mac _ _ _ _ HS E) as (S1 & _).
    assert (Hdef : okres any (if is_minus_hyphen t
              then match advance s1 with
                   | Some (nt, s2) => if is_word (tspell nt) then poetic_elems f s2 (acc ++ [PESuffix (lit "-" ++ tspell nt)])
                                      else Err (mkPE PUnexpectedToken (PLTok nt))
                   | None => fail s1 PPoeticLiteralEndingWithHyphen
                   end
              else poetic_elems f s1 (acc ++ [PEWord (tspell t)]))).
    { destruct (is_minus_hyphen t); [|apply IH; auto].
      destruct (advance s1) as [[nt s2]|] eqn:Ea.
      - destruct (is_word (tspell nt)).
        + apply IH. apply (SI_advance _ _ _ S1 Ea).
        + cbn [okres]. split; [exact I|]. unfold loc_ok. cbn [pe_loc]. apply (advance_in _ _ _ S1 Ea).
      - apply fail_ok; auto. }
    destruct (tid t); try exact Hdef; apply IH; auto.
  - apply ok_ok; auto. exact I.
Qed.

Lemma parse_poetic_number_literal_ok : SafeP any parse_poetic_number_literal.
Proof.
  intros s HS. unfold parse_poetic_number_literal.
  destruct (current_matches is_minus_hyphen s); [apply fail_ok; auto|].
  eapply okres_bind; [apply poetic_elems_ok; exact HS|]. intros el s1 S1 _.
  destruct el; [apply fail_ok; auto|apply ok_ok; auto; exact I].
Qed.

Lemma is_current_negative_number_ok s t : current s = Some t -> okpure any (is_current_negative_number prof s).
Proof.
  unfold current, is_current_negative_number. destruct (toks s); [discriminate|]. intros _. exact I.
Qed.

(** * Poetic strings: slicing the buffer between two tokens *)
Lemma app_prefix_by_len (a : str) : forall x a' y,
  a ++ x = a' ++ y -> byte_len a <= byte_len a' -> exists m, a' = a ++ m.
Proof.
  induction a as [|c t IH]; intros x a' y E L.
  - exists a'. reflexivity.
  - destruct a' as [|c' t'].
    + cbn [byte_len] in L. pose proof (utf8_len_pos c). lia.
    + cbn [app] in E. injection E as Ec Et. subst c'. cbn [byte_len] in L.
      destruct (IH x t' y Et) as [m Hm]; [lia|]. exists m. cbn. congruence.
Qed.

Lemma strip_prefix_app p : forall r, strip_prefix p (p ++ r) = Some r.
Proof. induction p as [|x p IH]; intro r; cbn; auto. rewrite N.eqb_refl. apply IH. Qed.

Lemma boundary_ok_prefix a b : boundary_ok (a ++ b) (byte_len a) = true.
Proof. unfold boundary_ok. rewrite take_bytes_app. reflexivity. Qed.

Lemma slice_to_end t : tok_in buf t ->
  boundary_ok buf (tstart t) = true /\ exists b, drop_bytes (tstart t) buf = tspell t ++ b.
Proof.
  intros (a & b & E & [W _] & _). rewrite W. split.
  - rewrite E. apply boundary_ok_prefix.
  - exists b. rewrite E. apply drop_bytes_app.
Qed.

Lemma slice_between t e : tok_in buf t -> tok_in buf e -> tend t <= tstart e ->
  boundary_ok buf (tstart e) = true /\ exists mid, slice_bytes buf (tstart t) (tstart e) = Some (tspell t ++ mid).
Proof.
  intros (a & b & E & [W _] & _) (a' & b' & E' & [W' _] & _) L. unfold tend in L. rewrite W, W' in *.
  split; [rewrite E'; apply boundary_ok_prefix|].
  assert (Hpre : exists m, a' = (a ++ tspell t) ++ m).
  { apply (app_prefix_by_len (a ++ tspell t) b a' (tspell e ++ b')).
    - rewrite <- app_assoc. congruence.
    - rewrite byte_len_app. lia. }
  destruct Hpre as [m Hm]. exists m. unfold slice_bytes.
  destruct (byte_len a' <? byte_len a) eqn:El; [apply N.ltb_lt in El; lia|].
  rewrite E at 1. rewrite drop_bytes_app.
  assert (Eb : tspell t ++ b = (tspell t ++ m) ++ tspell e ++ b').
  { apply (app_inv_head a). rewrite <- E. rewrite E'. rewrite Hm. rewrite <- !app_assoc. reflexivity. }
  rewrite Eb. replace (byte_len a' - byte_len a) with (byte_len (tspell t ++ m)).
  - apply take_bytes_app.
  - rewrite Hm, !byte_len_app. lia.
Qed.

Lemma slice_between_exact t e : tok_in buf t -> tok_in buf e -> tend t <= tstart e ->
  exists a mid b', buf = a ++ tspell t ++ mid ++ tspell e ++ b' /\ tstart t = byte_len a /\
                   slice_bytes buf (tstart t) (tstart e) = Some (tspell t ++ mid).
Proof.
  intros (a & b & E & [W _] & _) (a' & b' & E' & [W' _] & _) L. unfold tend in L. rewrite W, W' in *.
  assert (Hpre : exists m, a' = (a ++ tspell t) ++ m).
  { apply (app_prefix_by_len (a ++ tspell t) b a' (tspell e ++ b')).
    - rewrite <- app_assoc. congruence.
    - rewrite byte_len_app. lia. }
  destruct Hpre as [m Hm]. exists a, m, b'. split; [|split; [reflexivity|]].
  - rewrite E'. rewrite Hm. rewrite <- !app_assoc. reflexivity.
  - unfold slice_bytes.
    destruct (byte_len a' <? byte_len a) eqn:El; [apply N.ltb_lt in El; rewrite Hm, !byte_len_app in El; lia|].
    rewrite E at 1. rewrite drop_bytes_app.
    assert (Eb : tspell t ++ b = (tspell t ++ m) ++ tspell e ++ b').
    { apply (app_inv_head a). rewrite <- E. rewrite E'. rewrite Hm. rewrite <- !app_assoc. reflexivity. }
    rewrite Eb. replace (byte_len a' - byte_len a) with (byte_len (tspell t ++ m)).
    + apply take_bytes_app.
    + rewrite Hm, !byte_len_app. lia.
Qed.

Lemma drop_until_newline_stops : forall n s, (length (toks s) <= n)%nat ->
  match current (drop_until_newline s n) with Some e => tid e = TNewline | None => True end.
Proof.
  induction n as [|n IH]; intros s Hn; cbn [drop_until_newline].
  - unfold current. destruct (toks s); [exact I|cbn in Hn; lia].
  - destruct (current s) as [t|] eqn:Ec; [|rewrite Ec; exact I].
    assert (Hadv : match current (match advance s with Some (_, s') => drop_until_newline s' n | None => s end) with
                   | Some e => tid e = TNewline | None => True end).
    { destruct (advance s) as [[t' s']|] eqn:Ea.
      - apply IH. unfold advance in Ea. destruct (toks s) as [|pt r] eqn:Et; [discriminate|].
        injection Ea as _ <-. cbn [toks]. cbn in Hn. lia.
      - unfold advance in Ea. unfold current in Ec. destruct (toks s); discriminate. }
    destruct (tid t) eqn:Et; try exact Hadv. rewrite Ec. exact Et.
Qed.

Lemma drop_until_newline_ok : forall fuel s, SI s ->
  SI (drop_until_newline s fuel) /\ exists p, toks s = p ++ toks (drop_until_newline s fuel).
Proof.
  induction fuel as [|f IH]; intros s HS; cbn [drop_until_newline].
  - split; auto. exists []. reflexivity.
  - destruct (current s) as [t|] eqn:Ec; [|split; auto; exists []; reflexivity].
    assert (Hadv : SI (match advance s with Some (_, s') => drop_until_newline s' f | None => s end) /\
                   exists p, toks s = p ++ toks (match advance s with Some (_, s') => drop_until_newline s' f | None => s end)).
    { destruct (advance s) as [[t' s']|] eqn:Ea; [|split; auto; exists []; reflexivity].
      destruct (SI_advance _ _ _ HS Ea) as (S' & pt & E & _).
      destruct (IH s' S') as (A & p & B). split; auto. exists (pt :: p). rewrite E, B at 1. reflexivity. }
    destruct (tid t); try exact Hadv. split; auto. exists []. reflexivity.
Qed.

Lemma sorted_after p pt l : StronglySorted tok_before (map pt_tok (p ++ pt :: l)) ->
  Forall (fun x => tok_before (pt_tok pt) (pt_tok x)) l.
Proof.
  induction p as [|q p IH]; cbn [app map]; intro H.
  - apply StronglySorted_inv in H as [_ F]. rewrite Forall_map in F. exact F.
  - apply StronglySorted_inv in H as [H _]. auto.
Qed.

Lemma parse_poetic_string_rhs_ok says s0 s :
  SI s0 -> SI s -> (exists pt, toks s0 = pt :: toks s /\ pt_tok pt = says) ->
  okres any (parse_poetic_string_rhs buf says s).
Proof.
  intros (p0 & Hp0 & _) HS (pt & E0 & Esays). unfold parse_poetic_string_rhs.
  destruct (drop_until_newline_ok (length (toks s)) s HS) as (S1 & p1 & Hp1).
  set (s1 := drop_until_newline s (length (toks s))) in *.
  assert (Hsays : tok_in buf says).
  { destruct all_ok as [_ F]. rewrite Forall_forall in F. rewrite <- Esays. apply F. rewrite Hp0, E0.
    apply in_or_app. right. left. reflexivity. }
  assert (Hafter : Forall (fun x => tok_before says (pt_tok x)) (toks s)).
  { destruct all_ok as [Hs _]. rewrite Hp0, E0 in Hs. rewrite <- Esays. eapply sorted_after; eauto. }
  destruct (slice_to_end says Hsays) as (Hb & b & Hdrop).
  destruct (current s1) as [e|] eqn:Ec.
  - destruct (current_in s1 e S1 Ec) as [_ He].
    assert (Hbe : tok_before says e).
    { rewrite Forall_forall in Hafter. unfold current in Ec. destruct (toks s1) as [|pe r] eqn:Et; [discriminate|].
      injection Ec as <-. apply Hafter. rewrite Hp1. apply in_or_app. right. left. reflexivity. }
    destruct (slice_between says e Hsays He Hbe) as (Hbe2 & mid & Hsl).
    rewrite Hb, Hbe2. cbn [andb]. rewrite Hsl. rewrite strip_prefix_app.
    destruct (strip_prefix (lit " ") mid); [apply ok_ok; auto; exact I|apply fail_ok; auto].
  - rewrite Hb. rewrite Hdrop. rewrite strip_prefix_app.
    destruct (strip_prefix (lit " ") b); [apply ok_ok; auto; exact I|apply fail_ok; auto].
Qed.

(** C11: a poetic string literal is the exact text of the source after `says` and one space, up to
    the next line-break token (or the end of the source) *)
Theorem poetic_string_exact says s0 s txt s1 :
  SI s0 -> SI s -> (exists pt, toks s0 = pt :: toks s /\ pt_tok pt = says) ->
  parse_poetic_string_rhs buf says s = Ok (txt, s1) ->
  exists a rest, buf = a ++ tspell says ++ [32] ++ txt ++ rest /\ tstart says = byte_len a /\
    s1 = drop_until_newline s (length (toks s)) /\
    match current s1 with
    | Some e => tid e = TNewline /\ exists b', rest = tspell e ++ b'
    | None => rest = []
    end.
Proof.
  intros (p0 & Hp0 & _) HS (pt & E0 & Esays) H. unfold parse_poetic_string_rhs in H.
  destruct (drop_until_newline_ok (length (toks s)) s HS) as (S1 & p1 & Hp1).
  pose proof (drop_until_newline_stops (length (toks s)) s (Nat.le_refl _)) as Hstop.
  set (sd := drop_until_newline s (length (toks s))) in *.
  assert (Hsays : tok_in buf says).
  { destruct all_ok as [_ F]. rewrite Forall_forall in F. rewrite <- Esays. apply F. rewrite Hp0, E0.
    apply in_or_app. right. left. reflexivity. }
  assert (Hafter : Forall (fun x => tok_before says (pt_tok x)) (toks s)).
  { destruct all_ok as [Hs _]. rewrite Hp0, E0 in Hs. rewrite <- Esays. eapply sorted_after; eauto. }
  destruct (current sd) as [e|] eqn:Ec.
  - destruct (current_in sd e S1 Ec) as [_ He].
    assert (Hbe : tok_before says e).
    { rewrite Forall_forall in Hafter. unfold current in Ec. destruct (toks sd) as [|pe r] eqn:Et; [discriminate|].
      injection Ec as <-. apply Hafter. rewrite Hp1. apply in_or_app. right. left. reflexivity. }
    destruct (slice_between_exact says e Hsays He Hbe) as (a & mid & b' & Eb & Ws & Hsl).
    destruct (boundary_ok buf (tstart says) && boundary_ok buf (tstart e)); [|discriminate].
    rewrite Hsl in H. rewrite strip_prefix_app in H.
    destruct (strip_prefix (lit " ") mid) as [r|] eqn:Esp; [|discriminate]. injection H as <- <-.
    apply strip_prefix_some in Esp. exists a, (tspell e ++ b'). rewrite Ec. repeat split; auto.
    + rewrite Eb, Esp. cbn [app]. rewrite <- ?app_assoc. reflexivity.
    + exists b'. reflexivity.
  - destruct (slice_to_end says Hsays) as (Hb & b & Hdrop).
    destruct Hsays as (a & b0 & Eb & [Ws _] & _).
    rewrite Hb, Hdrop in H. rewrite strip_prefix_app in H.
    destruct (strip_prefix (lit " ") b) as [r|] eqn:Esp; [|discriminate]. injection H as <- <-.
    apply strip_prefix_some in Esp. exists a, []. rewrite Ec. repeat split; auto.
    assert (b0 = b). { rewrite Eb, Ws in Hdrop. rewrite drop_bytes_app in Hdrop. apply app_inv_head in Hdrop. exact Hdrop. }
    subst b0. rewrite Eb, Esp. cbn [app]. rewrite app_nil_r. reflexivity.
Qed.

(** * Operator tables are total on the tokens that select them *)
Definition binops_ok (ops : list ttype) : Prop :=
  forall t, is_one_of ops t = true -> exists o, get_binary_operator (tid t) = Some o.

Ltac ops_tac := intros t H; unfold is_one_of, ttype_in in H; destruct (tid t); cbn in H; try discriminate; cbn; eauto.

Lemma logical_ops_ok : binops_ok logical_ops. Proof. ops_tac. Qed.
Lemma cmp_ops_ok : binops_ok cmp_ops. Proof. ops_tac. Qed.
Lemma term_ops_ok : binops_ok term_ops. Proof. ops_tac. Qed.
Lemma factor_ops_ok : binops_ok factor_ops. Proof. ops_tac. Qed.
Lemma big_small_ok : binops_ok [TBig; TSmall]. Proof. ops_tac. Qed.
Lemma bigger_smaller_ok : binops_ok [TBigger; TSmaller]. Proof. ops_tac. Qed.
Lemma compound_ops_ok : binops_ok [TPlus; TWith; TMinus; TMultiply; TDivide]. Proof. ops_tac. Qed.
Lemma unary_ops_ok t : is_one_of [TMinus; TNot] t = true -> exists o, get_unary_operator (tid t) = Some o.
Proof. revert t. ops_tac. Qed.
Lemma mutation_ops_ok t : is_one_of [TCut; TJoin; TCast] t = true -> exists o, get_mutation_operator (tid t) = Some o.
Proof. revert t. ops_tac. Qed.

Lemma unwrap_op_ok {A} site (o : option A) : (exists x, o = Some x) -> okpure any (unwrap_op site o).
Proof. intros [x ->]. exact I. Qed.

(** * Combinators *)
Section Comb.
  Variable next : P expr.
  Hypothesis next_ok : SafeP any next.

  Lemma list_tail_ok : forall fuel s acc, SI s -> okres any (list_tail next fuel s acc).
  Proof.
    induction fuel as [|f IH]; intros s acc HS; cbn [list_tail]; [exact I|].
    destruct (match_and_consume (is_id TComma) s) as [[t s1]|] eqn:E.
    - destruct (SI_mac _ _ _ _ HS E) as (S1 & _).
      eapply okres_bind; [apply next_ok; apply SI_skip_opt; exact S1|]. intros e s3 S3 _. apply IH; auto.
    - apply ok_ok; auto. exact I.
  Qed.

  Lemma parse_expression_list_ok fuel : SafeP any (parse_expression_list next fuel).
  Proof.
    intros s HS. unfold parse_expression_list.
    eapply okres_bind; [apply next_ok; exact HS|]. intros first s1 S1 _.
    destruct (plist s1).
    - apply ok_ok; [apply SI_flag; auto|exact I].
    - eapply okres_bind; [apply list_tail_ok; apply SI_flag; exact S1|]. intros r s3 S3 _.
      apply ok_ok; [apply SI_flag; auto|exact I].
  Qed.

  Lemma binary_loop_ok ops : binops_ok ops -> forall fuel e s, SI s -> okres any (binary_loop next ops fuel e s).
  Proof.
    intros Hops. induction fuel as [|f IH]; intros e s HS; cbn [binary_loop]; [exact I|].
    destruct (match_and_consume (is_one_of ops) s) as [[t s1]|] eqn:E.
    - destruct (SI_mac _ _ _ _ HS E) as (S1 & Hm & _).
      eapply okres_bind_pure; [apply unwrap_op_ok; apply Hops; exact Hm|]. intros op _.
      eapply okres_bind; [apply parse_expression_list_ok; exact S1|]. intros [first r] s2 S2 _.
      apply IH; auto.
    - apply ok_ok; auto. exact I.
  Qed.

  Lemma parse_binary_expression_ok ops fuel : binops_ok ops -> SafeP any (parse_binary_expression next ops fuel).
  Proof.
    intros Hops s HS. unfold parse_binary_expression.
    eapply okres_bind; [apply next_ok; exact HS|]. intros e s1 S1 _. apply binary_loop_ok; auto.
  Qed.
End Comb.

Section Params.
  Context {R : Type}.
  Variable p : P R.
  Hypothesis p_ok : SafeP any p.

  Lemma param_tail_ok : forall fuel s acc, SI s -> okres any (param_tail p fuel s acc).
  Proof.
    induction fuel as [|f IH]; intros s acc HS; cbn [param_tail]; [exact I|].
    destruct (match_and_consume (is_one_of param_seps) s) as [[sep s1]|] eqn:E.
    - destruct (SI_mac _ _ _ _ HS E) as (S1 & _).
      assert (S2 : SI (match tid sep with TComma => skip_opt (is_id TAnd) s1 | _ => s1 end))
        by (destruct (tid sep); auto; apply SI_skip_opt; auto).
      eapply okres_bind; [apply p_ok; exact S2|]. intros x s3 S3 _. apply IH; auto.
    - apply ok_ok; auto. exact I.
  Qed.

  Lemma parse_parameter_list_ok fuel : SafeP any (parse_parameter_list p fuel).
  Proof.
    intros s HS. unfold parse_parameter_list.
    eapply okres_bind; [apply p_ok; exact HS|]. intros x s1 S1 _. apply param_tail_ok; auto.
  Qed.
End Params.

Lemma fancy_operator_ok : SafeP any fancy_operator.
Proof.
  intros s HS. unfold fancy_operator.
  destruct (match_and_consume (is_id TAs) s) as [[t s1]|] eqn:E1.
  - destruct (SI_mac _ _ _ _ HS E1) as (S1 & _).
    eapply okres_bind; [apply expect_any_ok; [discriminate|exact S1]|]. intros t2 s2 S2 Hm.
    eapply okres_bind_pure; [apply unwrap_op_ok; apply big_small_ok; exact Hm|]. intros op _.
    eapply okres_bind; [apply expect_token_ok; exact S2|]. intros t3 s3 S3 _. apply ok_ok; auto. exact I.
  - destruct (match_and_consume (is_one_of [TBigger; TSmaller]) s) as [[t s1]|] eqn:E2.
    + destruct (SI_mac _ _ _ _ HS E2) as (S1 & Hm & _).
      eapply okres_bind_pure; [apply unwrap_op_ok; apply bigger_smaller_ok; exact Hm|]. intros op _.
      eapply okres_bind; [apply expect_token_ok; exact S1|]. intros t3 s3 S3 _. apply ok_ok; auto. exact I.
    + destruct (match_and_consume (is_id TNot) s) as [[t s1]|] eqn:E3.
      * destruct (SI_mac _ _ _ _ HS E3) as (S1 & _). apply ok_ok; auto. exact I.
      * apply ok_ok; auto. exact I.
Qed.

(** * The expression grammar *)
Record EP (f : nat) : Prop := mkEP {
  e_expr : SafeP any (parse_expression prof f);
  e_cmp : SafeP any (parse_comparison prof f);
  e_fancy : forall l, SafeP any (parse_fancy prof f l);
  e_floop : forall e, SafeP any (fancy_loop prof f e);
  e_term : SafeP any (parse_term prof f);
  e_factor : SafeP any (parse_factor prof f);
  e_unary : SafeP any (parse_unary prof f);
  e_primary : SafeP any (parse_primary prof f);
  e_nsp : SafeP any (parse_non_subscript_primary prof f);
  e_sub : forall e, SafeP (fun p => is_lvalue e -> is_lvalue p) (subscript_after prof f e);
  e_ioc : SafeP any (parse_identifier_or_call prof f);
  e_args : forall s t, SI s -> current s = Some t -> tid t = TTaking -> okres any (parse_function_call_args prof f s)
}.

Lemma EP_0 : EP 0.
Proof. constructor; repeat intro; exact I. Qed.

Lemma is_id_tid id t : tid t = id -> (forall x, id <> TNumber x) -> (forall x, id <> TStringLiteral x) ->
  (forall x, id <> TComment x) -> (forall x, id <> TError x) -> is_id id t = true.
Proof.
  intros E H1 H2 H3 H4. unfold is_id. rewrite E. destruct id; try reflexivity.
  - exfalso; eapply H2; reflexivity.
  - exfalso; eapply H1; reflexivity.
  - exfalso; eapply H3; reflexivity.
  - exfalso; eapply H4; reflexivity.
Qed.

Lemma EP_S f : EP f -> EP (S f).
Proof.
  intros [He Hc Hfa Hfl Ht Hfac Hu Hp Hn Hs Hi Ha].
  assert (Hcmp : SafeP any (parse_comparison prof (S f))).
  { intros s HS. cbn [parse_comparison].
    eapply okres_bind; [apply Ht; exact HS|]. intros e s1 S1 _.
    destruct (match_and_consume (is_one_of is_ops) s1) as [[t s2]|] eqn:E.
    - destruct (SI_mac _ _ _ _ S1 E) as (S2 & _).
      eapply okres_bind; [apply Hfa; exact S2|]. intros e2 s3 S3 _. apply Hfl; auto.
    - apply binary_loop_ok; auto. apply cmp_ops_ok. }
  constructor.
  - intros s HS. cbn [parse_expression]. apply parse_binary_expression_ok; auto. apply logical_ops_ok.
  - exact Hcmp.
  - intros l s HS. cbn [parse_fancy].
    eapply okres_bind; [apply fancy_operator_ok; exact HS|]. intros op s1 S1 _.
    eapply okres_bind; [apply Ht; exact S1|]. intros r s2 S2 _. apply ok_ok; auto. exact I.
  - intros e s HS. cbn [fancy_loop].
    destruct (match_and_consume (is_one_of is_ops) s) as [[t s1]|] eqn:E.
    + destruct (SI_mac _ _ _ _ HS E) as (S1 & _).
      eapply okres_bind; [apply Hfa; exact S1|]. intros e2 s2 S2 _. apply Hfl; auto.
    + apply ok_ok; auto. exact I.
  - intros s HS. cbn [parse_term]. apply parse_binary_expression_ok; auto. apply term_ops_ok.
  - intros s HS. cbn [parse_factor]. apply parse_binary_expression_ok; auto. apply factor_ops_ok.
  - intros s HS. cbn [parse_unary].
    destruct (match_and_consume (is_one_of [TMinus; TNot]) s) as [[t s1]|] eqn:E.
    + destruct (SI_mac _ _ _ _ HS E) as (S1 & Hm & _).
      eapply okres_bind_pure; [apply unwrap_op_ok; apply unary_ops_ok; exact Hm|]. intros op _.
      eapply okres_bind; [apply Hu; exact S1|]. intros e s2 S2 _. apply ok_ok; auto. exact I.
    + eapply okres_bind; [apply Hp; exact HS|]. intros p s1 S1 _. apply ok_ok; auto. exact I.
  - intros s HS. cbn [parse_primary].
    eapply okres_bind; [apply Hn; exact HS|]. intros p s1 S1 _.
    eapply okres_weaken; [|apply Hs; exact S1]. intros; exact I.
  - intros s HS. cbn [parse_non_subscript_primary].
    eapply okres_bind; [apply Hi; exact HS|]. intros io s1 S1 _.
    destruct io; [apply ok_ok; auto; exact I|].
    unfold parse_literal_expression.
    destruct (current s1) as [t|] eqn:Ec.
    + destruct (literal_of_token (tid t)).
      * destruct (advance s1) as [[t' s2]|] eqn:Ea.
        -- apply ok_ok; [apply (SI_advance _ _ _ S1 Ea)|exact I].
        -- destruct (match_and_consume (is_id TRoll) s1) as [[t2 s2]|] eqn:E.
           ++ destruct (SI_mac _ _ _ _ S1 E) as (S2 & _).
              eapply okres_bind; [apply Hp; exact S2|]. intros p s3 S3 _. apply ok_ok; auto. exact I.
           ++ apply fail_ok; auto.
      * destruct (match_and_consume (is_id TRoll) s1) as [[t2 s2]|] eqn:E.
        -- destruct (SI_mac _ _ _ _ S1 E) as (S2 & _).
           eapply okres_bind; [apply Hp; exact S2|]. intros p s3 S3 _. apply ok_ok; auto. exact I.
        -- apply fail_ok; auto.
    + destruct (match_and_consume (is_id TRoll) s1) as [[t2 s2]|] eqn:E.
      * destruct (SI_mac _ _ _ _ S1 E) as (S2 & _).
        eapply okres_bind; [apply Hp; exact S2|]. intros p s3 S3 _. apply ok_ok; auto. exact I.
      * apply fail_ok; auto.
  - intros e s HS. cbn [subscript_after].
    destruct (match_and_consume (is_id TAt) s) as [[t s1]|] eqn:E.
    + destruct (SI_mac _ _ _ _ HS E) as (S1 & _).
      eapply okres_bind; [apply Hn; exact S1|]. intros sub s2 S2 _.
      eapply okres_weaken; [|apply Hs; exact S2]. cbn beta. intros x Hx _. apply Hx. exact I.
    + apply ok_ok; auto.
  - intros s HS. cbn [parse_identifier_or_call].
    unfold parse_pronoun. destruct (match_and_consume (is_id TPronoun) s) as [[t s1]|] eqn:E.
    + destruct (SI_mac _ _ _ _ HS E) as (S1 & _). apply ok_ok; auto. exact I.
    + eapply okres_bind; [apply parse_variable_name_ok; exact HS|]. intros v s1 S1 _.
      destruct v as [[n r]|]; [|apply ok_ok; auto; exact I].
      unfold current_matches. destruct (current s1) as [t|] eqn:Ec; [|apply ok_ok; auto; exact I].
      destruct (is_id TTaking t) eqn:Et; [|apply ok_ok; auto; exact I].
      eapply okres_bind; [eapply Ha; eauto|].
      * unfold is_id in Et. destruct (tid t); cbn in Et; try discriminate. reflexivity.
      * intros args s2 S2 _. apply ok_ok; auto. exact I.
  - intros s t HS Hcur Ht'. cbn [parse_function_call_args].
    eapply okres_bind; [apply (consume_ok (is_id TTaking) s t HS Hcur)|].
    + unfold is_id. rewrite Ht'. reflexivity.
    + intros t0 s1 S1 _. apply parse_parameter_list_ok; auto.
Qed.

Theorem EP_all f : EP f.
Proof. induction f; [apply EP_0|apply EP_S; auto]. Qed.

(** * Simple statements *)
Lemma expr_ok f : SafeP any (parse_expression prof f). Proof. apply (EP_all f). Qed.
Lemma primary_ok f : SafeP any (parse_primary prof f). Proof. apply (EP_all f). Qed.

Lemma toplevel_list_ok f : SafeP any (parse_toplevel_expression_list prof f).
Proof. unfold parse_toplevel_expression_list. apply parse_expression_list_ok. apply expr_ok. Qed.

Lemma parse_assignment_lhs_with_ok f i r : SafeP any (parse_assignment_lhs_with prof f i r).
Proof.
  intros s HS. unfold parse_assignment_lhs_with.
  eapply okres_bind; [apply (e_sub f (EP_all f)); exact HS|]. cbn beta. intros p s1 S1 Hl.
  eapply okres_bind_pure; [apply lhs_of_primary_ok; apply Hl; exact I|]. intros l _. apply ok_ok; auto. exact I.
Qed.

Lemma parse_assignment_lhs_ok f : SafeP any (parse_assignment_lhs prof f).
Proof.
  intros s HS. unfold parse_assignment_lhs.
  eapply okres_bind; [apply expect_identifier_ok; exact HS|]. intros [i r] s1 S1 _.
  apply parse_assignment_lhs_with_ok; auto.
Qed.

Ltac by_tid Ht := first [ unfold is_id; rewrite Ht; reflexivity | unfold is_one_of, ttype_in; rewrite Ht; reflexivity ].

Lemma parse_put_assignment_ok f s t : SI s -> current s = Some t -> tid t = TPut ->
  okres any (parse_put_assignment prof f s).
Proof.
  intros HS Hc Ht. unfold parse_put_assignment.
  eapply okres_bind; [apply (consume_ok _ s t HS Hc); by_tid Ht|]. intros t0 s1 S1 _.
  eapply okres_bind; [apply expr_ok; exact S1|]. intros v s2 S2 _.
  eapply okres_bind; [apply expect_token_ok; exact S2|]. intros t3 s3 S3 _.
  eapply okres_bind; [apply parse_assignment_lhs_ok; exact S3|]. intros d s4 S4 _.
  apply ok_ok; auto. exact I.
Qed.

Lemma parse_let_assignment_ok f s t : SI s -> current s = Some t -> tid t = TLet ->
  okres any (parse_let_assignment prof f s).
Proof.
  intros HS Hc Ht. unfold parse_let_assignment.
  eapply okres_bind; [apply (consume_ok _ s t HS Hc); by_tid Ht|]. intros t0 s1 S1 _.
  eapply okres_bind; [apply parse_assignment_lhs_ok; exact S1|]. intros d s2 S2 _.
  eapply okres_bind; [apply expect_token_ok; exact S2|]. intros t3 s3 S3 _.
  eapply (okres_bind any).
  - destruct (match_and_consume (is_one_of [TPlus; TWith; TMinus; TMultiply; TDivide]) s3) as [[t4 s']|] eqn:E.
    + destruct (SI_mac _ _ _ _ S3 E) as (S' & Hm & _).
      eapply okres_bind_pure; [apply unwrap_op_ok; apply compound_ops_ok; exact Hm|]. intros o _. apply ok_ok; auto. exact I.
    + apply ok_ok; auto. exact I.
  - intros op s4 S4 _.
    eapply okres_bind; [apply toplevel_list_ok; exact S4|]. intros [first r] s5 S5 _. apply ok_ok; auto. exact I.
Qed.

Lemma parse_poetic_number_rhs_ok f : SafeP any (parse_poetic_number_rhs prof f).
Proof.
  intros s HS. unfold parse_poetic_number_rhs. destruct (current s) as [t|] eqn:Ec; [|apply fail_ok; auto].
  eapply (okres_bind_pure any).
  - destruct (is_literal_word (tid t)); [exact I|]. eapply is_current_negative_number_ok; eauto.
  - intros neg _. destruct neg.
    + eapply okres_bind; [apply expr_ok; exact HS|]. intros e s1 S1 _. apply ok_ok; auto. exact I.
    + eapply okres_bind; [apply parse_poetic_number_literal_ok; exact HS|]. intros e s1 S1 _. apply ok_ok; auto. exact I.
Qed.

Lemma parse_poetic_assignment_ok f i r : SafeP any (parse_poetic_assignment prof buf f i r).
Proof.
  intros s HS. unfold parse_poetic_assignment.
  eapply okres_bind; [apply parse_assignment_lhs_with_ok; exact HS|]. intros d s1 S1 _.
  unfold expect_any.
  destruct (match_and_consume (is_one_of [TIs; TApostropheS; TApostropheRE; TSays; TSay]) s1) as [[t s2]|] eqn:E;
    [|apply fail_ok; auto; discriminate].
  destruct (SI_mac _ _ _ _ S1 E) as (S2 & Hm & _ & Hpt). cbn [bind].
  assert (Hstr : okres any (let* (txt, s3) := parse_poetic_string_rhs buf t s2 in Ok (SPoeticStr d txt, s3))).
  { eapply okres_bind; [apply (parse_poetic_string_rhs_ok t s1 s2 S1 S2 Hpt)|]. intros txt s3 S3 _. apply ok_ok; auto. exact I. }
  assert (Hnum : okres any (let* (rhs, s3) := parse_poetic_number_rhs prof f s2 in Ok (SPoeticNum d rhs, s3))).
  { eapply okres_bind; [apply parse_poetic_number_rhs_ok; exact S2|]. intros rhs s3 S3 _. apply ok_ok; auto. exact I. }
  destruct (tid t); first [exact Hnum | exact Hstr].
Qed.

Lemma count_suffix_SI suffix : forall fuel s c, SI s -> SI (snd (count_suffix fuel suffix s c)).
Proof.
  induction fuel as [|f IH]; intros s c HS; cbn [count_suffix]; auto.
  destruct (match_and_consume (is_id suffix) s) as [[t s1]|] eqn:E; auto.
  destruct (SI_mac _ _ _ _ HS E) as (S1 & _). apply IH. apply SI_skip_opt. exact S1.
Qed.

Lemma parse_build_knock_ok b sfx s t : SI s -> current s = Some t -> is_id b t = true ->
  okres any (parse_build_knock prof b sfx s).
Proof.
  intros HS Hc Hm. unfold parse_build_knock.
  eapply okres_bind; [apply (consume_ok _ s t HS Hc); exact Hm|]. intros t0 s1 S1 _.
  eapply okres_bind; [apply expect_identifier_ok; exact S1|]. intros [i r] s2 S2 _.
  eapply okres_bind; [apply expect_token_ok; exact S2|]. intros t3 s3 S3 _.
  pose proof (count_suffix_SI sfx (length (toks (skip_opt (is_id TComma) s3))) (skip_opt (is_id TComma) s3) 0%Z
                (SI_skip_opt _ _ S3)) as S5.
  destruct (count_suffix (length (toks (skip_opt (is_id TComma) s3))) sfx (skip_opt (is_id TComma) s3) 0%Z) as [extra s5].
  apply ok_ok; auto. exact I.
Qed.

Lemma parse_say_ok f s t : SI s -> current s = Some t -> is_one_of [TSay; TSayAlias] t = true ->
  okres any (parse_say prof f s).
Proof.
  intros HS Hc Hm. unfold parse_say.
  eapply okres_bind; [apply (consume_ok _ s t HS Hc); exact Hm|]. intros t0 s1 S1 _.
  eapply okres_bind; [apply expr_ok; exact S1|]. intros e s2 S2 _. apply ok_ok; auto. exact I.
Qed.

Lemma parse_listen_ok f s t : SI s -> current s = Some t -> tid t = TListen -> okres any (parse_listen prof f s).
Proof.
  intros HS Hc Ht. unfold parse_listen.
  eapply okres_bind; [apply (consume_ok _ s t HS Hc); by_tid Ht|]. intros t0 s1 S1 _.
  destruct (match_and_consume (is_id TTo) s1) as [[t2 s2]|] eqn:E.
  - destruct (SI_mac _ _ _ _ S1 E) as (S2 & _).
    eapply okres_bind; [apply parse_assignment_lhs_ok; exact S2|]. intros d s3 S3 _. apply ok_ok; auto. exact I.
  - apply ok_ok; auto. exact I.
Qed.

Lemma opt_lhs_after_ok f id : SafeP any (opt_lhs_after prof f id).
Proof.
  intros s HS. unfold opt_lhs_after. destruct (match_and_consume (is_id id) s) as [[t s1]|] eqn:E.
  - destruct (SI_mac _ _ _ _ HS E) as (S1 & _).
    eapply okres_bind; [apply parse_assignment_lhs_ok; exact S1|]. intros d s2 S2 _. apply ok_ok; auto. exact I.
  - apply ok_ok; auto. exact I.
Qed.

Lemma parse_mutation_ok f s t : SI s -> current s = Some t -> is_one_of [TCut; TJoin; TCast] t = true ->
  okres any (parse_mutation prof f s).
Proof.
  intros HS Hc Hm. unfold parse_mutation.
  eapply okres_bind; [apply (consume_ok _ s t HS Hc); exact Hm|]. cbn beta. intros t0 s1 S1 ->.
  eapply okres_bind_pure; [apply unwrap_op_ok; apply mutation_ops_ok; exact Hm|]. intros op _.
  eapply okres_bind; [apply primary_ok; exact S1|]. intros operand s2 S2 _.
  eapply okres_bind; [apply opt_lhs_after_ok; exact S2|]. intros dest s3 S3 _.
  eapply (okres_bind_pure any).
  - destruct dest; [exact I|]. destruct operand; try exact I;
      apply (@fail_ok unit any s3 _ S3); exact I.
  - intros _ _. eapply (okres_bind any).
    + destruct (match_and_consume (is_id TWith) s3) as [[t4 s']|] eqn:E.
      * destruct (SI_mac _ _ _ _ S3 E) as (S' & _).
        eapply okres_bind; [apply expr_ok; exact S'|]. intros e s'' S'' _. apply ok_ok; auto. exact I.
      * apply ok_ok; auto. exact I.
    + intros param s4 S4 _. apply ok_ok; auto. exact I.
Qed.

Lemma parse_rounding_direction_SI s : SI s -> SI (snd (parse_rounding_direction s)).
Proof.
  intro HS. unfold parse_rounding_direction.
  destruct (match_and_consume (is_one_of [TUp; TDown; TRound]) s) as [[t s1]|] eqn:E; auto.
  apply (SI_mac _ _ _ _ HS E).
Qed.

Lemma parse_rounding_ok f s t : SI s -> current s = Some t -> tid t = TTurn -> okres any (parse_rounding prof f s).
Proof.
  intros HS Hc Ht. unfold parse_rounding.
  eapply okres_bind; [apply (consume_ok _ s t HS Hc); by_tid Ht|]. intros t0 s1 S1 _.
  pose proof (parse_rounding_direction_SI s1 S1) as S2.
  destruct (parse_rounding_direction s1) as [d1 s2]. cbn [snd] in S2.
  eapply okres_bind; [apply expr_ok; exact S2|]. intros operand s3 S3 _.
  destruct d1; [apply ok_ok; auto; exact I|].
  pose proof (parse_rounding_direction_SI s3 S3) as S4.
  destruct (parse_rounding_direction s3) as [d2 s4]. cbn [snd] in S4.
  destruct d2; [apply ok_ok; auto; exact I|apply fail_ok; auto; discriminate].
Qed.

Lemma lower_it : forallb is_lowercase (lit "it") = true. Proof. vm_compute. reflexivity. Qed.
Lemma lower_the : forallb is_lowercase (lit "the") = true. Proof. vm_compute. reflexivity. Qed.
Lemma lower_give : forallb is_lowercase (lit "give") = true. Proof. vm_compute. reflexivity. Qed.

Lemma parse_break_ok s t : SI s -> current s = Some t -> tid t = TBreak -> okres any (parse_break prof s).
Proof.
  intros HS Hc Ht. unfold parse_break.
  eapply okres_bind; [apply (consume_ok _ s t HS Hc); by_tid Ht|]. intros b s1 S1 _.
  destruct (current s1) as [t1|] eqn:Ec1; [|apply ok_ok; auto; exact I].
  eapply okres_bind_pure; [apply is_ispelled_ok; exact lower_it|]. intros it _.
  destruct it; [|apply ok_ok; auto; exact I].
  destruct (advance s1) as [[t2 s2]|] eqn:Ea; [|apply ok_ok; auto; exact I].
  eapply okres_bind; [apply expect_token_ok; apply (SI_advance _ _ _ S1 Ea)|]. intros d s3 S3 _. apply ok_ok; auto. exact I.
Qed.

Lemma parse_simple_continue_ok s t : SI s -> current s = Some t -> tid t = TContinue ->
  okres any (parse_simple_continue prof s).
Proof.
  intros HS Hc Ht. unfold parse_simple_continue.
  eapply okres_bind; [apply (consume_ok _ s t HS Hc); by_tid Ht|]. intros b s1 S1 _. apply ok_ok; auto. exact I.
Qed.

Lemma parse_take_ok s t : SI s -> current s = Some t -> tid t = TTake -> okres any (parse_take_it_to_the_top prof s).
Proof.
  intros HS Hc Ht. unfold parse_take_it_to_the_top.
  eapply okres_bind; [apply (consume_ok _ s t HS Hc); by_tid Ht|]. intros t0 s1 S1 _.
  eapply okres_bind; [apply expect_token_ispelled_ok; [exact lower_it|exact S1]|]. intros x2 s2 S2 _.
  eapply okres_bind; [apply expect_token_ok; exact S2|]. intros x3 s3 S3 _.
  eapply okres_bind; [apply expect_token_ispelled_ok; [exact lower_the|exact S3]|]. intros x4 s4 S4 _.
  eapply okres_bind; [apply expect_token_ok; exact S4|]. intros x5 s5 S5 _. apply ok_ok; auto. exact I.
Qed.

Lemma parse_array_push_ok f s t : SI s -> current s = Some t -> tid t = TRock -> okres any (parse_array_push prof f s).
Proof.
  intros HS Hc Ht. unfold parse_array_push.
  eapply okres_bind; [apply (consume_ok _ s t HS Hc); by_tid Ht|]. intros t0 s1 S1 _.
  eapply okres_bind; [apply primary_ok; exact S1|]. intros arr s2 S2 _.
  destruct (match_and_consume (is_one_of [TWith; TLike]) s2) as [[t3 s3]|] eqn:E; [|apply ok_ok; auto; exact I].
  destruct (SI_mac _ _ _ _ S2 E) as (S3 & Hm & _).
  unfold is_one_of, ttype_in in Hm.
  destruct (tid t3); cbn in Hm; try discriminate.
  - eapply okres_bind; [apply parse_poetic_number_literal_ok; exact S3|]. intros el s4 S4 _. apply ok_ok; auto. exact I.
  - eapply okres_bind; [apply toplevel_list_ok; exact S3|]. intros [first r] s4 S4 _. apply ok_ok; auto. exact I.
Qed.

Lemma parse_array_pop_ok f s t : SI s -> current s = Some t -> tid t = TRoll -> okres any (parse_array_pop prof f s).
Proof.
  intros HS Hc Ht. unfold parse_array_pop.
  eapply okres_bind; [apply (consume_ok _ s t HS Hc); by_tid Ht|]. intros t0 s1 S1 _.
  eapply okres_bind; [apply primary_ok; exact S1|]. intros arr s2 S2 _.
  eapply okres_bind; [apply opt_lhs_after_ok; exact S2|]. intros dest s3 S3 _. apply ok_ok; auto. exact I.
Qed.

Lemma parse_return_ok f s t : SI s -> current s = Some t -> tid t = TReturn -> okres any (parse_return prof f s).
Proof.
  intros HS Hc Ht. unfold parse_return.
  eapply okres_bind; [apply (consume_ok _ s t HS Hc); by_tid Ht|]. intros rt s1 S1 _.
  eapply okres_bind_pure; [apply is_ispelled_ok; exact lower_give|]. intros give _.
  assert (S2 : SI (if give then skip_opt (is_id TBack) s1 else s1)) by (destruct give; auto; apply SI_skip_opt; auto).
  eapply okres_bind; [apply expr_ok; exact S2|]. intros e s3 S3 _.
  apply ok_ok; [apply SI_skip_opt; auto|exact I].
Qed.

(** * Statements and blocks *)
Record BP (f : nat) : Prop := mkBP {
  b_stmt : SafeP any (parse_statement prof buf f);
  b_word : SafeP any (parse_statement_starting_with_word prof buf f);
  b_fun : forall n nr s t, SI s -> current s = Some t -> tid t = TTakes -> okres any (parse_function prof buf f n nr s);
  b_if : forall s t, SI s -> current s = Some t -> tid t = TIf -> okres any (parse_if prof buf f s);
  b_loop : forall s t, SI s -> current s = Some t -> is_one_of [TWhile; TUntil] t = true -> okres any (parse_loop prof buf f s);
  b_block : SafeP any (parse_block prof buf f);
  b_fblock : SafeP any (parse_function_block prof buf f);
  b_stmts : forall inf acc, SafeP any (fun s => block_statements prof buf f inf s acc)
}.

Lemma BP_0 : BP 0.
Proof. constructor; repeat intro; exact I. Qed.

Lemma some_ok (r : pres (stmt * pstate)) :
  okres any r -> okres any (let* (x, s') := r in Ok (Some x, s')).
Proof. intro H. eapply okres_bind; [exact H|]. intros x s' S' _. apply ok_ok; auto. exact I. Qed.

Lemma BP_S f : BP f -> BP (S f).
Proof.
  intros [Hst Hw Hfn Hif Hlp Hb Hfb Hss]. constructor.
  - (* parse_statement *)
    intros s HS. cbn [parse_statement]. destruct (current s) as [t|] eqn:Ec; [|apply ok_ok; auto; exact I].
    assert (Hfail : okres (@any (option stmt)) (fail s PUnexpectedToken)) by (apply fail_ok; auto; rewrite Ec; discriminate).
    destruct (tid t) eqn:Et; try exact Hfail; try (apply ok_ok; auto; exact I);
      try (apply some_ok;
           first [ eapply parse_put_assignment_ok; eauto
                 | eapply parse_let_assignment_ok; eauto
                 | apply Hw; exact HS
                 | eapply Hif; eauto
                 | eapply Hlp; eauto; by_tid Et
                 | eapply parse_say_ok; eauto; by_tid Et
                 | eapply parse_listen_ok; eauto
                 | eapply parse_mutation_ok; eauto; by_tid Et
                 | eapply parse_rounding_ok; eauto
                 | eapply parse_break_ok; eauto
                 | eapply parse_simple_continue_ok; eauto
                 | eapply parse_take_ok; eauto
                 | eapply parse_array_push_ok; eauto
                 | eapply parse_array_pop_ok; eauto
                 | eapply parse_return_ok; eauto ]).
    + eapply okres_bind; [eapply parse_build_knock_ok; eauto; by_tid Et|]. intros [[i r] k] s1 S1 _. apply ok_ok; auto. exact I.
    + eapply okres_bind; [eapply parse_build_knock_ok; eauto; by_tid Et|]. intros [[i r] k] s1 S1 _. apply ok_ok; auto. exact I.
  - (* starting with a word *)
    intros s HS. cbn [parse_statement_starting_with_word].
    eapply okres_bind; [apply expect_identifier_ok; exact HS|]. intros [i r] s1 S1 _.
    destruct (current s1) as [t|] eqn:Ec; [|apply parse_poetic_assignment_ok; auto].
    destruct (tid t) eqn:Et; try (apply parse_poetic_assignment_ok; auto).
    + eapply okres_bind_pure; [apply as_variable_name_ok; exact S1|]. intros [n nr] _.
      apply (Hfn n nr s1 t S1 Ec Et).
    + eapply okres_bind_pure; [apply as_variable_name_ok; exact S1|]. intros [n nr] _.
      eapply okres_bind; [eapply (e_args f (EP_all f)); eauto|]. intros args s2 S2 _. apply ok_ok; auto. exact I.
  - (* function *)
    intros n nr s t HS Hc Ht. cbn [parse_function].
    eapply okres_bind; [apply (consume_ok _ s t HS Hc); by_tid Ht|]. intros t0 s1 S1 _.
    eapply okres_bind.
    + apply (parse_parameter_list_ok (fun st => let* (v, r, st') := expect_variable_name prof st in Ok ((v, r), st'))); [|exact S1].
      intros st HSt. eapply okres_bind; [apply expect_variable_name_ok; exact HSt|]. intros [v r] st' St' _. apply ok_ok; auto. exact I.
    + intros params s2 S2 _.
      eapply okres_bind; [apply expect_eol_ok; exact S2|]. intros x s3 S3 _.
      eapply okres_bind; [apply Hfb; exact S3|]. intros body s4 S4 _. apply ok_ok; auto. exact I.
  - (* if *)
    intros s t HS Hc Ht. cbn [parse_if].
    eapply okres_bind; [apply (consume_ok _ s t HS Hc); by_tid Ht|]. intros t0 s1 S1 _.
    eapply okres_bind; [apply expr_ok; exact S1|]. intros c s2 S2 _.
    eapply okres_bind; [apply expect_eol_ok; exact S2|]. intros x s3 S3 _.
    eapply okres_bind; [apply Hb; exact S3|]. intros th s4 S4 _.
    destruct (match_and_consume (is_id TElse) s4) as [[t5 s5]|] eqn:E; [|apply ok_ok; auto; exact I].
    destruct (SI_mac _ _ _ _ S4 E) as (S5 & _).
    eapply okres_bind; [apply expect_token_or_end_ok; exact S5|]. intros x6 s6 S6 _.
    eapply okres_bind; [apply Hb; exact S6|]. intros el s7 S7 _. apply ok_ok; auto. exact I.
  - (* loop *)
    intros s t HS Hc Hm. cbn [parse_loop].
    eapply okres_bind; [apply (consume_ok _ s t HS Hc); exact Hm|]. intros t0 s1 S1 _.
    eapply okres_bind; [apply expr_ok; exact S1|]. intros c s2 S2 _.
    eapply okres_bind; [apply expect_eol_ok; exact S2|]. intros x s3 S3 _.
    eapply okres_bind; [apply Hb; exact S3|]. intros b s4 S4 _.
    destruct (tid t0); apply ok_ok; auto; exact I.
  - (* block *)
    intros s HS. cbn [parse_block].
    destruct (match_and_consume (is_id TNewline) s) as [[t s1]|] eqn:E.
    + destruct (SI_mac _ _ _ _ HS E) as (S1 & _). apply ok_ok; auto. exact I.
    + eapply okres_bind; [apply Hss; exact HS|]. intros ss s1 S1 _. apply ok_ok; auto. exact I.
  - intros s HS. cbn [parse_function_block].
    destruct (match_and_consume (is_id TNewline) s) as [[t s1]|] eqn:E.
    + destruct (SI_mac _ _ _ _ HS E) as (S1 & _). apply ok_ok; auto. exact I.
    + eapply okres_bind; [apply Hss; exact HS|]. intros ss s1 S1 _. apply ok_ok; auto. exact I.
  - (* statement loop *)
    intros inf acc s HS. cbn [block_statements].
    eapply okres_bind; [apply Hst; exact HS|]. intros so s1 S1 _.
    destruct so as [st|]; [|apply ok_ok; auto; exact I].
    destruct (inf && is_function_terminator st); [apply ok_ok; auto; exact I|].
    eapply okres_bind; [apply expect_eol_ok; exact S1|]. intros x s2 S2 _. apply Hss; auto.
Qed.

Theorem BP_all f : BP f.
Proof. induction f; [apply BP_0|apply BP_S; auto]. Qed.

(** * The top level *)
Lemma parse_blocks_ok : forall fuel s acc, SI s -> okpure any (parse_blocks prof buf fuel s acc).
Proof.
  induction fuel as [|f IH]; intros s acc HS; cbn [parse_blocks]; [exact I|].
  destruct (current s) as [t|] eqn:Ec; [|exact I].
  pose proof (b_block (S f) (BP_all (S f)) s HS) as Hb.
  destruct (parse_block prof buf (S f) s) as [[b s1]| | | | |]; cbn [okres bind okpure] in *; auto.
  destruct Hb as [S1 _].
  destruct (current_matches (is_id TElse) s1) eqn:Em.
  - pose proof (@fail_ok unit any s1 PUnexpectedToken S1) as Hf. unfold fail in *. cbn [okres] in Hf. apply Hf.
    unfold current_matches in Em. destruct (current s1); [discriminate|discriminate].
  - apply IH; auto.
Qed.
End Safe.
