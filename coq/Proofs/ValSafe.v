(** No value-level operation can reach one of its crash sites (the [unreachable!],
    [unreachable_unchecked], [unchecked_unwrap] and [inner!] sites of val.rs). *)
From Coq Require Import List ZArith NArith Bool Lia.
From RRSS Require Import Base.Outcome Base.Chars Base.F64 Base.F64Text Exec.Val Exec.Ops.
From RRSS Require Import Proofs.ArrayLaws.
Import ListNotations.
Open Scope N_scope.

Lemma safe_ok {E A} (a : A) : safe (Ok a : res E A).  Proof. exact I. Qed.
Lemma safe_err {E A} (e : E) : safe (Err e : res E A).  Proof. exact I. Qed.

Lemma cmp_coerced_safe a b : exists r, cmp_coerced a b = Ok r.
Proof. destruct a, b; unfold cmp_coerced; cbn; eauto. Qed.

Lemma cmp_coerced_same_kind a b x y :
  cmp_coerced a b = Ok (Some (x, y)) -> same_kind x y = true ->
  match x, y with
  | VUndef, VUndef | VNull, VNull | VBool _, VBool _ | VNum _, VNum _ | VStr _, VStr _ | VArr _ _, VArr _ _ => True
  | _, _ => False
  end.
Proof. intros _. destruct x, y; cbn; intro H; try discriminate; exact I. Qed.

Lemma v_compare_safe a b : safe (v_compare a b).
Proof.
  unfold v_compare. destruct (cmp_coerced_safe a b) as [r E]. rewrite E. cbn [bind].
  destruct r as [[x y]|]; [|exact I].
  destruct (same_kind x y) eqn:K; cbn [negb]; [|exact I].
  destruct x, y; cbn in K; try discriminate; exact I.
Qed.

Lemma v_equals_safe a b : safe (v_equals a b).
Proof. unfold v_equals. destruct (cmp_coerced_safe a b) as [r E]. rewrite E. exact I. Qed.

Lemma v_multiply_safe a b : safe (v_multiply a b).
Proof.
  unfold v_multiply. destruct (arith_coerced a b) as [x y]. destruct x; try exact I; destruct y; try exact I.
  destruct (fleb fzero f); [|exact I].
  destruct ((size_budget <? f_to_usize f) || (size_budget <? f_to_usize f * len s)); exact I.
Qed.

Lemma binop_apply_safe o a b : safe (binop_apply o a b).
Proof.
  destruct o; cbn [binop_apply]; try exact I; try apply v_multiply_safe;
    try (pose proof (v_equals_safe a b) as H; destruct (v_equals a b); cbn in *; auto; fail);
    try (pose proof (v_compare_safe a b) as H; destruct (v_compare a b); cbn in *; auto).
Qed.

Lemma unop_apply_safe o a : safe (unop_apply o a).
Proof. destruct o, a; cbn; exact I. Qed.

Lemma v_index_safe a k : safe (v_index a k).
Proof.
  destruct a; cbn; try exact I.
  - destruct k; exact I.
  - destruct k; cbn; try exact I.
Qed.

Lemma to_string_for_output_safe v : safe (to_string_for_output v).
Proof. destruct v; cbn; exact I. Qed.

Lemma v_inc_safe v k : safe (v_inc v k).
Proof. destruct v; cbn; exact I. Qed.

Lemma v_push_safe v vs : safe (v_push v vs).
Proof. destruct v; cbn; exact I. Qed.

Lemma v_pop_safe v : safe (v_pop v).
Proof. destruct v; cbn; try exact I. destruct arr; exact I. Qed.

Lemma v_split_safe v d : safe (v_split v d).
Proof.
  destruct v; cbn; try exact I. destruct s as [|c t].
  - destruct d as [d|]; [destruct (is_str d)|]; exact I.
  - destruct d as [[]|]; cbn; try exact I. destruct s; exact I.
Qed.

Lemma v_join_safe v d : safe (v_join v d).
Proof.
  assert (H : forall a dct,
    safe (let* dd := match d with
                     | Some (VStr x) => Ok x
                     | Some x => Err (InvalidJoinDelimiter x)
                     | None => Ok []
                     end in
          match first_non_string (val_iter a dct) with
          | Some bad => Err (InvalidArrayElementForJoin bad)
          | None => Ok (VStr (str_join dd (map str_of_val (val_iter a dct))))
          end)).
  { intros a dct. generalize (first_non_string (val_iter a dct)). intro o.
    destruct d as [[]|]; cbn [bind]; try exact I; destruct o; exact I. }
  destruct v; try exact I. unfold v_join.
  destruct arr as [|x a]; [destruct dict as [|kv dct]|]; try apply H.
  destruct d as [dd|]; [destruct (is_str dd)|]; exact I.
Qed.

Lemma v_cast_safe v p : safe (v_cast v p).
Proof.
  destruct v; cbn; try exact I.
  - destruct p; [exact I|]. destruct (try_to_integer f); [|exact I].
    destruct (((0 <=? z)%Z && (z <=? u32_max)%Z) && is_scalar_value (Z.to_N z)); exact I.
  - destruct p as [[]|]; try exact I.
    + destruct (try_to_integer f); [|exact I].
      destruct ((0 <=? z)%Z && (z <=? u32_max)%Z); [|exact I].
      destruct ((2 <=? z)%Z && (z <=? 36)%Z); [|exact I].
      destruct (i64_from_str_radix s z); exact I.
    + destruct (f64_parse s); exact I.
Qed.

Lemma v_round_safe v : safe (v_round_up v) /\ safe (v_round_down v) /\ safe (v_round_nearest v).
Proof. destruct v; cbn; repeat split; exact I. Qed.

(** [v_update_at] never reaches its unchecked unwrap: the cell exists after the extension *)
Lemma v_update_at_safe {X} self k (f : val -> vres (val * X)) :
  (forall cur, safe (f cur)) -> safe (v_update_at self k f).
Proof.
  intro Hf. unfold v_update_at.
  assert (Harr : forall a d,
    safe (match k with
          | VNum n =>
              let i := f_to_usize n in
              if size_budget <=? i then OverBudget else
              let a' := if len a <=? i then a ++ repeat_val (N.to_nat (i + 1 - len a)) else a in
              match nth_N a' i with
              | Some cur => let* (nv, x) := f cur in Ok (VArr (set_nth_N a' i nv) d, x)
              | None => UB (SiteUnchecked 1)
              end
          | VArr _ _ => Err (InvalidKey k)
          | _ => match dkey_of k with
                 | Some dk =>
                     let cur := match dict_get dk d with Some v => v | None => VUndef end in
                     let* (nv, x) := f cur in Ok (VArr a (dict_set dk nv d), x)
                 | None => Err (InvalidKey k)
                 end
          end)).
  { intros a d. destruct k; cbn [dkey_of]; try exact I;
      try (match goal with |- context [f ?c] => pose proof (Hf c) as H; destruct (f c) as [[nv x]| | | | |]; cbn in *; auto end; fail).
    cbv zeta. destruct (size_budget <=? f_to_usize f0) eqn:E; [exact I|]. apply N.leb_gt in E.
    fold (extended a (f_to_usize f0)).
    destruct (nth_N_lt (extended a (f_to_usize f0)) (f_to_usize f0)) as [cur Hc]; [rewrite extended_len; lia|].
    rewrite Hc. pose proof (Hf cur) as H. destruct (f cur) as [[nv x]| | | | |]; cbn in *; auto. }
  destruct self; try exact I; apply Harr.
Qed.
