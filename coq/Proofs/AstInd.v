(** Induction principles for the nested/mutual syntax-tree types. *)
From Coq Require Import List ZArith NArith Bool.
From RRSS Require Import Base.Outcome Base.Chars Base.F64 Exec.Ops Front.Ast.
Import ListNotations.

Section ExprInd.
  Variable P : primary -> Prop.
  Variable Q : expr -> Prop.
  Hypothesis HLit : forall l r, P (PLit l r).
  Hypothesis HIdent : forall i r, P (PIdent i r).
  Hypothesis HSub : forall a s, P a -> P s -> P (PSubscript a s).
  Hypothesis HCall : forall n r args, Forall Q args -> P (PCall n r args).
  Hypothesis HPop : forall a, P a -> P (PPop a).
  Hypothesis HPrim : forall p, P p -> Q (EPrimary p).
  Hypothesis HBin : forall o l f rest, Q l -> Q f -> Forall Q rest -> Q (EBinary o l f rest).
  Hypothesis HUn : forall o x, Q x -> Q (EUnary o x).

  Fixpoint primary_ind' (p : primary) : P p :=
    match p with
    | PLit l r => HLit l r
    | PIdent i r => HIdent i r
    | PSubscript a s => HSub a s (primary_ind' a) (primary_ind' s)
    | PCall n r args =>
        HCall n r args
          ((fix go (l : list expr) : Forall Q l :=
              match l with
              | [] => Forall_nil _
              | x :: t => Forall_cons x (expr_ind' x) (go t)
              end) args)
    | PPop a => HPop a (primary_ind' a)
    end
  with expr_ind' (e : expr) : Q e :=
    match e with
    | EPrimary p => HPrim p (primary_ind' p)
    | EBinary o l f rest =>
        HBin o l f rest (expr_ind' l) (expr_ind' f)
          ((fix go (l : list expr) : Forall Q l :=
              match l with
              | [] => Forall_nil _
              | x :: t => Forall_cons x (expr_ind' x) (go t)
              end) rest)
    | EUnary o x => HUn o x (expr_ind' x)
    end.

  Lemma primary_expr_ind : (forall p, P p) /\ (forall e, Q e).
  Proof. split; [exact primary_ind' | exact expr_ind']. Qed.
End ExprInd.

Section StmtInd.
  Variable P : stmt -> Prop.
  Variable Q : block -> Prop.
  Hypothesis HAssign : forall d f rest op, P (SAssign d f rest op).
  Hypothesis HPoeticNum : forall d rhs, P (SPoeticNum d rhs).
  Hypothesis HPoeticStr : forall d s, P (SPoeticStr d s).
  Hypothesis HIf : forall c t e, Q t -> (forall b, e = Some b -> Q b) -> P (SIf c t e).
  Hypothesis HWhile : forall c b, Q b -> P (SWhile c b).
  Hypothesis HUntil : forall c b, Q b -> P (SUntil c b).
  Hypothesis HInc : forall i r k, P (SInc i r k).
  Hypothesis HDec : forall i r k, P (SDec i r k).
  Hypothesis HInput : forall d l, P (SInput d l).
  Hypothesis HOutput : forall e, P (SOutput e).
  Hypothesis HMutation : forall o p d x, P (SMutation o p d x).
  Hypothesis HRounding : forall d e, P (SRounding d e).
  Hypothesis HContinue : forall r, P (SContinue r).
  Hypothesis HBreak : forall r, P (SBreak r).
  Hypothesis HPush : forall a v, P (SPush a v).
  Hypothesis HPopS : forall a d, P (SPop a d).
  Hypothesis HReturn : forall e, P (SReturn e).
  Hypothesis HFunction : forall n r ps b, Q b -> P (SFunction n r ps b).
  Hypothesis HCallS : forall n r args, P (SCall n r args).
  Hypothesis HEmpty : forall l, Q (BEmpty l).
  Hypothesis HNonEmpty : forall ss, Forall P ss -> Q (BNonEmpty ss).

  Fixpoint stmt_ind' (s : stmt) : P s :=
    match s with
    | SAssign d f rest op => HAssign d f rest op
    | SPoeticNum d rhs => HPoeticNum d rhs
    | SPoeticStr d x => HPoeticStr d x
    | SIf c t e =>
        HIf c t e (block_ind' t)
          (match e return forall b, e = Some b -> Q b with
           | Some b0 => fun b E => match E in _ = y return match y with Some z => Q z | None => True end with
                                   | eq_refl => block_ind' b0 end
           | None => fun b E => match E in _ = y return match y with Some z => Q z | None => True end with
                                | eq_refl => I end
           end)
    | SWhile c b => HWhile c b (block_ind' b)
    | SUntil c b => HUntil c b (block_ind' b)
    | SInc i r k => HInc i r k
    | SDec i r k => HDec i r k
    | SInput d l => HInput d l
    | SOutput e => HOutput e
    | SMutation o p d x => HMutation o p d x
    | SRounding d e => HRounding d e
    | SContinue r => HContinue r
    | SBreak r => HBreak r
    | SPush a v => HPush a v
    | SPop a d => HPopS a d
    | SReturn e => HReturn e
    | SFunction n r ps b => HFunction n r ps b (block_ind' b)
    | SCall n r args => HCallS n r args
    end
  with block_ind' (b : block) : Q b :=
    match b with
    | BEmpty l => HEmpty l
    | BNonEmpty ss =>
        HNonEmpty ss
          ((fix go (l : list stmt) : Forall P l :=
              match l with
              | [] => Forall_nil _
              | x :: t => Forall_cons x (stmt_ind' x) (go t)
              end) ss)
    end.

  Lemma stmt_block_ind : (forall s, P s) /\ (forall b, Q b).
  Proof. split; [exact stmt_ind' | exact block_ind']. Qed.
End StmtInd.
