(** Every number token of every source carries the value of a numeral: its payload is what [f64_parse]
    returned for some text (the token's own spelling: [scan_number_payload] in LiteralLaws.v; here only that
    it is *some* parse result, for all tokens of a whole lexing run at once). *)
From Coq Require Import List ZArith NArith Bool Lia.
From RRSS Require Import Base.Outcome Base.Chars Base.F64 Base.F64Text Front.Ast Front.Token Front.Lexer.
Import ListNotations.
Open Scope N_scope.

Definition num_ok (t : token) : Prop := forall v, tid t = TNumber v -> exists s, f64_parse s = Some v.
Definition not_num (id : ttype) : Prop := forall v, id <> TNumber v.
Definition stg_ok (o : option token) : Prop := match o with Some t => num_ok t | None => True end.

Lemma not_num_ok t : not_num (tid t) -> num_ok t.
Proof. intros H v E. exfalso. apply (H v E). Qed.

Lemma keywords_not_num : forallb (fun p => match snd p with TNumber _ => false | _ => true end) keywords = true.
Proof. vm_compute. reflexivity. Qed.

Lemma assoc_str_in {A} k (l : list (str * A)) v : assoc_str k l = Some v -> exists k', In (k', v) l.
Proof.
  induction l as [|[k' v'] t IH]; cbn; [discriminate|].
  destruct (str_eqb k k'); [intro H; injection H as <-; eauto|]. intro H. destruct (IH H) as [k2 H2]. eauto.
Qed.

Lemma match_keyword_not_num w id : match_keyword w = Some id -> not_num id.
Proof.
  unfold match_keyword. intro H. apply assoc_str_in in H as [k Hin].
  pose proof keywords_not_num as K. rewrite forallb_forall in K. specialize (K _ Hin). cbn in K.
  intros v E. subst id. discriminate.
Qed.

Section L.
Variable prof : profile.

Lemma make_token_from_tid lx s0 start n id t : make_token_from prof lx s0 start n id = Ok t -> tid t = id.
Proof.
  unfold make_token_from. destruct (substr prof 41 n s0); cbn [bind]; try discriminate.
  destruct (make_range_from _ _ _ _); cbn [bind]; try discriminate. intro H. injection H as <-. reflexivity.
Qed.

Lemma char_token_ok lx s0 start id r : not_num id -> char_token prof lx s0 start id = Ok r -> num_ok (lr_token r).
Proof.
  intros Hn. unfold char_token. destruct (make_token_from prof lx s0 start 1 id) as [t| | | | |] eqn:E; cbn [bind]; try discriminate.
  apply make_token_from_tid in E. intro H. apply not_num_ok.
  destruct id; injection H as <-; cbn; rewrite E; exact Hn.
Qed.

Lemma two_char_token_ok lx s0 start id r : not_num id -> two_char_token prof lx s0 start id = Ok r -> num_ok (lr_token r).
Proof.
  intros Hn. unfold two_char_token. destruct (make_token_from prof lx s0 start 2 id) as [t| | | | |] eqn:E; cbn [bind]; try discriminate.
  apply make_token_from_tid in E. intro H. injection H as <-. apply not_num_ok. cbn. rewrite E. exact Hn.
Qed.

Lemma make_error_token_ok lx s0 start msg r : make_error_token prof lx s0 start msg = Ok r -> num_ok (lr_token r).
Proof.
  unfold make_error_token. destruct (make_token_from prof lx s0 start _ _) as [t| | | | |] eqn:E; cbn [bind]; try discriminate.
  apply make_token_from_tid in E. intro H. injection H as <-. apply not_num_ok. cbn. rewrite E. intros v; discriminate.
Qed.

Lemma scan_for_text_ok lx s start text id r : not_num id -> scan_for_text prof lx s start text id = Ok (Some r) -> num_ok (lr_token r).
Proof.
  intro Hn. unfold scan_for_text. destruct (starts_with text s); [|discriminate].
  destruct (make_token_from prof lx s start _ id) as [t| | | | |] eqn:E; cbn [bind]; try discriminate.
  apply make_token_from_tid in E. intro H. injection H as <-. apply not_num_ok. cbn. rewrite E. exact Hn.
Qed.

Lemma scan_keyword_ok lx s0 start r : scan_keyword prof lx s0 start = Ok (Some r) -> num_ok (lr_token r).
Proof.
  unfold scan_keyword. destruct (substr prof 44 _ s0) as [text| | | | |]; cbn [bind]; try discriminate.
  destruct (match_keyword text) as [id|] eqn:Ek; [|discriminate].
  destruct (make_range_from _ _ _ _); cbn [bind]; try discriminate.
  intro H. injection H as <-. apply not_num_ok. cbn. eapply match_keyword_not_num; eauto.
Qed.

Lemma suffix_ok ln lstart s start r : scan_apostrophe_suffix prof ln lstart s start = Ok (Some r) -> num_ok (lr_token r).
Proof.
  unfold scan_apostrophe_suffix.
  destruct (starts_with (lit "'s") s).
  - destruct (substr prof 42 _ s); cbn [bind]; try discriminate.
    destruct (make_range_from _ _ _ _); cbn [bind]; try discriminate.
    intro H. injection H as <-. apply not_num_ok. cbn. intros v; discriminate.
  - destruct (starts_with (lit "'re") s); [|discriminate].
    destruct (substr prof 42 _ s); cbn [bind]; try discriminate.
    destruct (make_range_from _ _ _ _); cbn [bind]; try discriminate.
    intro H. injection H as <-. apply not_num_ok. cbn. intros v; discriminate.
Qed.

Lemma maybe_suffix_ok lx r after r' stg :
  num_ok (lr_token r) -> maybe_suffix prof lx r after = Ok (r', stg) -> num_ok (lr_token r') /\ stg_ok stg.
Proof.
  intro Hr. unfold maybe_suffix.
  destruct (scan_apostrophe_suffix prof _ _ after (lr_end r)) as [[s|]| | | | |] eqn:E; cbn [bind]; try discriminate.
  - intro H. injection H as <- <-. cbn. split; auto. eapply suffix_ok; eauto.
  - intro H. injection H as <- <-. split; auto. exact I.
Qed.

Lemma scan_number_ok lx s0 start r stg :
  scan_number prof lx s0 start = Ok (Some (r, stg)) -> num_ok (lr_token r) /\ stg_ok stg.
Proof.
  unfold scan_number. destruct s0 as [|c after]; [discriminate|].
  destruct (substr prof 43 _ (c :: after)) as [text| | | | |]; cbn [bind]; try discriminate.
  destruct (f64_parse text) as [v|] eqn:Ev; [|discriminate].
  destruct (make_range_from _ _ _ _) as [rg| | | | |]; cbn [bind]; try discriminate.
  destruct (maybe_suffix prof lx _ _) as [[r' stg']| | | | |] eqn:Em; cbn [bind]; try discriminate.
  intro H. injection H as <- <-. eapply maybe_suffix_ok; [|exact Em].
  cbn. intros w E. injection E as <-. eauto.
Qed.

Lemma scan_delimited_ok lx s0 open close factory err r stg :
  (forall x, not_num (factory x)) ->
  scan_delimited prof lx s0 open close factory err = Ok (r, stg) -> num_ok (lr_token r) /\ stg_ok stg.
Proof.
  intro Hf. unfold scan_delimited. destruct s0 as [|c after]; [discriminate|].
  destruct (make_loc_from _ _ open); cbn [bind]; try discriminate.
  destruct (scan_close close after (open + 1) 0 None) as [[found nl] nls].
  match goal with |- bind ?m _ = _ -> _ => destruct m as [[[ty text] e]| | | | |] eqn:Em end; cbn [bind]; try discriminate.
  assert (Hty : not_num ty).
  { destruct found as [cl|].
    - destruct (substr prof 48 _ after); cbn [bind] in Em; try discriminate.
      destruct (substr prof 49 _ (c :: after)); cbn [bind] in Em; try discriminate.
      injection Em as <- _ _. apply Hf.
    - injection Em as <- _ _. intros v; discriminate. }
  destruct (make_loc_from _ _ e); cbn [bind]; try discriminate.
  intro H. eapply maybe_suffix_ok; [|exact H]. apply not_num_ok. cbn. exact Hty.
Qed.

Lemma tokenize_word_ok lx s0 start word e r stg :
  tokenize_word prof lx s0 start word e = Ok (r, stg) -> num_ok (lr_token r) /\ stg_ok stg.
Proof.
  unfold tokenize_word.
  set (ss := first_some [strip_suffix (lit "'s") word; strip_suffix (lit "'S") word]).
  set (rs := first_some _).
  match goal with |- (let '(stripped, staged_type) := ?p in _) = _ -> _ => destruct p as [stripped staged_type] eqn:Ep end.
  assert (Hst : forall id n, staged_type = Some (id, n) -> not_num id).
  { intros id n E. subst staged_type. destruct ss; [injection Ep as _ <- _; intros v; discriminate|].
    destruct rs; [injection Ep as _ <- _; intros v; discriminate|]. discriminate. }
  match goal with |- bind ?m _ = _ -> _ => destruct m as [stg0| | | | |] eqn:Es end; cbn [bind]; try discriminate.
  assert (Hs0 : stg_ok stg0).
  { destruct staged_type as [[id n]|].
    - destruct (make_token_from prof lx _ _ n id) as [t| | | | |] eqn:Et; cbn [bind] in Es; try discriminate.
      injection Es as <-. cbn. apply not_num_ok. rewrite (make_token_from_tid _ _ _ _ _ _ Et). eapply Hst; eauto.
    - injection Es as <-. exact I. }
  destruct (debug_assert prof 45 _); cbn [bind]; try discriminate.
  destruct (make_token_from prof lx s0 start (byte_len stripped) _) as [t| | | | |] eqn:Et; cbn [bind]; try discriminate.
  intro H. injection H as <- <-. split; auto. cbn. apply not_num_ok. rewrite (make_token_from_tid _ _ _ _ _ _ Et).
  destruct (match_keyword stripped) eqn:Ek; [eapply match_keyword_not_num; eauto|intros v; discriminate].
Qed.

Lemma scan_word_ok lx s0 start r stg : scan_word prof lx s0 start = Ok (r, stg) -> num_ok (lr_token r) /\ stg_ok stg.
Proof.
  unfold scan_word. destruct (substr prof 46 _ s0) as [text| | | | |]; cbn [bind]; try discriminate.
  destruct (forallb _ text).
  - apply tokenize_word_ok.
  - destruct (make_token_from prof lx s0 start _ _) as [t| | | | |] eqn:Et; cbn [bind]; try discriminate.
    intro H. injection H as <- <-. split; [|exact I]. cbn. apply not_num_ok. rewrite (make_token_from_tid _ _ _ _ _ _ Et).
    intros v; discriminate.
Qed.

Ltac nn := let v := fresh in intros v; discriminate.

Lemma match_one_ok lx s0 start r stg : match_one prof lx s0 start = Ok (Produced r stg) -> num_ok (lr_token r) /\ stg_ok stg.
Proof.
  unfold match_one. destruct s0 as [|c after]; [discriminate|].
  assert (Hplain : forall (m : lres lex_result), (forall x, m = Ok x -> num_ok (lr_token x)) ->
             (let* x := m in Ok (Produced x None)) = Ok (Produced r stg) -> num_ok (lr_token r) /\ stg_ok stg).
  { intros m Hm. destruct m; cbn [bind]; try discriminate. intro H. injection H as <- <-. split; [apply Hm; reflexivity|exact I]. }
  assert (Hpair : forall (m : lres (lex_result * option token)), (forall a b, m = Ok (a, b) -> num_ok (lr_token a) /\ stg_ok b) ->
             (let* x := m in Ok (Produced (fst x) (snd x))) = Ok (Produced r stg) -> num_ok (lr_token r) /\ stg_ok stg).
  { intros m Hm. destruct m as [[a b]| | | | |]; cbn [bind]; try discriminate. intro H. injection H as <- <-. apply Hm. reflexivity. }
  assert (Hnum : forall (k : lres step_result),
             (k = Ok (Produced r stg) -> num_ok (lr_token r) /\ stg_ok stg) ->
             (let* n := scan_number prof lx (c :: after) start in
              match n with Some x => Ok (Produced (fst x) (snd x)) | None => k end) = Ok (Produced r stg) ->
             num_ok (lr_token r) /\ stg_ok stg).
  { intros k Hk. destruct (scan_number prof lx (c :: after) start) as [[[a b]|]| | | | |] eqn:En; cbn [bind]; try discriminate; auto.
    intro H. injection H as <- <-. eapply scan_number_ok; eauto. }
  destruct (c =? 10); [apply Hplain; intros x; apply char_token_ok; nn|].
  destruct (c =? 46); [apply Hnum; apply Hplain; intros x; apply char_token_ok; nn|].
  destruct (c =? 44); [apply Hplain; intros x; apply char_token_ok; nn|].
  destruct (c =? 38); [apply Hplain; intros x; apply char_token_ok; nn|].
  destruct (c =? 43); [apply Hplain; intros x; apply char_token_ok; nn|].
  destruct (c =? 45); [apply Hplain; intros x; apply char_token_ok; nn|].
  destruct (c =? 42); [apply Hplain; intros x; apply char_token_ok; nn|].
  destruct (c =? 47); [apply Hplain; intros x; apply char_token_ok; nn|].
  destruct (c =? 34); [apply Hpair; intros a b; apply scan_delimited_ok; intros x; nn|].
  destruct (c =? 40); [apply Hpair; intros a b; apply scan_delimited_ok; intros x; nn|].
  destruct (c =? 95); [apply Hplain; intros x; apply make_error_token_ok|].
  destruct (c =? 60).
  { destruct after as [|[|p] t]; try (apply Hplain; intros x; apply char_token_ok; nn).
    destruct (Pos.eq_dec p 61) as [->|Hne]; [apply Hplain; intros x; apply two_char_token_ok; nn|].
    repeat (destruct p as [p|p|]; try (apply Hplain; intros x; apply char_token_ok; nn); try (exfalso; apply Hne; reflexivity)). }
  destruct (c =? 62).
  { destruct after as [|[|p] t]; try (apply Hplain; intros x; apply char_token_ok; nn).
    destruct (Pos.eq_dec p 61) as [->|Hne]; [apply Hplain; intros x; apply two_char_token_ok; nn|].
    repeat (destruct p as [p|p|]; try (apply Hplain; intros x; apply char_token_ok; nn); try (exfalso; apply Hne; reflexivity)). }
  destruct (scan_for_text prof lx (c :: after) start (lit "'n'") TApostropheNApostrophe) as [[x|]| | | | |] eqn:Et; cbn [bind]; try discriminate.
  - intro H. injection H as <- <-. split; [|exact I]. eapply scan_for_text_ok; [|exact Et]. nn.
  - destruct (is_ignorable_punctuation c || (c =? 39)); [discriminate|].
    destruct (is_numeric c); [apply Hnum; apply Hplain; intros x; apply make_error_token_ok|].
    destruct (is_alphabetic c); [|apply Hplain; intros x; apply make_error_token_ok].
    destruct (scan_keyword prof lx (c :: after) start) as [[x|]| | | | |] eqn:Ek; cbn [bind]; try discriminate.
    + intro H. injection H as <- <-. split; [|exact I]. eapply scan_keyword_ok; eauto.
    + apply Hpair. intros a b. apply scan_word_ok.
Qed.

Lemma match_loop_ok : forall fuel lx t lx', match_loop prof fuel lx = Ok (Some (t, lx')) -> stg_ok (staged lx) -> num_ok t /\ stg_ok (staged lx').
Proof.
  induction fuel as [|f IH]; intros lx t lx' H Hs; cbn [match_loop] in H; [discriminate|].
  destruct (find_word_start (rest lx) (idx lx)) as [s0 start].
  destruct s0 as [|c after]; [discriminate|].
  destruct (match_one prof lx (c :: after) start) as [st| | | | |] eqn:Em; cbn [bind] in H; try discriminate.
  destruct st as [r stg| |]; try discriminate.
  - destruct (debug_assert prof 50 _); cbn [bind] in H; try discriminate.
    destruct (advance_to after _ (lr_end r)) as [s2 i2]. injection H as <- <-. cbn [staged].
    eapply match_one_ok; eauto.
  - apply IH in H; auto.
Qed.

Lemma lex_all_ok buflen : forall fuel lx pts, lex_all prof fuel buflen lx = Ok pts -> stg_ok (staged lx) ->
  Forall (fun pt => num_ok (pt_tok pt)) pts.
Proof.
  induction fuel as [|f IH]; intros lx pts H Hs; cbn [lex_all] in H; [discriminate|].
  destruct (lexer_next prof (S (length (rest lx))) lx) as [[[t lx']|]| | | | |] eqn:En; cbn [bind] in H; try discriminate.
  - destruct (post_state buflen lx') as [ln lc].
    destruct (lex_all prof f buflen lx') as [ts| | | | |] eqn:El; cbn [bind] in H; try discriminate.
    injection H as <-.
    assert (Ht : num_ok t /\ stg_ok (staged lx')).
    { unfold lexer_next in En. destruct (staged lx) as [t2|] eqn:Est.
      - injection En as <- <-. cbn. split; [exact Hs|exact I].
      - eapply match_loop_ok; eauto. rewrite Est. exact I. }
    constructor; [exact (proj1 Ht)|]. eapply IH; eauto. exact (proj2 Ht).
  - injection H as <-. constructor.
Qed.

(** ** every number token of a lexed source carries a parsed numeral *)
Theorem lex_numbers src pts : lex prof src = Ok pts -> Forall (fun pt => num_ok (pt_tok pt)) pts.
Proof. unfold lex. intro H. eapply lex_all_ok; eauto. exact I. Qed.
End L.
