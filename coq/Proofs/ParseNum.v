(** Every program the parser returns has binary64 number literals ([okb], Proofs/InterpNum.v), hence every number
    a run of a parsed program ever holds is a binary64 datum.  Number tokens carry parsed numerals (LexNumbers), parsed
    numerals are binary64 data (LintValid.f64_parse_valid), an accepted program is a tree of the grammar over its tokens
    (ParseSound), and the grammar copies literal values from tokens. *)
From Coq Require Import List ZArith NArith Bool Lia.
From RRSS Require Import Base.Outcome Base.Chars Base.F64 Base.F64Text Exec.Val Exec.Ops Front.Ast Front.Token Front.Lexer Front.Parser Front.Grammar Exec.Env Exec.Interp.
From RRSS Require Import Proofs.GrammarLaws Proofs.ParseSound Proofs.LexNumbers Proofs.FloatValid Proofs.LintValid Proofs.LintSource Proofs.InterpNum.
Import ListNotations.

Lemma forallb_snoc {A} (f : A -> bool) l x : forallb f l = true -> f x = true -> forallb f (l ++ [x]) = true.
Proof. intros H1 H2. rewrite forallb_app. cbn. rewrite H1, H2. reflexivity. Qed.

Lemma lit_ok t l : tokv [t] -> literal_of_token (tid t) = Some l -> okl l = true.
Proof.
  intros Ht H. destruct l; try reflexivity. apply lit_num in H. inversion Ht; subst. cbn. apply H2. exact H.
Qed.

Theorem g_expr_ok : forall L ts e, g L ts e -> tokv ts -> okx e = true.
Proof.
  apply (g_mind (fun ts p _ => tokv ts -> okp p = true) (fun ts p _ => tokv ts -> okp p = true)
                (fun L ts e _ => tokv ts -> okx e = true)
                (fun L ts r _ => tokv ts -> forallb okx r = true) (fun ts l _ => tokv ts -> forallb okx l = true));
    intros; cbn [okp okx forallb]; tv; auto.
  - (* literal *) eapply lit_ok; eauto.
  - (* roll *) apply H. eapply tokv_cons; eauto.
  - (* subscript *) rewrite H, H0; auto.
  - (* unary *) apply H. eapply tokv_cons; eauto.
  - (* binary *) rewrite H, H0, H1; auto.
  - (* is *) rewrite H, H0; auto.
  - (* list *) apply forallb_snoc; auto.
  - (* one argument *) rewrite H; auto.
  - (* arguments *) apply forallb_snoc; auto.
Qed.

Theorem g_primary_ok : forall ts p, g_primary ts p -> tokv ts -> okp p = true.
Proof.
  apply (g_primary_mind (fun ts p _ => tokv ts -> okp p = true) (fun ts p _ => tokv ts -> okp p = true)
                (fun L ts e _ => tokv ts -> okx e = true)
                (fun L ts r _ => tokv ts -> forallb okx r = true) (fun ts l _ => tokv ts -> forallb okx l = true));
    intros; cbn [okp okx forallb]; tv; auto.
  - eapply lit_ok; eauto.
  - apply H. eapply tokv_cons; eauto.
  - rewrite H, H0; auto.
  - apply H. eapply tokv_cons; eauto.
  - rewrite H, H0, H1; auto.
  - rewrite H, H0; auto.
  - apply forallb_snoc; auto.
  - rewrite H; auto.
  - apply forallb_snoc; auto.
Qed.

Theorem g_list_ok : forall L ts r, g_list L ts r -> tokv ts -> forallb okx r = true.
Proof.
  induction 1 as [|L ts l tc te e Hl IH Hc He]; intro H; [reflexivity|].
  tv. apply forallb_snoc; auto. eapply g_expr_ok; eauto.
Qed.

Theorem g_args_ok : forall ts l, g_args ts l -> tokv ts -> forallb okx l = true.
Proof.
  induction 1 as [te e He|ts l tsep te e Hl IH Hs He]; intro H.
  - cbn. erewrite g_expr_ok; eauto.
  - tv. apply forallb_snoc; auto. eapply g_expr_ok; eauto.
Qed.

Lemma g_lhs_ok tl d : g_lhs tl d -> tokv tl -> oklhs d = true.
Proof. unfold g_lhs, oklhs. destruct d; cbn; apply g_primary_ok. Qed.

Lemma block_new_ok l ss : forallb oks ss = true -> okb (block_new l ss) = true.
Proof. intro H. unfold block_new. destruct ss; [reflexivity|exact H]. Qed.

Ltac leaf :=
  match goal with
  | |- true = true => reflexivity
  | |- (_ && _)%bool = true => apply andb_true_iff; split; leaf
  | |- okx _ = true => eapply g_expr_ok; [eassumption|assumption]
  | |- okp _ = true => eapply g_primary_ok; [eassumption|assumption]
  | |- oklhs _ = true => eapply g_lhs_ok; [eassumption|assumption]
  | |- forallb okx _ = true => first [eapply g_list_ok; [eassumption|assumption] | eapply g_args_ok; [eassumption|assumption]]
  | |- okopt _ None = true => reflexivity
  | |- okopt _ (Some _) = true => cbn [okopt]; leaf
  end.

Lemma g_stmt_ok : forall ts st, g_stmt ts st -> tokv ts -> oks st = true
with g_block_ok : forall ts b, g_block ts b -> tokv ts -> okb b = true
with g_stmts_ok : forall ts ss, g_stmts ts ss -> tokv ts -> forallb oks ss = true.
Proof.
  - intros ts st H. destruct H; intro Ht; cbn [oks forallb];
      repeat match goal with
      | Ho : _ /\ _ \/ _ |- _ => destruct Ho as [[-> ->]|Ho]
      | Ho : exists _, _ |- _ => destruct Ho as [? Ho]
      | Ho : _ = _ /\ _ |- _ => destruct Ho as [-> Ho]
      | Ho : _ /\ _ |- _ => destruct Ho as [? Ho]
      end; subst; tv; try leaf.
    + (* function *) eapply g_block_ok; [eassumption|assumption].
    + (* if, no else *) apply andb_true_iff; split; [apply andb_true_iff; split; [leaf|eapply g_block_ok; [eassumption|assumption]]|reflexivity].
    + (* if, else *) apply andb_true_iff; split; [apply andb_true_iff; split; [leaf|eapply g_block_ok; [eassumption|assumption]]|eapply g_block_ok; [eassumption|assumption]].
    + (* while *) apply andb_true_iff; split; [leaf|eapply g_block_ok; [eassumption|assumption]].
    + (* until *) apply andb_true_iff; split; [leaf|eapply g_block_ok; [eassumption|assumption]].
  - intros ts b H. destruct H; intro Ht; [reflexivity|]. apply block_new_ok. eapply g_stmts_ok; [eassumption|assumption].
  - intros ts ss H. destruct H; intro Ht; [reflexivity|]. tv. apply forallb_snoc.
    + eapply g_stmts_ok; [eassumption|assumption].
    + eapply g_stmt_ok; [eassumption|assumption].
Qed.

Lemma g_program_ok ts p : g_program ts p -> tokv ts -> forallb okb p = true.
Proof.
  induction 1 as [|ts p tb b Hp IH Hb]; intro Ht; [reflexivity|]. tv.
  destruct (block_is_empty b); [auto|]. apply forallb_snoc; auto. eapply g_block_ok; eauto.
Qed.

(** ** every number literal of an accepted program is a binary64 datum *)
Theorem parsed_program_ok prof src p : parse prof src = ParseOk p -> forallb okb p = true.
Proof.
  intro H. destruct (parse_sound prof src p H) as (pts & Hl & Hg).
  eapply g_program_ok; eauto. eapply lexed_tokv; eauto.
Qed.

(** ** every number a run of a parsed program holds — in any variable of any scope, at any depth of arrays and
    dictionaries, and in the value a function hands back — is a binary64 datum, at every point the run can stop
    (normally or with a runtime error), for every fuel, input, fault position and build profile *)
Theorem run_numbers_are_binary64 prof prof' src p fuel c :
  parse prof src = ParseOk p -> NInv dn_x (exec_program prof' fuel p c).
Proof. intro H. apply exec_program_dn. eapply parsed_program_ok; eauto. Qed.

(** in particular: the value of any expression of the program evaluated in any state the run reaches *)
Theorem expression_values_are_binary64 prof f x e a e1 :
  okx x = true -> dn_env e -> produce_expr prof f x e = XOk a e1 -> dn a /\ dn_env e1.
Proof. apply produce_expr_dn. Qed.

(** non-vacuity: a run that stores numbers made by a poetic literal, a literal, a division, a cast and an array *)
Example run_numbers_example :
  let src := lit "X is ice cold
let Y be X over 0.3
cast ""7"" into Z
rock Arr with Y, Z
" in
  exists p e xs, parse Debug src = ParseOk p /\
    exec_program Debug 100 p (mkChan [] 0 None [] None) = XOk xs e /\ dn_env e /\
    exists y, find_var (Simple (lit "arr")) (scopes e) = Ok (VArr [VNum y; VNum (f_of_Z 7)] []) /\ fvalid y /\ y <> f_of_Z 113.
Proof.
  cbv zeta. eexists. eexists. eexists. split; [vm_compute; reflexivity|]. split; [vm_compute; reflexivity|]. split.
  - unfold dn_env. cbn [scopes]. repeat constructor.
  - eexists. split; [vm_compute; reflexivity|]. split; [vm_compute; reflexivity|]. vm_compute. discriminate.
Qed.
