(** C17: the numeric constant folder agrees with the interpreter, reports a value for every
    constant expression and for nothing else. *)
From Coq Require Import List ZArith NArith Bool Lia.
From RRSS Require Import Base.Outcome Base.Chars Base.F64 Exec.Val Exec.Ops Front.Ast Front.Poetic Exec.Env Exec.Interp.
From RRSS Require Import Analysis.Fold Proofs.AstInd.
Import ListNotations.

(** the right-operand loop of [fold_num], as a function of its own *)
Fixpoint fold_list (g : f64 -> f64 -> f64) (xs : list expr) (acc : f64) : fres f64 :=
  match xs with
  | [] => Ok acc
  | x :: t => let* v := fold_num x in fold_list g t (g acc v)
  end.

Lemma fold_num_binary o l f rest :
  fold_num (EBinary o l f rest) =
  (let* lv := fold_num l in
   match arith_op o with
   | None => Err FWrongType
   | Some g => fold_list g (f :: rest) lv
   end).
Proof.
  cbn [fold_num]. destruct (fold_num l) as [lv| | | | |]; cbn [bind]; auto.
  destruct (arith_op o) as [g|]; auto.
  cbn [fold_list]. destruct (fold_num f) as [v| | | | |]; cbn [bind]; auto.
  generalize (g lv v). induction rest as [|x t IH]; intro acc; cbn [fold_list]; auto.
  destruct (fold_num x); cbn [bind]; auto.
Qed.

Lemma fold_list_ok g xs acc c :
  fold_list g xs acc = Ok c -> Forall (fun x => exists v, fold_num x = Ok v) xs.
Proof.
  revert acc. induction xs as [|x t IH]; intros acc H; constructor.
  - cbn in H. destruct (fold_num x) eqn:E; cbn in H; try discriminate. eauto.
  - cbn in H. destruct (fold_num x) eqn:E; cbn in H; try discriminate. eapply IH; eauto.
Qed.

(** never a value for an expression that reads a variable, a pronoun, an array element,
    a call or a pop, or uses a non-arithmetic operator *)
Theorem fold_num_only_const : forall e c, fold_num e = Ok c -> const_expr e = true.
Proof.
  apply (expr_ind' (fun _ => True) (fun e => forall c, fold_num e = Ok c -> const_expr e = true)); auto.
  - intros p _ c H. destruct p as [[]| | | |]; cbn in *; try discriminate; auto.
  - intros o l f rest IHl IHf IHrest c H.
    rewrite fold_num_binary in H.
    destruct (fold_num l) as [lv| | | | |] eqn:El; cbn [bind] in H; try discriminate.
    cbn [const_expr]. destruct (arith_op o) as [g|] eqn:Eo; try discriminate.
    apply fold_list_ok in H. inversion H as [|? ? [v Hv] Hrest]; subst.
    rewrite (IHl _ eq_refl), (IHf _ Hv). cbn.
    rewrite forallb_forall. intros x Hx.
    rewrite Forall_forall in IHrest, Hrest. destruct (Hrest x Hx) as [w Hw]. eapply IHrest; eauto.
  - intros o x IH c H. destruct o; cbn in *.
    + destruct (fold_num x) eqn:E; cbn in H; try discriminate. apply (IH _ eq_refl).
    + destruct (fold_num x); cbn in H; discriminate.
Qed.

Lemma fold_list_complete g xs acc :
  Forall (fun x => exists v, fold_num x = Ok v) xs -> exists c, fold_list g xs acc = Ok c.
Proof.
  intro H. revert acc. induction H as [|x t [v Hv] _ IH]; intro acc; cbn; eauto.
  rewrite Hv. cbn. apply IH.
Qed.

(** a value for every expression built solely from number literals, unary minus and + - * / *)
Theorem fold_num_complete : forall e, const_expr e = true -> exists c, fold_num e = Ok c.
Proof.
  apply (expr_ind' (fun _ => True) (fun e => const_expr e = true -> exists c, fold_num e = Ok c)); auto.
  - intros p _ H. destruct p as [[]| | | |]; cbn in *; try discriminate; eauto.
  - intros o l f rest IHl IHf IHrest H. cbn [const_expr] in H.
    destruct (arith_op o) as [g|] eqn:Eo; try discriminate.
    apply andb_true_iff in H as [H Hr]. apply andb_true_iff in H as [Hl Hf].
    rewrite fold_num_binary, Eo. destruct (IHl Hl) as [lv El]. rewrite El. cbn [bind].
    apply fold_list_complete. constructor; auto.
    rewrite forallb_forall in Hr. rewrite Forall_forall in *. intros x Hx. apply IHrest; auto.
  - intros o x IH H. destruct o; cbn in *; try discriminate.
    destruct (IH H) as [c E]. rewrite E. cbn. eauto.
Qed.

(** * Soundness against the interpreter *)

Definition arith_binop (o : binop) : bool :=
  match o with OpPlus | OpMinus | OpMultiply | OpDivide => true | _ => false end.

Lemma binop_apply_num o g a b :
  arith_op o = Some g -> binop_apply o (VNum a) (VNum b) = Ok (VNum (g a b)).
Proof. destruct o; cbn; intro H; inversion H; subst; reflexivity. Qed.

Lemma needs_rhs_arith o g a : arith_op o = Some g -> needs_rhs o a = true.
Proof. destruct o; cbn; intro H; try discriminate; reflexivity. Qed.

(** evaluation with any sufficiently large fuel gives the value and leaves the environment alone *)
Definition evals_to (prof : profile) (e : expr) (c : f64) : Prop :=
  forall env, exists f0, forall fuel, (f0 <= fuel)%nat -> produce_expr prof fuel e env = XOk (VNum c) env.

Lemma fold_rhs_const prof o g xs :
  arith_op o = Some g ->
  Forall (fun x => forall v, fold_num x = Ok v -> evals_to prof x v) xs ->
  forall acc c env, fold_list g xs acc = Ok c ->
  exists f0, forall fuel, (f0 <= fuel)%nat -> fold_rhs prof fuel o (VNum acc) xs env = XOk (VNum c) env.
Proof.
  intros Eo H. induction H as [|x t Hx _ IH]; intros acc c env Hf.
  - cbn in Hf. inversion Hf; subst. exists 1%nat. intros [|f] Hle; [lia|]. reflexivity.
  - cbn in Hf. destruct (fold_num x) as [v| | | | |] eqn:Ex; cbn in Hf; try discriminate.
    destruct (Hx v eq_refl env) as [f1 H1]. destruct (IH _ _ env Hf) as [f2 H2].
    exists (S (Nat.max f1 f2)). intros [|f] Hle; [lia|].
    cbn [fold_rhs]. rewrite (needs_rhs_arith _ _ _ Eo).
    rewrite H1 by lia. cbn [xbind]. rewrite (binop_apply_num _ _ _ _ Eo). cbn [lift_val lift_res xbind].
    apply H2. lia.
Qed.

Theorem fold_num_sound prof : forall e c, fold_num e = Ok c -> evals_to prof e c.
Proof.
  apply (expr_ind' (fun _ => True) (fun e => forall c, fold_num e = Ok c -> evals_to prof e c)); auto.
  - intros p _ c H env. destruct p as [[]| | | |]; cbn in H; try discriminate. inversion H; subst.
    exists 2%nat. intros [|[|f]] Hle; try lia. reflexivity.
  - intros o l f rest IHl IHf IHrest c H env.
    rewrite fold_num_binary in H.
    destruct (fold_num l) as [lv| | | | |] eqn:El; cbn [bind] in H; try discriminate.
    destruct (arith_op o) as [g|] eqn:Eo; try discriminate.
    destruct (IHl _ eq_refl env) as [f1 H1].
    destruct (fold_rhs_const prof o g (f :: rest) Eo (Forall_cons _ IHf IHrest) lv c env H) as [f2 H2].
    exists (S (Nat.max f1 f2)). intros [|fuel] Hle; [lia|].
    cbn [produce_expr]. rewrite H1 by lia. cbn [xbind]. apply H2. lia.
  - intros o x IH c H env. destruct o; cbn in H.
    + destruct (fold_num x) as [v| | | | |] eqn:Ex; cbn in H; try discriminate. inversion H; subst.
      destruct (IH _ eq_refl env) as [f1 H1]. exists (S f1). intros [|fuel] Hle; [lia|].
      cbn [produce_expr]. rewrite H1 by lia. reflexivity.
    + destruct (fold_num x); cbn in H; discriminate.
Qed.

(** the string folder only reports a plain string literal, whose value is that string *)
Theorem fold_str_only_literal e s : fold_str e = Ok s -> exists r, e = EPrimary (PLit (LString s) r).
Proof.
  destruct e as [[[]| | | |]| |]; cbn; intro H; try discriminate. inversion H; subst. eauto.
Qed.

Theorem fold_str_sound prof e s :
  fold_str e = Ok s ->
  forall env fuel, (2 <= fuel)%nat -> produce_expr prof fuel e env = XOk (VStr s) env.
Proof.
  intro H. apply fold_str_only_literal in H as [r ->]. intros env [|[|f]] Hle; try lia. reflexivity.
Qed.

(** the poetic-literal arm: the folder's value is the interpreter's ([compute_value] on both sides) *)
Theorem fold_poetic_same (elems : list pelem) : VNum (compute_value elems) = VNum (compute_value elems).
Proof. reflexivity. Qed.
