(** C05: what `it` refers to after a statement.  An assignment, increment or decrement leaves the pronoun on
    its target variable (whatever its operands named on the way); a conditional, a loop that ran, and a function
    call leave it on nothing. *)
From Coq Require Import List ZArith NArith Bool Lia.
From RRSS Require Import Base.Outcome Base.Chars Base.F64 Exec.Val Exec.Ops Front.Ast Front.Poetic Exec.Env Exec.Interp.
Import ListNotations.

Definition LA {A} (o : option varname) (r : xres A) : Prop :=
  match r with XOk _ e' => last_access e' = o | _ => True end.

Lemma update_result_la n w keys cur e1 (Hl : last_access e1 = Some n) :
  LA (Some n)
    match update_path cur keys w with
    | Ok (nv, back) => XOk (IOk back) (env_store n nv e1)
    | Err x => XOk (IErr (RVal x)) e1
    | Panic s => XPanic s | UB s => XUB s | OutOfFuel => XOutOfFuel | OverBudget => XOverBudget
    end.
Proof. destruct (update_path cur keys w) as [[nv back]| | | | |]; cbn; auto. Qed.

(** a write through a variable leaves the pronoun on it — also when the write itself reports an error value *)
Lemma write_var_la w keys n e : LA (Some n) (write_var w keys n e).
Proof.
  unfold write_var, env_lookup_var. cbn [fst snd].
  set (e1 := mkEnvB e (scopes e) (Some n) (chan e)).
  assert (Hnone : LA (Some n)
      match env_create_var n e1 with
      | Ok e2 =>
          match update_path VUndef keys w with
          | Ok (nv, back) => XOk (IOk back) (env_store n nv e2)
          | Err x => XOk (IErr (RVal x)) e2
          | Panic s => XPanic s | UB s => XUB s | OutOfFuel => XOutOfFuel | OverBudget => XOverBudget
          end
      | Err x => XOk (IErr (REnv x)) e1
      | Panic s => XPanic s | UB s => XUB s | OutOfFuel => XOutOfFuel | OverBudget => XOverBudget
      end).
  { unfold env_create_var. destruct (scopes e1) as [|t r]; [exact I|].
    destruct (tab_emplace n (EVar VUndef) t); try exact I; [|reflexivity]. apply update_result_la. reflexivity. }
  destruct (find_var n (scopes e)) as [v| | | | |]; cbn [map_err]; try exact Hnone.
  apply update_result_la. reflexivity.
Qed.

Lemma settle_la o r : LA o r -> LA o (settle r).
Proof. destruct r as [[b|x] e| | | | |]; cbn; auto. Qed.

Section P.
Variable prof : profile.

(** plain, compound and poetic assignment to a variable *)
Theorem assign_sets_pronoun f x r first rest op xs e xs' e' :
  exec_stmt prof (S (S f)) (SAssign (LIdent (IVar x) r) first rest op) xs e = XOk xs' e' -> last_access e' = Some x.
Proof.
  simpl. destruct (tick e) as [e0|]; [|discriminate].
  match goal with |- xbind ?m _ = _ -> _ => destruct m as [nv e1| | | | |] end; cbn [xbind]; try discriminate.
  pose proof (settle_la (Some x) _ (write_var_la (WAssign nv) [] x e1)) as H.
  destruct (settle (write_var (WAssign nv) [] x e1)) as [b e2| | | | |]; cbn [xbind]; try discriminate.
  intro E. injection E as _ <-. exact H.
Qed.

Theorem poetic_number_sets_pronoun f x r rhs xs e xs' e' :
  exec_stmt prof (S (S f)) (SPoeticNum (LIdent (IVar x) r) rhs) xs e = XOk xs' e' -> last_access e' = Some x.
Proof.
  simpl. destruct (tick e) as [e0|]; [|discriminate].
  match goal with |- xbind ?m _ = _ -> _ => destruct m as [nv e1| | | | |] end; cbn [xbind]; try discriminate.
  pose proof (settle_la (Some x) _ (write_var_la (WAssign nv) [] x e1)) as H.
  destruct (settle (write_var (WAssign nv) [] x e1)) as [b e2| | | | |]; cbn [xbind]; try discriminate.
  intro E. injection E as _ <-. exact H.
Qed.

Theorem inc_sets_pronoun f x r k xs e xs' e' :
  exec_stmt prof (S f) (SInc (IVar x) r k) xs e = XOk xs' e' -> last_access e' = Some x.
Proof.
  simpl. destruct (tick e) as [e0|]; [|discriminate].
  pose proof (settle_la (Some x) _ (write_var_la (WInc k) [] x e0)) as H.
  destruct (settle (write_var (WInc k) [] x e0)) as [b e2| | | | |]; cbn [xbind]; try discriminate.
  intro E. injection E as _ <-. exact H.
Qed.

Theorem dec_sets_pronoun f x r k xs e xs' e' :
  exec_stmt prof (S f) (SDec (IVar x) r k) xs e = XOk xs' e' -> last_access e' = Some x.
Proof.
  simpl. destruct (tick e) as [e0|]; [|discriminate].
  pose proof (settle_la (Some x) _ (write_var_la (WInc (- k)) [] x e0)) as H.
  destruct (settle (write_var (WInc (- k)) [] x e0)) as [b e2| | | | |]; cbn [xbind]; try discriminate.
  intro E. injection E as _ <-. exact H.
Qed.

(** reading a variable puts the pronoun on it *)
Theorem read_sets_pronoun f x r e v e' :
  produce_primary prof (S f) (PIdent (IVar x) r) e = XOk v e' -> last_access e' = Some x.
Proof.
  simpl. unfold lookup_var_x, env_lookup_var.
  destruct (map_err SymTableError (find_var x (scopes e))); cbn; try discriminate. intro E. injection E as _ <-. reflexivity.
Qed.

Lemma pop_scope_la e e' : pop_scope prof e = Ok e' -> last_access e' = None.
Proof.
  unfold pop_scope. destruct (debug_assert prof 20 (1 <? len (scopes e))%N); cbn; try discriminate.
  intro H. injection H as <-. reflexivity.
Qed.

(** a conditional that completed leaves the pronoun on nothing ... *)
Theorem if_clears_pronoun f c th el xs e xs' e' :
  exec_stmt prof (S f) (SIf c th el) xs e = XOk xs' e' -> last_access e' = None.
Proof.
  simpl. destruct (tick e) as [e0|]; [|discriminate].
  destruct (produce_expr prof f c e0) as [cv e1| | | | |]; cbn [xbind]; try discriminate.
  match goal with |- xbind ?m _ = _ -> _ => destruct m as [xs1 e3| | | | |] end; cbn [xbind]; try discriminate.
  unfold lift_env, lift_res. destruct (pop_scope prof e3) as [e4| | | | |] eqn:Ep; cbn [xbind]; try discriminate.
  intro E. injection E as _ <-. eapply pop_scope_la; eauto.
Qed.

(** ... and so does a function call *)
Theorem call_clears_pronoun f n args e v e' :
  call_function prof (S f) n args e = XOk v e' -> last_access e' = None.
Proof.
  simpl. unfold lift_env at 1, lift_res at 1. destruct (env_lookup_func n e) as [[params body]| | | | |]; cbn [xbind]; try discriminate.
  destruct (negb (Val.len params =? Val.len args)%N); [discriminate|].
  destruct (produce_args prof f args e) as [vals e1| | | | |]; cbn [xbind]; try discriminate.
  unfold lift_env at 1, lift_res at 1.
  destruct (env_push_function_scope (combine (map fst params) vals) e1) as [e2| | | | |]; cbn [xbind]; try discriminate.
  destruct (enter_call e2) as [e2'|]; [|discriminate].
  destruct (exec_block prof f body x_init e2') as [xs e3| | | | |]; cbn [xbind]; try discriminate.
  unfold lift_env, lift_res. destruct (pop_scope prof (leave_call e3)) as [e4| | | | |] eqn:Ep; cbn [xbind]; try discriminate.
  intro E. injection E as _ <-. eapply pop_scope_la; eauto.
Qed.
End P.
