(** Byte-level facts about text slicing used by the lexer proofs. *)
From Coq Require Import List ZArith NArith Bool Lia.
From RRSS Require Import Base.Outcome Base.Chars Base.F64 Front.Ast Front.Token Front.Lexer.
Import ListNotations.
Open Scope N_scope.

Lemma utf8_len_pos c : 1 <= utf8_len c.
Proof. unfold utf8_len. destruct (c <? 128), (c <? 2048), (c <? 65536); lia. Qed.

Lemma utf8_len_le4 c : utf8_len c <= 4.
Proof. unfold utf8_len. destruct (c <? 128), (c <? 2048), (c <? 65536); lia. Qed.

Lemma byte_len_app a b : byte_len (a ++ b) = byte_len a + byte_len b.
Proof. induction a as [|c t IH]; cbn [app byte_len]; [lia|]. rewrite IH. lia. Qed.

Lemma byte_len_nil_iff s : byte_len s = 0 <-> s = [].
Proof.
  destruct s as [|c t]; cbn; split; auto; try discriminate.
  intro H. pose proof (utf8_len_pos c). lia.
Qed.

Lemma take_bytes_0 s : take_bytes 0 s = Some [].
Proof. destruct s; reflexivity. Qed.

Lemma take_bytes_cons n c t :
  take_bytes n (c :: t) =
  if n =? 0 then Some [] else if n <? utf8_len c then None else
  match take_bytes (n - utf8_len c) t with Some r => Some (c :: r) | None => None end.
Proof. reflexivity. Qed.

(** a successful slice is a prefix of exactly that many bytes *)
Lemma take_bytes_spec : forall s n r, take_bytes n s = Some r -> exists rest, s = r ++ rest /\ byte_len r = n.
Proof.
  induction s as [|c t IH]; intros n r H.
  - cbn in H. destruct (n =? 0) eqn:E; try discriminate. apply N.eqb_eq in E. inversion H; subst. exists []. auto.
  - rewrite take_bytes_cons in H. destruct (n =? 0) eqn:E.
    + apply N.eqb_eq in E. inversion H; subst. exists (c :: t). auto.
    + apply N.eqb_neq in E. destruct (n <? utf8_len c) eqn:E2; try discriminate. apply N.ltb_ge in E2.
      destruct (take_bytes (n - utf8_len c) t) as [r'|] eqn:E3; try discriminate. inversion H; subst.
      destruct (IH _ _ E3) as (rest & -> & Hl).
      exists rest. split; auto. cbn [byte_len]. lia.
Qed.

(** slicing at the end of a prefix succeeds *)
Lemma take_bytes_app a : forall b, take_bytes (byte_len a) (a ++ b) = Some a.
Proof.
  induction a as [|c t IH]; intro b; cbn [app byte_len].
  - apply take_bytes_0.
  - rewrite take_bytes_cons. pose proof (utf8_len_pos c).
    destruct (utf8_len c + byte_len t =? 0) eqn:E; [apply N.eqb_eq in E; lia|].
    destruct (utf8_len c + byte_len t <? utf8_len c) eqn:E2; [apply N.ltb_lt in E2; lia|].
    replace (utf8_len c + byte_len t - utf8_len c) with (byte_len t) by lia. rewrite IH. reflexivity.
Qed.

Lemma drop_bytes_0 s : drop_bytes 0 s = s.
Proof. destruct s; reflexivity. Qed.

Lemma drop_bytes_app a : forall b, drop_bytes (byte_len a) (a ++ b) = b.
Proof.
  induction a as [|c t IH]; intro b; cbn [app byte_len].
  - apply drop_bytes_0.
  - pose proof (utf8_len_pos c). cbn [drop_bytes].
    destruct (utf8_len c + byte_len t =? 0) eqn:E; [apply N.eqb_eq in E; lia|].
    destruct (utf8_len c + byte_len t <? utf8_len c) eqn:E2; [apply N.ltb_lt in E2; lia|].
    replace (utf8_len c + byte_len t - utf8_len c) with (byte_len t) by lia. apply IH.
Qed.

(** [prefix_len]: the longest prefix avoiding [stop] *)
Fixpoint take_while_not (stop : char -> bool) (s : str) : str :=
  match s with [] => [] | c :: t => if stop c then [] else c :: take_while_not stop t end.
Fixpoint drop_while_not (stop : char -> bool) (s : str) : str :=
  match s with [] => [] | c :: t => if stop c then s else drop_while_not stop t end.

Lemma span_split stop s : s = take_while_not stop s ++ drop_while_not stop s.
Proof. induction s as [|c t IH]; cbn; auto. destruct (stop c); cbn; congruence. Qed.

Lemma prefix_len_spec stop s : prefix_len stop s = byte_len (take_while_not stop s).
Proof. induction s as [|c t IH]; cbn; auto. destruct (stop c); cbn; lia. Qed.

Lemma take_while_not_all stop s : forallb (fun c => negb (stop c)) (take_while_not stop s) = true.
Proof. induction s as [|c t IH]; cbn; auto. destruct (stop c) eqn:E; cbn; auto. rewrite E. auto. Qed.

Lemma drop_while_not_head stop s :
  match drop_while_not stop s with [] => True | c :: _ => stop c = true end.
Proof. induction s as [|c t IH]; cbn; auto. destruct (stop c) eqn:E; auto. Qed.

Lemma byte_len_le_app a b : byte_len a <= byte_len (a ++ b).
Proof. rewrite byte_len_app. lia. Qed.

(** prefix relation *)
Definition is_prefix (p s : str) : Prop := exists rest, s = p ++ rest.

Lemma starts_with_prefix p s : starts_with p s = true -> is_prefix p s.
Proof.
  revert s. induction p as [|x p IH]; intros s H; cbn in *.
  - exists s. reflexivity.
  - destruct s as [|y s]; try discriminate. apply andb_true_iff in H as [H1 H2].
    apply N.eqb_eq in H1. subst. destruct (IH _ H2) as [rest ->]. exists rest. reflexivity.
Qed.

Lemma strip_prefix_some p s r : strip_prefix p s = Some r -> s = p ++ r.
Proof.
  revert s. induction p as [|x p IH]; intros s H; cbn in *.
  - inversion H; auto.
  - destruct s as [|y s]; try discriminate. destruct (x =? y) eqn:E; try discriminate.
    apply N.eqb_eq in E. subst. f_equal. auto.
Qed.

Lemma strip_suffix_some p s r : strip_suffix p s = Some r -> s = r ++ p.
Proof.
  unfold strip_suffix. destruct (strip_prefix (rev p) (rev s)) as [x|] eqn:E; try discriminate.
  intro H; inversion H; subst. apply strip_prefix_some in E.
  rewrite <- (rev_involutive s), E, rev_app_distr, rev_involutive. reflexivity.
Qed.

Lemma trim_end_apostrophes_prefix s : exists q, s = trim_end_apostrophes s ++ q /\ forallb (fun c => c =? 39) q = true.
Proof.
  unfold trim_end_apostrophes.
  assert (H : forall r, exists q, r = q ++ trim_end_apostrophes_rev r /\ forallb (fun c => c =? 39) q = true).
  { induction r as [|c t IH]; cbn.
    - exists []. auto.
    - destruct (N.eq_dec c 39) as [->|Hne].
      + destruct IH as (q & Hq & Hall). exists (39 :: q). split; [cbn; congruence|cbn; auto].
      + exists []. split; auto.
        destruct c as [|p]; auto.
        (* c <> 39: the match falls through *)
        destruct p as [p|p|]; auto; destruct p as [p|p|]; auto; destruct p as [p|p|]; auto;
          destruct p as [p|p|]; auto; destruct p as [p|p|]; auto; destruct p as [p|p|]; auto; contradiction. }
  destruct (H (rev s)) as (q & Hq & Hall).
  exists (rev q). split.
  - rewrite <- (rev_involutive s) at 1. rewrite Hq at 1. rewrite rev_app_distr. reflexivity.
  - rewrite forallb_forall in *. intros x Hx. apply Hall. apply in_rev. exact Hx.
Qed.
