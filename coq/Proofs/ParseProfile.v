(** The build profile does not matter to the front end either: [parse Debug src = parse Release src] for every source
    shorter than 4 GiB.  A debug result either equals the release result or is a panic ([Rp], one pass over the
    parser's and the lexer's functions with no invariant); a debug parse never panics (C01_parse_never_crashes). *)
From Coq Require Import List ZArith NArith Bool Lia.
From RRSS Require Import Base.Outcome Base.Chars Base.F64 Front.Ast Front.Token Front.Lexer Front.Parser.
From RRSS Require Import Proofs.ParseLayout.
Import ListNotations.

Definition Rp {E A} (d r : res E A) : Prop := d = r \/ exists s, d = Panic s.

Lemma Rp_refl {E A} (x : res E A) : Rp x x.
Proof. left. reflexivity. Qed.

Lemma Rp_bind {E A B} (md mr : res E A) (kd kr : A -> res E B) :
  Rp md mr -> (forall a, Rp (kd a) (kr a)) -> Rp (bind md kd) (bind mr kr).
Proof.
  intros [->|[s ->]] Hk; [|right; eexists; reflexivity].
  destruct mr; cbn; try apply Rp_refl. apply Hk.
Qed.

Lemma Rp_assert {E} s c : Rp (E := E) (debug_assert Debug s c) (debug_assert Release s c).
Proof. destruct c; cbn; [apply Rp_refl|right; eexists; reflexivity]. Qed.

Create HintDb prof.
#[export] Hint Resolve Rp_refl Rp_assert : prof.

Ltac pstep :=
  match goal with
  | |- Rp ?x ?x => apply Rp_refl
  | |- Rp (Panic _) _ => right; eexists; reflexivity
  | |- Rp (bind (if ?c then Ok tt else Panic _) _) _ => destruct c; cbn [bind]; [|right; eexists; reflexivity]
  | |- Rp (bind _ _) (bind _ _) => apply Rp_bind; [|intros ?]
  | |- Rp (match ?x with _ => _ end) (match ?x with _ => _ end) => destruct x
  | |- Rp (if ?x then _ else _) (if ?x then _ else _) => destruct x
  | |- Rp (let '(_, _) := ?x in _) (let '(_, _) := ?x in _) => destruct x
  | |- Rp (match ?d with _ => _ end) (match ?r with _ => _ end) =>
      let H := fresh "Hm" in
      assert (H : Rp d r); [|destruct H as [->|[? ->]]; [apply Rp_refl|right; eexists; reflexivity]]
  | |- _ => solve [auto with prof]
  end.

Ltac prof_def f := intros; unfold f; repeat pstep.

Lemma consume_R m s : Rp (consume Debug m s) (consume Release m s).
Proof. prof_def consume. Qed.
#[export] Hint Resolve consume_R : prof.

Lemma parse_capitalized_identifier_R s : Rp (parse_capitalized_identifier Debug s) (parse_capitalized_identifier Release s).
Proof. prof_def parse_capitalized_identifier. Qed.
#[export] Hint Resolve parse_capitalized_identifier_R : prof.

Lemma parse_variable_name_R s : Rp (parse_variable_name Debug s) (parse_variable_name Release s).
Proof. prof_def parse_variable_name. Qed.
#[export] Hint Resolve parse_variable_name_R : prof.

Lemma parse_identifier_R s : Rp (parse_identifier Debug s) (parse_identifier Release s).
Proof. prof_def parse_identifier. Qed.
#[export] Hint Resolve parse_identifier_R : prof.

Lemma expect_identifier_R s : Rp (expect_identifier Debug s) (expect_identifier Release s).
Proof. prof_def expect_identifier. Qed.
#[export] Hint Resolve expect_identifier_R : prof.

Lemma expect_variable_name_R s : Rp (expect_variable_name Debug s) (expect_variable_name Release s).
Proof. prof_def expect_variable_name. Qed.
#[export] Hint Resolve expect_variable_name_R : prof.

Lemma is_current_negative_number_R s : Rp (is_current_negative_number Debug s) (is_current_negative_number Release s).
Proof. prof_def is_current_negative_number. Qed.
#[export] Hint Resolve is_current_negative_number_R : prof.

(** * Combinators: related argument parsers give related results *)
Section Comb.
  Variables nd nr : P expr.
  Hypothesis Hn : forall s, Rp (nd s) (nr s).

  Lemma list_tail_R fuel : forall s acc, Rp (list_tail nd fuel s acc) (list_tail nr fuel s acc).
  Proof. induction fuel as [|f IH]; intros; simpl; repeat pstep. Qed.
  Hint Resolve list_tail_R : prof.

  Lemma parse_expression_list_R fuel s : Rp (parse_expression_list nd fuel s) (parse_expression_list nr fuel s).
  Proof. unfold parse_expression_list. repeat pstep. Qed.
  Hint Resolve parse_expression_list_R : prof.

  Lemma binary_loop_R ops fuel : forall e s, Rp (binary_loop nd ops fuel e s) (binary_loop nr ops fuel e s).
  Proof. induction fuel as [|f IH]; intros; simpl; repeat pstep. Qed.
  Hint Resolve binary_loop_R : prof.

  Lemma parse_binary_expression_R ops fuel s : Rp (parse_binary_expression nd ops fuel s) (parse_binary_expression nr ops fuel s).
  Proof. unfold parse_binary_expression. repeat pstep. Qed.
End Comb.

Section CombP.
  Context {X : Type}.
  Variables pd pr : P X.
  Hypothesis Hp : forall s, Rp (pd s) (pr s).

  Lemma param_tail_R fuel : forall s acc, Rp (param_tail pd fuel s acc) (param_tail pr fuel s acc).
  Proof. induction fuel as [|f IH]; intros; simpl; repeat pstep. Qed.
  Hint Resolve param_tail_R : prof.

  Lemma parse_parameter_list_R fuel s : Rp (parse_parameter_list pd fuel s) (parse_parameter_list pr fuel s).
  Proof. unfold parse_parameter_list. repeat pstep. Qed.
End CombP.

(** * Expressions *)
Record PE (f : nat) : Prop := mkPE {
  pe_expression : forall s, Rp (parse_expression Debug f s) (parse_expression Release f s);
  pe_comparison : forall s, Rp (parse_comparison Debug f s) (parse_comparison Release f s);
  pe_fancy : forall l s, Rp (parse_fancy Debug f l s) (parse_fancy Release f l s);
  pe_fancy_loop : forall e s, Rp (fancy_loop Debug f e s) (fancy_loop Release f e s);
  pe_term : forall s, Rp (parse_term Debug f s) (parse_term Release f s);
  pe_factor : forall s, Rp (parse_factor Debug f s) (parse_factor Release f s);
  pe_unary : forall s, Rp (parse_unary Debug f s) (parse_unary Release f s);
  pe_primary : forall s, Rp (parse_primary Debug f s) (parse_primary Release f s);
  pe_nsp : forall s, Rp (parse_non_subscript_primary Debug f s) (parse_non_subscript_primary Release f s);
  pe_sub : forall e s, Rp (subscript_after Debug f e s) (subscript_after Release f e s);
  pe_ioc : forall s, Rp (parse_identifier_or_call Debug f s) (parse_identifier_or_call Release f s);
  pe_args : forall s, Rp (parse_function_call_args Debug f s) (parse_function_call_args Release f s)
}.

Lemma PE_0 : PE 0.
Proof. constructor; intros; apply Rp_refl. Qed.

Lemma PE_S f : PE f -> PE (S f).
Proof.
  intros [H1 H2 H3 H4 H5 H6 H7 H8 H9 H10 H11 H12].
  constructor; intros; simpl;
    try (apply parse_binary_expression_R; assumption);
    repeat first [pstep | apply binary_loop_R; assumption | apply parse_parameter_list_R; assumption | assumption].
Qed.

Theorem PE_all f : PE f.
Proof. induction f; [apply PE_0|apply PE_S; auto]. Qed.

Lemma parse_expression_R f s : Rp (parse_expression Debug f s) (parse_expression Release f s).
Proof. apply (pe_expression f (PE_all f)). Qed.
Lemma parse_unary_R f s : Rp (parse_unary Debug f s) (parse_unary Release f s).
Proof. apply (pe_unary f (PE_all f)). Qed.
Lemma parse_primary_R f s : Rp (parse_primary Debug f s) (parse_primary Release f s).
Proof. apply (pe_primary f (PE_all f)). Qed.
Lemma subscript_after_R f e s : Rp (subscript_after Debug f e s) (subscript_after Release f e s).
Proof. apply (pe_sub f (PE_all f)). Qed.
Lemma parse_function_call_args_R f s : Rp (parse_function_call_args Debug f s) (parse_function_call_args Release f s).
Proof. apply (pe_args f (PE_all f)). Qed.
#[export] Hint Resolve parse_expression_R parse_unary_R parse_primary_R subscript_after_R parse_function_call_args_R : prof.

(** * Statements *)
Ltac pstep2 :=
  first [ pstep
        | apply parse_expression_list_R; intro; auto with prof
        | apply parse_parameter_list_R; intro; auto with prof
        | apply parse_binary_expression_R; intro; auto with prof ].
Ltac prof_def2 f := intros; unfold f; repeat pstep2.

Lemma parse_toplevel_expression_list_R f s : Rp (parse_toplevel_expression_list Debug f s) (parse_toplevel_expression_list Release f s).
Proof. prof_def2 parse_toplevel_expression_list. Qed.
#[export] Hint Resolve parse_toplevel_expression_list_R : prof.
Lemma parse_assignment_lhs_with_R f i r s : Rp (parse_assignment_lhs_with Debug f i r s) (parse_assignment_lhs_with Release f i r s).
Proof. prof_def2 parse_assignment_lhs_with. Qed.
#[export] Hint Resolve parse_assignment_lhs_with_R : prof.
Lemma parse_assignment_lhs_R f s : Rp (parse_assignment_lhs Debug f s) (parse_assignment_lhs Release f s).
Proof. prof_def2 parse_assignment_lhs. Qed.
#[export] Hint Resolve parse_assignment_lhs_R : prof.
Lemma parse_put_assignment_R f s : Rp (parse_put_assignment Debug f s) (parse_put_assignment Release f s).
Proof. prof_def2 parse_put_assignment. Qed.
Lemma parse_let_assignment_R f s : Rp (parse_let_assignment Debug f s) (parse_let_assignment Release f s).
Proof. prof_def2 parse_let_assignment. Qed.
Lemma parse_poetic_number_rhs_R f s : Rp (parse_poetic_number_rhs Debug f s) (parse_poetic_number_rhs Release f s).
Proof. prof_def2 parse_poetic_number_rhs. Qed.
#[export] Hint Resolve parse_put_assignment_R parse_let_assignment_R parse_poetic_number_rhs_R : prof.
Lemma parse_poetic_assignment_R buf f i r s : Rp (parse_poetic_assignment Debug buf f i r s) (parse_poetic_assignment Release buf f i r s).
Proof. prof_def2 parse_poetic_assignment. Qed.
Lemma parse_build_knock_R b x s : Rp (parse_build_knock Debug b x s) (parse_build_knock Release b x s).
Proof. prof_def2 parse_build_knock. Qed.
#[export] Hint Resolve parse_poetic_assignment_R parse_build_knock_R : prof.
Lemma parse_say_R f s : Rp (parse_say Debug f s) (parse_say Release f s).
Proof. prof_def2 parse_say. Qed.
Lemma parse_listen_R f s : Rp (parse_listen Debug f s) (parse_listen Release f s).
Proof. prof_def2 parse_listen. Qed.
Lemma opt_lhs_after_R f id s : Rp (opt_lhs_after Debug f id s) (opt_lhs_after Release f id s).
Proof. prof_def2 opt_lhs_after. Qed.
#[export] Hint Resolve parse_say_R parse_listen_R opt_lhs_after_R : prof.
Lemma parse_mutation_R f s : Rp (parse_mutation Debug f s) (parse_mutation Release f s).
Proof. prof_def2 parse_mutation. Qed.
Lemma parse_rounding_R f s : Rp (parse_rounding Debug f s) (parse_rounding Release f s).
Proof. prof_def2 parse_rounding. Qed.
Lemma parse_break_R s : Rp (parse_break Debug s) (parse_break Release s).
Proof. prof_def2 parse_break. Qed.
Lemma parse_simple_continue_R s : Rp (parse_simple_continue Debug s) (parse_simple_continue Release s).
Proof. prof_def2 parse_simple_continue. Qed.
Lemma parse_take_it_to_the_top_R s : Rp (parse_take_it_to_the_top Debug s) (parse_take_it_to_the_top Release s).
Proof. prof_def2 parse_take_it_to_the_top. Qed.
Lemma parse_array_push_R f s : Rp (parse_array_push Debug f s) (parse_array_push Release f s).
Proof. prof_def2 parse_array_push. Qed.
Lemma parse_array_pop_R f s : Rp (parse_array_pop Debug f s) (parse_array_pop Release f s).
Proof. prof_def2 parse_array_pop. Qed.
Lemma parse_return_R f s : Rp (parse_return Debug f s) (parse_return Release f s).
Proof. prof_def2 parse_return. Qed.
#[export] Hint Resolve parse_mutation_R parse_rounding_R parse_break_R parse_simple_continue_R parse_take_it_to_the_top_R
  parse_array_push_R parse_array_pop_R parse_return_R : prof.

(** * Statements and blocks *)

Record PB (b : str) (f : nat) : Prop := mkPB {
  pb_stmt : forall s, Rp (parse_statement Debug b f s) (parse_statement Release b f s);
  pb_word : forall s, Rp (parse_statement_starting_with_word Debug b f s) (parse_statement_starting_with_word Release b f s);
  pb_fun : forall n nr s, Rp (parse_function Debug b f n nr s) (parse_function Release b f n nr s);
  pb_if : forall s, Rp (parse_if Debug b f s) (parse_if Release b f s);
  pb_loop : forall s, Rp (parse_loop Debug b f s) (parse_loop Release b f s);
  pb_block : forall s, Rp (parse_block Debug b f s) (parse_block Release b f s);
  pb_fblock : forall s, Rp (parse_function_block Debug b f s) (parse_function_block Release b f s);
  pb_stmts : forall inf s acc, Rp (block_statements Debug b f inf s acc) (block_statements Release b f inf s acc)
}.

Lemma PB_0 b : PB b 0.
Proof. constructor; intros; apply Rp_refl. Qed.

Lemma PB_S b f : PB b f -> PB b (S f).
Proof.
  intros [H1 H2 H3 H4 H5 H6 H7 H8].
  constructor; intros.
  - rewrite !pstmt_S. cbv zeta. repeat first [pstep2 | assumption].
  - rewrite !pword_S. repeat first [pstep2 | assumption].
  - rewrite !pfun_S. repeat first [pstep2 | assumption].
  - rewrite !pif_S. repeat first [pstep2 | assumption].
  - rewrite !ploop_S. repeat first [pstep2 | assumption].
  - rewrite !pblock_S. cbv zeta. repeat first [pstep2 | assumption].
  - rewrite !pfblock_S. cbv zeta. repeat first [pstep2 | assumption].
  - rewrite !pstmts_S. repeat first [pstep2 | assumption].
Qed.

Theorem PB_all b f : PB b f.
Proof. induction f; [apply PB_0|apply PB_S; auto]. Qed.

Lemma parse_blocks_R b fuel : forall s acc, Rp (parse_blocks Debug b fuel s acc) (parse_blocks Release b fuel s acc).
Proof.
  induction fuel as [|f IH]; intros; [apply Rp_refl|].
  cbn [parse_blocks]. destruct (current s); [|apply Rp_refl].
  apply Rp_bind; [apply (pb_block b (S f) (PB_all b (S f)))|]. intros [bl s1].
  destruct (current_matches (is_id TElse) s1); [apply Rp_refl|apply IH].
Qed.

(** * The lexer *)
Lemma substr_R site n s : Rp (substr Debug site n s) (substr Release site n s).
Proof. prof_def substr. Qed.
#[export] Hint Resolve substr_R : prof.
Lemma make_token_from_R lx s0 st l id : Rp (make_token_from Debug lx s0 st l id) (make_token_from Release lx s0 st l id).
Proof. prof_def make_token_from. Qed.
#[export] Hint Resolve make_token_from_R : prof.
Lemma scan_for_text_R lx s st t id : Rp (scan_for_text Debug lx s st t id) (scan_for_text Release lx s st t id).
Proof. prof_def scan_for_text. Qed.
Lemma scan_apostrophe_suffix_R a b s st : Rp (scan_apostrophe_suffix Debug a b s st) (scan_apostrophe_suffix Release a b s st).
Proof. prof_def scan_apostrophe_suffix. Qed.
#[export] Hint Resolve scan_for_text_R scan_apostrophe_suffix_R : prof.
Lemma maybe_suffix_R lx r a : Rp (maybe_suffix Debug lx r a) (maybe_suffix Release lx r a).
Proof. prof_def maybe_suffix. Qed.
#[export] Hint Resolve maybe_suffix_R : prof.
Lemma scan_number_R lx s0 st : Rp (scan_number Debug lx s0 st) (scan_number Release lx s0 st).
Proof. prof_def scan_number. Qed.
Lemma make_error_token_R lx s0 st m : Rp (make_error_token Debug lx s0 st m) (make_error_token Release lx s0 st m).
Proof. prof_def make_error_token. Qed.
Lemma scan_keyword_R lx s0 st : Rp (scan_keyword Debug lx s0 st) (scan_keyword Release lx s0 st).
Proof. prof_def scan_keyword. Qed.
#[export] Hint Resolve scan_number_R make_error_token_R scan_keyword_R : prof.
Lemma tokenize_word_R lx s0 st w e : Rp (tokenize_word Debug lx s0 st w e) (tokenize_word Release lx s0 st w e).
Proof. prof_def tokenize_word. Qed.
#[export] Hint Resolve tokenize_word_R : prof.
Lemma scan_word_R lx s0 st : Rp (scan_word Debug lx s0 st) (scan_word Release lx s0 st).
Proof. prof_def scan_word. Qed.
Lemma scan_delimited_R lx s0 o c id1 id2 : Rp (scan_delimited Debug lx s0 o c id1 id2) (scan_delimited Release lx s0 o c id1 id2).
Proof. prof_def scan_delimited. Qed.
Lemma char_token_R lx s0 st id : Rp (char_token Debug lx s0 st id) (char_token Release lx s0 st id).
Proof. prof_def char_token. Qed.
Lemma two_char_token_R lx s0 st id : Rp (two_char_token Debug lx s0 st id) (two_char_token Release lx s0 st id).
Proof. prof_def two_char_token. Qed.
#[export] Hint Resolve scan_word_R scan_delimited_R char_token_R two_char_token_R : prof.
Lemma match_one_R lx s0 st : Rp (match_one Debug lx s0 st) (match_one Release lx s0 st).
Proof. prof_def match_one. Qed.
#[export] Hint Resolve match_one_R : prof.

Lemma match_loop_R fuel : forall lx, Rp (match_loop Debug fuel lx) (match_loop Release fuel lx).
Proof. induction fuel as [|f IH]; intros; simpl; repeat pstep. Qed.
#[export] Hint Resolve match_loop_R : prof.
Lemma lexer_next_R fuel lx : Rp (lexer_next Debug fuel lx) (lexer_next Release fuel lx).
Proof. prof_def lexer_next. Qed.
#[export] Hint Resolve lexer_next_R : prof.
Lemma lex_all_R fuel bl : forall lx, Rp (lex_all Debug fuel bl lx) (lex_all Release fuel bl lx).
Proof. induction fuel as [|f IH]; intros; simpl; repeat pstep. Qed.
Lemma lex_R src : Rp (lex Debug src) (lex Release src).
Proof. apply lex_all_R. Qed.

From RRSS Require Import Proofs.LexStream Proofs.ParseTotal.

(** ** a debug build and a release build of the front end agree on every source shorter than 4 GiB:
       same tokens, same tree, same error *)
Theorem lex_profile_irrelevant src : (byte_len src < u32_limit)%N -> lex Debug src = lex Release src.
Proof.
  intro Hb. destruct (lex_R src) as [H|[s H]]; [exact H|].
  destruct (lex_total Debug src Hb) as [pts E]. congruence.
Qed.

Theorem parse_profile_irrelevant src : (byte_len src < u32_limit)%N -> parse Debug src = parse Release src.
Proof.
  intro Hb. pose proof (parse_never_crashes Debug src Hb) as N. unfold parse in *.
  rewrite <- (lex_profile_irrelevant src Hb). destruct (lex Debug src) as [pts| | | | |]; try reflexivity.
  destruct (parse_blocks_R src (parse_fuel (length (drop_comments pts))) (mkPS (drop_comments pts) 1 (mkLoc 1 0) false) []) as [H|[s H]].
  - rewrite H. reflexivity.
  - rewrite H in N. contradiction.
Qed.

Theorem front_end_profile_irrelevant src :
  (byte_len src < u32_limit)%N -> lex Debug src = lex Release src /\ parse Debug src = parse Release src.
Proof. intro H. split; [apply lex_profile_irrelevant|apply parse_profile_irrelevant]; exact H. Qed.
