(** C15: variable names are compared without regard to letter case; the three kinds of name never
    collide; distinct case-folded spellings are distinct keys. *)
From Coq Require Import List ZArith NArith Bool Lia.
From RRSS Require Import Base.Outcome Base.Chars Base.UnicodeTables Base.F64 Exec.Val Exec.Ops Front.Ast Front.Token Exec.Env.
Import ListNotations.
Open Scope N_scope.

(** table facts, checked by computation over the complete Unicode tables (every code point that has
    a lower-case mapping; every code point with the Lowercase property) *)
Lemma tolower_idempotent_table :
  forallb (fun kv => str_eqb (flat_map char_to_lowercase (snd kv)) (snd kv)) tolower_table = true.
Proof. vm_compute. reflexivity. Qed.

Fixpoint range_all (f : N -> bool) (lo : N) (n : nat) : bool :=
  match n with O => true | S k => f lo && range_all f (lo + 1) k end.

Definition ranges_all (f : N -> bool) (l : list (N * N)) : bool :=
  forallb (fun r => range_all f (fst r) (N.to_nat (snd r - fst r + 1))) l.

Lemma lowercase_fixed_table :
  ranges_all (fun c => str_eqb (char_to_lowercase c) [c]) lowercase_ranges = true.
Proof. vm_compute. reflexivity. Qed.

Lemma range_all_spec f lo n c : range_all f lo n = true -> lo <= c -> c < lo + N.of_nat n -> f c = true.
Proof.
  revert lo. induction n as [|n IH]; intros lo H H1 H2; [lia|].
  cbn in H. apply andb_true_iff in H as [Ha Hb].
  destruct (N.eq_dec lo c) as [->|Hne]; auto. apply (IH (lo + 1)); auto; lia.
Qed.

Lemma in_ranges_spec c l : in_ranges c l = true -> exists lo hi, In (lo, hi) l /\ lo <= c /\ c <= hi.
Proof.
  induction l as [|[lo hi] t IH]; cbn; try discriminate.
  destruct (c <? lo) eqn:E1; try discriminate. destruct (c <=? hi) eqn:E2.
  - intros _. exists lo, hi. apply N.ltb_ge in E1. apply N.leb_le in E2. auto.
  - intro H. destruct (IH H) as (a & b & Hin & H1 & H2). exists a, b. auto.
Qed.

(** a character with the Lowercase property lower-cases to itself *)
Lemma lowercase_char_fixed c : is_lowercase c = true -> char_to_lowercase c = [c].
Proof.
  intro H. apply in_ranges_spec in H as (lo & hi & Hin & H1 & H2).
  pose proof lowercase_fixed_table as T. unfold ranges_all in T. rewrite forallb_forall in T.
  specialize (T _ Hin). cbn [fst snd] in T.
  apply str_eqb_eq. apply (range_all_spec _ lo (N.to_nat (hi - lo + 1)) c T); lia.
Qed.

Lemma assoc_sorted_in {A} c (l : list (N * A)) v : assoc_sorted c l = Some v -> In (c, v) l.
Proof.
  induction l as [|[k x] t IH]; cbn; try discriminate.
  destruct (c <? k); try discriminate. destruct (c =? k) eqn:E.
  - apply N.eqb_eq in E. subst. intro H; inversion H; auto.
  - intro H. right. auto.
Qed.

(** lower-casing is idempotent on every character, hence on every string *)
Lemma char_lower_idem c : flat_map char_to_lowercase (char_to_lowercase c) = char_to_lowercase c.
Proof.
  unfold char_to_lowercase at 2 3. destruct (assoc_sorted c tolower_table) as [l|] eqn:E.
  - apply assoc_sorted_in in E. pose proof tolower_idempotent_table as T. rewrite forallb_forall in T.
    specialize (T _ E). cbn [snd] in T. apply str_eqb_eq in T. exact T.
  - cbn. rewrite app_nil_r. unfold char_to_lowercase. rewrite E. reflexivity.
Qed.

Lemma str_lower_idem s : str_to_lowercase (str_to_lowercase s) = str_to_lowercase s.
Proof.
  unfold str_to_lowercase. induction s as [|c t IH]; cbn; auto.
  rewrite flat_map_app. rewrite char_lower_idem. f_equal. exact IH.
Qed.

Lemma all_lowercase_fixed s : all_lowercase s = true -> str_to_lowercase s = s.
Proof.
  unfold all_lowercase, str_to_lowercase. induction s as [|c t IH]; cbn; auto.
  intro H. apply andb_true_iff in H as [H1 H2]. rewrite (lowercase_char_fixed c H1). cbn. f_equal. auto.
Qed.

(** the symbol-table key of a name is its lower-casing, word by word (the "already lower-case"
    shortcut of sym_table.rs changes nothing) *)
Definition fold_name (n : varname) : varname :=
  match n with
  | Simple s => Simple (str_to_lowercase s)
  | Common p w => Common (str_to_lowercase p) (str_to_lowercase w)
  | Proper ws => Proper (map str_to_lowercase ws)
  end.

Theorem lower_name_is_fold n : lower_name n = fold_name n.
Proof.
  destruct n as [s|p w|ws]; cbn.
  - destruct (all_lowercase s) eqn:E; auto. rewrite all_lowercase_fixed; auto.
  - destruct (all_lowercase p && all_lowercase w) eqn:E; auto.
    apply andb_true_iff in E as [E1 E2]. rewrite !all_lowercase_fixed; auto.
  - destruct (forallb all_lowercase ws) eqn:E; auto. f_equal.
    rewrite forallb_forall in E. induction ws as [|x t IH]; cbn; auto.
    rewrite all_lowercase_fixed by (apply E; left; auto). f_equal. apply IH. intros y Hy. apply E. right; auto.
Qed.

(** case-insensitivity: two spellings whose lower-casings agree are the same variable ... *)
Theorem same_fold_same_key a b : fold_name a = fold_name b -> lower_name a = lower_name b.
Proof. rewrite !lower_name_is_fold. auto. Qed.

(** ... in particular any re-casing of a name that already is a key *)
Theorem key_is_stable n : lower_name (lower_name n) = lower_name n.
Proof.
  rewrite !lower_name_is_fold. destruct n as [s|p w|ws]; cbn; rewrite ?str_lower_idem; auto.
  f_equal. rewrite map_map. apply map_ext. intro. apply str_lower_idem.
Qed.

(** simple, common and proper names never collide, whatever their spellings *)
Theorem kinds_are_distinct a b :
  varname_eqb (lower_name a) (lower_name b) = true ->
  match a, b with
  | Simple _, Simple _ | Common _ _, Common _ _ | Proper _, Proper _ => True
  | _, _ => False
  end.
Proof.
  rewrite !lower_name_is_fold. destruct a, b; cbn; auto; discriminate.
Qed.

(** distinct (case-folded) spellings denote distinct variables *)
Theorem distinct_spellings_distinct_keys a b :
  fold_name a <> fold_name b -> varname_eqb (lower_name a) (lower_name b) = false.
Proof.
  rewrite !lower_name_is_fold. intro H.
  destruct (varname_eqb (fold_name a) (fold_name b)) eqn:E; auto.
  exfalso. apply H.
  assert (Hs : forall x y, strs_eqb x y = true -> x = y).
  { induction x as [|u x IHx]; destruct y as [|v y]; cbn; intro H0; try discriminate; auto.
    apply andb_true_iff in H0 as [H1 H2]. apply str_eqb_eq in H1. apply IHx in H2. congruence. }
  destruct (fold_name a), (fold_name b); cbn in E; try discriminate.
  - apply str_eqb_eq in E. congruence.
  - apply andb_true_iff in E as [E1 E2]. apply str_eqb_eq in E1, E2. congruence.
  - apply Hs in E. congruence.
Qed.

(** keywords are recognised in any letter case: the lookup lower-cases the word first *)
Theorem keyword_case_insensitive w1 w2 :
  str_to_lowercase w1 = str_to_lowercase w2 -> match_keyword w1 = match_keyword w2.
Proof. intro H. unfold match_keyword. rewrite H. reflexivity. Qed.
