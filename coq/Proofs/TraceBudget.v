(** What a byte budget of the writer does to a run, in closed form: the bytes received are exactly the first [b]
    bytes of everything the program tried to write (the lines of its says, whole or refused, in order), and the
    budget left is what remains.  Proved on traces ([io_steps], Proofs/InterpIO.v), so it holds for every run. *)
From Coq Require Import List ZArith NArith Bool Lia.
From RRSS Require Import Base.Outcome Base.Chars Exec.Val Exec.Env Exec.Interp Proofs.InterpIO.
Import ListNotations.

(** the texts of all says the program made, written whole or refused, in order *)
Fixpoint attempted (tr : list ev) : list str :=
  match tr with
  | [] => []
  | EvIn _ :: t => attempted t
  | EvOut x :: t => x :: attempted t
  | EvOutFail x :: t => x :: attempted t
  end.

Lemma len_nat {A} (l : list A) : N.to_nat (len l) = length l.
Proof. unfold len. apply Nat2N.id. Qed.

Lemma firstn_app_le {A} (n : nat) (l r : list A) : (length l <= n)%nat -> firstn n (l ++ r) = l ++ firstn (n - length l) r.
Proof. intro H. rewrite firstn_app. rewrite firstn_all2 by exact H. reflexivity. Qed.

Lemma firstn_app_lt {A} (n : nat) (l r : list A) : (n <= length l)%nat -> firstn n (l ++ r) = firstn n l.
Proof. intro H. rewrite firstn_app. replace (n - length l)%nat with 0%nat by lia. cbn. apply app_nil_r. Qed.

Theorem trace_budget c tr c' : io_steps c tr c' -> forall b, out_budget c = Some b ->
  out_bytes c' = out_bytes c ++ firstn (N.to_nat b) (flat_map ev_line (attempted tr)) /\
  out_budget c' = Some (b - len (flat_map ev_line (attempted tr)))%N.
Proof.
  induction 1 as [c|c ln c1 tr c' Hin Hs IH|c txt c1 tr c' Hout Hs IH|c txt x cf tr c' Hout Hs IH]; intros b Hb; cbn [attempted flat_map].
  - cbn. rewrite firstn_nil, app_nil_r, N.sub_0_r. auto.
  - destruct (chan_input_out _ _ _ Hin) as [Eo Eb]. rewrite Eb in IH. destruct (IH b Hb) as [H1 H2]. rewrite H1, Eo. auto.
  - unfold chan_output in Hout. rewrite Hb in Hout. fold (ev_line txt) in Hout.
    destruct (len (ev_line txt) <=? b)%N eqn:E; cbn in Hout; [|discriminate]. injection Hout as <-.
    apply N.leb_le in E. destruct (IH (b - len (ev_line txt))%N eq_refl) as [H1 H2]. cbn [out_bytes out_budget] in *.
    rewrite H1, H2. split.
    + rewrite <- app_assoc. f_equal. rewrite firstn_app_le by (rewrite <- len_nat; lia).
      f_equal. f_equal. rewrite <- len_nat. lia.
    + f_equal. unfold len. rewrite app_length. lia.
  - unfold chan_output in Hout. rewrite Hb in Hout. fold (ev_line txt) in Hout.
    destruct (len (ev_line txt) <=? b)%N eqn:E; cbn in Hout; [discriminate|]. injection Hout as _ <-.
    apply N.leb_gt in E. destruct (IH 0%N eq_refl) as [H1 H2]. cbn [out_bytes out_budget] in *.
    rewrite H1, H2. cbn [N.to_nat firstn]. rewrite app_nil_r. split.
    + f_equal. rewrite firstn_app_lt by (rewrite <- len_nat; lia). reflexivity.
    + f_equal. unfold len in *. rewrite app_length. lia.
Qed.

(** with no budget, nothing is refused and everything attempted is written *)
Theorem trace_unlimited c tr c' : io_steps c tr c' -> out_budget c = None ->
  out_bytes c' = out_bytes c ++ flat_map ev_line (attempted tr) /\ no_fault tr = true /\ out_budget c' = None.
Proof.
  induction 1 as [c|c ln c1 tr c' Hin Hs IH|c txt c1 tr c' Hout Hs IH|c txt x cf tr c' Hout Hs IH]; intro Hb; cbn [attempted flat_map].
  - rewrite app_nil_r. auto.
  - destruct (chan_input_out _ _ _ Hin) as [Eo Eb]. rewrite Eb in IH. destruct (IH Hb) as (H1 & H2 & H3). rewrite H1, Eo. auto.
  - unfold chan_output in Hout. rewrite Hb in Hout. cbn in Hout. injection Hout as <-.
    destruct (IH eq_refl) as (H1 & H2 & H3). cbn [out_bytes] in H1. rewrite H1, <- app_assoc. auto.
  - unfold chan_output in Hout. rewrite Hb in Hout. discriminate.
Qed.

(** the writer never receives more than its budget, and exactly its budget once it has refused anything *)
Corollary budget_respected c tr c' b : io_steps c tr c' -> out_budget c = Some b ->
  (len (out_bytes c') <= len (out_bytes c) + b)%N /\
  (no_fault tr = false -> len (out_bytes c') = len (out_bytes c) + b)%N.
Proof.
  intros Hs Hb. destruct (trace_budget _ _ _ Hs b Hb) as [H1 H2]. rewrite H1. unfold len. rewrite app_length.
  pose proof (firstn_le_length (N.to_nat b) (flat_map ev_line (attempted tr))) as L. split; [lia|].
  intro Hf. enough (length (firstn (N.to_nat b) (flat_map ev_line (attempted tr))) = N.to_nat b) by lia.
  apply firstn_length_le.
  clear H1 H2 L. revert b Hb Hf. induction Hs as [c|c ln c1 tr c' Hin Hs IH|c txt c1 tr c' Hout Hs IH|c txt x cf tr c' Hout Hs IH]; intros b Hb Hf; cbn in *.
  - discriminate.
  - destruct (chan_input_out _ _ _ Hin) as [_ Eb]. rewrite Eb in IH. apply IH; auto.
  - unfold chan_output in Hout. rewrite Hb in Hout. fold (ev_line txt) in Hout.
    destruct (len (ev_line txt) <=? b)%N eqn:E; cbn in Hout; [|discriminate]. injection Hout as <-. apply N.leb_le in E.
    specialize (IH (b - len (ev_line txt))%N eq_refl Hf). rewrite app_length. unfold len in *. lia.
  - unfold chan_output in Hout. rewrite Hb in Hout. fold (ev_line txt) in Hout.
    destruct (len (ev_line txt) <=? b)%N eqn:E; cbn in Hout; [discriminate|]. apply N.leb_gt in E.
    rewrite app_length. unfold len in *. lia.
Qed.

(** conservation: bytes received plus budget left is constant *)
Corollary budget_conserved c tr c' b : io_steps c tr c' -> out_budget c = Some b ->
  exists k, out_budget c' = Some k /\ (len (out_bytes c') + k = len (out_bytes c) + b)%N.
Proof.
  intros Hs Hb. destruct (trace_budget _ _ _ Hs b Hb) as [H1 H2]. eexists. split; [exact H2|].
  rewrite H1. unfold len. rewrite app_length.
  set (all := flat_map ev_line (attempted tr)).
  destruct (Nat.le_gt_cases (length all) (N.to_nat b)) as [L|L].
  - rewrite firstn_all2 by exact L. lia.
  - rewrite firstn_length_le by lia. lia.
Qed.

(** * Whole runs *)
Theorem run_budget_conserved prof fuel p c b : out_budget c = Some b ->
  match exec_program prof fuel p c with
  | XOk _ e' | XErr _ e' =>
      exists k, out_budget (chan e') = Some k /\ (len (out_bytes (chan e')) + k = len (out_bytes c) + b)%N
  | _ => True
  end.
Proof.
  intro Hb. pose proof (exec_program_io prof fuel p c) as H.
  destruct (exec_program prof fuel p c) as [xs e'|x e'| | | |]; auto; destruct H as [tr Hs]; eapply budget_conserved; eauto.
Qed.

(** the bytes a run hands to a writer with budget [b] are the first [b] bytes of the lines of its says *)
Theorem run_output_is_truncation prof fuel p c b : out_budget c = Some b ->
  match exec_program prof fuel p c with
  | XOk _ e' | XErr _ e' =>
      exists tr, io_steps c tr (chan e') /\
        out_bytes (chan e') = out_bytes c ++ firstn (N.to_nat b) (flat_map ev_line (attempted tr))
  | _ => True
  end.
Proof.
  intro Hb. pose proof (exec_program_io prof fuel p c) as H.
  destruct (exec_program prof fuel p c) as [xs e'|x e'| | | |]; auto; destruct H as [tr Hs]; exists tr; split; auto;
    apply (trace_budget _ _ _ Hs b Hb).
Qed.

(** * The reader: positions and the fault position *)
From RRSS Require Import Proofs.InterpLaws Proofs.LexBasics.

Lemma chan_output_in txt c r cf : chan_output txt c = (r, cf) ->
  (forall c1, r = Ok c1 -> in_rest c1 = in_rest c /\ in_pos c1 = in_pos c /\ in_fault c1 = in_fault c) /\
  in_rest cf = in_rest c /\ in_pos cf = in_pos c /\ in_fault cf = in_fault c.
Proof.
  unfold chan_output. destruct (out_budget c) as [b|].
  - destruct (len (utf8_encode txt ++ [10%N]) <=? b)%N; intro H; injection H as <- <-; (split; [intros c1 E; try discriminate; injection E as <-|]); repeat split.
  - intro H. injection H as <- <-. split; [intros c1 E; injection E as <-|]; repeat split.
Qed.

(** the position advances by exactly the bytes taken from the front of the input; the fault position never moves *)
Theorem trace_positions c tr c' : io_steps c tr c' ->
  in_fault c' = in_fault c /\ (in_pos c' + byte_len (in_rest c') = in_pos c + byte_len (in_rest c))%N.
Proof.
  induction 1 as [c|c ln c1 tr c' Hin Hs IH|c txt c1 tr c' Hout Hs IH|c txt x cf tr c' Hout Hs IH].
  - auto.
  - destruct IH as [F P]. rewrite F, P. clear F P Hs.
    unfold chan_input in Hin. pose proof (take_line_spec (in_rest c) []) as T.
    destruct (take_line (in_rest c) []) as [[l r] fnd].
    match type of Hin with (if ?b then _ else _) = _ => destruct b end; [|discriminate].
    injection Hin as _ <-. cbn [in_fault in_pos in_rest]. split; [reflexivity|].
    destruct fnd.
    + destruct T as [E _]. cbn [rev app] in E. rewrite E. rewrite byte_len_app. cbn [byte_len]. change (utf8_len 10) with 1%N. lia.
    + destruct T as (E & -> & _). cbn [rev app] in E. rewrite E. cbn [byte_len]. lia.
  - destruct IH as [F P]. rewrite F, P. destruct (chan_output txt c) as [r cf] eqn:E. cbn in Hout. subst r.
    destruct (chan_output_in _ _ _ _ E) as [H _]. destruct (H c1 eq_refl) as (A & B & C). rewrite A, B, C. auto.
  - destruct IH as [F P]. rewrite F, P. destruct (chan_output_in _ _ _ _ Hout) as (_ & A & B & C). rewrite A, B, C. auto.
Qed.

(** no byte at or beyond the fault position is ever delivered: the reader's position never passes it *)
Theorem trace_read_fault c tr c' r : io_steps c tr c' -> in_fault c = Some r -> (in_pos c <= r)%N -> (in_pos c' <= r)%N.
Proof.
  induction 1 as [c|c ln c1 tr c' Hin Hs IH|c txt c1 tr c' Hout Hs IH|c txt x cf tr c' Hout Hs IH]; intros Hf Hp.
  - exact Hp.
  - unfold chan_input in Hin. destruct (take_line (in_rest c) []) as [[l rr] fnd].
    rewrite Hf in Hin.
    match type of Hin with (if ?b then _ else _) = _ => destruct b eqn:Eb end; [|discriminate].
    injection Hin as _ <-. apply IH; cbn [in_fault in_pos]; [reflexivity|].
    destruct fnd; apply N.ltb_lt in Eb; lia.
  - destruct (chan_output txt c) as [rr cf] eqn:E. cbn in Hout. subst rr.
    destruct (chan_output_in _ _ _ _ E) as [H _]. destruct (H c1 eq_refl) as (A & B & C). apply IH; congruence.
  - destruct (chan_output_in _ _ _ _ Hout) as (_ & A & B & C). apply IH; congruence.
Qed.

Theorem run_reader_never_passes_fault prof fuel p c r : in_fault c = Some r -> (in_pos c <= r)%N ->
  match exec_program prof fuel p c with
  | XOk _ e' | XErr _ e' =>
      (in_pos (chan e') <= r)%N /\ (in_pos (chan e') + byte_len (in_rest (chan e')) = in_pos c + byte_len (in_rest c))%N
  | _ => True
  end.
Proof.
  intros Hf Hp. pose proof (exec_program_io prof fuel p c) as H.
  destruct (exec_program prof fuel p c) as [xs e'|x e'| | | |]; auto; destruct H as [tr Hs];
    (split; [eapply trace_read_fault; eauto|apply (trace_positions _ _ _ Hs)]).
Qed.
