(** Exactness of f64 addition on integers below 2^53 (C14: building a number up and knocking it
    down restores it; C11: integer literals).  This is the only file of the development that uses
    Flocq and the real numbers; its theorems depend on the axioms of Coq's standard library of
    reals (listed by Print Assumptions under the property theorems that use it). *)
From Coq Require Import ZArith Reals Lia Lra List Bool Floats.SpecFloat.
From Flocq Require Import Core.Zaux Core.Raux Core.Defs Core.Float_prop Core.Generic_fmt Core.FLT Core.FLX Core.Round_NE
                          Core.Round_pred IEEE754.BinarySingleNaN.
From RRSS Require Import Base.F64.

Local Instance Hprec : FLX.Prec_gt_0 prec := eq_refl _.
Local Instance Hmax : Prec_lt_emax prec emax := eq_refl _.

(** * Coq's SpecFloat operations are Flocq's (the four bridging lemmas of Flocq's PrimFloat.v,
    re-proved here so that the primitive-float axioms of that file are not loaded) *)
Lemma round_nearest_even_equiv s m l : round_nearest_even m l = choice_mode mode_NE s m l.
Proof.
  case l; [reflexivity|intro c]. case c; [ | reflexivity..].
  now simpl; unfold Round.cond_incr; case Z.even.
Qed.

Lemma binary_round_aux_equiv sx mx ex lx :
  SpecFloat.binary_round_aux prec emax sx mx ex lx = binary_round_aux prec emax mode_NE sx mx ex lx.
Proof.
  unfold SpecFloat.binary_round_aux, binary_round_aux.
  set (mrse' := shr_fexp _ _ _). case mrse'; intros mrs' e'; simpl.
  now rewrite (round_nearest_even_equiv sx).
Qed.

Lemma binary_round_equiv s m e :
  SpecFloat.binary_round prec emax s m e = binary_round prec emax mode_NE s m e.
Proof.
  unfold SpecFloat.binary_round, binary_round, shl_align_fexp.
  set (mez := shl_align _ _ _); case mez as [mz ez]. apply binary_round_aux_equiv.
Qed.

Lemma binary_normalize_equiv m e szero :
  SpecFloat.binary_normalize prec emax m e szero = B2SF (binary_normalize prec emax Hprec Hmax mode_NE m e szero).
Proof.
  case m as [ | p | p].
  - now simpl.
  - simpl; rewrite B2SF_SF2B; apply binary_round_equiv.
  - simpl; rewrite B2SF_SF2B; apply binary_round_equiv.
Qed.

(** * Integers *)
Definition Bz (z : Z) : binary_float prec emax := binary_normalize prec emax Hprec Hmax mode_NE z 0 false.

Lemma f_of_Z_B z : f_of_Z z = B2SF (Bz z).
Proof. apply binary_normalize_equiv. Qed.

Lemma fadd_B (x y : binary_float prec emax) : fadd (B2SF x) (B2SF y) = B2SF (Bplus mode_NE x y).
Proof.
  unfold fadd. destruct x as [sx|sx| |sx mx ex Bx], y as [sy|sy| |sy my ey By];
    try reflexivity; try (simpl; case Bool.eqb; reflexivity).
  apply binary_normalize_equiv.
Qed.

Notation fexp := (FLT_exp (3 - emax - prec) prec).

Lemma int_format z : (Z.abs z < 2 ^ 53)%Z -> generic_format radix2 fexp (IZR z).
Proof.
  intro H. apply generic_format_FLT. exists (Float radix2 z 0).
  - unfold F2R; simpl. lra.
  - simpl. exact H.
  - simpl. unfold emax, prec. lia.
Qed.

Lemma IZR_lt_emax z : (Z.abs z < 2 ^ 53)%Z -> (Rabs (IZR z) < bpow radix2 emax)%R.
Proof.
  intro H. rewrite <- abs_IZR. apply Rlt_le_trans with (IZR (2 ^ 53)).
  - apply IZR_lt. exact H.
  - change (IZR (2 ^ 53)) with (bpow radix2 53). apply bpow_le. unfold emax. lia.
Qed.

Lemma Bz_correct z : (Z.abs z < 2 ^ 53)%Z ->
  B2R (Bz z) = IZR z /\ is_finite (Bz z) = true /\ Bsign (Bz z) = (z <? 0)%Z.
Proof.
  intro H. pose proof (binary_normalize_correct prec emax Hprec Hmax mode_NE z 0 false) as C.
  cbv zeta in C. fold (Bz z) in C.
  assert (Ex : F2R (Float radix2 z 0) = IZR z) by (unfold F2R; simpl; lra).
  rewrite Ex in C. rewrite round_generic in C; [|apply valid_rnd_N|apply int_format; exact H].
  rewrite Rlt_bool_true in C by (apply IZR_lt_emax; exact H).
  destruct C as (C1 & C2 & C3). repeat split; auto. rewrite C3.
  destruct (Rcompare_spec (IZR z) 0) as [Hl|He|Hg].
  - apply lt_IZR in Hl. symmetry. apply Z.ltb_lt. exact Hl.
  - apply eq_IZR in He. subst z. reflexivity.
  - apply lt_IZR in Hg. symmetry. apply Z.ltb_ge. lia.
Qed.

(** addition of two integers whose sum stays below 2^53 is exact *)
Theorem Bplus_int a k :
  (Z.abs a < 2 ^ 53)%Z -> (Z.abs k < 2 ^ 53)%Z -> (Z.abs (a + k) < 2 ^ 53)%Z ->
  Bplus mode_NE (Bz a) (Bz k) = Bz (a + k).
Proof.
  intros Ha Hk Hs.
  destruct (Bz_correct a Ha) as (Ra & Fa & Sa). destruct (Bz_correct k Hk) as (Rk & Fk & Sk).
  destruct (Bz_correct (a + k) Hs) as (Rs & Fs & Ss).
  pose proof (Bplus_correct prec emax Hprec Hmax mode_NE (Bz a) (Bz k) Fa Fk) as C.
  rewrite Ra, Rk, <- plus_IZR in C.
  rewrite round_generic in C; [|apply valid_rnd_N|apply int_format; exact Hs].
  rewrite Rlt_bool_true in C by (apply IZR_lt_emax; exact Hs).
  destruct C as (C1 & C2 & C3).
  apply B2R_Bsign_inj; auto.
  - rewrite C1, Rs. reflexivity.
  - rewrite C3, Ss, Sa, Sk.
    destruct (Rcompare_spec (IZR (a + k)) 0) as [Hl|He|Hg].
    + apply lt_IZR in Hl. symmetry. apply Z.ltb_lt. exact Hl.
    + apply eq_IZR in He. rewrite He. cbn.
      destruct (a <? 0)%Z eqn:E1, (k <? 0)%Z eqn:E2; cbn; auto.
      apply Z.ltb_lt in E1, E2. lia.
    + apply lt_IZR in Hg. symmetry. apply Z.ltb_ge. lia.
Qed.

Theorem fadd_int a k :
  (Z.abs a < 2 ^ 53)%Z -> (Z.abs k < 2 ^ 53)%Z -> (Z.abs (a + k) < 2 ^ 53)%Z ->
  fadd (f_of_Z a) (f_of_Z k) = f_of_Z (a + k).
Proof. intros Ha Hk Hs. rewrite !f_of_Z_B, fadd_B, Bplus_int; auto. Qed.

(** * C14: building a number up and knocking it down *)
From RRSS Require Import Base.Outcome Base.Chars Exec.Val Proofs.ValLaws.

Theorem inc_dec_restores_int a k :
  (Z.abs a < 2 ^ 53)%Z -> (Z.abs k < 2 ^ 53)%Z -> (Z.abs (a + k) < 2 ^ 53)%Z ->
  (let* v := v_inc (VNum (f_of_Z a)) k in v_inc v (- k)%Z) = Ok (VNum (f_of_Z a)).
Proof.
  intros Ha Hk Hs. cbn [v_inc bind]. rewrite (fadd_int a k Ha Hk Hs).
  assert (H1 : (Z.abs (- k) < 2 ^ 53)%Z) by lia.
  assert (H2 : (Z.abs (a + k + - k) < 2 ^ 53)%Z) by (replace (a + k + - k)%Z with a by lia; exact Ha).
  rewrite (fadd_int (a + k) (- k) Hs H1 H2). do 3 f_equal. lia.
Qed.

Lemma iter_inc_int n : forall k a,
  (forall i, (i <= n)%nat -> Z.abs (a + Z.of_nat i * k) < 2 ^ 53)%Z -> (Z.abs k < 2 ^ 53)%Z ->
  iter_inc n k (VNum (f_of_Z a)) = Ok (VNum (f_of_Z (a + Z.of_nat n * k))).
Proof.
  induction n as [|n IH]; intros k a Hr Hk.
  - cbn. do 3 f_equal. lia.
  - cbn [iter_inc v_inc bind].
    assert (H0 : (Z.abs a < 2 ^ 53)%Z) by (specialize (Hr 0%nat ltac:(lia)); replace (a + Z.of_nat 0 * k)%Z with a in Hr by lia; exact Hr).
    assert (H1 : (Z.abs (a + k) < 2 ^ 53)%Z) by (specialize (Hr 1%nat ltac:(lia)); replace (a + Z.of_nat 1 * k)%Z with (a + k)%Z in Hr by lia; exact Hr).
    rewrite (fadd_int a k H0 Hk H1). rewrite IH; auto.
    + do 3 f_equal. lia.
    + intros i Hi. specialize (Hr (S i) ltac:(lia)). replace (a + k + Z.of_nat i * k)%Z with (a + Z.of_nat (S i) * k)%Z by lia. exact Hr.
Qed.

(** `build x up` n times and then `knock x down` n times restores every integer x, as long as the
    values passed through stay below 2^53 in magnitude *)
Theorem build_knock_restores_int a n :
  (Z.abs a + Z.of_nat n < 2 ^ 53)%Z ->
  (let* v := iter_inc n 1 (VNum (f_of_Z a)) in iter_inc n (-1) v) = Ok (VNum (f_of_Z a)).
Proof.
  intro H. rewrite iter_inc_int; [|intros; lia|cbn; lia]. cbn [bind].
  rewrite iter_inc_int; [|intros; lia|cbn; lia]. do 3 f_equal. lia.
Qed.

(** * C11: a poetic literal without a period and with at most 15 digits denotes exactly its integer *)
From RRSS Require Import Front.Ast Front.Poetic Proofs.PoeticLaws.
Import ListNotations.

Lemma fadd_negzero y : fadd fnegzero y = y.
Proof. destruct y as [[|]|[|]| |s m e]; reflexivity. Qed.

(** digit times power of ten, for every digit and every exponent below 15: by evaluation *)
Definition digit_exps : list (N * Z) :=
  flat_map (fun e => map (fun d => (d, e)) [0; 1; 2; 3; 4; 5; 6; 7; 8; 9]%N) [0; 1; 2; 3; 4; 5; 6; 7; 8; 9; 10; 11; 12; 13; 14]%Z.

Lemma term_table :
  map (fun p => fmul (f_of_N (fst p)) (fpowi (f_of_Z 10) (snd p))) digit_exps =
  map (fun p => f_of_Z (Z.of_N (fst p) * 10 ^ snd p)) digit_exps.
Proof. vm_compute. reflexivity. Qed.

Lemma map_eq_in' {A B} (f g : A -> B) l x : map f l = map g l -> In x l -> f x = g x.
Proof. induction l as [|y t IH]; cbn; [contradiction|]. intros H [->|Hin]; injection H; auto. Qed.

Lemma term_exact d e : (d < 10)%N -> (0 <= e <= 14)%Z ->
  fmul (f_of_N d) (fpowi (f_of_Z 10) e) = f_of_Z (Z.of_N d * 10 ^ e).
Proof.
  intros Hd He. apply (map_eq_in' _ _ digit_exps (d, e) term_table).
  unfold digit_exps. apply in_flat_map. exists e. split.
  - assert (H : (e = 0 \/ e = 1 \/ e = 2 \/ e = 3 \/ e = 4 \/ e = 5 \/ e = 6 \/ e = 7 \/ e = 8 \/ e = 9 \/ e = 10 \/ e = 11 \/
                e = 12 \/ e = 13 \/ e = 14)%Z) by lia.
    cbn. intuition.
  - apply in_map_iff. exists d. split; auto.
    assert (H : (d = 0 \/ d = 1 \/ d = 2 \/ d = 3 \/ d = 4 \/ d = 5 \/ d = 6 \/ d = 7 \/ d = 8 \/ d = 9)%N) by lia.
    cbn. intuition.
Qed.

Definition sum_terms_f := sum_terms (T := f64) f_of_N fmul fadd (fun n => fpowi (f_of_Z 10) n).

Lemma sum_terms_f_exact ds : forall A,
  Forall (fun d => (d < 10)%N) ds -> (length ds <= 15)%nat ->
  (0 <= A)%Z -> (A + 10 ^ Z.of_nat (length ds) <= 10 ^ 15)%Z ->
  sum_terms_f ds (Z.of_nat (length ds) - 1) (f_of_Z A) = f_of_Z (sum_terms_Z ds (Z.of_nat (length ds) - 1) A).
Proof.
  induction ds as [|d t IH]; intros A Hd Hl HA Hb; [reflexivity|].
  inversion Hd as [|? ? Hd1 Hd2]; subst. cbn [length] in *.
  unfold sum_terms_f, sum_terms_Z in *. cbn [sum_terms].
  replace (Z.of_nat (S (length t)) - 1)%Z with (Z.of_nat (length t)) by lia.
  assert (He : (0 <= Z.of_nat (length t) <= 14)%Z) by lia.
  rewrite (term_exact d _ Hd1 He).
  assert (Hp : (0 < 10 ^ Z.of_nat (length t))%Z) by (apply Z.pow_pos_nonneg; lia).
  assert (Hs : (10 ^ Z.of_nat (S (length t)) = 10 * 10 ^ Z.of_nat (length t))%Z) by (rewrite Nat2Z.inj_succ, Z.pow_succ_r; lia).
  assert (H15 : (10 ^ 15 < 2 ^ 53)%Z) by (vm_compute; reflexivity).
  assert (Hterm : (0 <= Z.of_N d * 10 ^ Z.of_nat (length t) <= 9 * 10 ^ Z.of_nat (length t))%Z) by nia.
  rewrite fadd_int; try lia.
  specialize (IH (A + Z.of_N d * 10 ^ Z.of_nat (length t))%Z Hd2 ltac:(lia) ltac:(lia) ltac:(lia)).
  replace (Z.of_nat (length t) - 1 + 1 - 1)%Z with (Z.of_nat (length t) - 1)%Z by lia.
  exact IH.
Qed.

(** the f64 value of an integer poetic literal of up to 15 digits is exactly that integer *)
Theorem poetic_integer_exact elems :
  poetic_int_digits elems = Z.of_nat (length (poetic_digits elems)) ->
  (1 <= length (poetic_digits elems) <= 15)%nat ->
  compute_value elems = f_of_Z (number (poetic_digits elems)).
Proof.
  intros Hint Hlen. unfold compute_value, compute_value_gen. rewrite Hint.
  set (ds := poetic_digits elems) in *.
  assert (Hd : Forall (fun d => (d < 10)%N) ds).
  { unfold ds, poetic_digits. apply Forall_forall. intros x Hx. apply in_map_iff in Hx as (i & <- & _). apply N.mod_lt. discriminate. }
  destruct ds as [|d t] eqn:Eds; [cbn in Hlen; lia|].
  inversion Hd as [|? ? Hd1 Hd2]; subst. cbn [length] in *.
  cbn [sum_terms]. replace (Z.of_nat (S (length t)) - 1)%Z with (Z.of_nat (length t)) by lia.
  rewrite (term_exact d _ Hd1) by lia. rewrite fadd_negzero.
  assert (Hp : (0 < 10 ^ Z.of_nat (length t))%Z) by (apply Z.pow_pos_nonneg; lia).
  pose proof (sum_terms_f_exact t (Z.of_N d * 10 ^ Z.of_nat (length t))%Z Hd2 ltac:(lia) ltac:(nia)) as E.
  unfold sum_terms_f in E. replace (Z.of_nat (length t) - 1)%Z with (Z.of_nat (length t) - 1)%Z in E by lia.
  rewrite E.
  - f_equal. rewrite sum_terms_Z_spec. unfold number at 2. cbn [number_from fold_left].
    fold (number_from (10 * 0 + Z.of_N d) t). rewrite number_from_split. lia.
  - assert (Hs : (10 ^ Z.of_nat (S (length t)) = 10 * 10 ^ Z.of_nat (length t))%Z) by (rewrite Nat2Z.inj_succ, Z.pow_succ_r; lia).
    assert (Hle : (10 ^ Z.of_nat (S (length t)) <= 10 ^ 15)%Z) by (apply Z.pow_le_mono_r; lia).
    assert (Hd9 : (Z.of_N d <= 9)%Z) by lia. nia.
Qed.
