(** Consequences of the digit bound (Proofs/DigitBound.v) for the linter: for every number in the
    binary64 range that has a poetic spelling, the template is produced (no budget, no underflow site)
    and reading it back gives exactly the printed numeral. *)
From Coq Require Import List ZArith NArith Bool Lia Floats.SpecFloat.
From RRSS Require Import Base.Outcome Base.Chars Base.F64 Base.F64Text Front.Ast Lint.Lint.
From RRSS Require Import Proofs.DigitBound Proofs.SuggestLaws.
Import ListNotations.
Open Scope N_scope.

Lemma decimal_is_digit_or_dot c : decimal_char c = digit_or_dot c.
Proof. unfold decimal_char, digit_or_dot. apply orb_comm. Qed.

Lemma poetic_nonneg v : has_poetic_spelling v = true ->
  match v with S754_zero false | S754_finite false _ _ => True | _ => False end.
Proof. destruct v as [s|s| |s m e]; cbn; try discriminate; destruct s; cbn; auto; discriminate. Qed.

Theorem display_digit_or_dot v :
  f_in_range v -> has_poetic_spelling v = true -> forallb digit_or_dot (f64_display v) = true.
Proof.
  intros Hr Hp. pose proof (display_decimal v Hr (poetic_nonneg v Hp)) as H.
  induction (f64_display v) as [|c t IH]; cbn [forallb] in *; auto.
  apply andb_true_iff in H as [Hc Ht]. rewrite <- decimal_is_digit_or_dot, Hc. cbn. auto.
Qed.

Lemma template_text_ok chars : forall first, forallb decimal_char chars = true -> exists t, template_text chars first = Ok t.
Proof.
  induction chars as [|c r IH]; intros first H; cbn [template_text]; [eauto|].
  cbn [forallb] in H. apply andb_true_iff in H as [Hc Hr].
  destruct (c =? 46) eqn:E46.
  - destruct (IH false Hr) as [t ->]. cbn. eauto.
  - unfold decimal_char in Hc. rewrite E46 in Hc. cbn in Hc. apply andb_true_iff in Hc as [H1 H2].
    apply N.leb_le in H1, H2.
    destruct (c <? 48) eqn:E; [apply N.ltb_lt in E; lia|].
    assert (Hn : (100000 <? (if c - 48 =? 0 then 10 else c - 48)) = false).
    { apply N.ltb_ge. destruct (c - 48 =? 0); lia. }
    rewrite Hn. destruct (IH false Hr) as [t ->]. cbn. eauto.
Qed.

(** the template of a binary64 number with a poetic spelling always exists ... *)
Theorem numeric_template_exists v :
  f_in_range v -> has_poetic_spelling v = true -> exists t, template_text (f64_display v) true = Ok t.
Proof. intros Hr Hp. apply template_text_ok. apply display_decimal; auto. apply poetic_nonneg; auto. Qed.

(** ... and spells exactly the numeral the diagnostic reports *)
Theorem numeric_template_spells_value v t :
  f_in_range v -> has_poetic_spelling v = true ->
  template_text (f64_display v) true = Ok t -> read_template t 0 [] = f64_display v.
Proof. intros Hr Hp Ht. apply template_spells_value; auto. apply display_digit_or_dot; auto. Qed.

(** the numeric diagnostic is always produced: neither of the two failure sites of the linter is reachable *)
Theorem numeric_diag_ok pre sep var v ln : f_in_range v -> exists ds, numeric_diag pre sep var v ln = Ok ds.
Proof.
  intro Hr. unfold numeric_diag. destruct (has_poetic_spelling v) eqn:E.
  - destruct (numeric_template_exists v Hr E) as [t ->]. cbn. eauto.
  - cbn. eauto.
Qed.
