(** The build profile does not matter: a debug build and a release build of the interpreter compute the same run.
    The only places where the model consults the profile are the [debug_assert]s (sites 20, 31-34); a debug run
    therefore either equals the release run or stops at a failed assertion ([R], one induction on fuel with no
    invariant), and a debug run never stops at one (C09_exec_no_crash).  Hence equality. *)
From Coq Require Import List ZArith NArith Bool Lia.
From RRSS Require Import Base.Outcome Base.Chars Base.F64 Exec.Val Exec.Ops Front.Ast Exec.Env Exec.Interp.
Import ListNotations.

Definition R {A} (d r : xres A) : Prop := d = r \/ exists s, d = XPanic s.

Lemma R_refl {A} (x : xres A) : R x x.
Proof. left. reflexivity. Qed.

Lemma R_bind {A B} (md mr : xres A) (kd kr : A -> env -> xres B) :
  R md mr -> (forall a e, R (kd a e) (kr a e)) -> R (xbind md kd) (xbind mr kr).
Proof.
  intros [->|[s ->]] Hk; [|right; eexists; reflexivity].
  destruct mr; cbn; try apply R_refl. apply Hk.
Qed.

Lemma R_settle (d r : xres inner) : R d r -> R (settle d) (settle r).
Proof. intros [->|[s ->]]; [apply R_refl|right; eexists; reflexivity]. Qed.

Lemma R_absorb {A} (d r : xres A) kd kr : R d r -> (forall a e, R (kd a e) (kr a e)) -> R (absorb d kd) (absorb r kr).
Proof.
  intros [->|[s ->]] Hk; [|right; eexists; reflexivity]. destruct r; cbn; try apply R_refl. apply Hk.
Qed.

Lemma R_pop e e0 : R (lift_env (pop_scope Debug e) e0) (lift_env (pop_scope Release e) e0).
Proof.
  unfold pop_scope, debug_assert. destruct (1 <? len (scopes e))%N; cbn; [apply R_refl|right; eexists; reflexivity].
Qed.

Arguments pop_scope : simpl never.
Arguments debug_assert : simpl never.

Record PR (f : nat) : Prop := mkPR {
  pr_expr : forall x e, R (produce_expr Debug f x e) (produce_expr Release f x e);
  pr_primary : forall p e, R (produce_primary Debug f p e) (produce_primary Release f p e);
  pr_fold : forall op acc l e, R (fold_rhs Debug f op acc l e) (fold_rhs Release f op acc l e);
  pr_args : forall l e, R (produce_args Debug f l e) (produce_args Release f l e);
  pr_call : forall n args e, R (call_function Debug f n args e) (call_function Release f n args e);
  pr_wprimary : forall w p e, R (write_primary Debug f w p e) (write_primary Release f w p e);
  pr_wsub : forall w a s keys e, R (write_subscript Debug f w a s keys e) (write_subscript Release f w a s keys e);
  pr_wexpr : forall w x e, R (write_expr Debug f w x e) (write_expr Release f w x e);
  pr_wexprs : forall w l e, R (write_exprs Debug f w l e) (write_exprs Release f w l e);
  pr_stmt : forall s xs e, R (exec_stmt Debug f s xs e) (exec_stmt Release f s xs e);
  pr_block : forall b xs e, R (exec_block Debug f b xs e) (exec_block Release f b xs e);
  pr_stmts : forall ss xs e, R (exec_stmts Debug f ss xs e) (exec_stmts Release f ss xs e);
  pr_loop : forall inv c b xs e, R (exec_loop Debug f inv c b xs e) (exec_loop Release f inv c b xs e)
}.

Lemma PR_0 : PR 0.
Proof. constructor; intros; apply R_refl. Qed.

Ltac rstep :=
  match goal with
  | |- R ?x ?x => apply R_refl
  | |- R (xbind (lift_env (pop_scope Debug ?e) _) _) _ =>
      unfold pop_scope, debug_assert; destruct (1 <? len (scopes e))%N; [cbn|right; eexists; reflexivity]
  | |- R (xbind _ _) (xbind _ _) => apply R_bind; [|intros ? ?]
  | |- R (settle _) (settle _) => apply R_settle
  | |- R (absorb _ _) (absorb _ _) => apply R_absorb; [|intros ? ?]
  | |- R (lift_env (pop_scope Debug _) _) (lift_env (pop_scope Release _) _) => apply R_pop
  | |- R (match ?x with _ => _ end) (match ?x with _ => _ end) => destruct x
  | |- R (if ?x then _ else _) (if ?x then _ else _) => destruct x
  | |- R (let '(_, _) := ?x in _) (let '(_, _) := ?x in _) => destruct x
  | |- R (match debug_assert Debug _ ?c with _ => _ end) _ =>
      unfold debug_assert; destruct c; cbv beta iota; [|right; eexists; reflexivity]
  | |- R (match (if ?c then Ok tt else Panic _) with _ => _ end) _ =>
      destruct c; cbv beta iota; [|right; eexists; reflexivity]
  | |- R (match ?d with _ => _ end) (match ?r with _ => _ end) =>
      let H := fresh "Hm" in
      assert (H : R d r); [|destruct H as [->|[? ->]]; [apply R_refl|right; eexists; reflexivity]]
  | H : forall x e, R (produce_expr Debug _ x e) _ |- R (produce_expr Debug _ _ _) _ => apply H
  | H : forall x e, R (produce_primary Debug _ x e) _ |- R (produce_primary Debug _ _ _) _ => apply H
  | H : forall a b c d, R (fold_rhs Debug _ a b c d) _ |- R (fold_rhs Debug _ _ _ _ _) _ => apply H
  | H : forall a b, R (produce_args Debug _ a b) _ |- R (produce_args Debug _ _ _) _ => apply H
  | H : forall a b c, R (call_function Debug _ a b c) _ |- R (call_function Debug _ _ _ _) _ => apply H
  | H : forall a b c, R (write_primary Debug _ a b c) _ |- R (write_primary Debug _ _ _ _) _ => apply H
  | H : forall a b c d e, R (write_subscript Debug _ a b c d e) _ |- R (write_subscript Debug _ _ _ _ _ _) _ => apply H
  | H : forall a b c, R (write_expr Debug _ a b c) _ |- R (write_expr Debug _ _ _ _) _ => apply H
  | H : forall a b c, R (write_exprs Debug _ a b c) _ |- R (write_exprs Debug _ _ _ _) _ => apply H
  | H : forall a b c, R (exec_stmt Debug _ a b c) _ |- R (exec_stmt Debug _ _ _ _) _ => apply H
  | H : forall a b c, R (exec_block Debug _ a b c) _ |- R (exec_block Debug _ _ _ _) _ => apply H
  | H : forall a b c, R (exec_stmts Debug _ a b c) _ |- R (exec_stmts Debug _ _ _ _) _ => apply H
  | H : forall a b c d e, R (exec_loop Debug _ a b c d e) _ |- R (exec_loop Debug _ _ _ _ _ _) _ => apply H
  end.

Lemma PR_S f : PR f -> PR (S f).
Proof.
  intros [Hexpr Hprimary Hfold Hargs Hcall Hwp Hwsub Hwexpr Hwexprs Hstmt Hblock Hstmts Hloop].
  constructor.
  - intros x e. destruct x; simpl; repeat rstep.
  - intros p e. destruct p; simpl; repeat rstep.
  - intros op acc l e. destruct l; simpl; repeat rstep.
  - intros l e. destruct l; simpl; repeat rstep.
  - intros n args e. simpl. repeat rstep.
  - intros w p e. destruct p; simpl; repeat rstep.
  - intros w a s keys e. simpl. repeat rstep.
  - intros w x e. destruct x; simpl; repeat rstep.
  - intros w l e. destruct l; simpl; repeat rstep.
  - intros s xs e. simpl. destruct (tick e); [|apply R_refl]. destruct s; simpl; repeat rstep.
  - intros b xs e. destruct b; simpl; repeat rstep.
  - intros ss xs e. destruct ss; simpl; repeat rstep.
  - intros inv c b xs e. simpl. repeat rstep.
Qed.

Theorem PR_all f : PR f.
Proof. induction f; [apply PR_0|apply PR_S; auto]. Qed.

Lemma exec_blocks_R fuel : forall bs xs e, R (exec_blocks Debug fuel bs xs e) (exec_blocks Release fuel bs xs e).
Proof.
  induction bs as [|b t IH]; intros xs e; cbn [exec_blocks]; [apply R_refl|].
  apply R_bind; [apply (pr_block fuel (PR_all fuel))|]. intros xs1 e1.
  destruct (skip_rest (xflag xs1)); [apply R_refl|apply IH].
Qed.

Lemma exec_program_R fuel p c : R (exec_program Debug fuel p c) (exec_program Release fuel p c).
Proof. apply exec_blocks_R. Qed.

From RRSS Require Import Proofs.InterpLaws.

(** ** a debug build and a release build compute the same run: same output, same final state, same outcome *)
Theorem profile_irrelevant fuel p c : exec_program Debug fuel p c = exec_program Release fuel p c.
Proof.
  destruct (exec_program_R fuel p c) as [H|[s H]]; [exact H|].
  pose proof (exec_no_crash Debug fuel p c) as N. rewrite H in N. contradiction.
Qed.
