(** Arithmetic never leaves binary64: every number produced by a value operation from binary64 operands —
    + - * /, negation, increment, the three roundings, casts of strings (by numeral or by radix), array lengths —
    is binary64 data ([valid_binary]: mantissa within 53 bits, exponent within the range).  Uses Flocq through
    Proofs/FloatValid.v (classical-reals axioms). *)
From Coq Require Import ZArith List Bool Lia Floats.SpecFloat.
From Flocq Require Import IEEE754.BinarySingleNaN.
From RRSS Require Import Base.Outcome Base.Chars Base.F64 Base.F64Text Exec.Val Proofs.FloatExact Proofs.FloatValid Proofs.LintValid.
Import ListNotations.

(** numbers are valid (arrays count by their length, which always is) *)
Definition nv (v : val) : Prop := match v with VNum x => fvalid x | _ => True end.
Definition nvr {E} (r : res E val) : Prop := match r with Ok v => nv v | _ => True end.

Lemma f_of_mag_valid s q : fvalid (f_of_mag s q).
Proof. unfold f_of_mag. destruct q; [reflexivity| |]; rewrite binary_normalize_equiv; apply fvalid_B. Qed.

Lemma fceil_valid x : fvalid x -> fvalid (fceil x).
Proof. intro H. unfold fceil. destruct x; auto. destruct (0 <=? e)%Z; auto. destruct (split_int m e) as [[q h] ex]. apply f_of_mag_valid. Qed.
Lemma ffloor_valid x : fvalid x -> fvalid (ffloor x).
Proof. intro H. unfold ffloor. destruct x; auto. destruct (0 <=? e)%Z; auto. destruct (split_int m e) as [[q h] ex]. apply f_of_mag_valid. Qed.
Lemma fround_valid x : fvalid x -> fvalid (fround x).
Proof. intro H. unfold fround. destruct x; auto. destruct (0 <=? e)%Z; auto. destruct (split_int m e) as [[q h] ex]. apply f_of_mag_valid. Qed.

Lemma decay_nv v : nv v -> nv (v_decay v).
Proof. destruct v; cbn; auto. intros _. apply f_of_N_valid. Qed.

Lemma arith_coerced_nv a b : nv a -> nv b -> nv (fst (arith_coerced a b)) /\ nv (snd (arith_coerced a b)).
Proof.
  intros Ha Hb. destruct a, b; cbn; auto; repeat split; auto; try apply f_of_N_valid; try reflexivity.
Qed.

Lemma plus_coerced_nv a b : nv a -> nv b -> nv (fst (plus_coerced a b)) /\ nv (snd (plus_coerced a b)).
Proof.
  intros Ha Hb. unfold plus_coerced.
  destruct a as [| | |x|s|xa xd]; cbn [is_str].
  all: try (destruct b as [| | |y|t|ya yd]; cbn; auto; repeat split; auto; try apply f_of_N_valid; try reflexivity; fail).
Qed.

Theorem v_plus_nv a b : nv a -> nv b -> nv (v_plus a b).
Proof.
  intros Ha Hb. unfold v_plus. destruct (plus_coerced_nv a b Ha Hb) as [H1 H2].
  destruct (plus_coerced a b) as [x y]. cbn in *. destruct x, y; cbn; auto. apply fadd_valid; auto.
Qed.

Theorem v_subtract_nv a b : nv a -> nv b -> nv (v_subtract a b).
Proof.
  intros Ha Hb. unfold v_subtract. destruct (arith_coerced_nv a b Ha Hb) as [H1 H2].
  destruct (arith_coerced a b) as [x y]. cbn in *. destruct x, y; cbn; auto. apply fsub_valid; auto.
Qed.

Theorem v_divide_nv a b : nv a -> nv b -> nv (v_divide a b).
Proof.
  intros Ha Hb. unfold v_divide. destruct (arith_coerced_nv a b Ha Hb) as [H1 H2].
  destruct (arith_coerced a b) as [x y]. cbn in *. destruct x, y; cbn; auto. apply fdiv_valid; auto.
Qed.

Theorem v_multiply_nv a b : nv a -> nv b -> nvr (v_multiply a b).
Proof.
  intros Ha Hb. unfold v_multiply. destruct (arith_coerced_nv a b Ha Hb) as [H1 H2].
  destruct (arith_coerced a b) as [x y]. cbn in *. destruct x, y; cbn; auto.
  - apply fmul_valid; auto.
  - destruct (fleb fzero f); cbn; auto. destruct (_ || _); cbn; auto.
Qed.

Theorem v_negate_nv a : nv a -> nvr (v_negate a).
Proof. destruct a; cbn; auto. apply fneg_valid. Qed.

Theorem v_inc_nv a k : nv a -> nvr (v_inc a k).
Proof.
  intro Ha. unfold v_inc. destruct a; cbn; auto.
  - apply fadd_valid; [reflexivity|apply f_of_Z_valid].
  - apply fadd_valid; [exact Ha|apply f_of_Z_valid].
Qed.

Theorem v_round_nv a : nv a -> nvr (v_round_up a) /\ nvr (v_round_down a) /\ nvr (v_round_nearest a).
Proof. destruct a; cbn; auto. intro H. repeat split; [apply fceil_valid|apply ffloor_valid|apply fround_valid]; auto. Qed.

Theorem v_cast_nv a p : nvr (v_cast a p).
Proof.
  unfold v_cast. destruct a; cbn; auto.
  - destruct p; cbn; auto. destruct (try_to_integer f); cbn; auto. destruct (_ && _); cbn; auto.
  - destruct p as [[| | |q| |]|]; cbn; auto.
    + destruct (try_to_integer q); cbn; auto. destruct (_ && _)%Z; cbn; auto. destruct (_ && _)%Z; cbn; auto.
      destruct (i64_from_str_radix s z); cbn; auto. apply f_of_Z_valid.
    + destruct (f64_parse s) eqn:E; cbn; auto. eapply f64_parse_valid; eauto.
Qed.

Theorem arithmetic_stays_binary64 a b :
  nv a -> nv b ->
  nv (v_plus a b) /\ nv (v_subtract a b) /\ nv (v_divide a b) /\ nvr (v_multiply a b) /\ nvr (v_negate a) /\
  (forall k, nvr (v_inc a k)) /\ nvr (v_round_up a) /\ nvr (v_round_down a) /\ nvr (v_round_nearest a) /\
  (forall p, nvr (v_cast a p)) /\ nv (v_decay a).
Proof.
  intros Ha Hb. destruct (v_round_nv a Ha) as (R1 & R2 & R3).
  repeat split; auto using v_plus_nv, v_subtract_nv, v_divide_nv, v_multiply_nv, v_negate_nv, v_inc_nv, v_cast_nv, decay_nv.
Qed.
