(** Consequences of the declarative grammar: the precedence ladder and left associativity, read
    off the trees it admits. *)
From Coq Require Import List ZArith NArith Bool Lia.
From RRSS Require Import Base.Outcome Base.Chars Base.F64 Exec.Ops Front.Ast Front.Token Front.Lexer Front.Parser Front.Grammar.
Import ListNotations.

(** binding level of an operator: a smaller number binds tighter *)
Definition lvl (op : binop) : nat :=
  match op with
  | OpMultiply | OpDivide => 2
  | OpPlus | OpMinus => 3
  | OpEq | OpNotEq | OpGreater | OpGreaterEq | OpLess | OpLessEq => 4
  | OpAnd | OpOr | OpNor => 5
  end.

(** [levels_ok L e]: [e] is admissible where an expression of level at most [L] is expected:
    the left operand of an operator binds at least as tightly as the operator (chains of one level
    nest to the left), every right operand binds strictly tighter *)
Fixpoint levels_ok (L : nat) (e : expr) : Prop :=
  match e with
  | EPrimary _ => True
  | EUnary _ x => (1 <= L)%nat /\ levels_ok 1 x
  | EBinary op l f rest =>
      (lvl op <= L)%nat /\ levels_ok (lvl op) l /\ levels_ok (lvl op - 1) f /\
      (fix all (r : list expr) : Prop := match r with [] => True | x :: t => levels_ok (lvl op - 1) x /\ all t end) rest
  end.

Fixpoint all_levels (L : nat) (r : list expr) : Prop :=
  match r with [] => True | x :: t => levels_ok L x /\ all_levels L t end.

Lemma levels_ok_binary L op l f rest :
  levels_ok L (EBinary op l f rest) <->
  (lvl op <= L)%nat /\ levels_ok (lvl op) l /\ levels_ok (lvl op - 1) f /\ all_levels (lvl op - 1) rest.
Proof.
  cbn [levels_ok].
  assert (H : forall r, (fix all (r : list expr) : Prop := match r with [] => True | x :: t => levels_ok (lvl op - 1) x /\ all t end) r
                        <-> all_levels (lvl op - 1) r).
  { induction r as [|x t IH]; cbn; [tauto|]. rewrite IH. tauto. }
  rewrite H. tauto.
Qed.

Lemma levels_ok_mono e : forall L L', (L <= L')%nat -> levels_ok L e -> levels_ok L' e.
Proof.
  destruct e as [p|op l f rest|op x]; intros L L' Hle H.
  - exact I.
  - rewrite levels_ok_binary in *. destruct H as (A & B). split; [lia|exact B].
  - cbn in *. destruct H. split; [lia|auto].
Qed.

Lemma all_levels_app L a b : all_levels L (a ++ b) <-> all_levels L a /\ all_levels L b.
Proof. induction a as [|x t IH]; cbn; [tauto|]. rewrite IH. tauto. Qed.

Lemma op_level L t op : is_one_of (ops_at L) t = true -> get_binary_operator (tid t) = Some op -> lvl op = L.
Proof.
  intros H1 H2. unfold is_one_of, ttype_in in H1.
  destruct L as [|[|[|[|[|[|L]]]]]]; cbn [ops_at existsb] in H1; try discriminate;
    destruct (tid t); cbn in H1; try discriminate; cbn in H2; injection H2 as <-; reflexivity.
Qed.

Lemma fancy_level tops op : g_fancy_op tops op -> lvl op = 4%nat.
Proof.
  destruct 1 as [|t Ht|t1 t2 op H1 H2 H3|t1 t2 t3 op H1 H2 H3 H4]; try reflexivity.
  - unfold is_one_of, ttype_in in H1. destruct (tid t1); cbn in H1; try discriminate; cbn in H2; injection H2 as <-; reflexivity.
  - unfold is_one_of, ttype_in in H2. destruct (tid t2); cbn in H2; try discriminate; cbn in H3; injection H3 as <-; reflexivity.
Qed.

Scheme g_nsp_mind := Induction for g_nsp Sort Prop
  with g_primary_mind := Induction for g_primary Sort Prop
  with g_mind := Induction for g Sort Prop
  with g_list_mind := Induction for g_list Sort Prop
  with g_args_mind := Induction for g_args Sort Prop.

(** ** the grammar's trees obey the precedence ladder *)
Theorem g_levels : forall L ts e, g L ts e -> levels_ok L e.
Proof.
  apply (g_mind (fun _ _ _ => True) (fun _ _ _ => True) (fun L ts e _ => levels_ok L e)
                (fun L ts r _ => all_levels L r) (fun _ _ _ => True)); intros; auto; try exact I.
  - cbn. split; [lia|assumption].
  - eapply levels_ok_mono; [|eassumption]. lia.
  - rewrite levels_ok_binary. rewrite (op_level (S L) t op) by assumption.
    replace (S L - 1)%nat with L by lia. auto.
  - rewrite levels_ok_binary. rewrite (fancy_level tops op) by assumption. cbn. auto.
  - apply all_levels_app. cbn. auto.
Qed.
