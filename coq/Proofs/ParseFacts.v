(** Structural facts about every tree the parser returns, read off the grammar ([parse_sound]): `build`/`knock`
    count at least one `up`/`down`, a function has at least one parameter and a call at least one argument, a
    poetic number literal has at least one word, an array literal pushed with `like` too. *)
From Coq Require Import List ZArith NArith Bool Lia.
From RRSS Require Import Base.Outcome Base.Chars Base.F64 Exec.Ops Front.Ast Front.Token Front.Lexer Front.Parser Front.Grammar.
From RRSS Require Import Proofs.GrammarLaws Proofs.ParseSound.
Import ListNotations.

Inductive ok_stmt : stmt -> Prop :=
  | ok_inc i r k : (1 <= k)%Z -> ok_stmt (SInc i r k)
  | ok_dec i r k : (1 <= k)%Z -> ok_stmt (SDec i r k)
  | ok_fun n r ps b : ps <> [] -> ok_block b -> ok_stmt (SFunction n r ps b)
  | ok_call n r args : args <> [] -> ok_stmt (SCall n r args)
  | ok_pnlit d el : el <> [] -> ok_stmt (SPoeticNum d (PNLit el))
  | ok_pnexpr d e : ok_stmt (SPoeticNum d (PNExpr e))
  | ok_pushlit a el : el <> [] -> ok_stmt (SPush a (Some (PushLit el)))
  | ok_pushlist a f rest : ok_stmt (SPush a (Some (PushList f rest)))
  | ok_pushnone a : ok_stmt (SPush a None)
  | ok_if c t e : ok_block t -> (forall b, e = Some b -> ok_block b) -> ok_stmt (SIf c t e)
  | ok_while c b : ok_block b -> ok_stmt (SWhile c b)
  | ok_until c b : ok_block b -> ok_stmt (SUntil c b)
  | ok_assign d f rest op : ok_stmt (SAssign d f rest op)
  | ok_pstr d s : ok_stmt (SPoeticStr d s)
  | ok_input d l : ok_stmt (SInput d l)
  | ok_output e : ok_stmt (SOutput e)
  | ok_mutation o p d x : ok_stmt (SMutation o p d x)
  | ok_rounding d e : ok_stmt (SRounding d e)
  | ok_continue r : ok_stmt (SContinue r)
  | ok_break r : ok_stmt (SBreak r)
  | ok_pop a d : ok_stmt (SPop a d)
  | ok_return e : ok_stmt (SReturn e)
with ok_block : block -> Prop :=
  | okb_empty l : ok_block (BEmpty l)
  | okb_ne ss : ss <> [] -> Forall ok_stmt ss -> ok_block (BNonEmpty ss).

Lemma g_args_ne ts args : g_args ts args -> args <> [].
Proof. destruct 1; [discriminate|]. destruct l; discriminate. Qed.

Lemma g_params_ne ts ps : g_params ts ps -> ps <> [].
Proof. destruct 1; [discriminate|]. destruct l; discriminate. Qed.

Lemma block_new_ok l ss : Forall ok_stmt ss -> ok_block (block_new l ss).
Proof. intro H. unfold block_new. destruct ss; [constructor|constructor; [discriminate|exact H]]. Qed.

Lemma g_stmt_ok : forall ts st, g_stmt ts st -> ok_stmt st
with g_block_ok : forall ts b, g_block ts b -> ok_block b
with g_stmts_ok : forall ts ss, g_stmts ts ss -> Forall ok_stmt ss.
Proof.
  - intros ts st H. destruct H; try (constructor; fail).
    + (* poetic literal *) constructor. assumption.
    + (* call *) constructor. eapply g_args_ne; eassumption.
    + (* function *) constructor; [eapply g_params_ne; eassumption|eapply g_block_ok; eassumption].
    + (* if *) constructor; [eapply g_block_ok; eassumption|]. intros b' Eb.
      match goal with Ho : _ \/ _ |- _ => destruct Ho as [[-> ->]|(x & tnl & tb & b0 & -> & Hx & Hnl & Hb & ->)] end; [discriminate|].
      injection Eb as <-. eapply g_block_ok; exact Hb.
    + constructor. eapply g_block_ok; eassumption.
    + constructor. eapply g_block_ok; eassumption.
    + (* build *) constructor. lia.
    + (* knock *) constructor. lia.
    + (* rock like *) constructor. assumption.
  - intros ts b H. destruct H; [constructor|]. apply block_new_ok. eapply g_stmts_ok; eassumption.
  - intros ts ss H. destruct H; [constructor|]. apply Forall_app. split.
    + eapply g_stmts_ok; eassumption.
    + constructor; [|constructor]. eapply g_stmt_ok; eassumption.
Qed.

Lemma g_program_ok ts p : g_program ts p -> Forall ok_block p.
Proof.
  induction 1 as [|ts p tb b Hp IH Hb]; [constructor|].
  destruct (block_is_empty b); [auto|]. apply Forall_app. split; auto. constructor; [|constructor]. eapply g_block_ok; eauto.
Qed.

(** ** every accepted program is structurally well formed *)
Theorem parse_wellformed prof src p : parse prof src = ParseOk p -> Forall ok_block p.
Proof. intro H. destruct (parse_sound prof src p H) as (pts & _ & Hg). eapply g_program_ok; eauto. Qed.
