(** Every f64 the model computes is a binary64 datum: the SpecFloat operations used by the model keep the
    mantissa within 53 bits and the exponent within -1074..971 ([valid_binary]).  Each operation is shown equal
    to Flocq's operation on the dependent type [binary_float] (the bridging lemmas of Proofs/FloatExact.v, plus
    the ones for * and / and -), whose values are valid by construction.  Uses Flocq, hence the classical-reals
    axioms of Coq's standard library (named by Print Assumptions under the theorems that use this file). *)
From Coq Require Import ZArith Reals Lia List Bool Floats.SpecFloat.
From Flocq Require Import Core.Zaux Core.Raux Core.Defs Core.Generic_fmt Core.FLT Core.FLX IEEE754.BinarySingleNaN.
From RRSS Require Import Base.F64 Proofs.FloatExact.
Import ListNotations.

Local Instance Hprec : FLX.Prec_gt_0 prec := eq_refl _.
Local Instance Hmax : Prec_lt_emax prec emax := eq_refl _.

Definition fvalid (v : f64) : Prop := valid_binary prec emax v = true.

Lemma fvalid_B (b : binary_float prec emax) : fvalid (B2SF b).
Proof. apply valid_binary_B2SF. Qed.

Lemma fvalid_inv v : fvalid v -> exists b : binary_float prec emax, v = B2SF b.
Proof. intro H. exists (SF2B v H). symmetry. apply B2SF_SF2B. Qed.

Lemma fmul_B (x y : binary_float prec emax) : fmul (B2SF x) (B2SF y) = B2SF (Bmult mode_NE x y).
Proof.
  unfold fmul. destruct x as [sx|sx| |sx mx ex Bx], y as [sy|sy| |sy my ey By]; try reflexivity.
  simpl. rewrite B2SF_SF2B. apply binary_round_aux_equiv.
Qed.

Lemma fsub_B (x y : binary_float prec emax) : fsub (B2SF x) (B2SF y) = B2SF (Bminus mode_NE x y).
Proof.
  unfold fsub. destruct x as [sx|sx| |sx mx ex Bx], y as [sy|sy| |sy my ey By];
    try reflexivity; try (simpl; case Bool.eqb; reflexivity).
  simpl. unfold Zminus. rewrite <- cond_Zopp_negb. apply binary_normalize_equiv.
Qed.

Lemma fdiv_B (x y : binary_float prec emax) : fdiv (B2SF x) (B2SF y) = B2SF (Bdiv mode_NE x y).
Proof.
  unfold fdiv. destruct x as [sx|sx| |sx mx ex Bx], y as [sy|sy| |sy my ey By];
    try reflexivity; try (simpl; case Bool.eqb; reflexivity).
  simpl. rewrite B2SF_SF2B.
  set (melz := SFdiv_core_binary _ _ _ _ _ _). case melz as [[mz ez] lz].
  apply binary_round_aux_equiv.
Qed.

(** * closure *)
Theorem fadd_valid a b : fvalid a -> fvalid b -> fvalid (fadd a b).
Proof. intros Ha Hb. destruct (fvalid_inv a Ha) as [x ->], (fvalid_inv b Hb) as [y ->]. rewrite fadd_B. apply fvalid_B. Qed.
Theorem fsub_valid a b : fvalid a -> fvalid b -> fvalid (fsub a b).
Proof. intros Ha Hb. destruct (fvalid_inv a Ha) as [x ->], (fvalid_inv b Hb) as [y ->]. rewrite fsub_B. apply fvalid_B. Qed.
Theorem fmul_valid a b : fvalid a -> fvalid b -> fvalid (fmul a b).
Proof. intros Ha Hb. destruct (fvalid_inv a Ha) as [x ->], (fvalid_inv b Hb) as [y ->]. rewrite fmul_B. apply fvalid_B. Qed.
Theorem fdiv_valid a b : fvalid a -> fvalid b -> fvalid (fdiv a b).
Proof. intros Ha Hb. destruct (fvalid_inv a Ha) as [x ->], (fvalid_inv b Hb) as [y ->]. rewrite fdiv_B. apply fvalid_B. Qed.

Theorem fneg_valid a : fvalid a -> fvalid (fneg a).
Proof. unfold fvalid, fneg. destruct a; cbn; auto. Qed.

Theorem f_of_Z_valid z : fvalid (f_of_Z z).
Proof. rewrite f_of_Z_B. apply fvalid_B. Qed.

Theorem f_of_N_valid n : fvalid (f_of_N n).
Proof. apply f_of_Z_valid. Qed.

Lemma const_valid : fvalid fzero /\ fvalid fnegzero /\ fvalid fnan /\ fvalid fone.
Proof. repeat split; reflexivity. Qed.

Lemma powi_loop_valid fuel : forall a acc n, fvalid a -> fvalid acc -> fvalid (powi_loop fuel a acc n).
Proof.
  induction fuel as [|f IH]; intros a acc n Ha Hacc; cbn [powi_loop]; auto.
  assert (Hr : fvalid (if Z.odd n then fmul acc a else acc)) by (destruct (Z.odd n); auto using fmul_valid).
  destruct (Z.div2 n =? 0)%Z; auto. apply IH; auto using fmul_valid.
Qed.

Theorem fpowi_valid a n : fvalid a -> fvalid (fpowi a n).
Proof.
  intro Ha. unfold fpowi. assert (H : fvalid (powi_loop 40 a fone (Z.abs n))) by (apply powi_loop_valid; auto; apply const_valid).
  destruct (n <? 0)%Z; auto. apply fdiv_valid; auto. apply const_valid.
Qed.
